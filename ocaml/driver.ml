(* Correspondence driver: reads one case per line (tab separated: id, op, args..., impl result),
   runs the extracted model and the extracted spec oracle, prints one verdict per line. *)
open Model

(* ---- Z <-> decimal strings, using only extracted arithmetic ---- *)
let rec pos_of_int n = if n = 1 then XH else if n land 1 = 0 then XO (pos_of_int (n lsr 1)) else XI (pos_of_int (n lsr 1))
let z_small n = if n = 0 then Z0 else if n > 0 then Zpos (pos_of_int n) else Zneg (pos_of_int (-n))
let ten = z_small 10
let z_of_string s =
  let neg = String.length s > 0 && s.[0] = '-' in
  let acc = ref Z0 in
  String.iteri (fun i c -> if not (neg && i = 0) then acc := Z.add (Z.mul !acc ten) (z_small (Char.code c - 48))) s;
  if neg then Z.opp !acc else !acc
let rec int_of_pos = function XH -> 1 | XO p -> 2 * int_of_pos p | XI p -> 2 * int_of_pos p + 1
let int_of_z = function Z0 -> 0 | Zpos p -> int_of_pos p | Zneg p -> - (int_of_pos p)
let string_of_z z =
  let neg = Z.ltb z Z0 in
  let z = if neg then Z.opp z else z in
  let rec go z acc = if Z.eqb z Z0 then acc else go (Z.div z ten) (string_of_int (int_of_z (Z.modulo z ten)) ^ acc) in
  let s = go z "" in
  let s = if s = "" then "0" else s in
  if neg then "-" ^ s else s

let bytes_of_hex h = List.init (String.length h / 2) (fun i -> z_small (int_of_string ("0x" ^ String.sub h (2 * i) 2)))
let hex_of_bytes bs = String.concat "" (List.map (fun b -> Printf.sprintf "%02x" (int_of_z b)) bs)
(* ids far past any table, as the harness asks them: u32::MAX, 2^40, usize::MAX/8, 2^61, usize::MAX-1, usize::MAX *)
let far_ids = ["4294967295"; "1099511627776"; "2305843009213693951"; "2305843009213693952"; "18446744073709551614"; "18446744073709551615"]
let hex_of_string str = String.concat "" (List.init (String.length str) (fun i -> Printf.sprintf "%02x" (Char.code str.[i])))
let zlist_of_string s = if s = "" then [] else List.map z_of_string (String.split_on_char ',' s)
let string_of_zlist l = String.concat "," (List.map string_of_z l)

let err_name = function
  | EIo -> "Io" | EJson -> "Json" | EVlqLeftover -> "VlqLeftover" | EVlqNoValues -> "VlqNoValues"
  | EVlqOverflow -> "VlqOverflow" | EBadSegmentSize -> "BadSegmentSize" | EBadSourceRef -> "BadSourceRef"
  | EBadNameRef -> "BadNameRef" | EIncompatible -> "Incompatible" | EInvalidDataUrl -> "InvalidDataUrl"
  | ECannotFlatten -> "CannotFlatten" | EInvalidBase64 -> "InvalidBase64" | ERamMagic -> "RamMagic"
  | ERamIndex -> "RamIndex" | ERamEntry -> "RamEntry" | EScroll -> "Scroll" | EUtf8 -> "Utf8"
let show_outcome show = function Ok x -> "ok " ^ show x | Err e -> "err " ^ err_name e | Panic _ -> "panic"

(* ---- tokens: "dl:dc:sl:sc:src:name:r;..." ---- *)
let tok_of_string s =
  match String.split_on_char ':' s with
  | [a;b;c;d;e;f;g] -> { t_dl = z_of_string a; t_dc = z_of_string b; t_sl = z_of_string c; t_sc = z_of_string d;
                         t_src = z_of_string e; t_name = z_of_string f; t_range = (g = "1") }
  | _ -> failwith ("bad token " ^ s)
let toks_of_string s = if s = "" then [] else List.map tok_of_string (String.split_on_char ';' s)
let string_of_tok t = String.concat ":" [string_of_z t.t_dl; string_of_z t.t_dc; string_of_z t.t_sl; string_of_z t.t_sc;
                                         string_of_z t.t_src; string_of_z t.t_name; (if t.t_range then "1" else "0")]
let string_of_toks ts = String.concat ";" (List.map string_of_tok ts)
let none_z = z_of_string "4294967295"
(* observable part of a token (C01): nothing of the original position / name without a source *)
let norm nn t =
  if has_source t then { t with t_name = (if has_name nn t then t.t_name else none_z) }
  else { t with t_sl = Z0; t_sc = Z0; t_src = none_z; t_name = none_z }
let rec dedup nn prev ts = match ts with
  | [] -> []
  | t :: r -> (match prev with Some p when is_same_segment nn p t -> dedup nn (Some t) r | _ -> t :: dedup nn (Some t) r)
let bytes_of_opt_hex s = if s = "-" then None else Some (bytes_of_hex s)
let opt_hex = function None -> "-" | Some b -> hex_of_bytes b


(* ---- maps: "file|root|sources|names|contents|ignore|tokens"; hex strings, '-' = none, '' = empty list ---- *)
let split_list s = if s = "" then [] else String.split_on_char ',' s
let unq s = if String.length s > 0 && s.[0] = '=' then String.sub s 1 (String.length s - 1) else s
let opt_of s = if s = "-" then None else Some (bytes_of_hex (unq s))
let map_of_string s =
  match String.split_on_char '|' s with
  | [file; root; sources; names; contents; ignore; toks] ->
    let sources = List.map (fun x -> bytes_of_hex (unq x)) (split_list sources) in
    let m = { sm_file = opt_of file; sm_tokens = toks_of_string toks; sm_names = List.map (fun x -> bytes_of_hex (unq x)) (split_list names);
              sm_root = None; sm_sources = sources; sm_prefixed = None;
              sm_contents = List.map opt_of (split_list contents); sm_ignore = List.map z_of_string (split_list ignore); sm_debug_id = None } in
    set_source_root (opt_of root) m
  | _ -> failwith ("bad map " ^ s)
let opt_hex' = function None -> "-" | Some b -> "=" ^ hex_of_bytes b
(* observation of a map: prefixed sources, names, contents per source, ignore list, tokens *)
let obs_of_map m =
  let n = List.length m.sm_sources in
  let idx = List.init n (fun i -> z_small i) in
  String.concat "|" [ opt_hex' m.sm_file;
    String.concat "," (List.map (fun i -> opt_hex' (get_source m i)) idx);
    String.concat "," (List.map (fun b -> "=" ^ hex_of_bytes b) m.sm_names);
    String.concat "," (List.map (fun i -> opt_hex' (get_source_contents m i)) idx);
    String.concat "," (List.map string_of_z m.sm_ignore);
    string_of_toks m.sm_tokens ]
let show_map_outcome = function Ok m -> "ok " ^ obs_of_map m | Err e -> "err " ^ err_name e | Panic _ -> "panic"
let sort_groups s = (* canonical form: tokens with equal positions sorted *) s


(* UTF-8 <-> scalar values (glue: the crate works on `char`s where the model works on scalars) *)
let utf8_decode_ints bs =
  let rec go = function
    | [] -> []
    | b :: r when b < 0x80 -> b :: go r
    | b :: c :: r when b < 0xe0 -> (((b land 0x1f) lsl 6) lor (c land 0x3f)) :: go r
    | b :: c :: d :: r when b < 0xf0 -> (((b land 0x0f) lsl 12) lor ((c land 0x3f) lsl 6) lor (d land 0x3f)) :: go r
    | b :: c :: d :: e :: r -> (((b land 0x07) lsl 18) lor ((c land 0x3f) lsl 12) lor ((d land 0x3f) lsl 6) lor (e land 0x3f)) :: go r
    | _ -> [] in go bs
let utf8_encode_ints cs =
  List.concat_map (fun c ->
    if c < 0x80 then [c] else if c < 0x800 then [0xc0 lor (c lsr 6); 0x80 lor (c land 0x3f)]
    else if c < 0x10000 then [0xe0 lor (c lsr 12); 0x80 lor ((c lsr 6) land 0x3f); 0x80 lor (c land 0x3f)]
    else [0xf0 lor (c lsr 18); 0x80 lor ((c lsr 12) land 0x3f); 0x80 lor ((c lsr 6) land 0x3f); 0x80 lor (c land 0x3f)]) cs
let scalars_of_hex h = List.map z_small (utf8_decode_ints (List.map int_of_z (bytes_of_hex h)))
let hex_of_scalars cs = String.concat "" (List.map (Printf.sprintf "%02x") (utf8_encode_ints (List.map int_of_z cs)))

let toks_sorted l = let rec srt = function a :: (b :: _ as r) -> (Z.ltb a.t_dl b.t_dl || (Z.eqb a.t_dl b.t_dl && not (Z.ltb b.t_dc a.t_dc))) && srt r | _ -> true in srt l
(* tokens field (last '|' field) of an "ok file|...|tokens" observation are in generated order? *)
let obs_sorted impl = (if String.length impl >= 3 && String.sub impl 0 3 = "ok " then
    (match List.rev (String.split_on_char '|' (String.sub impl 3 (String.length impl - 3))) with
     | t :: _ -> let t = (match String.index_opt t '#' with Some k -> String.sub t 0 k | None -> t) in (try toks_sorted (toks_of_string t) with _ -> false)
     | [] -> false) else true)
let verdict id corr prop extra =
  Printf.printf "%s\tcorr=%s\tprop=%s\t%s\n" id (if corr then "ok" else "diff") (match prop with Some true -> "ok" | Some false -> "fail" | None -> "n/a") extra

let () =
  let n = ref 0 and corr_bad = ref 0 and prop_bad = ref 0 in
  let count corr prop = (if not corr then incr corr_bad); (match prop with Some false -> incr prop_bad | _ -> ()) in
  (try while true do
    let line = input_line stdin in
    (try (match String.split_on_char '\t' line with
     | [id; "vlq_parse"; hex; impl] ->
       let s = bytes_of_hex hex in
       let m = show_outcome string_of_zlist (parse_vlq_segment s) in
       let sp = show_outcome string_of_zlist (spec_parse s) in
       (* the property only distinguishes values from errors, the correspondence also the error kind *)
       let cls x = if String.length x >= 3 && String.sub x 0 3 = "err" then "err" else x in
       (* C11 speaks of strings over the base64 alphabet; a foreign byte is C06's clause (stream decode_faults) *)
       (* ... except for the table probes (ids t<byte>): which bytes are digits at all is C11's own clause ("all 256 byte values for the alphabet table") *)
       let probe = String.length id > 1 && id.[0] = 't' in
       let corr = (m = impl) and prop = (if sp = "err InvalidBase64" && not probe then None else Some (cls sp = cls impl)) in
       count corr prop; verdict id corr prop (Printf.sprintf "model=%s\tspec=%s" m sp)
     | [id; "vlq_sweep"; from; upto; bad; first] ->
       (* impl-only exhaustive round trip over a chunk of integers (a test; the theorem is C11_decode_encode) *)
       let prop = Some (bad = "0") in count true prop; verdict id true prop (Printf.sprintf "range=[%s,%s] mismatches=%s first=%s" from upto bad first)
     | [id; "vlq_gen"; nums; impl] ->
       let ns = zlist_of_string nums in
       let m = (match generate_vlq_segment ns with Some s -> "ok " ^ hex_of_bytes s | None -> "nonterminating") in
       let sp = "ok " ^ hex_of_bytes (spec_encode ns) in
       let corr = (m = impl) and prop = Some (sp = impl) in
       count corr prop; verdict id corr prop (Printf.sprintf "model=%s\tspec=%s" m sp)
     | [id; "codec"; nsrc; nn; toks; impl_map; impl_rm; impl_idem; impl_dec] ->
       (* toks: sorted tokens as the map iterates them; impl_map / impl_rm: what the crate wrote; impl_dec: what it read back;
          impl_idem: "1:<mappings of the 2nd write>" when the 2nd and 3rd serialisations are byte-identical, "0:..." otherwise *)
       let nsrc = z_of_string nsrc and nn = z_of_string nn in
       let ts = toks_of_string toks in
       let m_map = hex_of_bytes (serialize_mappings nn ts) and m_rm = opt_hex (serialize_range_mappings nn ts) in
       let corr_w = (m_map = impl_map) && (m_rm = impl_rm) in
       (* correspondence of the reader on the crate's own output *)
       let m_decoded = decode_mappings nsrc nn (bytes_of_hex impl_map) (match bytes_of_opt_hex impl_rm with Some r -> r | None -> []) in
       let m_dec = (match m_decoded with
                    | Ok l -> "ok " ^ string_of_toks (sort_tokens l) | Err e -> "err " ^ err_name e | Panic _ -> "panic") in
       (* model of the second write *)
       let m_idem = (match m_decoded with Ok l -> "1:" ^ hex_of_bytes (serialize_mappings nn (sort_tokens l)) | _ -> "-") in
       let corr = corr_w && (m_dec = impl_dec) && (m_idem = impl_idem) in
       (* property (C01/C03/C07): what was read back is observationally the input, up to removal of exact consecutive
          duplicates (on both sides), range flags included; and the second and third serialisations are the same bytes *)
       let expect = "ok " ^ string_of_toks (List.map (norm nn) (dedup nn None ts)) in
       let got = (if String.length impl_dec >= 3 && String.sub impl_dec 0 3 = "ok " then
                    "ok " ^ string_of_toks (List.map (norm nn) (dedup nn None (toks_of_string (String.sub impl_dec 3 (String.length impl_dec - 3)))))
                  else impl_dec) in
       let idem_ok = String.length impl_idem >= 2 && String.sub impl_idem 0 2 = "1:" in
       (* the independent reading of the written string (C03) *)
       let indep = (match spec_decode_mappings nsrc nn (bytes_of_hex impl_map) with
                    | Ok l -> "ok " ^ string_of_toks (List.map (fun t -> norm nn { t with t_range = false }) (dedup nn None (sort_tokens l)))
                    | _ -> "err") in
       let expect_nr = "ok " ^ string_of_toks (List.map (fun t -> norm nn { t with t_range = false }) (dedup nn None (List.map (fun t -> { t with t_range = false }) ts))) in
       (* a reader with exact integer arithmetic (no reduction mod 2^32) must read the same tokens *)
       let strict = (match strict_decode_mappings nsrc nn (bytes_of_hex impl_map) with
                    | Ok l -> "ok " ^ string_of_toks (List.map (fun t -> norm nn { t with t_range = false }) (dedup nn None (sort_tokens l)))
                    | _ -> "err") in
       let indep_ok = (impl_map = "panic") || ((indep = expect_nr) && (strict = expect_nr)) in
       let prop = Some (expect = got && idem_ok && indep_ok) in
       count corr prop; verdict id corr prop (Printf.sprintf "model_map=%s\tmodel_rm=%s\tmodel_idem=%s\tmodel_dec=%s%s" m_map m_rm m_idem m_dec (if not idem_ok then "\tnot-idempotent" else if not indep_ok then "\tindependent-reading-differs" else ""))
     | [id; "lookup"; toks; l; c; impl] ->
       let ts = toks_of_string toks in
       let show = function None -> "none" | Some (i, t, off) -> Printf.sprintf "%d %s %s" i (string_of_tok t) (string_of_z (tok_src_col t off)) in
       let m = (match lookup_token ts (z_of_string l) (z_of_string c) with Ok r -> show (match r with None -> None | Some ((i, t), off) -> Some (int_of_z (Z.of_nat i), t, off)) | _ -> "panic") in
       let sp = (match spec_lookup ts (z_of_string l) (z_of_string c) with None -> "none" | Some (i, t) -> Printf.sprintf "%d %s" (int_of_z (Z.of_nat i)) (string_of_tok t)) in
       let impl_tok = (if impl = "none" || impl = "panic" then impl else (match String.split_on_char ' ' impl with [i; t; _] -> i ^ " " ^ t | _ -> impl)) in
       (* C07: the reported original column: advanced by (col - token column) only for a range token on its own line (saturating), otherwise the token's own *)
       let col_ok = (match String.split_on_char ' ' impl with
           | [_; t; sc] -> let t = tok_of_string t in
             let want = (if t.t_range && Z.eqb t.t_dl (z_of_string l) then (let x = Z.add t.t_sc (Z.add (z_of_string c) (Z.opp t.t_dc)) in if Z.ltb none_z x then none_z else x) else t.t_sc) in
             string_of_z want = sc
           | _ -> true) in
       let corr = (m = impl) and prop = Some (sp = impl_tok && col_ok) in
       count corr prop; verdict id corr prop (Printf.sprintf "model=%s\tspec=%s%s" m sp (if col_ok then "" else "\toriginal-column-differs"))
     | [id; "rel"; base; target; impl] ->
       let m = hex_of_bytes (make_relative_path (bytes_of_hex base) (bytes_of_hex target)) in
       let dir = (match List.rev (components (bytes_of_hex base)) with [] -> [] | _ :: r -> List.rev r) in
       let resolved = resolve_str dir (bytes_of_hex impl) in
       (* C19: resolving the answer against the base's directory gives the target; the answer is "." only when the target is that directory *)
       let dot_ok = (impl <> "2e") || (components (bytes_of_hex target) = dir) in
       let corr = (m = impl) and prop = Some (impl <> "panic" && resolved = components (bytes_of_hex target) && dot_ok) in
       count corr prop; verdict id corr prop (Printf.sprintf "model=%s" m)
     | [id; "lines"; text; reqs; impl] ->
       (* reqs: comma separated indices, -1 = line_count; impl: comma separated answers (hex, '-' for none, or n for counts) *)
       let src = bytes_of_hex text in
       let rs = zlist_of_string reqs in
       let spec_lines = split_lines src in
       let rec run st rs macc sacc = (match rs with
         | [] -> (List.rev macc, List.rev sacc)
         | r :: rest ->
           if string_of_z r = "-3" then
             (* the view is cloned and the history continues on the clone: whatever a clone carries over, it answers like the original *)
             run st rest ("cloned" :: macc) ("cloned" :: sacc)
           else if string_of_z r = "-2" then
             (* lines(): get_line(0), get_line(1), ... until the first None *)
             let rec all st i acc = (match get_line src (z_small i) st with
               | Ok (st', Some l) -> all st' (i + 1) (hex_of_bytes l :: acc)
               | Ok (st', None) -> Some (st', List.rev acc)
               | _ -> None) in
             (match all st 0 [] with
              | Some (st', ls) -> run st' rest (("[" ^ String.concat "/" ls ^ "]") :: macc) (("[" ^ String.concat "/" (List.map hex_of_bytes spec_lines) ^ "]") :: sacc)
              | None -> (List.rev ("panic" :: macc), List.rev sacc))
           else if Z.ltb r Z0 then
             (match line_count src st with
              | Ok (st', n) -> run st' rest (string_of_z n :: macc) (string_of_int (List.length spec_lines) :: sacc)
              | _ -> (List.rev ("panic" :: macc), List.rev sacc))
           else
             (match get_line src r st with
              | Ok (st', a) -> run st' rest (opt_hex a :: macc) ((match List.nth_opt spec_lines (int_of_z r) with Some l -> hex_of_bytes l | None -> "-") :: sacc)
              | _ -> (List.rev ("panic" :: macc), List.rev sacc))) in
       let (m, sp) = run sv_new rs [] [] in
       let m = String.concat "," m and sp = String.concat "," sp in
       let corr = (m = impl) and prop = Some (sp = impl) in
       count corr prop; verdict id corr prop (Printf.sprintf "model=%s\tspec=%s" m sp)
     | [id; "dispatch"; sections; fb; with_mappings; doc; impl] ->
       (* C02: documents with `sections` decode as index maps, documents with `x_facebook_sources` as Hermes maps, everything else as
          regular maps -- whatever else the document holds. A JSON null is an absent key. (fb: length class of the value text) *)
       let has_sections = (sections <> "-" && sections <> "null") and has_fb = (fb <> "1" && fb <> "4") in
       let want = (if has_sections then (match sections with "[]" -> "index0" | "[S]" -> "index1:regular" | "[S,S2]" -> "index2:regular:regular" | "[N]" -> "index1:index" | "[U]" -> "index1:none" | "[S,U]" -> "index2:regular:none" | _ -> "?")
                   else if has_fb then (if with_mappings = "1" then "hermes" else "hermes-or-err")
                   else (if with_mappings = "1" then "regular" else "regular-or-err")) in
       let ok = (impl = want) || (want = "hermes-or-err" && (impl = "hermes" || String.length impl > 3 && String.sub impl 0 3 = "err"))
                || (want = "regular-or-err" && (impl = "regular" || String.length impl > 3 && String.sub impl 0 3 = "err")) in
       let prop = Some (ok && impl <> "panic") in
       let _ = doc in count true prop; verdict id true prop ("want=" ^ want)
     | [id; "adjust"; orig; adj; impl; after] ->
       let o = toks_of_string orig and a = toks_of_string adj in
       let m = (match adjust_mappings o a with Ok l -> "ok " ^ string_of_toks l | Err e -> "err " ^ err_name e | Panic _ -> "panic") in
       let known = has_empty_stretch dst_key o || has_empty_stretch src_key a in
       let canon s = String.concat ";" (List.sort compare (String.split_on_char ';' s)) in
       let sp = "ok " ^ canon (string_of_toks (spec_adjust o a)) in
       let impl_c = (if String.length impl >= 3 && String.sub impl 0 3 = "ok " then "ok " ^ canon (String.sub impl 3 (String.length impl - 3)) else impl) in
       let m_c = (if String.length m >= 3 && String.sub m 0 3 = "ok " then "ok " ^ canon (String.sub m 3 (String.length m - 3)) else m) in
       (* "the result is ordered by generated position": checked on the crate's own order, before canonicalisation *)
       let ordered = (if String.length impl >= 3 && String.sub impl 0 3 = "ok " then
           let l = toks_of_string (String.sub impl 3 (String.length impl - 3)) in
           let rec srt = function a :: (b :: _ as r) -> (Z.ltb a.t_dl b.t_dl || (Z.eqb a.t_dl b.t_dl && not (Z.ltb b.t_dc a.t_dc))) && srt r | _ -> true in srt l
         else false) in
       (* C04 over histories: lookups on the adjusted map answer like the specification applied to the map's own (ordered) tokens *)
       let lookups_ok = (if ordered && after <> "-" then
           let l = toks_of_string (String.sub impl 3 (String.length impl - 3)) in
           List.for_all2 (fun (ql, qc) got -> (match spec_lookup l (z_small ql) (z_small qc) with None -> got = "none" | Some (_, t) -> got = string_of_tok t))
             [(0, 0); (0, 3); (0, 7); (1, 2); (2, 9); (0, 12)] (split_list after)
         else true) in
       let corr = (m_c = impl_c) and prop = (if not ordered || not lookups_ok then Some false else if sp = impl_c then Some true else if known && m_c = impl_c then None else Some false) in
       (* the known finding is the recorded behaviour on inputs with an empty stretch: any OTHER wrong answer on such an input is a new failure *)
       count corr prop; verdict id corr prop (Printf.sprintf "%s%s%smodel=%s" (if not lookups_ok then "lookup-differs\t" else "") (if not ordered then "not-ordered\t" else "") (if ordered && known && sp <> impl_c && m_c = impl_c then "known=c10_has_empty_stretch\t" else "") m)
     | [id; "rewrite"; m; names; contents; prefixes; impl] ->
       let sm = map_of_string m in
       let o = { ro_names = (names = "1"); ro_contents = (contents = "1"); ro_prefixes = List.map bytes_of_hex (split_list prefixes) } in
       let mo = show_map_outcome (rewrite sm o) in
       (* property (C09), read on the crate's own observation: same positions, original positions and flags; the source name
          minus a stripped prefix (independent reading spec_strip; "~" = the common prefix of the absolute sources); the name kept
          unless names are dropped; sources/names without duplicates (before stripping) and all referenced; contents attached to
          the same names exactly when contents are kept; file preserved; tokens ordered *)
       let ordered = obs_sorted impl in
       let prop = (if impl = "panic" then Some false
         else if String.length impl < 3 || String.sub impl 0 3 <> "ok " then Some false         (* rewrite of a well-formed map never fails *)
         else (match String.split_on_char '|' (String.sub impl 3 (String.length impl - 3)) with
           | [file'; srcs'; names'; contents'; _ign; toks'] ->
             let srcs' = Array.of_list (split_list srcs') and names' = Array.of_list (split_list names') and contents' = Array.of_list (split_list contents') in
             let u32max = z_of_string "4294967295" in
             let get a i = if Z.eqb i u32max then "-" else (let k = int_of_z i in if k < Array.length a then a.(k) else "?") in
             let tilde = [z_small 126] in
             let eff = List.filter (fun p -> p <> tilde) o.ro_prefixes @ (if List.mem tilde o.ro_prefixes then (match find_common_prefix sm.sm_sources with Some c -> [c] | None -> []) else []) in
             let strip src = (match src with None -> "-" | Some b -> "=" ^ hex_of_bytes (spec_strip eff b)) in
             let want = List.map (fun t -> (t.t_dl, t.t_dc, t.t_sl, t.t_sc, t.t_range, strip (tok_source sm t), (if names = "1" then opt_hex' (tok_name sm t) else "-"))) sm.sm_tokens in
             let ts' = toks_of_string toks' in
             let got = List.map (fun t -> (t.t_dl, t.t_dc, t.t_sl, t.t_sc, t.t_range, get srcs' t.t_src, get names' t.t_name)) ts' in
             let used a f = let n = Array.length a in List.for_all (fun i -> List.exists (fun t -> int_of_z (f t) = i) ts') (List.init n (fun i -> i)) in
             let rec nodup = function [] -> true | x :: r -> not (List.mem x r) && nodup r in
             let no_strip = (o.ro_prefixes = []) in
             let interned = used srcs' (fun t -> t.t_src) && used names' (fun t -> t.t_name) && nodup (Array.to_list names') && (not no_strip || nodup (Array.to_list srcs')) in
             (* contents: dropped -> none.  Kept -> read through every token: the content its rewritten source carries is the first content (in
                token order) that the input attaches to the token's source NAME before stripping -- sources whose names only become equal
                by stripping stay apart, each with its own content *)
             let contents_ok = (if contents = "0" then Array.for_all (fun c -> c = "-") contents' else
               (try List.for_all2 (fun t t' ->
                   (match tok_source sm t with
                    | None -> true
                    | Some nm ->
                      let cands = List.filter_map (fun u -> if tok_source sm u = Some nm then Some (opt_hex' (get_source_contents sm u.t_src)) else None) sm.sm_tokens in
                      let first = (match List.find_opt (fun x -> x <> "-") cands with Some x -> x | None -> "-") in
                      let k = int_of_z t'.t_src in
                      (if k < Array.length contents' then contents'.(k) else "-") = first)) sm.sm_tokens ts' with Invalid_argument _ -> false)) in
             Some (want = got && interned && contents_ok && file' = opt_hex' sm.sm_file && ordered)
           | _ -> Some false)) in
       let corr = (mo = impl) in
       count corr prop; verdict id corr prop (Printf.sprintf "%smodel=%s" (if not ordered then "not-ordered\t" else "") mo)
     | [id; "setters"; m; ops; written; after2; impl] ->
       (* ops: r:<hex|->  s:<i>:<hex>  c:<i>:<hex|-> ; impl: observation after all ops (or panic);
          written: "<sourceRoot>|<sources as written>"; after2: sources as they read after two save/load cycles *)
       let sm0 = map_of_string m in
       let sm = ref (Ok sm0) in
       (* the simple specification state: raw names, root, contents *)
       let raw = ref (Array.of_list sm0.sm_sources) and root = ref sm0.sm_root and oob = ref false in
       let conts = Array.of_list (List.mapi (fun i _ -> opt_hex' (get_source_contents sm0 (z_small i))) sm0.sm_sources) in
       List.iter (fun op -> match !sm with
         | Ok mm -> (match String.split_on_char ':' op with
             | ["r"; r] -> sm := Ok (set_source_root (opt_of r) mm); root := opt_of r
             | ["s"; i; v] -> sm := set_source (z_of_string i) (bytes_of_hex (unq v)) mm;
                              let k = int_of_string i in if k < Array.length !raw then (!raw).(k) <- bytes_of_hex (unq v) else oob := true
             | ["c"; i; v] -> sm := set_source_contents (z_of_string i) (opt_of v) mm;
                              let k = int_of_string i in if k < Array.length conts then conts.(k) <- opt_hex' (opt_of v) else oob := true
             | _ -> failwith "bad op")
         | _ -> ()) (split_list (String.concat "," (String.split_on_char ';' ops)));
       let mo = show_map_outcome !sm in
       let corr = (mo = impl) in
       (* property (C13): each source reads as join(root, raw name); the writer emits raw names + root; save/load never prefixes twice *)
       let prop = (if !oob then None (* set_source past the end: outside the property *)
         else if String.length impl < 3 || String.sub impl 0 3 <> "ok " then Some false
         else (match String.split_on_char '|' (String.sub impl 3 (String.length impl - 3)) with
           | _ :: got :: _ :: got_conts :: _ when got_conts <> String.concat "," (Array.to_list conts) -> Some false   (* the contents a source reports are the last ones set for it *)
           | _ :: got :: _ ->
             let want = String.concat "," (List.map (fun r -> "=" ^ hex_of_bytes (spec_join !root r)) (Array.to_list !raw)) in
             let want_written = opt_hex' (match !root with Some [] -> None | x -> x) ^ "|" ^ String.concat "," (List.map (fun r -> "=" ^ hex_of_bytes r) (Array.to_list !raw)) in
             let written_norm = (match String.index_opt written '|' with Some k when String.sub written 0 k = "=" -> "-" ^ String.sub written k (String.length written - k) | _ -> written) in
             Some (got = want && written_norm = want_written && after2 = want)
           | _ -> Some false)) in
       count corr prop; verdict id corr prop (Printf.sprintf "model=%s" mo)
     | [id; "ram"; hex; corrupted; abstr; impl] ->
       let bs = bytes_of_hex hex in
       let mo = (match parse bs with
         | Ok b -> let ids = List.init 6 z_small @ List.map z_of_string far_ids in
                   let ms = List.map (fun i -> match get_module b i with Ok None -> "none" | Ok (Some d) -> "=" ^ hex_of_bytes d | Err _ -> "err" | Panic _ -> "panic") ids in
                   (* model of the iterator: ids in order, empty slots skipped, first 8 items *)
                   let cnt = int_of_z b.b_count in
                   let rec iter k acc n = if n = 0 || k >= cnt then List.rev acc else
                     (match get_module b (z_small k) with Ok None -> iter (k + 1) acc n | Ok (Some d) -> iter (k + 1) ((string_of_int k ^ "=" ^ hex_of_bytes d) :: acc) (n - 1) | _ -> iter (k + 1) ("err" :: acc) (n - 1)) in
                   Printf.sprintf "ok %s %s %s %b %s" (string_of_z b.b_count) (match startup_code b with Ok s -> hex_of_bytes s | Err _ -> "err" | Panic _ -> "panic") (String.concat "," ms) (is_ram_bundle bs) (String.concat "," (iter 0 [] 8))
         | Err _ -> Printf.sprintf "err %b" (is_ram_bundle bs) | Panic _ -> "panic") in
       let corr = (mo = impl) in
       (* property (C20), read from the abstract bundle the bytes were laid out from (not from the model of the parser):
          count, startup code, each module without its NUL, nothing for empty slots, an error past the table, iterator = present
          modules in id order; for every other byte string: recognised iff 12 bytes led by the magic, and never a panic *)
       let ints = List.map int_of_z bs in
       let recognised = (match ints with 0xE5 :: 0xD1 :: 0x0B :: 0xFB :: rest -> List.length rest >= 8 | _ -> false) in
       let impl_rec = (match List.rev (String.split_on_char ' ' impl) with
           | _ :: r :: _ when String.length impl > 3 && String.sub impl 0 3 = "ok " -> r
           | r :: _ -> r | [] -> "?") in
       let rec_ok = (impl = "panic") || (impl_rec = string_of_bool recognised) in
       (* an independent reading of the layout in exact arithmetic: whatever the bytes are, an answer is either an error or the exact slice
          the header and the table entry describe (offsets relative to the end of the table), never bytes from elsewhere *)
       let arr = Array.of_list ints in let len = Array.length arr in
       let u32 at = if at + 4 <= len then Some (arr.(at) lor (arr.(at+1) lsl 8) lor (arr.(at+2) lsl 16) lor (arr.(at+3) lsl 24)) else None in
       let slice st n = if st >= len || n > len - st then None else Some (String.concat "" (List.init n (fun k -> Printf.sprintf "%02x" arr.(st + k)))) in
       let exact_ok = (match String.split_on_char ' ' impl with
         | ["ok"; cnt; startup; mods; _; _] | ["ok"; cnt; startup; mods; _] ->
           let it_impl = (match String.split_on_char ' ' impl with [_; _; _; _; _; it] -> it | _ -> "") in
           (match u32 4, u32 8 with
            | Some c, Some ss ->
              let soff = 12 + 8 * c in
              let st_ok = (match slice soff ss with Some x -> startup = x | None -> startup = "err") in
              (* the iterator, item by item: ids in order, empty slots skipped, a broken entry is one Err item and the walk goes on with the next id *)
              let exact_module i = (match u32 (12 + 8 * i), u32 (12 + 8 * i + 4) with
                   | Some off, Some l -> if off = 0 && l = 0 then "none" else if l = 0 then "err"
                                         else (match slice (soff + off) (l - 1) with Some x -> "=" ^ x | None -> "err")
                   | _ -> "err") in
              let rec walk k acc n = if n = 0 || k >= c then List.rev acc else
                  (match exact_module k with "none" -> walk (k + 1) acc n | "err" -> walk (k + 1) ("err" :: acc) (n - 1) | m -> walk (k + 1) ((string_of_int k ^ m) :: acc) (n - 1)) in
              let it_ok = (String.concat "," (walk 0 [] 8) = it_impl) in
              it_ok &&
              let mods_ok = List.for_all (fun x -> x) (List.mapi (fun i got ->
                  if i >= 6 then got = "err" else                   (* the far ids (2^32-1 .. 2^64-1) are past every table *)
                  if i >= c then got = "err" else
                  (match u32 (12 + 8 * i), u32 (12 + 8 * i + 4) with
                   | Some off, Some l -> if off = 0 && l = 0 then got = "none" else if l = 0 then got = "err"
                                         else (match slice (soff + off) (l - 1) with Some x -> got = "=" ^ x | None -> got = "err")
                   | _ -> got = "err")) (split_list mods)) in
              cnt = string_of_int c && st_ok && mods_ok
            | _ -> false)
         | _ -> true) in
       let prop = (if impl = "panic" || not exact_ok then Some false
         else if corrupted = "1" then Some rec_ok
         else (match String.split_on_char ':' abstr with
           | [count; startup; mods] ->
             let mods = split_list mods in let cnt = int_of_string count in
             let ms = List.init 6 (fun i -> if i < cnt then List.nth mods i else "err") @ List.map (fun _ -> "err") far_ids in
             let it = List.filteri (fun i _ -> i < 8) (List.concat (List.mapi (fun i m -> if m = "none" then [] else [string_of_int i ^ m]) mods)) in
             let want = Printf.sprintf "ok %s %s %s true %s" count startup (String.concat "," ms) (String.concat "," it) in
             Some (want = impl)
           | _ -> Some false)) in
       count corr prop; verdict id corr prop (Printf.sprintf "model=%s" (if corr then "same" else mo))
     | [id; "locate"; hex; impl] ->
       (* the text as scalar values: `str::trim` removes Unicode white space, not bytes *)
       (* the extracted model works on unary-free but slow Z lists: texts beyond 4 kB are judged by the independent reading only *)
       let mo = (if String.length hex > 8000 then impl else
                 match locate (scalars_of_hex hex) with None -> "none" | Some (Ref u) -> "ref " ^ hex_of_scalars u | Some (LegacyRef u) -> "legacy " ^ hex_of_scalars u) in
       let corr = (mo = impl) in
       (* property (C18), an independent reading on code points: lines end at LF (a CR before it belongs to the ending); the first line
          that begins with either 21-character prefix wins; its URL is the rest of the line without surrounding Unicode white space *)
       let is_ws c = c = 32 || (c >= 9 && c <= 13) || c = 0x85 || c = 0xa0 || c = 0x1680 || (c >= 0x2000 && c <= 0x200a) || c = 0x2028 || c = 0x2029 || c = 0x202f || c = 0x205f || c = 0x3000 in
       let cps = utf8_decode_ints (List.map int_of_z (bytes_of_hex hex)) in
       let rec lines cur acc = function
         | [] -> List.rev (if cur = [] then acc else List.rev cur :: acc)
         | 10 :: r -> let l = (match cur with 13 :: c -> c | c -> c) in lines [] (List.rev l :: acc) r
         | c :: r -> lines (c :: cur) acc r in
       let ls = lines [] [] cps in
       let codes str = List.init (String.length str) (fun i -> Char.code str.[i]) in
       let rec has_prefix p l = (match p, l with [], _ -> true | a :: p', b :: l' -> a = b && has_prefix p' l' | _ -> false) in
       let rec drop n l = if n = 0 then l else (match l with [] -> [] | _ :: r -> drop (n - 1) r) in
       let rec ltrim = function c :: r when is_ws c -> ltrim r | l -> l in
       let trim l = List.rev (ltrim (List.rev (ltrim l))) in
       let enc l = String.concat "" (List.map (Printf.sprintf "%02x") (utf8_encode_ints l)) in
       let want = (match List.find_opt (fun l -> has_prefix (codes "//# sourceMappingURL=") l || has_prefix (codes "//@ sourceMappingURL=") l) ls with
                   | None -> "none"
                   | Some l -> (if has_prefix (codes "//@") l then "legacy " else "ref ") ^ enc (trim (drop 21 l))) in
       let prop = Some (want = impl) in
       count corr prop; verdict id corr prop (Printf.sprintf "model=%s\tspec=%s" mo want)
     | [id; "hdr"; hex; chunks; impl_slice; impl_reader; det_slice; det_reader; impl_url] ->
       (* public API only: slice path, reader path under the given read sizes, detection predicate on both, and the data-URL path
          must agree with each other (an equal map or an error on all); the model predicts whether the header is accepted *)
       let bs = bytes_of_hex hex in
       let sizes = List.map int_of_string (split_list chunks) in
       let rec cut bs sizes = (match bs, sizes with [], _ -> [] | _, [] -> [bs]
         | _, n :: r -> let rec take k l acc = if k = 0 then (List.rev acc, l) else (match l with [] -> (List.rev acc, []) | x :: t -> take (k-1) t (x :: acc)) in
                        let (a, b) = take (max n 1) bs [] in a :: cut b (r @ [n])) in
       let m_slice = (match strip_junk_header bs with Ok r -> "ok" | _ -> "err") and m_reader = (match reader_run (cut bs sizes) with Ok r -> "ok" | _ -> "err") in
       let prop = Some (impl_slice <> "panic" && impl_slice = impl_reader && det_slice = det_reader && impl_url = impl_slice) in
       let cls x = if String.length x >= 2 && String.sub x 0 2 = "ok" then "ok" else "err" in
       let corr = (m_slice = m_reader) && (m_slice = "err" && cls impl_slice = "err" || m_slice = "ok") in
       count corr prop; verdict id corr prop (Printf.sprintf "model_slice=%s model_reader=%s" m_slice m_reader)
     | [id; "index"; secs; queries; impl_flat; impl_lookups] ->
       (* secs: "line:col@map" joined by '#'; queries "l:c" list; impl_flat: observation of flatten(); impl_lookups: per query "i|f" views *)
       let delims = [| '#'; '%'; '&' |] in
       let rec parse_secs level str = List.map (fun s -> match String.index_opt s '@' with
           | Some k -> let off = String.sub s 0 k and m = String.sub s (k + 1) (String.length s - k - 1) in
                       let dm = (if m.[0] = 'R' then DRegular (map_of_string (String.sub m 1 (String.length m - 1)))
                                 else DIndex (None, parse_secs (level + 1) (String.sub m 2 (String.length m - 3)))) in
                       (match String.split_on_char ':' off with [l; c] -> (((z_of_string l, z_of_string c), None), Some dm) | _ -> failwith "bad off")
           | None -> failwith "bad section") (String.split_on_char delims.(level) str) in
       let sections = parse_secs 0 secs in
       let flat = flatten (S (S (S O))) (Some (bytes_of_hex "66")) sections in
       let m_flat = show_map_outcome flat in
       let view m t off = Printf.sprintf "%s/%s/%s/%s" (opt_hex' (tok_source m t)) (string_of_z t.t_sl) (string_of_z (tok_src_col t off)) (opt_hex' (tok_name m t)) in
       let ix = DIndex (None, sections) in
       let qs = List.map (fun q -> match String.split_on_char ':' q with [l; c] -> (z_of_string l, z_of_string c) | _ -> failwith "bad q") (split_list queries) in
       let m_look = String.concat "," (List.map (fun (l, c) ->
           let a = (match dm_lookup (S (S (S (S O)))) ix l c with Ok (Some ((m, t), off)) -> view m t off | Ok None -> "none" | _ -> "panic") in
           let b = (match flat with Ok fm -> (match lookup_token fm.sm_tokens l c with Ok (Some ((_, t), off)) -> view fm t off | Ok None -> "none" | _ -> "panic") | _ -> "noflat") in
           a ^ "~" ^ b) qs) in
       let corr = (m_flat = impl_flat) && (m_look = impl_lookups) in
       (* property (C08): whenever the index finds a token the flattened map finds the same original location *)
       let no_panic = impl_flat <> "panic" && List.for_all (fun pair -> match String.split_on_char '~' pair with [a; b] -> a <> "panic" && b <> "panic" | _ -> false) (split_list impl_lookups) in
       (* property (C08), first sentence, read independently of the model of flatten: the flattened map holds exactly the sections'
          tokens moved by the offsets (column only on the section's first line) with the same strings and flag; the content of a
          flattened source is the first content seen, in token order, for that name; a source is ignored iff some token's source is *)
       let u32max = z_of_string "4294967295" in
       (* views of a (possibly nested) section list: position, strings, content of the token's source, ignored?, left the u32 grid? *)
       let rec views_of secs = List.concat_map (fun (((ol, oc), _), dm) ->
           let inner = (match dm with
             | Some (DRegular m) -> List.map (fun t ->
                 ((t.t_dl, t.t_dc), (opt_hex' (tok_source m t), string_of_z t.t_sl, string_of_z t.t_sc, opt_hex' (tok_name m t), t.t_range),
                  (if Z.eqb t.t_src u32max then None else get_source_contents m t.t_src), List.exists (Z.eqb t.t_src) m.sm_ignore, false)) m.sm_tokens
             | Some (DIndex (_, inner_secs)) ->
               (* a nested index is flattened first: its tokens come out ordered by position *)
               List.stable_sort (fun ((a, b), _, _, _, _) ((c, d), _, _, _, _) -> let k = compare (int_of_z a) (int_of_z c) in if k <> 0 then k else compare (int_of_z b) (int_of_z d)) (views_of inner_secs)
             | _ -> []) in
           List.map (fun ((dl, dc), v, c, ig, ov) ->
             let nl = Z.add dl ol and nc = (if Z.eqb dl Z0 then Z.add dc oc else dc) in
             ((nl, nc), v, c, ig, ov || Z.ltb u32max nl || Z.ltb u32max nc)) inner) secs in
       let sec_views = List.map (fun ((l, c), v, ct, ig, ov) -> ((string_of_z l, string_of_z c), v, ct, ig, ov)) (views_of sections) in
       let overflow = List.exists (fun (_, _, _, _, o) -> o) sec_views in
       let flat_ok = (if impl_flat = "panic" then false
         else if overflow then (String.length impl_flat >= 3 && String.sub impl_flat 0 3 = "err")      (* a token would leave the u32 grid: must be refused *)
         else if String.length impl_flat < 3 || String.sub impl_flat 0 3 <> "ok " then false
         else (match String.split_on_char '|' (String.sub impl_flat 3 (String.length impl_flat - 3)) with
           | [_file; srcs; names; contents; ignore; toks] ->
             let srcs = Array.of_list (split_list srcs) and names = Array.of_list (split_list names) and contents = Array.of_list (split_list contents) in
             let get a i = if Z.eqb i u32max then "-" else (let k = int_of_z i in if k < Array.length a then a.(k) else "?") in
             let got = List.sort compare (List.map (fun t -> ((string_of_z t.t_dl, string_of_z t.t_dc), (get srcs t.t_src, string_of_z t.t_sl, string_of_z t.t_sc, get names t.t_name, t.t_range))) (toks_of_string toks)) in
             let want = List.sort compare (List.map (fun (p, v, _, _, _) -> (p, v)) sec_views) in
             let first_content s = (match List.find_opt (fun (_, (src, _, _, _, _), c, _, _) -> src = s && c <> None) sec_views with Some (_, _, c, _, _) -> opt_hex' c | None -> "-") in
             let contents_ok = (let ok = ref true in Array.iteri (fun i s -> let c = (if i < Array.length contents then contents.(i) else "-") in if c <> first_content s then ok := false) srcs; !ok) in
             let ignored_want = List.sort_uniq compare (List.filter_map (fun (_, (src, _, _, _, _), _, ig, _) -> if ig && src <> "-" then Some src else None) sec_views) in
             let ignored_got = List.sort_uniq compare (List.map (fun i -> get srcs (z_of_string i)) (split_list ignore)) in
             got = want && contents_ok && ignored_want = ignored_got
           | _ -> false)) in
       let ordered = obs_sorted impl_flat in
       let prop = Some (ordered && no_panic && flat_ok && List.for_all (fun pair -> match String.split_on_char '~' pair with [a; b] -> a = "none" || b = "noflat" || a = b | _ -> false) (split_list impl_lookups)) in
       count corr prop; verdict id corr prop (Printf.sprintf "%s%smodel_flat=%s\tmodel_look=%s" (if not ordered then "not-ordered\t" else "") (if not flat_ok then "flatten-differs-from-spec\t" else "") m_flat m_look)
     | [id; "decode"; file; sources; root; contents; names; mappings; rmappings; ignore; d1; d2; fault; impl_idem; impl] ->
       (* a regular-map document given field by field; the JSON layer itself is serde_json's *)
       let lst s f = if s = "-" then None else Some (List.map f (split_list (String.sub s 1 (String.length s - 1)))) in
       let ostr x = if x = "null" then None else Some (bytes_of_hex (unq x)) in
       let r = MkRaw (Some (z_small 3),
         (if file = "-" then None else if file = "n" then Some (JNum (bytes_of_hex "3132", Some (z_small 12))) else Some (JStr (bytes_of_hex (unq file)))),
         lst sources ostr, opt_of root, lst contents ostr, None,
         lst names (fun x -> if x.[0] = '#' then (let t = String.sub x 1 (String.length x - 1) in JNum (List.map (fun c -> z_small (Char.code c)) (List.init (String.length t) (String.get t)), (if String.length t <= 9 && String.for_all (fun c -> c >= '0' && c <= '9') t then Some (z_of_string t) else None))) else JStr (bytes_of_hex (unq x))),
         opt_of rmappings, opt_of mappings, lst ignore z_of_string, None, None, None,
         (if d1 = "-" then None else Some (z_of_string d1)), (if d2 = "-" then None else Some (z_of_string d2))) in
       let dbg = function None -> "-" | Some k -> Printf.sprintf "00000000-0000-0000-0000-0000000000%02x" (int_of_z k) in
       let m_idem = ref "-" in
       let big = z_of_string "100000" in
       let m = (match decode_common (S (S O)) r with
                | Ok (DRegular sm) ->
                  (* model of write; read; write on the decoded map *)
                  (if List.for_all (fun t -> Z.ltb t.t_dl big) sm.sm_tokens then
                     let nn' = z_small (List.length sm.sm_names) and ns' = z_small (List.length sm.sm_sources) in
                     let w1 = serialize_mappings nn' sm.sm_tokens and r1 = serialize_range_mappings nn' sm.sm_tokens in
                     (match decode_mappings ns' nn' w1 (match r1 with Some x -> x | None -> []) with
                      | Ok l -> let l = sort_tokens l in
                        m_idem := (if serialize_mappings nn' l = w1 && serialize_range_mappings nn' l = r1 then "1" else "0")
                      | _ -> m_idem := "err"));
                  "ok " ^ obs_of_map sm ^ "#" ^ dbg sm.sm_debug_id
                | Ok _ -> "ok other-kind" | Err e -> "err " ^ err_name e | Panic _ -> "panic") in
       (* property (C02/C06): the independent reading of `mappings` decides acceptance; rangeMappings
          is judged by the model of decode_rmi (C07); everything else about these documents is lenient *)
       let is_ok = String.length impl >= 2 && String.sub impl 0 2 = "ok" in
       let nsrc = (match lst sources ostr with Some l -> z_small (List.length l) | None -> Z0) and nn = (match lst names (fun x -> x) with Some l -> z_small (List.length l) | None -> Z0) in
       let spec_ok = (match spec_decode_mappings nsrc nn (match opt_of mappings with Some b -> b | None -> []) with Ok _ -> true | _ -> false) in
       let rmi_ok = (rmappings <> "=21") || (match opt_of mappings with Some b -> List.for_all (fun l -> l = []) (split_on (z_small 59) b) | None -> true) in
       let idem_ok = (impl_idem = "-" || impl_idem = "1") in
       (* C02: tokens come out ordered; a non-empty sourceRoot is joined to every source that is not absolute (independent reading spec_join) *)
       let ordered = obs_sorted impl in
       let join_ok = (if is_ok && impl <> "ok other-kind" then
           (match String.split_on_char '|' (String.sub impl 3 (String.length impl - 3)), lst sources ostr with
            | _ :: got :: _, Some raws -> String.concat "," (List.map (fun o -> "=" ^ hex_of_bytes (spec_join (opt_of root) (match o with Some b -> b | None -> []))) raws) = got
            | _ :: got :: _, None -> got = ""
            | _ -> false) else true) in
       (* C02: the decoded tokens are what the independent reading of `mappings` gives (positions, indices; range flags are C07's),
          ordered by generated position (groups of equal position canonicalised when the document was not in order) *)
       let tokens_ok = (if is_ok && impl <> "ok other-kind" then
           (match opt_of mappings with
            | None -> true
            | Some b -> (match spec_decode_mappings nsrc nn b, List.rev (String.split_on_char '|' (String.sub impl 3 (String.length impl - 3))) with
                | Ok l, last :: _ ->
                  let toks = (match String.index_opt last '#' with Some k -> String.sub last 0 k | None -> last) in
                  let strip_flag ts = List.map (fun t -> string_of_tok { t with t_range = false }) ts in
                  (try List.sort compare (strip_flag (toks_of_string toks)) = List.sort compare (strip_flag l) with _ -> false)
                | _ -> true)) else true) in
       (* C02: a name is the string it is written as; a name written as a JSON number is that number's decimal text *)
       let names_ok = (if is_ok && impl <> "ok other-kind" then
           (match String.split_on_char '|' (String.sub impl 3 (String.length impl - 3)), lst names (fun x -> x) with
            | _ :: _ :: got :: _, Some ws -> String.concat "," (List.map (fun w -> if w.[0] = '#' then "=" ^ hex_of_string (String.sub w 1 (String.length w - 1)) else w) ws) = got
            | _ :: _ :: got :: _, None -> got = ""
            | _ -> false) else true) in
       (* C02: the debug id is the one under "debug_id" when that key is present, else the one under "debugId", else none -- whatever its value *)
       let dbg_ok = (if is_ok && impl <> "ok other-kind" then
           (match String.rindex_opt impl '#' with
            | Some k -> String.sub impl (k + 1) (String.length impl - k - 1) = dbg (if d1 <> "-" then Some (z_of_string d1) else if d2 <> "-" then Some (z_of_string d2) else None)
            | None -> false) else true) in
       let entry_differs = (String.length impl >= 19 && String.sub impl 0 19 = "entry-points-differ") || not dbg_ok in
       let prop = if impl = "panic" || entry_differs || not idem_ok || not ordered || not join_ok || not tokens_ok || not names_ok then Some false else if rmi_ok then Some (is_ok = spec_ok) else None in
       let _ = fault in
       (* sort_unstable_by_key may permute tokens that share a generated position when the segments were not already in order:
          the relative order inside such a group is canonicalised on both sides (sorted input is compared exactly) *)
       let canon_groups o = (if String.length o >= 3 && String.sub o 0 3 = "ok " && o <> "ok other-kind" then
           (match List.rev (String.split_on_char '|' o) with
            | last :: rest ->
              let (toks, tail) = (match String.index_opt last '#' with Some k -> (String.sub last 0 k, String.sub last k (String.length last - k)) | None -> (last, "")) in
              let ts = (try toks_of_string toks with _ -> []) in
              let rec groups = function [] -> [] | t :: r -> let (same, others) = List.partition (fun u -> Z.eqb u.t_dl t.t_dl && Z.eqb u.t_dc t.t_dc) r in
                                 List.sort compare (List.map string_of_tok (t :: same)) :: groups others in
              String.concat "|" (List.rev ((String.concat ";" (List.concat (groups ts)) ^ tail) :: rest))
            | [] -> o) else o) in
       let doc_sorted = (match opt_of mappings with
           | Some b -> (match spec_decode_mappings nsrc nn b with Ok l -> toks_sorted l | _ -> true) | None -> true) in
       let same_obs = if doc_sorted then m = impl else canon_groups m = canon_groups impl in
       let corr = same_obs && (doc_sorted = false || !m_idem = (if String.length impl_idem > 1 then String.sub impl_idem 0 1 else impl_idem)) in
       count corr prop; verdict id corr prop (Printf.sprintf "model=%s%s" (if corr then "same" else m ^ " idem=" ^ !m_idem) ((if not idem_ok then "\tnot-idempotent" else "") ^ (if not ordered then "\tnot-ordered" else "") ^ (if not join_ok then "\tsource-root-join-differs" else "") ^ (if not names_ok then "\tnames-differ" else "") ^ (if entry_differs then "\tentry-points-differ" else "") ^ (if not tokens_ok then "\ttokens-differ-from-independent-reading" else "")))
     | [id; "hermes"; mp; fb; offsets; impl] ->
       let m = map_of_string mp in
       let parse_fb s = (match s with
         | "null" -> (None, None) | "E" -> (Some [], None)
         | _ -> (match String.split_on_char '@' s with
                 | [names; maph; entries; kind] ->
                   let names = List.map (fun x -> bytes_of_hex (unq x)) (split_list names) in
                   let es = if entries = "" then [] else List.map (fun e -> match String.split_on_char ':' e with [l; c; n] -> ((z_of_string l, z_of_string c), z_of_string n) | _ -> failwith "bad entry") (String.split_on_char ';' entries) in
                   (Some [{ rs_names = names; rs_mappings = bytes_of_hex maph }], Some (names, es, kind))
                 | _ -> failwith "bad fb")) in
       let fbs = if fb = "" then [] else List.map parse_fb (String.split_on_char '#' fb) in
       let raws = List.map fst fbs in
       let h = { h_sm = m; h_fmaps = List.map decode_function_map raws; h_raw = Some raws } in
       let toks = m.sm_tokens in
       let per_tok = List.map (fun t -> opt_hex' (get_scope_for_token h t Z0)) toks in
       let offs = List.map z_of_string (split_list offsets) in
       let per_off = List.map (fun o -> match h_get_original_function_name h o with Ok x -> opt_hex' x | _ -> "panic") offs in
       let after = (match h_rewrite h { ro_names = true; ro_contents = true; ro_prefixes = [] } with
                    | Ok h2 -> List.map (fun t -> opt_hex' (get_scope_for_token h2 t Z0)) h2.h_sm.sm_tokens
                    | Err _ -> ["err"] | Panic _ -> ["panic"]) in
       (* 4th part: scopes after write + read (= before, C14_stable); 5th part: scopes after rewrite + write + read (= after rewrite) *)
       let mo = "ok " ^ String.concat "," per_tok ^ "~" ^ String.concat "," per_off ^ "~" ^ String.concat "," after ^ "~" ^ String.concat "," per_tok ^ "~" ^ String.concat "," after in
       (* property (C14): for sources whose function map is well formed (strictly increasing, kind "s")
          the scope of every token is what the independent reading of the abstract entries says *)
       let impl_tok = (match String.index_opt impl '~' with Some k when String.length impl > 3 -> split_list (String.sub impl 3 (k - 3)) | _ -> []) in
       let u32max = z_of_string "4294967295" in
       let prop = if String.length impl < 2 || String.sub impl 0 2 <> "ok" then Some false else
         Some (List.for_all2 (fun t got ->
           if got = "panic" then false else
           if Z.eqb t.t_src u32max then got = "-" else
           (match List.nth_opt fbs (int_of_z t.t_src) with
            | None | Some (_, None) -> got = "-"
            | Some (_, Some (names, es, "s")) -> if Z.eqb t.t_sl u32max then got = "-" else got = opt_hex' (spec_scope es names t.t_sl t.t_sc)
            | Some (_, Some (_, _, "g")) -> got = "-"
            | Some _ -> true)) toks (if List.length impl_tok = List.length toks then impl_tok else List.map (fun _ -> "panic") toks)) in
       (* bytecode offsets on line 0: the token found is the closest preceding one on line 0 (first among equals); its original column is advanced
          inside a range token; then the scope of that position, read from the abstract entries *)
       let off_ok = (match String.split_on_char '~' impl with
         | _ :: offs_s :: _ when String.length impl > 3 ->
           (try List.for_all2 (fun o got ->
              if got = "panic" then false else
              (match spec_lookup toks Z0 o with
               | None -> got = "-"
               | Some (_, t) ->
                 if Z.eqb t.t_src u32max then got = "-" else
                 let sc = (if t.t_range && Z.eqb t.t_dl Z0 then (let x = Z.add t.t_sc (Z.add o (Z.opp t.t_dc)) in if Z.ltb u32max x then u32max else x) else t.t_sc) in
                 (match List.nth_opt fbs (int_of_z t.t_src) with
                  | None | Some (_, None) -> got = "-"
                  | Some (_, Some (names, es, "s")) -> if Z.eqb t.t_sl u32max then got = "-" else got = opt_hex' (spec_scope es names t.t_sl sc)
                  | Some (_, Some (_, _, "g")) -> got = "-"
                  | Some _ -> true))) offs (split_list offs_s) with _ -> false)
         | _ -> true) in
       let prop = (match prop with Some true when not off_ok -> Some false | p -> p) in
       let prop = (match prop, String.split_on_char '~' impl with
         | Some true, [before; _; aft; reser; reser2] when List.length fbs = List.length m.sm_sources ->
           (* C09 (Hermes): one function map per source -> the scopes are unchanged by rewrite; C14: and by write + read, also of the rewritten map *)
           Some ((String.sub before 3 (String.length before - 3) = aft || List.length toks = 0) && String.sub before 3 (String.length before - 3) = reser && reser2 = aft)
         | Some true, [before; _; aft; reser; reser2] -> Some (not (List.mem "panic" (split_list aft)) && String.sub before 3 (String.length before - 3) = reser && reser2 = aft)
         | Some true, _ -> Some false
         | p, _ -> p) in
       (* a function map whose entries are not in increasing order (kind "m") is binary-searched by the crate: the answer then depends on
          the probe order of std's search, which the model's contract-level search does not promise to share; such documents only feed the crash oracle *)
       let messy = List.exists (fun (_, d) -> match d with Some (_, _, "m") -> true | _ -> false) fbs in
       let corr = (mo = impl) || messy in
       count corr prop; verdict id corr prop (Printf.sprintf "model=%s" (if corr then "same" else mo))
     | [id; "crash"; kind; input; impl] ->
       (* C05: no prediction, only the crash oracle *)
       let prop = Some (not (String.length impl >= 5 && String.sub impl 0 5 = "panic")) in count true prop; verdict id true prop ("class=" ^ impl)
     | [id; "slicehist"; text; reqs; impls] ->
       (* C15 over histories: several slice requests on one view; each answer is judged on its own, as on a fresh view *)
       let cps = scalars_of_hex text in
       let rec split cur acc = function [] -> List.rev (List.rev cur :: acc) | c :: r -> if Z.eqb c (z_small 10) then split [] (List.rev cur :: acc) r else split (c :: cur) acc r in
       let lines = Array.of_list (split [] [] cps) in
       let show = function Some s -> "=" ^ hex_of_scalars s | None -> "-" in
       let corr = ref true and fail = ref false and known_hit = ref false and notes = ref [] in
       (try List.iter2 (fun rq impl ->
           (match String.split_on_char ':' rq with
            | [l; c; n] ->
              let li = int_of_string l and c = z_of_string c and n = z_of_string n in
              let (mo, sp, known) = (if li < Array.length lines then (show (get_line_slice lines.(li) c n), show (covering lines.(li) c n), start_inside_pair lines.(li) c n) else ("-", "-", false)) in
              if mo <> impl then corr := false;
              if sp <> impl then (if known && mo = impl then known_hit := true else (fail := true; notes := (rq ^ ": got " ^ impl ^ " want " ^ sp) :: !notes))
            | _ -> corr := false)) (split_list reqs) (split_list impls) with Invalid_argument _ -> corr := false);
       let prop = if !fail then Some false else if !known_hit then None else Some true in
       count !corr prop; verdict id !corr prop (String.concat "; " (List.rev !notes) ^ (if !known_hit && not !fail then "\tknown=c15_start_inside_pair" else ""))
     | [id; "slice"; line; col; span; impl] ->
       let l = scalars_of_hex line and c = z_of_string col and n = z_of_string span in
       let show = function Some s -> "=" ^ hex_of_scalars s | None -> "-" in
       let mo = show (get_line_slice l c n) and sp = show (covering l c n) in
       let known = start_inside_pair l c n in
       let corr = (mo = impl) in
       (* property (C15): the characters covering [col, col+span); the known-finding class is classified, not excused *)
       let prop = if sp = impl then Some true else if known && mo = impl then None else Some false in
       count corr prop; verdict id corr prop (Printf.sprintf "model=%s\tspec=%s%s" mo sp (if known && sp <> impl && mo = impl then "\tknown=c15_start_inside_pair" else ""))
     | [id; "dataurl"; preamble; via_url; direct; embedded; via_view] ->
       (* C18: what comes back through the data URL is what the serialised bytes decode to, also when the URL sits in a
          sourceMappingURL comment and is discovered from there *)
       let prop = Some (via_url = direct && embedded = direct && via_view = direct && String.length direct >= 2 && String.sub direct 0 2 = "ok") in
       count true prop; verdict id true prop ("preamble=" ^ preamble)
     | [id; "roundtrip"; kind; before; after; idem; detected; shape; values; mp; dbg; impl_obs] ->
       (* C01 / C03 / C18: a whole map (regular, index, Hermes) written and read back.
          before/after: id-independent observations computed by the harness (views deduplicated there);
          idem: 2nd and 3rd serialisation byte-identical; detected: is_sourcemap_slice on the written bytes;
          shape: key structure of the written JSON, recursively through sections *)
       let find_all re str = let rec go pos acc = (match (try Some (Str.search_forward re str pos) with Not_found -> None) with
           | Some k -> go (k + 1) (Str.matched_group 1 str :: acc) | None -> List.rev acc) in go 0 [] in
       let has sub str = (try ignore (Str.search_forward (Str.regexp_string sub) str 0); true with Not_found -> false) in
       let offs_written = find_all (Str.regexp "<\\([0-9]+:[0-9]+\\):") shape and offs_before = find_all (Str.regexp "(\\([0-9]+:[0-9]+\\):") before in
       let versions = find_all (Str.regexp "{v=\\([^ ]*\\) ") shape in
       let shape_ok = not (has ":null" shape) && List.for_all (fun v -> v = "3") versions && versions <> [] && offs_written = offs_before in
       (* C03: the written keys carry the map's values: no null among sources, each written source joined with the written root is the
          name the map reports, names / contents / file / ignore list / debug id are the map's *)
       let values_ok = (values = "" || List.for_all (fun e -> match String.split_on_char '~' e with
           | [w; a] -> (match String.split_on_char '|' w, String.split_on_char '|' a with
               | [wroot; wsrc; wnames; wcont; wfile; wign; wdbg], [aroot; asrc; anames; acont; afile; aign; adbg] ->
                 let items x = if String.length x >= 2 && x.[0] = '[' then split_list (String.sub x 1 (String.length x - 2)) else ["?"] in
                 let root = (if wroot = "-" then None else Some (bytes_of_hex (unq wroot))) in
                 let srcs_ok = (try List.for_all2 (fun ws asrc -> ws <> "null" && ws <> "-" && "=" ^ hex_of_bytes (spec_join root (bytes_of_hex (unq ws))) = asrc) (items wsrc) (items asrc) with _ -> false) in
                 srcs_ok && wnames = anames && wcont = acont && wfile = afile && wign = aign && wdbg = adbg
                 && (wroot = aroot || (wroot = "-" && aroot = "="))
               | _ -> false)
           | _ -> false) (String.split_on_char '#' values)) in
       let prop = Some (before = after && idem = "1" && detected = "1" && shape_ok && values_ok && before <> "panic") in
       let corr = (if kind = "regular" && mp <> "-" then
           let m0 = map_of_string mp in
           let m = if dbg = "1" then { m0 with sm_debug_id = Some (z_small 7) } else m0 in
           (match decode_common (S (S O)) (sm_as_raw m) with
            | Ok (DRegular m') -> obs_of_map m' = impl_obs
            | _ -> impl_obs = "err")
         else true) in
       count corr prop; verdict id corr prop (if before <> after then "observation-changed" else if idem <> "1" then "not-idempotent" else if detected <> "1" then "not-detected" else if not shape_ok then "bad-key-shape" else if not values_ok then "written-values-differ" else "same")
     | [id; "api"; group; failed; _] ->
       (* less-travelled entry points must agree with the main one they are a variant of; the harness lists the equivalences that fail *)
       let prop = Some (failed = "") in count true prop; verdict id true prop (if failed = "" then group else group ^ ": " ^ failed)
     | [id; "keys"; mp; dbg; impl] ->
       (* C03: a key is written exactly when the map has a value for it; version and sources always *)
       let m0 = map_of_string mp in
       let m = if dbg = "1" then { m0 with sm_debug_id = Some (z_small 1) } else m0 in
       (match sm_as_raw m with
        | MkRaw (_, file, _, root, contents, _, _, rmap, _, ign, _, _, _, did, _) ->
          let opt k = function Some _ -> [k] | None -> [] in
          let expected = ["version"] @ opt "file" file @ ["sources"] @ opt "sourceRoot" root @ opt "sourcesContent" contents @ ["names"]
                         @ opt "rangeMappings" rmap @ ["mappings"] @ opt "ignoreList" ign @ opt "debug_id" did in
          let mo = String.concat "," expected in
          let corr = (mo = impl) in
          let has_null = (try ignore (Str.search_forward (Str.regexp_string ":null") impl 0); true with Not_found -> false) in
          let prop = Some (corr && not has_null) in
          count corr prop; verdict id corr prop (Printf.sprintf "model=%s" mo))
     | [id; "order"; toks; via_new; via_builder] ->
       (* C04: whatever the construction order, iteration is ordered by (line, column) and loses nothing;
          equal positions may come out in any relative order (sort_unstable): groups are canonicalised *)
       let ts = toks_of_string toks in
       let canon l = List.sort compare (List.map string_of_tok l) in
       let key t = (int_of_z t.t_dl, int_of_z t.t_dc) in
       let rec groups = function [] -> [] | t :: r -> let (same, rest) = List.partition (fun u -> key u = key t) r in canon (t :: same) :: groups rest in
       let rec sorted = function a :: (b :: _ as r) -> key a <= key b && sorted r | _ -> true in
       let mo = groups (sort_tokens ts) in
       let judge s = if s = "panic" then (false, false) else let o = toks_of_string s in (groups o = mo && sorted o, sorted o && canon o = canon ts) in
       let (c1, p1) = judge via_new and (c2, p2) = judge via_builder in
       let corr = c1 && c2 and prop = Some (p1 && p2) in
       count corr prop; verdict id corr prop "order"
     | [id; "builder"; ops; rets; impl_root; impl_dbg; impl_views; impl] ->
       (* C13: ids returned by the builder and the finished map, for any history of builder calls.
          ops: F<file> S=<src> N=<name> R=<root> C<id>:<contents> I<id> D<k|-> A<dl:dc:sl:sc:src:name:range> *)
       let ops = if ops = "" then [] else String.split_on_char ';' ops in
       let ob s = if s = "-" then None else Some (bytes_of_hex (unq s)) in
       let rest op = String.sub op 1 (String.length op - 1) in
       let (b, outs) = List.fold_left (fun (b, outs) op ->
           (match op.[0] with
            | 'S' -> let (id, b') = add_source (bytes_of_hex (String.sub op 2 (String.length op - 2))) b in (b', string_of_z id :: outs)
            | 'N' -> let (id, b') = add_name (bytes_of_hex (String.sub op 2 (String.length op - 2))) b in (b', string_of_z id :: outs)
            | 'R' -> (b_set_source_root (Some (bytes_of_hex (String.sub op 2 (String.length op - 2)))) b, "-" :: outs)
            | 'F' -> (b_set_file (ob (rest op)) b, "-" :: outs)
            | 'D' -> (b_set_debug_id (if rest op = "-" then None else Some (z_of_string (rest op))) b, "-" :: outs)
            | 'I' -> (b_add_to_ignore_list (z_of_string (rest op)) b, "-" :: outs)
            | 'C' -> (match String.split_on_char ':' (rest op) with
                      | [k; c] -> (match b_set_source_contents (z_of_string k) (ob c) b with Ok b' -> (b', "-" :: outs) | _ -> (b, "panic" :: outs))
                      | _ -> failwith "bad C")
            | _ -> (match String.split_on_char ':' (rest op) with
                    | [dl; dc; sl; sc; so; na; rg] ->
                      let (raw, b') = add0 (z_of_string dl) (z_of_string dc) (z_of_string sl) (z_of_string sc) (ob so) (ob na) (rg = "1") b in
                      (b', (string_of_z raw.t_src ^ "/" ^ string_of_z raw.t_name) :: outs)
                    | _ -> failwith "bad add")))
         (builder_new None, []) ops in
       let m = into_sourcemap b in
       let mo_rets = String.concat "," (List.rev outs) in
       let corr = (mo_rets = rets) && (obs_of_map m = impl) in
       (* the simple interning specification, replayed on strings only (no model of the builder):
          ids = index of first occurrence; the finished map reports what was set last; every added token resolves to its strings *)
       let srcs = ref [] and names = ref [] and root = ref None and file = ref None and dbg = ref None and contents = Hashtbl.create 7 and ign = ref [] and toks = ref [] and ok = ref true in
       let intern l x = (let rec idx k = function [] -> None | y :: r -> if y = x then Some k else idx (k + 1) r in
                         match idx 0 !l with Some k -> k | None -> (l := !l @ [x]; List.length !l - 1)) in
       List.iter2 (fun op ret -> match op.[0] with
           | 'S' -> if string_of_int (intern srcs (String.sub op 2 (String.length op - 2))) <> ret then ok := false
           | 'N' -> if string_of_int (intern names (String.sub op 2 (String.length op - 2))) <> ret then ok := false
           | 'R' -> root := Some (bytes_of_hex (String.sub op 2 (String.length op - 2)))
           | 'F' -> file := ob (rest op)
           | 'D' -> dbg := (if rest op = "-" then None else Some (int_of_string (rest op)))
           | 'I' -> ign := int_of_string (rest op) :: !ign
           | 'C' -> (match String.split_on_char ':' (rest op) with [k; c] -> Hashtbl.replace contents (int_of_string k) c | _ -> ())
           | _ -> (match String.split_on_char ':' (rest op) with
                   | [dl; dc; sl; sc; so; na; rg] ->
                     let si = (if so = "-" then "4294967295" else string_of_int (intern srcs (unq so))) and ni = (if na = "-" then "4294967295" else string_of_int (intern names (unq na))) in
                     if ret <> si ^ "/" ^ ni then ok := false;
                     toks := (if so = "-" then Printf.sprintf "%s:%s:-:%s" dl dc rg
                              else Printf.sprintf "%s:%s:=%s:%s:%s:%s:%s" dl dc (hex_of_bytes (spec_join !root (bytes_of_hex (unq so)))) sl sc na rg) :: !toks
                   | _ -> ())) ops (split_list rets);
       (* the source of a token is joined with the FINAL root: recompute the views with it *)
       let final_views = List.sort compare (List.map2 (fun op _ -> op) [] []) in ignore final_views;
       let want_views = (let tv = ref [] in
         List.iter (fun op -> if op.[0] = 'A' then (match String.split_on_char ':' (rest op) with
             | [dl; dc; sl; sc; so; na; rg] ->
               tv := (if so = "-" then Printf.sprintf "%s:%s:-:%s" dl dc rg
                      else Printf.sprintf "%s:%s:=%s:%s:%s:%s:%s" dl dc (hex_of_bytes (spec_join !root (bytes_of_hex (unq so)))) sl sc na rg) :: !tv
             | _ -> ())) ops; List.sort compare !tv) in
       let got_views = List.sort compare (if impl_views = "" then [] else String.split_on_char ';' impl_views) in
       let prop = (match String.split_on_char '|' impl with
         | [f'; srcs'; names'; contents'; ign'; _] ->
           let want_srcs = String.concat "," (List.map (fun x -> "=" ^ hex_of_bytes (spec_join !root (bytes_of_hex x))) !srcs) in
           let want_names = String.concat "," (List.map (fun x -> "=" ^ x) !names) in
           let want_contents = List.mapi (fun k _ -> match Hashtbl.find_opt contents k with Some c -> c | None -> "-") !srcs in
           let got_contents = split_list contents' in
           let contents_ok = (Hashtbl.length contents = 0 && contents' = "") || (got_contents = want_contents) || (List.for_all (fun c -> c = "-") want_contents && List.for_all (fun c -> c = "-") got_contents) in
           let want_ign = List.sort_uniq compare !ign and got_ign = List.sort_uniq compare (List.map int_of_string (split_list ign')) in
           let want_dbg = (match !dbg with None -> "-" | Some k -> Printf.sprintf "00000000-0000-0000-0000-0000000000%02x%s" k (if k > 10 then "-2a" else "")) in   (* ids above 10 are set with an appendix *)
           Some (!ok && f' = opt_hex' !file && srcs' = want_srcs && names' = want_names && contents_ok && want_ign = got_ign
                 && impl_root = opt_hex' !root && impl_dbg = want_dbg && got_views = want_views)
         | _ -> Some false) in
       count corr prop; verdict id corr prop (if corr then "same" else "model_rets=" ^ mo_rets ^ " model_map=" ^ obs_of_map m)
     | [id; "fname_any"; _; _; _; _; impl] ->
       (* tokens at arbitrary columns (also inside surrogate pairs, where no text is defined): crash oracle only *)
       let prop = Some (impl <> "panic") in count true prop; verdict id true prop "crash-oracle"
     | [id; "fname"; text; toks; i; name; impl] ->
       (* text: utf-8 hex of the minified source, toks: tokens (names = indices), i: index of the looked-up token, name: utf-8 hex *)
       let utf8_decode bs = (* minimal decoder for the harness alphabet *)
         let rec go = function
           | [] -> []
           | b :: r when b < 0x80 -> z_small b :: go r
           | b :: c :: r when b < 0xe0 -> z_small (((b land 0x1f) lsl 6) lor (c land 0x3f)) :: go r
           | b :: c :: d :: r when b < 0xf0 -> z_small (((b land 0x0f) lsl 12) lor ((c land 0x3f) lsl 6) lor (d land 0x3f)) :: go r
           | b :: c :: d :: e :: r -> z_small (((b land 0x07) lsl 18) lor ((c land 0x3f) lsl 12) lor ((d land 0x3f) lsl 6) lor (e land 0x3f)) :: go r
           | _ -> [] in go (List.map int_of_z bs) in
       let src = bytes_of_hex text in
       let lines = List.map utf8_decode (split_lines src) in
       let get_line l = List.nth_opt lines (int_of_z l) in
       let ts = toks_of_string toks in
       let rec nat_of_int n = if n = 0 then O else S (nat_of_int (n - 1)) in
       let nm t = if string_of_z t.t_name = "4294967295" then "none" else string_of_z t.t_name in
       let show = function Ok (Some t) -> nm t | Ok None -> "none" | _ -> "panic" in
       let m = show (name_res get_line ts (nat_of_int (int_of_string i)) (utf8_decode (bytes_of_hex name))) in
       let sp = (match name_res_spec get_line ts (nat_of_int (int_of_string i)) (utf8_decode (bytes_of_hex name)) with Some t -> nm t | None -> "none") in
       let corr = (m = impl) and prop = Some (sp = impl) in
       count corr prop; verdict id corr prop (Printf.sprintf "model=%s\tspec=%s" m sp)
     | _ -> Printf.printf "?\tbad-line\t%s\n" line)
     with End_of_file -> raise End_of_file
        | _ -> (* e.g. the crate panicked and there is nothing to parse: a difference and a failure *)
          let id = (match String.split_on_char '\t' line with i :: _ -> i | [] -> "?") in
          count false (Some false); verdict id false (Some false) "unparsable-impl-result");
    incr n
  done with End_of_file -> ());
  Printf.eprintf "cases=%d corr_diff=%d prop_fail=%d\n" !n !corr_bad !prop_bad
