(* Enumerates every maximal schedule of the extracted interleaving model (latest-value reads only:
   the replay serialises real threads through a mutex/condvar, so no stale value can be observed)
   and prints, per schedule, what the real crate must do when driven through it.
   stdin lines: id <TAB> fixed(0|1) <TAB> text_hex <TAB> calls ("2,c|7"); stdout: one line per schedule:
   id_k <TAB> text_hex <TAB> calls <TAB> schedule <TAB> traces <TAB> results <TAB> post *)
open Model
let rec pos_of_int n = if n = 1 then XH else if n land 1 = 0 then XO (pos_of_int (n lsr 1)) else XI (pos_of_int (n lsr 1))
let z_small n = if n = 0 then Z0 else Zpos (pos_of_int n)
let rec int_of_pos = function XH -> 1 | XO p -> 2 * int_of_pos p | XI p -> 2 * int_of_pos p + 1
let int_of_z = function Z0 -> 0 | Zpos p -> int_of_pos p | Zneg p -> - (int_of_pos p)
let rec nat_of_int n = if n = 0 then O else S (nat_of_int (n - 1))
let bytes_of_hex h = List.init (String.length h / 2) (fun i -> z_small (int_of_string ("0x" ^ String.sub h (2 * i) 2)))
let hex_of_bytes bs = String.concat "" (List.map (fun b -> Printf.sprintf "%02x" (int_of_z b)) bs)
let z_of_string s = let acc = ref Z0 in String.iter (fun c -> acc := Z.add (Z.mul !acc (z_small 10)) (z_small (Char.code c - 48))) s; !acc
let yield_of = function PEntry -> Some 0 | PMissed -> Some 1 | PWantLock -> Some 2 | PLoop -> Some 3 | PCount -> Some 4 | PDone -> None
let show_answer = function ALine (Some l) -> "=" ^ hex_of_bytes l | ALine None -> "none" | ACount n -> "#" ^ string_of_int (int_of_z n) | APanic -> "panic"
let () =
  let cap = (try int_of_string (Sys.getenv "CONC_CAP") with Not_found -> 50000) in
  (try while true do
    let line = input_line stdin in
    (match String.split_on_char '\t' line with
     | [id; fixed; text; calls] ->
       let fixed = (fixed = "1") and src = bytes_of_hex text in
       let cl = List.map (fun t -> List.filter_map (fun x -> if x = "" then None else if x = "c" then Some CLineCount else Some (CGetLine (z_of_string x))) (String.split_on_char ',' t)) (String.split_on_char '|' calls) in
       let n = List.length cl in
       let nlines = List.length (split_lines src) in
       let count = ref 0 and deadlocks = ref 0 in
       let big = nat_of_int 1000 in
       (* threads: array of (thread, trace reversed) *)
       let rec go (ts : (thread * int list) array) (s : shared) (sched : int list) =
         if !count < cap then begin
           let moved = ref false in
           for i = 0 to n - 1 do
             let (t, tr) = ts.(i) in
             (match step fixed src (nat_of_int i) big t s with
              | Some (t', s') ->
                moved := true;
                let ts' = Array.copy ts in
                ts'.(i) <- (t', (match yield_of t'.th_pc with
                                 | Some k when not (List.exists (fun a -> a = APanic) t'.th_answers) -> k :: tr | _ -> tr));
                go ts' s' (i :: sched)
              | None -> ())
           done;
           if not !moved then begin
             if Array.for_all (fun (t, _) -> t.th_pc = PDone) ts then begin
               incr count;
               Printf.printf "%s_%d\t%s\t%s\t%s\t%s\t%s\t%s\n" id !count text calls
                 (String.concat "," (List.rev_map string_of_int sched))
                 (String.concat "|" (Array.to_list (Array.map (fun (_, tr) -> String.concat "," (List.rev_map string_of_int tr)) ts)))
                 (String.concat "|" (Array.to_list (Array.map (fun (t, _) -> String.concat "," (List.rev_map show_answer t.th_answers)) ts)))
                 (if s.s_poisoned then "panic" else string_of_int nlines)
             end else incr deadlocks
           end
         end in
       let init = Array.of_list (List.map (fun cs -> let t = init_thread cs in (t, (match yield_of t.th_pc with Some k -> [k] | None -> []))) cl) in
       go init init_shared [];
       Printf.eprintf "%s: schedules=%d deadlocks=%d%s\n" id !count !deadlocks (if !count >= cap then " (capped)" else "")
     | _ -> ())
  done with End_of_file -> ())
