// Hook-driven replay of interleavings of SourceView::get_line.
// usage: smconc   (reads lines "id<TAB>text_hex<TAB>calls_per_thread<TAB>schedule" from stdin)
//   calls_per_thread: "7|4294967295" = thread 0 calls get_line(7); thread 1 calls get_line(u32::MAX); several calls: "1,2|0"
//   schedule: "0,0,0,1,1,..." thread ids; each entry releases that thread until its next yield point (or its end)
// prints: id<TAB>trace per thread (yield points)<TAB>results per thread<TAB>post (view usable afterwards?)<TAB>status
use std::cell::Cell;
use std::io::BufRead;
use std::panic::{catch_unwind, AssertUnwindSafe};
use std::sync::atomic::{AtomicBool, Ordering};
use std::sync::{Arc, Condvar, Mutex};
use std::time::Duration;

#[derive(Clone, Copy, PartialEq, Debug)]
enum St { Running, Parked(u32), Finished }
struct Sched { at: Vec<St>, turn: Option<usize>, trace: Vec<Vec<u32>> }
static SCHED: Mutex<Option<Arc<(Mutex<Sched>, Condvar)>>> = Mutex::new(None);
static FREE: AtomicBool = AtomicBool::new(false);   // after an infeasible step: everybody runs to completion uncontrolled
thread_local! { static TID: Cell<usize> = Cell::new(usize::MAX); }

fn park(k: u32) {
    let tid = TID.with(|t| t.get());
    if tid == usize::MAX || FREE.load(Ordering::SeqCst) { return; }
    let sc = SCHED.lock().unwrap().clone().unwrap();
    let (m, cv) = &*sc;
    let mut s = m.lock().unwrap();
    s.at[tid] = St::Parked(k);
    if k != 99 { s.trace[tid].push(k); }
    cv.notify_all();
    while s.turn != Some(tid) && !FREE.load(Ordering::SeqCst) { s = cv.wait(s).unwrap(); }
    if s.turn == Some(tid) { s.turn = None; }
    s.at[tid] = St::Running;
}
fn hex(b: &[u8]) -> String { b.iter().map(|x| format!("{:02x}", x)).collect() }
fn unhex(s: &str) -> Vec<u8> { (0..s.len() / 2).map(|i| u8::from_str_radix(&s[2 * i..2 * i + 2], 16).unwrap()).collect() }

fn main() {
    std::panic::set_hook(Box::new(|_| {}));
    sourcemap::verif::set_yield_hook(Box::new(park));
    for line in std::io::stdin().lock().lines() {
        let line = line.unwrap(); let f: Vec<&str> = line.split('\t').collect();
        if f.len() < 4 { continue; }
        let text = String::from_utf8(unhex(f[1])).unwrap();
        let calls: Vec<Vec<Option<u32>>> = f[2].split('|').map(|t| t.split(',').filter(|x| !x.is_empty()).map(|x| if x == "c" { None } else { Some(x.parse().unwrap()) }).collect()).collect();
        let schedule: Vec<usize> = f[3].split(',').filter(|x| !x.is_empty()).map(|x| x.parse().unwrap()).collect();
        let n = calls.len();
        let sc = Arc::new((Mutex::new(Sched { at: vec![St::Running; n], turn: None, trace: vec![vec![]; n] }), Condvar::new()));
        *SCHED.lock().unwrap() = Some(sc.clone());
        let sv = Arc::new(sourcemap::SourceView::new(text.clone().into()));
        let mut handles = vec![];
        for (tid, cs) in calls.iter().cloned().enumerate() {
            let sv = sv.clone(); let sc2 = sc.clone();
            handles.push(std::thread::spawn(move || {
                TID.with(|t| t.set(tid));
                park(99);
                let mut out = vec![];
                for c in cs {
                    let r = catch_unwind(AssertUnwindSafe(|| match c { Some(i) => sv.get_line(i).map(|s| format!("={}", hex(s.as_bytes()))).unwrap_or("none".into()), None => format!("#{}", sv.line_count()) }));
                    out.push(match r { Ok(h) => h, Err(_) => "panic".into() });
                    if out.last().map(|x| x == "panic").unwrap_or(false) { break; }      // the model stops a thread at its first panic
                }
                let (m, cv) = &*sc2; let mut s = m.lock().unwrap(); s.at[tid] = St::Finished; cv.notify_all();
                out
            }));
        }
        let (m, cv) = &*sc;
        let mut status = "ok".to_string();
        let wait_quiet = |who: Option<usize>| -> bool {
            // wait until no thread is Running (the released one parked again or finished); false on timeout (blocked)
            let mut s = m.lock().unwrap();
            loop {
                let busy = s.at.iter().enumerate().any(|(i, a)| *a == St::Running && who.map_or(true, |w| w == i)) || s.turn.is_some();
                if !busy { return true; }
                let (g, to) = cv.wait_timeout(s, Duration::from_millis(std::env::var("BLOCK_MS").ok().and_then(|x| x.parse().ok()).unwrap_or(300))).unwrap(); s = g;
                if to.timed_out() { return false; }
            }
        };
        if !wait_quiet(None) { status = "start-timeout".into(); }
        for tid in 0..n {
            let empty = calls[tid].is_empty();
            { let mut s = m.lock().unwrap(); s.turn = Some(tid); cv.notify_all(); }
            if !wait_quiet(Some(tid)) { status = format!("arm-thread{}-blocked", tid); }
            let _ = empty;
        }
        for (step, &tid) in schedule.iter().enumerate() {
            { let mut s = m.lock().unwrap();
              if s.at[tid] == St::Finished { status = format!("step{}-thread{}-finished", step, tid); break; }
              s.turn = Some(tid); cv.notify_all(); }
            if !wait_quiet(Some(tid)) { status = format!("step{}-thread{}-blocked", step, tid); break; }
        }
        // drain: let every unfinished thread run to completion, one at a time, lowest id first
        if status == "ok" {
            loop {
                let next = { let s = m.lock().unwrap(); s.at.iter().position(|a| matches!(a, St::Parked(_))) };
                match next { None => break, Some(tid) => { { let mut s = m.lock().unwrap(); s.turn = Some(tid); cv.notify_all(); } if !wait_quiet(Some(tid)) { status = format!("drain-thread{}-blocked", tid); break; } } }
            }
        }
        if status != "ok" { FREE.store(true, Ordering::SeqCst); { let mut s = m.lock().unwrap(); s.turn = None; cv.notify_all(); } }
        let results: Vec<String> = handles.into_iter().map(|h| h.join().unwrap().join(",")).collect();
        let traces: Vec<String> = { let s = m.lock().unwrap(); s.trace.iter().map(|t| t.iter().map(|k| k.to_string()).collect::<Vec<_>>().join(",")).collect() };
        // afterwards a fresh caller asks for the line count
        let post = match catch_unwind(AssertUnwindSafe(|| sv.line_count())) { Ok(c) => c.to_string(), Err(_) => "panic".into() };
        println!("{}\t{}\t{}\t{}\t{}", f[0], traces.join("|"), results.join("|"), post, status);
        FREE.store(false, Ordering::SeqCst);
    }
}
