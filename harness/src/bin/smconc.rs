// Hook-driven replay of interleavings of SourceView::get_line.
// usage: smconc   (reads lines "id<TAB>text_hex<TAB>calls_per_thread<TAB>schedule" from stdin)
//   calls_per_thread: "7|4294967295" = thread 0 calls get_line(7); thread 1 calls get_line(u32::MAX); several calls: "1,2|0"
//   schedule: "0,0,0,1,1,..." thread ids; each entry releases that thread until its next yield point (or its end)
// prints: id<TAB>trace per thread (yield points)<TAB>results per thread<TAB>post (view usable afterwards?)<TAB>status
use std::cell::Cell;
use std::io::BufRead;
use std::panic::{catch_unwind, AssertUnwindSafe};
use std::sync::atomic::{AtomicBool, Ordering};
use std::sync::{Arc, Condvar, Mutex};
use std::time::Duration;

#[derive(Clone, Copy, PartialEq, Debug)]
enum St { Running, Parked(u32), Finished }
struct Sched { at: Vec<St>, turn: Option<usize>, trace: Vec<Vec<u32>> }
static SCHED: Mutex<Option<Arc<(Mutex<Sched>, Condvar)>>> = Mutex::new(None);
static FREE: AtomicBool = AtomicBool::new(false);   // after an infeasible step: everybody runs to completion uncontrolled
thread_local! { static TID: Cell<usize> = Cell::new(usize::MAX); }

fn park(k: u32) {
    let tid = TID.with(|t| t.get());
    if tid == usize::MAX || FREE.load(Ordering::SeqCst) { return; }
    let sc = SCHED.lock().unwrap().clone().unwrap();
    let (m, cv) = &*sc;
    let mut s = m.lock().unwrap();
    s.at[tid] = St::Parked(k);
    if k != 99 { s.trace[tid].push(k); }
    cv.notify_all();
    while s.turn != Some(tid) && !FREE.load(Ordering::SeqCst) { s = cv.wait(s).unwrap(); }
    if s.turn == Some(tid) { s.turn = None; }
    s.at[tid] = St::Running;
}
fn hex(b: &[u8]) -> String { b.iter().map(|x| format!("{:02x}", x)).collect() }
fn unhex(s: &str) -> Vec<u8> { (0..s.len() / 2).map(|i| u8::from_str_radix(&s[2 * i..2 * i + 2], 16).unwrap()).collect() }

/// the single-threaded specification, computed here: split at \r\n | \n | \r, a trailing terminator yields a final empty line
fn spec_lines(text: &str) -> Vec<String> {
    let b = text.as_bytes(); let mut out = vec![]; let mut cur = vec![]; let mut i = 0;
    while i < b.len() { match b[i] { b'\n' => { out.push(String::from_utf8(std::mem::take(&mut cur)).unwrap()); } b'\r' => { out.push(String::from_utf8(std::mem::take(&mut cur)).unwrap()); if i + 1 < b.len() && b[i + 1] == b'\n' { i += 1; } } c => cur.push(c) } i += 1; }
    out.push(String::from_utf8(cur).unwrap()); out
}
/// free-running stress on real threads (no scheduler): every answer must be the single-threaded one. Supporting evidence for C16
/// and the only way to reach code paths that contain no yield point. usage: smconc stress <seed> <millis>
fn stress(seed: u64, millis: u64) {
    let mut rng = seed.wrapping_mul(0x9E3779B97F4A7C15) | 1; let mut next = move || { rng ^= rng << 13; rng ^= rng >> 7; rng ^= rng << 17; rng };
    let texts: Vec<String> = vec!["".into(), "a".into(), "a\nb\nc".into(), "a\r\n\nb\n".into(), "\u{e9}\rb".into(),
        (0..40).map(|i| format!("line{}", i)).collect::<Vec<_>>().join("\n"), (0..25).map(|i| format!("{}{}", "x".repeat(i % 7), i)).collect::<Vec<_>>().join("\r\n") + "\r",
        (0..700).map(|i| format!("var line{} = {};", i, i * 7)).collect::<Vec<_>>().join("\n")];
    let start = std::time::Instant::now(); let mut rounds = 0u64; let mut calls = 0u64; let mut bad: Vec<String> = vec![];
    // watchdog: a round in which no thread completes a call for 10 s is a deadlock (the join below would wait for ever)
    static PROGRESS: std::sync::atomic::AtomicU64 = std::sync::atomic::AtomicU64::new(0);
    static CURRENT: Mutex<String> = Mutex::new(String::new());
    std::thread::spawn(|| { let mut last = PROGRESS.load(Ordering::SeqCst); let mut since = std::time::Instant::now();
        loop { std::thread::sleep(Duration::from_millis(250)); let p = PROGRESS.load(Ordering::SeqCst);
            if p != last { last = p; since = std::time::Instant::now(); }
            else if since.elapsed() > Duration::from_secs(20) { println!("stress\trounds=0\tcalls={}\tmismatches=1\tdeadlock: text={} no call returned for 20 s (threads never came back)", p, CURRENT.lock().unwrap()); use std::io::Write; let _ = std::io::stdout().flush(); std::process::exit(3); } } });
    while (start.elapsed().as_millis() as u64) < millis && bad.len() < 5 {
        let text = texts[(next() % texts.len() as u64) as usize].clone(); let want = Arc::new(spec_lines(&text));
        *CURRENT.lock().unwrap() = hex(text.as_bytes()); PROGRESS.fetch_add(1, Ordering::SeqCst);
        let sv = Arc::new(sourcemap::SourceView::new(text.clone().into())); let nthreads = 2 + (next() % 3) as usize;
        let barrier = Arc::new(std::sync::Barrier::new(nthreads)); let mut handles = vec![];
        for t in 0..nthreads {
            let sv = sv.clone(); let want = want.clone(); let barrier = barrier.clone(); let mut r = next() | 1; let ncalls = [3u64, 8, 200][(next() % 3) as usize];
            handles.push(std::thread::spawn(move || { let mut errs = vec![]; barrier.wait();
                for _ in 0..ncalls { r ^= r << 13; r ^= r >> 7; r ^= r << 17;
                    let kind = r % 10; let i = ((r >> 8) % (want.len() as u64 + 2)) as u32;
                    let res = catch_unwind(AssertUnwindSafe(|| match kind { 0 => { let c = sv.line_count(); if c == want.len() { None } else { Some(format!("line_count={} want {}", c, want.len())) } }
                        1 => { let ls: Vec<&str> = sv.lines().collect(); if ls == want.iter().map(|s| s.as_str()).collect::<Vec<_>>() { None } else { Some(format!("lines() gave {} lines, want {}", ls.len(), want.len())) } }
                        // a clone taken while others are indexing is a view of the same text: it answers like a fresh one (outside the property's literal call list; kept as a cheap extra)
                        2 => { let c = (*sv).clone(); let g = c.get_line(i).map(|x| x.to_string()); let w = want.get(i as usize).cloned(); let n = c.line_count(); if g == w && n == want.len() { None } else { Some(format!("clone: get_line({})={:?} want {:?}, line_count={} want {}", i, g, w, n, want.len())) } }
                        _ => { let g = sv.get_line(i); let w = want.get(i as usize).map(|s| s.as_str()); if g == w { None } else { Some(format!("get_line({})={:?} want {:?}", i, g, w)) } } }));
                    PROGRESS.fetch_add(1, Ordering::Relaxed);
                    match res { Ok(None) => {} Ok(Some(e)) => errs.push(format!("thread{} {}", t, e)), Err(_) => errs.push(format!("thread{} call kind {} index {} panicked", t, kind, i)) } }
                (errs, ncalls) }));
        }
        for h in handles { let (e, n) = h.join().unwrap(); calls += n; for x in e { if bad.len() < 5 { bad.push(format!("text={} {}", hex(text.as_bytes()), x)); } } }
        match catch_unwind(AssertUnwindSafe(|| sv.line_count())) { Ok(c) if c == want.len() => {} Ok(c) => bad.push(format!("text={} afterwards line_count={} want {}", hex(text.as_bytes()), c, want.len())), Err(_) => bad.push(format!("text={} view unusable afterwards (panic)", hex(text.as_bytes()))) }
        rounds += 1;
    }
    println!("stress\trounds={}\tcalls={}\tmismatches={}\t{}", rounds, calls, bad.len(), bad.join(" | "));
}
fn main() {
    std::panic::set_hook(Box::new(|_| {}));
    let args: Vec<String> = std::env::args().collect();
    if args.get(1).map(|s| s.as_str()) == Some("stress") { stress(args.get(2).and_then(|s| s.parse().ok()).unwrap_or(1), args.get(3).and_then(|s| s.parse().ok()).unwrap_or(2000)); return; }
    sourcemap::verif::set_yield_hook(Box::new(park));
    for line in std::io::stdin().lock().lines() {
        let line = line.unwrap(); let f: Vec<&str> = line.split('\t').collect();
        if f.len() < 4 { continue; }
        let text = String::from_utf8(unhex(f[1])).unwrap();
        let calls: Vec<Vec<Option<u32>>> = f[2].split('|').map(|t| t.split(',').filter(|x| !x.is_empty()).map(|x| if x == "c" { None } else { Some(x.parse().unwrap()) }).collect()).collect();
        let schedule: Vec<usize> = f[3].split(',').filter(|x| !x.is_empty()).map(|x| x.parse().unwrap()).collect();
        let n = calls.len();
        let sc = Arc::new((Mutex::new(Sched { at: vec![St::Running; n], turn: None, trace: vec![vec![]; n] }), Condvar::new()));
        *SCHED.lock().unwrap() = Some(sc.clone());
        let sv = Arc::new(sourcemap::SourceView::new(text.clone().into()));
        let mut handles = vec![];
        let slots: Arc<Mutex<Vec<Option<Vec<String>>>>> = Arc::new(Mutex::new(vec![None; n]));
        for (tid, cs) in calls.iter().cloned().enumerate() {
            let sv = sv.clone(); let sc2 = sc.clone(); let slots = slots.clone();
            handles.push(std::thread::spawn(move || {
                TID.with(|t| t.set(tid));
                park(99);
                let mut out = vec![];
                for c in cs {
                    let r = catch_unwind(AssertUnwindSafe(|| match c { Some(i) => sv.get_line(i).map(|s| format!("={}", hex(s.as_bytes()))).unwrap_or("none".into()), None => format!("#{}", sv.line_count()) }));
                    out.push(match r { Ok(h) => h, Err(_) => "panic".into() });
                    if out.last().map(|x| x == "panic").unwrap_or(false) { break; }      // the model stops a thread at its first panic
                }
                slots.lock().unwrap()[tid] = Some(out.clone());
                let (m, cv) = &*sc2; let mut s = m.lock().unwrap(); s.at[tid] = St::Finished; cv.notify_all();
                out
            }));
        }
        let (m, cv) = &*sc;
        let mut status = "ok".to_string();
        let wait_quiet = |who: Option<usize>| -> bool {
            // wait until no thread is Running (the released one parked again or finished); false on timeout (blocked)
            let mut s = m.lock().unwrap();
            loop {
                let busy = s.at.iter().enumerate().any(|(i, a)| *a == St::Running && who.map_or(true, |w| w == i)) || s.turn.is_some();
                if !busy { return true; }
                let (g, to) = cv.wait_timeout(s, Duration::from_millis(std::env::var("BLOCK_MS").ok().and_then(|x| x.parse().ok()).unwrap_or(300))).unwrap(); s = g;
                if to.timed_out() { return false; }
            }
        };
        if !wait_quiet(None) { status = "start-timeout".into(); }
        for tid in 0..n {
            let empty = calls[tid].is_empty();
            { let mut s = m.lock().unwrap(); s.turn = Some(tid); cv.notify_all(); }
            if !wait_quiet(Some(tid)) { status = format!("arm-thread{}-blocked", tid); }
            let _ = empty;
        }
        for (step, &tid) in schedule.iter().enumerate() {
            { let mut s = m.lock().unwrap();
              if s.at[tid] == St::Finished { status = format!("step{}-thread{}-finished", step, tid); break; }
              s.turn = Some(tid); cv.notify_all(); }
            if !wait_quiet(Some(tid)) { status = format!("step{}-thread{}-blocked", step, tid); break; }
        }
        // drain: let every unfinished thread run to completion, one at a time, lowest id first
        if status == "ok" {
            loop {
                let next = { let s = m.lock().unwrap(); s.at.iter().position(|a| matches!(a, St::Parked(_))) };
                match next { None => break, Some(tid) => { { let mut s = m.lock().unwrap(); s.turn = Some(tid); cv.notify_all(); } if !wait_quiet(Some(tid)) { status = format!("drain-thread{}-blocked", tid); break; } } }
            }
        }
        if status != "ok" { FREE.store(true, Ordering::SeqCst); { let mut s = m.lock().unwrap(); s.turn = None; cv.notify_all(); } }
        // every thread must come back: once released they run freely; a thread that has not finished after DEADLOCK_MS is stuck for good
        // (a lost wake-up, a lock never released) -- "no call deadlocks" is part of the property, and a hung replay would say nothing
        { let limit = Duration::from_millis(std::env::var("DEADLOCK_MS").ok().and_then(|x| x.parse().ok()).unwrap_or(10000)); let t0 = std::time::Instant::now();
          let mut s = m.lock().unwrap();
          while s.at.iter().any(|a| *a != St::Finished) && t0.elapsed() < limit { let (g, _) = cv.wait_timeout(s, Duration::from_millis(50)).unwrap(); s = g; if status == "ok" && s.at.iter().any(|a| matches!(a, St::Parked(_))) { s.turn = None; FREE.store(true, Ordering::SeqCst); cv.notify_all(); } }
          let stuck: Vec<usize> = s.at.iter().enumerate().filter(|(_, a)| **a != St::Finished).map(|(i, _)| i).collect();
          if !stuck.is_empty() {
              let traces: Vec<String> = s.trace.iter().map(|t| t.iter().map(|k| k.to_string()).collect::<Vec<_>>().join(",")).collect();
              let res: Vec<String> = slots.lock().unwrap().iter().map(|o| o.as_ref().map(|v| v.join(",")).unwrap_or("hung".into())).collect();
              println!("{}\t{}\t{}\t{}\tdeadlock(threads {:?} never returned; before that: {})", f[0], traces.join("|"), res.join("|"), "-", stuck, status);
              use std::io::Write; let _ = std::io::stdout().flush();
              std::process::exit(3);
          } }
        let results: Vec<String> = handles.into_iter().map(|h| h.join().unwrap().join(",")).collect();
        let traces: Vec<String> = { let s = m.lock().unwrap(); s.trace.iter().map(|t| t.iter().map(|k| k.to_string()).collect::<Vec<_>>().join(",")).collect() };
        // afterwards a fresh caller asks for the line count
        let post = match catch_unwind(AssertUnwindSafe(|| sv.line_count())) { Ok(c) => c.to_string(), Err(_) => "panic".into() };
        println!("{}\t{}\t{}\t{}\t{}", f[0], traces.join("|"), results.join("|"), post, status);
        FREE.store(false, Ordering::SeqCst);
    }
}
