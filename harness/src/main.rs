//! Correspondence harness (prototype): generates cases from a seed, runs the crate, prints
//! `id \t op \t args \t impl-result` lines for the OCaml driver.
use sourcemap::vlq;
static PROGRESS: std::sync::atomic::AtomicU64 = std::sync::atomic::AtomicU64::new(0);
macro_rules! outln { ($($a:tt)*) => {{ println!($($a)*); PROGRESS.fetch_add(1, std::sync::atomic::Ordering::Relaxed); }} }
use std::panic::{catch_unwind, AssertUnwindSafe};

struct Rng(u64);
impl Rng {
    fn next(&mut self) -> u64 { self.0 = self.0.wrapping_add(0x9E3779B97F4A7C15); let mut z = self.0; z = (z ^ (z >> 30)).wrapping_mul(0xBF58476D1CE4E5B9); z = (z ^ (z >> 27)).wrapping_mul(0x94D049BB133111EB); z ^ (z >> 31) }
    fn below(&mut self, n: u64) -> u64 { self.next() % n }
}
fn hex(b: &[u8]) -> String { b.iter().map(|x| format!("{:02x}", x)).collect() }
fn err_name(e: &sourcemap::Error) -> &'static str {
    use sourcemap::Error::*;
    match e { Io(_) => "Io", Utf8(_) => "Utf8", BadJson(_) => "Json", VlqLeftover => "VlqLeftover", VlqNoValues => "VlqNoValues", VlqOverflow => "VlqOverflow",
        BadSegmentSize(_) => "BadSegmentSize", BadSourceReference(_) => "BadSourceRef", BadNameReference(_) => "BadNameRef", IncompatibleSourceMap => "Incompatible",
        InvalidDataUrl => "InvalidDataUrl", CannotFlatten(_) => "CannotFlatten", InvalidRamBundleMagic => "RamMagic", InvalidRamBundleIndex => "RamIndex",
        InvalidRamBundleEntry => "RamEntry", NotARamBundle => "NotARamBundle", InvalidBase64(_) => "InvalidBase64", _ => "Other" }
}
fn vlq_parse_case(id: &str, s: &[u8]) {
    // parse_vlq_segment takes &str: bytes >= 0x80 are fed through a lossless latin-1 style detour is impossible;
    // such inputs are exercised through decode_slice instead. Here: ASCII only.
    let st = std::str::from_utf8(s).unwrap();
    let r = catch_unwind(AssertUnwindSafe(|| vlq::parse_vlq_segment(st)));
    let out = match r { Ok(Ok(v)) => format!("ok {}", v.iter().map(|x| x.to_string()).collect::<Vec<_>>().join(",")), Ok(Err(e)) => format!("err {}", err_name(&e)), Err(_) => "panic".into() };
    outln!("{}\tvlq_parse\t{}\t{}", id, hex(s), out);
}
fn vlq_gen_case(id: &str, ns: &[i64]) {
    assert!(ns.iter().all(|n| n.unsigned_abs() < (1u64 << 62)), "harness must never feed |n| >= 2^62 to the VLQ writer");
    let r = catch_unwind(AssertUnwindSafe(|| vlq::generate_vlq_segment(ns)));
    let out = match r { Ok(Ok(s)) => format!("ok {}", hex(s.as_bytes())), Ok(Err(e)) => format!("err {}", err_name(&e)), Err(_) => "panic".into() };
    outln!("{}\tvlq_gen\t{}\t{}", id, ns.iter().map(|x| x.to_string()).collect::<Vec<_>>().join(","), out);
}
// ---------------------------------------------------------------- maps
#[derive(Clone, Copy, Debug, PartialEq, Eq)]
struct Tok { dl: u32, dc: u32, sl: u32, sc: u32, src: u32, name: u32, range: bool }
fn tok_str(t: &Tok) -> String { format!("{}:{}:{}:{}:{}:{}:{}", t.dl, t.dc, t.sl, t.sc, t.src, t.name, if t.range { 1 } else { 0 }) }
fn toks_str(ts: &[Tok]) -> String { ts.iter().map(tok_str).collect::<Vec<_>>().join(";") }
fn raw_of(t: &sourcemap::Token) -> Tok { let r = t.get_raw_token(); Tok { dl: r.dst_line, dc: r.dst_col, sl: r.src_line, sc: r.src_col, src: r.src_id, name: r.name_id, range: r.is_range } }
/// like build_map, but through the raw constructor and with every string used twice ("s0.js","s0.js","s1.js",...): equal strings, different indices
fn build_map_dups(nsrc: u32, nn: u32, toks: &[Tok]) -> sourcemap::SourceMap {
    let raw: Vec<sourcemap::RawToken> = toks.iter().map(|t| sourcemap::RawToken { dst_line: t.dl, dst_col: t.dc, src_line: t.sl, src_col: t.sc, src_id: t.src, name_id: t.name, is_range: t.range }).collect();
    sourcemap::SourceMap::new(None, raw, (0..nn).map(|i| format!("n{}", i / 2).into()).collect(), (0..nsrc).map(|i| format!("s{}.js", i / 2).into()).collect(), None)
}
fn build_map(nsrc: u32, nn: u32, toks: &[Tok]) -> sourcemap::SourceMap {
    let mut b = sourcemap::SourceMapBuilder::new(None);
    for i in 0..nsrc { b.add_source(&format!("s{}.js", i)); }
    for i in 0..nn { b.add_name(&format!("n{}", i)); }
    for t in toks { b.add_raw(t.dl, t.dc, t.sl, t.sc, if t.src == !0 { None } else { Some(t.src) }, if t.name == !0 { None } else { Some(t.name) }, t.range); }
    b.into_sourcemap()
}
fn gen_toks(r: &mut Rng, nsrc: u32, nn: u32, max: u64, ranges: bool) -> Vec<Tok> {
    let n = r.below(max + 1); let lines = 1 + r.below(4); let cols = 1 + r.below(6); let mut v = vec![];
    let big = |r: &mut Rng, m: u64| -> u32 { if r.below(20) == 0 { [u32::MAX - 1, 1 << 31, (1 << 31) - 1, 70000][r.below(4) as usize] } else { r.below(m) as u32 } };
    for _ in 0..n {
        let dl = (r.below(lines) * (1 + r.below(3))) as u32; let dc = big(r, cols);
        let sourced = nsrc > 0 && r.below(6) != 0;
        let t = if sourced { Tok { dl, dc, sl: big(r, 5), sc: big(r, 5), src: r.below(nsrc as u64) as u32, name: if nn > 0 && r.below(2) == 0 { r.below(nn as u64) as u32 } else { !0 }, range: ranges && r.below(3) == 0 } }
                else { Tok { dl, dc, sl: r.below(3) as u32, sc: 0, src: !0, name: !0, range: ranges && r.below(5) == 0 } };
        v.push(t); if r.below(6) == 0 { v.push(t); }
    }
    v
}
fn codec_case(id: &str, nsrc: u32, nn: u32, toks: &[Tok]) {
    let res = catch_unwind(AssertUnwindSafe(|| {
        let sm = if id.starts_with('d') { build_map_dups(nsrc, nn, toks) } else { build_map(nsrc, nn, toks) };
        let sorted: Vec<Tok> = sm.tokens().map(|t| raw_of(&t)).collect();
        let mut out = vec![]; sm.to_writer(&mut out).unwrap();
        let v: serde_json::Value = serde_json::from_slice(&out).unwrap();
        let m = v["mappings"].as_str().unwrap().to_string();
        let rm = v.get("rangeMappings").map(|x| x.as_str().unwrap().to_string());
        // C01, last sentence: serialising a decoded map (out2), decoding and serialising again (out3) reproduces the same bytes
        let mut idem = "-".to_string();
        let dec = match sourcemap::SourceMap::from_slice(&out) {
            Ok(sm2) => {
                let mut out2 = vec![]; sm2.to_writer(&mut out2).unwrap();
                idem = match sourcemap::SourceMap::from_slice(&out2) { Ok(sm3) => { let mut out3 = vec![]; sm3.to_writer(&mut out3).unwrap();
                        let v2: serde_json::Value = serde_json::from_slice(&out2).unwrap();
                        format!("{}:{}", if out2 == out3 { 1 } else { 0 }, hex(v2["mappings"].as_str().unwrap().as_bytes())) }, Err(e) => format!("err {}", err_name(&e)) };
                format!("ok {}", toks_str(&sm2.tokens().map(|t| raw_of(&t)).collect::<Vec<_>>())) }
            Err(e) => format!("err {}", err_name(&e)) };
        (sorted, m, rm, idem, dec)
    }));
    match res {
        Ok((sorted, m, rm, idem, dec)) => outln!("{}\tcodec\t{}\t{}\t{}\t{}\t{}\t{}\t{}", id, nsrc, nn, toks_str(&sorted), hex(m.as_bytes()), rm.map(|s| hex(s.as_bytes())).unwrap_or("-".into()), idem, dec),
        Err(_) => { let mut s = toks.to_vec(); s.sort_by_key(|t| (t.dl, t.dc)); outln!("{}\tcodec\t{}\t{}\t{}\tpanic\t-\t-\tpanic", id, nsrc, nn, toks_str(&s)) }
    }
}
fn lookup_case(id: &str, toks: &[Tok], l: u32, c: u32) {
    // toks must already be sorted by (dl, dc): the crate's unstable sort leaves a sorted vector alone
    let sm = build_map(4, 4, toks);
    let sorted: Vec<Tok> = sm.tokens().map(|t| raw_of(&t)).collect();
    let r = catch_unwind(AssertUnwindSafe(|| sm.lookup_token(l, c).map(|t| { let mut it = sm.tokens(); let mut idx = 0usize; /* index via seek */ let found = it.seek(l, c); let nxt = it.next().map(|x| raw_of(&x)); let _ = (found, nxt); idx = sm.tokens().position(|x| std::ptr::eq(x.sourcemap(), t.sourcemap()) && raw_of(&x) == raw_of(&t) && false).unwrap_or(usize::MAX); (idx, raw_of(&t), t.get_src_col()) })));
    let _ = r;
    // index: recover through seek (seek sets next_idx = idx + 1)
    let out = match catch_unwind(AssertUnwindSafe(|| { let t = sm.lookup_token(l, c)?; let mut it = sm.tokens(); it.seek(l, c); let after: Vec<Tok> = it.map(|x| raw_of(&x)).collect(); let idx = sorted.len() - after.len() - 1; Some((idx as i64, raw_of(&t), t.get_src_col())) })) {
        Ok(Some((i, t, sc))) => format!("{} {} {}", i, tok_str(&t), sc), Ok(None) => "none".into(), Err(_) => "panic".into() };
    outln!("{}\tlookup\t{}\t{}\t{}\t{}", id, toks_str(&sorted), l, c, out);
}
fn rel_case(id: &str, base: &str, target: &str) {
    let out = catch_unwind(|| sourcemap::make_relative_path(base, target)).map(|s| hex(s.as_bytes())).unwrap_or("panic".into());
    outln!("{}\trel\t{}\t{}\t{}", id, hex(base.as_bytes()), hex(target.as_bytes()), out);
}
fn lines_case(id: &str, text: &str, reqs: &[i64]) {
    let mut sv = sourcemap::SourceView::new(text.into());
    let mut outs = vec![];
    for &q in reqs {
        // -1 = line_count(), -2 = lines() collected, -3 = continue on a clone of the view (answers "cloned"), otherwise get_line(q); q may be u32::MAX
        if q == -3 { match catch_unwind(AssertUnwindSafe(|| sv.clone())) { Ok(c) => { sv = c; outs.push("cloned".to_string()); } Err(_) => outs.push("panic".into()) } continue; }
        let o = catch_unwind(AssertUnwindSafe(|| if q == -1 { sv.line_count().to_string() } else if q == -2 { format!("[{}]", sv.lines().map(|s| hex(s.as_bytes())).collect::<Vec<_>>().join("/")) } else { sv.get_line(q as u32).map(|s| hex(s.as_bytes())).unwrap_or("-".into()) })).unwrap_or("panic".into());
        outs.push(o);
    }
    outln!("{}\tlines\t{}\t{}\t{}", id, hex(text.as_bytes()), reqs.iter().map(|x| x.to_string()).collect::<Vec<_>>().join(","), outs.join(","));
}
fn adjust_case(id: &str, orig: &[Tok], adj: &[Tok]) {
    let mut o = build_map(4, 4, orig); let a = build_map(4, 4, adj);
    let os: Vec<Tok> = o.tokens().map(|t| raw_of(&t)).collect(); let as_: Vec<Tok> = a.tokens().map(|t| raw_of(&t)).collect();
    // C04 over histories: lookups before the adjustment (they may populate caches), then the adjustment, then lookups on the same map
    let qs: Vec<(u32, u32)> = vec![(0, 0), (0, 3), (0, 7), (1, 2), (2, 9), (0, 12)];
    let out = match catch_unwind(AssertUnwindSafe(|| { for q in &qs { let _ = o.lookup_token(q.0, q.1); }
            o.adjust_mappings(&a);
            let after: Vec<String> = qs.iter().map(|q| o.lookup_token(q.0, q.1).map(|t| tok_str(&raw_of(&t))).unwrap_or("none".into())).collect();
            (o.tokens().map(|t| raw_of(&t)).collect::<Vec<_>>(), after) })) { Ok((v, after)) => format!("ok {}\t{}", toks_str(&v), after.join(",")), Err(_) => "panic\t-".into() };
    outln!("{}\tadjust\t{}\t{}\t{}", id, toks_str(&os), toks_str(&as_), out);
}

fn run_c11(r: &mut Rng, n: u64) {
    let alpha = b"ABCDEFGHIJKLMNOPQRSTUVWXYZabcdefghijklmnopqrstuvwxyz0123456789+/";
    let mut k = 0;
    for w in [&b"!A"[..], b"////////////f", b"ggggggggggggI", b"ggggggggggggH", b"gggggggggggggg", b"", b"g", b"B", b"\x7fA",
              b"gggggggggggggA", b"2ggggggggggggA", b"AgggggggggggggA", b"ggggggggggggA", b"ggggggggggggQ", b"ggggggggggggggggggggA", b"hgggggggggggggA"] { vlq_parse_case(&format!("x{}", k), w); k += 1; }
    // every length 1..16 of zero-payload continuation digits closed by each kind of last digit
    for n in 1..17 { for last in [b'A', b'B', b'P', b'Q', b'f'] { let mut w = vec![b'g'; n]; w.push(last); vlq_parse_case(&format!("x{}", k), &w); k += 1; let mut w2 = vec![b'A']; w2.extend(vec![b'h'; n]); w2.push(last); vlq_parse_case(&format!("x{}", k), &w2); k += 1; } }
    // the alphabet table, byte by byte ("all 256 byte values": the ASCII half here, as a digit in front of a terminator; bytes >= 0x80 cannot stand
    // alone in a &str and are fed through the decoder in the decode_faults stream): a byte is a digit exactly when it is one of the 64
    for b in 0u8..128 { vlq_parse_case(&format!("t{}", b), &[b, b'A']); vlq_parse_case(&format!("t{}b", b), &[b'C', b]); }
    // long lists: a text is as long as its list (no cap): 66..200 single-digit values, six to ten 13-digit values
    for len in [64usize, 65, 66, 67, 100, 200] { vlq_parse_case(&format!("L{}", len), &vec![b'A'; len]); vlq_gen_case(&format!("G{}", len), &vec![7i64; len]); }
    for cnt in [5usize, 6, 10] { let big: Vec<i64> = (0..cnt).map(|j| if j % 2 == 0 { (1i64 << 62) - 1 - j as i64 } else { -((1i64 << 61) + j as i64) }).collect(); vlq_gen_case(&format!("B{}", cnt), &big);
        let mut txt = String::new(); for v in &big { own_vlq(*v, &mut txt); } vlq_parse_case(&format!("P{}", cnt), txt.as_bytes()); }
    let ext: Vec<u8> = alpha.iter().cloned().chain([b'!', b'-', b'_', 0x7f, b'=']).collect();
    for &a in &ext { vlq_parse_case(&format!("x{}", k), &[a]); k += 1; for &b in &ext { vlq_parse_case(&format!("x{}", k), &[a, b]); k += 1; } }
    for p in 0..62 { for d in [-1i64, 0, 1] { let v = (1i64 << p) + d; if v.unsigned_abs() < (1u64 << 62) { vlq_gen_case(&format!("x{}", k), &[v]); k += 1; vlq_gen_case(&format!("x{}", k), &[-v]); k += 1; } } }
    // exhaustive: every integer in a window around 0 (quick: +-4096, thorough: +-2^17), every alphabet string of length <= 2 (thorough: <= 3)
    let w: i64 = if n >= 100_000 { 1 << 17 } else { 4096 };
    for v in -w..=w { vlq_gen_case(&format!("w{}", v), &[v]); }
    if n >= 100_000 { for a in alpha.iter() { for b in alpha.iter() { for c in alpha.iter() { vlq_parse_case(&format!("e{}{}{}", *a as char, *b as char, *c as char), &[*a, *b, *c]); } } } }
    for i in 0..n {
        let id = format!("r{}", i);
        if r.below(2) == 0 {
            let len = r.below(24) as usize; let mut s: Vec<u8> = Vec::with_capacity(len);
            for _ in 0..len { let c = match r.below(20) { 0 => b'!', 1 => b'=', 2..=7 => alpha[(r.below(32) + 32) as usize], _ => alpha[r.below(64) as usize] }; s.push(c); }
            vlq_parse_case(&id, &s);
        } else {
            let len = 1 + r.below(6) as usize;
            let ns: Vec<i64> = (0..len).map(|_| { let bits = r.below(62); let m = (r.next() >> (64 - bits.max(1))) as i64; if r.below(2) == 0 { -m } else { m } }).collect();
            vlq_gen_case(&id, &ns);
        }
    }
}
/// thorough tier only: generate;parse round trip on the crate alone for EVERY integer in [-(2^32-1), 2^32-1] (all the map encoder ever
/// emits), 16 threads; one summary case per chunk. A test, not a proof: the theorem is C11_decode_encode.
fn run_vlq_sweep(_r: &mut Rng, n: u64) {
    let lim: i64 = if n >= 1000 { (1i64 << 32) - 1 } else { (1i64 << 24) - 1 };      // quick callers get a 2^25-value window
    let chunks = 64i64; let span = (2 * lim + 1 + chunks - 1) / chunks;
    let results: Vec<(i64, i64, u64, i64)> = std::thread::scope(|sc| { let hs: Vec<_> = (0..16).map(|t| sc.spawn(move || { let mut out = vec![];
        for c in (t as i64..chunks).step_by(16) { let from = -lim + c * span; let to = (from + span - 1).min(lim); let mut bad = 0u64; let mut first = 0i64;
            let mut buf = String::new();
            let mut v = from; while v <= to { buf.clear();
                let ok = match vlq::generate_vlq_segment(&[v]) { Ok(s) => { buf.push_str(&s); matches!(vlq::parse_vlq_segment(&buf), Ok(ref p) if p.len() == 1 && p[0] == v) } Err(_) => false };
                if !ok { if bad == 0 { first = v; } bad += 1; } v += 1;
                if v & 0xfffff == 0 { PROGRESS.fetch_add(1, std::sync::atomic::Ordering::Relaxed); } }   // the sweep is one long case: tell the watchdog it is alive
            out.push((from, to, bad, first)); } out })).collect(); hs.into_iter().flat_map(|h| h.join().unwrap()).collect() });
    let mut results = results; results.sort();
    for (from, to, bad, first) in results { outln!("s{}\tvlq_sweep\t{}\t{}\t{}\t{}", from, from, to, bad, first); }
}
fn run_codec(r: &mut Rng, n: u64, ranges: bool) {
    // explicit witnesses of the fixed findings
    let t = |dl, dc, sl, sc, src, name, range| Tok { dl, dc, sl, sc, src, name, range };
    codec_case("x0", 1, 0, &[t(0,0,0,0,0,!0,false), t(1,0,1,0,0,!0,true), t(1,5,1,5,0,!0,false)]);
    codec_case("x1", 1, 0, &(0..20).map(|i| t(0, i, 0, i, 0, !0, ranges && i == 16)).collect::<Vec<_>>());
    codec_case("x2", 1, 0, &[t(0,0,0,0,0,!0,false), t(0,0,0,0,0,!0,false), t(0,5,0,5,0,!0,ranges)]);
    codec_case("x3", 1, 0, &[t(0,5,0,0,!0,!0,false), t(0,5,1,0,!0,!0,false), t(0,9,1,0,0,!0,false)]);
    for pos in [0u32, 15, 16, 17, 31, 32, 33, 47, 48] { for line in [0u32, 1, 5] { let toks: Vec<Tok> = (0..50).map(|i| t(line, i, 0, i, 0, !0, ranges && i == pos)).collect(); codec_case(&format!("p{}_{}", pos, line), 1, 0, &toks); } }
    // every field delta at, just below and just above a VLQ digit boundary (2^4, 2^9, 2^14, ... : one more base64 digit), with both signs:
    // the generated column goes up by d, the original line and column go up by d and come back down by d
    for k in 1..=6u32 { for off in [-1i64, 0, 1] { let d = ((1i64 << (5 * k - 1)) + off) as u32;
        codec_case(&format!("v{}", d), 1, 0, &[t(0,0,0,0,0,!0,false), t(0,d,d,d,0,!0,false), t(0,d.wrapping_mul(2),0,0,0,!0,false), t(1,d,0,d,0,!0,false)]); } }
    for i in 0..n { let nsrc = r.below(4) as u32; let nn = r.below(4) as u32; let toks = gen_toks(r, nsrc, nn, if i % 10 == 0 { 120 } else { 12 }, ranges);
        // every fourth map has equal strings under different indices and many tokens on few positions
        if i % 4 == 3 { let nsrc = 2 + r.below(3) as u32; let nn = 2 + r.below(3) as u32; let mut toks = gen_toks(r, nsrc, nn, 14, ranges); for t in toks.iter_mut() { t.dl %= 2; t.dc %= 2; t.sl %= 2; t.sc %= 2; } codec_case(&format!("d{}", i), nsrc, nn, &toks); }
        else { codec_case(&format!("r{}", i), nsrc, nn, &toks); } }
}
fn run_lookup(r: &mut Rng, n: u64) {
    for i in 0..n {
        let mut toks = gen_toks(r, 4, 4, 10, true);
        // sometimes the map reaches the last representable line
        if i % 9 == 4 { for t in toks.iter_mut() { if r.below(3) == 0 { t.dl = u32::MAX - r.below(2) as u32; } } }
        toks.sort_by_key(|t| (t.dl, t.dc));
        if i % 9 == 4 { for (l, c) in [(u32::MAX, 0), (u32::MAX, 3), (u32::MAX - 1, 7), (u32::MAX, u32::MAX - 1)] { lookup_case(&format!("r{}_m{}", i, c), &toks, l, c); } }
        for q in 0..6 { let (l, c) = match q { 0 => (0, 0), 1 => (u32::MAX, u32::MAX), _ => (r.below(10) as u32, r.below(8) as u32) }; lookup_case(&format!("r{}_{}", i, q), &toks, l, c); }
        if let Some(t) = toks.get(r.below(toks.len().max(1) as u64) as usize) { lookup_case(&format!("r{}_e", i), &toks, t.dl, t.dc); lookup_case(&format!("r{}_n", i), &toks, t.dl.saturating_add(1), t.dc.saturating_sub(1)); }
    }
}
fn run_rel(r: &mut Rng, n: u64) {
    // a small pool, so that shared prefixes of every length occur; with names that are string prefixes of one another (a/ab, bar/bar.map),
    // case variants (a/A, Lib/lib) and a non-ASCII name: components are compared whole and exactly
    let names = ["a", "b", "c.js", "d", "ab", "A", "bar", "bar.map", "Lib", "lib", "\u{e9}"];
    rel_case("x7", "/a/b/", "/a/c"); rel_case("x8", "a/b.js", "a/c/"); rel_case("x9", "/", "/a"); rel_case("x10", "/a", "/");
    let path = |r: &mut Rng| -> String { let k = 1 + r.below(5); let abs = r.below(2) == 0; let sep = if r.below(4) == 0 { "\\" } else { "/" }; let pool = if r.below(3) == 0 { 11 } else { 6 }; let comps: Vec<&str> = (0..k).map(|_| names[r.below(pool) as usize]).collect(); format!("{}{}", if abs { "/" } else { "" }, comps.join(sep)) };
    rel_case("x0", "/foo/bar.js", "/foo/x/y.map"); rel_case("x1", "/a/b/c/d.js", "/a/x/y/z.map"); rel_case("x2", "/a/b.js", "/a"); rel_case("x3", "/foo/bar/baz.js", "/foo/barbaz/baz.map"); rel_case("x4", "/static/Lib/app.min.js", "/static/lib/app.min.js.map"); rel_case("x5", "a/a", "ab"); rel_case("x6", "a/a", "A");
    for i in 0..n { let b = path(r); let t = path(r); rel_case(&format!("r{}", i), &b, &t);
        // the same base again, first towards its own directory or an ancestor, then towards a sibling
        if i % 4 == 0 { let comps: Vec<&str> = b.split(|c| c == '/' || c == '\\').filter(|x| !x.is_empty()).collect(); if comps.len() >= 2 { let abs = b.starts_with('/');
            let up = r.below(comps.len() as u64 - 1) as usize; let anc = format!("{}{}", if abs { "/" } else { "" }, comps[..comps.len() - 1 - up].join("/"));
            if !anc.is_empty() && anc != "/" { rel_case(&format!("r{}a", i), &b, &anc); rel_case(&format!("r{}s", i), &b, &format!("{}/{}", anc, ["x.map", "a", "b"][r.below(3) as usize]));
                // ... and towards something beside that ancestor (same parent directory as the previous target)
                if let Some(k) = anc.rfind('/') { if k > 0 { rel_case(&format!("r{}a2", i), &b, &anc); rel_case(&format!("r{}p", i), &b, &format!("{}/{}", &anc[..k], ["x.map", "a", "zz"][r.below(3) as usize])); } } } } } }
}
fn slice_case(id: &str, line: &str, col: u32, span: u32) {
    let sv = sourcemap::SourceView::new(line.into());
    let o = catch_unwind(AssertUnwindSafe(|| sv.get_line_slice(0, col, span).map(|s| format!("={}", hex(s.as_bytes()))).unwrap_or("-".into()))).unwrap_or("panic".into());
    outln!("{}\tslice\t{}\t{}\t{}\t{}", id, hex(line.as_bytes()), col, span, o);
}
fn run_slices(r: &mut Rng, n: u64) {
    // explicit: the sum col + span at and around 2^32, starts inside a surrogate pair with and without span
    slice_case("x0", "abc\u{1F44C}def", 4, 2); slice_case("x1", "abc\u{1F44C}def", 4, 0); slice_case("x2", "ab", 2, u32::MAX - 1); slice_case("x3", "ab", 1, u32::MAX); slice_case("x4", "", 0, 0); slice_case("x5", "a", u32::MAX, u32::MAX);
    let al = ['a', '\u{e9}', '\u{1F44C}', 'b', '\u{1D49C}'];
    for i in 0..n { let len = r.below(8); let line: String = (0..len).map(|_| al[r.below(5) as usize]).collect();
        let col = if r.below(25) == 0 { u32::MAX - r.below(3) as u32 } else { r.below(12) as u32 }; let span = if r.below(25) == 0 { u32::MAX - r.below(3) as u32 } else { r.below(8) as u32 };
        slice_case(&format!("s{}", i), &line, col, span); }
}
/// C15 over histories of slice requests on ONE view ("in any access order"): every answer is what a fresh view gives
fn run_slicehist(r: &mut Rng, n: u64) {
    let al = ['a', '\u{e9}', '\u{1F44C}', 'b', '\u{1D49C}', 'c'];
    for i in 0..n {
        let nlines = 1 + r.below(3); let lines: Vec<String> = (0..nlines).map(|_| { let len = r.below(9); (0..len).map(|_| al[r.below(6) as usize]).collect() }).collect();
        let text = lines.join("\n");
        let sv = sourcemap::SourceView::new(text.clone().into());
        let k = 2 + r.below(5); let mut reqs = vec![]; let mut outs = vec![];
        // requests often stay on one line and move forward by one or two columns (a remembered position would be reused), sometimes jump
        let (mut l, mut c) = (r.below(nlines) as u32, r.below(4) as u32);
        for _ in 0..k {
            let span = r.below(4) as u32;
            reqs.push(format!("{}:{}:{}", l, c, span));
            outs.push(match catch_unwind(AssertUnwindSafe(|| sv.get_line_slice(l, c, span).map(|x| format!("={}", hex(x.as_bytes()))).unwrap_or("-".into()))) { Ok(x) => x, Err(_) => "panic".into() });
            match r.below(6) { 0 => { l = r.below(nlines + 1) as u32; c = r.below(10) as u32; } 1 => { c = c.saturating_sub(1 + r.below(3) as u32); } _ => { c += 1 + r.below(2) as u32; } }
        }
        outln!("h{}\tslicehist\t{}\t{}\t{}", i, hex(text.as_bytes()), reqs.join(","), outs.join(","));
    }
}
fn run_lines(r: &mut Rng, n: u64) {
    // only LF, CR and CRLF end a line: the other characters Unicode or ECMAScript call line terminators or white space (U+2028, U+2029, U+0085,
    // vertical tab, form feed) are ordinary content
    let al = ['a', '\u{e9}', '\u{1F44C}', '\n', '\r', 'b', '\n', '\r', '\u{2028}', '\u{2029}', '\u{85}', '\u{b}', '\u{c}', 'c'];
    for i in 0..n { let len = r.below(10); let mut text: String = (0..len).map(|_| al[r.below(if i % 3 == 0 { 14 } else { 8 }) as usize]).collect();
        if i % 11 == 5 { text.insert(0, '\u{feff}'); } let k = 1 + r.below(5); let reqs: Vec<i64> = (0..k).map(|_| match r.below(13) { 0 => -2, 1 => u32::MAX as i64, 2 => 1000, 12 => -3, _ => r.below(8) as i64 - 1 }).collect(); lines_case(&format!("r{}", i), &text, &reqs); }
}
fn run_adjust(r: &mut Rng, n: u64) {
    let t = |dl, dc, sl, sc| Tok { dl, dc, sl, sc, src: 0, name: !0, range: false };
    adjust_case("x0", &[t(0,5,1,1), t(0,5,2,2), t(0,10,3,3)], &[t(0,0,0,0)]);
    // overlapping images: a later adjustment token with a smaller displacement (the result must still come out ordered)
    adjust_case("x1", &[t(0,0,0,0), t(0,8,0,8), t(0,12,0,12)], &[t(0,0,0,0), t(0,5,0,10)]);
    // a range token split by an adjustment boundary keeps its original position in both pieces
    adjust_case("x2", &[Tok { dl: 0, dc: 0, sl: 3, sc: 4, src: 1, name: 2, range: true }], &[t(0,0,0,0), t(0,20,0,10)]);
    // far-end positions (2^31 and above) next to ordinary ones, under an identity adjustment: the result is still ordered as unsigned numbers
    adjust_case("x3", &[t(0,10,0,10), t(0,3_000_000_000,0,20), t(0,2_147_483_648,0,15)], &[t(0,0,0,0)]);
    adjust_case("x4", &[t(0,10,0,1), t(3_000_000_000,0,0,2), t(2_147_483_647,5,0,3)], &[t(0,0,0,0)]);
    for i in 0..n {
        // original side: any source / name / range flag; adjustment side: keys in original coordinates
        let mut mk = |r: &mut Rng, by_src: bool| -> Vec<Tok> { let k = r.below(6); let wide = r.below(4) == 0; (0..k).map(|j| { let key = (r.below(3) as u32, r.below(if wide { 30 } else { 6 }) as u32); let other = (r.below(3) as u32, r.below(if wide { 30 } else { 8 }) as u32 + j as u32);
            let mut x = if by_src { t(other.0, other.1, key.0, key.1) } else { t(key.0, key.1, other.0, other.1) };
            if !by_src { x.src = if r.below(6) == 0 { !0 } else { r.below(4) as u32 }; x.name = if x.src != !0 && r.below(2) == 0 { r.below(4) as u32 } else { !0 }; x.range = r.below(3) == 0; }
            else if r.below(5) == 0 { x.src = !0; }     // an adjustment token needs no source: its positions are what counts
            x }).collect() };
        let o = mk(r, false); let a = mk(r, true); adjust_case(&format!("r{}", i), &o, &a);
        // whole-line edits: every adjustment token maps a line start to a line start; the lines come in any order (moved, reversed, dropped, doubled)
        if i % 5 == 0 { let nl = 2 + r.below(4) as u32; let mut a2: Vec<Tok> = vec![]; for dl in 0..nl { if r.below(6) != 0 { a2.push(t(dl, 0, r.below(nl as u64 + 1) as u32, 0)); } }
            adjust_case(&format!("w{}", i), &o, &a2); }
    }
}

// ---------------------------------------------------------------- whole maps
fn opt_hex(s: Option<&str>) -> String { s.map(|x| format!("={}", hex(x.as_bytes()))).unwrap_or("-".into()) }
/// input description of a map: raw sources, root and the rest as the crate serialises them, tokens as it iterates them
fn map_in(sm: &sourcemap::SourceMap) -> String {
    let mut out = vec![]; sm.to_writer(&mut out).unwrap();
    let v: serde_json::Value = serde_json::from_slice(&out).unwrap();
    let strs = |k: &str| -> String { v.get(k).and_then(|a| a.as_array()).map(|a| a.iter().map(|x| x.as_str().map(|s| format!("={}", hex(s.as_bytes()))).unwrap_or("-".into())).collect::<Vec<_>>().join(",")).unwrap_or_default() };
    let nsrc = sm.get_source_count();
    let contents = (0..nsrc).map(|i| opt_hex(sm.get_source_contents(i))).collect::<Vec<_>>().join(",");
    format!("{}|{}|{}|{}|{}|{}|{}", opt_hex(sm.get_file()), opt_hex(sm.get_source_root()), strs("sources"), strs("names"), contents,
        sm.ignore_list().map(|x| x.to_string()).collect::<Vec<_>>().join(","), toks_str(&sm.tokens().map(|t| raw_of(&t)).collect::<Vec<_>>()))
}
/// the token-level accessors tell the same story as the map-level ones: a token's source / name / contents are the map's entries at its ids
fn accessors_agree(sm: &sourcemap::SourceMap) -> Option<String> {
    for (k, t) in sm.tokens().enumerate() {
        let (sid, nid) = (t.get_src_id(), t.get_name_id());
        let want_src = if sid == !0 { None } else { sm.get_source(sid) }; let want_name = if nid == !0 { None } else { sm.get_name(nid) };
        if t.get_source() != want_src { return Some(format!("token {}: get_source()={:?} but the map's source {} is {:?}", k, t.get_source(), sid, want_src)); }
        if t.get_name() != want_name { return Some(format!("token {}: get_name()={:?} but the map's name {} is {:?}", k, t.get_name(), nid, want_name)); }
        if t.has_source() != (sid != !0) || t.has_name() != want_name.is_some() { return Some(format!("token {}: has_source/has_name", k)); }
        if t.to_tuple() != (want_src.unwrap_or(""), t.get_src_line(), t.get_src_col(), want_name) { return Some(format!("token {}: to_tuple", k)); }
        if sm.get_token(k).map(|x| x.get_raw_token()) != Some(t.get_raw_token()) { return Some(format!("token {}: get_token(k) is not the k-th iterated token", k)); }
    }
    None
}
/// observation of a map: prefixed sources, names, contents, ignore list, tokens
fn map_obs(sm: &sourcemap::SourceMap) -> String {
    let nsrc = sm.get_source_count();
    format!("{}|{}|{}|{}|{}|{}", opt_hex(sm.get_file()),
        (0..nsrc).map(|i| opt_hex(sm.get_source(i))).collect::<Vec<_>>().join(","),
        sm.names().map(|s| format!("={}", hex(s.as_bytes()))).collect::<Vec<_>>().join(","),
        (0..nsrc).map(|i| opt_hex(sm.get_source_contents(i))).collect::<Vec<_>>().join(","),
        sm.ignore_list().map(|x| x.to_string()).collect::<Vec<_>>().join(","),
        toks_str(&sm.tokens().map(|t| raw_of(&t)).collect::<Vec<_>>()))
}
fn gen_map(r: &mut Rng, sorted_sources: bool) -> sourcemap::SourceMap {
    let spool = ["a.js", "b.js", "", "/abs/c.js", "http://x/d.js", "/abs/e/f.js", "a.js", "q/\u{e9}.js", "https:g.js", "http:h.js", "/absolute/z.js", "/abs", "http://xy/w.js",
        "src/\u{e9}.js", "\u{65e5}\u{672c}\u{8a9e}.js", "app/\u{1f600}.js", "webpack:///./src/a.js?abcd", "lib/x>y~.js", "e.js", "/abs/a.js", "Http://x/d.js", "/work/a/i.js", "/work/b/i.js", "/abs/a.js", "/work/a/i.js", "C:\\x\\y.js", "c:/x/z.js", "C:\\x\\w\\v.js", "1:/n.js", "/x.js", "/y.js", "/abs/dir/", "dir/", "/src/\u{e9}.js", "/src/\u{ea}.js", "/src/\u{65e5}.js", "/src/\u{65e9}.js", "dir\\", "C:\\proj\\", "./a.js", "./b.js", "~/static/a.js", "~"];
    let npool = ["x", "y", "", "fn", "x", "\u{1f44c}ok", "caf\u{e9}", "a>b?c~", "q\\", "\\\""];
    let nsrc = 1 + r.below(4) as usize; let nn = r.below(4) as usize;
    let srcs: Vec<&str> = (0..nsrc).map(|i| if sorted_sources { spool[i] } else { spool[r.below(spool.len() as u64) as usize] }).collect();
    let names: Vec<&str> = (0..nn).map(|_| npool[r.below(npool.len() as u64) as usize]).collect();
    let mut toks = gen_toks(r, nsrc as u32, nn as u32, 10, true); toks.sort_by_key(|t| (t.dl, t.dc));
    let contents: Vec<Option<std::sync::Arc<str>>> = (0..nsrc).map(|i| match r.below(9) { 0 => Some("".into()), 1..=3 => Some(format!("content{}", i).into()), 4 => Some(format!("{}x=>y??z~\u{1f44c}\u{e9}", &"ab"[..i % 3]).into()), 5 if i % 2 == 0 => Some("ends in a backslash \\".into()), 5 => Some("\u{feff}var bom = 1;\n".into()), _ => None }).collect();
    let raw: Vec<sourcemap::RawToken> = toks.iter().map(|t| sourcemap::RawToken { dst_line: t.dl, dst_col: t.dc, src_line: t.sl, src_col: t.sc, src_id: t.src, name_id: t.name, is_range: t.range }).collect();
    // the contents list handed over may be shorter than the sources (a builder whose contents were set before more sources were added)
    let contents = if r.below(6) == 0 && nsrc >= 2 { contents[..1 + r.below(nsrc as u64 - 1) as usize].to_vec() } else { contents };
    let mut sm = sourcemap::SourceMap::new(match r.below(6) { 0 | 1 => Some("out.js".into()), 2 => Some("\u{1f600}>.js".into()), 3 => Some(["<invalid>", "", "null"][r.below(3) as usize].into()), _ => None }, raw, names.iter().map(|s| (*s).into()).collect(), srcs.iter().map(|s| (*s).into()).collect(), if r.below(3) == 0 { None } else { Some(contents) });
    if r.below(3) == 0 { sm.set_source_root(Some(["", "root", "root/", "webpack:///", "r\u{e9}\u{1f600}/", "/abs"][r.below(6) as usize])); }
    for i in 0..nsrc as u32 { if r.below(5) == 0 { sm.add_to_ignore_list(i); } }
    sm
}
fn run_rewrite(r: &mut Rng, n: u64) {
    for i in 0..n {
        let sm = gen_map(r, false); let input = map_in(&sm);
        let wn = r.below(2) == 0; let wc = r.below(2) == 0;
        let prefixes: Vec<&str> = match r.below(11) { 0 => vec!["/abs"], 1 => vec!["/abs/", "http://x"], 2 => vec!["~"], 3 => vec!["~", "/abs"], 4 => vec!["http://x", "~", "/abs/e"], 5 => vec!["/abs", "e"], 6 => vec!["/abs/", "c.js", "e/"], 7 => vec!["/work/a/", "/work/b/", "/abs/"], 8 => vec!["~/"], 9 => vec!["/work/", "~/", "~x"], _ => vec![] };   // 7: different sources that become equal after stripping
        let opts = sourcemap::RewriteOptions { with_names: wn, with_source_contents: wc, strip_prefixes: &prefixes, ..Default::default() };
        let out = match catch_unwind(AssertUnwindSafe(|| sm.rewrite(&opts))) { Ok(Ok(m)) => format!("ok {}", map_obs(&m)), Ok(Err(e)) => format!("err {}", err_name(&e)), Err(_) => "panic".into() };
        outln!("r{}\trewrite\t{}\t{}\t{}\t{}\t{}", i, input, wn as u8, wc as u8, prefixes.iter().map(|p| hex(p.as_bytes())).collect::<Vec<_>>().join(","), out);
    }
}
fn run_setters(r: &mut Rng, n: u64) {
    // boundary strings of the literals tested by the code ("/", "http:", "https:") are in the pool on purpose
    let pool = ["a.js", "", "/abs.js", "http://h/x.js", "https://h/y.js", "httpx", "b/c.js", "http:", "https:", "https:z.js", "http:/w.js", "htt", "/"]; let roots = ["-", "", "r", "r/", "r//", "webpack:///", "/"];
    for i in 0..n {
        let mut sm = gen_map(r, false);
        // the contents table of a map is not always as long as its sources: a document with fewer `sourcesContent` entries, or a builder whose
        // contents were set before more sources were added, leaves it shorter (what the map reports is the same: nothing for the missing ones)
        if r.below(4) == 0 && sm.get_source_count() >= 2 { let keep = 1 + r.below(sm.get_source_count() as u64 - 1) as usize;
            let mut o = vec![]; sm.to_writer(&mut o).unwrap(); let mut v: serde_json::Value = serde_json::from_slice(&o).unwrap();
            if let Some(a) = v.get_mut("sourcesContent").and_then(|x| x.as_array_mut()) { a.truncate(keep); }
            if let Ok(m) = sourcemap::SourceMap::from_slice(&serde_json::to_vec(&v).unwrap()) { sm = m; } }
        let input = map_in(&sm); let nsrc = sm.get_source_count();
        let mut ops = vec![]; let mut panicked = false;
        for _ in 0..r.below(8) {
            match r.below(3) {
                0 => { let rt = roots[r.below(roots.len() as u64) as usize]; ops.push(format!("r:{}", if rt == "-" { "-".to_string() } else { format!("={}", hex(rt.as_bytes())) })); sm.set_source_root(if rt == "-" { None } else { Some(rt) }); }
                1 => { let extra = if r.below(10) == 0 { 1 } else { 0 }; let k = r.below(nsrc as u64 + extra) as u32;
                       // mostly a name from the pool; sometimes exactly the name the source currently READS as (the joined one): it becomes the new raw name
                       let cur: Option<String> = if r.below(5) == 0 { sm.get_source(k).map(|x| x.to_string()) } else { None };
                       let v: &str = match &cur { Some(c) => c.as_str(), None => pool[r.below(pool.len() as u64) as usize] }; ops.push(format!("s:{}:={}", k, hex(v.as_bytes())));
                       if catch_unwind(AssertUnwindSafe(|| sm.set_source(k, v))).is_err() { panicked = true; break; } }
                _ => { let k = r.below(nsrc as u64) as u32; let c = if r.below(2) == 0 { Some("c") } else { None }; ops.push(format!("c:{}:{}", k, c.map(|s| format!("={}", hex(s.as_bytes()))).unwrap_or("-".into())));
                       if catch_unwind(AssertUnwindSafe(|| sm.set_source_contents(k, c))).is_err() { panicked = true; break; } }
            }
        }
        // serialisation writes the raw names plus the root; two save/load cycles change nothing
        let (written, after2) = if panicked { ("-".to_string(), "-".to_string()) } else { match catch_unwind(AssertUnwindSafe(|| {
            let mut o1 = vec![]; sm.to_writer(&mut o1).unwrap(); let v: serde_json::Value = serde_json::from_slice(&o1).unwrap();
            let ws = v["sources"].as_array().map(|a| a.iter().map(|x| opt_hex(x.as_str())).collect::<Vec<_>>().join(",")).unwrap_or("?".into());
            let wr = opt_hex(v.get("sourceRoot").and_then(|x| x.as_str()));
            let m2 = sourcemap::SourceMap::from_slice(&o1).unwrap(); let mut o2 = vec![]; m2.to_writer(&mut o2).unwrap(); let m3 = sourcemap::SourceMap::from_slice(&o2).unwrap();
            (format!("{}|{}", wr, ws), (0..m3.get_source_count()).map(|k| opt_hex(m3.get_source(k))).collect::<Vec<_>>().join(",")) })) { Ok(x) => x, Err(_) => ("panic".into(), "panic".into()) } };
        outln!("r{}\tsetters\t{}\t{}\t{}\t{}\t{}", i, input, ops.join(";"), written, after2, if panicked { "panic".to_string() } else { format!("ok {}", map_obs(&sm)) });
    }
}
fn run_ram(r: &mut Rng, n: u64) {
    use sourcemap::ram_bundle::*;
    let le = |x: u32| x.to_le_bytes();
    for i in 0..n {
        // a bundle laid out from an abstract one (module table with optional modules, non-empty startup code, any physical order), then possibly corrupted
        let count = r.below(5) as usize; let startup: Vec<u8> = (0..1 + r.below(4)).map(|k| [b'S', 0xff, 0, b'\n'][k as usize % 4]).collect();
        let mods: Vec<Option<Vec<u8>>> = (0..count).map(|_| if r.below(3) == 0 { None } else { Some((0..r.below(5)).map(|_| [b'a', 0xfe, 0x80, b'z', 0x00, 0x00, b'\n'][r.below(7) as usize]).collect()) }).collect();
        // physical order of the module bodies: a random permutation
        let mut order: Vec<usize> = (0..count).collect(); for k in (1..count).rev() { let j = r.below(k as u64 + 1) as usize; order.swap(k, j); }
        let mut offs = vec![0u32; count]; let mut data = vec![]; let mut off = startup.len() as u32;
        for &k in &order { if let Some(d) = &mods[k] { offs[k] = off; data.extend(d); data.push(0); off += d.len() as u32 + 1; } }
        let mut v = vec![]; v.extend(le(0xFB0BD1E5)); v.extend(le(count as u32)); v.extend(le(startup.len() as u32));
        for (k, m) in mods.iter().enumerate() { match m { None => { v.extend(le(0)); v.extend(le(0)); } Some(d) => { v.extend(le(offs[k])); v.extend(le(d.len() as u32 + 1)); } } }
        v.extend(&startup); v.extend(&data);
        let corrupt = r.below(6);
        match corrupt { 0 => { let k = r.below(v.len() as u64 + 1) as usize; v.truncate(k); } 1 => { if r.below(3) == 0 && v.len() >= 4 { let m: [u8; 4] = [[0xfb, 0x0b, 0xd1, 0xe5], [0xe5, 0xd1, 0x0b, 0xfa], [0xe4, 0xd1, 0x0b, 0xfb], [0xd1, 0xe5, 0xfb, 0x0b]][r.below(4) as usize]; v[0..4].copy_from_slice(&m); }   // the magic in the other byte order, one bit off, half-swapped: none of these is the magic
                   else { let k = r.below(v.len() as u64) as usize; v[k] = [0, 1, 0xff, 0x7f][r.below(4) as usize]; } }
            2 => { if v.len() >= 8 { v[4..8].copy_from_slice(&le([0xffffffff, 5, 0x80000000][r.below(3) as usize])); } }
            3 => { if count > 0 { let k = 12 + 8 * r.below(count as u64) as usize + 4 * r.below(2) as usize; let vl = v.len() as u32; v[k..k + 4].copy_from_slice(&le([0xffffffff, 0xfffffff0, vl, 0x7fffffff][r.below(4) as usize])); } }
            _ => {} }
        let abstract_descr = format!("{}:{}:{}", count, hex(&startup), mods.iter().map(|m| m.as_ref().map(|d| format!("={}", hex(d))).unwrap_or("none".into())).collect::<Vec<_>>().join(","));
        let out = match catch_unwind(AssertUnwindSafe(|| {
            let isb = is_ram_bundle_slice(&v);
            match RamBundle::parse_indexed_from_slice(&v) {
                Err(_) => format!("err {}", isb),
                Ok(b) => { let _warm: usize = b.iter_modules().take(8).count() + (0..6usize).filter(|&k| b.get_module(k).is_ok()).count() + b.startup_code().map(|s| s.len()).unwrap_or(0);   // every access is made a second time below: what is printed is the answer of the SECOND round (a bundle is immutable; nothing may be carried over from an earlier call)
                    let ms: Vec<String> = (0..6usize).chain([u32::MAX as usize, 1 << 40, usize::MAX / 8, 1 << 61, usize::MAX - 1, usize::MAX]).map(|k| match b.get_module(k) { Ok(None) => "none".into(), Ok(Some(m)) => format!("={}", hex(m.data())), Err(_) => "err".to_string() }).collect();
                    // the iterator is advanced a bounded number of steps only: a header may declare 2^32-1 modules
                    let it: Vec<String> = b.iter_modules().take(8).map(|x| match x { Ok(m) => format!("{}={}", m.id(), hex(m.data())), Err(_) => "err".into() }).collect();
                    format!("ok {} {} {} {} {}", b.module_count(), b.startup_code().map(|s| hex(s)).unwrap_or("err".into()), ms.join(","), isb, it.join(",")) }
            } })) { Ok(s) => s, Err(_) => "panic".into() };
        outln!("r{}\tram\t{}\t{}\t{}\t{}", i, hex(&v), if corrupt < 4 { 1 } else { 0 }, abstract_descr, out);
    }
}
fn show_ref(x: sourcemap::Result<Option<sourcemap::SourceMapRef>>) -> String {
    match x { Ok(None) => "none".into(), Ok(Some(sourcemap::SourceMapRef::Ref(u))) => format!("ref {}", hex(u.as_bytes())), Ok(Some(sourcemap::SourceMapRef::LegacyRef(u))) => format!("legacy {}", hex(u.as_bytes())), Err(_) => "err".into() }
}
// both entry points: the slice form and the reader form (read in chunks of `chunk` bytes); they must agree
fn locate_both(text: &[u8], chunk: usize) -> String {
    let a = match catch_unwind(AssertUnwindSafe(|| sourcemap::locate_sourcemap_reference_slice(text))) { Ok(x) => show_ref(x), Err(_) => "panic".into() };
    let b = match catch_unwind(AssertUnwindSafe(|| sourcemap::locate_sourcemap_reference(Chunked { data: text, pos: 0, sizes: vec![chunk], k: 0 }))) { Ok(x) => show_ref(x), Err(_) => "panic".into() };
    if a == b { a } else { format!("entry-points-differ slice=[{}] reader=[{}]", a, b) }
}
fn locate_case(id: &str, text: &[u8]) {
    let out = locate_both(text, 1 + text.len() % 97);
    outln!("{}\tlocate\t{}\t{}", id, hex(text), out);
}
fn run_locate(r: &mut Rng, n: u64) {
    // explicit: the reference line starts shortly before / at / after a multiple of 8192 bytes, after one long line or many short ones
    let mut k = 0;
    for mult in [1usize, 2] { for d in (0..26).chain([40, 100]) { for long_line in [true, false] {
        let start = mult * 8192 - d; let mut t: Vec<u8> = vec![];
        if long_line { t.extend(std::iter::repeat(b'x').take(start - 1)); t.push(b'\n'); } else { while t.len() + 8 <= start { t.extend(b"var a;\r\n"); } while t.len() + 1 < start { t.push(b';'); } if t.len() < start { t.push(b'\n'); } }
        t.extend(if (d + mult) % 2 == 0 { &b"//# sourceMappingURL=big.map"[..] } else { &b"//@ sourceMappingURL=old.map\n//# sourceMappingURL=second.map\n"[..] });
        if d % 5 != 0 || !long_line { locate_case(&format!("x{}", k), &t); } k += 1; } } }
    let parts = ["foo();", "", "glob(\"src/*\");", "/* banner", " * more */", "/* closed */ x();", "a = `", "<!--", "//# sourceMappingURL=a.map", "//@ sourceMappingURL=b.map", " //# sourceMappingURL=c.map", "x //# sourceMappingURL=d.map", "//# sourceMappingURL=", "//# sourceMappingURL=  e.map \t", "//#sourceMappingURL=f.map", "//# sourcemappingurl=h", "//# sourceMappingURL=\u{a0}g.map\u{a0}", "s=\"\u{1f600} sourceMappingURL=x\";", "\u{65e5}a sourceMappingURL=y", "a();//# sourceMappingURL=glued.map", "\u{e9}# sourceMappingURL=z", "// sourceMappingURL=w"];
    for i in 0..n {
        let k = r.below(5); let mut text = String::new();
        for j in 0..k { text.push_str(parts[r.below(parts.len() as u64) as usize]); if j + 1 < k || r.below(2) == 0 { text.push_str(if r.below(2) == 0 { "\n" } else { "\r\n" }); } }
        let out = locate_both(text.as_bytes(), 1 + r.below(40) as usize);
        outln!("r{}\tlocate\t{}\t{}", i, hex(text.as_bytes()), out);
    }
}
struct Chunked<'a> { data: &'a [u8], pos: usize, sizes: Vec<usize>, k: usize }
impl<'a> std::io::Read for Chunked<'a> {
    fn read(&mut self, buf: &mut [u8]) -> std::io::Result<usize> {
        if self.pos >= self.data.len() { return Ok(0); }
        let s = self.sizes[self.k % self.sizes.len()].max(1).min(buf.len()).min(self.data.len() - self.pos); self.k += 1;
        buf[..s].copy_from_slice(&self.data[self.pos..self.pos + s]); self.pos += s; Ok(s)
    }
}
fn own_b64(data: &[u8]) -> String {
    const A: &[u8] = b"ABCDEFGHIJKLMNOPQRSTUVWXYZabcdefghijklmnopqrstuvwxyz0123456789+/";
    let mut out = String::new();
    for ch in data.chunks(3) { let b = [ch[0], *ch.get(1).unwrap_or(&0), *ch.get(2).unwrap_or(&0)]; let v = ((b[0] as u32) << 16) | ((b[1] as u32) << 8) | b[2] as u32;
        out.push(A[(v >> 18) as usize & 63] as char); out.push(A[(v >> 12) as usize & 63] as char);
        out.push(if ch.len() > 1 { A[(v >> 6) as usize & 63] as char } else { '=' }); out.push(if ch.len() > 2 { A[v as usize & 63] as char } else { '=' }); }
    out
}
fn run_hdr(r: &mut Rng, n: u64) {
    let bodies: Vec<&[u8]> = vec![br#"{"version":3,"sources":["a"],"names":[],"mappings":"AAAA"}"#, br#"{"version":3,"sections":[{"offset":{"line":0,"column":0},"map":{"version":3,"sources":["a"],"names":[],"mappings":"AAAA"}}]}"#,
        br#"{"version":3,"sources":["a"],"names":[],"mappings":"AAAA","x_facebook_sources":[null]}"#, br#"{"file":"x"}"#, br#"[1,2]"#,
        // nothing after the header; a complete document followed by more (white space is fine, anything else is an error on every path)
        b"", br#"{"version":3,"sources":["a"],"names":[],"mappings":"AAAA"}x"#, b"{\"version\":3,\"sources\":[\"a\"],\"names\":[],\"mappings\":\"AAAA\"} \n }", b"{\"version\":3,\"sources\":[\"a\"],\"names\":[],\"mappings\":\"AAAA\"}\n\n  ",
        br#"{"version":3,"sources":["a"],"names":[],"mappings":"AAAA"}{"version":3}"#,
        // something in front of the document (after the header, if there is one): JSON white space is fine, other "white space" (form feed,
        // vertical tab, NUL, no-break space) is not -- on every path alike
        b"\x0c{\"version\":3,\"sources\":[\"a\"],\"names\":[],\"mappings\":\"AAAA\"}", b" \t\r\n{\"version\":3,\"sources\":[\"a\"],\"names\":[],\"mappings\":\"AAAA\"}",
        b"{\"version\":3,\"sources\":[\"a\"],\"names\":[],\"mappings\":\"AAAA\",\"x_generator\":\"caf\xe9 bundler\"}", b"{\"x_note\":[\"\xff\xfe\"],\"version\":3,\"sources\":[\"a\"],\"names\":[],\"mappings\":\"AAAA\"}",
        b"\x0b{\"version\":3,\"sources\":[\"a\"],\"names\":[],\"mappings\":\"AAAA\"}", b"\x00{\"version\":3,\"sources\":[\"a\"],\"names\":[],\"mappings\":\"AAAA\"}", b"\xc2\xa0{\"version\":3,\"sources\":[\"a\"],\"names\":[],\"mappings\":\"AAAA\"}"];
    let headers: Vec<&[u8]> = vec![b"", b")]}'\n", b")]}'\r\n", b")]}'\r", b")]}'", b")\n", b"]\r\r\n", b"}garbage)]}\n", b"'\n\n", b")]}\rx\n", b"x)]}\n", b")\r\n\r\n", b")]}'\r\r\n", b"'\r", b"]\n\r\n", b"}{\n",
        b")]}'\r)]}'\n", b")\r]\n", b"]\r}\r\n", b"'\r'\r'\n", b")\r\r", b"}\r)",
        b")]}'\n)]}'\n", b")\n]\r\n", b"'\r\n'\n'\n", b")]}'\n \n", b"\n", b" \n", b"\n)]}'\n",
        // garbage that is not UTF-8 (Latin-1 text, a lone continuation byte, a truncated sequence): the header is skipped byte-wise on every path
        b")]}'\xff\xfe\n", b"]caf\xe9\r\n", b"}\x80\n", b"'\xe2\x82\n", b")\xf0\x9f\r\n", b"]\xc3\r",
        // a byte order mark in front of the document or of the header (not JSON, not a junk start byte: whatever one path does, the other does)
        b"\xef\xbb\xbf", b"\xef\xbb\xbf)]}'\n", b"\xef\xbb", b"\xfe\xff",
        // garbage that looks like the beginning of a document
        b")]}' {generated}\n", b"){\"version\":3}\r\n", b"]{\n", b"'[{\n",
        // other things servers put in front of JSON: not a junk start byte, so not a header on any path
        b"false\n", b"while(1);\n", b"for(;;);\r\n", b"while (1);\n", b"w\n", b"null\n", b"true\r\n", b"0\n", b"//\n", b"/**/\n"];
    for i in 0..n {
        let body = bodies[if r.below(3) == 0 { r.below(bodies.len() as u64) as usize } else { 0 }];
        let mut doc = headers[r.below(headers.len() as u64) as usize].to_vec();
        if r.below(10) == 0 && doc.ends_with(b"\n") && doc.len() > 1 && doc.len() < 12 && !doc[..doc.len() - 1].contains(&b'\n') { let crlf = doc.ends_with(b"\r\n"); let tail = if crlf { 2 } else { 1 }; let body_len = 120 + r.below(16) as usize;   // a header line of 120..135 bytes (limits tend to sit at powers of two)
            let mut h = doc[..doc.len() - tail].to_vec(); while h.len() < body_len { h.push(b'k'); } h.extend(if crlf { &b"\r\n"[..] } else { &b"\n"[..] }); doc = h; }
        if r.below(12) == 0 && doc.ends_with(b"\n") && doc.len() > 1 && !doc[..doc.len() - 1].contains(&b'\n') && !doc.contains(&b'\r') { let nl = doc.pop().unwrap(); doc.extend(std::iter::repeat(b'j').take(8190 + r.below(5) as usize)); doc.push(nl); }   // a header line of about 8 KiB
        let cut = [0usize, 0, 0, 1, 7][r.below(5) as usize].min(body.len()); doc.extend_from_slice(&body[..body.len() - cut]);
        // reads: mostly short; sometimes a first read that ends exactly after the header line, or one big read
        let hdr_len = doc.iter().position(|&b| b == b'\n').map(|k| k + 1).unwrap_or(1);
        let after_doc = doc.iter().rposition(|&b| b == b'}').map(|k| k + 1).unwrap_or(1);        // a read that ends exactly after the last closing brace
        let sizes: Vec<usize> = match r.below(8) { 6 => vec![after_doc.max(1), 1 + r.below(3) as usize], 7 => vec![1 + r.below(2) as usize, 4096], 0 => vec![hdr_len.max(1), 1 + r.below(7) as usize], 1 => vec![doc.len().max(1)], 2 => vec![1], _ => (0..1 + r.below(3)).map(|_| 1 + r.below(7) as usize).collect() };
        let res = |x: sourcemap::Result<sourcemap::DecodedMap>| match x { Ok(dm) => format!("ok:{}", match dm { sourcemap::DecodedMap::Regular(m) => format!("R{}", m.get_token_count()), sourcemap::DecodedMap::Index(m) => format!("I{}", m.get_section_count()), sourcemap::DecodedMap::Hermes(m) => format!("H{}", m.get_token_count()) }), Err(_) => "err".to_string() };
        let out = catch_unwind(AssertUnwindSafe(|| {
            let a = res(sourcemap::decode_slice(&doc));
            let b = res(sourcemap::decode(Chunked { data: &doc, pos: 0, sizes: sizes.clone(), k: 0 }));
            // the detection predicates on both paths, and the same bytes as the payload of a base64 data URL
            let da = sourcemap::is_sourcemap_slice(&doc); let db = sourcemap::is_sourcemap(Chunked { data: &doc, pos: 0, sizes: sizes.clone(), k: 0 });
            let url = format!("data:application/json;{}base64,{}", if i % 2 == 0 { "" } else { "charset=utf-8;" }, own_b64(&doc));
            let c = res(sourcemap::decode_data_url(&url));
            format!("{}\t{}\t{}\t{}\t{}", a, b, da as u8, db as u8, c) })).unwrap_or("panic\tpanic\t0\t0\tpanic".into());
        outln!("r{}\thdr\t{}\t{}\t{}", i, hex(&doc), sizes.iter().map(|x| x.to_string()).collect::<Vec<_>>().join(","), out);
    }
}

/// sections at strictly increasing offsets whose tokens stay before the next offset; nested indexes to the given depth.
/// returns (sections, description "l:c@<map>" joined by the depth's delimiter, number of lines occupied)
fn gen_sections(r: &mut Rng, depth: usize, level: usize) -> (Vec<sourcemap::SourceMapSection>, String, u32) {
    let delim = ['#', '%', '&'][level];
    let nsec = 1 + r.below(if level == 0 { 4 } else { 3 }); let mut off = (r.below(3) as u32, r.below(5) as u32); let mut secs = vec![]; let mut descr = vec![];
    for _ in 0..nsec {
        let (dm, d, extent) = if depth > 0 && r.below(4) == 0 {
            let (inner, d, ext) = gen_sections(r, depth - 1, level + 1);
            (sourcemap::DecodedMap::Index(sourcemap::SourceMapIndex::new(None, inner)), format!("I[{}]", d), ext)
        } else { let sm = gen_map(r, false); let d = format!("R{}", map_in(&sm)); (sourcemap::DecodedMap::Regular(sm), d, 20) };   // tokens of gen_map stay below line 20
        descr.push(format!("{}:{}@{}", off.0, off.1, d));
        // where this section's last mapping sits in the whole file (None for nested indexes and for maps with far-out columns)
        let last_abs: Option<(u32, u32)> = match &dm { sourcemap::DecodedMap::Regular(sm) => sm.tokens().map(|t| { let (l, c) = t.get_dst(); (off.0 as u64 + l as u64, if l == 0 { off.1 as u64 + c as u64 } else { c as u64 }) }).max().filter(|(l, c)| *l < 100_000 && *c < 1000).map(|(l, c)| (l as u32, c as u32)), _ => None };
        secs.push(sourcemap::SourceMapSection::new(off, None, Some(dm)));
        // usually the next section starts on a fresh line well behind this one; sometimes it starts mid-line right behind this section's last
        // mapping (the sections of a bundle that was concatenated without line breaks)
        off = match last_abs { Some((l, c)) if r.below(3) == 0 => (l, c + 1 + r.below(3) as u32), _ => (off.0 + extent + r.below(3) as u32, r.below(5) as u32) };
    }
    (secs, descr.join(&delim.to_string()), off.0 + 1)
}
fn run_index(r: &mut Rng, n: u64) {
    for i in 0..n {
        let (secs, descr, extent) = gen_sections(r, 2, 0);
        let idx = sourcemap::SourceMapIndex::new(Some("f".into()), secs);
        let flat = catch_unwind(AssertUnwindSafe(|| idx.flatten()));
        let flat_s = match &flat { Ok(Ok(m)) => format!("ok {}", map_obs(m)), Ok(Err(e)) => format!("err {}", err_name(e)), Err(_) => "panic".into() };
        let view = |t: &sourcemap::Token| format!("{}/{}/{}/{}", opt_hex(t.get_source()), t.get_src_line(), t.get_src_col(), opt_hex(t.get_name()));
        let mut qs = vec![]; let mut outs = vec![];
        for _ in 0..10 { let q = (r.below(extent as u64 + 3) as u32, r.below(12) as u32 * if r.below(20) == 0 { 1000 } else { 1 }); qs.push(format!("{}:{}", q.0, q.1));
            let a = match catch_unwind(AssertUnwindSafe(|| idx.lookup_token(q.0, q.1).map(|t| view(&t)))) { Ok(Some(v)) => v, Ok(None) => "none".into(), Err(_) => "panic".into() };
            let b = match &flat { Ok(Ok(m)) => match catch_unwind(AssertUnwindSafe(|| m.lookup_token(q.0, q.1).map(|t| view(&t)))) { Ok(Some(v)) => v, Ok(None) => "none".into(), Err(_) => "panic".into() }, _ => "noflat".into() };
            outs.push(format!("{}~{}", a, b)); }
        outln!("r{}\tindex\t{}\t{}\t{}\t{}", i, descr, qs.join(","), flat_s, outs.join(","));
    }
}
fn run_fname(r: &mut Rng, n: u64) { run_fname_gen(r, n, false) }
fn run_fname_gen(r: &mut Rng, n: u64, any_col: bool) {
    if !any_col {
        // explicit: `function NAME` exactly d tokens behind the queried token, d around the window of 128 (tokens on one line and across two lines)
        for d in 120..136u32 { for two_lines in [false, true] {
            let mut text = String::from("function n"); let mut toks = vec![Tok { dl: 0, dc: 0, sl: 0, sc: 0, src: 0, name: 1, range: false }, Tok { dl: 0, dc: 9, sl: 0, sc: 0, src: 0, name: 2, range: false }];
            let mut line = 0u32; let mut col = 10u32;
            for j in 0..d { if two_lines && j == d / 2 { text.push('\n'); line = 1; col = 0; } text.push_str(" a"); col += 2; toks.push(Tok { dl: line, dc: col - 1, sl: 0, sc: 0, src: 0, name: if j % 3 == 0 { 3 } else { !0 }, range: false }); }
            let sv = sourcemap::SourceView::new(text.clone().into()); let sm = build_map(1, 4, &toks); let sorted: Vec<Tok> = sm.tokens().map(|t| raw_of(&t)).collect(); let ti = sorted.len() - 1;
            let out = match catch_unwind(AssertUnwindSafe(|| sv.get_original_function_name(sm.get_token(ti).unwrap(), "n").map(|s| s.to_string()))) { Ok(Some(s)) => s.trim_start_matches('n').to_string(), Ok(None) => "none".into(), Err(_) => "panic".into() };
            outln!("w{}_{}\tfname\t{}\t{}\t{}\t{}\t{}", d, two_lines as u8, hex(text.as_bytes()), toks_str(&sorted), ti, hex(b"n"), out);
        } }
    }
    let words = ["function", "a", "ab", "\u{e9}", "a\u{e9}", "\u{1D49C}x", "$", "_1", "x\u{200d}y", "(", ")", "{", "}", "\u{1F44C}", "1", " ", "\t", "\u{a0}", ";", "function", "function", "function", "var", ",",
        "a\u{301}", "ab\u{661}", "a\u{203f}b", "a\u{b7}b", "\u{301}", "\u{b7}", "\u{feff}", "\u{feff}", "\u{2028}", "\u{2029}"];   // U+FEFF is a character like any other, also in front of everything
    let cands = ["a", "ab", "\u{e9}", "a\u{e9}", "function", "\u{1D49C}x", "x\u{200d}y", "1a", "a b", "", "_1", "$", "a\u{301}", "ab\u{661}", "a\u{203f}b", "a\u{b7}b", "\u{301}a",
        // not identifiers, although they end in one (engine frame names such as "Object.a", "new a"): never resolved
        "Object.a", "new a", " a", "this.ab", "a.", "x.function", "a b.ab"];
    for i in 0..n {
        let long = i % 10 == 0;
        let nlines = 1 + r.below(3); let mut lines: Vec<String> = vec![]; let mut toks: Vec<Tok> = vec![]; let mut wordat: Vec<(u32, u32, String)> = vec![];
        for li in 0..nlines {
            let k = r.below(if long { 300 } else { 14 }); let mut s = String::new(); let mut u = 0u32;
            for _ in 0..k {
                let w = words[r.below(words.len() as u64) as usize];
                if r.below(10) < if long { 5 } else { 8 } { toks.push(Tok { dl: li as u32, dc: u, sl: 0, sc: 0, src: 0, name: if r.below(10) < 8 { r.below(4) as u32 } else { !0 }, range: false }); wordat.push((li as u32, u, w.to_string())); }
                if r.below(12) == 0 { // a token inside the word, on a scalar boundary
                    let k = r.below(w.chars().count() as u64 + 1) as usize; let pre: u32 = w.chars().take(k).map(|c| c.len_utf16() as u32).sum();
                    toks.push(Tok { dl: li as u32, dc: u + pre, sl: 0, sc: 0, src: 0, name: r.below(4) as u32, range: false });
                    // C05 only: any column, also strictly inside a surrogate pair, and the same column twice
                    if any_col { let c = u + r.below(w.encode_utf16().count() as u64 + 1) as u32; toks.push(Tok { dl: li as u32, dc: c, sl: 0, sc: 0, src: 0, name: r.below(4) as u32, range: false }); if r.below(2) == 0 { toks.push(Tok { dl: li as u32, dc: c, sl: 1, sc: 0, src: 0, name: !0, range: false }); } } }
                s.push_str(w); u += w.encode_utf16().count() as u32;
                if r.below(3) > 0 { s.push(' '); u += 1; }
            }
            for _ in 0..r.below(3) { toks.push(Tok { dl: li as u32, dc: u + r.below(3) as u32, sl: 0, sc: 0, src: 0, name: r.below(4) as u32, range: false }); } // at and past the end
            lines.push(s);
        }
        // a map may be longer than the text it is asked about (a stale map): tokens on lines the text does not have read as empty lines
        if r.below(5) == 0 { for _ in 0..(1 + r.below(2)) { toks.push(Tok { dl: nlines as u32 + r.below(2) as u32, dc: r.below(6) as u32, sl: 0, sc: 0, src: 0, name: r.below(4) as u32, range: false }); } }
        let text = lines.join("\n"); let sv = sourcemap::SourceView::new(text.clone().into());
        toks.sort_by_key(|t| (t.dl, t.dc));
        if toks.is_empty() { continue; }
        // the tokens come from two original files (a helper inlined into a function), some from none: the walk over the minified text does not care
        if i % 3 == 0 { for t in toks.iter_mut() { match r.below(6) { 0 | 1 => { t.src = 1; } 2 => { t.src = !0; t.name = !0; } _ => {} } } }
        // some tokens are range mappings: a position inside the range is answered from the token's own column in the minified text, like any other
        // (chosen without the generator's random state, so that the rest of the stream is what it was)
        if !any_col && i % 4 == 1 { for t in toks.iter_mut() { if t.src != !0 && (t.dc as u64 + i) % 3 == 0 { t.range = true; } } }
        let sm = build_map(2, 4, &toks); let sorted: Vec<Tok> = sm.tokens().map(|t| raw_of(&t)).collect();
        for q in 0..6 {
            let ti = r.below(sorted.len() as u64) as usize;
            let here = wordat.iter().find(|w| w.0 == sorted[ti].dl && w.1 == sorted[ti].dc).map(|w| w.2.clone());
            let name = match here { Some(w) if r.below(10) < 8 => w, _ => cands[r.below(cands.len() as u64) as usize].to_string() };
            let out = match catch_unwind(AssertUnwindSafe(|| sv.get_original_function_name(sm.get_token(ti).unwrap(), &name).map(|s| s.to_string()))) {
                Ok(Some(s)) => s.trim_start_matches('n').to_string(), Ok(None) => "none".into(), Err(_) => "panic".into() };
            // the same question through the other public entry points (position based): SourceMap, DecodedMap, an index with one section at
            // (0,0) holding the map as a regular and as a Hermes section. Only when the token is the first one at its position (lookup finds it).
            let mut out = out;
            let first_at_pos = ti == 0 || (sorted[ti - 1].dl, sorted[ti - 1].dc) != (sorted[ti].dl, sorted[ti].dc);
            if !any_col && first_at_pos && out != "panic" {
                let (l, c) = (sorted[ti].dl, sorted[ti].dc);
                let norm = |x: Option<&str>| -> String { x.map(|s| s.trim_start_matches('n').to_string()).unwrap_or("none".into()) };
                let apis = catch_unwind(AssertUnwindSafe(|| {
                    let a = norm(sm.get_original_function_name(l, c, &name, &sv));
                    let dm = sourcemap::DecodedMap::Regular(sm.clone()); let b = norm(dm.get_original_function_name(l, c, Some(&name), Some(&sv)));
                    let ix = sourcemap::SourceMapIndex::new(None, vec![sourcemap::SourceMapSection::new((0, 0), None, Some(dm))]); let cc = norm(ix.get_original_function_name(l, c, &name, &sv));
                    let mut doc: serde_json::Value = { let mut o = vec![]; sm.to_writer(&mut o).unwrap(); serde_json::from_slice(&o).unwrap() };
                    doc.as_object_mut().unwrap().insert("x_facebook_sources".into(), serde_json::json!([[{"names": ["scopeA", "scopeB"], "mappings": "AAA,CCC"}]]));
                    let hm = sourcemap::decode_slice(&serde_json::to_vec(&doc).unwrap()).unwrap();
                    // the writer drops repeated tokens: only compare when the Hermes copy has the same tokens
                    let same = match &hm { sourcemap::DecodedMap::Hermes(h) => h.get_token_count() == sm.get_token_count(), _ => false };
                    let ixh = sourcemap::SourceMapIndex::new(None, vec![sourcemap::SourceMapSection::new((0, 0), None, Some(hm))]);
                    let d = if same { norm(ixh.get_original_function_name(l, c, &name, &sv)) } else { a.clone() };
                    let mut v = vec![a.clone(), b, cc, d];
                    // positions that are not a token's own: to the right of it, on the next line, on a later line -- whenever the closest preceding
                    // token (C04) is still this one, every position-based entry point answers what this token answers
                    // (only when no other token shares this token's position: among equal positions a query to the right finds the last one)
                    let alone = ti + 1 >= sorted.len() || (sorted[ti + 1].dl, sorted[ti + 1].dc) != (l, c);
                    for (l2, c2) in [(l, c.saturating_add(1)), (l.saturating_add(1), 0), (l.saturating_add(1), c), (l.saturating_add(7), 2)] {
                        if alone && sm.lookup_token(l2, c2).map(|t| t.get_raw_token()) == Some(sm.get_token(ti).unwrap().get_raw_token()) && sm.lookup_token(l2, c2).map(|t| t.get_dst()) == Some((l, c)) {
                            v.push(norm(sm.get_original_function_name(l2, c2, &name, &sv)));
                            v.push(norm(sourcemap::DecodedMap::Regular(sm.clone()).get_original_function_name(l2, c2, Some(&name), Some(&sv)))); } }
                    v })).unwrap_or(vec!["panic".into()]);
                if apis.iter().any(|x| x != &out) { out = format!("api-mismatch:{}:{}", out, apis.join("/")); }
            }
            outln!("r{}_{}\t{}\t{}\t{}\t{}\t{}\t{}", i, q, if any_col { "fname_any" } else { "fname" }, hex(text.as_bytes()), toks_str(&sorted), ti, hex(name.as_bytes()), out);
        }
    }
}

// ---- C02/C06: documents rendered by an independent writer, optionally hit by one fault ----
fn own_vlq(mut n: i64, out: &mut String) {
    const A: &[u8] = b"ABCDEFGHIJKLMNOPQRSTUVWXYZabcdefghijklmnopqrstuvwxyz0123456789+/";
    let mut v: u64 = if n < 0 { n = -n; ((n as u64) << 1) | 1 } else { (n as u64) << 1 };
    loop { let mut d = (v & 31) as usize; v >>= 5; if v != 0 { d |= 32; } out.push(A[d] as char); if v == 0 { break; } }
}
fn run_decode(r: &mut Rng, n: u64, with_faults: bool) {
    let spool = ["a.js", "b.js", "", "/abs/c.js", "http://x/d.js", "q/\u{e9}.js", "http:h.js", "https:/d.js", "https:", "http", "src/\u{e9}.js", "\u{65e5}\u{672c}\u{8a9e}.js", "//x/y.js", "HTTP://x/d.js", "root/a.js", "root/root/b.js", "webpack:///./src/app.js", "rootx.js", "http://h/r/s.js"];
    for i in 0..n {
        // explicit first cases of the faulted stream: every foreign character of the list at every offset of a valid segment
        const FOREIGN: [char; 21] = ['!', ' ', '=', '-', '_', '\u{e9}', '\u{7f}', '\u{0}', '"', '\\', '\u{141}', '\u{143}', '\u{4e2b}', '\u{1f441}', '\u{ff21}', '\u{80}', '\u{c1}', '\u{f0}', '\u{eb}', '\u{f5}', '\u{ef}'];
        let explicit = with_faults && (i as usize) < FOREIGN.len() * 5;
        let nsrc = if explicit { 1 } else { r.below(4) as usize }; let nn = if explicit { 0 } else { r.below(4) as usize };
        // sources with nulls, names with numbers
        let sources: Vec<Option<&str>> = (0..nsrc).map(|_| if r.below(6) == 0 { None } else { Some(spool[r.below(spool.len() as u64) as usize]) }).collect();
        // a name that is a JSON number reads as its decimal text: small integers, the ends of i64 / u64, simple fractions
        let names: Vec<Result<String, String>> = (0..nn).map(|k| if r.below(5) == 0 { Err(if r.below(2) == 0 { r.below(1000).to_string() } else { ["1.5", "-0.25", "9223372036854775807", "9223372036854775808", "18446744073709551615", "-9223372036854775808", "0.5"][r.below(7) as usize].to_string() }) } else { Ok(if k % 3 == 2 { format!("n{}\u{1f44c}", k) } else { format!("n{}", k) }) }).collect();
        // abstract document: lines of items; absolute fields
        let nlines = 1 + r.below(4); let mut mappings = String::new();
        let (mut ps, mut pl, mut pc, mut pn) = (0i64, 0i64, 0i64, 0i64);
        let fault = if with_faults && r.below(10) < 6 { 1 + r.below(14) } else { 0 };
        // "extreme numbers": some documents use huge deltas (62-bit values, +-2^32, +-2^31) in the position fields, several times with the same sign
        let huge = r.below(12) == 0; let hsign: i64 = if r.below(2) == 0 { 1 } else { -1 };
        let hv = |r: &mut Rng| -> i64 { [(1i64 << 62) - 1, 1i64 << 61, 1i64 << 32, (1i64 << 32) - 1, 1i64 << 31, 3][r.below(6) as usize] };
        let mut fault_done = false; let mut nseg = 0;
        for li in 0..nlines {
            if li > 0 { mappings.push(';'); }
            let mut pcol = 0i64; let k = r.below(5);
            for si in 0..k {
                if si > 0 { mappings.push(','); }
                if r.below(8) == 0 { continue; }                       // empty segment
                // columns mostly increase; sometimes they go back (negative delta, unsorted segments, duplicate positions)
                let col = if r.below(7) == 0 { pcol - r.below(pcol as u64 + 1) as i64 } else { pcol + if r.below(15) == 0 { 70000 } else { r.below(6) as i64 } }; let dcol = col - pcol; pcol = col;
                let arity = if nsrc == 0 { 1 } else if nn == 0 { [1, 4][r.below(2) as usize] } else { [1, 4, 4, 5][r.below(4) as usize] };
                let dcol = if huge && r.below(2) == 0 { let sg = if r.below(4) == 0 { -hsign } else { hsign }; sg * hv(r) } else { dcol };
                let mut seg = String::new(); own_vlq(dcol, &mut seg); nseg += 1;
                let hit = fault != 0 && !fault_done && r.below(3) == 0;
                if arity >= 4 {
                    let s = r.below(nsrc as u64) as i64; let l = if r.below(15) == 0 { 4294967295 } else { r.below(5) as i64 }; let c = r.below(9) as i64;
                    let (mut ds, mut dl, mut dc) = (s - ps, l - pl, c - pc);
                    if huge { if r.below(2) == 0 { dl = hsign * hv(r); } if r.below(2) == 0 { dc = hsign * hv(r); } }
                    if hit && fault == 1 { ds = nsrc as i64 - ps; fault_done = true; }                  // index one past the end
                    if hit && fault == 2 { ds = -1 - ps; fault_done = true; }                           // negative index
                    if hit && fault == 3 { ds -= 4294967296; fault_done = true; }                       // wraps to a valid index in u32
                    ps += ds; pl = l; pc = c;
                    own_vlq(ds, &mut seg); own_vlq(dl, &mut seg); own_vlq(dc, &mut seg);
                    let drop_last = hit && fault == 13;    // 4 -> 3 fields (rejected) or 5 -> 4 (accepted)
                    if drop_last { fault_done = true; if arity == 4 { seg.truncate(seg.len() - { let mut t = String::new(); own_vlq(dc, &mut t); t.len() }); } }
                    if arity == 5 && !drop_last { let nm = r.below(nn as u64) as i64; let mut dn = nm - pn;
                        if hit && fault == 4 { dn = nn as i64 - pn; fault_done = true; }
                        if hit && fault == 5 { dn -= 4294967296; fault_done = true; }
                        pn += dn; own_vlq(dn, &mut seg); }
                    if hit && fault == 6 { own_vlq(0, &mut seg); if arity == 5 { own_vlq(0, &mut seg); } fault_done = true; }   // 5 -> 7 or 4 -> 5 fields (the latter may be valid)
                }
                if hit && fault == 7 { own_vlq(1, &mut seg); fault_done = true; }                       // 1 -> 2, 4 -> 5 (maybe valid), 5 -> 6
                if hit && fault == 8 { let at = r.below(seg.len() as u64 + 1) as usize; seg.insert(at, ['!', ' ', '=', '-', '_', '\u{e9}', '\u{7f}', '\u{0}', '"', '\\', '\u{141}', '\u{143}', '\u{4e2b}', '\u{1f441}', '\u{ff21}', '\u{80}', '\u{c1}', '\u{f0}', '\u{eb}', '\u{f5}', '\u{ef}'][r.below(21) as usize]); fault_done = true; }   // a foreign byte anywhere in the segment
                if hit && fault == 9 { seg.push('g'); fault_done = true; }                              // continuation digit at the end
                if hit && fault == 10 { seg.push_str(["gggggggggggggB", "gggggggggggggA", "2ggggggggggggA", "ggggggggggggggggA", "hggggggggggggggB"][r.below(5) as usize]); fault_done = true; }   // 14+ digits, also with zero payloads only
                if hit && fault == 14 { seg = ["g", "i", "hh", "4z", "ggggggggggggg"][r.below(5) as usize].to_string(); fault_done = true; }   // the whole segment is one value that never ends
                if hit && fault == 11 { seg.push_str("////////////f"); fault_done = true; }            // 13 digits whose top bits are lost
                mappings.push_str(&seg);
            }
        }
        let _ = nseg;
        let (mappings, fault, fault_done) = if explicit { let ch = FOREIGN[i as usize / 5];
            // shapes in which a reader that mistook the character's bytes for digits would still see 1, 4 or 5 fields
            (match i % 5 { 0 => format!("AAAA,EA{}A", ch), 1 => format!("AAAA,E{}AA", ch), 2 => format!("AAAA,{}A", ch), 3 => format!("AAAA,E{}", ch), _ => format!("{}", ch) }, 8, true) } else { (mappings, fault, fault_done) };
        let mut doc = serde_json::Map::new();
        let mut keys: Vec<(&str, serde_json::Value)> = vec![];
        if r.below(8) != 0 { keys.push(("version", serde_json::json!(3))); }
        let file = match r.below(4) { 0 => None, 1 => Some(serde_json::json!(12)), _ => Some(serde_json::json!("out.js")) };
        if let Some(f) = &file { keys.push(("file", f.clone())); }
        let omit_sources = nsrc == 0 && r.below(2) == 0; if !omit_sources { keys.push(("sources", serde_json::json!(sources))); }
        let root = match r.below(8) { 0 => Some(""), 1 => Some("root"), 2 => Some("webpack:///"), 3 => Some("/"), 4 => Some("//"), 5 => Some("http://h/r/"), _ => None };
        if let Some(x) = root { keys.push(("sourceRoot", serde_json::json!(x))); }
        let contents: Option<Vec<Option<String>>> = if r.below(2) == 0 { Some((0..(nsrc + r.below(2) as usize)).map(|k| if r.below(3) == 0 { None } else { Some(format!("c{}", k)) }).collect()) } else { None };
        if let Some(c) = &contents { keys.push(("sourcesContent", serde_json::json!(c))); }
        let omit_names = nn == 0 && r.below(2) == 0;
        if !omit_names { keys.push(("names", serde_json::Value::Array(names.iter().map(|x| match x { Ok(s) => serde_json::json!(s), Err(v) => serde_json::from_str::<serde_json::Value>(v).unwrap() }).collect()))); }
        let rm: Option<String> = match r.below(6) { 0 => Some("".into()), 1 => Some("B;;C".into()), 2 => Some("!".into()), _ => None };
        if let Some(x) = &rm { keys.push(("rangeMappings", serde_json::json!(x))); }
        let omit_mappings = fault == 12; if !omit_mappings { keys.push(("mappings", serde_json::json!(mappings))); }
        let ignore: Option<Vec<u32>> = if r.below(4) == 0 { Some((0..r.below(3)).map(|_| r.below(5) as u32).collect()) } else { None };
        if let Some(x) = &ignore { keys.push(("ignoreList", serde_json::json!(x))); }
        let dbg = |k: u64| format!("00000000-0000-0000-0000-0000000000{:02x}", k);
        // 0 is the nil id: an id like any other, under either key
        let d1 = if r.below(4) == 0 { Some(r.below(4)) } else { None }; let d2 = if r.below(4) == 0 { Some([0u64, 4, 5, 6][r.below(4) as usize]) } else { None };
        if let Some(k) = d1 { keys.push(("debug_id", serde_json::json!(dbg(k)))); }
        if let Some(k) = d2 { keys.push(("debugId", serde_json::json!(dbg(k)))); }
        if r.below(5) == 0 { keys.push(("x_unknown", serde_json::json!({"a": [1, 2]}))); }
        // random key order
        for k in (1..keys.len()).rev() { let j = r.below(k as u64 + 1) as usize; keys.swap(k, j); }
        for (k, v) in keys { doc.insert(k.to_string(), v); }
        let text = serde_json::to_vec(&serde_json::Value::Object(doc)).unwrap();
        let mut idem = "-".to_string();
        let out = match catch_unwind(AssertUnwindSafe(|| sourcemap::decode_slice(&text))) {
            Ok(Ok(sourcemap::DecodedMap::Regular(sm))) => {
                // C01, last sentence: serialise the decoded map, decode, serialise again: same bytes (only while lines stay small)
                if sm.tokens().map(|t| t.get_dst_line()).max().unwrap_or(0) < 100_000 {
                    idem = match catch_unwind(AssertUnwindSafe(|| { let mut o2 = vec![]; sm.to_writer(&mut o2).unwrap(); let sm3 = sourcemap::SourceMap::from_slice(&o2).unwrap(); let mut o3 = vec![]; sm3.to_writer(&mut o3).unwrap();
                        if o2 == o3 { "1".to_string() } else { format!("0:{}:{}", hex(&o2), hex(&o3)) } })) { Ok(x) => x, Err(_) => "panic".into() };
                }
                match accessors_agree(&sm) { Some(why) => format!("entry-points-differ {}", why), None => format!("ok {}#{}", map_obs(&sm), sm.get_debug_id().map(|d| d.to_string()).unwrap_or("-".into())) } }
            Ok(Ok(_)) => "ok other-kind".into(), Ok(Err(e)) => format!("err {}", err_name(&e)), Err(_) => "panic".into() };
        // the reader entry points on the same document, read in small or large chunks, with and without a junk header that arrives in
        // its own reads (or is longer than any buffer): same outcome as the slice entry point
        let out = { let short = |x: Result<sourcemap::DecodedMap, sourcemap::Error>| match x { Ok(sourcemap::DecodedMap::Regular(m)) => format!("ok {}#{}", map_obs(&m), m.get_debug_id().map(|d| d.to_string()).unwrap_or("-".into())), Ok(_) => "ok other-kind".into(), Err(e) => format!("err {}", err_name(&e)) };
            let header: Vec<u8> = match r.below(5) { 0 => b")]}'\n".to_vec(), 1 => { let mut h = b")]}' ".to_vec(); h.extend(std::iter::repeat(b'x').take(9000)); h.push(b'\n'); h } 2 => b"]garbage \xff\xfe\r\n".to_vec(), 3 if r.below(2) == 0 => b")]}' {generated} [x]\n".to_vec(), _ => vec![] };
            let mut with_header = header.clone(); with_header.extend(&text);
            let sizes = match r.below(4) { 0 => vec![1], 1 => vec![header.len().max(1), 7], 2 => vec![5, 3, 8192], _ => vec![1 << 20] };
            let via_reader = match catch_unwind(AssertUnwindSafe(|| sourcemap::decode(Chunked { data: &with_header, pos: 0, sizes: sizes.clone(), k: 0 }))) { Ok(x) => short(x), Err(_) => "panic".into() };
            let via_slice = if header.is_empty() { out.clone() } else { match catch_unwind(AssertUnwindSafe(|| sourcemap::decode_slice(&with_header))) { Ok(x) => short(x), Err(_) => "panic".into() } };
            let via_sm = match catch_unwind(AssertUnwindSafe(|| sourcemap::SourceMap::from_reader(Chunked { data: &with_header, pos: 0, sizes: sizes.clone(), k: 0 }))) { Ok(Ok(m)) => short(Ok(sourcemap::DecodedMap::Regular(m))), Ok(Err(e)) => format!("err {}", err_name(&e)), Err(_) => "panic".into() };
            let via_sm_slice = match catch_unwind(AssertUnwindSafe(|| sourcemap::SourceMap::from_slice(&with_header))) { Ok(Ok(m)) => short(Ok(sourcemap::DecodedMap::Regular(m))), Ok(Err(e)) => format!("err {}", err_name(&e)), Err(_) => "panic".into() };
            // the same document as the embedded map of an index section (with or without a `url` beside it, also one level deeper): the
            // index decodes exactly when the document does, and fails with the document's error
            let wrap_differs = if r.below(3) == 0 { let docv: serde_json::Value = serde_json::from_slice(&text).unwrap();
                    let sec = |inner: serde_json::Value, with_url: bool| { let mut s = serde_json::json!({"offset": {"line": 0, "column": 0}, "map": inner}); if with_url { s.as_object_mut().unwrap().insert("url".into(), serde_json::json!("s.map")); } serde_json::json!({"version": 3, "sections": [s]}) };
                    let with_url = r.below(2) == 0; let good = serde_json::json!({"version": 3, "sources": ["g.js"], "names": [], "mappings": "AAAA"});
                    let w = match r.below(5) { 0 => sec(sec(docv, with_url), r.below(2) == 0),
                        // beside a healthy section at the very same offset (before or after it): every embedded map is read, shadowed or not
                        1 | 2 => { let mut both = vec![serde_json::json!({"offset": {"line": 0, "column": 0}, "map": docv}), serde_json::json!({"offset": {"line": 0, "column": 0}, "map": good})]; if r.below(2) == 0 { both.reverse(); } serde_json::json!({"version": 3, "sections": both}) }
                        _ => sec(docv, with_url) };
                    let wout = match catch_unwind(AssertUnwindSafe(|| sourcemap::decode_slice(&serde_json::to_vec(&w).unwrap()))) {
                        Ok(Ok(sourcemap::DecodedMap::Index(ix))) => { fn all_there(ix: &sourcemap::SourceMapIndex) -> bool { ix.sections().all(|s| match s.get_sourcemap() { Some(sourcemap::DecodedMap::Index(i)) => all_there(i), Some(_) => true, None => false }) }
                            if all_there(&ix) { "ok".to_string() } else { "ok-but-a-section-lost-its-map".to_string() } }
                        Ok(Ok(_)) => "ok-not-an-index".into(), Ok(Err(e)) => format!("err {}", err_name(&e)), Err(_) => "panic".into() };
                    let want = if out.starts_with("ok") { "ok".to_string() } else { out.clone() };
                    if wout != want { Some(format!("as an index section (url beside map: {}) [{}]", with_url, wout)) } else { None } } else { None };
            if let Some(w) = wrap_differs { format!("entry-points-differ slice=[{}] {}", out, w) } else
            if via_sm_slice != via_sm { format!("entry-points-differ SourceMap::from_slice=[{}] SourceMap::from_reader=[{}] (header {} bytes)", via_sm_slice, via_sm, header.len()) } else
            if via_reader != out || via_slice != out || (via_sm != out && out != "ok other-kind") { format!("entry-points-differ slice=[{}] reader(header {} bytes, reads {:?})=[{}] slice+header=[{}] SourceMap::from_reader=[{}]", out, header.len(), sizes, via_reader, via_slice, via_sm) } else { out } };
        let lst = |v: Vec<String>| format!("L{}", v.join(","));
        outln!("r{}\tdecode\t{}\t{}\t{}\t{}\t{}\t{}\t{}\t{}\t{}\t{}\t{}\t{}\t{}",
            i, match &file { None => "-".into(), Some(serde_json::Value::String(s)) => format!("={}", hex(s.as_bytes())), Some(_) => "n".to_string() },
            if omit_sources { "-".into() } else { lst(sources.iter().map(|s| s.map(|x| format!("={}", hex(x.as_bytes()))).unwrap_or("null".into())).collect()) },
            root.map(|x| format!("={}", hex(x.as_bytes()))).unwrap_or("-".into()),
            contents.as_ref().map(|c| lst(c.iter().map(|s| s.as_ref().map(|x| format!("={}", hex(x.as_bytes()))).unwrap_or("null".into())).collect())).unwrap_or("-".into()),
            if omit_names { "-".into() } else { lst(names.iter().map(|x| match x { Ok(s) => format!("={}", hex(s.as_bytes())), Err(v) => format!("#{}", v) }).collect()) },
            if omit_mappings { "-".into() } else { format!("={}", hex(mappings.as_bytes())) },
            rm.as_ref().map(|x| format!("={}", hex(x.as_bytes()))).unwrap_or("-".into()),
            ignore.as_ref().map(|x| lst(x.iter().map(|v| v.to_string()).collect())).unwrap_or("-".into()),
            d1.map(|k| k.to_string()).unwrap_or("-".into()), d2.map(|k| k.to_string()).unwrap_or("-".into()),
            if fault_done || fault == 12 { fault } else { 0 }, idem, out);
    }
}

// ---- C02: kind dispatch on the keys `sections` / `x_facebook_sources` ----
fn run_dispatch(r: &mut Rng, n: u64) {
    let inner = r#"{"version":3,"sources":["a"],"names":[],"mappings":"AAAA"}"#;
    for i in 0..n {
        let sections = ["-", "null", "[]", "[S]", "[S,S2]", "[N]", "[U]", "[S,U]"][r.below(8) as usize];     // U: a section that only refers to a map by url
        let fb = ["-", "-", "null", "[]", "[null]", "[[{\"names\":[\"f\"],\"mappings\":\"AAA\"}]]"][r.below(6) as usize];
        let with_mappings = r.below(4) != 0;
        let mut parts = vec!["\"version\":3".to_string()];
        if with_mappings { parts.push("\"sources\":[\"a\"]".into()); parts.push("\"names\":[]".into()); parts.push("\"mappings\":\"AAAA\"".into()); }
        if sections != "-" { parts.push(format!("\"sections\":{}", sections.replace("S2", &format!("{{\"offset\":{{\"line\":5,\"column\":0}},\"map\":{}}}", inner)).replace("S", &format!("{{\"offset\":{{\"line\":0,\"column\":0}},\"map\":{}}}", inner)).replace("N", "{\"offset\":{\"line\":0,\"column\":0},\"map\":{\"version\":3,\"sections\":[]}}").replace("U", "{\"offset\":{\"line\":9,\"column\":0},\"url\":\"u.map\"}"))); }
        if fb != "-" { parts.push(format!("\"x_facebook_sources\":{}", fb)); }
        // key order is irrelevant
        for k in (1..parts.len()).rev() { let j = r.below(k as u64 + 1) as usize; parts.swap(k, j); }
        let doc = format!("{{{}}}", parts.join(","));
        let kind = |d: &sourcemap::DecodedMap| -> String { match d { sourcemap::DecodedMap::Regular(_) => "regular".into(), sourcemap::DecodedMap::Hermes(_) => "hermes".into(),
            sourcemap::DecodedMap::Index(ix) => format!("index{}{}", ix.get_section_count(), ix.sections().map(|s| match s.get_sourcemap() { Some(sourcemap::DecodedMap::Index(_)) => ":index", Some(sourcemap::DecodedMap::Regular(_)) => ":regular", Some(sourcemap::DecodedMap::Hermes(_)) => ":hermes", None => ":none" }).collect::<String>()) } };
        let out = match catch_unwind(AssertUnwindSafe(|| sourcemap::decode_slice(doc.as_bytes()))) { Ok(Ok(d)) => kind(&d), Ok(Err(e)) => format!("err {}", err_name(&e)), Err(_) => "panic".into() };
        outln!("d{}\tdispatch\t{}\t{}\t{}\t{}\t{}", i, sections, fb.len().min(9), with_mappings as u8, hex(doc.as_bytes()), out);
    }
}
// ---- C14: Hermes / Metro function maps ----
fn run_hermes(r: &mut Rng, n: u64) {
    for i in 0..n {
        let nsrc = 1 + r.below(3) as usize;
        // tokens on generated line 0 (bytecode offsets), original positions near the scope entries
        let mut toks: Vec<Tok> = vec![];
        for _ in 0..(1 + r.below(8)) {
            let sl = match r.below(20) { 0 => u32::MAX, 1 => u32::MAX - 1, _ => r.below(5) as u32 };
            toks.push(Tok { dl: 0, dc: (r.below(12) * 3) as u32, sl, sc: if r.below(9) == 0 { 65530 + r.below(9000) as u32 } else { r.below(8) as u32 }, src: if r.below(8) == 0 { !0 } else { r.below(nsrc as u64) as u32 }, name: !0, range: r.below(5) == 0 });
        }
        toks.sort_by_key(|t| (t.dl, t.dc));
        // sometimes the last source is an unreferenced second copy of the first one's NAME, with a function map of its own: the copy that the
        // tokens use decides what they resolve to, before and after rewrite (two referenced copies with different function maps would be ambiguous)
        let dup = nsrc >= 2 && r.below(4) == 0;
        if dup { for t in toks.iter_mut() { if t.src == (nsrc - 1) as u32 { t.src = 0; } } }
        let sm = build_map(nsrc as u32, 0, &toks);
        let mut doc: serde_json::Value = { let mut out = vec![]; sm.to_writer(&mut out).unwrap(); serde_json::from_slice(&out).unwrap() };
        if dup { let a = doc["sources"][0].clone(); let last = nsrc - 1; doc["sources"][last] = a; }
        // function maps: abstract entries (line 1-based, column, name index), strictly increasing unless `messy`
        let nfb = match r.below(6) { 0 => nsrc + 1, 1 => nsrc.saturating_sub(1), _ => nsrc };
        let mut fb_json = vec![]; let mut fb_descr = vec![]; let mut prev_entries: Option<Vec<(u32, u32, u32)>> = None;
        for fbi in 0..nfb {
            match r.below(8) {
                0 => { fb_json.push(serde_json::Value::Null); fb_descr.push("null".to_string()); }
                1 => { fb_json.push(serde_json::json!([])); fb_descr.push("E".to_string()); }
                k => {
                    // names differ from source to source; an adjacent source sometimes has the very same mappings (same entries, same string)
                    let reuse = prev_entries.is_some() && r.below(4) == 0;
                    let nnames = if reuse { 5 } else if r.below(9) == 0 { 0 } else { 1 + r.below(4) as usize }; let names: Vec<String> = (0..nnames).map(|x| format!("f{}_{}", fbi, x)).collect();
                    let messy = !reuse && r.below(10) == 0;
                    let mut entries: Vec<(u32, u32, u32)> = vec![]; let (mut l, mut c) = (1u32, 0u32);
                    if reuse { entries = prev_entries.clone().unwrap(); } else {
                    for e in 0..r.below(7) {
                        if e > 0 || r.below(2) == 0 { if r.below(3) == 0 { l += 1 + r.below(2) as u32; c = r.below(4) as u32; } else { c += 1 + r.below(4) as u32; if r.below(10) == 0 { c += 65530 + r.below(4000) as u32; } } }   // a minified one-line module: columns beyond 16 bits
                        if messy && r.below(2) == 0 { c = c.saturating_sub(2); }
                        entries.push((l, c, if nnames == 0 { r.below(2) as u32 } else if r.below(8) == 0 { nnames as u32 + r.below(2) as u32 } else if r.below(14) == 0 { u32::MAX /* the running index dips to -1 */ } else { r.below(nnames as u64) as u32 }));
                    } }
                    if !messy { prev_entries = Some(entries.clone()); }
                    // own renderer: ';' between lines (line delta also written explicitly in field 3), ',' between segments
                    let mut s = String::new(); let (mut pl, mut pn) = (1i64, 0i64); let mut cur_line = 1u32; let mut pc = 0i64; let mut first = true;
                    let mut r2 = Rng(entries.iter().fold(7u64, |a, e| a.wrapping_mul(31).wrapping_add(e.0 as u64 * 1000 + e.1 as u64 * 10 + e.2 as u64)));   // rendering choices depend on the entries only
                    let r = &mut r2;
                    for &(el, ec, en) in &entries {
                        if el != cur_line && r.below(2) == 0 { s.push(';'); pc = 0; first = true; }     // a ';' resets the column but lines come from field 3
                        cur_line = el;
                        if !first { s.push(','); } first = false;
                        if r.below(12) == 0 { s.push(','); }                                           // an empty segment is skipped
                        own_vlq(ec as i64 - pc, &mut s); pc = ec as i64;
                        let en_i = if en == u32::MAX { -1 } else { en as i64 };      // an index of -1 is written as such; as a u32 it is 4294967295: out of range
                        let dn = en_i - pn; let dl = el as i64 - pl;
                        if dn != 0 || dl != 0 || r.below(2) == 0 { own_vlq(dn, &mut s); pn = en_i; if dl != 0 || r.below(2) == 0 { own_vlq(dl, &mut s); pl = el as i64; } }
                    }
                    // an unparsable string: a foreign byte, or a value cut off after some complete values of the same segment
                    let garbage = k == 2 && r.below(2) == 0; if garbage { s.push_str([",!", ",AAg", ",CDg", "g", ",AAA!", ";AAAAAAg", ",U!A", ",UC*", ";???", ",A\u{e9}", ",AAAAAAA"][r.below(10) as usize]); }
                    let mut arr = vec![serde_json::json!({"names": names, "mappings": s})];
                    if r.below(5) == 0 || (s.is_empty() && r.below(2) == 0) { arr.push(serde_json::json!({"names": ["other"], "mappings": "AAA"})); }   // only the first element of the metadata tuple is the function map, even an empty one
                    fb_json.push(serde_json::Value::Array(arr));
                    fb_descr.push(format!("{}@{}@{}@{}", names.iter().map(|x| format!("={}", hex(x.as_bytes()))).collect::<Vec<_>>().join(","), hex(s.as_bytes()),
                        entries.iter().map(|e| format!("{}:{}:{}", e.0, e.1, e.2)).collect::<Vec<_>>().join(";"), if garbage { "g" } else if messy { "m" } else { "s" }));
                }
            }
        }
        doc.as_object_mut().unwrap().insert("x_facebook_sources".into(), serde_json::Value::Array(fb_json));
        let text = serde_json::to_vec(&doc).unwrap();
        let offsets: Vec<u32> = (0..6).map(|_| r.below(40) as u32).collect();
        let mut descr = map_in(&sm);
        let out = match catch_unwind(AssertUnwindSafe(|| sourcemap::decode_slice(&text))) {
            Ok(Ok(sourcemap::DecodedMap::Hermes(h))) => {
                descr = map_in(&h);        // the writer drops repeated tokens: describe the map the queries run on
                let per_tok: Vec<String> = (0..h.get_token_count()).map(|k| match catch_unwind(AssertUnwindSafe(|| h.get_scope_for_token(h.get_token(k as usize).unwrap()).map(|s| s.to_string()))) { Ok(x) => opt_hex(x.as_deref()), Err(_) => "panic".into() }).collect();
                let per_off: Vec<String> = offsets.iter().map(|&o| match catch_unwind(AssertUnwindSafe(|| h.get_original_function_name(o).map(|s| s.to_string()))) { Ok(x) => opt_hex(x.as_deref()), Err(_) => "panic".into() }).collect();
                // C09: after rewriting, every token still resolves to the same enclosing function
                let scopes_of = |hh: &sourcemap::SourceMapHermes| -> Vec<String> { (0..hh.get_token_count()).map(|k| match catch_unwind(AssertUnwindSafe(|| hh.get_scope_for_token(hh.get_token(k as usize).unwrap()).map(|s| s.to_string()))) { Ok(x) => opt_hex(x.as_deref()), Err(_) => "panic".into() }).collect() };
                let ropts = if i % 2 == 0 { sourcemap::RewriteOptions::default() } else { sourcemap::RewriteOptions { with_names: false, with_source_contents: i % 4 == 1, ..Default::default() } };   // names of tokens are one thing, function maps another
                let rewritten = catch_unwind(AssertUnwindSafe(|| h.clone().rewrite(&ropts)));
                let after: Vec<String> = match &rewritten { Ok(Ok(h2)) => scopes_of(h2), Ok(Err(_)) => vec!["err".into()], Err(_) => vec!["panic".into()] };
                // ... and the rewritten map written and read again answers like the rewritten map (the raw payload travels with the renumbered sources)
                let reser2: Vec<String> = match &rewritten { Ok(Ok(h2)) if h2.tokens().all(|t| t.get_dst_line() < 100_000) => match catch_unwind(AssertUnwindSafe(|| { let mut o = vec![]; h2.to_writer(&mut o).unwrap(); sourcemap::decode_slice(&o) })) {
                        Ok(Ok(sourcemap::DecodedMap::Hermes(h4))) => { let v = scopes_of(&h4); if v.len() == after.len() { v } else { after.clone() } }     // the writer drops repeated tokens: then nothing to compare
                        Ok(Ok(_)) => vec!["other-kind".into()], Ok(Err(_)) => vec!["err".into()], Err(_) => vec!["panic".into()] }, _ => after.clone() };
                // C14, last sentence: the answers are unchanged by serialising and decoding the map again
                let reser: Vec<String> = if h.tokens().all(|t| t.get_dst_line() < 100_000) { match catch_unwind(AssertUnwindSafe(|| { let mut o = vec![]; h.to_writer(&mut o).unwrap(); sourcemap::decode_slice(&o) })) {
                    Ok(Ok(sourcemap::DecodedMap::Hermes(h3))) => (0..h3.get_token_count()).map(|k| match catch_unwind(AssertUnwindSafe(|| h3.get_scope_for_token(h3.get_token(k as usize).unwrap()).map(|s| s.to_string()))) { Ok(x) => opt_hex(x.as_deref()), Err(_) => "panic".into() }).collect(),
                    Ok(Ok(_)) => vec!["other-kind".into()], Ok(Err(_)) => vec!["err".into()], Err(_) => vec!["panic".into()] } } else { per_tok.clone() };
                format!("ok {}~{}~{}~{}~{}", per_tok.join(","), per_off.join(","), after.join(","), reser.join(","), reser2.join(",")) }
            Ok(Ok(_)) => "ok other-kind".into(), Ok(Err(e)) => format!("err {}", err_name(&e)), Err(_) => "panic".into() };
        outln!("r{}\thermes\t{}\t{}\t{}\t{}", i, descr, fb_descr.join("#"), offsets.iter().map(|x| x.to_string()).collect::<Vec<_>>().join(","), out);
    }
}

// ---- C05: untrusted bytes never crash the library (crash oracle only; no model prediction for the JSON layer) ----
fn exercise(dm: &sourcemap::DecodedMap, r: &mut Rng) -> &'static str {
    // every read-only query, re-encoding, rewriting and flattening on whatever was decoded
    let redecode_failed = std::cell::Cell::new(false);
    let sv = sourcemap::SourceView::new("function a(){}\nvar \u{10000}b=function(){x()};\r\n(function(){throw 1})()".into());
    // the map-kind independent entry points of DecodedMap
    for _ in 0..4 { let l = [0, 1, 2, u32::MAX][r.below(4) as usize]; let c = [0, 9, 17, 70000, u32::MAX][r.below(5) as usize];
        if let Some(t) = dm.lookup_token(l, c) { let _ = (format!("{:?}", t), format!("{:#}", t), format!("{}", t), t.to_tuple()); }
        let _ = dm.get_original_function_name(l, c, Some("x"), Some(&sv)); let _ = dm.get_original_function_name(l, c, None, None); }
    let _ = format!("{:?}", dm).len();
    let poke = |sm: &sourcemap::SourceMap, r: &mut Rng| {
        for _ in 0..6 { let l = [0, 1, 2, 7, u32::MAX][r.below(5) as usize]; let c = [0, 1, 5, 70000, u32::MAX][r.below(5) as usize];
            if let Some(t) = sm.lookup_token(l, c) { let _ = (t.get_source(), t.get_name(), t.get_src_line(), t.get_src_col(), t.get_src(), t.to_string()); } }
        for t in sm.tokens() { let _ = (t.get_source(), t.get_name(), t.get_source_view().is_some()); }
        for i in [0u32, 1, 5, u32::MAX] { let _ = (sm.get_source(i), sm.get_name(i), sm.get_source_contents(i), sm.get_source_view(i).is_some()); }
        // the format spends one byte per generated line: serialise only maps whose greatest line is below 100000 (as the property says)
        if sm.tokens().map(|t| t.get_dst_line()).max().unwrap_or(0) < 100_000 { let mut out = vec![]; let _ = sm.to_writer(&mut out); if sourcemap::decode_slice(&out).is_err() { redecode_failed.set(true); } let _ = sm.to_data_url(); }
        for t in sm.tokens().take(20) { let _ = sv.get_original_function_name(t, "x"); let _ = sm.get_original_function_name(t.get_dst_line(), t.get_dst_col(), "b", &sv); }
        for opts in [sourcemap::RewriteOptions::default(), sourcemap::RewriteOptions { with_names: false, with_source_contents: false, strip_prefixes: &["~", "a"], ..Default::default() }] { let _ = sm.clone().rewrite(&opts); }
    };
    match dm {
        sourcemap::DecodedMap::Regular(sm) => { poke(sm, r); if redecode_failed.get() { "panic:reencoded-form-does-not-decode" } else { "ok-regular" } }
        sourcemap::DecodedMap::Index(idx) => {
            for _ in 0..6 { let _ = idx.lookup_token(r.below(4) as u32, [0, 3, u32::MAX][r.below(3) as usize]); }
            let small = idx.sections().all(|s| s.get_sourcemap().map(|m| match m { sourcemap::DecodedMap::Regular(sm) => sm.tokens().map(|t| t.get_dst_line()).max().unwrap_or(0) < 100_000, _ => true }).unwrap_or(true));
            if small { let mut out = vec![]; let _ = idx.to_writer(&mut out); if sourcemap::decode_slice(&out).is_err() { redecode_failed.set(true); } }
            if let Ok(f) = idx.flatten() { poke(&f, r); }
            for k in 0..idx.get_section_count() + 1 { let _ = idx.get_section(k).map(|s| (s.get_offset(), s.get_url().map(|u| u.len()), s.get_sourcemap().is_some())); }
            if redecode_failed.get() { "panic:reencoded-form-does-not-decode" } else { "ok-index" } }
        sourcemap::DecodedMap::Hermes(h) => {
            poke(h, r); for o in [0u32, 3, 40, u32::MAX] { let _ = h.get_original_function_name(o); }
            for k in 0..h.get_token_count() { let _ = h.get_scope_for_token(h.get_token(k as usize).unwrap()); }
            let _ = h.clone().rewrite(&sourcemap::RewriteOptions::default()); if h.tokens().map(|t| t.get_dst_line()).max().unwrap_or(0) < 100_000 { let mut out = vec![]; let _ = h.to_writer(&mut out); if sourcemap::decode_slice(&out).is_err() { redecode_failed.set(true); } }
            if redecode_failed.get() { "panic:reencoded-form-does-not-decode" } else { "ok-hermes" } }
    }
}
fn run_crash(r: &mut Rng, n: u64) {
    let seeds: Vec<Vec<u8>> = ["adjust_mappings/esbuild.bundle.js.map", "adjust_mappings/rollup.bundle.js.map", "react-native-hermes/output.map", "react-native-metro/output.js.map", "adjust_mappings/vite.bundle.js.map"].iter()
        .filter_map(|f| std::fs::read(format!("{}/tests/fixtures/{}", std::env::var("SM_REPO").unwrap_or("/repo".into()), f)).ok()).filter(|b| b.len() < 200_000).collect();
    let frag = ["\"mappings\"", "\"sources\"", "\"names\"", "\"sections\"", "\"offset\"", "\"line\"", "\"column\"", "\"map\"", "\"x_facebook_sources\"", "\"rangeMappings\"", "\"sourcesContent\"", "\"ignoreList\"", "\"debug_id\"",
        "data:application/json,", "data:application/json;charset=utf-8,", "data:application/json;base64,", "%7B", "%7D", "%0", "%", "%zz", "e30=", ":", ",", "{", "}", "[", "]", "null", "3", "-1", "4294967296", "1e400", "\"AAAA\"", "\"AAgggggggggggggB\"", "\"////////////f\"", "\"!\"", "\";;;,,\"", "\"\\ud800\"", "\"a\"", "[[{\"names\":[\"f\"],\"mappings\":\"AAA;g\"}]]", ")]}'\n", " "];
    for i in 0..n {
        // mostly-valid documents get half of the cases: only a map that decodes can be queried, rewritten, flattened and re-encoded
        let kind = [0u64, 1, 2, 3, 3, 4][r.below(6) as usize];
        let input: Vec<u8> = match kind {
            4 => { // a document written by the crate itself (regular, Hermes, nested index with RAM-bundle fields), then zero or one value-level edit
                let mut doc: serde_json::Value = match r.below(3) { 0 => { let mut o = vec![]; gen_map(r, false).to_writer(&mut o).unwrap(); serde_json::from_slice(&o).unwrap() }
                    1 => serde_json::from_slice(&gen_hermes_doc(r)).unwrap(),
                    _ => { let mut o = vec![]; gen_index(r, 2).to_writer(&mut o).unwrap(); serde_json::from_slice(&o).unwrap() } };
                if r.below(2) == 0 { if let Some(o) = doc.as_object_mut() { let keys: Vec<String> = o.keys().cloned().collect(); if !keys.is_empty() { let k = keys[r.below(keys.len() as u64) as usize].clone();
                    match r.below(4) { 0 => { o.remove(&k); } 1 => { o.insert(k, serde_json::json!(null)); } 2 => { if let Some(a) = o.get_mut(&k).and_then(|x| x.as_array_mut()) { if !a.is_empty() { let n = r.below(a.len() as u64) as usize; a.remove(n); } } }
                        _ => { if let Some(a) = o.get_mut(&k).and_then(|x| x.as_array_mut()) { a.push(serde_json::json!("extra")); } } } } } }
                serde_json::to_vec(&doc).unwrap() }
            0 => (0..r.below(48)).map(|_| r.below(256) as u8).collect(),
            1 => { let mut s = String::new(); for _ in 0..r.below(40) { s.push_str(frag[r.below(frag.len() as u64) as usize]); } s.into_bytes() }
            2 if !seeds.is_empty() => { let mut b = seeds[r.below(seeds.len() as u64) as usize].clone(); if b.len() > 4000 { let keep = 1500 + r.below(1500) as usize; let cut = b.len() - keep; let st = r.below((keep / 2) as u64) as usize + 200; b.drain(st..st + cut); }
                for _ in 0..(1 + r.below(4)) { if b.is_empty() { break; } let k = r.below(b.len() as u64) as usize; match r.below(4) { 0 => { b[k] = r.below(256) as u8; } 1 => { b.remove(k); } 2 => { b.insert(k, b"{}[],:\"0-9Ag;"[r.below(13) as usize]); } _ => { b.truncate(k); } } } b }
            _ => { // structure-aware: right keys, hostile values
                let v = |r: &mut Rng| -> serde_json::Value { match r.below(9) { 0 => serde_json::json!(null), 1 => serde_json::json!(r.below(5)), 2 => serde_json::json!(-1), 3 => serde_json::json!(4294967295u64), 4 => serde_json::json!("AAAA;AACA,C"),
                    5 => serde_json::json!(["a", null, 3, {"x": 1}]), 6 => serde_json::json!("gggggggggggggggB"), 7 => serde_json::json!([]), _ => serde_json::json!({"line": 0, "column": 4294967295u64}) } };
                let mut m = serde_json::Map::new();
                // a valid skeleton …
                m.insert("version".into(), serde_json::json!(3)); m.insert("sources".into(), serde_json::json!(["a.js", null, "b.js"])); m.insert("names".into(), serde_json::json!(["x", 7]));
                m.insert("mappings".into(), serde_json::json!(["AAAA;AACAA,CAAE", "AAAA,C,EAAEC;;GAEA", "", ";;;A"][r.below(4) as usize]));
                if r.below(4) == 0 { // running sums driven far out: the same huge delta several times, in one field or in all
                    let big = [(1i64 << 62) - 1, -((1i64 << 62) - 1), 1i64 << 61, -(1i64 << 32), (1i64 << 32) - 1][r.below(5) as usize]; let which = r.below(6);
                    let mut mp = String::new();
                    for k in 0..(2 + r.below(5)) { if k > 0 { mp.push(if r.below(4) == 0 { ';' } else { ',' }); }
                        // which >= 4: a small first column, then POSITIVE deltas just below 2^32: the running column wraps around to small values again
                        own_vlq(if which == 0 { big } else if which >= 4 { if k == 0 { 10 } else { (1i64 << 32) - 1 - r.below(8) as i64 } } else { 1 }, &mut mp);
                        if which > 0 { own_vlq(0, &mut mp); own_vlq(if which == 1 || which == 3 { big } else { 0 }, &mut mp); own_vlq(if which == 2 || which == 3 { big } else { 0 }, &mut mp); } }
                    m.insert("mappings".into(), serde_json::json!(mp)); }
                if r.below(2) == 0 { m.insert("sourcesContent".into(), serde_json::json!([null, "c", "d", "e"])); }
                if r.below(3) == 0 { m.insert("rangeMappings".into(), serde_json::json!(["B", "", "/;;B"][r.below(3) as usize])); }
                if r.below(3) == 0 { m.insert("x_facebook_sources".into(), match r.below(6) {
                    0 => serde_json::json!([[{"names": [], "mappings": "A"}], [{"names": [], "mappings": "A,C;E"}], [{"names": [], "mappings": ""}]]),          // no names at all, column-only segments
                    1 => serde_json::json!([[{"names": ["f"], "mappings": "A,C,E;;G"}], [{"names": ["f"], "mappings": "AC"}], [{"names": ["f"], "mappings": "ADA"}]]),   // index 1 of 1, index -1
                    2 => serde_json::json!([[{"names": ["f", "g"], "mappings": "AAA,CC;EAE"}], [{"names": ["h"], "mappings": "AAgggggggggggggggB"}], [{"names": ["h"], "mappings": "A!"}]]),
                    3 => serde_json::json!([null, [], [{"names": ["f"], "mappings": "AAA"}, {"names": [], "mappings": "!"}]]),
                    _ => serde_json::json!([[{"names": ["f", "g"], "mappings": "AAA,CC;EAE"}], null, []]) }); }
                // … with zero to two keys replaced by hostile values
                for _ in 0..r.below(3) { let k = ["version", "file", "sources", "sourceRoot", "sourcesContent", "names", "mappings", "rangeMappings", "ignoreList", "debug_id", "debugId", "x_facebook_sources", "x_facebook_offsets", "x_metro_module_paths"][r.below(14) as usize]; m.insert(k.into(), v(r)); }
                if r.below(3) == 0 { let secs: Vec<serde_json::Value> = (0..r.below(4)).map(|s| {
                        let line = [0u64, 1, 4294967295][r.below(3) as usize] + s; let column = [0u64, 4294967295][r.below(2) as usize];
                        let mp = ["AAAA", "AAAA;;;;AACA", "", "g"][r.below(4) as usize];
                        let inner = if r.below(4) == 0 { serde_json::Value::Null } else if r.below(3) == 0 { serde_json::json!({"version": 3, "sources": ["a"], "names": [], "mappings": mp, "ignoreList": (match r.below(3) { 0 => vec![1u32], 1 => vec![0, 7], _ => vec![4294967295u32] })}) } else { serde_json::json!({"version": 3, "sources": ["a"], "names": [], "mappings": mp}) };
                        serde_json::json!({"offset": {"line": line, "column": column}, "map": inner, "url": v(r)}) }).collect();
                    m.insert("sections".into(), serde_json::Value::Array(secs)); }
                serde_json::to_vec(&serde_json::Value::Object(m)).unwrap() }
        };
        let mut r2 = Rng(r.next());
        // announced first, so that an abort (allocation failure) or a hang is attributable to this input
        outln!("BEGIN\tr{}\tcrash\t{}\t{}", i, kind, hex(&input[..input.len().min(4000)]));
        PROGRESS.fetch_add(1, std::sync::atomic::Ordering::Relaxed);
        let class = match catch_unwind(AssertUnwindSafe(|| { let _ = sourcemap::is_sourcemap_slice(&input); let _ = sourcemap::ram_bundle::is_ram_bundle_slice(&input);
                if let Ok(t) = std::str::from_utf8(&input) { let _ = sourcemap::decode_data_url(t); let _ = sourcemap::decode_data_url(&format!("data:application/json,{}", t)); let _ = sourcemap::decode_data_url(&format!("data:application/json;base64,{}", t));
                    let _ = sourcemap::SourceMapRef::Ref(t.to_string()).get_embedded_sourcemap();
                    let sv = sourcemap::SourceView::new(t.into()); let _ = (sv.line_count(), sv.get_line(1), sv.get_line_slice(0, 1, u32::MAX), sv.sourcemap_reference().is_ok()); }
                match sourcemap::decode_slice(&input) { Ok(dm) => exercise(&dm, &mut r2), Err(_) => "err" } })) { Ok(c) => c.to_string(), Err(_) => "panic".into() };
        outln!("r{}\tcrash\t{}\t{}\t{}", i, kind, hex(&input[..input.len().min(4000)]), class);
    }
}

fn run_dataurl(r: &mut Rng, n: u64) {
    for i in 0..n {
        let sm = gen_map(r, false);
        let out = match catch_unwind(AssertUnwindSafe(|| { let url = sm.to_data_url().unwrap(); let back = sourcemap::decode_data_url(&url);
                let mut bytes = vec![]; sm.to_writer(&mut bytes).unwrap(); let direct = sourcemap::decode_slice(&bytes);
                let show = |x: Result<sourcemap::DecodedMap, sourcemap::Error>| match x { Ok(sourcemap::DecodedMap::Regular(m)) => format!("ok {}", map_obs(&m)), Ok(_) => "ok other".into(), Err(e) => format!("err {}", err_name(&e)) };
                // the same URL placed in a sourceMappingURL comment of a generated file (either comment form, either line ending) and discovered from there
                let nl = if i % 4 < 2 { "\n" } else { "\r\n" };
                let text = format!("var a=1;{}function f(){{}}{}{} sourceMappingURL={}{}", nl, nl, ["//#", "//@"][(i % 2) as usize], url, if i % 3 == 0 { "" } else { nl });
                let embedded = match sourcemap::locate_sourcemap_reference_slice(text.as_bytes()) { Ok(Some(rf)) => match rf.get_embedded_sourcemap() { Ok(Some(m)) => show(Ok(m)), Ok(None) => "not-a-data-url".into(), Err(e) => format!("err {}", err_name(&e)) }, Ok(None) => "no-ref".into(), Err(_) => "locate-err".into() };
                // and through SourceView::sourcemap_reference
                let sv = sourcemap::SourceView::new(text.clone().into());
                let via_view = match sv.sourcemap_reference() { Ok(Some(rf)) => match rf.get_embedded_sourcemap() { Ok(Some(m)) => show(Ok(m)), Ok(None) => "not-a-data-url".into(), Err(e) => format!("err {}", err_name(&e)) }, Ok(None) => "no-ref".into(), Err(_) => "locate-err".into() };
                (url.split(',').next().unwrap_or("").to_string(), show(back), show(direct), embedded, via_view) })) {
            Ok((pre, a, b, c, d)) => format!("{}\t{}\t{}\t{}\t{}", hex(pre.as_bytes()), a, b, c, d), Err(_) => "-\tpanic\tpanic\tpanic\tpanic".into() };
        outln!("d{}\tdataurl\t{}", i, out);
    }
}

// ---- C03: which keys the writer emits (presence, order, null-ness) ----
fn run_keys(r: &mut Rng, n: u64) {
    for i in 0..n {
        let mut sm = gen_map(r, false);
        let dbg = r.below(3) == 0; if dbg { sm.set_debug_id(Some(["00000000-0000-0000-0000-000000000001", "00000000-0000-0000-0000-000000000000"][r.below(2) as usize].parse().unwrap())); }   // the nil id is an id like any other
        let mut out = vec![]; sm.to_writer(&mut out).unwrap();
        // key order as written: parse with serde_json's preserve_order-free API by scanning the top level
        let v: serde_json::Value = serde_json::from_slice(&out).unwrap();
        let text = String::from_utf8(out.clone()).unwrap();
        let mut keys: Vec<(usize, String)> = v.as_object().unwrap().iter().map(|(k, val)| (text.find(&format!("\"{}\":", k)).unwrap_or(usize::MAX), format!("{}{}", k, if val.is_null() { ":null" } else { "" }))).collect();
        keys.sort();
        let mut keys: Vec<String> = keys.into_iter().map(|x| x.1).collect();
        // the other writer, to_data_url: what follows the preamble is the STANDARD base64 (RFC 4648 section 4, padded) of exactly the bytes
        // to_writer produces -- encoded here by an independent encoder; a mismatch is shown as an extra pseudo key
        let url = sm.to_data_url().unwrap();
        match url.split_once(',') { Some((pre, payload)) => { if payload != own_b64(&out) { keys.push("~data-url-payload-is-not-the-standard-base64-of-the-written-bytes".into()); }
                if !pre.starts_with("data:application/json") || !pre.ends_with(";base64") { keys.push("~data-url-preamble".into()); } }
            None => keys.push("~data-url-without-comma".into()) }
        outln!("k{}\tkeys\t{}\t{}\t{}", i, map_in(&sm), if dbg { 1 } else { 0 }, keys.join(","));
    }
}


// ---- C01 / C03 / C18: whole-map round trip for regular, index and Hermes maps ----
/// observation of a decoded map, independent of ids: views deduplicated by the harness itself
fn view_of(t: &sourcemap::Token) -> String {
    if t.has_source() { format!("{}:{}:{}:{}:{}:{}:{}", t.get_dst_line(), t.get_dst_col(), opt_hex(t.get_source()), t.get_src_line(), t.get_src_col(), opt_hex(t.get_name()), t.is_range() as u8) }
    else { format!("{}:{}:-:{}", t.get_dst_line(), t.get_dst_col(), t.is_range() as u8) }
}
fn sm_full_obs(sm: &sourcemap::SourceMap) -> String {
    let mut views: Vec<String> = vec![]; for t in sm.tokens() { let v = view_of(&t); if views.last() != Some(&v) { views.push(v); } }
    let nsrc = sm.get_source_count();
    format!("R[file={} root={} sources={} names={} contents={} ignore={} dbg={} tokens={}]", opt_hex(sm.get_file()), opt_hex(sm.get_source_root()),
        (0..nsrc).map(|i| opt_hex(sm.get_source(i))).collect::<Vec<_>>().join(","), sm.names().map(|n| format!("={}", hex(n.as_bytes()))).collect::<Vec<_>>().join(","),
        (0..nsrc).map(|i| opt_hex(sm.get_source_contents(i))).collect::<Vec<_>>().join(","), sm.ignore_list().map(|x| x.to_string()).collect::<Vec<_>>().join(","),
        sm.get_debug_id().map(|d| d.to_string()).unwrap_or("-".into()), views.join(";"))
}
fn dm_full_obs(dm: &sourcemap::DecodedMap) -> String {
    match dm {
        sourcemap::DecodedMap::Regular(sm) => sm_full_obs(sm),
        sourcemap::DecodedMap::Hermes(h) => {
            let scopes: Vec<String> = { let mut v = vec![]; let mut last = None; for t in h.tokens() { let w = view_of(&t); if last.as_ref() != Some(&w) { v.push(opt_hex(h.get_scope_for_token(t))); } last = Some(w); } v };
            let fns: Vec<String> = (0..40u32).step_by(3).map(|o| opt_hex(h.get_original_function_name(o))).collect();
            format!("H[{} scopes={} fns={}]", sm_full_obs(h), scopes.join(","), fns.join(",")) }
        // x_facebook_offsets / x_metro_module_paths are NOT part of the observation: C01 lists what must survive, and the index
        // encoder does not write them (an index map built with new_ram_bundle_compatible loses them on write; noted in DESIGN.md section 8)
        sourcemap::DecodedMap::Index(ix) => format!("I[file={} sections={}]", opt_hex(ix.get_file()),
            ix.sections().map(|s| format!("({}:{}:{}:{})", s.get_offset_line(), s.get_offset_col(), opt_hex(s.get_url()), s.get_sourcemap().map(dm_full_obs).unwrap_or("nomap".into()))).collect::<Vec<_>>().join("")),
    }
}
/// key structure of a serialised map, recursively through sections: C03 ("absent, not null"; offsets; version)
fn key_shape(v: &serde_json::Value, text_order: &str) -> String {
    let o = match v.as_object() { Some(o) => o, None => return "notobject".into() };
    // an index map's own object is written with `"sources":null` (no skip flag on that field); C03 speaks about the five optional keys and
    // about the embedded maps, so that one is shown but not counted as a null
    let is_index = o.contains_key("sections");
    let mut keys: Vec<String> = o.iter().map(|(k, val)| format!("{}{}", k, if val.is_null() { if is_index && k == "sources" { "~null" } else { ":null" } } else { "" })).collect(); keys.sort();
    let ver = o.get("version").map(|x| x.to_string()).unwrap_or("-".into());
    let secs = o.get("sections").and_then(|s| s.as_array()).map(|a| a.iter().map(|sec| format!("<{}:{}:{}>", sec["offset"]["line"], sec["offset"]["column"], sec.get("map").map(|m| key_shape(m, text_order)).unwrap_or("nomap".into()))).collect::<Vec<_>>().join("")).unwrap_or_default();
    format!("{{v={} {}{}}}", ver, keys.join(","), secs)
}
/// C03: the written keys CARRY the map's values. For every regular / Hermes map of the tree (pre-order) one entry
/// "written~api" where both sides are root|sources|names|contents|file|ignore|debug_id; a JSON null is shown as "null".
fn written_values(v: &serde_json::Value, dm: &sourcemap::DecodedMap, out: &mut Vec<String>) {
    let js = |x: Option<&serde_json::Value>| -> String { match x { None => "-".into(), Some(serde_json::Value::Null) => "null".into(), Some(serde_json::Value::String(s)) => format!("={}", hex(s.as_bytes())), Some(o) => format!("?{}", o) } };
    let arr = |x: Option<&serde_json::Value>| -> String { match x { None => "-".into(), Some(serde_json::Value::Array(a)) => format!("[{}]", a.iter().map(|e| match e { serde_json::Value::Number(n) => n.to_string(), o => js(Some(o)) }).collect::<Vec<_>>().join(",")), Some(o) => js(Some(o)) } };
    let of_sm = |sm: &sourcemap::SourceMap| -> String { let n = sm.get_source_count();
        let contents = if (0..n).any(|i| sm.get_source_contents(i).is_some()) { format!("[{}]", (0..n).map(|i| sm.get_source_contents(i).map(|c| format!("={}", hex(c.as_bytes()))).unwrap_or("null".into())).collect::<Vec<_>>().join(",")) } else { "-".into() };
        let ign: Vec<String> = sm.ignore_list().map(|x| x.to_string()).collect();
        format!("{}|[{}]|[{}]|{}|{}|{}|{}", opt_hex(sm.get_source_root()), (0..n).map(|i| opt_hex(sm.get_source(i))).collect::<Vec<_>>().join(","), sm.names().map(|x| format!("={}", hex(x.as_bytes()))).collect::<Vec<_>>().join(","),
            contents, opt_hex(sm.get_file()), if ign.is_empty() { "-".into() } else { format!("[{}]", ign.join(",")) }, sm.get_debug_id().map(|d| format!("={}", hex(d.to_string().as_bytes()))).unwrap_or("-".into())) };
    let of_json = |o: &serde_json::Value| -> String { format!("{}|{}|{}|{}|{}|{}|{}", js(o.get("sourceRoot")), arr(o.get("sources")), arr(o.get("names")), arr(o.get("sourcesContent")), js(o.get("file")), arr(o.get("ignoreList")), js(o.get("debug_id"))) };
    match dm {
        sourcemap::DecodedMap::Regular(sm) => out.push(format!("{}~{}", of_json(v), of_sm(sm))),
        sourcemap::DecodedMap::Hermes(h) => out.push(format!("{}~{}", of_json(v), of_sm(h))),
        sourcemap::DecodedMap::Index(ix) => { if let Some(secs) = v.get("sections").and_then(|s| s.as_array()) { for (sv, sec) in secs.iter().zip(ix.sections()) { if let (Some(mv), Some(m)) = (sv.get("map"), sec.get_sourcemap()) { written_values(mv, m, out); } } } }
    }
}
fn gen_hermes_doc(r: &mut Rng) -> Vec<u8> {
    // a regular map written by the crate + well-formed function maps rendered by the harness
    let sm = gen_map(r, false); let nsrc = sm.get_source_count() as usize;
    let mut doc: serde_json::Value = { let mut out = vec![]; sm.to_writer(&mut out).unwrap(); serde_json::from_slice(&out).unwrap() };
    let mut fb = vec![];
    for _ in 0..nsrc {
        if r.below(5) == 0 { fb.push(serde_json::Value::Null); continue; }
        let nn = if r.below(8) == 0 { 0 } else { 1 + r.below(3) as usize }; let names: Vec<String> = (0..nn).map(|x| format!("f{}_{}", fb.len(), x)).collect();
        // sometimes the very same scope string as the previous source, under this source's own names
        if let Some(prev) = fb.last().and_then(|p: &serde_json::Value| p.get(0)).and_then(|o| o.get("mappings")).and_then(|m| m.as_str()).map(|x| x.to_string()) { if r.below(3) == 0 {
            let gnames: Vec<String> = (0..3).map(|x| format!("g{}_{}", fb.len(), x)).collect();
            fb.push(serde_json::json!([{"names": gnames, "mappings": prev}])); continue; } }
        let mut s = String::new(); let (mut pl, mut pn, mut pc) = (1i64, 0i64, 0i64); let (mut l, mut c) = (1i64, 0i64);
        for e in 0..(1 + r.below(5)) { if e > 0 { s.push(','); c += 1 + r.below(4) as i64; if r.below(3) == 0 { l += 1; } }
            let n = if nn == 0 { 0 } else { r.below(nn as u64) as i64 }; own_vlq(c - pc, &mut s); pc = c; own_vlq(n - pn, &mut s); pn = n; own_vlq(l - pl, &mut s); pl = l; }
        fb.push(serde_json::json!([{"names": names, "mappings": s}]));
    }
    doc.as_object_mut().unwrap().insert("x_facebook_sources".into(), serde_json::Value::Array(fb));
    serde_json::to_vec(&doc).unwrap()
}
fn gen_index(r: &mut Rng, depth: u32) -> sourcemap::SourceMapIndex {
    let nsec = if r.below(6) == 0 { 0 } else { 1 + r.below(3) }; let mut off = (r.below(3) as u32, r.below(5) as u32); let mut secs = vec![];
    for _ in 0..nsec {
        let inner = match r.below(if depth > 0 { 6 } else { 4 }) {
            0 => sourcemap::decode_slice(&gen_hermes_doc(r)).ok(),
            4 | 5 => Some(sourcemap::DecodedMap::Index(gen_index(r, depth - 1))),
            _ => Some(sourcemap::DecodedMap::Regular(gen_map(r, false))) };
        let url = if r.below(4) == 0 { Some("http://x/s.map".to_string()) } else { None };
        secs.push(sourcemap::SourceMapSection::new(off, url, inner));
        // mostly the next section starts later; sometimes at the very same offset (an empty module followed by the next one)
        if r.below(5) != 0 { off = (off.0 + 100 + r.below(3) as u32, r.below(5) as u32); }
    }
    let file = if r.below(2) == 0 { Some("bundle.js".into()) } else { None };
    // the RAM-bundle extension fields travel with the index map (either, both or none)
    if r.below(3) == 0 { let fbo = if r.below(3) > 0 { Some((0..r.below(4)).map(|k| if k % 2 == 1 { None } else { Some(k as u32 * 7) }).collect()) } else { None };
        let mmp = if r.below(3) > 0 { Some((0..r.below(3)).map(|k| format!("/m/{}.js", k)).collect()) } else { None };
        sourcemap::SourceMapIndex::new_ram_bundle_compatible(file, secs, fbo, mmp) }
    else { sourcemap::SourceMapIndex::new(file, secs) }
}
/// a short history of in-place edits on a map: source root, source names, contents (C13's setters), including the scripted
/// history "every source absolute, then a root, then a relative name" in which a stale cache of joined names would show
fn edit_history(sm: &mut sourcemap::SourceMap, r: &mut Rng) {
    let abs = ["/abs/k.js", "http://h/k.js", "https://h/k.js", "/k.js"]; let rel = ["k.js", "dir/k.js", "", "../k.js", "\u{e9}/k.js"]; let roots = ["root", "root/", "", "/abs", "http://h/r/"];
    let n = sm.get_source_count();
    if n > 0 && r.below(4) == 0 {
        for i in 0..n { sm.set_source(i, abs[(i as usize + r.below(4) as usize) % 4]); }
        sm.set_source_root(Some(roots[r.below(2) as usize]));
        sm.set_source(r.below(n as u64) as u32, rel[r.below(5) as usize]);
        return;
    }
    for _ in 0..(1 + r.below(4)) {
        match r.below(4) {
            0 => { let v = roots[r.below(5) as usize]; if r.below(6) == 0 { sm.set_source_root(None::<&str>); } else { sm.set_source_root(Some(v)); } }
            1 if n > 0 => { let v = if r.below(2) == 0 { abs[r.below(4) as usize] } else { rel[r.below(5) as usize] }; sm.set_source(r.below(n as u64) as u32, v); }
            2 if n > 0 => { let c = if r.below(3) == 0 { None } else { Some("edited \u{1f44c}") }; sm.set_source_contents(r.below(n as u64) as u32, c); }
            _ => { if r.below(3) == 0 { sm.remove_names(); } else if n > 0 { sm.add_to_ignore_list(r.below(n as u64) as u32); } }
        }
    }
}
fn run_roundtrip(r: &mut Rng, n: u64) {
    for i in 0..n {
        let kind = ["regular", "regular", "index", "hermes"][r.below(4) as usize];
        let res = catch_unwind(AssertUnwindSafe(|| {
            let dm: sourcemap::DecodedMap = match kind {
                "regular" => { let mut sm = gen_map(r, false);
                    // debug ids with and without an appendix (the appendix is part of the id)
                    if r.below(3) == 0 { sm.set_debug_id(Some(["00000000-0000-0000-0000-000000000007", "00000000-0000-0000-0000-000000000007-2a", "12345678-9abc-def0-1234-56789abcdef0-ffffffff", "00000000-0000-0000-0000-000000000000", "00000000-0000-0000-0000-000000000000-1"][r.below(5) as usize].parse().unwrap())); }
                    // the map is not necessarily fresh: a history of in-place edits precedes the round trip (C01 speaks of every map, however it was reached)
                    // sometimes the map has already been written once (or asked for a data URL, or cloned after that) before it is edited: nothing
                    // that was computed for the first write may survive the edit
                    let primed = r.below(4) == 0;
                    if primed { let mut sink = vec![]; sm.to_writer(&mut sink).unwrap(); if r.below(2) == 0 { let _ = sm.to_data_url(); } if r.below(3) == 0 { sm = sm.clone(); }
                        let _ = sm.lookup_token(0, 3); if r.below(2) == 0 { sm.remove_names(); } }
                    if primed || r.below(3) == 0 { edit_history(&mut sm, r); }
                    if r.below(8) == 0 { sm = sm.rewrite(&sourcemap::RewriteOptions::default()).unwrap(); }
                    sourcemap::DecodedMap::Regular(sm) }
                "index" => { let mut ix = gen_index(r, 2);
                    // sections edited in place: a URL added to an embedded section, an embedded map replaced or removed
                    if ix.get_section_count() > 0 && r.below(3) == 0 { let k = r.below(ix.get_section_count() as u64) as u32;
                        match r.below(3) { 0 => ix.get_section_mut(k).unwrap().set_url(Some("late.map")), 1 => ix.get_section_mut(k).unwrap().set_sourcemap(Some(sourcemap::DecodedMap::Regular(gen_map(r, false)))), _ => { if ix.get_section(k).unwrap().get_url().is_some() { ix.get_section_mut(k).unwrap().set_sourcemap(None); } } } }
                    sourcemap::DecodedMap::Index(ix) }
                _ => { let dm = sourcemap::decode_slice(&gen_hermes_doc(r)).unwrap();
                    // a Hermes map that went through rewrite (which may drop and reorder sources) before it is written
                    match dm { sourcemap::DecodedMap::Hermes(h) if r.below(2) == 0 => { let opts = if r.below(2) == 0 { sourcemap::RewriteOptions::default() } else { sourcemap::RewriteOptions { with_names: false, strip_prefixes: &["/abs"], ..Default::default() } };
                            sourcemap::DecodedMap::Hermes(h.rewrite(&opts).unwrap()) } d => d } } };
            let small = |d: &sourcemap::DecodedMap| -> bool { match d { sourcemap::DecodedMap::Regular(m) => m.tokens().all(|t| t.get_dst_line() < 100_000), sourcemap::DecodedMap::Hermes(m) => m.tokens().all(|t| t.get_dst_line() < 100_000), _ => true } };
            fn all_small(d: &sourcemap::DecodedMap, small: &dyn Fn(&sourcemap::DecodedMap) -> bool) -> bool { match d { sourcemap::DecodedMap::Index(ix) => ix.sections().all(|s| s.get_sourcemap().map(|m| all_small(m, small)).unwrap_or(true)), m => small(m) } }
            if !all_small(&dm, &small) { return None; }
            let before = dm_full_obs(&dm);
            let mut out1 = vec![]; dm.to_writer(&mut out1).unwrap();
            let mut detected = sourcemap::is_sourcemap_slice(&out1) && sourcemap::is_sourcemap(&out1[..]);
            // the same map made a little larger than one or two I/O blocks (a source text of the right length), so that its closing brace, or whatever
            // else the alignment brings there, sits at a multiple of 8192 bytes: still a serialised map, still recognised, by both forms of the predicate
            if let sourcemap::DecodedMap::Regular(m) = &dm { if m.get_source_count() > 0 {
                let mut big = m.clone(); big.set_source_contents(0, Some("p")); let mut o = vec![]; big.to_writer(&mut o).unwrap();
                let want = [8193usize, 16385, 8180 + (i as usize * 7) % 40][(i % 3) as usize];
                if o.len() < want { big.set_source_contents(0, Some(&"p".repeat(1 + want - o.len()))); let mut o2 = vec![]; big.to_writer(&mut o2).unwrap();
                    detected = detected && o2.len() == want && sourcemap::is_sourcemap_slice(&o2) && sourcemap::is_sourcemap(&o2[..]); } } }
            let v: serde_json::Value = serde_json::from_slice(&out1).unwrap(); let shape = key_shape(&v, "");
            let mut vals = vec![]; written_values(&v, &dm, &mut vals); let shape = format!("{}\t{}", shape, vals.join("#"));
            let (after, idem) = match sourcemap::decode_slice(&out1) {
                Ok(dm2) => { let mut out2 = vec![]; dm2.to_writer(&mut out2).unwrap();
                    let idem = match sourcemap::decode_slice(&out2) { Ok(dm3) => { let mut out3 = vec![]; dm3.to_writer(&mut out3).unwrap(); if out2 == out3 { "1".to_string() } else { "0".to_string() } } Err(e) => format!("err {}", err_name(&e)) };
                    (dm_full_obs(&dm2), idem) }
                Err(e) => (format!("err {}", err_name(&e)), "-".into()) };
            // the model's view of the same map (regular maps only)
            let model_io = match &dm { sourcemap::DecodedMap::Regular(sm) => { let back = sourcemap::SourceMap::from_slice(&out1).ok(); format!("{}\t{}\t{}", map_in(sm), sm.get_debug_id().is_some() as u8, back.map(|b| map_obs(&b)).unwrap_or("err".into())) } _ => "-\t0\t-".into() };
            Some((before, after, idem, detected, shape, model_io))
        }));
        match res {
            Ok(Some((before, after, idem, detected, shape, model_io))) => outln!("t{}\troundtrip\t{}\t{}\t{}\t{}\t{}\t{}\t{}", i, kind, before, after, idem, detected as u8, shape, model_io),
            Ok(None) => {}
            Err(_) => outln!("t{}\troundtrip\t{}\tpanic\tpanic\t-\t0\t-\t-\t-\t0\t-", i, kind),
        }
    }
}


// ---- less-travelled public entry points: each must agree with the main one it is a variant of ----
// One line per case: id, "api", group, failed equivalences (comma separated, empty = all hold), short description.
fn run_api(r: &mut Rng, n: u64, group: &str) {
    for i in 0..n {
        let mut failed: Vec<String> = vec![]; let mut descr = String::new();
        // announced first: an abort (a panic while panicking, a stack overflow, an allocation failure) or a hang inside the case is then attributable to it
        outln!("BEGIN\ta{}\tapi\t{}", i, group);
        let res = catch_unwind(AssertUnwindSafe(|| {
            let mut failed: Vec<String> = vec![]; let mut chk = |name: &str, ok: bool| { if !ok { failed.push(name.to_string()); } };
            let descr;
            match group {
                "tokens" => {   // C04: get_token / tokens / counts / Token accessors tell one story
                    let sm = gen_map(r, false); descr = map_in(&sm);
                    let toks: Vec<sourcemap::Token> = sm.tokens().collect();
                    chk("get_token_count", sm.get_token_count() as usize == toks.len());
                    chk("get_token(i)=iter[i]", toks.iter().enumerate().all(|(k, t)| sm.get_token(k).map(|x| x.get_raw_token()) == Some(t.get_raw_token())) && sm.get_token(toks.len()).is_none());
                    chk("non-decreasing", toks.windows(2).all(|w| w[0].get_dst() <= w[1].get_dst()));
                    // the token iterator through the std adaptors, also after it has advanced: the k-th item is the k-th item
                    { let all: Vec<sourcemap::RawToken> = toks.iter().map(|t| t.get_raw_token()).collect(); let rawof = |o: Option<sourcemap::Token>| o.map(|t| t.get_raw_token());
                      chk("token iterator adaptors", (0..4usize).all(|k| rawof(sm.tokens().nth(k)) == all.get(k).copied() && sm.tokens().skip(k).take(3).map(|t| t.get_raw_token()).collect::<Vec<_>>() == all.iter().skip(k).take(3).copied().collect::<Vec<_>>())
                          && sm.tokens().step_by(2).map(|t| t.get_raw_token()).collect::<Vec<_>>() == all.iter().step_by(2).copied().collect::<Vec<_>>()
                          && { let mut it = sm.tokens(); let a = rawof(it.next()); let b = rawof(it.nth(1)); let c = rawof(it.next()); a == all.first().copied() && b == all.get(2).copied() && c == all.get(3).copied() }
                          && sm.tokens().count() == all.len() && { let mut it = sm.tokens(); it.next(); it.count() == all.len().saturating_sub(1) } && rawof(sm.tokens().last()) == all.last().copied()); }
                    chk("looked-up token: pair accessors", toks.iter().all(|t| { let (l, c) = t.get_dst(); [0u32, 1, 9].iter().all(|d| match sm.lookup_token(l, c.saturating_add(*d)) { Some(f) => f.get_src() == (f.get_src_line(), f.get_src_col()) && f.get_dst() == (f.get_dst_line(), f.get_dst_col()) && f.to_tuple().1 == f.get_src_line() && f.to_tuple().2 == f.get_src_col(), None => true }) }));
                    // a Hermes map answers function names from its own metadata: a source view and a minified name handed to the DecodedMap front end change nothing
                    { let hdoc = br#"{"version":3,"sources":["a.js"],"names":["orig"],"mappings":"AAAAA,SAAAA","x_facebook_sources":[null]}"#; let svh = sourcemap::SourceView::new("function n(){}".into());
                      if let Ok(dmh) = sourcemap::decode_slice(hdoc) { chk("hermes front end ignores the source view", (0..14u32).all(|c| dmh.get_original_function_name(0, c, Some("n"), Some(&svh)) == dmh.get_original_function_name(0, c, None, None))); } }
                    // Token's own Eq / Ord: a token equals itself, and the order of tokens begins with the generated position
                    chk("Token Eq/Ord", toks.iter().all(|t| t == t && t.cmp(t) == std::cmp::Ordering::Equal && t.partial_cmp(t) == Some(std::cmp::Ordering::Equal))
                        && toks.windows(2).all(|w| if w[0].get_dst() != w[1].get_dst() { w[0] < w[1] && w[0] != w[1] } else { (w[0] == w[1]) == (w[0].get_raw_token() == w[1].get_raw_token()) }));
                    chk("get_dst", toks.iter().all(|t| t.get_dst() == (t.get_dst_line(), t.get_dst_col()) && t.get_src() == (t.get_src_line(), t.get_src_col())));
                    chk("has_source/has_name", toks.iter().all(|t| t.has_source() == t.get_source().is_some() && (t.has_name() == t.get_name().is_some()) && t.has_source() == (t.get_src_id() != !0)));
                    chk("to_tuple", toks.iter().all(|t| t.to_tuple() == (t.get_source().unwrap_or(""), t.get_src_line(), t.get_src_col(), t.get_name())));
                    chk("get_source(src_id)", toks.iter().all(|t| t.get_source() == (if t.get_src_id() == !0 { None } else { sm.get_source(t.get_src_id()) }) && t.get_name() == (if t.get_name_id() == !0 { None } else { sm.get_name(t.get_name_id()) })));
                    chk("names()/sources()", sm.names().count() as u32 == sm.get_name_count() && sm.sources().count() as u32 == sm.get_source_count() && sm.has_names() == (sm.get_name_count() > 0)
                        && sm.sources().enumerate().all(|(k, x)| Some(x) == sm.get_source(k as u32)) && sm.names().enumerate().all(|(k, x)| Some(x) == sm.get_name(k as u32)));
                    chk("source_contents()", sm.source_contents().enumerate().all(|(k, x)| x == sm.get_source_contents(k as u32)));
                    // a lookup at a token's own position finds a token at that position: the first one
                    chk("lookup at token", toks.iter().all(|t| { let (l, c) = t.get_dst(); match sm.lookup_token(l, c) { Some(f) => f.get_dst() == (l, c) && Some(f.get_raw_token()) == toks.iter().find(|x| x.get_dst() == (l, c)).map(|x| x.get_raw_token()), None => false } }));
                    { let mut raw: Vec<sourcemap::RawToken> = toks.iter().map(|t| t.get_raw_token()).collect(); for k in (1..raw.len()).rev() { let j = r.below(k as u64 + 1) as usize; raw.swap(k, j); }
                      let names: Vec<std::sync::Arc<str>> = sm.names().map(|x| x.into()).collect(); let srcs: Vec<std::sync::Arc<str>> = (0..sm.get_source_count()).map(|k| sm.get_source(k).unwrap().into()).collect();
                      let sm2 = sourcemap::SourceMap::new(None, raw, names, srcs, None); let toks2: Vec<sourcemap::Token> = sm2.tokens().collect();
                      chk("shuffled construction: ordered", toks2.windows(2).all(|w| w[0].get_dst() <= w[1].get_dst()) && toks2.len() == toks.len());
                      chk("shuffled construction: lookup at token", toks2.iter().all(|t| { let (l, c) = t.get_dst(); match sm2.lookup_token(l, c) { Some(f) => Some(f.get_raw_token()) == toks2.iter().find(|x| x.get_dst() == (l, c)).map(|x| x.get_raw_token()), None => false } })); }
                    // what a lookup answers depends on the tokens alone: the same map without its embedded contents answers every query alike (C07: inside a range
                    // the original column advances by the distance from the token, however long the original line is)
                    { let raw: Vec<sourcemap::RawToken> = toks.iter().map(|t| t.get_raw_token()).collect(); let names: Vec<std::sync::Arc<str>> = sm.names().map(|x| x.into()).collect(); let srcs: Vec<std::sync::Arc<str>> = (0..sm.get_source_count()).map(|k| sm.get_source(k).unwrap().into()).collect();
                      let bare = sourcemap::SourceMap::new(None, raw, names, srcs, None);
                      let ans = |m: &sourcemap::SourceMap, l: u32, c: u32| m.lookup_token(l, c).map(|t| (t.get_raw_token(), t.get_src_line(), t.get_src_col(), t.get_dst()));
                      chk("lookups do not depend on embedded contents", toks.iter().all(|t| { let (l, c) = t.get_dst(); [0u32, 1, 5, 40, 1000, 70000].iter().all(|d| ans(&sm, l, c.saturating_add(*d)) == ans(&bare, l, c.saturating_add(*d))) && ans(&sm, l.saturating_add(1), 0) == ans(&bare, l.saturating_add(1), 0) }));
                      chk("range offset", toks.iter().all(|t| { let (l, c) = t.get_dst(); [1u32, 5, 1000].iter().all(|d| match sm.lookup_token(l, c.saturating_add(*d)) { Some(f) if f.get_dst() == (l, c) && f.get_raw_token() == t.get_raw_token() && c.checked_add(*d).is_some() => f.get_src_col() == if f.is_range() { f.get_raw_token().src_col.saturating_add(*d) } else { f.get_raw_token().src_col }, _ => true }) })); }
                    { let mut doc: serde_json::Value = { let mut o = vec![]; sm.to_writer(&mut o).unwrap(); serde_json::from_slice(&o).unwrap() };
                      doc.as_object_mut().unwrap().insert("x_facebook_sources".into(), serde_json::json!([[{"names": ["f"], "mappings": "AAA"}]]));
                      let as_regular = sourcemap::DecodedMap::Regular(sm.clone()); let as_hermes = sourcemap::decode_slice(&serde_json::to_vec(&doc).unwrap()).ok();
                      let pos: Vec<(u32, u32)> = toks.iter().flat_map(|t| { let (l, c) = t.get_dst(); [(l, c), (l, c.saturating_add(2)), (l.saturating_add(1), 0)] }).collect();
                      chk("DecodedMap::lookup_token (regular)", pos.iter().all(|&(l, c)| as_regular.lookup_token(l, c).map(|t| t.get_raw_token()) == sm.lookup_token(l, c).map(|t| t.get_raw_token())));
                      if let Some(sourcemap::DecodedMap::Hermes(h)) = &as_hermes { let dm = as_hermes.as_ref().unwrap();
                          chk("DecodedMap::lookup_token (hermes)", pos.iter().all(|&(l, c)| dm.lookup_token(l, c).map(|t| t.get_raw_token()) == h.lookup_token(l, c).map(|t| t.get_raw_token()))
                              && (h.get_token_count() != sm.get_token_count() || pos.iter().all(|&(l, c)| dm.lookup_token(l, c).map(|t| t.get_dst()) == sm.lookup_token(l, c).map(|t| t.get_dst())))); } }
                    let mut it = sm.tokens(); if let Some(t) = toks.last() { let (l, c) = t.get_dst(); chk("seek", it.seek(l, c) && it.next().map(|x| x.get_dst() > (l, c) || x.get_dst() == (l, c)).unwrap_or(true)); }
                }
                "history" => {  // C04 over histories of map-producing operations: after every step the tokens are ordered and lookups are right
                    let mut sm = gen_map(r, false); descr = map_in(&sm);
                    // independent lookup: linear scan for the greatest position <= query, first token among equal positions
                    let spec_lookup = |m: &sourcemap::SourceMap, q: (u32, u32)| -> Option<sourcemap::RawToken> { let mut best: Option<(u32, u32)> = None;
                        for t in m.tokens() { let k = t.get_dst(); if k <= q && best.map_or(true, |b| k > b) { best = Some(k); } }
                        best.and_then(|b| m.tokens().find(|t| t.get_dst() == b).map(|t| t.get_raw_token())) };
                    // on an exact hit the first token at that position; otherwise any token at the greatest position not after the query
                    let agrees = |m: &sourcemap::SourceMap, q: (u32, u32)| -> bool { match (m.lookup_token(q.0, q.1), spec_lookup(m, q)) { (None, None) => true,
                        (Some(t), Some(w)) => if (w.dst_line, w.dst_col) == q { t.get_raw_token() == w } else { t.get_dst() == (w.dst_line, w.dst_col) }, _ => false } };
                    let steps = 1 + r.below(5);
                    for step in 0..steps {
                        let name = match r.below(7) {
                            0 => { sm = sm.rewrite(&sourcemap::RewriteOptions::default()).unwrap(); "rewrite" }
                            1 => { let adj = build_map(1, 0, &[Tok { dl: 0, dc: 0, sl: 0, sc: 0, src: 0, name: !0, range: false }, Tok { dl: 0, dc: 3 + r.below(4) as u32, sl: 0, sc: 8, src: 0, name: !0, range: false }, Tok { dl: 1, dc: 2, sl: 2, sc: 0, src: 0, name: !0, range: false }]);
                                   // adjust_mappings computes columns in i32: only for maps whose coordinates stay below 2^30 (C10's domain)
                                   if sm.tokens().all(|t| t.get_dst_col() < (1 << 30) && t.get_dst_line() < (1 << 30)) { for q in [(0u32, 1u32), (1, 1)] { let _ = sm.lookup_token(q.0, q.1); } sm.adjust_mappings(&adj); } "adjust_mappings" }
                            2 => { let first = (r.below(2) as u32, r.below(12) as u32);
                                   // one section, or two sections that start on the same line a few columns apart (they may interleave: a flattened map is ordered whatever the sections look like)
                                   let mut secs = vec![sourcemap::SourceMapSection::new(first, None, Some(sourcemap::DecodedMap::Regular(sm.clone())))];
                                   if r.below(2) == 0 { secs.push(sourcemap::SourceMapSection::new((first.0, first.1 + 1 + r.below(20) as u32), None, Some(sourcemap::DecodedMap::Regular(sm.clone())))); }
                                   let ix = sourcemap::SourceMapIndex::new(None, secs); match ix.flatten() { Ok(f) => { sm = f; } Err(_) => {} } "flatten" }
                            3 => { if sm.tokens().all(|t| t.get_dst_line() < 100_000) { let mut o = vec![]; sm.to_writer(&mut o).unwrap(); sm = sourcemap::SourceMap::from_slice(&o).unwrap(); } "write+read" }
                            4 => { sm.set_source_root(Some(["", "r", "/"][r.below(3) as usize])); "set_source_root" }
                            5 => { sm = sm.rewrite(&sourcemap::RewriteOptions { with_names: false, strip_prefixes: &["/abs"], ..Default::default() }).unwrap(); "rewrite(no names, strip)" }
                            _ => { let mut raw: Vec<sourcemap::RawToken> = sm.tokens().map(|t| t.get_raw_token()).collect(); raw.reverse(); let names: Vec<std::sync::Arc<str>> = sm.names().map(|x| x.into()).collect(); let srcs: Vec<std::sync::Arc<str>> = (0..sm.get_source_count()).map(|k| sm.get_source(k).unwrap().into()).collect();
                                   sm = sourcemap::SourceMap::new(None, raw, names, srcs, None); "new(reversed tokens)" }
                        };
                        let toks: Vec<sourcemap::Token> = sm.tokens().collect();
                        chk(&format!("step{} {}: ordered", step, name), toks.windows(2).all(|w| w[0].get_dst() <= w[1].get_dst()));
                        chk(&format!("step{} {}: get_token", step, name), toks.iter().enumerate().all(|(k, t)| sm.get_token(k).map(|x| x.get_raw_token()) == Some(t.get_raw_token())) && sm.get_token_count() as usize == toks.len());
                        for q in [(0u32, 0u32), (0, 4), (0, 9), (1, 0), (1, 3), (2, 2), (5, 5), (u32::MAX, u32::MAX)] {
                            chk(&format!("step{} {}: lookup {:?}", step, name, q), agrees(&sm, q)); }
                    }
                }
                "index" => {    // C08: section accessors and in-place section edits tell the same story as lookup and flatten
                    let (secs, d, extent) = gen_sections(r, 1, 0); descr = d;
                    let offs: Vec<(u32, u32)> = secs.iter().map(|s| s.get_offset()).collect();
                    let mut idx = if r.below(2) == 0 { sourcemap::SourceMapIndex::new(Some("f".into()), secs) } else { sourcemap::SourceMapIndex::new_ram_bundle_compatible(Some("f".into()), secs, if r.below(2) == 0 { Some(vec![Some(1), None]) } else { None }, Some(vec!["p".into()])) };
                    let n = idx.get_section_count();
                    chk("section count", n as usize == offs.len() && idx.sections().count() == offs.len());
                    chk("get_section(i)", (0..n + 2).all(|k| idx.get_section(k).map(|s| s.get_offset()) == offs.get(k as usize).copied()) && idx.get_section(!0).is_none());
                    chk("offset accessors", idx.sections().all(|s| s.get_offset() == (s.get_offset_line(), s.get_offset_col()) && s.get_url().is_none() && s.get_sourcemap().is_some()));
                    chk("is_for_ram_bundle", idx.is_for_ram_bundle() == (idx.x_facebook_offsets().is_some() && idx.x_metro_module_paths().is_some()));
                    chk("get_file/set_file", idx.get_file() == Some("f") && { idx.set_file(None); idx.get_file().is_none() } && { idx.set_file(Some("g")); idx.get_file() == Some("g") });
                    // answers before the edit, at positions inside every section
                    // a token without a source has no original position: the format does not carry one for it
                    let view = |t: &sourcemap::Token| if t.has_source() { format!("{}/{}/{}/{}", opt_hex(t.get_source()), t.get_src_line(), t.get_src_col(), opt_hex(t.get_name())) } else { "nosource".to_string() };
                    let qs: Vec<(u32, u32)> = (0..12).map(|_| (r.below(extent as u64 + 2) as u32, r.below(12) as u32)).collect();
                    let before: Vec<Option<String>> = qs.iter().map(|q| idx.lookup_token(q.0, q.1).map(|t| view(&t))).collect();
                    let owner = |q: &(u32, u32)| -> Option<usize> { offs.iter().rposition(|o| o <= q) };
                    // set_url does not disturb anything else
                    let k = r.below(n as u64) as u32;
                    idx.get_section_mut(k).unwrap().set_url(Some("u.map"));
                    chk("set_url", idx.get_section(k).unwrap().get_url() == Some("u.map") && idx.get_section(k).unwrap().get_offset() == offs[k as usize] && (0..n).filter(|j| *j != k).all(|j| idx.get_section(j).unwrap().get_url().is_none()));
                    chk("lookups after set_url", qs.iter().zip(&before).all(|(q, b)| &idx.lookup_token(q.0, q.1).map(|t| view(&t)) == b));
                    chk("get_section_mut past the end", idx.get_section_mut(n).is_none());
                    // written and read back, the URL and the offsets are there
                    let mut o = vec![]; idx.to_writer(&mut o).unwrap();
                    match sourcemap::SourceMapIndex::from_slice(&o) { Ok(back) => { chk("url survives write+read", back.get_section_count() == n && (0..n).all(|j| back.get_section(j).unwrap().get_url() == idx.get_section(j).unwrap().get_url() && back.get_section(j).unwrap().get_offset() == offs[j as usize]));
                            chk("lookups after write+read", qs.iter().zip(&before).all(|(q, b)| &back.lookup_token(q.0, q.1).map(|t| view(&t)) == b)); }
                        Err(_) => chk("index reads back", false) }
                    // the same index written with its sections in another order: a reader puts them in offset order
                    { let mut v: serde_json::Value = serde_json::from_slice(&o).unwrap();
                      if let Some(a) = v.get_mut("sections").and_then(|x| x.as_array_mut()) { a.reverse(); if a.len() > 2 { a.swap(0, 1); } }
                      match sourcemap::SourceMapIndex::from_slice(&serde_json::to_vec(&v).unwrap()) { Ok(back) => chk("sections listed out of order", (0..n).all(|j| back.get_section(j).map(|x| x.get_offset()) == Some(offs[j as usize])) && qs.iter().zip(&before).all(|(q, b)| &back.lookup_token(q.0, q.1).map(|t| view(&t)) == b)),
                          Err(_) => chk("index with reordered sections reads", false) } }
                    // the same index with one section reduced to its offset (no map, no url) in the document: it is still a section -- its positions resolve
                    // to nothing, the others are unchanged, flatten refuses
                    { let mut v: serde_json::Value = serde_json::from_slice(&o).unwrap(); let kk = k as usize;
                      if let Some(a) = v.get_mut("sections").and_then(|x| x.as_array_mut()) { if let Some(so) = a.get_mut(kk).and_then(|x| x.as_object_mut()) { so.remove("map"); so.remove("url"); } }
                      match sourcemap::SourceMapIndex::from_slice(&serde_json::to_vec(&v).unwrap()) {
                          Ok(back) => chk("offset-only section", back.get_section_count() == n && back.get_section(k).map(|x| x.get_sourcemap().is_none()) == Some(true) && matches!(back.flatten(), Err(sourcemap::Error::CannotFlatten(_)))
                              && qs.iter().zip(&before).all(|(q, b)| { let a = back.lookup_token(q.0, q.1).map(|t| view(&t)); if owner(q) == Some(kk) { a.is_none() } else { &a == b } })),
                          Err(_) => chk("index with an offset-only section reads", false) } }
                    // taking one section's map away: positions owned by that section resolve to nothing, all others are unchanged, flatten refuses
                    let taken = idx.get_section_mut(k).unwrap().get_sourcemap_mut().is_some();
                    let old = idx.get_section(k).unwrap().get_sourcemap().cloned();
                    idx.get_section_mut(k).unwrap().set_sourcemap(None);
                    chk("get_sourcemap_mut", taken);
                    chk("set_sourcemap(None)", idx.get_section(k).unwrap().get_sourcemap().is_none());
                    chk("lookups after set_sourcemap(None)", qs.iter().zip(&before).all(|(q, b)| { let a = idx.lookup_token(q.0, q.1).map(|t| view(&t)); if owner(q) == Some(k as usize) { a.is_none() } else { &a == b } }));
                    chk("flatten refuses unresolved", matches!(idx.flatten(), Err(sourcemap::Error::CannotFlatten(_))));
                    // putting it back restores every answer
                    idx.get_section_mut(k).unwrap().set_sourcemap(old);
                    chk("lookups after restore", qs.iter().zip(&before).all(|(q, b)| &idx.lookup_token(q.0, q.1).map(|t| view(&t)) == b));
                    chk("flatten after restore agrees", match idx.flatten() { Ok(f) => qs.iter().zip(&before).all(|(q, b)| b.is_none() || &f.lookup_token(q.0, q.1).map(|t| view(&t)) == b), Err(_) => true });   // when flatten may refuse is the index stream's business
                }
                "ref" => {      // C18: what is done with a located reference: get_url, resolve, resolve_path, get_embedded_sourcemap
                    let rels = [("a.map", "a.map"), ("sub/b.map", "sub/b.map"), ("../c.map", "../c.map"), ("./d.map", "d.map"), ("e.js.map?x=1", "e.js.map?x=1")];
                    let (rel, norm) = rels[r.below(rels.len() as u64) as usize]; let legacy = r.below(2) == 0;
                    let text = format!("foo();\n//{} sourceMappingURL={}\n", if legacy { "@" } else { "#" }, rel); descr = hex(text.as_bytes());
                    let rf = sourcemap::locate_sourcemap_reference_slice(text.as_bytes()).unwrap().unwrap();
                    chk("variant", matches!(rf, sourcemap::SourceMapRef::LegacyRef(_)) == legacy);
                    chk("get_url", rf.get_url() == rel);
                    let dirs = ["http://x/dir/", "https://h:8080/", "http://x/a/b/c/"]; let dir = dirs[r.below(3) as usize];
                    let want = if norm.starts_with("../") { let up = dir.trim_end_matches('/'); let parent = if up.matches('/').count() > 2 { &up[..up.rfind('/').unwrap() + 1] } else { dir }; format!("{}{}", parent, &norm[3..]) } else { format!("{}{}", dir, norm) };
                    chk("resolve", rf.resolve(&format!("{}min.js", dir)) == Some(want));
                    chk("resolve: base is not a URL", rf.resolve("not a url").is_none());
                    if !rel.contains('?') { let pw = if norm.starts_with("../") { format!("/p/{}", &norm[3..]) } else { format!("/p/q/{}", norm) };
                        chk("resolve_path", rf.resolve_path(std::path::Path::new("/p/q/min.js")) == Some(std::path::PathBuf::from(pw))); }
                    chk("not embedded", matches!(rf.get_embedded_sourcemap(), Ok(None)));
                    let abs = sourcemap::SourceMapRef::Ref("http://y/z.map".into());
                    chk("absolute reference", abs.resolve(&format!("{}min.js", dir)) == Some("http://y/z.map".to_string()));
                    // a data URL is never resolved against anything, and it is the embedded map
                    let sm = gen_map(r, false); let du = sm.to_data_url().unwrap();
                    let text2 = format!("x\n//# sourceMappingURL={}", du);
                    let rf2 = sourcemap::locate_sourcemap_reference_slice(text2.as_bytes()).unwrap().unwrap();
                    chk("data url: get_url", rf2.get_url() == du);
                    chk("data url: resolve", rf2.resolve("http://x/min.js").is_none() && rf2.resolve_path(std::path::Path::new("/p/min.js")).is_none());
                    let payload = du.split_once(',').unwrap().1;
                    chk("data url: other preambles are refused", ["data:text/plain;base64,", "data:application/json;charset=utf8;base64,", "DATA:application/json;base64,", "data:application/json,", "data:application/json;base64", "", " data:application/json;base64,"].iter()
                        .all(|p| matches!(sourcemap::decode_data_url(&format!("{}{}", p, payload)), Err(sourcemap::Error::InvalidDataUrl))));
                    chk("data url: both accepted preambles", ["data:application/json;base64,", "data:application/json;charset=utf-8;base64,"].iter().all(|p| sourcemap::decode_data_url(&format!("{}{}", p, payload)).is_ok()));
                    // two URLs of the same length whose payloads agree in their first and last few hundred characters and differ in the middle,
                    // decoded one after the other: each decodes to its own payload
                    { let mk = |mid: char| { let mut b = sourcemap::SourceMapBuilder::new(Some("o.js")); let sid = b.add_source("big.js"); let body: String = std::iter::repeat('x').take(700).chain(std::iter::once(mid)).chain(std::iter::repeat('y').take(700)).collect();
                          b.set_source_contents(sid, Some(&body)); b.add_raw(0, 0, 0, 0, Some(sid), None, false); b.into_sourcemap() };
                      let (ma, mb) = (mk('1'), mk('2')); let (ua, ub) = (ma.to_data_url().unwrap(), mb.to_data_url().unwrap());
                      let content = |u: &str| match sourcemap::decode_data_url(u) { Ok(sourcemap::DecodedMap::Regular(m)) => m.get_source_contents(0).map(|c| c.to_string()), _ => None };
                      let ca = content(&ua); let cb = content(&ub); let ca2 = content(&ua);
                      chk("look-alike data urls", ua.len() == ub.len() && ca.as_deref() == ma.get_source_contents(0) && cb.as_deref() == mb.get_source_contents(0) && ca2 == ca); }
                    // a large map now and then (a mappings string of several KiB, a document of more than 48 KiB): the URL is still the preamble plus
                    // the standard base64 of the written bytes, and the library reads its own URL back
                    if i % 25 == 7 { let ntok = [900u32, 3000, 20000][(i / 25 % 3) as usize]; let mut b = sourcemap::SourceMapBuilder::new(Some(["a.js", "ab.js", "abc.js"][r.below(3) as usize]));
                        let sid = b.add_source("src/big.js"); let nid = b.add_name("n"); for k in 0..ntok { b.add_raw(k / 500, (k % 500) * 7, k / 3, k % 11, Some(sid), if k % 4 == 0 { Some(nid) } else { None }, false); }
                        let big = b.into_sourcemap(); let url = big.to_data_url().unwrap(); let mut bytes = vec![]; big.to_writer(&mut bytes).unwrap();
                        chk("large map: payload is the standard base64 of the written bytes", url.split_once(',').map(|x| x.1 == own_b64(&bytes)).unwrap_or(false));
                        chk("large map: the library reads its own URL", match sourcemap::decode_data_url(&url) { Ok(sourcemap::DecodedMap::Regular(m)) => m.get_token_count() == big.get_token_count() && m.tokens().zip(big.tokens()).all(|(a, b)| a.get_raw_token() == b.get_raw_token()), _ => false }); }
                    chk("data url: embedded", match rf2.get_embedded_sourcemap() { Ok(Some(sourcemap::DecodedMap::Regular(m))) => { let mut a = vec![]; let mut b = vec![]; m.to_writer(&mut a).unwrap(); sm.to_writer(&mut b).unwrap(); a == b } _ => false });
                }
                "rewrite" => {  // C09 / C08: remove_names, flatten_and_rewrite
                    let sm = gen_map(r, false); descr = map_in(&sm);
                    let mut nn = sm.clone(); nn.remove_names();
                    chk("remove_names", nn.get_name_count() == 0 && nn.tokens().all(|t| t.get_name().is_none()) && nn.tokens().zip(sm.tokens()).all(|(a, b)| a.get_dst() == b.get_dst() && a.get_src() == b.get_src() && a.get_source() == b.get_source() && a.is_range() == b.is_range()) && nn.get_token_count() == sm.get_token_count());
                    let (secs, _d, _e) = gen_sections(r, 1, 0); let idx = sourcemap::SourceMapIndex::new(Some("f".into()), secs);
                    for opts in [sourcemap::RewriteOptions::default(), sourcemap::RewriteOptions { with_names: false, with_source_contents: false, strip_prefixes: &["/abs"], ..Default::default() }] {
                        let a = idx.clone().flatten_and_rewrite(&opts).map(|m| map_obs(&m)).map_err(|e| err_name(&e)); let b = idx.flatten().and_then(|f| f.rewrite(&opts)).map(|m| map_obs(&m)).map_err(|e| err_name(&e));
                        chk("flatten_and_rewrite", a == b); }
                    // rewriting twice changes nothing more
                    let once = sm.clone().rewrite(&sourcemap::RewriteOptions::default()).map(|m| map_obs(&m)).ok(); let twice = sm.clone().rewrite(&sourcemap::RewriteOptions::default()).and_then(|m| m.rewrite(&sourcemap::RewriteOptions::default())).map(|m| map_obs(&m)).ok();
                    chk("rewrite idempotent", once == twice && once.is_some());
                    // file and debug id are preserved, whatever the id looks like (a plain UUID, the nil id, an id with an appendix)
                    for idtext in ["3b1f9a62-0000-4000-8000-000000000001", "00000000-0000-0000-0000-000000000000", "3b1f9a62-0000-4000-8000-000000000001-1", "3b1f9a62-0000-4000-8000-000000000001-ffffffff"] {
                        let mut withid = sm.clone(); withid.set_debug_id(Some(idtext.parse().unwrap())); let id = withid.get_debug_id(); if id.map(|d| d.to_string()).as_deref() != Some(idtext) { chk("set_debug_id keeps the id", false); }
                        for opts in [sourcemap::RewriteOptions::default(), sourcemap::RewriteOptions { with_names: false, with_source_contents: false, strip_prefixes: &["~"], ..Default::default() }] {
                            let rw = withid.clone().rewrite(&opts).unwrap(); chk("rewrite keeps the debug id", rw.get_debug_id() == id && id.is_some() && rw.get_file() == withid.get_file()); } }
                }
                "reader" => {   // C12: every from_reader / decode(reader) variant agrees with its slice twin
                    let dm: sourcemap::DecodedMap = match r.below(3) { 0 => sourcemap::DecodedMap::Index(gen_index(r, 1)), 1 => sourcemap::decode_slice(&gen_hermes_doc(r)).unwrap(), _ => sourcemap::DecodedMap::Regular(gen_map(r, false)) };
                    let small = match &dm { sourcemap::DecodedMap::Regular(m) => m.tokens().all(|t| t.get_dst_line() < 100_000), sourcemap::DecodedMap::Hermes(m) => m.tokens().all(|t| t.get_dst_line() < 100_000), _ => true };
                    descr = format!("{:?}", std::mem::discriminant(&dm));
                    if small {
                        let mut bytes = vec![]; if r.below(3) == 0 { bytes.extend(b")]}'\n"); } let mut body = vec![]; if dm.to_writer(&mut body).is_err() { return (failed, descr); } bytes.extend(&body);
                        let sizes: Vec<usize> = (0..1 + r.below(3)).map(|_| 1 + r.below(9) as usize).collect();
                        let rd = || Chunked { data: &bytes, pos: 0, sizes: sizes.clone(), k: 0 };
                        let show = |x: sourcemap::Result<sourcemap::DecodedMap>| x.map(|d| dm_full_obs(&d)).map_err(|_| ());
                        chk("decode", show(sourcemap::decode(rd())) == show(sourcemap::decode_slice(&bytes)));
                        chk("DecodedMap::from_reader", show(sourcemap::DecodedMap::from_reader(rd())) == show(sourcemap::decode_slice(&bytes)));
                        chk("SourceMap::from_reader", sourcemap::SourceMap::from_reader(rd()).map(|m| sm_full_obs(&m)).map_err(|_| ()) == sourcemap::SourceMap::from_slice(&bytes).map(|m| sm_full_obs(&m)).map_err(|_| ()));
                        chk("SourceMapIndex::from_reader", sourcemap::SourceMapIndex::from_reader(rd()).map(|m| dm_full_obs(&sourcemap::DecodedMap::Index(m))).map_err(|_| ()) == sourcemap::SourceMapIndex::from_slice(&bytes).map(|m| dm_full_obs(&sourcemap::DecodedMap::Index(m))).map_err(|_| ()));
                        chk("from_slice kinds", match &dm { sourcemap::DecodedMap::Regular(_) => sourcemap::SourceMap::from_slice(&bytes).is_ok() && sourcemap::SourceMapIndex::from_slice(&bytes).is_err(), sourcemap::DecodedMap::Index(_) => sourcemap::SourceMapIndex::from_slice(&bytes).is_ok() && sourcemap::SourceMap::from_slice(&bytes).is_err(),
                            sourcemap::DecodedMap::Hermes(_) => matches!(sourcemap::SourceMap::from_slice(&bytes), Err(sourcemap::Error::IncompatibleSourceMap)) && matches!(sourcemap::SourceMap::from_reader(rd()), Err(sourcemap::Error::IncompatibleSourceMap)) && sourcemap::SourceMapIndex::from_slice(&bytes).is_err() });
                        chk("SourceMapHermes::from_reader", sourcemap::SourceMapHermes::from_reader(rd()).map(|m| dm_full_obs(&sourcemap::DecodedMap::Hermes(m))).map_err(|_| ()) == sourcemap::SourceMapHermes::from_slice(&bytes).map(|m| dm_full_obs(&sourcemap::DecodedMap::Hermes(m))).map_err(|_| ()));
                        chk("SourceMapHermes::from_slice kinds", sourcemap::SourceMapHermes::from_slice(&bytes).is_ok() == matches!(dm, sourcemap::DecodedMap::Hermes(_)));
                        chk("is_sourcemap", sourcemap::is_sourcemap(rd()) && sourcemap::is_sourcemap_slice(&bytes));
                        // both spellings of the debug id key, with different values: "debug_id" wins and "debugId" alone is read -- for regular and for Hermes documents alike
                        if !matches!(dm, sourcemap::DecodedMap::Index(_)) { if let Ok(serde_json::Value::Object(mut o)) = serde_json::from_slice::<serde_json::Value>(&body) {
                            let (ida, idb) = ("00000000-0000-0000-0000-00000000000a", "00000000-0000-0000-0000-00000000000b");
                            o.remove("debug_id"); o.remove("debugId"); o.insert("debug_id".into(), serde_json::json!(ida)); o.insert("debugId".into(), serde_json::json!(idb));
                            let both = serde_json::to_vec(&serde_json::Value::Object(o.clone())).unwrap();
                            let id_of = |d: sourcemap::Result<sourcemap::DecodedMap>| d.ok().and_then(|d| match d { sourcemap::DecodedMap::Regular(m) => m.get_debug_id(), sourcemap::DecodedMap::Hermes(m) => m.get_debug_id(), sourcemap::DecodedMap::Index(_) => None }).map(|x| x.to_string());
                            chk("debug_id wins over debugId", id_of(sourcemap::decode_slice(&both)).as_deref() == Some(ida));
                            o.remove("debug_id"); let only_new = serde_json::to_vec(&serde_json::Value::Object(o)).unwrap();
                            chk("debugId alone is read", id_of(sourcemap::decode_slice(&only_new)).as_deref() == Some(idb));
                        } }
                        // the same document with its dispatch key spelled with a JSON escape ("\u0073ections"): a key is a JSON string, every entry point reads it alike
                        { let text = String::from_utf8(bytes.clone()).unwrap(); let esc = text.replacen("\"sections\"", "\"\\u0073ections\"", 1).replacen("\"x_facebook_sources\"", "\"x_facebook_\\u0073ources\"", 1).replacen("\"mappings\"", "\"mapping\\u0073\"", 1);
                          let eb = esc.as_bytes(); let rd2 = || Chunked { data: eb, pos: 0, sizes: sizes.clone(), k: 0 };
                          chk("escaped keys: decode", show(sourcemap::decode(rd2())) == show(sourcemap::decode_slice(eb)) && show(sourcemap::decode_slice(eb)) == show(sourcemap::decode_slice(&bytes)));
                          chk("escaped keys: typed constructors", sourcemap::SourceMap::from_reader(rd2()).is_ok() == sourcemap::SourceMap::from_slice(eb).is_ok() && sourcemap::SourceMapIndex::from_reader(rd2()).is_ok() == sourcemap::SourceMapIndex::from_slice(eb).is_ok()
                              && sourcemap::SourceMapHermes::from_reader(rd2()).is_ok() == sourcemap::SourceMapHermes::from_slice(eb).is_ok() && sourcemap::SourceMapIndex::from_slice(eb).is_ok() == matches!(dm, sourcemap::DecodedMap::Index(_))
                              && sourcemap::is_sourcemap(rd2()) == sourcemap::is_sourcemap_slice(eb)); }
                    }
                }
                "builder" => {  // C13: add_token / has_source_contents / get_source / get_source_contents on the builder
                    let sm = gen_map(r, false); descr = map_in(&sm);
                    let with_name = r.below(2) == 0;
                    let mut b1 = sourcemap::SourceMapBuilder::new(None); let mut b2 = sourcemap::SourceMapBuilder::new(None); let mut same_raw = true;
                    for t in sm.tokens() { let x = b1.add_token(&t, with_name); let y = b2.add(t.get_dst_line(), t.get_dst_col(), t.get_src_line(), t.get_src_col(), t.get_source(), if with_name { t.get_name() } else { None }, t.is_range()); if x != y { same_raw = false; } }
                    // tokens of a second map go into the same builders: ids of the donor maps mean nothing to the builder, names do
                    let sm_b = gen_map(r, false);
                    for t in sm_b.tokens() { let x = b1.add_token(&t, with_name); let y = b2.add(t.get_dst_line(), t.get_dst_col(), t.get_src_line(), t.get_src_col(), t.get_source(), if with_name { t.get_name() } else { None }, t.is_range()); if x != y { same_raw = false; } }
                    chk("add_token = add", same_raw && map_obs(&b1.into_sourcemap()) == map_obs(&b2.into_sourcemap()));
                    let mut b = sourcemap::SourceMapBuilder::new(None); let a = b.add_source("a.js"); let c = b.add_source("c.js");
                    chk("has_source_contents fresh", !b.has_source_contents(a) && !b.has_source_contents(c) && b.get_source_contents(a).is_none());
                    b.set_source_contents(c, Some("text")); chk("has_source_contents set", b.has_source_contents(c) && !b.has_source_contents(a) && b.get_source_contents(c) == Some("text") && b.get_source(c) == Some("c.js") && b.get_source(7).is_none());
                    b.set_source_contents(c, None); chk("has_source_contents cleared", !b.has_source_contents(c));
                    b.set_source(a, "z.js"); chk("builder set_source", b.get_source(a) == Some("z.js"));
                    b.set_file(Some("o.js")); b.set_source_root(Some("r")); chk("builder getters", b.get_file() == Some("o.js") && b.get_source_root() == Some("r"));
                }
                "view" => {     // C15: from_string, source(), lines through both constructors
                    let al = ['a', '\u{e9}', '\u{1F44C}', '\n', '\r', 'b']; let len = r.below(12); let text: String = (0..len).map(|_| al[r.below(6) as usize]).collect(); descr = hex(text.as_bytes());
                    let a = sourcemap::SourceView::new(text.clone().into()); let b = sourcemap::SourceView::from_string(text.clone());
                    chk("from_string", a.source() == b.source() && a.source() == text && a.line_count() == b.line_count() && a.lines().collect::<Vec<_>>() == b.lines().collect::<Vec<_>>());
                    chk("lines = get_line", a.lines().enumerate().all(|(k, l)| a.get_line(k as u32) == Some(l)) && a.get_line(a.line_count() as u32).is_none() && a.lines().count() == a.line_count());
                    // the lines iterator through the std adaptors, also after it has advanced
                    { let all: Vec<&str> = a.lines().collect(); let n = all.len();
                      chk("lines iterator adaptors", (0..3usize).all(|k| a.lines().nth(k) == all.get(k).copied() && a.lines().skip(k).count() == n.saturating_sub(k) && a.lines().skip(k).collect::<Vec<_>>() == all.iter().skip(k).copied().collect::<Vec<_>>())
                          && { let mut it = a.lines(); let first = it.next(); first == all.first().copied() && it.count() == n.saturating_sub(1) } && a.lines().last() == all.last().copied() && a.lines().step_by(2).collect::<Vec<_>>() == all.iter().step_by(2).copied().collect::<Vec<_>>()
                          && { let mut it = a.lines(); while it.next().is_some() {} it.count() == 0 }); }
                    chk("slice of whole line", (0..a.line_count() as u32).all(|k| { let l = a.get_line(k).unwrap(); let n = l.encode_utf16().count() as u32; a.get_line_slice(k, 0, n) == Some(l) && a.get_line_slice(k, 0, n + 1).is_none() && a.get_line_slice(k, n, 0) == Some("") }));
                }
                _ => {          // "ram" (C20): parse_indexed_from_vec, module accessors
                    use sourcemap::ram_bundle::*;
                    let le = |x: u32| x.to_le_bytes(); let startup = b"SS".to_vec(); let mods: Vec<Option<Vec<u8>>> = (0..r.below(4)).map(|_| if r.below(3) == 0 { None } else { Some((0..r.below(4)).map(|_| [b'a', 0xfe, b'\n', 0][r.below(4) as usize]).collect()) }).collect();
                    let mut v = vec![]; v.extend(le(0xFB0BD1E5)); v.extend(le(mods.len() as u32)); v.extend(le(2)); let mut off = 2u32; let mut data = vec![];
                    for m in &mods { match m { None => { v.extend(le(0)); v.extend(le(0)); } Some(d) => { v.extend(le(off)); v.extend(le(d.len() as u32 + 1)); data.extend(d); data.push(0); off += d.len() as u32 + 1; } } }
                    v.extend(&startup); v.extend(&data); if r.below(4) == 0 { let k = r.below(v.len() as u64 + 1) as usize; v.truncate(k); }
                    descr = hex(&v);
                    let a = RamBundle::parse_indexed_from_slice(&v); let b = RamBundle::parse_indexed_from_vec(v.clone());
                    chk("from_vec = from_slice", a.is_ok() == b.is_ok());
                    if let (Ok(a), Ok(b)) = (a, b) {
                        chk("same answers", a.module_count() == b.module_count() && a.startup_code().ok() == b.startup_code().ok() && (0..6).all(|k| a.get_module(k).map(|m| m.map(|x| x.data().to_vec())).ok() == b.get_module(k).map(|m| m.map(|x| x.data().to_vec())).ok()));
                        chk("bundle_type", a.bundle_type() == RamBundleType::Indexed);
                        // the iterator through the std adaptors (nth, skip, step_by, last, count): the k-th item is the k-th item
                        { let show = |x: sourcemap::Result<sourcemap::ram_bundle::RamBundleModule>| match x { Ok(m) => format!("{}={}", m.id(), hex(m.data())), Err(_) => "err".to_string() };
                          let all: Vec<String> = a.iter_modules().take(12).map(show).collect();
                          chk("iterator adaptors", (0..4usize).all(|k| a.iter_modules().nth(k).map(show) == all.get(k).cloned() && a.iter_modules().skip(k).take(3).map(show).collect::<Vec<_>>() == all.iter().skip(k).take(3).cloned().collect::<Vec<_>>())
                              && a.iter_modules().take(12).step_by(2).map(show).collect::<Vec<_>>() == all.iter().step_by(2).cloned().collect::<Vec<_>>()
                              && { let mut it = a.iter_modules(); let first = it.next().map(show); let second = it.nth(1).map(show); first == all.first().cloned() && second == all.get(2).cloned() }); }
                        chk("module id/source_view", a.iter_modules().take(8).all(|m| match m { Ok(m) => a.get_module(m.id()).ok().flatten().map(|x| x.data() == m.data()).unwrap_or(false) && match std::str::from_utf8(m.data()) { Ok(t) => m.source_view().map(|sv| sv.source() == t).unwrap_or(false), Err(_) => m.source_view().is_err() }, Err(_) => true }));
                    }
                }
            }
            (failed, descr)
        }));
        match res { Ok((f, d)) => { failed = f; descr = d; } Err(_) => failed.push("panic".into()) }
        outln!("a{}\tapi\t{}\t{}\t{}", i, group, failed.join(","), descr.chars().take(600).collect::<String>());
    }
}

// ---- C04: tokens are ordered whatever the construction order ----
fn run_order(r: &mut Rng, n: u64) {
    for i in 0..n {
        let mut toks = gen_toks(r, 2, 2, if i % 7 == 0 { 60 } else { 9 }, false);      // construction order: unsorted
        // the far corners of the key space next to each other: the last column of a line and the first column of the next line, the last line
        if i % 4 == 0 { let l = r.below(3) as u32; let mk = |dl: u32, dc: u32, sl: u32| Tok { dl, dc, sl, sc: 0, src: 0, name: !0, range: false };
            let extra = [mk(l + 1, 0, 1), mk(l, u32::MAX, 2), mk(l, u32::MAX - 1, 3), mk(u32::MAX, 0, 4), mk(u32::MAX, u32::MAX, 5), mk(l + 1, 1, 6)];
            for k in 0..(2 + r.below(5)) { let e = extra[((k + i) % 6) as usize]; let at = r.below(toks.len() as u64 + 1) as usize; toks.insert(at, e); } }
        let raw: Vec<sourcemap::RawToken> = toks.iter().map(|t| sourcemap::RawToken { dst_line: t.dl, dst_col: t.dc, src_line: t.sl, src_col: t.sc, src_id: t.src, name_id: t.name, is_range: t.range }).collect();
        let out = match catch_unwind(AssertUnwindSafe(|| { let sm = sourcemap::SourceMap::new(None, raw, vec!["n0".into(), "n1".into()], vec!["a".into(), "b".into()], None);
            let via_new: Vec<Tok> = sm.tokens().map(|t| raw_of(&t)).collect();
            // get_token(i) agrees with the i-th iterated token, get_token(count) is None, the count is the number iterated
            let by_index: Vec<Tok> = (0..sm.get_token_count() as usize).map(|k| raw_of(&sm.get_token(k).unwrap())).collect();
            assert!(by_index == via_new && sm.get_token(via_new.len()).is_none() && sm.tokens().enumerate().all(|(k, t)| t.get_raw_token() == sm.get_token(k).unwrap().get_raw_token()), "get_token disagrees with iteration");
            let via_builder: Vec<Tok> = build_map(2, 2, &toks).tokens().map(|t| raw_of(&t)).collect();
            (via_new, via_builder) })) { Ok((a, b)) => format!("{}\t{}", toks_str(&a), toks_str(&b)), Err(_) => "panic\tpanic".into() };
        outln!("o{}\torder\t{}\t{}", i, toks_str(&toks), out);
    }
}
// ---- C13: builder histories: interning, returned ids, finished map ----
fn run_builder(r: &mut Rng, n: u64) {
    let spool = ["a.js", "b.js", "", "a.js", "/abs/c.js", "https:g.js", "http://h/i.js", "root/a.js", "root/root/b.js", "./a.js", "root"]; let npool = ["x", "y", "", "x"];
    for i in 0..n {
        let file0 = if r.below(2) == 0 { Some("out.js") } else { None };
        let mut b = sourcemap::SourceMapBuilder::new(file0);
        let mut ops = vec![format!("F{}", opt_hex(file0))]; let mut rets = vec!["-".to_string()]; let mut nsrc = 0u32;
        // every other history hands its strings over in one reused buffer each (a caller that formats paths into a scratch String): what counts is
        // the text, not where it lives -- two different names of equal length at the same address are two names
        let reuse = i % 2 == 1; let mut sbuf = String::with_capacity(64); let mut nbuf = String::with_capacity(64);
        for _ in 0..r.below(14) {
            match r.below(11) {
                0 => { let s = spool[r.below(spool.len() as u64) as usize]; ops.push(format!("S={}", hex(s.as_bytes()))); let id = if reuse { sbuf.clear(); sbuf.push_str(s); b.add_source(&sbuf) } else { b.add_source(s) }; nsrc = nsrc.max(id + 1); rets.push(id.to_string()); }
                1 => { let s = npool[r.below(npool.len() as u64) as usize]; ops.push(format!("N={}", hex(s.as_bytes()))); rets.push(if reuse { nbuf.clear(); nbuf.push_str(s); b.add_name(&nbuf) } else { b.add_name(s) }.to_string()); }
                2 => { let rt = ["", "root", "root/"][r.below(3) as usize]; ops.push(format!("R={}", hex(rt.as_bytes()))); b.set_source_root(Some(rt)); rets.push("-".into()); }
                3 if nsrc > 0 => { let k = r.below(nsrc as u64) as u32; let c = match r.below(3) { 0 => None, 1 => Some(""), _ => Some("body") }; ops.push(format!("C{}:{}", k, opt_hex(c))); b.set_source_contents(k, c); rets.push("-".into()); }
                4 => { let k = r.below(nsrc as u64 + 3) as u32; ops.push(format!("I{}", k)); b.add_to_ignore_list(k); rets.push("-".into()); }   // also ids whose source is added later (or never)
                5 => { let f = [None, Some("x.js"), Some("")][r.below(3) as usize]; ops.push(format!("F{}", opt_hex(f))); b.set_file(f); rets.push("-".into()); }
                6 => { let d = if r.below(3) == 0 { None } else { Some(if r.below(3) == 0 { 11 + r.below(3) } else { r.below(4) }) }; ops.push(format!("D{}", d.map(|k| k.to_string()).unwrap_or("-".into())));
                       // ids 0..3 are plain UUIDs (0 = the nil id), 11..13 carry the appendix "-2a": the appendix is part of the id
                       b.set_debug_id(d.map(|k| format!("00000000-0000-0000-0000-0000000000{:02x}{}", k, if k > 10 { "-2a" } else { "" }).parse().unwrap())); rets.push("-".into()); }
                _ => { let so = if r.below(5) == 0 { None } else { Some(spool[r.below(spool.len() as u64) as usize]) }; let na = if r.below(3) == 0 { Some(npool[r.below(npool.len() as u64) as usize]) } else { None };
                       let (dl, dc, sl, sc) = (r.below(3) as u32, r.below(6) as u32, r.below(5) as u32, r.below(5) as u32); let rg = r.below(6) == 0;
                       ops.push(format!("A{}:{}:{}:{}:{}:{}:{}", dl, dc, sl, sc, so.map(|s| format!("={}", hex(s.as_bytes()))).unwrap_or("-".into()), na.map(|s| format!("={}", hex(s.as_bytes()))).unwrap_or("-".into()), if rg { 1 } else { 0 }));
                       let t = if reuse { sbuf.clear(); sbuf.push_str(so.unwrap_or("")); nbuf.clear(); nbuf.push_str(na.unwrap_or("")); b.add(dl, dc, sl, sc, so.map(|_| sbuf.as_str()), na.map(|_| nbuf.as_str()), rg) } else { b.add(dl, dc, sl, sc, so, na, rg) };
                       if t.src_id != !0 { nsrc = nsrc.max(t.src_id + 1); } rets.push(format!("{}/{}", t.src_id, t.name_id)); }
            }
        }
        let sm = b.into_sourcemap();
        // what the finished map reports, by strings: root, debug id, and every token as a resolved view (sorted: finishing sorts by position)
        let mut views: Vec<String> = sm.tokens().map(|t| view_of(&t)).collect(); views.sort();
        outln!("b{}\tbuilder\t{}\t{}\t{}\t{}\t{}\t{}", i, ops.join(";"), rets.join(","), opt_hex(sm.get_source_root()), sm.get_debug_id().map(|d| d.to_string()).unwrap_or("-".into()), views.join(";"), map_obs(&sm));
    }
}

/// a case that neither returns nor panics within the budget is a hang: say which case, then exit(3)
fn start_watchdog(budget_ms: u64) {
    std::thread::spawn(move || { let mut last = 0u64; let mut since = std::time::Instant::now();
        loop { std::thread::sleep(std::time::Duration::from_millis(200)); let p = PROGRESS.load(std::sync::atomic::Ordering::Relaxed);
            if p != last { last = p; since = std::time::Instant::now(); } else if since.elapsed().as_millis() as u64 > budget_ms { eprintln!("HANG: no case finished for {} ms after {} cases", budget_ms, p); std::process::exit(3); } } });
}
fn main() {
    std::panic::set_hook(Box::new(|_| {}));
    start_watchdog(std::env::var("CASE_BUDGET_MS").ok().and_then(|x| x.parse().ok()).unwrap_or(60_000));   // generous: a loaded machine must not look like a hang
    let args: Vec<String> = std::env::args().collect();
    let prop = args.get(1).map(|s| s.as_str()).unwrap_or("C11");
    let seed: u64 = args.get(2).and_then(|s| s.parse().ok()).unwrap_or(1);
    let n: u64 = args.get(3).and_then(|s| s.parse().ok()).unwrap_or(1000);
    let mut r = Rng(seed);
    match prop {
        "vlq" => run_c11(&mut r, n),
        "vlq_sweep" => run_vlq_sweep(&mut r, n),
        "codec" => run_codec(&mut r, n, false),
        "codec_ranges" => run_codec(&mut r, n, true),
        "keys" => run_keys(&mut r, n),
        "api_tokens" => run_api(&mut r, n, "tokens"),
        "api_rewrite" => run_api(&mut r, n, "rewrite"),
        "api_history" => run_api(&mut r, n, "history"),
        "api_reader" => run_api(&mut r, n, "reader"),
        "api_builder" => run_api(&mut r, n, "builder"),
        "api_view" => run_api(&mut r, n, "view"),
        "api_ram" => run_api(&mut r, n, "ram"),
        "api_index" => run_api(&mut r, n, "index"),
        "api_ref" => run_api(&mut r, n, "ref"),
        "roundtrip" => run_roundtrip(&mut r, n),
        "lookup" => run_lookup(&mut r, n),
        "order" => run_order(&mut r, n),
        "rel" => run_rel(&mut r, n),
        "lines" => run_lines(&mut r, n),
        "slices" => run_slices(&mut r, n),
        "slicehist" => run_slicehist(&mut r, n),
        "adjust" => run_adjust(&mut r, n),
        "rewrite" => run_rewrite(&mut r, n),
        "index" => run_index(&mut r, n),
        "crash" => run_crash(&mut r, n),
        "hermes" => run_hermes(&mut r, n),
        "decode" => run_decode(&mut r, n, false),
        "dispatch" => run_dispatch(&mut r, n),
        "decode_faults" => run_decode(&mut r, n, true),
        "fname" => run_fname(&mut r, n),
        "fname_any" => run_fname_gen(&mut r, n, true),
        "setters" => run_setters(&mut r, n),
        "builder" => run_builder(&mut r, n),
        "ram" => run_ram(&mut r, n),
        "locate" => run_locate(&mut r, n),
        "dataurl" => run_dataurl(&mut r, n),
        "hdr" => run_hdr(&mut r, n),
        _ => { eprintln!("unknown stream {}", prop); std::process::exit(2) }
    }
}
