#!/usr/bin/env python3
"""Writes MANIFEST.json from lib/props.py and levels.json (so that the two cannot drift apart)."""
import json, os, subprocess, sys
ROOT = os.path.dirname(os.path.abspath(__file__)); sys.path.insert(0, os.path.join(ROOT, "lib"))
from props import PROPS
LEVELS = json.load(open(os.path.join(ROOT, "lib", "levels.json")))
hooks = subprocess.run("git -C /repo log --format=%H --grep='^verif hooks:'", shell=True, capture_output=True, text=True).stdout.split()
m = {"version": 1,
     "setup_cmd": "./check --setup",
     "hooks": {"guard": "sourcemap_verif", "enable": "RUSTFLAGS=\"--cfg sourcemap_verif\" (set by ./check when it builds harness/ against /repo)",
               "baseline_off_cmd": "cd /repo && cargo test --workspace --no-fail-fast --offline", "source_commits": hooks[::-1], "add_only": True},
     "engines": [{"name": "coq", "path": "coq/", "serves_properties": sorted(PROPS), "kind_free_text": "Coq 8.16.1 development: Model/ (executable Gallina model of the crate), Spec/ (independent declarative specs), Proofs/, Properties/Cxx.v (one file of theorems per property, each closed by Print Assumptions)"},
                 {"name": "translators", "path": "gen/", "serves_properties": ["C01", "C02", "C03", "C06", "C11", "C12", "C17", "C18", "C20"], "kind_free_text": "regenerate Model/Gen_B64.v, Gen_Consts.v, Gen_Schema.v from /repo/src on every run; theorems are re-checked against them"},
                 {"name": "correspondence", "path": "harness/ + ocaml/", "serves_properties": sorted(PROPS), "kind_free_text": "Rust harness linked against /repo's working tree (hooks on) + model extracted to OCaml (ExtrOcamlBasic): same generated inputs / op histories / schedules through both, differences reported; extracted Spec predicates act as property oracles on the crate's observations"}],
     "checks": [], "not_applicable": [],
     "notes": "All properties are decided by the same pipeline (./check <ID>): regenerated fragments -> Coq proof obligations of Properties/<ID>.v (full .vo build, Print Assumptions audit, source audit) -> extraction -> correspondence + oracle on corpus and generated cases. A broken obligation or correspondence triggers a wider search for a failing input; none found => VIOLATION ... no-failing-input-found. known_findings.json lists the open findings (C10, C15) and the 17 fixed ones."}
for pid in sorted(PROPS):
    lv = LEVELS[pid]
    m["checks"].append({"property_id": pid, "quick_cmd": "./check %s --tier quick" % pid, "thorough_cmd": "./check %s --tier thorough" % pid,
                        "evidence_file": "evidence/%s.json" % pid, "replay_cmd_template": "./check %s --replay {path}" % pid, "engine": "coq",
                        "level_claimed": {"category": "proof", "text": lv["text"], "design_ref": lv.get("design_ref", "DESIGN.md section 6, " + pid)},
                        "level_note": lv["note"], "technique": lv["technique"]})
json.dump(m, open(os.path.join(ROOT, "MANIFEST.json"), "w"), indent=1)
print("MANIFEST.json written:", len(m["checks"]), "checks")
