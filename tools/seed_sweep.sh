#!/bin/bash
# seed_sweep.sh <first> <last> [tier]: run every check with several seeds on the current /repo (false-alarm hunt). Prints VIOLATION lines only.
./check --setup >/dev/null 2>&1
for s in $(seq $1 $2); do for p in C01 C02 C03 C04 C05 C06 C07 C08 C09 C10 C11 C12 C13 C14 C15 C16 C17 C18 C19 C20; do
  out=$(VERIF_SEED=$s ./check $p --tier ${3:-quick} 2>&1); rc=$?
  echo "seed=$s $p exit=$rc $(echo "$out" | grep -E 'VIOLATION' | head -1) $(echo "$out" | grep -o 'wall=.*')"
  if [ $rc != 0 ]; then f=$(echo "$out" | grep -o 'replay=[^ ]*' | head -1 | cut -d= -f2); [ -f "$f" ] && head -c 1500 "$f"; fi
done; done
