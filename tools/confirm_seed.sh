#!/bin/bash
# confirm_seed.sh <PROP> <mutN> : independently confirm a seeded change in the scratch worktree /tmp/wt/<PROP>
# (suite green with the change, demo fails with it and passes without), then store it under /verif/seeded/<PROP>-<mutN>/
set -u
P=$1; M=$2; WT=${WTROOT:-/tmp/wt}/$P; SRC=${OUTROOT:-/tmp/wtout}/$P/$M; OUT=/verif/seeded/$P-${TAG:-}$M
export CARGO_NET_OFFLINE=true
cd $WT || exit 2
git checkout -q -- . ; rm -f tests/demo_mut.rs
FEAT=""; grep -q ram_bundle $SRC/demo.rs && FEAT="--features ram_bundle"
git apply $SRC/patch.diff || { echo "$P $M: patch does not apply"; exit 1; }
suite=$(cargo test --offline 2>&1 | grep -E "^test result" | awk '{p+=$4; f+=$6} END {print p" passed "f" failed"}')
cp $SRC/demo.rs tests/demo_mut.rs
with=$(cargo test --offline $FEAT --test demo_mut 2>&1 | grep -E "^test result" | tail -1)
git checkout -q -- . 
without=$(cargo test --offline $FEAT --test demo_mut 2>&1 | grep -E "^test result" | tail -1)
rm -f tests/demo_mut.rs
ok=1
echo "$suite" | grep -q " 0 failed" || ok=0
echo "$with" | grep -q "FAILED" || ok=0
echo "$without" | grep -q "test result: ok" || ok=0
echo "$P $M: suite=[$suite] with=[$with] without=[$without] confirmed=$ok"
if [ $ok = 1 ]; then
  mkdir -p $OUT; cp $SRC/patch.diff $SRC/demo.rs $OUT/
  python3 - "$SRC/meta.json" "$OUT/meta.json" "$suite" "$with" "$without" <<'PY'
import json,sys
m=json.load(open(sys.argv[1]))
m["confirmed_by_me"]={"suite_with_change":sys.argv[3],"demo_with_change":sys.argv[4],"demo_without_change":sys.argv[5],
  "how":"tools/confirm_seed.sh in a scratch worktree of /repo (git apply; cargo test --offline; cargo test --test demo_mut; git checkout; cargo test --test demo_mut)"}
json.dump(m,open(sys.argv[2],"w"),indent=1)
PY
fi
