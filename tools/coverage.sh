#!/bin/bash
# coverage.sh: which lines and branches of /repo/src do the harness streams execute?  (a generator-quality measurement, not a check)
# Builds the harness with the nightly toolchain and -C instrument-coverage into a scratch target directory, runs every stream of
# lib/props.py at its quick size plus 2 s of stress, and prints llvm-cov's per-file report followed by the lines never executed.
set -e
B=$(dirname "$(rustup which --toolchain nightly rustc)")/../lib/rustlib/x86_64-unknown-linux-gnu/bin
T=${COV_TARGET:-/tmp/covtarget}; R=${COV_RAW:-/tmp/covraw}; rm -rf "$R"; mkdir -p "$R"
(cd /verif/harness && CARGO_TARGET_DIR=$T CARGO_NET_OFFLINE=true RUSTFLAGS="-C instrument-coverage -Z coverage-options=branch --cfg sourcemap_verif" cargo +nightly build --offline 2>&1 | tail -1)
python3 - "$T" "$R" <<'PY'
import sys, subprocess, os
sys.path.insert(0, '/verif/lib')
from props import PROPS
T, R = sys.argv[1], sys.argv[2]; streams = {}
for sp in PROPS.values():
    for st in sp.get('streams', []): streams[st[0]] = max(streams.get(st[0], 0), st[1])
for name, n in sorted(streams.items()):
    if name == 'vlq_sweep': continue
    subprocess.run([T + '/debug/smverif', name, '1', str(n)], capture_output=True, env=dict(os.environ, LLVM_PROFILE_FILE='%s/%s.profraw' % (R, name)), timeout=900)
PY
LLVM_PROFILE_FILE=$R/stress.profraw $T/debug/smconc stress 1 2000 >/dev/null
$B/llvm-profdata merge -sparse $R/*.profraw -o $R/all.profdata
$B/llvm-cov report $T/debug/smverif -object $T/debug/smconc -instr-profile=$R/all.profdata /repo/src/*.rs
for f in /repo/src/*.rs; do echo "== never executed in $(basename $f)"; $B/llvm-cov show $T/debug/smverif -object $T/debug/smconc -instr-profile=$R/all.profdata $f --show-line-counts 2>/dev/null | grep -E '^ +[0-9]+\| +0\|' | cut -c1-140; done
rm -rf "$T" "$R"; rm -f /repo/default_*.profraw /verif/harness/default_*.profraw   # build scripts of instrumented dependencies leave these behind
