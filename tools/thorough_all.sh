#!/bin/bash
# thorough_all.sh: every check in the thorough tier, once (run it through `vp run`; it reads /repo, do not change /repo meanwhile)
./check --setup >/dev/null 2>&1
for p in C01 C02 C03 C04 C05 C06 C07 C08 C09 C10 C11 C12 C13 C14 C15 C16 C17 C18 C19 C20; do
  s=$(date +%s); out=$(./check $p --tier thorough 2>&1); rc=$?
  echo "$p exit=$rc $(( $(date +%s) - s ))s $(echo "$out" | grep -E 'VIOLATION' | head -1) $(echo "$out" | grep -o 'obligations=.*')"
done
