#!/bin/bash
# try_mutation.sh <patch.diff> <PROP> [<PROP>...]
# Applies a seeded change to /repo's working tree, runs the given checks, and restores /repo (always).
set -u
PATCH=$(readlink -f "$1"); shift
cd /repo || exit 2
if ! git diff --quiet; then echo "/repo has uncommitted changes; refusing"; exit 2; fi
trap 'git -C /repo checkout -- . ; git -C /repo clean -fdq -- src tests' EXIT
git apply "$PATCH" || { echo "patch does not apply"; exit 2; }
cd /verif
export VERIF_EVIDENCE_DIR=/verif/build/evidence_scratch   # committed evidence must come from the unchanged tree only
for p in "$@"; do
  out=$(VERIF_SEED=${VERIF_SEED:-1} ./check "$p" --tier ${TIER:-quick} 2>&1); rc=$?
  echo "== $p exit=$rc"; echo "$out" | grep -E "VIOLATION|KNOWN-FINDING|\[check" | cut -c1-400
  f=$(echo "$out" | grep -o 'replay=[^ ]*' | head -1 | cut -d= -f2)
  if [ -n "$f" ] && [ -f "$f" ]; then python3 - "$f" <<'PY'
import json,sys
d=json.load(open(sys.argv[1]))
for k in ("stream","case","verdict","config","impl","no_longer_checks"):
    if k in d: print("   %s: %s" % (k, json.dumps(d[k])[:600]))
PY
  fi
done
