#!/usr/bin/env python3
"""seed_matrix.py [ids...]: for every seeded change under /verif/seeded, apply it to /repo, run the anchored property's quick check,
record what was reported, restore /repo. Writes seeded/RESULTS.json and a 'detection' entry into each meta.json."""
import json, os, re, subprocess, sys, glob
ROOT = "/verif"; out = {}
assert subprocess.run("git -C /repo diff --quiet", shell=True).returncode == 0, "/repo has uncommitted changes"
ids = sys.argv[1:] or sorted(os.path.basename(d) for d in glob.glob(ROOT + "/seeded/C*-*mut*"))
for sid in ids:
    d = os.path.join(ROOT, "seeded", sid); prop = sid.split("-")[0]
    try:
        if subprocess.run(["git", "-C", "/repo", "apply", os.path.join(d, "patch.diff")]).returncode != 0:
            out[sid] = {"error": "patch does not apply"}; continue
        r = subprocess.run([os.path.join(ROOT, "check"), prop], cwd=ROOT, capture_output=True, text=True, env=dict(os.environ, VERIF_SEED="1", VERIF_EVIDENCE_DIR=os.path.join(ROOT, "build", "evidence_scratch")))
        txt = r.stdout + r.stderr
        v = re.search(r"VIOLATION property=(\S+) replay=(\S+)( no-failing-input-found)?", txt)
        det = {"check": "./check %s (quick, seed 1)" % prop, "exit": r.returncode, "reported": bool(v), "with_failing_input": bool(v and not v.group(3))}
        if v and os.path.exists(v.group(2)):
            rp = json.load(open(v.group(2)))
            det["stream"] = rp.get("stream"); det["case"] = (rp.get("case") or json.dumps(rp.get("config", "")))[:300]; det["verdict"] = (rp.get("verdict") or json.dumps(rp.get("impl", "")))[:300]
        m = re.search(r"corr_diff=(\d+) prop_fail=(\d+) broken=(\d+)", txt)
        if m: det["corr_diff"], det["prop_fail"], det["broken"] = map(int, m.groups())
        out[sid] = det
        mp = os.path.join(d, "meta.json"); meta = json.load(open(mp)); meta["detection"] = det; json.dump(meta, open(mp, "w"), indent=1)
        print(sid, det["exit"], "input" if det["with_failing_input"] else ("no-input" if det["reported"] else "MISSED"), det.get("stream"), flush=True)
    finally:
        subprocess.run("git -C /repo checkout -- . && git -C /repo clean -fdq -- src tests", shell=True)
json.dump(out, open(os.path.join(ROOT, "seeded", "RESULTS.json"), "w"), indent=1)
print("missed:", [k for k, v in out.items() if not v.get("reported")], "no-input:", [k for k, v in out.items() if v.get("reported") and not v.get("with_failing_input")])
