#!/bin/bash
# refactor_matrix.sh <dir with <group>/ref<k>/patch.diff>: applies each behaviour-preserving refactoring to /repo in turn and runs the
# checks of the properties anchored in the files it touches; every check must stay exit 0 (false-alarm measurement). /repo is restored.
ROOT=${1:-/tmp/wtout4}
declare -A CHECKS=(
 [decoder]="C01 C02 C05 C06 C07 C12 C14 C18"
 [encoder]="C01 C03 C04 C05 C07 C08 C09 C13"
 [types]="C01 C04 C07 C08 C09 C10 C13 C18"
 [sourceview]="C05 C15 C16 C17"
 [vlq_utils]="C01 C04 C06 C09 C11 C19 C20"
 [detector_hermes]="C05 C09 C12 C14 C18"
)
for g in "${!CHECKS[@]}"; do for k in 1 2 3 4; do
  p=$ROOT/$g/ref$k/patch.diff; [ -f "$p" ] || continue
  echo "#### $g ref$k"
  /verif/tools/try_mutation.sh "$p" ${CHECKS[$g]} 2>&1 | grep -E '^== |VIOLATION|patch does not' 
done; done
