#!/usr/bin/env python3
"""record.py <PROP> <slug>: copy the newest replay of PROP to findings/<PROP>-<slug>.json (evidence that the machinery found it before the fix)"""
import sys, glob, os, shutil, json
prop, slug = sys.argv[1], sys.argv[2]
f = max(glob.glob('/verif/replays/%s-*.json' % prop), key=os.path.getmtime)
dst = '/verif/findings/%s-%s.json' % (prop, slug); shutil.copy(f, dst)
d = json.load(open(dst)); print(dst); print(' case   :', d.get('case', '')[:300]); print(' verdict:', d.get('verdict', '')[:300])
