#!/usr/bin/env python3
"""Translate the two base64 tables of /repo/src/vlq.rs into Coq (Model/Gen_B64.v)."""
import re, sys
src = open(sys.argv[1]).read()
m = re.search(r'const B64_CHARS: &\[u8\] = b"([^"\\]+)";', src)
chars = m.group(1)
m = re.search(r'const B64: \[i8; 256\] = \[(.*?)\];', src, re.S)
items = [x.strip() for x in m.group(1).split(',') if x.strip()]
vals = []
for it in items:
    if not re.fullmatch(r'[-+ 0-9]+', it):
        sys.exit("gen_b64: unsupported table entry %r" % it)
    vals.append(eval(it))          # constant integer expressions only, e.g. `-1 - 1`
if len(vals) != 256:
    sys.exit("gen_b64: expected 256 entries, found %d" % len(vals))
z = lambda v: ("(%d)" % v) if v < 0 else str(v)
out = "(* GENERATED from src/vlq.rs by gen/gen_b64.py -- do not edit *)\nFrom SM Require Import Model.Base.\n"
out += "Definition B64_CHARS : list Z := [" + "; ".join(str(ord(c)) for c in chars) + "].\n"
out += "Definition B64 : list Z := [" + "; ".join(z(v) for v in vals) + "].\n"
open(sys.argv[2], 'w').write(out)
