#!/usr/bin/env python3
"""Translate the two base64 tables of /repo/src/vlq.rs into Coq (Model/Gen_B64.v).
The tables are found as the constants B64_CHARS and B64, whatever their layout, comments, attributes or literal spelling
(constant integer expressions such as `-1 - 1`, hex, named constants); anything else is a lost anchor (exit 2)."""
import sys, os
sys.path.insert(0, os.path.dirname(os.path.abspath(__file__)))
from rustconst import File, Unsupported, split_args
def lost(what):
    sys.stderr.write("gen_b64: anchor not found: %s\n" % what); sys.exit(2)
try:
    f = File(open(sys.argv[1], encoding='utf-8').read())
    if 'B64_CHARS' not in f.consts: lost('B64_CHARS')
    chars = f.eval_bytes(f.consts['B64_CHARS'])
    if 'B64' not in f.consts: lost('B64')
    t = f.consts['B64']
    if not t or t[0][1] != '[' or t[-1][1] != ']': lost('B64 is not an array literal')
    inner = t[1:-1]
    # `[v; n]` repeat form is not a table
    if any(v == ';' for _, v in inner): lost('B64 is a repeat expression')
    vals = [f.eval_int(a) for a in split_args(inner)]
except Unsupported as e:
    lost('unsupported constant expression: %s' % e)
if len(vals) != 256:
    lost("expected 256 entries in B64, found %d" % len(vals))
z = lambda v: ("(%d)" % v) if v < 0 else str(v)
out = "(* GENERATED from src/vlq.rs by gen/gen_b64.py -- do not edit *)\nFrom SM Require Import Model.Base.\n"
out += "Definition B64_CHARS : list Z := [" + "; ".join(str(c) for c in chars) + "].\n"
out += "Definition B64 : list Z := [" + "; ".join(z(v) for v in vals) + "].\n"
open(sys.argv[2], 'w').write(out)
