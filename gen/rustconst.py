"""rustconst.py: a small reader for the constant fragments of Rust source the translators need.

It tokenises Rust source (comments dropped; string, byte-string, raw-string, char and byte literals kept whole), finds
`const` / `static` items and function bodies, and evaluates constant expressions built from literals, named constants of the
same file, `concat!(..)`, `NAME.len()`, `TYPE::MAX`, `as TYPE`, parentheses and the integer operators + - * << | & ! and unary -.
Anything else raises Unsupported: the translator then reports a lost anchor (the tie to the source is broken), never a guess."""
import re

class Unsupported(Exception):
    pass

_TOKEN = re.compile(r'''
    (?P<ws>\s+)
  | (?P<lc>//[^\n]*)
  | (?P<bc>/\*.*?\*/)
  | (?P<rawstr>b?r(?P<hashes>\#*)"(?:.|\n)*?"(?P=hashes))
  | (?P<str>b?"(?:\\.|[^"\\])*")
  | (?P<chr>b?'(?:\\(?:x[0-9a-fA-F]{2}|u\{[0-9a-fA-F_]+\}|.)|[^'\\])')
  | (?P<life>'[A-Za-z_][A-Za-z0-9_]*)
  | (?P<num>0x[0-9a-fA-F_]+(?:[iu](?:8|16|32|64|128|size))?|0b[01_]+(?:[iu](?:8|16|32|64|128|size))?|0o[0-7_]+(?:[iu](?:8|16|32|64|128|size))?|[0-9][0-9_]*(?:[iu](?:8|16|32|64|128|size))?)
  | (?P<id>[A-Za-z_][A-Za-z0-9_]*)
  | (?P<op><<|>>|::|\.\.=|\.\.|->|=>|==|!=|<=|>=|&&|\|\||[-+*/%&|^!~=<>.,;:#?@$(){}\[\]])
''', re.X | re.S)

def tokens(src):
    out, i = [], 0
    while i < len(src):
        m = _TOKEN.match(src, i)
        if not m:
            raise Unsupported("cannot tokenise at %r" % src[i:i + 20])
        k = m.lastgroup
        if k == 'hashes': k = 'rawstr'
        if k not in ('ws', 'lc', 'bc'):
            out.append((k, m.group(0)))
        i = m.end()
    return out

_ESC = {'n': 10, 'r': 13, 't': 9, '\\': 92, '0': 0, "'": 39, '"': 34}
def _unescape(body, is_bytes):
    """value of the inside of a (byte) string or char literal, as bytes (UTF-8 for str literals)"""
    out, i = bytearray(), 0
    while i < len(body):
        c = body[i]
        if c != '\\':
            out += c.encode('utf-8'); i += 1; continue
        e = body[i + 1]
        if e in _ESC: out.append(_ESC[e]); i += 2
        elif e == 'x': out.append(int(body[i + 2:i + 4], 16)); i += 4
        elif e == 'u':
            j = body.index('}', i); out += chr(int(body[i + 3:j].replace('_', ''), 16)).encode('utf-8'); i = j + 1
        elif e == '\n':                      # line continuation: skip the newline and leading white space
            i += 2
            while i < len(body) and body[i] in ' \t\r\n': i += 1
        else: raise Unsupported("escape \\%s" % e)
    return bytes(out)

def literal_value(kind, text):
    """('int', n) | ('bytes', b) -- str and byte-string literals both give their bytes"""
    if kind == 'num':
        t = re.sub(r'[iu](?:8|16|32|64|128|size)$', '', text).replace('_', '')
        return ('int', int(t, 0) if t[:2] in ('0x', '0b', '0o') else int(t))
    if kind == 'str':
        b = text.startswith('b'); body = text[2:-1] if b else text[1:-1]
        return ('bytes', _unescape(body, b))
    if kind == 'rawstr':
        m = re.match(r'b?r(#*)"(.*)"\1$', text, re.S)
        return ('bytes', m.group(2).encode('utf-8'))
    if kind == 'chr':
        b = text.startswith('b'); body = text[2:-1] if b else text[1:-1]
        v = _unescape(body, b)
        return ('int', v[0] if b else ord(v.decode('utf-8')))
    raise Unsupported("literal %s" % text)

_MAX = {'u8': 2**8 - 1, 'u16': 2**16 - 1, 'u32': 2**32 - 1, 'u64': 2**64 - 1, 'usize': 2**64 - 1,
        'i8': 2**7 - 1, 'i16': 2**15 - 1, 'i32': 2**31 - 1, 'i64': 2**63 - 1, 'isize': 2**63 - 1}

class File:
    def __init__(self, src):
        self.src = src
        self.toks = tokens(src)
        self.consts = {}          # name -> token list of the initialiser
        self._find_consts()

    def _find_consts(self):
        t = self.toks
        for i, (k, v) in enumerate(t):
            if k == 'id' and v in ('const', 'static') and i + 2 < len(t) and t[i + 1][0] == 'id' and t[i + 2][1] == ':' \
               and t[i + 1][1] not in ('fn', 'unsafe'):
                name = t[i + 1][1]
                j = i + 3; depth = 0
                while j < len(t) and not (t[j][1] == '=' and depth == 0):
                    if t[j][1] in '([{<': depth += 1
                    if t[j][1] in ')]}>': depth -= 1
                    if t[j][1] == ';' and depth <= 0: break
                    j += 1
                if j >= len(t) or t[j][1] != '=': continue
                e = j + 1; depth = 0
                while e < len(t) and not (t[e][1] == ';' and depth == 0):
                    if t[e][1] in '([{': depth += 1
                    if t[e][1] in ')]}': depth -= 1
                    e += 1
                self.consts[name] = t[j + 1:e]

    def fn_body(self, name):
        """token list of the body of the first `fn name`, braces excluded; None when absent"""
        t = self.toks
        for i, (k, v) in enumerate(t):
            if k == 'id' and v == 'fn' and i + 1 < len(t) and t[i + 1][1] == name:
                j = i + 2
                while j < len(t) and t[j][1] != '{':
                    if t[j][1] == ';': break
                    j += 1
                if j >= len(t) or t[j][1] != '{': continue
                depth = 0; e = j
                while e < len(t):
                    if t[e][1] == '{': depth += 1
                    if t[e][1] == '}':
                        depth -= 1
                        if depth == 0: return t[j + 1:e]
                    e += 1
        return None

    # ---- evaluation -------------------------------------------------------------------------------------------------
    def eval(self, toks, depth=0):
        if depth > 20: raise Unsupported("constant recursion")
        p = _Parser(self, toks, depth)
        v = p.expr()
        if p.i != len(toks): raise Unsupported("trailing tokens %r" % (toks[p.i:p.i + 3],))
        return v
    def const(self, name):
        if name not in self.consts: raise Unsupported("unknown constant %s" % name)
        return self.eval(self.consts[name], 1)
    def eval_int(self, toks):
        k, v = self.eval(toks)
        if k != 'int': raise Unsupported("not an integer")
        return v
    def eval_bytes(self, toks):
        k, v = self.eval(toks)
        if k != 'bytes': raise Unsupported("not a string")
        return v

class _Parser:
    def __init__(self, f, toks, depth): self.f, self.t, self.i, self.d = f, toks, 0, depth
    def peek(self): return self.t[self.i][1] if self.i < len(self.t) else None
    def take(self, v=None):
        if self.i >= len(self.t) or (v is not None and self.t[self.i][1] != v): raise Unsupported("expected %r at %r" % (v, self.t[self.i:self.i + 3]))
        self.i += 1; return self.t[self.i - 1]
    def expr(self): return self.bor()
    def _bin(self, sub, ops):
        a = sub()
        while self.peek() in ops:
            op = self.take()[1]; b = sub()
            if a[0] != 'int' or b[0] != 'int': raise Unsupported("operator on non-integers")
            x, y = a[1], b[1]
            a = ('int', {'+': x + y, '-': x - y, '*': x * y, '<<': x << y if op == '<<' else 0, '>>': x >> y if op == '>>' else 0, '|': x | y, '&': x & y, '^': x ^ y}[op])
        return a
    def bor(self): return self._bin(self.bxor, ('|',))
    def bxor(self): return self._bin(self.band, ('^',))
    def band(self): return self._bin(self.shift, ('&',))
    def shift(self): return self._bin(self.add, ('<<', '>>'))
    def add(self): return self._bin(self.mul, ('+', '-'))
    def mul(self): return self._bin(self.unary, ('*',))
    def unary(self):
        if self.peek() == '-':
            self.take(); k, v = self.unary()
            if k != 'int': raise Unsupported("minus on non-integer")
            return ('int', -v)
        if self.peek() == '&':            # a reference to a constant: &b"..", &NAME
            self.take(); return self.unary()
        return self.postfix(self.atom())
    def atom(self):
        if self.i >= len(self.t): raise Unsupported("empty expression")
        k, v = self.take()
        if k in ('num', 'str', 'rawstr', 'chr'): return literal_value(k, v)
        if v == '(':
            x = self.expr(); self.take(')'); return x
        if k == 'id' and v == 'concat' and self.peek() == '!':
            self.take('!'); close = {'(': ')', '[': ']', '{': '}'}[self.take()[1]]
            parts = []
            while self.peek() != close:
                kk, vv = self.expr()
                parts.append(vv if kk == 'bytes' else str(vv).encode())
                if self.peek() == ',': self.take()
            self.take(close); return ('bytes', b''.join(parts))
        if k == 'id' and v in _MAX and self.peek() == '::':
            self.take('::'); what = self.take()[1]
            if what == 'MAX': return ('int', _MAX[v])
            if what == 'MIN': return ('int', 0 if v.startswith('u') else -_MAX[v] - 1)
            raise Unsupported("%s::%s" % (v, what))
        if k == 'id':
            while self.peek() == '::':      # path to a constant: take the last segment
                self.take('::'); v = self.take()[1]
            return self.f.eval(self.f.consts[v], self.d + 1) if v in self.f.consts else self._unknown(v)
        raise Unsupported("token %r" % v)
    def _unknown(self, v): raise Unsupported("unknown name %s" % v)
    def postfix(self, x):
        while True:
            if self.peek() == '.' and self.i + 3 < len(self.t) + 1 and self.t[self.i + 1][1] in ('len',) and self.t[self.i + 2][1] == '(':
                self.take('.'); self.take('len'); self.take('('); self.take(')')
                if x[0] != 'bytes': raise Unsupported("len of non-string")
                x = ('int', len(x[1]))
            elif self.peek() == '.' and self.i + 1 < len(self.t) and self.t[self.i + 1][1] in ('as_bytes', 'as_str', 'to_owned', 'to_string'):
                self.take('.'); self.take(); self.take('('); self.take(')')
            elif self.peek() == 'as':
                self.take('as'); self.take()
            else: return x

# ---- helpers over token lists -----------------------------------------------------------------------------------------
def split_args(toks):
    """split a token list at top-level commas"""
    out, cur, depth = [], [], 0
    for k, v in toks:
        if v in '([{': depth += 1
        if v in ')]}': depth -= 1
        if v == ',' and depth == 0: out.append(cur); cur = []
        else: cur.append((k, v))
    if cur: out.append(cur)
    return out

def call_args(toks, name):
    """argument token lists of every call `name(..)` / `.name(..)` / `name!(..)` in toks, in order"""
    res = []
    for i, (k, v) in enumerate(toks):
        if k == 'id' and v == name:
            j = i + 1
            if j < len(toks) and toks[j][1] == '!': j += 1
            if j < len(toks) and toks[j][1] == '(':
                depth, e = 0, j
                while e < len(toks):
                    if toks[e][1] in '([{': depth += 1
                    if toks[e][1] in ')]}':
                        depth -= 1
                        if depth == 0: break
                    e += 1
                res.append(toks[j + 1:e])
    return res

def values_in(f, toks):
    """every literal or named-constant value mentioned in toks, in order: list of (kind, value)"""
    out = []
    i = 0
    while i < len(toks):
        k, v = toks[i]
        try:
            if k in ('num', 'str', 'rawstr', 'chr'): out.append(literal_value(k, v))
            elif k == 'id' and v in f.consts: out.append(f.const(v))
        except Unsupported:
            pass
        i += 1
    return out
