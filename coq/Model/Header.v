(* Model of the two XSSI junk-header strippers of src/decoder.rs. *)
From SM Require Import Model.Base.

Definition is_junk_json (b : Z) : bool := (b =? 41) || (b =? 93) || (b =? 125) || (b =? 39).   (* ) ] } ' *)

(* ---- strip_junk_header (slice) ---- *)
Fixpoint strip_loop (s : bytes) (need_newline : bool) : outcome bytes :=
  match s with
  | [] => Ok []                                            (* &slice[slice.len()..] *)
  | b :: s' =>
    if need_newline && negb (b =? 10) then Err EIo
    else if is_junk_json b then strip_loop s' need_newline
    else if b =? 13 then strip_loop s' true
    else if b =? 10 then Ok s                              (* &slice[idx..] keeps the newline *)
    else strip_loop s' need_newline
  end.
Definition strip_junk_header (s : bytes) : outcome bytes :=
  match s with
  | [] => Ok s
  | b :: _ => if is_junk_json b then strip_loop s false else Ok s
  end.

(* ---- StripHeaderReader ---- *)
Inductive hstate := Undecided | Junk | AwaitingNewline | PastHeader.

(* the `for (offset, &byte)` loop over one chunk obtained from the inner reader.
   Result: Ok (Some out, st) = `return Ok(n)` with the bytes handed to the caller;
           Ok (None, st)     = chunk consumed entirely, loop and read again. *)
Fixpoint scan_chunk (whole rest : bytes) (st : hstate) : outcome (option bytes * hstate) :=
  match rest with
  | [] => Ok (None, st)
  | b :: rest' =>
    match st with
    | Undecided =>
      if is_junk_json b then scan_chunk whole rest' Junk
      else Ok (Some whole, PastHeader)                      (* copies the whole chunk *)
    | Junk =>
      if b =? 13 then scan_chunk whole rest' AwaitingNewline
      else if b =? 10 then scan_chunk whole rest' PastHeader
      else scan_chunk whole rest' Junk
    | AwaitingNewline =>
      if b =? 10 then scan_chunk whole rest' PastHeader else Err EIo
    | PastHeader => Ok (Some rest, PastHeader)              (* local_buf[offset..read] *)
    end
  end.

(* One `read` call of the wrapper against the remaining chunk schedule of the inner reader.
   Returns the bytes delivered ([] = EOF), the new state and the remaining schedule. *)
Fixpoint reader_read (chunks : list bytes) (st : hstate) : outcome (bytes * hstate * list bytes) :=
  match st with
  | PastHeader =>
    match chunks with [] => Ok ([], st, []) | c :: cs => Ok (c, st, cs) end
  | _ =>
    match chunks with
    | [] => Ok ([], st, [])                                 (* inner read returned 0 *)
    | c :: cs =>
      do r <- scan_chunk c c st;
      match r with
      | (Some out, st') => Ok (out, st', cs)
      | (None, st') => reader_read cs st'
      end
    end
  end.

(* everything a consumer sees when it reads to EOF *)
Fixpoint reader_all (fuel : nat) (chunks : list bytes) (st : hstate) : outcome bytes :=
  match fuel with
  | O => Ok []
  | S f =>
    do r <- reader_read chunks st;
    let '(out, st', rest) := r in
    if is_nil out then Ok []
    else do more <- reader_all f rest st'; Ok (out ++ more)
  end.
Definition reader_run (chunks : list bytes) : outcome bytes :=
  reader_all (S (length chunks)) chunks Undecided.
