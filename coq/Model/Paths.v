(* Model of utils::make_relative_path (as repaired: ".." components joined with "/"). *)
From SM Require Import Model.Base.

Definition is_sep (b : Z) : bool := (b =? 47) || (b =? 92).          (* / \ *)
Fixpoint split_seps (s : bytes) (cur : bytes) : list bytes :=
  match s with
  | [] => [rev cur]
  | b :: s' => if is_sep b then rev cur :: split_seps s' [] else split_seps s' (b :: cur)
  end.
Definition components (s : bytes) : list bytes := filter (fun c => negb (is_nil c)) (split_seps s []).
Definition pop_last {A} (l : list A) : list A := removelast l.

(* find_common_prefix_of_sorted_vec on two sequences = length of the common prefix *)
Fixpoint common_prefix_len (a b : list bytes) : nat :=
  match a, b with
  | x :: a', y :: b' => if bytes_eqb x y then S (common_prefix_len a' b') else O
  | _, _ => O
  end.
Fixpoint join_with (sep : bytes) (l : list bytes) : bytes :=
  match l with
  | [] => []
  | [x] => x
  | x :: r => x ++ sep ++ join_with sep r
  end.
Definition make_relative_path (base target : bytes) : bytes :=
  let target_path := components target in
  let base_path := pop_last (components base) in
  let prefix := common_prefix_len target_path base_path in
  let rel := repeat [46; 46] (length base_path - prefix) ++ skipn prefix target_path in
  if is_nil rel then [46] else join_with [47] rel.
