(* Model of SourceMap::to_data_url (src/types.rs) and decode_data_url (src/decoder.rs, as repaired:
   both preambles accepted, tried in order).  The JSON layer is a section variable. *)
From SM Require Import Model.Base Spec.Base64.

(* regenerated from the sources in the real build (Gen_Consts.v) *)
Definition PREAMBLE_OUT : bytes :=     (* "data:application/json;charset=utf-8;base64," *)
  [100;97;116;97;58;97;112;112;108;105;99;97;116;105;111;110;47;106;115;111;110;59;99;104;97;114;115;101;116;61;117;116;102;45;56;59;98;97;115;101;54;52;44].
Definition PREAMBLES_IN : list bytes :=
  [ [100;97;116;97;58;97;112;112;108;105;99;97;116;105;111;110;47;106;115;111;110;59;98;97;115;101;54;52;44];   (* "data:application/json;base64," *)
    PREAMBLE_OUT ].

Section DataUrl.
  Context {A : Type} (encode : A -> bytes) (decode_slice : bytes -> outcome A).
  Variables (preamble_out : bytes) (preambles_in : list bytes).
  Definition to_data_url (m : A) : bytes := preamble_out ++ b64_encode (encode m).
  Fixpoint strip_any (ps : list bytes) (url : bytes) : option bytes :=
    match ps with
    | [] => None
    | p :: r => if starts_with url p then Some (skipn (length p) url) else strip_any r url
    end.
  Definition decode_data_url (url : bytes) : outcome A :=
    match strip_any preambles_in url with
    | None => Err EInvalidDataUrl
    | Some b64 => match b64_decode b64 with None => Err EInvalidDataUrl | Some data => decode_slice data end
    end.
End DataUrl.
