(* Model of the SourceMap value (src/types.rs) and SourceMapBuilder (src/builder.rs). *)
From SM Require Import Model.Base Model.Mappings Model.Glb.

Record smap := mkSM {
  sm_file : option bytes;
  sm_tokens : list rtoken;               (* invariant: sorted by (dst_line, dst_col) *)
  sm_names : list bytes;
  sm_root : option bytes;
  sm_sources : list bytes;               (* raw names *)
  sm_prefixed : option (list bytes);     (* cache of root-joined names *)
  sm_contents : list (option bytes);
  sm_ignore : list Z;                    (* BTreeSet<u32>: strictly increasing *)
  sm_debug_id : option Z }.              (* opaque token *)

(* ---- SourceMap::new ---- *)
Definition sm_new (file : option bytes) (tokens : list rtoken) (names sources : list bytes)
           (contents : option (list (option bytes))) : smap :=
  mkSM file (isort tok_key tokens) names None sources None
       (match contents with Some c => c | None => [] end) [] None.

(* ---- source root handling ---- *)
Definition http_ := [104;116;116;112;58].            (* "http:" *)
Definition https_ := [104;116;116;112;115;58].       (* "https:" *)
Definition strip_one_trailing_slash (s : bytes) : bytes :=
  match rev s with 47 :: r => rev r | _ => s end.
Definition prefix_source (root source : bytes) : bytes :=
  let root' := strip_one_trailing_slash root in
  let is_valid := negb (is_nil source)
                  && (starts_with source [47] || starts_with source http_ || starts_with source https_) in
  if is_valid then source else root' ++ [47] ++ source.
Definition set_source_root (value : option bytes) (m : smap) : smap :=
  let pre := match value with
             | Some r => if is_nil r then None else Some (map (prefix_source r) (sm_sources m))
             | None => None end in
  mkSM (sm_file m) (sm_tokens m) (sm_names m) value (sm_sources m) pre (sm_contents m) (sm_ignore m) (sm_debug_id m).
Definition get_source (m : smap) (idx : Z) : option bytes :=
  znth_opt (match sm_prefixed m with Some p => p | None => sm_sources m end) idx.
Definition get_name (m : smap) (idx : Z) : option bytes := znth_opt (sm_names m) idx.
Definition get_source_contents (m : smap) (idx : Z) : option bytes :=
  match znth_opt (sm_contents m) idx with Some (Some c) => Some c | _ => None end.

Fixpoint zset_nth {A} (l : list A) (i : Z) (x : A) : option (list A) :=
  match l with
  | [] => None
  | y :: l' => if i =? 0 then Some (x :: l')
               else if i <? 0 then None
               else match zset_nth l' (i - 1) x with Some r => Some (y :: r) | None => None end
  end.
(* set_source: panics on a bad index *)
Definition set_source (idx : Z) (value : bytes) (m : smap) : outcome smap :=
  match zset_nth (sm_sources m) idx value with
  | None => Panic 50
  | Some srcs =>
    match sm_prefixed m with
    | None => Ok (mkSM (sm_file m) (sm_tokens m) (sm_names m) (sm_root m) srcs None (sm_contents m) (sm_ignore m) (sm_debug_id m))
    | Some p =>
      match sm_root m, zset_nth p idx value with
      | Some r, Some _ =>
        match zset_nth p idx (prefix_source r value) with
        | Some p' => Ok (mkSM (sm_file m) (sm_tokens m) (sm_names m) (sm_root m) srcs (Some p') (sm_contents m) (sm_ignore m) (sm_debug_id m))
        | None => Panic 51 end
      | _, _ => Panic 52                      (* unwrap on None root / index *)
      end
    end
  end.
Fixpoint resize_opt {A} (l : list (option A)) (n : nat) : list (option A) :=
  match n with O => [] | S n' => match l with [] => None :: resize_opt [] n' | x :: r => x :: resize_opt r n' end end.
Definition set_source_contents (idx : Z) (value : option bytes) (m : smap) : outcome smap :=
  let c := if Nat.eqb (length (sm_contents m)) (length (sm_sources m)) then sm_contents m
           else resize_opt (sm_contents m) (length (sm_sources m)) in
  match zset_nth c idx value with
  | None => Panic 53
  | Some c' => Ok (mkSM (sm_file m) (sm_tokens m) (sm_names m) (sm_root m) (sm_sources m) (sm_prefixed m) c' (sm_ignore m) (sm_debug_id m))
  end.
Fixpoint set_insert (x : Z) (l : list Z) : list Z :=
  match l with [] => [x] | y :: r => if x <? y then x :: l else if x =? y then l else y :: set_insert x r end.
Definition add_to_ignore_list (x : Z) (m : smap) : smap :=
  mkSM (sm_file m) (sm_tokens m) (sm_names m) (sm_root m) (sm_sources m) (sm_prefixed m) (sm_contents m) (set_insert x (sm_ignore m)) (sm_debug_id m).
Definition set_debug_id (d : option Z) (m : smap) : smap :=
  mkSM (sm_file m) (sm_tokens m) (sm_names m) (sm_root m) (sm_sources m) (sm_prefixed m) (sm_contents m) (sm_ignore m) d.

(* token views used by observations *)
Definition tok_source (m : smap) (t : rtoken) : option bytes := if t_src t =? NONE then None else get_source m (t_src t).
Definition tok_name (m : smap) (t : rtoken) : option bytes := if t_name t =? NONE then None else get_name m (t_name t).

(* ---- builder ---- *)
Record builder := mkBld {
  b_file : option bytes; b_name_map : list (bytes * Z); b_names : list bytes; b_tokens : list rtoken (* in push order *);
  b_source_map : list (bytes * Z); b_root : option bytes; b_sources : list bytes; b_contents : list (option bytes);
  b_mapping : list Z; b_ignore : list Z; b_debug_id : option Z }.
Definition builder_new (file : option bytes) : builder := mkBld file [] [] [] [] None [] [] [] [] None.
Fixpoint assoc (k : bytes) (l : list (bytes * Z)) : option Z :=
  match l with [] => None | (k', v) :: r => if bytes_eqb k k' then Some v else assoc k r end.
Definition add_source_with_id (src : bytes) (old_id : Z) (b : builder) : Z * builder :=
  let count := zlen (b_sources b) in
  match assoc src (b_source_map b) with
  | Some id =>
    if id =? count then    (* cannot happen: ids in the table are < count *)
      (id, mkBld (b_file b) (b_name_map b) (b_names b) (b_tokens b) (b_source_map b) (b_root b) (b_sources b ++ [src]) (b_contents b) (b_mapping b ++ [old_id]) (b_ignore b) (b_debug_id b))
    else (id, b)
  | None =>
    (count, mkBld (b_file b) (b_name_map b) (b_names b) (b_tokens b) ((src, count) :: b_source_map b) (b_root b)
                  (b_sources b ++ [src]) (b_contents b) (b_mapping b ++ [old_id]) (b_ignore b) (b_debug_id b))
  end.
Definition add_source (src : bytes) (b : builder) := add_source_with_id src NONE b.
Definition add_name (name : bytes) (b : builder) : Z * builder :=
  let count := zlen (b_names b) in
  match assoc name (b_name_map b) with
  | Some id => (id, b)
  | None => (count, mkBld (b_file b) ((name, count) :: b_name_map b) (b_names b ++ [name]) (b_tokens b) (b_source_map b) (b_root b) (b_sources b) (b_contents b) (b_mapping b) (b_ignore b) (b_debug_id b))
  end.
Definition push_token (t : rtoken) (b : builder) : builder :=
  mkBld (b_file b) (b_name_map b) (b_names b) (b_tokens b ++ [t]) (b_source_map b) (b_root b) (b_sources b) (b_contents b) (b_mapping b) (b_ignore b) (b_debug_id b).
Definition add_with_id (dl dc sl sc : Z) (source : option bytes) (source_id : Z) (name : option bytes) (rg : bool) (b : builder)
  : rtoken * builder :=
  let '(src_id, b1) := match source with Some s => add_source_with_id s source_id b | None => (NONE, b) end in
  let '(name_id, b2) := match name with Some n => add_name n b1 | None => (NONE, b1) end in
  let raw := mkTok dl dc sl sc src_id name_id rg in
  (raw, push_token raw b2).
Definition add (dl dc sl sc : Z) (source name : option bytes) (rg : bool) (b : builder) := add_with_id dl dc sl sc source NONE name rg b.
Definition add_raw (dl dc sl sc : Z) (source name : option Z) (rg : bool) (b : builder) : rtoken * builder :=
  let raw := mkTok dl dc sl sc (match source with Some s => s | None => NONE end) (match name with Some n => n | None => NONE end) rg in
  (raw, push_token raw b).
Definition b_get_source_contents (b : builder) (id : Z) : option bytes :=
  match znth_opt (b_contents b) id with Some (Some c) => Some c | _ => None end.
Definition b_has_source_contents b id := match b_get_source_contents b id with Some _ => true | None => false end.
Definition b_set_source_contents (id : Z) (c : option bytes) (b : builder) : outcome builder :=
  if id =? NONE then Panic 60 else
  let cs := if Nat.ltb (length (b_contents b)) (length (b_sources b)) then resize_opt (b_contents b) (length (b_sources b)) else b_contents b in
  match zset_nth cs id c with
  | None => Panic 61
  | Some cs' => Ok (mkBld (b_file b) (b_name_map b) (b_names b) (b_tokens b) (b_source_map b) (b_root b) (b_sources b) cs' (b_mapping b) (b_ignore b) (b_debug_id b))
  end.
Definition b_add_to_ignore_list (id : Z) (b : builder) : builder :=
  mkBld (b_file b) (b_name_map b) (b_names b) (b_tokens b) (b_source_map b) (b_root b) (b_sources b) (b_contents b) (b_mapping b) (set_insert id (b_ignore b)) (b_debug_id b).
Definition b_set_source_root (r : option bytes) (b : builder) : builder :=
  mkBld (b_file b) (b_name_map b) (b_names b) (b_tokens b) (b_source_map b) r (b_sources b) (b_contents b) (b_mapping b) (b_ignore b) (b_debug_id b).
Definition b_set_file (f : option bytes) (b : builder) : builder :=
  mkBld f (b_name_map b) (b_names b) (b_tokens b) (b_source_map b) (b_root b) (b_sources b) (b_contents b) (b_mapping b) (b_ignore b) (b_debug_id b).
Definition b_set_debug_id (d : option Z) (b : builder) : builder :=
  mkBld (b_file b) (b_name_map b) (b_names b) (b_tokens b) (b_source_map b) (b_root b) (b_sources b) (b_contents b) (b_mapping b) (b_ignore b) d.
Definition strip_prefixes (prefixes : list bytes) (b : builder) : builder :=
  let strip1 (source : bytes) :=
    (fix go (ps : list bytes) : bytes :=
       match ps with
       | [] => source
       | p :: ps' => let p' := match rev p with 47 :: _ => p | _ => p ++ [47] end in
                     if starts_with source p' then skipn (length p') source else go ps'
       end) prefixes in
  mkBld (b_file b) (b_name_map b) (b_names b) (b_tokens b) (b_source_map b) (b_root b) (map strip1 (b_sources b)) (b_contents b) (b_mapping b) (b_ignore b) (b_debug_id b).
Definition into_sourcemap (b : builder) : smap :=
  let contents := if is_nil (b_contents b) then None else Some (b_contents b) in
  let m := sm_new (b_file b) (b_tokens b) (b_names b) (b_sources b) contents in
  let m := set_source_root (b_root b) m in
  let m := set_debug_id (b_debug_id b) m in
  fold_left (fun m id => add_to_ignore_list id m) (b_ignore b) m.
