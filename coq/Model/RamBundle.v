(* Model of the indexed RAM bundle reader (src/ram_bundle.rs); usize is 64 bit. *)
From SM Require Import Model.Base.

Definition RAM_BUNDLE_MAGIC := 4211855845.    (* 0xFB0BD1E5; regenerated from the source in the real build *)

(* scroll: pread_with::<u32>(offset, LE) *)
Definition pread_u32 (bs : bytes) (off : Z) : outcome Z :=
  if zlen bs <=? off then Err EScroll                        (* BadOffset *)
  else match skipn (Z.to_nat off) bs with
       | b0 :: b1 :: b2 :: b3 :: _ => Ok (b0 + 256 * b1 + 65536 * b2 + 16777216 * b3)
       | _ => Err EScroll                                    (* TooBig *)
       end.
(* scroll: pread_with::<&[u8]>(offset, size) *)
Definition pread_bytes (bs : bytes) (off size : Z) : outcome bytes :=
  if zlen bs <=? off then Err EScroll
  else let rest := skipn (Z.to_nat off) bs in
       if zlen rest <? size then Err EScroll else Ok (firstn (Z.to_nat size) rest).

Record bundle := mkB { b_bytes : bytes; b_count : Z; b_startup_size : Z; b_startup_off : Z }.

Definition parse (bs : bytes) : outcome bundle :=
  do magic <- pread_u32 bs 0;
  do count <- pread_u32 bs 4;
  do ssize <- pread_u32 bs 8;
  if negb (magic =? RAM_BUNDLE_MAGIC) then Err ERamMagic
  else Ok (mkB bs count ssize (12 + count * 8)).
Definition is_ram_bundle (bs : bytes) : bool :=
  match (do magic <- pread_u32 bs 0; do _c <- pread_u32 bs 4; do _s <- pread_u32 bs 8; Ok magic) with
  | Ok m => m =? RAM_BUNDLE_MAGIC | _ => false end.
Definition startup_code (b : bundle) : outcome bytes := pread_bytes (b_bytes b) (b_startup_off b) (b_startup_size b).
Definition get_module (b : bundle) (id : Z) : outcome (option bytes) :=
  if b_count b <=? id then Err ERamIndex else
  let entry_off := 12 + id * 8 in
  do off <- pread_u32 (b_bytes b) entry_off;
  do len <- pread_u32 (b_bytes b) (entry_off + 4);
  if (off =? 0) && (len =? 0) then Ok None else
  let global := b_startup_off b + off in
  if len =? 0 then Err ERamEntry else
  do data <- pread_bytes (b_bytes b) global (len - 1);
  Ok (Some data).

(* RamBundleModuleIter: ids 0 .. count-1 in order, empty slots skipped, an entry that cannot be read yields an error item.
   (`n` is the number of ids left; the drivers never evaluate this with a data-dependent count.) *)
Fixpoint iter_from (b : bundle) (n : nat) (id : Z) : list (outcome (Z * bytes)) :=
  match n with
  | O => []
  | S k =>
    match get_module b id with
    | Ok None => iter_from b k (id + 1)
    | Ok (Some d) => Ok (id, d) :: iter_from b k (id + 1)
    | Err e => Err e :: iter_from b k (id + 1)
    | Panic p => Panic p :: iter_from b k (id + 1)
    end
  end.
Definition iter_modules (b : bundle) : list (outcome (Z * bytes)) := iter_from b (Z.to_nat (b_count b)) 0.
