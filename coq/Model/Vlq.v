(* Model of src/vlq.rs (as repaired: foreign bytes rejected, lost value bits detected). *)
From SM Require Import Model.Base Model.Gen_B64.

Definition b64_lookup (c : Z) : Z := nth (Z.to_nat c) B64 (-1).

(* one iteration of the `for c in segment.bytes()` loop; state = (cur, shift, rv-reversed) *)
Fixpoint parse_go (s : bytes) (cur shift : Z) (rv : list Z) : outcome (list Z) :=
  match s with
  | [] =>
      if negb (cur =? 0) || negb (shift =? 0) then Err EVlqLeftover
      else if is_nil rv then Err EVlqNoValues
      else Ok (rev rv)
  | c :: s' =>
      let enc := b64_lookup c in
      if enc <? 0 then Err EInvalidBase64 else
      let val := Z.land enc 31 in
      let cont := Z.shiftr enc 5 in
      (* val.checked_shl(shift).filter(|s| s >> shift == val) *)
      if 64 <=? shift then Err EVlqOverflow else
      let shifted := wrap_i64 (Z.shiftl val shift) in
      if negb (Z.shiftr shifted shift =? val) then Err EVlqOverflow else
      do cur1 <- i64_add 1 cur shifted;
      let shift1 := shift + 5 in
      if cont =? 0 then
        let sign := Z.land cur1 1 in
        let cur2 := Z.shiftr cur1 1 in
        let cur3 := if negb (sign =? 0) then - cur2 else cur2 in
        parse_go s' 0 0 (cur3 :: rv)
      else parse_go s' cur1 shift1 rv
  end.

(* parse_vlq_segment_into appends to a caller-supplied vector; the emptiness test is on that vector *)
Definition parse_vlq_segment (s : bytes) : outcome (list Z) := parse_go s 0 0 [].

(* encode_vlq: `loop` with explicit fuel; None = fuel exhausted (the real loop would not end) *)
Fixpoint encode_go (fuel : nat) (num : Z) : option bytes :=
  match fuel with
  | O => None
  | S f =>
      let digit := Z.land num 31 in
      let num' := Z.shiftr num 5 in
      let digit' := if 0 <? num' then Z.lor digit 32 else digit in
      let c := nth (Z.to_nat digit') B64_CHARS 0 in
      if num' =? 0 then Some [c]
      else match encode_go f num' with Some r => Some (c :: r) | None => None end
  end.
Definition encode_vlq (num : Z) : option bytes :=
  (* ((-num) << 1) + 1  /  num << 1, in i64 *)
  let n := if num <? 0 then wrap_i64 (Z.shiftl (- num) 1) + 1 else wrap_i64 (Z.shiftl num 1) in
  encode_go 14 n.
Fixpoint generate_vlq_segment (nums : list Z) : option bytes :=
  match nums with
  | [] => Some []
  | n :: ns => match encode_vlq n, generate_vlq_segment ns with
               | Some a, Some b => Some (a ++ b) | _, _ => None end
  end.
