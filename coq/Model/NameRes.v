(* Model of js_identifiers.rs (as repaired) and of RevTokenIter / SourceView::get_original_function_name. *)
From SM Require Import Model.Base Model.Mappings Model.SourceView.

Section NameRes.
  (* character classes: unicode-id-start / char::is_whitespace in the crate, section variables here *)
  Variables (is_start is_cont is_ws : Z -> bool).
  Variable window : nat.                                   (* take(128): regenerated from the source *)

  Fixpoint take_while (p : Z -> bool) (s : list Z) : list Z :=
    match s with [] => [] | c :: r => if p c then c :: take_while p r else [] end.
  Fixpoint drop_while (p : Z -> bool) (s : list Z) : list Z :=
    match s with [] => [] | c :: r => if p c then drop_while p r else s end.
  Definition strip_identifier (s : list Z) : option (list Z) :=
    match s with
    | [] => None
    | c :: r => if is_start c then Some (c :: take_while is_cont r) else None
    end.
  Definition is_valid_javascript_identifier (s : list Z) : bool :=
    Nat.eqb (match strip_identifier s with Some t => length t | None => O end) (length s).
  Definition get_javascript_token (s : list Z) : option (list Z) :=
    match take_while (fun c => negb (is_ws c)) (drop_while is_ws s) with
    | [] => None
    | w => strip_identifier w
    end.

  (* number of characters in front of utf-16 column `col` (forward walk) *)
  Fixpoint fwd (line : list Z) (idx col : Z) : nat :=
    match line with
    | [] => O
    | c :: r => if col <=? idx then O else S (fwd r (idx + len_utf16 c) col)
    end.
  (* walk back from character index k over `chars_to_move` utf-16 units *)
  Fixpoint back (prefix_rev : list Z) (k : nat) (idx to_move : Z) : nat :=
    match prefix_rev with
    | [] => k
    | c :: r => if to_move <=? idx then k else back r (Nat.pred k) (idx + len_utf16 c) to_move
    end.

  Definition cache := option (list Z * Z * Z * nat).      (* line, dst_line, last col, last char index *)

  (* RevTokenIter::next for the token `t`; get_line supplies the text of a line *)
  Definition rev_next (get_line : Z -> option (list Z)) (t : rtoken) (c : cache)
    : outcome (option (list Z) * cache) :=
    let fresh := match get_line (t_dl t) with Some l => l | None => [] end in
    do r <- match c with
            | Some (line, dl, last_col, last_k) =>
              if dl =? t_dl t then
                if last_col <? t_dc t then Panic 80                  (* usize subtraction *)
                else Ok (line, back (rev (firstn last_k line)) last_k 0 (last_col - t_dc t))
              else Ok (fresh, fwd fresh 0 (t_dc t))
            | None => Ok (fresh, fwd fresh 0 (t_dc t))
            end;
    let '(line, k) := r in
    if Nat.leb (length line) k then Ok (None, None)
    else Ok (get_javascript_token (skipn k line), Some (line, t_dl t, t_dc t, k)).

  Definition fn_kw : list Z := [102;117;110;99;116;105;111;110].          (* "function" *)
  Definition opt_eq (a : option (list Z)) (b : list Z) : bool :=
    match a with Some x => bytes_eqb x b | None => false end.

  (* the items of rev_token_iter(token).take(window), computed in order *)
  Fixpoint rev_items (get_line : Z -> option (list Z)) (toks_rev : list rtoken) (n : nat) (c : cache)
    : outcome (list (rtoken * option (list Z))) :=
    match n, toks_rev with
    | O, _ | _, [] => Ok []
    | S n', t :: rest =>
      do r <- rev_next get_line t c;
      do more <- rev_items get_line rest n' (snd r);
      Ok ((t, fst r) :: more)
    end.
  Fixpoint scan (items : list (rtoken * option (list Z))) (name : list Z) : option rtoken :=
    match items with
    | (t, ident) :: ((_, nxt) :: _) as rest =>
      if opt_eq ident name && opt_eq nxt fn_kw then Some t else scan rest name
    | _ => None
    end.
  (* tokens = the map's tokens; i = index of the looked-up token *)
  Definition get_original_function_name (get_line : Z -> option (list Z)) (tokens : list rtoken) (i : nat)
             (name : list Z) : outcome (option rtoken) :=
    if negb (is_valid_javascript_identifier name) then Ok None else
    do items <- rev_items get_line (rev (firstn (S i) tokens)) window None;
    Ok (scan items name).
End NameRes.
