(* Model of the `mappings` / `rangeMappings` codec:
   src/decoder.rs decode_rmi + the token loop of decode_regular,
   src/encoder.rs encode_rmi, serialize_range_mappings, serialize_mappings
   (as repaired, see DESIGN.md Appendix A). *)
From SM Require Import Model.Base Model.Gen_B64 Model.Vlq.

Record rtoken := mkTok {
  t_dl : Z; t_dc : Z; t_sl : Z; t_sc : Z; t_src : Z; t_name : Z; t_range : bool }.

Definition tok_key (t : rtoken) : pos := (t_dl t, t_dc t).
Definition rtoken_eqb (a b : rtoken) : bool :=
  (t_dl a =? t_dl b) && (t_dc a =? t_dc b) && (t_sl a =? t_sl b) && (t_sc a =? t_sc b)
  && (t_src a =? t_src b) && (t_name a =? t_name b) && Bool.eqb (t_range a) (t_range b).

(* ---------- decode_rmi ---------- *)
Definition rmi_char_value (b : Z) : option Z :=
  if (65 <=? b) && (b <=? 90) then Some (b - 65)
  else if (97 <=? b) && (b <=? 122) then Some (b - 97 + 26)
  else if (48 <=? b) && (b <=? 57) then Some (b - 48 + 52)
  else if b =? 43 then Some 62
  else if b =? 47 then Some 63
  else None.
Definition bits6 (v : Z) : list bool :=       (* store_le: least significant bit first *)
  map (fun i => Z.testbit v (Z.of_nat i)) (seq 0 6).
Fixpoint decode_rmi (s : bytes) : outcome (list bool) :=
  match s with
  | [] => Ok []
  | b :: s' =>
    match rmi_char_value b with
    | None => Err EInvalidBase64
    | Some v => do r <- decode_rmi s'; Ok (bits6 v ++ r)
    end
  end.

(* ---------- the token loop of decode_regular ---------- *)
Record dstate := mkD { d_src : Z; d_sl : Z; d_sc : Z; d_name : Z; d_toks : list rtoken (* reversed *) }.

Definition decode_segment (nsrc nnames : Z) (dst_line : Z) (rmi : list bool) (line_index : nat)
           (seg : bytes) (dst_col : Z) (st : dstate) : outcome (Z * dstate) :=
  do nums <- parse_vlq_segment seg;
  match nums with
  | [] => Panic 10                                   (* nums[0] on an empty vector: unreachable *)
  | n0 :: rest =>
    do c <- i64_add 11 dst_col n0;
    let dst_col := wrap_u32 c in
    let is_range := nth line_index rmi false in
    match rest with
    | [] =>
      Ok (dst_col, mkD (d_src st) (d_sl st) (d_sc st) (d_name st)
                       (mkTok dst_line dst_col (d_sl st) (d_sc st) NONE NONE is_range :: d_toks st))
    | n1 :: n2 :: n3 :: more =>
      if negb (is_nil more) && negb (Nat.eqb (length more) 1) then Err EBadSegmentSize else
      do new_src <- i64_add 12 (d_src st) n1;
      if (new_src <? 0) || (nsrc <=? new_src) then Err EBadSourceRef else
      do sl <- i64_add 13 (d_sl st) n2;
      do sc <- i64_add 14 (d_sc st) n3;
      let sl := wrap_u32 sl in let sc := wrap_u32 sc in
      match more with
      | [] =>
        Ok (dst_col, mkD new_src sl sc (d_name st)
                         (mkTok dst_line dst_col sl sc new_src NONE is_range :: d_toks st))
      | n4 :: _ =>
        do new_name <- i64_add 15 (d_name st) n4;
        if (new_name <? 0) || (nnames <=? new_name) then Err EBadNameRef else
        Ok (dst_col, mkD new_src sl sc new_name
                         (mkTok dst_line dst_col sl sc new_src new_name is_range :: d_toks st))
      end
    | _ => Err EBadSegmentSize                       (* 2 or 3 values *)
    end
  end.

Fixpoint decode_segments (nsrc nnames dst_line : Z) (rmi : list bool) (segs : list bytes)
         (line_index : nat) (dst_col : Z) (st : dstate) : outcome dstate :=
  match segs with
  | [] => Ok st
  | seg :: segs' =>
    if is_nil seg then decode_segments nsrc nnames dst_line rmi segs' (S line_index) dst_col st
    else
      do r <- decode_segment nsrc nnames dst_line rmi line_index seg dst_col st;
      decode_segments nsrc nnames dst_line rmi segs' (S line_index) (fst r) (snd r)
  end.

Fixpoint decode_lines (nsrc nnames : Z) (lines rmis : list bytes) (dst_line : Z) (st : dstate)
  : outcome dstate :=
  match lines with
  | [] => Ok st
  | line :: lines' =>
    let rmi_str := match rmis with [] => [] | r :: _ => r end in
    let rmis' := match rmis with [] => [] | _ :: r => r end in
    if is_nil line then decode_lines nsrc nnames lines' rmis' (dst_line + 1) st
    else
      do rmi <- decode_rmi rmi_str;
      do st' <- decode_segments nsrc nnames dst_line rmi (split_on 44 line) 0 0 st;
      decode_lines nsrc nnames lines' rmis' (dst_line + 1) st'
  end.

(* tokens in document order (before the sort of SourceMap::new) *)
Definition decode_mappings (nsrc nnames : Z) (mappings range_mappings : bytes) : outcome (list rtoken) :=
  do st <- decode_lines nsrc nnames (split_on 59 mappings) (split_on 59 range_mappings) 0
                        (mkD 0 0 0 0 []);
  Ok (rev (d_toks st)).

(* ---------- encoder ---------- *)
Definition has_source (t : rtoken) : bool := negb (t_src t =? NONE).
Definition has_name (nnames : Z) (t : rtoken) : bool :=
  negb (t_name t =? NONE) && (t_name t <? nnames).

Definition is_same_segment (nnames : Z) (a b : rtoken) : bool :=
  (t_dl a =? t_dl b) && (t_dc a =? t_dc b) && Bool.eqb (t_range a) (t_range b)
  && Bool.eqb (has_source a) (has_source b)
  && (negb (has_source a)
      || ((t_src a =? t_src b) && (t_sl a =? t_sl b) && (t_sc a =? t_sc b)
          && Bool.eqb (has_name nnames a) (has_name nnames b)
          && (negb (has_name nnames a) || (t_name a =? t_name b)))).

Definition vlq_diff (a b : Z) : bytes :=
  match encode_vlq (a - b) with Some s => s | None => [] end.

Record estate := mkE { e_line : Z; e_col : Z; e_sl : Z; e_sc : Z; e_name : Z; e_src : Z }.

(* one token of serialize_mappings; prev = token at idx-1 if idx > 0 *)
Definition ser_token (nnames : Z) (prev : option rtoken) (t : rtoken) (st : estate) (out : bytes)
  : estate * bytes :=
  let new_line := negb (t_dl t =? e_line st) in
  let skip := negb new_line &&
              match prev with Some p => is_same_segment nnames p t | None => false end in
  if skip then (st, out) else
  let out1 := if new_line then out ++ repeat 59 (Z.to_nat (t_dl t - e_line st))
              else match prev with Some _ => out ++ [44] | None => out end in
  let col0 := if new_line then 0 else e_col st in
  let out2 := out1 ++ vlq_diff (t_dc t) col0 in
  if has_source t then
    let out3 := out2 ++ vlq_diff (t_src t) (e_src st) ++ vlq_diff (t_sl t) (e_sl st)
                     ++ vlq_diff (t_sc t) (e_sc st) in
    if has_name nnames t then
      (mkE (t_dl t) (t_dc t) (t_sl t) (t_sc t) (t_name t) (t_src t),
       out3 ++ vlq_diff (t_name t) (e_name st))
    else (mkE (t_dl t) (t_dc t) (t_sl t) (t_sc t) (e_name st) (t_src t), out3)
  else (mkE (t_dl t) (t_dc t) (e_sl st) (e_sc st) (e_name st) (e_src st), out2).

Fixpoint ser_tokens (nnames : Z) (prev : option rtoken) (ts : list rtoken) (st : estate) (out : bytes)
  : bytes :=
  match ts with
  | [] => out
  | t :: ts' => let '(st', out') := ser_token nnames prev t st out in
                ser_tokens nnames (Some t) ts' st' out'
  end.
Definition serialize_mappings (nnames : Z) (ts : list rtoken) : bytes :=
  ser_tokens nnames None ts (mkE 0 0 0 0 0 0) [].

(* ---------- range mappings writer ---------- *)
Fixpoint set_bit (bits : list bool) (n : nat) : list bool :=
  match n, bits with
  | O, [] => [true]
  | O, _ :: r => true :: r
  | S n', [] => false :: set_bit [] n'
  | S n', b :: r => b :: set_bit r n'
  end.
Fixpoint last_true (bits : list bool) (i : nat) (acc : nat) : nat :=
  match bits with [] => acc | b :: r => last_true r (S i) (if b then i else acc) end.
Fixpoint chunks6 (fuel : nat) (bits : list bool) : list (list bool) :=
  match fuel, bits with
  | _, [] => []
  | O, _ => []
  | S f, _ => firstn 6 bits :: chunks6 f (skipn 6 bits)
  end.
Definition bits_value (bs : list bool) : Z :=
  fold_right (fun b acc => (if b : bool then 1 else 0) + 2 * acc) 0 bs.
Definition encode_rmi (bits : list bool) : bytes :=
  let bits' := firstn (S (last_true bits 0 0)) (bits ++ [false]) in
  map (fun c => nth (Z.to_nat (bits_value c)) B64_CHARS 0) (chunks6 (S (length bits')) bits').

Record rstate := mkR { r_line : Z; r_had : bool; r_empty : bool; r_segs : nat (* segments emitted on this line *);
                       r_bits : list bool; r_buf : bytes }.

Definition rmi_token (nnames : Z) (prev : option rtoken) (t : rtoken) (st : rstate) : rstate :=
  (* while token.dst_line != prev_line { flush; push ';' } *)
  let nl := Z.to_nat (t_dl t - r_line st) in
  let st1 :=
    match nl with
    | O => st
    | S k =>
      let buf := (if r_had st then r_buf st ++ encode_rmi (r_bits st) else r_buf st) ++ repeat 59 (S k) in
      mkR (t_dl t) false (r_empty st) 0 [] buf
    end in
  let first_in_line := match nl with O => false | _ => true end in
  let dup := negb first_in_line &&
             match prev with Some p => is_same_segment nnames p t | None => false end in
  if dup then st1 else
  if t_range t then mkR (r_line st1) true false (S (r_segs st1)) (set_bit (r_bits st1) (r_segs st1)) (r_buf st1)
  else mkR (r_line st1) (r_had st1) (r_empty st1) (S (r_segs st1)) (r_bits st1) (r_buf st1).

Fixpoint rmi_tokens (nnames : Z) (prev : option rtoken) (ts : list rtoken) (st : rstate) : rstate :=
  match ts with
  | [] => st
  | t :: ts' => rmi_tokens nnames (Some t) ts' (rmi_token nnames prev t st)
  end.
Definition serialize_range_mappings (nnames : Z) (ts : list rtoken) : option bytes :=
  let st := rmi_tokens nnames None ts (mkR 0 false true 0 [] []) in
  if r_empty st then None
  else Some (if r_had st then r_buf st ++ encode_rmi (r_bits st) else r_buf st).
