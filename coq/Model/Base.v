(* Base definitions shared by the model: outcomes, fixed-width integers, byte strings,
   lexicographic positions, stable insertion sort.  No proofs here. *)
From Coq Require Export List ZArith Bool Lia.
Export ListNotations.
Open Scope Z_scope.

(* ---------- outcomes ---------- *)
Inductive error :=
| EIo | EJson | EVlqLeftover | EVlqNoValues | EVlqOverflow
| EBadSegmentSize | EBadSourceRef | EBadNameRef | EIncompatible | EInvalidDataUrl
| ECannotFlatten | EInvalidBase64 | ERamMagic | ERamIndex | ERamEntry | EScroll | EUtf8.

Inductive outcome (A : Type) := Ok (a : A) | Err (e : error) | Panic (site : Z).
Arguments Ok {A}. Arguments Err {A}. Arguments Panic {A}.

Definition bind {A B} (x : outcome A) (f : A -> outcome B) : outcome B :=
  match x with Ok a => f a | Err e => Err e | Panic s => Panic s end.
Notation "'do' x <- e ; k" := (bind e (fun x => k)) (at level 200, x name, e at level 100, k at level 200).

Definition is_panic {A} (x : outcome A) : bool := match x with Panic _ => true | _ => false end.

(* ---------- fixed width integers ---------- *)
Definition two32 := 4294967296.
Definition two31 := 2147483648.
Definition two63 := 9223372036854775808.
Definition two64 := 18446744073709551616.
Definition u32_max := 4294967295.
Definition NONE := u32_max.                       (* !0u32 *)
Definition is_u32 (z : Z) : bool := (0 <=? z) && (z <? two32).
Definition wrap_u32 (z : Z) : Z := z mod two32.    (* `as u32` on an i64 *)
Definition wrap_i32 (z : Z) : Z := (z + two31) mod two32 - two31.
Definition wrap_i64 (z : Z) : Z := (z + two63) mod two64 - two63.
Definition in_i64 (z : Z) : bool := (- two63 <=? z) && (z <? two63).
Definition in_i32 (z : Z) : bool := (- two31 <=? z) && (z <? two31).

Definition checked (site : Z) (ok : bool) (z : Z) : outcome Z := if ok then Ok z else Panic site.
Definition u32_add site a b := checked site (is_u32 (a + b)) (a + b).
Definition u32_sub site a b := checked site (is_u32 (a - b)) (a - b).
Definition i32_add site a b := checked site (in_i32 (a + b)) (a + b).
Definition i32_sub site a b := checked site (in_i32 (a - b)) (a - b).
Definition i64_add site a b := checked site (in_i64 (a + b)) (a + b).
Definition sat_add_u32 a b := Z.min (a + b) u32_max.

(* ---------- byte strings ---------- *)
Definition bytes := list Z.
Fixpoint bytes_eqb (a b : bytes) : bool :=
  match a, b with
  | [], [] => true
  | x :: a', y :: b' => (x =? y) && bytes_eqb a' b'
  | _, _ => false
  end.
Fixpoint starts_with (s p : bytes) : bool :=
  match p, s with
  | [], _ => true
  | y :: p', x :: s' => (x =? y) && starts_with s' p'
  | _ :: _, [] => false
  end.
(* split on a separator byte; like str::split: always at least one piece *)
Fixpoint split_on (sep : Z) (s : bytes) : list bytes :=
  match s with
  | [] => [[]]
  | c :: s' =>
    if c =? sep then [] :: split_on sep s'
    else match split_on sep s' with
         | [] => [[c]]      (* unreachable *)
         | p :: ps => (c :: p) :: ps
         end
  end.
Definition is_nil {A} (l : list A) : bool := match l with [] => true | _ => false end.

(* ---------- positions ---------- *)
Definition pos := (Z * Z)%type.
Definition pos_ltb (a b : pos) : bool := (fst a <? fst b) || ((fst a =? fst b) && (snd a <? snd b)).
Definition pos_leb (a b : pos) : bool := (fst a <? fst b) || ((fst a =? fst b) && (snd a <=? snd b)).
Definition pos_eqb (a b : pos) : bool := (fst a =? fst b) && (snd a =? snd b).
Definition pos_min (a b : pos) : pos := if pos_leb a b then a else b.
Definition pos_max (a b : pos) : pos := if pos_leb a b then b else a.

(* ---------- stable insertion sort by key ---------- *)
Section Sort.
  Context {A : Type} (key : A -> pos).
  Fixpoint insert (x : A) (l : list A) : list A :=
    match l with
    | [] => [x]
    | y :: l' => if pos_leb (key x) (key y) then x :: l else y :: insert x l'
    end.
  (* elements are inserted from the last to the first, each in front of the keys that are
     not smaller: equal keys keep their order (stable) and a sorted list is left unchanged *)
  Definition isort (l : list A) : list A := fold_right insert [] l.
  Fixpoint sortedb (l : list A) : bool :=
    match l with
    | [] => true
    | x :: l' => match l' with [] => true | y :: _ => pos_leb (key x) (key y) && sortedb l' end
    end.
End Sort.

Fixpoint nth_opt {A} (l : list A) (n : nat) : option A :=
  match l, n with
  | [], _ => None
  | x :: _, O => Some x
  | _ :: l', S n' => nth_opt l' n'
  end.
Definition zlen {A} (l : list A) : Z := Z.of_nat (length l).
(* indexing by a Z that may be huge (u32::MAX): recursion on the list, never Z.to_nat *)
Fixpoint znth_opt {A} (l : list A) (i : Z) : option A :=
  match l with
  | [] => None
  | x :: l' => if i =? 0 then Some x else if i <? 0 then None else znth_opt l' (i - 1)
  end.
Fixpoint set_nth {A} (l : list A) (n : nat) (x : A) : list A :=
  match l, n with
  | [], _ => []
  | _ :: l', O => x :: l'
  | y :: l', S n' => y :: set_nth l' n' x
  end.
Fixpoint index_of (s : bytes) (l : list bytes) : option Z :=
  match l with
  | [] => None
  | x :: l' => if bytes_eqb x s then Some 0
               else match index_of s l' with Some i => Some (i + 1) | None => None end
  end.
