(* Model of SourceView::get_line / line_count / lines / get_line_slice (src/sourceview.rs). *)
From SM Require Import Model.Base.

(* ---- lazy line index ---- *)
(* state: processed_until and the cached lines (as byte strings) *)
Record sv := mkSv { sv_pu : Z; sv_lines : list bytes }.
Definition sv_new : sv := mkSv 0 [].

Fixpoint position_nl (s : bytes) (i : Z) : option Z :=
  match s with
  | [] => None
  | b :: s' => if (b =? 10) || (b =? 13) then Some i else position_nl s' (i + 1)
  end.
Definition zskipn {A} (n : Z) (l : list A) := skipn (Z.to_nat n) l.
Definition zfirstn {A} (n : Z) (l : list A) := firstn (Z.to_nat n) l.

(* one iteration of the `while !done` loop; returns new state and `done` *)
Definition index_step (src : bytes) (st : sv) : outcome (sv * bool) :=
  if zlen src <? sv_pu st then Panic 30            (* source[processed_until..] out of range *)
  else
    let rest := zskipn (sv_pu st) src in
    match position_nl rest 0 with
    | Some idx =>
      let rv := zfirstn idx rest in
      let idx' := if (nth (Z.to_nat idx) rest 0 =? 13) && (nth (Z.to_nat (idx + 1)) rest 0 =? 10)
                     && (idx + 1 <? zlen rest) then idx + 1 else idx in
      Ok (mkSv (sv_pu st + idx' + 1) (sv_lines st ++ [rv]), false)
    | None =>
      Ok (mkSv (sv_pu st + zlen rest + 1) (sv_lines st ++ [rest]), true)
    end.

Fixpoint index_loop (fuel : nat) (src : bytes) (idx : Z) (st : sv) : outcome (sv * option bytes) :=
  match fuel with
  | O => Ok (st, None)                              (* unreachable with fuel = |src| + 2 *)
  | S f =>
    do r <- index_step src st;
    let '(st', done) := r in
    match znth_opt (sv_lines st') idx with
    | Some line => Ok (st', Some line)
    | None => if done then Ok (st', None) else index_loop f src idx st'
    end
  end.

(* get_line as repaired: one critical section *)
Definition get_line (src : bytes) (idx : Z) (st : sv) : outcome (sv * option bytes) :=
  match znth_opt (sv_lines st) idx with
  | Some line => Ok (st, Some line)
  | None =>
    if zlen src <? sv_pu st then Ok (st, None)
    else index_loop (S (S (length src))) src idx st
  end.
Definition line_count (src : bytes) (st : sv) : outcome (sv * Z) :=
  do r <- get_line src u32_max st; Ok (fst r, zlen (sv_lines (fst r))).

(* ---- get_line_slice over scalar values ---- *)
Definition len_utf16 (c : Z) : Z := if c <? 65536 then 1 else 2.
Definition len_utf8 (c : Z) : Z := if c <? 128 then 1 else if c <? 2048 then 2 else if c <? 65536 then 3 else 4.

(* first loop: advance while idx < col *)
Fixpoint skip_to (line : list Z) (idx col : Z) : (list Z * Z) :=
  match line with
  | [] => ([], idx)
  | c :: r => if col <=? idx then (line, idx) else skip_to r (idx + len_utf16 c) col
  end.
(* second loop: take while idx < end *)
Fixpoint take_to (line : list Z) (idx stop : Z) : (list Z * Z) :=
  match line with
  | [] => ([], idx)
  | c :: r => if stop <=? idx then ([], idx)
              else let '(t, i) := take_to r (idx + len_utf16 c) stop in (c :: t, i)
  end.
(* as repaired: col + span in usize *)
Definition get_line_slice (line : list Z) (col span : Z) : option (list Z) :=
  let '(rest, idx) := skip_to line 0 col in
  let '(taken, idx') := take_to rest idx (col + span) in
  if idx' <? col + span then None else Some taken.
