(* Model of locate_sourcemap_reference, the data-URL producer/consumer and is_sourcemap_common. *)
From SM Require Import Model.Base.

(* BufRead::lines: split at \n; a line loses a trailing \r; no final empty line after a trailing \n *)
Fixpoint buf_lines_go (s : bytes) (cur : bytes) : list bytes :=
  match s with
  | [] => if is_nil cur then [] else [rev cur]
  | b :: s' =>
    if b =? 10 then (match cur with 13 :: c => rev c | _ => rev cur end) :: buf_lines_go s' []
    else buf_lines_go s' (b :: cur)
  end.
Definition buf_lines (s : bytes) : list bytes := buf_lines_go s [].

Section Locate.
  Variable is_ws : Z -> bool.                       (* str::trim on scalar values; ASCII table in tests *)
  Variables prefix_new prefix_legacy : bytes.       (* regenerated from src/detector.rs *)
  Variable prefix_len : nat.                        (* the literal 21 *)
  Definition trim (s : bytes) : bytes :=
    let drop := fix drop (s : bytes) := match s with c :: r => if is_ws c then drop r else s | [] => [] end in
    rev (drop (rev (drop s))).
  Inductive smref := Ref (u : bytes) | LegacyRef (u : bytes).
  Fixpoint locate_lines (ls : list bytes) : option smref :=
    match ls with
    | [] => None
    | l :: ls' =>
      if starts_with l prefix_new || starts_with l prefix_legacy then
        let url := trim (skipn prefix_len l) in
        if starts_with l [47;47;64] then Some (LegacyRef url) else Some (Ref url)   (* "//@" *)
      else locate_lines ls'
    end.
  Definition locate_sourcemap_reference (text : bytes) : option smref := locate_lines (buf_lines text).
End Locate.

(* is_sourcemap_common over "which keys are present and not null" *)
Record minimal := mkMin { mn_version : bool; mn_file : bool; mn_sources : bool; mn_source_root : bool;
  mn_sources_content : bool; mn_sections : bool; mn_names : bool; mn_mappings : bool }.
Definition is_sourcemap_common (r : minimal) : bool :=
  ((mn_version r || mn_file r)
   && ((mn_sources r || mn_source_root r || mn_sources_content r || mn_names r) && mn_mappings r))
  || mn_sections r.
