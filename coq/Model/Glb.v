(* Model of utils::greatest_lower_bound (as repaired: the index of the element returned)
   and SourceMap::lookup_token (as repaired: range offset only on the token's own line). *)
From SM Require Import Model.Base Model.Mappings.

Inductive bsearch_result := Found (i : nat) | Insert (i : nat).

Section Glb.
  Context {A : Type} (key : A -> pos).

  (* A concrete binary search meeting the contract of slice::binary_search_by_key
     (any match may be returned).  lo/hi half-open, fuel = length. *)
  Fixpoint bsearch_go (fuel : nat) (l : list A) (q : pos) (lo hi : nat) : bsearch_result :=
    match fuel with
    | O => Insert lo
    | S f =>
      if Nat.leb hi lo then Insert lo else
      let mid := (lo + (hi - lo) / 2)%nat in
      match nth_opt l mid with
      | None => Insert lo
      | Some x =>
        if pos_eqb (key x) q then Found mid
        else if pos_ltb (key x) q then bsearch_go f l q (S mid) hi
        else bsearch_go f l q lo mid
      end
    end.
  Definition bsearch (l : list A) (q : pos) : bsearch_result :=
    bsearch_go (S (length l)) l q 0 (length l).

  (* for i in (0..idx).rev() { if key == q { idx = i } else break } *)
  Fixpoint walk_back (l : list A) (q : pos) (idx : nat) : nat :=
    match idx with
    | O => O
    | S i => match nth_opt l i with
             | Some x => if pos_eqb (key x) q then walk_back l q i else idx
             | None => idx
             end
    end.

  Definition glb_with (bs : bsearch_result) (l : list A) (q : pos) : option (nat * A) :=
    match bs with
    | Found i => let j := walk_back l q i in
                 match nth_opt l j with Some x => Some (j, x) | None => None end
    | Insert O => None
    | Insert (S i) => match nth_opt l i with Some x => Some (i, x) | None => None end
    end.
  Definition glb (l : list A) (q : pos) : option (nat * A) := glb_with (bsearch l q) l q.
End Glb.

(* Token handed out by lookup: index, raw token, range offset *)
Definition lookup_token (toks : list rtoken) (line col : Z) : outcome (option (nat * rtoken * Z)) :=
  match glb tok_key toks (line, col) with
  | None => Ok None
  | Some (i, t) =>
    if t_range t && (t_dl t =? line) then
      do off <- u32_sub 20 col (t_dc t); Ok (Some (i, t, off))
    else Ok (Some (i, t, 0))
  end.
Definition tok_src_col (t : rtoken) (off : Z) : Z := sat_add_u32 (t_sc t) off.
