(* Model of SourceMap::adjust_mappings (src/types.rs). *)
From SM Require Import Model.Base Model.Mappings.

Record range := mkRange { r_start : pos; r_end : pos; r_val : rtoken }.
Definition dst_key (t : rtoken) : pos := (t_dl t, t_dc t).
Definition src_key (t : rtoken) : pos := (t_sl t, t_sc t).

(* create_ranges: sort by key, end = min(next start, (line, MAX)) *)
Fixpoint ranges_of (key : rtoken -> pos) (sorted : list rtoken) : list range :=
  match sorted with
  | [] => []
  | t :: rest =>
    let start := key t in
    let next_start := match rest with [] => (u32_max, u32_max) | n :: _ => key n end in
    mkRange start (pos_min next_start (fst start, u32_max)) t :: ranges_of key rest
  end.
Definition create_ranges (key : rtoken -> pos) (toks : list rtoken) : list range :=
  ranges_of key (isort key toks).

(* while original_range.end <= adjustment_range.start { advance } *)
Fixpoint skip_before (a : range) (os : list range) : list range :=
  match os with
  | [] => []
  | o :: os' => if pos_leb (r_end o) (r_start a) then skip_before a os' else os
  end.

(* token emitted for original range o under adjustment range a *)
Definition place (a o : range) : outcome rtoken :=
  let av := r_val a in
  do line_diff <- i32_sub 40 (wrap_i32 (t_dl av)) (wrap_i32 (t_sl av));
  do col_diff <- i32_sub 41 (wrap_i32 (t_dc av)) (wrap_i32 (t_sc av));
  let p := pos_max (r_start o) (r_start a) in
  do l <- i32_add 42 (wrap_i32 (fst p)) line_diff;
  do c <- i32_add 43 (wrap_i32 (snd p)) col_diff;
  let ov := r_val o in
  Ok (mkTok (wrap_u32 l) (wrap_u32 c) (t_sl ov) (t_sc ov) (t_src ov) (t_name ov) (t_range ov)).

(* while original_range.start < adjustment_range.end { emit; if o.end >= a.end break else advance } *)
Fixpoint emit_for (a : range) (os : list range) : outcome (list rtoken * list range) :=
  match os with
  | [] => Ok ([], [])
  | o :: os' =>
    if pos_ltb (r_start o) (r_end a) then
      do t <- place a o;
      if pos_leb (r_end a) (r_end o) then Ok ([t], os)
      else do r <- emit_for a os'; Ok (t :: fst r, snd r)
    else Ok ([], os)
  end.

Fixpoint sweep (adjs : list range) (os : list range) : outcome (list rtoken) :=
  match adjs with
  | [] => Ok []
  | a :: adjs' =>
    match os with
    | [] => Ok []                                   (* break 'outer *)
    | _ =>
      do r <- emit_for a (skip_before a os);
      do more <- sweep adjs' (snd r);
      Ok (fst r ++ more)
    end
  end.

Definition adjust_mappings (self_tokens adjustment_tokens : list rtoken) : outcome (list rtoken) :=
  let original_ranges := create_ranges dst_key self_tokens in
  let adjustment_ranges := create_ranges src_key adjustment_tokens in
  match original_ranges with
  | [] => Ok []                                      (* early return; self.tokens was taken *)
  | _ => do out <- sweep adjustment_ranges original_ranges; Ok (isort dst_key out)
  end.
