(* Model of SourceMap::rewrite_with_mapping, SourceMapIndex (lookup, flatten) and Hermes maps. *)
From SM Require Import Model.Base Model.Mappings Model.Glb Model.SourceMap Model.Vlq.

(* ---- utils::find_common_prefix ---- *)
Definition is_sepb (b : Z) : bool := (b =? 47) || (b =? 92).
(* split_path: pieces keep their leading separator: "/foo/bar" -> ["", "/foo", "/bar"] *)
Fixpoint split_path_go (s : bytes) (cur : bytes) : list bytes :=
  match s with
  | [] => if is_nil cur then [] else [rev cur]
  | b :: s' => if is_sepb b then rev cur :: split_path_go s' [b] else split_path_go s' (b :: cur)
  end.
Definition split_path (s : bytes) : list bytes :=
  match s with [] => [] | _ => split_path_go s [] end.
Definition is_abs_path (s : bytes) : bool :=
  starts_with s [47] ||
  ((3 <? zlen s) &&
   match s with
   | b0 :: b1 :: b2 :: _ => (b1 =? 58) && ((b2 =? 47) || (b2 =? 92))
                            && (((97 <=? b0) && (b0 <=? 122)) || ((65 <=? b0) && (b0 <=? 90)))
   | _ => false end).
Fixpoint lists_eqb (a b : list bytes) : bool :=
  match a, b with [], [] => true | x :: a', y :: b' => bytes_eqb x y && lists_eqb a' b' | _, _ => false end.
Fixpoint common_len (a b : list bytes) : nat :=
  match a, b with x :: a', y :: b' => if bytes_eqb x y then S (common_len a' b') else O | _, _ => O end.
Definition key_len (l : list bytes) : pos := (zlen l, 0).
(* find_common_prefix_of_sorted_vec, literally: `max_idx` is overwritten whenever it is None,
   so a sequence sharing nothing with the shortest one is forgotten by the next sequence *)
Definition opt_nat_lt (a b : option nat) : bool :=
  match a, b with
  | None, Some _ => true
  | Some x, Some y => Nat.ltb x y
  | _, None => false
  end.
Definition seq_max_idx (shortest it : list bytes) : option nat :=
  match common_len shortest it with O => None | S k => Some k end.
Definition common_prefix_sorted (items : list (list bytes)) : option (list bytes) :=
  match items with
  | [] => None
  | shortest :: _ =>
    let max_idx := fold_left (fun acc it =>
                     let m := seq_max_idx shortest it in
                     match acc with
                     | None => m
                     | Some _ => if opt_nat_lt m acc then m else acc
                     end) items None in
    match max_idx with
    | Some k => Some (firstn (S k) shortest)
    | None => None
    end
  end.
Definition find_common_prefix (sources : list bytes) : option bytes :=
  let items := isort key_len (map split_path (filter is_abs_path sources)) in
  match common_prefix_sorted items with
  | Some sl => let rv := concat sl in
               if negb (is_nil rv) && negb (bytes_eqb rv [47]) then Some rv else None
  | None => None
  end.

(* ---- rewrite ---- *)
Record rewrite_options := mkRO { ro_names : bool; ro_contents : bool; ro_prefixes : list bytes }.

Fixpoint rewrite_tokens (m : smap) (o : rewrite_options) (ts : list rtoken) (b : builder) : outcome builder :=
  match ts with
  | [] => Ok b
  | t :: ts' =>
    let name := if ro_names o then tok_name m t else None in
    let '(raw, b1) := add_with_id (t_dl t) (t_dc t) (t_sl t) (t_sc t) (tok_source m t) (t_src t) name (t_range t) b in
    do b2 <- (if negb (t_src raw =? NONE) && ro_contents o && negb (b_has_source_contents b1 (t_src raw))
              then b_set_source_contents (t_src raw) (get_source_contents m (t_src t)) b1 else Ok b1);
    rewrite_tokens m o ts' b2
  end.
Definition tilde := [126].
Definition rewrite_with_mapping (m : smap) (o : rewrite_options) : outcome (smap * list Z) :=
  let b0 := b_set_debug_id (sm_debug_id m) (builder_new (sm_file m)) in
  do b1 <- rewrite_tokens m o (sm_tokens m) b0;
  let explicit := filter (fun p => negb (bytes_eqb p tilde)) (ro_prefixes o) in
  let need_common := existsb (fun p => bytes_eqb p tilde) (ro_prefixes o) in
  let prefixes := explicit ++ (if need_common then match find_common_prefix (sm_sources m) with Some p => [p] | None => [] end else []) in
  let b2 := if is_nil prefixes then b1 else strip_prefixes prefixes b1 in
  Ok (into_sourcemap b2, b_mapping b2).
Definition rewrite (m : smap) (o : rewrite_options) : outcome smap :=
  do r <- rewrite_with_mapping m o; Ok (fst r).

(* ---- Hermes ---- *)
Record scope_offset := mkSO { so_line : Z; so_col : Z; so_name : Z }.
Record function_map := mkFM { fm_names : list bytes; fm_mappings : list scope_offset }.
Record raw_scope := mkRS { rs_names : list bytes; rs_mappings : bytes }.
Definition fb_sources := list (option (list raw_scope)).
Record hermes := mkH { h_sm : smap; h_fmaps : list (option function_map); h_raw : option fb_sources }.

Definition nth_or0 (l : list Z) (n : nat) : Z := nth n l 0.
Fixpoint fm_segments (segs : list bytes) (col name line : Z) (acc : list scope_offset)
  : option (Z * Z * list scope_offset) :=       (* name, line, acc (reversed) ; None = parse failure *)
  match segs with
  | [] => Some (name, line, acc)
  | seg :: segs' =>
    if is_nil seg then fm_segments segs' col name line acc else
    match parse_vlq_segment seg with
    | Ok (n0 :: rest) =>
      let col' := wrap_u32 (col + n0) in
      let name' := wrap_u32 (name + nth_or0 rest 0) in
      let line' := wrap_u32 (line + nth_or0 rest 1) in
      fm_segments segs' col' name' line' (mkSO line' col' name' :: acc)
    | _ => None
    end
  end.
Fixpoint fm_lines (lines : list bytes) (name line : Z) (acc : list scope_offset) : option (list scope_offset) :=
  match lines with
  | [] => Some (rev acc)
  | l :: lines' =>
    if is_nil l then fm_lines lines' name line acc else
    match fm_segments (split_on 44 l) 0 name line acc with
    | Some (name', line', acc') => fm_lines lines' name' line' acc'
    | None => None
    end
  end.
Definition decode_function_map (v : option (list raw_scope)) : option function_map :=
  match v with
  | Some (rs :: _) =>
    match fm_lines (split_on 59 (rs_mappings rs)) 0 1 [] with
    | Some ms => Some (mkFM (rs_names rs) ms)
    | None => None end
  | _ => None
  end.
Definition so_key (s : scope_offset) : pos := (so_line s, so_col s).
(* as repaired: src_line.checked_add(1)? *)
Definition get_scope_for_token (h : hermes) (t : rtoken) (off : Z) : option bytes :=
  match znth_opt (h_fmaps h) (t_src t) with
  | Some (Some fm) =>
    if u32_max <=? t_sl t then None else
    match glb so_key (fm_mappings fm) (t_sl t + 1, tok_src_col t off) with
    | Some (_, m) => znth_opt (fm_names fm) (so_name m)
    | None => None end
  | _ => None
  end.
Definition h_get_original_function_name (h : hermes) (bytecode_offset : Z) : outcome (option bytes) :=
  do r <- lookup_token (sm_tokens (h_sm h)) 0 bytecode_offset;
  match r with Some (_, t, off) => Ok (get_scope_for_token h t off) | None => Ok None end.
(* as repaired: get_mut(idx).and_then(Option::take) *)
Definition h_rewrite (h : hermes) (o : rewrite_options) : outcome hermes :=
  do r <- rewrite_with_mapping (h_sm h) o;
  let '(m', mapping) := r in
  if Nat.leb (length mapping) (length (h_fmaps h)) then
    let fmaps' := map (fun idx => match znth_opt (h_fmaps h) idx with Some x => x | None => None end) mapping in
    let raw' := match h_raw h with
                | Some srcs => Some (map (fun idx => match znth_opt srcs idx with Some x => x | None => None end) mapping)
                | None => None end in
    Ok (mkH m' fmaps' raw')
  else Ok (mkH m' (h_fmaps h) (h_raw h)).

(* ---- index maps ---- *)
Inductive dmap :=
| DRegular (m : smap)
| DIndex (file : option bytes) (sections : list (pos * option bytes * option dmap))
| DHermes (h : hermes).
Definition sec_key (s : pos * option bytes * option dmap) : pos := fst (fst s).

Fixpoint dm_lookup (fuel : nat) (d : dmap) (line col : Z) : outcome (option (smap * rtoken * Z)) :=
  match fuel with O => Ok None | S f =>
  match d with
  | DRegular m => do r <- lookup_token (sm_tokens m) line col;
                  Ok (match r with Some (_, t, off) => Some (m, t, off) | None => None end)
  | DHermes h => do r <- lookup_token (sm_tokens (h_sm h)) line col;
                  Ok (match r with Some (_, t, off) => Some (h_sm h, t, off) | None => None end)
  | DIndex _ sections =>
    match glb sec_key sections (line, col) with
    | None => Ok None
    | Some (_, (off, _, None)) => Ok None
    | Some (_, (off, _, Some inner)) =>
      do l <- u32_sub 70 line (fst off);
      do c <- (if line =? fst off then u32_sub 71 col (snd off) else Ok col);
      dm_lookup f inner l c
    end
  end end.

Fixpoint flatten_tokens (m : smap) (off : pos) (ts : list rtoken) (b : builder) : outcome builder :=
  match ts with
  | [] => Ok b
  | t :: ts' =>
    let oc := if t_dl t =? 0 then t_dc t + snd off else t_dc t in
    let ol := t_dl t + fst off in
    if negb (is_u32 oc) || negb (is_u32 ol) then Err ECannotFlatten else     (* as repaired *)
    let '(raw, b1) := add ol oc (t_sl t) (t_sc t) (tok_source m t) (tok_name m t) (t_range t) b in
    do b2 <- (if (match tok_source m t with Some _ => true | None => false end) && negb (b_has_source_contents b1 (t_src raw))
              then b_set_source_contents (t_src raw) (get_source_contents m (t_src t)) b1 else Ok b1);
    let b3 := if existsb (Z.eqb (t_src t)) (sm_ignore m) then b_add_to_ignore_list (t_src raw) b2 else b2 in
    flatten_tokens m off ts' b3
  end.
Fixpoint flatten (fuel : nat) (file : option bytes) (sections : list (pos * option bytes * option dmap)) : outcome smap :=
  match fuel with O => Err ECannotFlatten | S f =>
  let fix go (secs : list (pos * option bytes * option dmap)) (b : builder) : outcome builder :=
    match secs with
    | [] => Ok b
    | (off, _, None) :: _ => Err ECannotFlatten
    | (off, _, Some d) :: secs' =>
      do m <- match d with
              | DRegular m => Ok m
              | DHermes h => Ok (h_sm h)
              | DIndex file' secs'' => flatten f file' secs''
              end;
      do b' <- flatten_tokens m off (sm_tokens m) b;
      go secs' b'
    end in
  do b <- go sections (builder_new file); Ok (into_sourcemap b)
  end.
