(* JSON values, the RawSourceMap record (src/jsontypes.rs) and the serde-derive reading/writing of it,
   decode_common / decode_regular / decode_index / decode_hermes glue (src/decoder.rs, src/hermes.rs)
   and Encodable::as_raw_sourcemap (src/encoder.rs, src/hermes.rs). *)
From SM Require Import Model.Base Model.Mappings Model.Glb Model.SourceMap Model.Rewrite.

Inductive jvalue :=
| JNull | JBool (b : bool)
| JNum (text : bytes) (u32 : option Z)       (* textual form as serde_json prints it; value when it is a u32 *)
| JStr (s : bytes)
| JArr (l : list jvalue)
| JObj (fields : list (bytes * jvalue)).

Inductive raw :=
  mkRaw (version : option Z) (file : option jvalue) (sources : option (list (option bytes)))
        (source_root : option bytes) (sources_content : option (list (option bytes)))
        (sections : option (list (pos * option bytes * option raw)))
        (names : option (list jvalue)) (range_mappings : option bytes) (mappings : option bytes)
        (ignore_list : option (list Z)) (fb_offsets : option (list (option Z))) (metro_paths : option (list bytes))
        (fb_sources : option fb_sources) (debug_id : option Z) (debug_id_new : option Z).

Definition r_version r := match r with mkRaw v _ _ _ _ _ _ _ _ _ _ _ _ _ _ => v end.
Definition r_file r := match r with mkRaw _ v _ _ _ _ _ _ _ _ _ _ _ _ _ => v end.
Definition r_sources r := match r with mkRaw _ _ v _ _ _ _ _ _ _ _ _ _ _ _ => v end.
Definition r_source_root r := match r with mkRaw _ _ _ v _ _ _ _ _ _ _ _ _ _ _ => v end.
Definition r_sources_content r := match r with mkRaw _ _ _ _ v _ _ _ _ _ _ _ _ _ _ => v end.
Definition r_sections r := match r with mkRaw _ _ _ _ _ v _ _ _ _ _ _ _ _ _ => v end.
Definition r_names r := match r with mkRaw _ _ _ _ _ _ v _ _ _ _ _ _ _ _ => v end.
Definition r_range_mappings r := match r with mkRaw _ _ _ _ _ _ _ v _ _ _ _ _ _ _ => v end.
Definition r_mappings r := match r with mkRaw _ _ _ _ _ _ _ _ v _ _ _ _ _ _ => v end.
Definition r_ignore_list r := match r with mkRaw _ _ _ _ _ _ _ _ _ v _ _ _ _ _ => v end.
Definition r_fb_offsets r := match r with mkRaw _ _ _ _ _ _ _ _ _ _ v _ _ _ _ => v end.
Definition r_metro_paths r := match r with mkRaw _ _ _ _ _ _ _ _ _ _ _ v _ _ _ => v end.
Definition r_fb_sources r := match r with mkRaw _ _ _ _ _ _ _ _ _ _ _ _ v _ _ => v end.
Definition r_debug_id r := match r with mkRaw _ _ _ _ _ _ _ _ _ _ _ _ _ v _ => v end.
Definition r_debug_id_new r := match r with mkRaw _ _ _ _ _ _ _ _ _ _ _ _ _ _ v => v end.

Definition odefault {A} (d : A) (o : option A) : A := match o with Some x => x | None => d end.
Definition invalid_file := [60;105;110;118;97;108;105;100;62].      (* "<invalid>" *)

(* ---------- decode ---------- *)
Definition names_of (vs : list jvalue) : list bytes :=
  map (fun v => match v with JStr s => s | JNum text _ => text | _ => [] end) vs.
Definition file_of (v : jvalue) : bytes := match v with JStr s => s | _ => invalid_file end.

Definition decode_regular (r : raw) : outcome smap :=
  let names := odefault [] (r_names r) in
  let sources := odefault [] (r_sources r) in
  do toks <- decode_mappings (zlen sources) (zlen names) (odefault [] (r_mappings r)) (odefault [] (r_range_mappings r));
  let m := sm_new (option_map file_of (r_file r)) toks (names_of names) (map (odefault []) sources) (r_sources_content r) in
  let m := set_source_root (r_source_root r) m in
  let m := set_debug_id (match r_debug_id r with Some d => Some d | None => r_debug_id_new r end) m in
  Ok (fold_left (fun m i => add_to_ignore_list i m) (odefault [] (r_ignore_list r)) m).

Definition decode_hermes (r : raw) : outcome hermes :=
  match r_fb_sources r with
  | None => Err EIncompatible
  | Some fbs =>
    do m <- decode_regular r;
    Ok (mkH m (map decode_function_map fbs) (Some fbs))
  end.

Fixpoint decode_common (fuel : nat) (r : raw) : outcome dmap :=
  match fuel with O => Err EJson | S f =>
  match r_sections r with
  | Some secs =>
    let fix go (l : list (pos * option bytes * option raw)) : outcome (list (pos * option bytes * option dmap)) :=
      match l with
      | [] => Ok []
      | (off, url, m) :: l' =>
        do d <- match m with Some rm => do x <- decode_common f rm; Ok (Some x) | None => Ok None end;
        do rest <- go l'; Ok ((off, url, d) :: rest)
      end in
    do ss <- go secs;
    Ok (DIndex (option_map (fun v => match v with JStr s => s | _ => invalid_file end) (r_file r)) (isort sec_key ss))
  | None =>
    match r_fb_sources r with
    | Some _ => do h <- decode_hermes r; Ok (DHermes h)
    | None => do m <- decode_regular r; Ok (DRegular m)
    end
  end end.

(* ---------- encode ---------- *)
Definition sm_as_raw (m : smap) : raw :=
  let n := length (sm_sources m) in
  let contents := map (fun i => get_source_contents m (Z.of_nat i)) (seq 0 n) in
  let have := existsb (fun c => match c with Some _ => true | None => false end) contents in
  let nn := zlen (sm_names m) in
  mkRaw (Some 3) (option_map JStr (sm_file m)) (Some (map Some (sm_sources m))) (sm_root m)
        (if have then Some contents else None) None (Some (map JStr (sm_names m)))
        (serialize_range_mappings nn (sm_tokens m)) (Some (serialize_mappings nn (sm_tokens m)))
        (if is_nil (sm_ignore m) then None else Some (sm_ignore m)) None None None (sm_debug_id m) None.
Definition with_fb_sources (r : raw) (f : option fb_sources) : raw :=
  match r with mkRaw a b c d e f0 g h i j k l _ n o => mkRaw a b c d e f0 g h i j k l f n o end.
Fixpoint dm_as_raw (fuel : nat) (d : dmap) : raw :=
  match fuel with O => mkRaw None None None None None None None None None None None None None None None | S f =>
  match d with
  | DRegular m => sm_as_raw m
  | DHermes h => with_fb_sources (sm_as_raw (h_sm h)) (h_raw h)
  | DIndex file secs =>
    mkRaw (Some 3) (option_map JStr file) None None None
          (Some (map (fun '(off, url, m) => (off, url, option_map (dm_as_raw f) m)) secs))
          None None None None None None None None None
  end end.
