(* Interleaving model of concurrent SourceView::get_line / line_count.
   `fixed = false`: the code as found (check, unlock, relaxed load, lock again, index);
   `fixed = true` : one critical section per call (DESIGN.md Appendix A). *)
From SM Require Import Model.Base Model.SourceView.

Inductive call := CGetLine (idx : Z) | CLineCount.
Inductive answer := ALine (l : option bytes) | ACount (n : Z) | APanic.

Inductive pc :=
| PEntry            (* before the first lock *)
| PMissed           (* yield point 1: the cached-line check missed (unfixed: lock released; fixed: lock held) *)
| PWantLock         (* yield point 2: passed the "fetched everything" test (unfixed: about to lock; fixed: lock held) *)
| PLoop             (* holding the lock, at the top of a loop iteration *)
| PCount            (* line_count: get_line(!0) returned, about to lock and read len *)
| PDone.

Record thread := mkT { th_pc : pc; th_calls : list call; th_seen : nat (* history index synchronised with *);
                       th_answers : list answer (* reversed *) }.
Record shared := mkS { s_sv : sv; s_hist : list Z (* all values of processed_until, oldest first *);
                       s_owner : option nat; s_poisoned : bool }.

Definition cur_idx (t : thread) : Z :=
  match th_calls t with CGetLine i :: _ => i | _ => u32_max end.
Definition finish (t : thread) (a : option bytes) (seen : nat) : thread :=
  match th_calls t with
  | CGetLine _ :: rest => mkT (match rest with [] => PDone | _ => PEntry end) rest seen (ALine a :: th_answers t)
  | CLineCount :: _ => mkT PCount (th_calls t) seen (th_answers t)
  | [] => t
  end.
Definition finish_panic (t : thread) : thread := mkT PDone [] (th_seen t) (APanic :: th_answers t).
Definition push_hist (s : shared) (st : sv) : list Z :=
  if sv_pu st =? sv_pu (s_sv s) then s_hist s else s_hist s ++ [sv_pu st].

(* A step of thread `me`; `choice` selects the stale value for the relaxed load.
   None = step not enabled (lock held by someone else, or thread finished). *)
Definition step (fixed : bool) (src : bytes) (me : nat) (choice : nat) (t : thread) (s : shared)
  : option (thread * shared) :=
  let free := match s_owner s with None => true | Some _ => false end in
  let mine := match s_owner s with Some o => Nat.eqb o me | None => false end in
  let now := length (s_hist s) in
  match th_pc t with
  | PDone => None
  | PEntry =>
    if negb free then None else
    if s_poisoned s then Some (finish_panic t, s) else
    (* lock, cached-line check; unfixed: unlock in both cases; fixed: the guard stays alive on a miss *)
    match znth_opt (sv_lines (s_sv s)) (cur_idx t) with
    | Some l => Some (finish t (Some l) now, s)
    | None => Some (mkT PMissed (th_calls t) now (th_answers t),
                    if fixed then mkS (s_sv s) (s_hist s) (Some me) false else s)
    end
  | PMissed =>
    if fixed then
      if negb mine then None else
      (* the "fetched everything" test, under the lock *)
      if zlen src <? sv_pu (s_sv s)
      then Some (finish t None now, mkS (s_sv s) (s_hist s) None false)
      else Some (mkT PWantLock (th_calls t) now (th_answers t), s)
    else
      (* relaxed load outside the lock: any value not older than th_seen *)
      let k := Nat.max (th_seen t) (Nat.min choice now) in
      let v := nth (Nat.pred k) (s_hist s) 0 in
      if zlen src <? v then Some (finish t None (th_seen t), s)
      else Some (mkT PWantLock (th_calls t) (th_seen t) (th_answers t), s)
  | PWantLock =>
    if fixed then (if negb mine then None else Some (mkT PLoop (th_calls t) now (th_answers t), s)) else
    if negb free then None else
    if s_poisoned s then Some (finish_panic t, s) else
    Some (mkT PLoop (th_calls t) now (th_answers t), mkS (s_sv s) (s_hist s) (Some me) false)
  | PLoop =>
    if negb mine then None else
    match index_step src (s_sv s) with
    | Panic _ => Some (finish_panic t, mkS (s_sv s) (s_hist s) None true)
    | Err _ => None
    | Ok (st', done) =>
      let s' := mkS st' (push_hist s st') (Some me) false in
      let now' := length (s_hist s') in
      match znth_opt (sv_lines st') (cur_idx t) with
      | Some l => Some (finish t (Some l) now', mkS st' (s_hist s') None false)
      | None => if done then Some (finish t None now', mkS st' (s_hist s') None false)
                else Some (mkT PLoop (th_calls t) now' (th_answers t), s')
      end
    end
  | PCount =>
    if negb free then None else
    if s_poisoned s then Some (finish_panic t, s) else
    match th_calls t with
    | _ :: rest => Some (mkT (match rest with [] => PDone | _ => PEntry end) rest now
                             (ACount (zlen (sv_lines (s_sv s))) :: th_answers t), s)
    | [] => None
    end
  end.

Definition init_shared : shared := mkS sv_new [0] None false.
Definition init_thread (cs : list call) : thread :=
  mkT (match cs with [] => PDone | _ => PEntry end) cs 1 [].
