From SM Require Import Model.Base Model.RamBundle Spec.RamBundle.
Definition opt_eqb (a b : option bytes) := match a, b with None, None => true | Some x, Some y => bytes_eqb x y | _, _ => false end.
Definition check (b : abundle) : bool :=
  match parse (layout b) with
  | Ok p =>
    (b_count p =? zlen (ab_modules b))
    && match startup_code p with Ok s => bytes_eqb s (ab_startup b) | _ => false end
    && forallb (fun '(i, m) => match get_module p (Z.of_nat i) with Ok r => opt_eqb r m | _ => false end)
               (combine (seq 0 (length (ab_modules b))) (ab_modules b))
    && match get_module p (zlen (ab_modules b)) with Err ERamIndex => true | _ => false end
    && is_ram_bundle (layout b)
  | _ => false end.
Definition mods : list (option bytes) := [None; Some []; Some [120]; Some [255; 0; 7]].
Fixpoint tables (n : nat) : list (list (option bytes)) :=
  match n with O => [[]] | S n' => [] :: flat_map (fun t => map (fun m => m :: t) mods) (tables n') end.
Eval vm_compute in forallb (fun t => forallb (fun s => check (mkAB s t)) [[83]; [83; 84; 0]]) (tables 4).
(* every truncation of a bundle: never a panic; recognition iff >= 12 bytes *)
Definition total (bs : bytes) : bool :=
  Bool.eqb (is_ram_bundle bs) (12 <=? zlen bs) &&
  match parse bs with
  | Ok p => negb (is_panic (startup_code p)) && forallb (fun i => negb (is_panic (get_module p i))) [0;1;2;3;4;5]
  | Err _ => true | Panic _ => false end.
Definition sample := layout (mkAB [83;84] [Some [120;121]; None; Some []]).
Eval vm_compute in forallb (fun n => total (firstn n sample)) (seq 0 (S (length sample))).
