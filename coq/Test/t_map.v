From SM Require Import Model.Base Model.Gen_B64 Model.Vlq Model.Mappings.

Definition norm (t : rtoken) : rtoken :=
  if has_source t then t else mkTok (t_dl t) (t_dc t) 0 0 NONE NONE (t_range t).
Fixpoint dedup (nn : Z) (prev : option rtoken) (ts : list rtoken) : list rtoken :=
  match ts with
  | [] => []
  | t :: ts' =>
    match prev with
    | Some p => if is_same_segment nn p t then dedup nn (Some t) ts' else t :: dedup nn (Some t) ts'
    | None => t :: dedup nn (Some t) ts'
    end
  end.
Definition toks_eqb (a b : list rtoken) : bool :=
  (Nat.eqb (length a) (length b)) && forallb (fun '(x, y) => rtoken_eqb (norm x) (norm y)) (combine a b).

Definition roundtrip_ok (nsrc nn : Z) (ts : list rtoken) : bool :=
  let m := serialize_mappings nn ts in
  let r := match serialize_range_mappings nn ts with Some r => r | None => [] end in
  match decode_mappings nsrc nn m r with
  | Ok ts' => toks_eqb ts' (dedup nn None ts)
  | _ => false
  end.

Definition dom : list rtoken :=
  flat_map (fun dl => flat_map (fun dc => flat_map (fun src => flat_map (fun sl => flat_map (fun nm =>
    map (fun rg => mkTok dl dc sl (if src =? NONE then 0 else sl * 3) src (if src =? NONE then NONE else nm) rg)
    [false; true]) [NONE; 0; 1]) [0; 5]) [NONE; 0; 1]) [0; 7]) [0; 1; 3].
Eval vm_compute in length dom.
Definition sorted2 (a b : rtoken) := pos_leb (tok_key a) (tok_key b).
Definition pairs := flat_map (fun a => map (fun b => [a; b]) (filter (sorted2 a) dom)) dom.
Eval vm_compute in length pairs.
Eval vm_compute in forallb (roundtrip_ok 2 2) ([] :: map (fun a => [a]) dom).
Eval vm_compute in filter (fun ts => negb (roundtrip_ok 2 2 ts)) (firstn 4000 pairs).
Eval vm_compute in forallb (roundtrip_ok 2 2) pairs.
(* the witness of finding 7: (0,0) (0,0) (0,5,range) *)
Eval vm_compute in let a := mkTok 0 0 0 0 0 NONE false in let c := mkTok 0 5 0 5 0 NONE true in
  (serialize_mappings 0 [a; a; c], serialize_range_mappings 0 [a; a; c], roundtrip_ok 1 0 [a;a;c]).
(* 20 tokens on a line, #16 range; range first on line 1 *)
Eval vm_compute in let ts := map (fun i => mkTok 0 (Z.of_nat i) 0 (Z.of_nat i) 0 NONE (Nat.eqb i 16)) (seq 0 20) in
  (serialize_range_mappings 0 ts, roundtrip_ok 1 0 ts).
Eval vm_compute in let ts := [mkTok 0 0 0 0 0 NONE false; mkTok 1 0 1 0 0 NONE true; mkTok 1 5 1 5 0 NONE false] in
  (serialize_mappings 0 ts, serialize_range_mappings 0 ts, roundtrip_ok 1 0 ts).
(* K,IACA,J *)
Eval vm_compute in decode_mappings 1 0 [75;44;73;65;67;65;44;74] [].
