From SM Require Import Model.Base Model.Paths Spec.Paths.
Definition names : list bytes := [[97]; [98]; [99; 46; 106; 115]].
Fixpoint paths (n : nat) : list (list bytes) :=
  match n with O => [[]] | S n' => [] :: flat_map (fun p => map (fun c => c :: p) names) (paths n') end.
Definition render (abs : bool) (sep : Z) (p : list bytes) : bytes := (if abs then [47] else []) ++ join_with [sep] p.
Fixpoint lists_eqb (a b : list bytes) : bool :=
  match a, b with [], [] => true | x :: a', y :: b' => bytes_eqb x y && lists_eqb a' b' | _, _ => false end.
Definition check (b t : list bytes) : bool :=
  match b with [] => true | _ =>
  forallb (fun abs => forallb (fun sep =>
    let r := make_relative_path (render abs sep b) (render abs 47 t) in
    lists_eqb (resolve_str (removelast b) r) t
    && Bool.eqb (bytes_eqb r [46]) (lists_eqb t (removelast b))) [47; 92]) [true; false] end.
Eval vm_compute in length (paths 4).
Eval vm_compute in forallb (fun b => forallb (check b) (paths 4)) (paths 4).
Eval vm_compute in make_relative_path [47;102;111;111;47;98;46;106;115] [47;102;111;111;47;120;47;121].
