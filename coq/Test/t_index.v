From SM Require Import Model.Base Model.Mappings Model.Glb Model.SourceMap Model.Rewrite.
Definition mk_sm (srcs : list bytes) (toks : list rtoken) (ign : list Z) : smap :=
  fold_left (fun m i => add_to_ignore_list i m) ign (sm_new None toks [[110]] srcs (Some (map (fun s => Some (s ++ [33])) srcs))).
Fixpoint subsets {A} (l : list A) : list (list A) :=
  match l with [] => [[]] | x :: r => let s := subsets r in s ++ map (cons x) s end.
Definition toks_a : list rtoken :=
  [mkTok 0 0 1 1 0 NONE false; mkTok 0 3 2 2 1 0 true; mkTok 1 1 3 3 0 NONE false; mkTok 1 1 4 4 1 NONE false; mkTok 2 5 5 5 0 0 true].
Definition orig (m : smap) (t : rtoken) (off : Z) := (tok_source m t, t_sl t, tok_src_col t off, tok_name m t).
Definition opt_b (a b : option bytes) := match a, b with None, None => true | Some x, Some y => bytes_eqb x y | _, _ => false end.
Definition orig_eqb (a b : option bytes * Z * Z * option bytes) : bool :=
  let '(s1, l1, c1, n1) := a in let '(s2, l2, c2, n2) := b in opt_b s1 s2 && (l1 =? l2) && (c1 =? c2) && opt_b n1 n2.
Definition queries : list pos :=
  flat_map (fun l => map (fun c => (l, c)) [0;1;2;3;4;5;6;9;4294967295]) [0;1;2;3;4;5;6;7;8;12;4294967295].
Definition agree (ix : dmap) : bool :=
  match ix with
  | DIndex file secs =>
    match flatten 5 file secs with
    | Ok flat =>
      forallb (fun q =>
        match dm_lookup 5 ix (fst q) (snd q), lookup_token (sm_tokens flat) (fst q) (snd q) with
        | Ok (Some (m, t, off)), Ok (Some (_, t', off')) => orig_eqb (orig m t off) (orig flat t' off')
        | Ok (Some _), _ => false
        | Ok None, Ok _ => true
        | _, _ => false
        end) queries
    | _ => false end
  | _ => true end.
Definition secs_of (a b c : list rtoken) : dmap :=
  DIndex None [((0, 2), None, Some (DRegular (mk_sm [[97];[98]] a [1])));
               ((3, 4), None, Some (DIndex None [((0,0), None, Some (DRegular (mk_sm [[98];[99]] b [])));
                                                 ((3,1), None, Some (DRegular (mk_sm [[97];[97]] c [0])))]));
               ((9, 0), None, Some (DRegular (mk_sm [[100]; [101]] a [])))].
Eval vm_compute in forallb (fun a => forallb (fun b => agree (secs_of a b (rev a))) (subsets toks_a)) (subsets toks_a).
Eval vm_compute in match flatten 5 None (match secs_of toks_a toks_a toks_a with DIndex _ s => s | _ => [] end) with
  | Ok f => (map (fun t => (t_dl t, t_dc t, t_src t)) (sm_tokens f), sm_sources f, sm_ignore f, sm_contents f) | _ => ([], [], [], []) end.
