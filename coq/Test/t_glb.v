From SM Require Import Model.Base Model.Glb Spec.Glb.
Definition key (p : pos * Z) := fst p.
Definition res_eqb (a b : option (nat * (pos * Z))) : bool :=
  match a, b with
  | None, None => true
  | Some (i, (p, x)), Some (j, (r, y)) => Nat.eqb i j && pos_eqb p r && (x =? y)
  | _, _ => false end.
(* all sorted key lists of length n over a 2x3 grid, tagged with their index *)
Definition grid : list pos := [(0,0);(0,1);(0,2);(1,0);(1,1);(1,2)].
Fixpoint sorted_lists (n : nat) (lo : pos) : list (list pos) :=
  match n with
  | O => [[]]
  | S n' => [] :: flat_map (fun p => if pos_leb lo p then map (cons p) (sorted_lists n' p) else []) grid
  end.
Definition tag (l : list pos) : list (pos * Z) := combine l (map Z.of_nat (seq 0 (length l))).
Definition queries : list pos := [(0,0);(0,1);(0,2);(0,3);(1,0);(1,1);(1,2);(2,0);(1,4294967295)].
Definition check (l : list pos) : bool :=
  forallb (fun q => res_eqb (glb key (tag l) q) (spec_glb key (tag l) q)) queries.
Eval vm_compute in length (sorted_lists 6 (0,0)).
Eval vm_compute in forallb check (sorted_lists 6 (0,0)).
