From SM Require Import Model.Base Model.Mappings Model.SourceView Model.NameRes Spec.NameRes.
Definition is_start (c : Z) := existsb (Z.eqb c) [97; 98; 102;117;110;99;116;105;111; 36; 233; 119964].
Definition is_cont (c : Z) := is_start c || existsb (Z.eqb c) [49; 8205].
Definition is_ws (c : Z) := existsb (Z.eqb c) [32; 160].
Definition fnw := [102;117;110;99;116;105;111;110].
(* words to build lines from *)
Definition words : list (list Z) := [fnw ++ [32]; [97;32]; [97; 233]; [119964]; [128076]; [40]; [32]; [98;49;32]].
Fixpoint lines_of (n : nat) : list (list Z) :=
  match n with O => [[]] | S n' => [] :: flat_map (fun l => map (fun w => w ++ l) words) (lines_of n') end.
Definition names := [[97]; [97;233]; [119964]; fnw; [98;49]; [49]; []].
Definition opt_t (a b : option rtoken) := match a, b with None, None => true | Some x, Some y => rtoken_eqb x y | _, _ => false end.
(* tokens at every column of the (single) line 0 plus one on line 1; window 4 to exercise the budget *)
Definition check_line (line : list Z) : bool :=
  let n := Z.to_nat (fold_right (fun c a => len_utf16 c + a) 0 line) in
  let cols := filter (fun c => negb (inside_pair line 0 (Z.of_nat c))) (seq 0 (n + 2)) in
  let toks := map (fun c => mkTok 0 (Z.of_nat c) 0 0 0 (Z.of_nat c) false) cols ++ [mkTok 1 0 0 0 0 77 false] in
  let get_line := fun l => if l =? 0 then Some line else None in
  forallb (fun i => forallb (fun name =>
     match get_original_function_name is_start is_cont is_ws 4 get_line toks i name with
     | Ok r => opt_t r (spec_resolve is_start is_cont is_ws 4 get_line toks i name)
     | _ => false end) names) (seq 0 (length toks)).
Eval vm_compute in length (lines_of 4).
Eval vm_compute in forallb check_line (lines_of 4).
