From SM Require Import Model.Base Model.Mappings Model.Glb Model.SourceMap Model.Rewrite Model.Raw.
Definition oeq (a b : option bytes) := match a, b with None, None => true | Some x, Some y => bytes_eqb x y | _, _ => false end.
Definition raw_core_eqb (a b : raw) : bool :=
  oeq (r_mappings a) (r_mappings b) && oeq (r_range_mappings a) (r_range_mappings b) && oeq (r_source_root a) (r_source_root b)
  && match r_sources a, r_sources b with Some x, Some y => lists_eqb (map (odefault []) x) (map (odefault []) y) | None, None => true | _, _ => false end
  && match r_sources_content a, r_sources_content b with
     | Some x, Some y => Nat.eqb (length x) (length y) && forallb (fun '(p, q) => oeq p q) (combine x y) | None, None => true | _, _ => false end.
Definition idem (r : raw) : option bool :=
  match decode_common 5 r with
  | Ok d => let r1 := dm_as_raw 5 d in
            match decode_common 5 r1 with
            | Ok d2 => Some (raw_core_eqb (dm_as_raw 5 d2) r1)
            | _ => Some false end
  | _ => None end.
Definition doc (m rm : bytes) (srcs : list (option bytes)) (cont : option (list (option bytes))) (root : option bytes) : raw :=
  mkRaw (Some 3) None (Some srcs) root cont None (Some [JStr [110]; JNum [53] (Some 5); JNull]) (Some rm) (Some m) (Some [1; 0; 1]) None None None (Some 7) (Some 8).
(* K,IACA,J ; AAAA;;AACA,KAAK with ranges ";;B" ; contents longer than sources *)
Eval vm_compute in idem (doc [75;44;73;65;67;65;44;74] [] [Some [97]] None None).
Eval vm_compute in idem (doc [65;65;65;65;59;59;65;65;67;65;44;75;65;65;75] [59;59;66] [Some [97]; None] (Some [None; Some [120]; Some [121]]) (Some [114; 47])).
Eval vm_compute in match decode_common 5 (doc [65;65;65;65;59;59;65;65;67;65;44;75;65;65;75] [59;59;66] [Some [97]; None] (Some [None; Some [120]; Some [121]]) (Some [114; 47])) with
  | Ok (DRegular m) => Some (sm_tokens m, sm_prefixed m, sm_ignore m, sm_debug_id m, sm_names m, r_sources_content (sm_as_raw m)) | _ => None end.
