From SM Require Import Model.Base Model.SourceView Spec.SourceView.
Definition alphabet := [97; 10; 13].
Fixpoint forall_strings (al : list Z) (n : nat) (suffix : list Z) (P : list Z -> bool) : bool :=
  match n with
  | O => P suffix
  | S n' => P suffix && forallb (fun c => forall_strings al n' (c :: suffix) P) al
  end.
Definition opt_eqb (a b : option bytes) := match a, b with None, None => true | Some x, Some y => bytes_eqb x y | _, _ => false end.
(* run a history of requests (idx; -1 = line_count) and compare each answer with the spec *)
Fixpoint run (src : bytes) (reqs : list Z) (st : sv) : bool :=
  match reqs with
  | [] => true
  | r :: reqs' =>
    if r <? 0 then
      match line_count src st with
      | Ok (st', n) => (n =? zlen (split_lines src)) && run src reqs' st'
      | _ => false end
    else
      match get_line src r st with
      | Ok (st', ans) => opt_eqb ans (znth_opt (split_lines src) r) && run src reqs' st'
      | _ => false end
  end.
Definition reqdom := [-1; 0; 1; 2; 3; 5].
Definition check_text (src : bytes) : bool :=
  forall_strings reqdom 3 [] (fun reqs => run src reqs sv_new).
Eval vm_compute in forall_strings alphabet 5 [] check_text.
(* slices *)
Definition sopt_eqb := opt_eqb.
Definition al2 := [97; 233; 128076].
Definition check_line (line : list Z) : bool :=
  forallb (fun c => forallb (fun n =>
     start_inside_pair line c n || sopt_eqb (get_line_slice line c n) (covering line c n))
     [0;1;2;3;4;5;9]) [0;1;2;3;4;5;6;7;9].
Eval vm_compute in forall_strings al2 4 [] check_line.
Eval vm_compute in (get_line_slice [97;98;99;128076;100] 4 2, covering [97;98;99;128076;100] 4 2).
Eval vm_compute in (get_line_slice [97;98] 2 (4294967295 - 1), covering [97;98] 2 (4294967295-1)).
