From SM Require Import Model.Base Model.SourceView Spec.SourceView Model.Conc.
Definition opt_eqb (a b : option bytes) := match a, b with None, None => true | Some x, Some y => bytes_eqb x y | _, _ => false end.
(* expected answers of a call list on a fresh single-threaded view *)
Definition expected (src : bytes) (c : call) : answer :=
  match c with
  | CGetLine i => ALine (znth_opt (split_lines src) i)
  | CLineCount => ACount (zlen (split_lines src))
  end.
Definition ans_eqb (a b : answer) : bool :=
  match a, b with
  | ALine x, ALine y => opt_eqb x y
  | ACount x, ACount y => x =? y
  | _, _ => false end.
Definition thread_ok (src : bytes) (calls : list call) (t : thread) : bool :=
  let got := rev (th_answers t) in
  forallb (fun '(a, c) => ans_eqb a (expected src c)) (combine got calls).
Definition all_done (ts : list thread) := forallb (fun t => match th_pc t with PDone => true | _ => false end) ts.

(* DFS over all schedules and stale-read choices; returns a bad trace if any *)
Fixpoint set_thread (ts : list thread) (i : nat) (t : thread) : list thread :=
  match ts, i with [], _ => [] | _ :: r, O => t :: r | x :: r, S i' => x :: set_thread r i' t end.
Fixpoint explore (fuel : nat) (fixed : bool) (src : bytes) (calls : list (list call))
         (ts : list thread) (s : shared) (trace : list (nat * nat)) : option (list (nat * nat)) :=
  if negb (forallb (fun '(t, cs) => thread_ok src cs t) (combine ts calls)) then Some (rev trace) else
  match fuel with
  | O => if all_done ts then None else Some (rev ((99, 99)%nat :: trace))       (* ran out of fuel: report *)
  | S f =>
    let moves := flat_map (fun i => map (fun ch => (i, ch)) [0; 1; 2; 3]%nat) (seq 0 (length ts)) in
    let fix try (ms : list (nat * nat)) (any : bool) : option (list (nat * nat)) * bool :=
      match ms with
      | [] => (None, any)
      | (i, ch) :: ms' =>
        match nth_error ts i with
        | None => try ms' any
        | Some t =>
          match step fixed src i ch t s with
          | None => try ms' any
          | Some (t', s') =>
            (* stale choices only matter at PMissed in the unfixed code; skip duplicates otherwise *)
            let relevant := match th_pc t with PMissed => negb fixed || Nat.eqb ch 0 | _ => Nat.eqb ch 0 end in
            if negb relevant then try ms' any else
            match explore f fixed src calls (set_thread ts i t') s' ((i, ch) :: trace) with
            | Some bad => (Some bad, true)
            | None => try ms' true
            end
          end
        end
      end in
    let '(r, any) := try moves false in
    match r with
    | Some bad => Some bad
    | None => if any || all_done ts then None else Some (rev ((98, 98)%nat :: trace))  (* deadlock *)
    end
  end.
Definition run (fixed : bool) (src : bytes) (calls : list (list call)) :=
  explore 30 fixed src calls (map init_thread calls) init_shared [].
Definition src1 := [97; 10; 98; 10; 99].
(* unfixed: panic race and wrong-answer race *)
Eval vm_compute in run false src1 [[CGetLine 7]; [CLineCount]].
Eval vm_compute in run false src1 [[CGetLine 2]; [CGetLine 2]].
(* fixed *)
Eval vm_compute in run true src1 [[CGetLine 7]; [CLineCount]].
Eval vm_compute in run true src1 [[CGetLine 2]; [CLineCount]].
Eval vm_compute in run true src1 [[CGetLine 1; CGetLine 0]; [CLineCount; CGetLine 2]; [CGetLine 5]].
