From SM Require Import Model.Base Model.Mappings Model.Adjust Spec.Adjust.
(* multiset equality of token lists sorted by dst: compare after a total sort *)
Definition tok_total_key (t : rtoken) : pos := (t_dl t * 1000 + t_dc t, ((t_sl t * 50 + t_sc t) * 10 + t_src t)).
Definition same_tokens (a b : list rtoken) : bool :=
  let a' := isort tok_total_key a in let b' := isort tok_total_key b in
  Nat.eqb (length a') (length b') && forallb (fun '(x, y) => rtoken_eqb x y) (combine a' b').
Definition check (orig adj : list rtoken) : bool :=
  has_empty_stretch dst_key orig || has_empty_stretch src_key adj ||
  match adjust_mappings orig adj with
  | Ok out => same_tokens out (spec_adjust orig adj) && sortedb dst_key out
  | _ => false end.
(* tokens on a 2x3 grid; original tokens: dst in grid, src = (5 + index) distinct tag; adjustment: src in grid, dst displaced *)
Definition grid : list pos := [(0,0);(0,2);(0,4);(1,1);(1,3);(2,0)].
Fixpoint subsets {A} (l : list A) : list (list A) :=
  match l with [] => [[]] | x :: r => let s := subsets r in s ++ map (cons x) s end.
Definition orig_of (ps : list pos) : list rtoken :=
  map (fun '(p, i) => mkTok (fst p) (snd p) 7 (Z.of_nat i) 0 NONE false) (combine ps (seq 0 (length ps))).
Definition adj_of (shift : Z) (ps : list pos) : list rtoken :=
  map (fun '(p, i) => mkTok (fst p + Z.of_nat i mod 2 + shift) (snd p + 10 * Z.of_nat i + 1) (fst p) (snd p) 0 NONE false)
      (combine ps (seq 0 (length ps))).
Eval vm_compute in forallb (fun o => forallb (fun a => check (orig_of o) (rev (adj_of 3 a))) (subsets grid)) (subsets grid).
(* with duplicates: the known-finding class *)
Eval vm_compute in let o := [mkTok 0 5 1 1 0 NONE false; mkTok 0 5 2 2 0 NONE false; mkTok 0 10 3 3 0 NONE false] in
  let a := [mkTok 0 0 0 0 0 NONE false] in (adjust_mappings o a, spec_adjust o a, has_empty_stretch dst_key o).
