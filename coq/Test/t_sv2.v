From SM Require Import Model.Base Model.SourceView Spec.SourceView.
Definition opt_eqb (a b : option bytes) := match a, b with None, None => true | Some x, Some y => bytes_eqb x y | _, _ => false end.
Definition al2 := [97; 128076].
Fixpoint all_strings (al : list Z) (n : nat) : list (list Z) :=
  match n with O => [[]] | S n' => [] :: flat_map (fun s => map (fun c => c :: s) al) (all_strings al n') end.
Definition bad (line : list Z) : list (Z * Z) :=
  flat_map (fun c => flat_map (fun n =>
     if start_inside_pair line c n || opt_eqb (get_line_slice line c n) (covering line c n) then [] else [(c, n)])
     [0;1;2;3;4;5;9]) [0;1;2;3;4;5;6;7;9].
Eval vm_compute in firstn 6 (flat_map (fun l => match bad l with [] => [] | b => [(l, b, map (fun '(c,n) => (get_line_slice l c n, covering l c n)) b)] end) (all_strings al2 3)).
