From SM Require Import Model.Base Model.Header.
(* relation of C12_strip *)
Definition strip_rel (r s : outcome bytes) : bool :=
  match r, s with
  | Err _, Err _ => true
  | Ok a, Ok b => bytes_eqb a b || bytes_eqb (10 :: a) b
  | _, _ => false
  end.
(* all ways to cut a list into non-empty consecutive chunks *)
Fixpoint chunkings (s : bytes) : list (list bytes) :=
  match s with
  | [] => [[]]
  | b :: s' =>
    flat_map (fun cs => match cs with
                        | [] => [[[b]]]
                        | c :: cs' => [[b] :: c :: cs'; (b :: c) :: cs']
                        end) (chunkings s')
  end.
Definition alphabet := [41; 39; 13; 10; 120; 123].     (* ) ' \r \n x { *)
(* forall strings of length n over the alphabet, built as suffix-first *)
Fixpoint forall_strings (n : nat) (suffix : bytes) (P : bytes -> bool) : bool :=
  match n with
  | O => P suffix
  | S n' => P suffix && forallb (fun c => forall_strings n' (c :: suffix) P) alphabet
  end.
Definition check (s : bytes) : bool :=
  forallb (fun cs => strip_rel (reader_run cs) (strip_junk_header s)) (chunkings s).
Eval vm_compute in forall_strings 6 [] check.
Eval vm_compute in (reader_run [[41;93];[125;13];[10;123;125]], strip_junk_header [41;93;125;13;10;123;125]).
Eval vm_compute in (reader_run [[41;13];[120]], strip_junk_header [41;13;120]).
