From SM Require Import Model.Base Model.Detector Spec.Base64.
Definition opt_eqb (a b : option bytes) := match a, b with None, None => true | Some x, Some y => bytes_eqb x y | _, _ => false end.
Fixpoint forall_strings (al : list Z) (n : nat) (suffix : list Z) (P : list Z -> bool) : bool :=
  match n with O => P suffix | S n' => P suffix && forallb (fun c => forall_strings al n' (c :: suffix) P) al end.
Eval vm_compute in forall_strings [0; 1; 77; 128; 255; 63] 5 [] (fun bs => opt_eqb (b64_decode (b64_encode bs)) (Some bs)).
Eval vm_compute in (b64_encode [123; 125], buf_lines [97;13;10;98;10;10;99]).
