(* C06 / C05: the reader's per-segment step equals the independent reading and never panics. *)
From SM Require Import Model.Base Model.Gen_B64 Model.Vlq Spec.Vlq Model.Mappings Spec.Mappings Proofs.VlqProofs Proofs.CodecCore.

Definition dst_ok (st : dstate) : Prop :=
  is_u32 (d_src st) = true /\ is_u32 (d_sl st) = true /\ is_u32 (d_sc st) = true /\ is_u32 (d_name st) = true.

(* every number the reference decoder returns has a magnitude below 2^62 *)
Lemma spec_go_small : forall s cur acc out, Forall small acc -> value_of cur < two63 ->
  Forall (fun d => 0 <= d < 32) cur -> spec_go s cur acc = Ok out -> Forall small out.
Proof.
  induction s as [|c s IH]; intros cur acc out Hacc Hv Hc H; cbn [spec_go] in H.
  - destruct (negb (is_nil cur)); [discriminate|]. destruct (is_nil acc); [discriminate|]. inversion H; subst.
    apply Forall_rev. exact Hacc.
  - destruct (digit_of c) as [d|]; [|discriminate].
    destruct (13 <=? zlen cur); [discriminate|].
    destruct (Z.leb_spec two63 (value_of (cur ++ [d mod 32]))) as [|Hlt]; [discriminate|].
    assert (Hc' : Forall (fun d0 => 0 <= d0 < 32) (cur ++ [d mod 32])).
    { apply Forall_app. split; [exact Hc|]. constructor; [|constructor].
      destruct (Z.eq_dec d 0); [subst; cbn; lia|]. apply Z.mod_pos_bound. lia. }
    destruct (d <? 32).
    + apply (IH [] (unzigzag (value_of (cur ++ [d mod 32])) :: acc) out); auto.
      * constructor; [|exact Hacc]. pose proof (value_of_bound _ Hc') as Hb. unfold small, unzigzag.
        set (v := value_of (cur ++ [d mod 32])) in *. unfold two63 in Hlt. assert (2 ^ 62 = 4611686018427387904) by reflexivity.
        destruct (Z.odd v); Z.div_mod_to_equations; lia.
      * unfold two63; cbn; lia.
    + apply (IH (cur ++ [d mod 32]) acc out); auto.
Qed.
Lemma spec_parse_small s out : spec_parse s = Ok out -> Forall small out.
Proof. apply spec_go_small; try constructor. Qed.

Lemma i64_add_u32_small site a b : is_u32 a = true -> small b -> i64_add site a b = Ok (a + b).
Proof.
  intros Ha Hb. apply i64_add_ok. apply u32_bounds in Ha. unfold small in Hb. unfold two32, two63 in *.
  assert (2 ^ 62 = 4611686018427387904) by reflexivity. lia.
Qed.
Lemma wrap_u32_is_u32 z : is_u32 (wrap_u32 z) = true.
Proof. apply u32_bounds. unfold wrap_u32. apply Z.mod_pos_bound. reflexivity. Qed.

Theorem C06_segment nsrc nnames dst_line rmi idx seg col st :
  nsrc <= NONE -> nnames <= NONE -> dst_ok st -> is_u32 col = true ->
  decode_segment nsrc nnames dst_line rmi idx seg col st
  = spec_segment nsrc nnames dst_line (nth idx rmi false) seg col st
  /\ (forall r, decode_segment nsrc nnames dst_line rmi idx seg col st = Ok r -> is_u32 (fst r) = true /\ dst_ok (snd r)).
Proof.
  intros Hns Hnn (Us & Ul & Uc & Un) Ucol.
  unfold decode_segment, spec_segment. rewrite C11_matches_standard.
  destruct (spec_parse seg) as [nums|e|p] eqn:Ep; cbn [bind]; [|split; [reflexivity|discriminate]..].
  pose proof (spec_parse_small seg nums Ep) as Hsm.
  destruct nums as [|c nums]; [exfalso|].
  { unfold spec_parse in Ep. clear -Ep. assert (G : forall s cur acc, spec_go s cur acc = Ok [] -> False).
    { induction s as [|x s IH]; intros cur acc H; cbn [spec_go] in H.
      - destruct (negb (is_nil cur)); [discriminate|]. destruct acc; [discriminate|]. inversion H as [H1].
        cbn [rev] in H1. apply app_eq_nil in H1. destruct H1 as [_ H1]. discriminate.
      - destruct (digit_of x); [|discriminate]. destruct (13 <=? zlen cur); [discriminate|].
        destruct (two63 <=? value_of (cur ++ [z mod 32])); [discriminate|]. destruct (z <? 32); eapply IH; exact H. }
    eapply G; exact Ep. }
  inversion Hsm as [|? ? Hc Hrest]; subst.
  rewrite (i64_add_u32_small 11 col c Ucol Hc). cbn [bind].
  destruct nums as [|s nums]; [split; [reflexivity|]; intros r Hr; inversion Hr; subst; unfold dst_ok; cbn [fst snd d_src d_sl d_sc d_name]; repeat split; try apply wrap_u32_is_u32; auto|].
  destruct nums as [|l nums]; [split; [reflexivity|discriminate]|].
  destruct nums as [|k nums]; [split; [reflexivity|discriminate]|].
  inversion Hrest as [|? ? Hs Hr1]; subst. inversion Hr1 as [|? ? Hl Hr2]; subst. inversion Hr2 as [|? ? Hk Hr3]; subst.
  assert (Hsrc_u32 : forall v, 0 <= v -> v < nsrc -> is_u32 v = true) by (intros v H1 H2; apply u32_bounds; unfold NONE, u32_max, two32 in *; lia).
  assert (Hname_u32 : forall v, 0 <= v -> v < nnames -> is_u32 v = true) by (intros v H1 H2; apply u32_bounds; unfold NONE, u32_max, two32 in *; lia).
  destruct nums as [|n nums].
  - cbn [is_nil negb andb].
    rewrite (i64_add_u32_small 12 _ s Us Hs). cbn [bind].
    destruct (Z.ltb_spec (d_src st + s) 0); cbn [orb]; [split; [reflexivity|discriminate]|].
    destruct (Z.leb_spec nsrc (d_src st + s)); [split; [reflexivity|discriminate]|].
    rewrite (i64_add_u32_small 13 _ l Ul Hl), (i64_add_u32_small 14 _ k Uc Hk). cbn [bind].
    split; [reflexivity|]. intros r Hr. inversion Hr; subst. unfold dst_ok. cbn [fst snd d_src d_sl d_sc d_name].
    repeat split; try apply wrap_u32_is_u32; auto; apply Hsrc_u32; lia.
  - destruct nums as [|x nums].
    + cbn [is_nil negb andb length Nat.eqb].
      inversion Hr3 as [|? ? Hn _]; subst.
      rewrite (i64_add_u32_small 12 _ s Us Hs). cbn [bind].
      destruct (Z.ltb_spec (d_src st + s) 0); cbn [orb]; [split; [reflexivity|discriminate]|].
      destruct (Z.leb_spec nsrc (d_src st + s)); [split; [reflexivity|discriminate]|].
      rewrite (i64_add_u32_small 13 _ l Ul Hl), (i64_add_u32_small 14 _ k Uc Hk). cbn [bind].
      rewrite (i64_add_u32_small 15 _ n Un Hn). cbn [bind].
      destruct (Z.ltb_spec (d_name st + n) 0); cbn [orb]; [split; [reflexivity|discriminate]|].
      destruct (Z.leb_spec nnames (d_name st + n)); [split; [reflexivity|discriminate]|].
      split; [reflexivity|]. intros r Hr. inversion Hr; subst. unfold dst_ok. cbn [fst snd d_src d_sl d_sc d_name].
      repeat split; try apply wrap_u32_is_u32; auto; try (apply Hsrc_u32; lia); apply Hname_u32; lia.
    + cbn [is_nil negb andb length Nat.eqb]. split; [reflexivity|discriminate].
Qed.
Print Assumptions C06_segment.
