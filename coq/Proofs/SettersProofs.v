(* C13, map side: the cache of root-joined names mirrors the raw names under the current root,
   after any sequence of set_source_root / set_source / set_source_contents. *)
From SM Require Import Model.Base Model.Mappings Model.Glb Model.SourceMap.

Definition join_rule (root : option bytes) (raw : bytes) : bytes :=
  match root with
  | Some r => if is_nil r then raw else prefix_source r raw
  | None => raw
  end.
Definition cache_ok (m : smap) : Prop :=
  sm_prefixed m = match sm_root m with
                  | Some r => if is_nil r then None else Some (map (prefix_source r) (sm_sources m))
                  | None => None
                  end.

Inductive setter :=
| SetRoot (r : option bytes) | SetSource (i : Z) (v : bytes) | SetContents (i : Z) (c : option bytes).
Definition apply_setter (op : setter) (m : smap) : outcome smap :=
  match op with
  | SetRoot r => Ok (set_source_root r m)
  | SetSource i v => set_source i v m
  | SetContents i c => set_source_contents i c m
  end.
Fixpoint apply_setters (ops : list setter) (m : smap) : outcome smap :=
  match ops with [] => Ok m | op :: r => do m' <- apply_setter op m; apply_setters r m' end.

Lemma zset_nth_map {A B} (f : A -> B) l i x l' : zset_nth l i x = Some l' -> zset_nth (map f l) i (f x) = Some (map f l').
Proof.
  revert i l'. induction l as [|y l IH]; intros i l' H; cbn [zset_nth map] in *; [discriminate|].
  destruct (i =? 0); [inversion H; reflexivity|]. destruct (i <? 0); [discriminate|].
  destruct (zset_nth l (i - 1) x) eqn:E; [|discriminate]. inversion H; subst. rewrite (IH _ _ E). reflexivity.
Qed.
Lemma zset_nth_any {A} (l : list A) i x y l' : zset_nth l i x = Some l' -> exists l'', zset_nth l i y = Some l''.
Proof.
  revert i l'. induction l as [|z l IH]; intros i l' H; cbn [zset_nth] in *; [discriminate|].
  destruct (i =? 0); [eauto|]. destruct (i <? 0); [discriminate|].
  destruct (zset_nth l (i - 1) x) eqn:E; [|discriminate]. destruct (IH _ _ E) as [l'' Hl]. rewrite Hl. eauto.
Qed.
Lemma zset_nth_map_len {A B} (f : A -> B) (l : list A) i (x : A) (y : B) :
  zset_nth l i x = None -> zset_nth (map f l) i y = None.
Proof.
  revert i. induction l as [|z l IH]; intros i H; cbn [zset_nth map] in *; [reflexivity|].
  destruct (i =? 0); [discriminate|]. destruct (i <? 0); [reflexivity|].
  destruct (zset_nth l (i - 1) x) eqn:E; [discriminate|]. rewrite (IH _ E). reflexivity.
Qed.

Lemma setter_preserves op m m' : cache_ok m -> apply_setter op m = Ok m' -> cache_ok m'.
Proof.
  intros Hc H. destruct op as [r|i v|i c]; cbn [apply_setter] in H.
  - inversion H; subst. unfold cache_ok, set_source_root. cbn. destruct r as [r|]; [destruct (is_nil r)|]; reflexivity.
  - unfold set_source in H. destruct (zset_nth (sm_sources m) i v) as [srcs|] eqn:Es; [|discriminate].
    unfold cache_ok in Hc. destruct (sm_prefixed m) as [p|] eqn:Ep.
    + destruct (sm_root m) as [r|] eqn:Er; [|discriminate].
      destruct (is_nil r) eqn:En; [discriminate|]. inversion Hc; subst p.
      pose proof (zset_nth_map (prefix_source r) _ _ _ _ Es) as Hm.
      destruct (zset_nth_any _ _ _ v _ Hm) as [q Hq]. rewrite Hq, Hm in H.
      inversion H; subst. unfold cache_ok. cbn. rewrite En. reflexivity.
    + inversion H; subst. unfold cache_ok. cbn.
      destruct (sm_root m) as [r|]; [destruct (is_nil r); [reflexivity|discriminate]|reflexivity].
  - unfold set_source_contents in H.
    destruct (zset_nth _ i c) as [c'|]; [|discriminate]. inversion H; subst. exact Hc.
Qed.

Lemma sm_new_cache_ok f t n s c : cache_ok (sm_new f t n s c).
Proof. reflexivity. Qed.

Lemma znth_map {A B} (f : A -> B) l i : znth_opt (map f l) i = option_map f (znth_opt l i).
Proof. revert i. induction l as [|x l IH]; intros i; cbn [znth_opt map]; [reflexivity|].
  destruct (i =? 0); [reflexivity|]. destruct (i <? 0); [reflexivity|]. apply IH. Qed.

(* what get_source reports *)
Lemma get_source_rule m i : cache_ok m -> get_source m i = option_map (join_rule (sm_root m)) (znth_opt (sm_sources m) i).
Proof.
  intros Hc. unfold get_source, join_rule. rewrite Hc.
  destruct (sm_root m) as [r|]; [destruct (is_nil r)|]; rewrite ?znth_map; destruct (znth_opt (sm_sources m) i); reflexivity.
Qed.

Theorem C13_map_inv ops m m' : cache_ok m -> apply_setters ops m = Ok m' ->
  cache_ok m' /\ forall i, get_source m' i = option_map (join_rule (sm_root m')) (znth_opt (sm_sources m') i).
Proof.
  revert m. induction ops as [|op ops IH]; intros m Hc H; cbn [apply_setters] in H.
  - inversion H; subst. split; [exact Hc|]. intros i. apply get_source_rule. exact Hc.
  - destruct (apply_setter op m) as [m1|e|p] eqn:E; cbn [bind] in H; try discriminate.
    apply (IH m1); [eapply setter_preserves; eassumption|exact H].
Qed.
Print Assumptions C13_map_inv.
