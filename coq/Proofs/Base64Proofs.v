(* C18: the reference base64 decoder inverts the reference encoder on every byte string. *)
From SM Require Import Model.Base Spec.Vlq Spec.Base64 Proofs.VlqProofs.

Lemma digit_b64c v : 0 <= v < 64 -> digit_of (b64c v) = Some v.
Proof.
  intros H.
  assert (G : (match digit_of (b64c v) with Some w => w =? v | None => false end) = true).
  { apply (sweep 64 (fun v => match digit_of (b64c v) with Some w => w =? v | None => false end)); [vm_compute; reflexivity|exact H]. }
  destruct (digit_of (b64c v)); [f_equal; lia|discriminate].
Qed.
Lemma b64c_not_pad v : 0 <= v < 64 -> b64c v <> 61.
Proof.
  intros H Heq.
  assert (G : negb (b64c v =? 61) = true) by (apply (sweep 64 (fun v => negb (b64c v =? 61))); [vm_compute; reflexivity|exact H]).
  lia.
Qed.

Definition byte (b : Z) : Prop := 0 <= b < 256.

Lemma decode_go_encode : forall n bs fuel, (length bs <= n)%nat -> Forall byte bs -> (length (b64_encode bs) < fuel)%nat ->
  b64_decode_go fuel (b64_encode bs) = Some bs.
Proof.
  induction n as [|n IH]; intros bs fuel Hn Hb Hf.
  - destruct bs; [|cbn in Hn; lia]. destruct fuel; [cbn in Hf; lia|]. reflexivity.
  - destruct bs as [|a [|b [|c r]]].
    + destruct fuel; [cbn in Hf; lia|]. reflexivity.
    + destruct fuel; [cbn in Hf; lia|]. inversion Hb as [|? ? Ha _]; subst. unfold byte in Ha.
      cbn [b64_encode b64_decode_go is_nil andb]. rewrite Z.eqb_refl. cbn [andb].
      assert (H1 : 0 <= a / 4 < 64) by (Z.div_mod_to_equations; lia).
      assert (H2 : 0 <= a mod 4 * 16 < 64) by (Z.div_mod_to_equations; lia).
      rewrite !digit_b64c by assumption.
      assert (Hm : (a mod 4 * 16) mod 16 = 0) by (Z.div_mod_to_equations; lia). rewrite Hm. cbn [Z.eqb].
      repeat f_equal; Z.div_mod_to_equations; lia.
    + destruct fuel; [cbn in Hf; lia|]. inversion Hb as [|? ? Ha Hb']; subst. inversion Hb' as [|? ? Hbb _]; subst. unfold byte in *.
      cbn [b64_encode b64_decode_go is_nil andb].
      assert (H1 : 0 <= a / 4 < 64) by (Z.div_mod_to_equations; lia).
      assert (H2 : 0 <= a mod 4 * 16 + b / 16 < 64) by (Z.div_mod_to_equations; lia).
      assert (H3 : 0 <= b mod 16 * 4 < 64) by (Z.div_mod_to_equations; lia).
      pose proof (b64c_not_pad _ H3) as Hnp.
      destruct (Z.eqb_spec (b64c (b mod 16 * 4)) 61); [contradiction|]. rewrite Z.eqb_refl. cbn [andb].
      rewrite !digit_b64c by assumption.
      assert (Hm : (b mod 16 * 4) mod 4 = 0) by (Z.div_mod_to_equations; lia). rewrite Hm. cbn [Z.eqb].
      repeat f_equal; Z.div_mod_to_equations; lia.
    + inversion Hb as [|? ? Ha Hb']; subst. inversion Hb' as [|? ? Hbb Hb'']; subst. inversion Hb'' as [|? ? Hc Hr]; subst. unfold byte in *.
      destruct fuel; [cbn in Hf; lia|].
      cbn [b64_encode]. cbn [b64_encode length] in Hf.
      assert (H1 : 0 <= a / 4 < 64) by (Z.div_mod_to_equations; lia).
      assert (H2 : 0 <= a mod 4 * 16 + b / 16 < 64) by (Z.div_mod_to_equations; lia).
      assert (H3 : 0 <= b mod 16 * 4 + c / 64 < 64) by (Z.div_mod_to_equations; lia).
      assert (H4 : 0 <= c mod 64 < 64) by (Z.div_mod_to_equations; lia).
      cbn [b64_decode_go].
      pose proof (b64c_not_pad _ H3) as Hnp3. pose proof (b64c_not_pad _ H4) as Hnp4.
      destruct (Z.eqb_spec (b64c (b mod 16 * 4 + c / 64)) 61); [contradiction|].
      destruct (Z.eqb_spec (b64c (c mod 64)) 61); [contradiction|].
      rewrite !andb_false_r. rewrite !digit_b64c by assumption.
      rewrite IH; [|cbn in Hn; lia|exact Hr|lia].
      repeat f_equal; Z.div_mod_to_equations; lia.
Qed.

Theorem C18_b64 bs : Forall byte bs -> b64_decode (b64_encode bs) = Some bs.
Proof. intros H. unfold b64_decode. apply (decode_go_encode (length bs)); auto. Qed.
Print Assumptions C18_b64.
