(* C14: the function-map decoder reads back the entries of any document written by an independent
   renderer: lines at ';', segments at ',', 1–3 VLQ fields (column, name index, line), column
   restarting on every ';' line, name index and line carried across the whole string, line starting at 1. *)
From SM Require Import Model.Base Model.Gen_B64 Model.Vlq Model.Mappings Model.Glb Model.SourceMap Model.Rewrite
  Proofs.StringLemmas Proofs.VlqProofs Proofs.CodecCore.

Inductive fitem := FEmpty | FSeg (c n l : Z) (arity : nat).
Definition fdoc := list (list fitem).
Definition fdiffs (it : fitem) (pc pn pl : Z) : list (Z * Z) :=
  match it with FEmpty => [] | FSeg c n l a => firstn a [(c, pc); (n, pn); (l, pl)] end.
Definition fseg_bytes (it : fitem) (pc pn pl : Z) : bytes := concat (map (fun p => vlq_diff (fst p) (snd p)) (fdiffs it pc pn pl)).
Definition fnext (it : fitem) (pc pn pl : Z) : Z * Z * Z := match it with FEmpty => (pc, pn, pl) | FSeg c n l _ => (c, n, l) end.
Fixpoint render_fitems (items : list fitem) (pc pn pl : Z) : list bytes * (Z * Z) :=
  match items with
  | [] => ([], (pn, pl))
  | it :: r => let '(c', n', l') := fnext it pc pn pl in
               let '(segs, fin) := render_fitems r c' n' l' in (fseg_bytes it pc pn pl :: segs, fin)
  end.
Definition fline_segs (segs : list bytes) : list bytes := match segs with [] => [[]] | _ => segs end.
Fixpoint render_flines (d : fdoc) (pn pl : Z) : list (list bytes) :=
  match d with
  | [] => []
  | items :: r => let '(segs, (n', l')) := render_fitems items 0 pn pl in fline_segs segs :: render_flines r n' l'
  end.
Definition render_fdoc (d : fdoc) : bytes := join 59 (map (join 44) (render_flines d 0 1)).

Fixpoint fitems_entries (items : list fitem) : list scope_offset :=
  match items with [] => [] | FEmpty :: r => fitems_entries r | FSeg c n l _ :: r => mkSO l c n :: fitems_entries r end.
Definition fdoc_entries (d : fdoc) : list scope_offset := flat_map fitems_entries d.

Definition fitem_ok (it : fitem) (pn pl : Z) : Prop :=
  match it with
  | FEmpty => True
  | FSeg c n l a => (1 <= a <= 3)%nat /\ is_u32 c = true /\ is_u32 n = true /\ is_u32 l = true
                    /\ ((a < 3)%nat -> l = pl) /\ ((a < 2)%nat -> n = pn)
  end.
Fixpoint fitems_ok (items : list fitem) (pn pl : Z) : Prop :=
  match items with [] => True | it :: r => fitem_ok it pn pl /\ fitems_ok r (snd (fst (fnext it 0 pn pl))) (snd (fnext it 0 pn pl)) end.
Fixpoint fdoc_ok (d : fdoc) (pn pl : Z) : Prop :=
  match d with
  | [] => True
  | items :: r => fitems_ok items pn pl /\ fdoc_ok r (fst (snd (render_fitems items 0 pn pl))) (snd (snd (render_fitems items 0 pn pl)))
  end.

Lemma fnext_names it pc pc' pn pl : snd (fst (fnext it pc pn pl)) = snd (fst (fnext it pc' pn pl)) /\ snd (fnext it pc pn pl) = snd (fnext it pc' pn pl).
Proof. destruct it; split; reflexivity. Qed.

Lemma fseg_clean it pc pn pl : is_u32 pc = true -> is_u32 pn = true -> is_u32 pl = true -> fitem_ok it pn pl ->
  nosep 44 (fseg_bytes it pc pn pl) /\ nosep 59 (fseg_bytes it pc pn pl).
Proof.
  intros Hpc Hpn Hpl Hok. unfold fseg_bytes. destruct it as [|c n l a]; [split; constructor|].
  destruct Hok as (Ha & Hc & Hn & Hl & _).
  assert (Hall : Forall (fun p => is_u32 (fst p) = true /\ is_u32 (snd p) = true) (fdiffs (FSeg c n l a) pc pn pl)).
  { unfold fdiffs. assert (Hfull : Forall (fun p => is_u32 (fst p) = true /\ is_u32 (snd p) = true) [(c, pc); (n, pn); (l, pl)]) by (repeat constructor; assumption).
    rewrite <- (firstn_skipn a [(c, pc); (n, pn); (l, pl)]) in Hfull. apply Forall_app in Hfull. apply Hfull. }
  split; apply concat_vlq_nosep; auto.
Qed.

(* one line: the segment loop reads the items back *)
Lemma fm_segments_spec items : forall pc pn pl acc,
  is_u32 pc = true -> is_u32 pn = true -> is_u32 pl = true ->
  fitems_ok items pn pl ->
  let '(segs, (n', l')) := render_fitems items pc pn pl in
  fm_segments segs pc pn pl acc = Some (n', l', rev (fitems_entries items) ++ acc)
  /\ is_u32 n' = true /\ is_u32 l' = true /\ Forall (nosep 44) segs /\ Forall (nosep 59) segs.
Proof.
  induction items as [|it items IH]; intros pc pn pl acc Hpc Hpn Hpl Hok; cbn [render_fitems].
  - cbn. repeat split; auto.
  - destruct Hok as [Hit Hrest].
    destruct (fseg_clean it pc pn pl Hpc Hpn Hpl Hit) as [H44 H59].
    destruct it as [|c n l a].
    + cbn [fnext fst snd] in *. specialize (IH pc pn pl acc Hpc Hpn Hpl Hrest).
      destruct (render_fitems items pc pn pl) as [segs [n' l']]. destruct IH as (IH1 & IH2 & IH3 & IH4 & IH5).
      cbn [fm_segments fseg_bytes fdiffs map concat is_nil fitems_entries]. repeat split; auto.
    + cbn [fnext fst snd] in *. destruct Hit as (Ha & Hc & Hn & Hl & Hl3 & Hn2).
      specialize (IH c n l (mkSO l c n :: acc) Hc Hn Hl Hrest).
      destruct (render_fitems items c n l) as [segs [n' l']]. destruct IH as (IH1 & IH2 & IH3 & IH4 & IH5).
      assert (Hparse : parse_vlq_segment (fseg_bytes (FSeg c n l a) pc pn pl) = Ok (map (fun p => fst p - snd p) (fdiffs (FSeg c n l a) pc pn pl))).
      { unfold fseg_bytes. apply parse_concat.
        - apply Forall_map. unfold fdiffs.
          assert (Hfull : Forall (fun p => small (fst p - snd p)) [(c, pc); (n, pn); (l, pl)]) by (repeat constructor; apply u32_diff_small; assumption).
          rewrite <- (firstn_skipn a [(c, pc); (n, pn); (l, pl)]) in Hfull. apply Forall_app in Hfull. apply Hfull.
        - unfold fdiffs. destruct a as [|a]; [lia|]. discriminate.
        - unfold fdiffs. assert (Hfull : Forall2 (fun d s => encode_vlq d = Some s) (map (fun p => fst p - snd p) [(c, pc); (n, pn); (l, pl)]) (map (fun p => vlq_diff (fst p) (snd p)) [(c, pc); (n, pn); (l, pl)])).
          { cbn [map fst snd]. repeat constructor; apply vlq_diff_enc, u32_diff_small; assumption. }
          destruct a as [|[|[|[|a]]]]; try lia; cbn [firstn map fst snd] in *;
            repeat match goal with H : Forall2 _ (_ :: _) (_ :: _) |- _ => inversion H; subst; clear H end; repeat constructor; assumption. }
      cbn [fm_segments].
      assert (Hne : is_nil (fseg_bytes (FSeg c n l a) pc pn pl) = false).
      { destruct (fseg_bytes (FSeg c n l a) pc pn pl) eqn:E; [|reflexivity]. exfalso. unfold parse_vlq_segment in Hparse. cbn [parse_go] in Hparse. cbn in Hparse. discriminate. }
      rewrite Hne, Hparse.
      assert (Hstep : forall rest', map (fun p => fst p - snd p) (fdiffs (FSeg c n l a) pc pn pl) = (c - pc) :: rest' ->
                wrap_u32 (pc + (c - pc)) = c /\ wrap_u32 (pn + nth_or0 rest' 0) = n /\ wrap_u32 (pl + nth_or0 rest' 1) = l).
      { intros rest' Hr. split; [replace (pc + (c - pc)) with c by lia; apply wrap_u32_id; exact Hc|].
        unfold fdiffs in Hr. destruct a as [|[|[|[|a]]]]; try lia; cbn [firstn map fst snd] in Hr; inversion Hr; subst rest'; unfold nth_or0; cbn [nth].
        - rewrite (Hn2 ltac:(lia)), (Hl3 ltac:(lia)), !Z.add_0_r. split; apply wrap_u32_id; assumption.
        - rewrite (Hl3 ltac:(lia)), Z.add_0_r. replace (pn + (n - pn)) with n by lia. split; apply wrap_u32_id; assumption.
        - replace (pn + (n - pn)) with n by lia. replace (pl + (l - pl)) with l by lia. split; apply wrap_u32_id; assumption. }
      assert (Hhead : exists rest', map (fun p => fst p - snd p) (fdiffs (FSeg c n l a) pc pn pl) = (c - pc) :: rest').
      { unfold fdiffs. destruct a as [|a]; [lia|]. cbn [firstn map fst snd]. eauto. }
      destruct Hhead as [rest' Hr]. rewrite Hr. destruct (Hstep rest' Hr) as (E1 & E2 & E3). rewrite E1, E2, E3, IH1.
      cbn [fitems_entries rev]. rewrite <- app_assoc. cbn [app]. repeat split; auto.
Qed.

Lemma fm_segments_fline segs pc pn pl acc : fm_segments (fline_segs segs) pc pn pl acc = fm_segments segs pc pn pl acc.
Proof. destruct segs; reflexivity. Qed.

Lemma fline_step items pn pl acc : is_u32 pn = true -> is_u32 pl = true -> fitems_ok items pn pl ->
  let r := render_fitems items 0 pn pl in
  let line_str := join 44 (fline_segs (fst r)) in
  (if is_nil line_str then Some (pn, pl, acc) else fm_segments (split_on 44 line_str) 0 pn pl acc)
  = Some (fst (snd r), snd (snd r), rev (fitems_entries items) ++ acc)
  /\ is_u32 (fst (snd r)) = true /\ is_u32 (snd (snd r)) = true /\ nosep 59 line_str.
Proof.
  intros Hpn Hpl Hok. cbv zeta.
  pose proof (fm_segments_spec items 0 pn pl acc eq_refl Hpn Hpl Hok) as Hs.
  destruct (render_fitems items 0 pn pl) as [segs [n' l']]. cbn [fst snd]. destruct Hs as (Hs & Hn' & Hl' & H44 & H59).
  assert (Hsj : split_on 44 (join 44 (fline_segs segs)) = fline_segs segs).
  { apply split_join; [destruct segs; discriminate|]. destruct segs; [repeat constructor|exact H44]. }
  assert (Hall : fm_segments (split_on 44 (join 44 (fline_segs segs))) 0 pn pl acc = Some (n', l', rev (fitems_entries items) ++ acc))
    by (rewrite Hsj, fm_segments_fline; exact Hs).
  split; [|split; [exact Hn'|split; [exact Hl'|]]].
  - destruct (join 44 (fline_segs segs)) eqn:Ej; cbn [is_nil]; [|exact Hall]. cbn in Hall. exact Hall.
  - apply nosep_join; [discriminate|]. destruct segs; [repeat constructor|exact H59].
Qed.

Lemma fm_lines_spec d : forall pn pl acc, is_u32 pn = true -> is_u32 pl = true -> fdoc_ok d pn pl ->
  fm_lines (map (join 44) (render_flines d pn pl)) pn pl acc = Some (rev acc ++ fdoc_entries d)
  /\ Forall (nosep 59) (map (join 44) (render_flines d pn pl)).
Proof.
  induction d as [|items d IH]; intros pn pl acc Hpn Hpl Hok; cbn [render_flines map fm_lines fdoc_entries flat_map].
  - rewrite app_nil_r. split; [reflexivity|constructor].
  - destruct Hok as [Hit Hrest].
    destruct (fline_step items pn pl acc Hpn Hpl Hit) as (Hstep & Hn' & Hl' & Hns). cbv zeta in Hstep, Hns.
    destruct (render_fitems items 0 pn pl) as [segs [n' l']] eqn:Er. cbn [fst snd] in *. cbn [map fm_lines].
    destruct (IH n' l' (rev (fitems_entries items) ++ acc) Hn' Hl' Hrest) as [IH1 IH2].
    split; [|constructor; assumption].
    destruct (is_nil (join 44 (fline_segs segs))) eqn:En.
    + inversion Hstep as [[E1 E2 E3]].
      assert (Hnil : fitems_entries items = []).
      { apply (f_equal (@length scope_offset)) in E3. rewrite app_length, rev_length in E3. destruct (fitems_entries items); [reflexivity|cbn in E3; lia]. }
      rewrite IH1. rewrite Hnil. reflexivity.
    + rewrite Hstep. rewrite IH1. rewrite rev_app_distr, rev_involutive, <- app_assoc. reflexivity.
Qed.

Theorem C14_decode d names : d <> [] -> fdoc_ok d 0 1 ->
  decode_function_map (Some [mkRS names (render_fdoc d)]) = Some (mkFM names (fdoc_entries d)).
Proof.
  intros Hne Hok. unfold decode_function_map, render_fdoc. cbn [rs_mappings rs_names].
  destruct (fm_lines_spec d 0 1 [] eq_refl eq_refl Hok) as [Hl Hns].
  rewrite split_join; [|destruct d; [contradiction|cbn [render_flines]; destruct (render_fitems l 0 0 1) as [s [a b]]; discriminate]|exact Hns].
  rewrite Hl. reflexivity.
Qed.
Print Assumptions C14_decode.
