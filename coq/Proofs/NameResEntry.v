(* C17 through the position-based entry points (SourceMap / SourceMapIndex / DecodedMap ::get_original_function_name):
   they look the position up and resolve from the token found.  Model of that composition and its specification. *)
From SM Require Import Model.Base Model.Mappings Model.Glb Model.SourceView Model.NameRes Spec.NameRes Spec.Glb
     Proofs.BaseLemmas Proofs.GlbProofs Proofs.LookupProofs Proofs.NameResProofs.

Section Entry.
  Variables is_start is_cont is_ws : Z -> bool.
  Variable window : nat.
  Variable get_line : Z -> option (list Z).

  (* SourceMap::get_original_function_name(line, col, name, sv) *)
  Definition sm_get_original_function_name (tokens : list rtoken) (line col : Z) (name : list Z) : outcome (option rtoken) :=
    do r <- lookup_token tokens line col;
    match r with
    | Some (i, _, _) => get_original_function_name is_start is_cont is_ws window get_line tokens i name
    | None => Ok None
    end.

  Theorem C17_by_position tokens line col name :
    sorted tok_key tokens -> Forall (tok_ok get_line) tokens -> Forall (fun t => is_u32 (t_dc t) = true) tokens -> is_u32 col = true ->
    match lookup_token tokens line col with
    | Ok (Some (i, t, _)) =>
        glb_spec tok_key tokens (line, col) (Some (i, t)) /\
        sm_get_original_function_name tokens line col name = Ok (spec_resolve is_start is_cont is_ws window get_line tokens i name)
    | Ok None => (forall t, In t tokens -> plt (line, col) (tok_key t)) /\ sm_get_original_function_name tokens line col name = Ok None
    | _ => False
    end.
  Proof.
    intros Hs Hok Hu Hc. pose proof (C07_lookup tokens line col Hs Hu Hc) as Hl. unfold sm_get_original_function_name.
    destruct (lookup_token tokens line col) as [[[[i t] off]|]|e|p]; try contradiction; cbn [bind].
    - destruct Hl as (Hg & _). split; [exact Hg|]. apply C17_resolve_sorted; assumption.
    - split; [exact Hl|reflexivity].
  Qed.
End Entry.
