(* Regenerated constants used by C18: the two sourceMappingURL prefixes, the slice offset, the legacy
   test, the data-URL preamble produced by to_data_url and the preambles accepted by decode_data_url. *)
From SM Require Import Model.Base Model.Gen_Consts Model.DataUrl Proofs.DataUrlProofs.
Lemma ref_prefix_len_ok : length GEN_REF_PREFIX_NEW = GEN_REF_PREFIX_LEN /\ length GEN_REF_PREFIX_LEGACY = GEN_REF_PREFIX_LEN
  /\ starts_with GEN_REF_PREFIX_LEGACY GEN_REF_LEGACY_TEST = true /\ starts_with GEN_REF_PREFIX_NEW GEN_REF_LEGACY_TEST = false.
Proof. repeat split; vm_compute; reflexivity. Qed.
Lemma ref_prefixes_ok :
  GEN_REF_PREFIX_NEW = [47;47;35;32;115;111;117;114;99;101;77;97;112;112;105;110;103;85;82;76;61] /\
  GEN_REF_PREFIX_LEGACY = [47;47;64;32;115;111;117;114;99;101;77;97;112;112;105;110;103;85;82;76;61].
Proof. split; reflexivity. Qed.
Lemma preamble_out_ok : GEN_PREAMBLE_OUT = PREAMBLE_OUT. Proof. reflexivity. Qed.
(* the obligation C18 needs: the produced preamble is accepted by the consumer *)
Lemma gen_produced_preamble_accepted : accepts GEN_PREAMBLES_IN GEN_PREAMBLE_OUT = true.
Proof. vm_compute. reflexivity. Qed.
