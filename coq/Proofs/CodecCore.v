(* The mappings codec, part 2: decoding the encoder's event stream gives the tokens back. *)
From SM Require Import Model.Base Model.Gen_B64 Model.Vlq Model.Mappings
     Proofs.StringLemmas Proofs.VlqProofs Proofs.CodecEvents.

(* ---------- VLQ text of a list of differences ---------- *)
Definition small (z : Z) : Prop := - 2 ^ 62 < z < 2 ^ 62.
Lemma u32_diff_small a b : is_u32 a = true -> is_u32 b = true -> small (a - b).
Proof. unfold is_u32, two32, small. intros. assert (2 ^ 62 = 4611686018427387904) by reflexivity. lia. Qed.

Lemma vlq_diff_enc a b : small (a - b) -> encode_vlq (a - b) = Some (vlq_diff a b).
Proof. intros H. unfold vlq_diff. destruct (parse_encode1 (a - b) [] [] H) as (s & Hs & _). rewrite Hs. reflexivity. Qed.

Lemma parse_concat ds : Forall small ds -> ds <> [] ->
  forall texts, Forall2 (fun d s => encode_vlq d = Some s) ds texts ->
  parse_vlq_segment (concat texts) = Ok ds.
Proof.
  intros Hs Hne texts Hf.
  destruct (C11_decode_encode ds Hne Hs) as (s & Hgen & Hp).
  assert (s = concat texts).
  { clear Hp Hne Hs. revert s Hgen. induction Hf as [|d t ds ts Hd Hf IH]; intros s Hgen; cbn in *.
    - inversion Hgen. reflexivity.
    - rewrite Hd in Hgen. destruct (generate_vlq_segment ds) as [r|]; [|discriminate].
      inversion Hgen. rewrite (IH r eq_refl). reflexivity. }
  subst. exact Hp.
Qed.

(* characters of VLQ text are alphabet characters: never ',' or ';', and the text is never empty *)
Lemma land31_range v : 0 <= v -> 0 <= Z.land v 31 < 32.
Proof. intros. rewrite land31 by lia. apply Z.mod_pos_bound. lia. Qed.
Lemma encode_go_chars fuel : forall v s, 0 <= v -> encode_go fuel v = Some s ->
  s <> [] /\ Forall (fun c => In c B64_CHARS) s.
Proof.
  induction fuel as [|f IH]; intros v s Hv H; cbn [encode_go] in H; [discriminate|].
  pose proof (land31_range v Hv) as Hd.
  assert (Hq : 0 <= Z.shiftr v 5) by (rewrite shr5; apply Z.div_pos; lia).
  assert (Hin : In (nth (Z.to_nat (if 0 <? Z.shiftr v 5 then Z.lor (Z.land v 31) 32 else Z.land v 31)) B64_CHARS 0) B64_CHARS).
  { apply nth_In. assert (length B64_CHARS = 64%nat) by reflexivity.
    destruct (0 <? Z.shiftr v 5); [rewrite lor32 by lia|]; lia. }
  destruct (Z.shiftr v 5 =? 0).
  - inversion H; subst. split; [discriminate|]. constructor; [exact Hin|constructor].
  - destruct (encode_go f (Z.shiftr v 5)) as [r|] eqn:Er; [|discriminate]. inversion H; subst.
    destruct (IH _ _ Hq Er) as [_ Hr]. split; [discriminate|]. constructor; [exact Hin|exact Hr].
Qed.
Lemma alphabet_no_sep c : In c B64_CHARS -> c <> 44 /\ c <> 59.
Proof.
  intros H. assert (G : forallb (fun c => negb (c =? 44) && negb (c =? 59)) B64_CHARS = true) by (vm_compute; reflexivity).
  rewrite forallb_forall in G. specialize (G c H). lia.
Qed.
Lemma vlq_diff_clean a b : small (a - b) -> vlq_diff a b <> [] /\ nosep 44 (vlq_diff a b) /\ nosep 59 (vlq_diff a b).
Proof.
  intros Hs. pose proof (vlq_diff_enc a b Hs) as He. unfold encode_vlq in He.
  destruct (unzig_zz (a - b) Hs) as [_ Hz]. cbv zeta in Hz.
  destruct (encode_go_chars _ _ _ (proj1 Hz) He) as [Hne Hall].
  split; [exact Hne|]. unfold nosep. split; eapply Forall_impl; try exact Hall; intros c Hc; apply alphabet_no_sep in Hc; tauto.
Qed.

(* ---------- one token ---------- *)
Record wf_tok (nsrc nn : Z) (t : rtoken) : Prop := {
  wf_dl : is_u32 (t_dl t) = true; wf_dc : is_u32 (t_dc t) = true;
  wf_sl : is_u32 (t_sl t) = true; wf_sc : is_u32 (t_sc t) = true;
  wf_src : t_src t = NONE \/ 0 <= t_src t < nsrc;
  wf_name : t_name t = NONE \/ 0 <= t_name t < nn }.

Definition est_ok (st : estate) : Prop :=
  is_u32 (e_col st) = true /\ is_u32 (e_sl st) = true /\ is_u32 (e_sc st) = true
  /\ is_u32 (e_name st) = true /\ is_u32 (e_src st) = true.
Definition matches (st : estate) (d : dstate) : Prop :=
  d_src d = e_src st /\ d_sl d = e_sl st /\ d_sc d = e_sc st /\ d_name d = e_name st.

(* what the decoder reconstructs for token t *)
Definition decoded_tok (nn : Z) (t : rtoken) (d : dstate) (flag : bool) : rtoken :=
  if has_source t then
    mkTok (t_dl t) (t_dc t) (t_sl t) (t_sc t) (t_src t) (if has_name nn t then t_name t else NONE) flag
  else mkTok (t_dl t) (t_dc t) (d_sl d) (d_sc d) NONE NONE flag.
Definition next_dstate (nn : Z) (t : rtoken) (d : dstate) (flag : bool) : dstate :=
  let tok := decoded_tok nn t d flag in
  if has_source t then
    mkD (t_src t) (t_sl t) (t_sc t) (if has_name nn t then t_name t else d_name d) (tok :: d_toks d)
  else mkD (d_src d) (d_sl d) (d_sc d) (d_name d) (tok :: d_toks d).

Lemma u32_bounds z : is_u32 z = true <-> 0 <= z < two32.
Proof. unfold is_u32. lia. Qed.
Lemma wrap_u32_id z : is_u32 z = true -> wrap_u32 z = z.
Proof. intros H. apply u32_bounds in H. unfold wrap_u32. apply Z.mod_small. exact H. Qed.
Lemma i64_add_ok site a b : - two63 <= a + b < two63 -> i64_add site a b = Ok (a + b).
Proof. intros H. unfold i64_add, checked, in_i64.
  destruct (Z.leb_spec (- two63) (a + b)); [|lia]. destruct (Z.ltb_spec (a + b) two63); [|lia]. reflexivity. Qed.
Lemma u32_i64 a b : is_u32 a = true -> is_u32 b = true -> - two63 <= a + (b - a) < two63.
Proof. intros Ha Hb. apply u32_bounds in Ha, Hb. unfold two32, two63 in *. lia. Qed.

Definition seg_diffs (nn : Z) (t : rtoken) (col0 : Z) (st : estate) : list (Z * Z) :=
  (t_dc t, col0) ::
  (if has_source t then
     (t_src t, e_src st) :: (t_sl t, e_sl st) :: (t_sc t, e_sc st)
     :: (if has_name nn t then [(t_name t, e_name st)] else [])
   else []).
Lemma seg_bytes_diffs nn t col0 st :
  seg_bytes nn t col0 st = concat (map (fun p => vlq_diff (fst p) (snd p)) (seg_diffs nn t col0 st)).
Proof.
  unfold seg_bytes, seg_diffs. destruct (has_source t); [destruct (has_name nn t)|];
    cbn [map concat fst snd]; rewrite ?app_nil_r, <- ?app_assoc; reflexivity.
Qed.
Lemma parse_seg_bytes nn t col0 st :
  Forall (fun p => is_u32 (fst p) = true /\ is_u32 (snd p) = true) (seg_diffs nn t col0 st) ->
  parse_vlq_segment (seg_bytes nn t col0 st) = Ok (map (fun p => fst p - snd p) (seg_diffs nn t col0 st)).
Proof.
  intros H. rewrite seg_bytes_diffs. apply parse_concat.
  - apply Forall_map. eapply Forall_impl; [|exact H]. intros p [Ha Hb]. apply u32_diff_small; assumption.
  - unfold seg_diffs. discriminate.
  - induction H as [|p l [Ha Hb] Hl IH]; cbn [map]; constructor; [|exact IH].
    apply vlq_diff_enc, u32_diff_small; assumption.
Qed.
Lemma concat_vlq_nosep sep l : sep = 44 \/ sep = 59 ->
  Forall (fun p => is_u32 (fst p) = true /\ is_u32 (snd p) = true) l ->
  nosep sep (concat (map (fun p => vlq_diff (fst p) (snd p)) l)).
Proof.
  intros Hsep. induction 1 as [|q l' [Hqa Hqb] Hl' IH]; [constructor|].
  cbn [map concat]. unfold nosep. apply Forall_app. split; [|exact IH].
  destruct (vlq_diff_clean (fst q) (snd q) (u32_diff_small _ _ Hqa Hqb)) as (_ & G44 & G59).
  destruct Hsep; subst; assumption.
Qed.
Lemma seg_bytes_clean nn t col0 st :
  Forall (fun p => is_u32 (fst p) = true /\ is_u32 (snd p) = true) (seg_diffs nn t col0 st) ->
  clean_seg (seg_bytes nn t col0 st).
Proof.
  intros H. rewrite seg_bytes_diffs. split; [|split; apply concat_vlq_nosep; auto].
  unfold seg_diffs in *. inversion H as [|p l [Ha Hb] Hl]; subst. cbn [map concat fst snd].
  destruct (vlq_diff_clean (t_dc t) col0 (u32_diff_small _ _ Ha Hb)) as (Hne & _).
  destruct (vlq_diff (t_dc t) col0); [contradiction|discriminate].
Qed.

Lemma decode_segment_token nsrc nn t col0 st d rmi idx :
  wf_tok nsrc nn t -> nsrc <= NONE -> nn <= NONE -> est_ok st -> matches st d -> is_u32 col0 = true ->
  decode_segment nsrc nn (t_dl t) rmi idx (seg_bytes nn t col0 st) col0 d =
  Ok (t_dc t, next_dstate nn t d (nth idx rmi false))
  /\ clean_seg (seg_bytes nn t col0 st).
Proof.
  intros Hwf Hns Hnn (Hc & Hsl & Hsc & Hnm & Hsr) (Ms & Ml & Mc & Mn) Hcol0.
  destruct Hwf as [Wdl Wdc Wsl Wsc Wsrc Wname].
  assert (Hsrc : has_source t = true -> 0 <= t_src t < nsrc /\ is_u32 (t_src t) = true).
  { intros Hs. unfold has_source in Hs. destruct Wsrc as [E|E]; [rewrite E, Z.eqb_refl in Hs; discriminate|].
    split; [exact E|]. apply u32_bounds. unfold NONE, u32_max, two32 in *. lia. }
  assert (Hname : has_name nn t = true -> 0 <= t_name t < nn /\ is_u32 (t_name t) = true).
  { intros Hn. unfold has_name in Hn. destruct Wname as [E|E]; [rewrite E, Z.eqb_refl in Hn; discriminate|].
    split; [exact E|]. apply u32_bounds. unfold NONE, u32_max, two32 in *. lia. }
  assert (Hdiffs : Forall (fun p => is_u32 (fst p) = true /\ is_u32 (snd p) = true) (seg_diffs nn t col0 st)).
  { unfold seg_diffs. constructor; [split; assumption|].
    destruct (has_source t) eqn:Hs; [|constructor]. destruct (Hsrc eq_refl) as [_ Us].
    repeat (constructor; [cbn [fst snd]; split; assumption|]).
    destruct (has_name nn t) eqn:Hn; [|constructor]. destruct (Hname eq_refl) as [_ Un].
    constructor; [cbn [fst snd]; split; assumption|constructor]. }
  split; [|apply seg_bytes_clean; exact Hdiffs].
  unfold decode_segment. rewrite parse_seg_bytes by exact Hdiffs. cbn [bind].
  unfold seg_diffs, next_dstate, decoded_tok. cbn [map fst snd].
  rewrite i64_add_ok by (apply u32_i64; assumption). cbn [bind].
  replace (col0 + (t_dc t - col0)) with (t_dc t) by lia. rewrite wrap_u32_id by assumption.
  destruct (has_source t) eqn:Hs; [|reflexivity].
  destruct (Hsrc eq_refl) as [Hsr' Us]. cbn [map fst snd].
  destruct (has_name nn t) eqn:Hn; cbn [map fst snd is_nil negb andb length Nat.eqb].
  - destruct (Hname eq_refl) as [Hnm' Un].
    rewrite Ms, i64_add_ok by (apply u32_i64; assumption). cbn [bind].
    replace (e_src st + (t_src t - e_src st)) with (t_src t) by lia.
    destruct (Z.ltb_spec (t_src t) 0); [lia|]. destruct (Z.leb_spec nsrc (t_src t)); [lia|]. cbn [orb].
    rewrite Ml, i64_add_ok by (apply u32_i64; assumption). cbn [bind].
    rewrite Mc, i64_add_ok by (apply u32_i64; assumption). cbn [bind].
    replace (e_sl st + (t_sl t - e_sl st)) with (t_sl t) by lia.
    replace (e_sc st + (t_sc t - e_sc st)) with (t_sc t) by lia.
    rewrite !wrap_u32_id by assumption.
    rewrite Mn, i64_add_ok by (apply u32_i64; assumption). cbn [bind].
    replace (e_name st + (t_name t - e_name st)) with (t_name t) by lia.
    destruct (Z.ltb_spec (t_name t) 0); [lia|]. destruct (Z.leb_spec nn (t_name t)); [lia|]. cbn [orb].
    reflexivity.
  - rewrite Ms, i64_add_ok by (apply u32_i64; assumption). cbn [bind].
    replace (e_src st + (t_src t - e_src st)) with (t_src t) by lia.
    destruct (Z.ltb_spec (t_src t) 0); [lia|]. destruct (Z.leb_spec nsrc (t_src t)); [lia|]. cbn [orb].
    rewrite Ml, i64_add_ok by (apply u32_i64; assumption). cbn [bind].
    rewrite Mc, i64_add_ok by (apply u32_i64; assumption). cbn [bind].
    replace (e_sl st + (t_sl t - e_sl st)) with (t_sl t) by lia.
    replace (e_sc st + (t_sc t - e_sc st)) with (t_sc t) by lia.
    rewrite !wrap_u32_id by assumption. reflexivity.
Qed.

(* ---------- the whole token list ---------- *)
Section Core.
  Variables nsrc nn : Z.
  Hypothesis Hns : nsrc <= NONE.
  Hypothesis Hnn : nn <= NONE.
  Variable rmis0 : list bytes.                 (* the rangeMappings string, split at ';' *)
  Variable F : Z -> nat -> bool.               (* the range flag it assigns to segment i of line L *)
  Definition rmi_at (L : Z) : bytes := hd_rmi (skipn (Z.to_nat L) rmis0).
  Hypothesis rmis_ok : forall L, 0 <= L -> exists bits, decode_rmi (rmi_at L) = Ok bits /\ forall i, nth i bits false = F L i.

  Fixpoint flags_ok (prev : option rtoken) (ts : list rtoken) (st : estate) (idx : nat) : Prop :=
    match ts with
    | [] => True
    | t :: ts' =>
      if skipped nn prev t st then flags_ok (Some t) ts' st idx
      else let idx' := if t_dl t =? e_line st then idx else O in
           F (t_dl t) idx' = t_range t /\ flags_ok (Some t) ts' (next_estate nn t st) (S idx')
    end.

  (* the tokens the decoder produces, in order *)
  Fixpoint decoded (prev : option rtoken) (ts : list rtoken) (st : estate) (d : dstate) : list rtoken :=
    match ts with
    | [] => []
    | t :: ts' =>
      if skipped nn prev t st then decoded (Some t) ts' st d
      else decoded_tok nn t d (t_range t) :: decoded (Some t) ts' (next_estate nn t st) (next_dstate nn t d (t_range t))
    end.

  Lemma skipn_tl (l : list bytes) n : tl_rmi (skipn n l) = skipn (S n) l.
  Proof. revert l. induction n as [|n IH]; intros l; destruct l as [|x l]; try reflexivity. cbn [skipn]. rewrite IH. destruct l; reflexivity. Qed.

  Lemma dec_newlines k : forall g rest, 0 <= g_line g ->
    g_rmis g = skipn (Z.to_nat (g_line g)) rmis0 ->
    dec_evs nsrc nn (repeat ENewLine k ++ rest) g =
    match k with
    | O => dec_evs nsrc nn rest g
    | S _ => dec_evs nsrc nn rest (mkGs (g_line g + Z.of_nat k) (skipn (Z.to_nat (g_line g + Z.of_nat k)) rmis0) (fresh (ls_d (g_ls g))))
    end.
  Proof.
    induction k as [|k IH]; intros g rest Hl Hr; [reflexivity|].
    cbn [repeat app dec_evs dec_ev bind]. rewrite IH; cbn [g_line g_rmis g_ls fresh ls_d]; try lia.
    - destruct k as [|k'].
      + cbn [dec_evs]. f_equal. f_equal; try lia. rewrite Hr, skipn_tl. f_equal. lia.
      + f_equal. f_equal; try lia. f_equal. lia.
    - rewrite Hr, skipn_tl. f_equal. lia.
  Qed.

  Definition st_inv (prev : option rtoken) (st : estate) (g : gs) : Prop :=
    est_ok st /\ matches st (ls_d (g_ls g)) /\ g_line g = e_line st /\ 0 <= e_line st
    /\ ls_col (g_ls g) = e_col st /\ ls_open (g_ls g) = is_some prev
    /\ g_rmis g = skipn (Z.to_nat (g_line g)) rmis0
    /\ (ls_open (g_ls g) = true -> forall i, nth i (ls_rmi (g_ls g)) false = F (g_line g) i).

  Lemma next_estate_ok t st : wf_tok nsrc nn t -> est_ok st -> est_ok (next_estate nn t st).
  Proof.
    intros [Wdl Wdc Wsl Wsc Wsrc Wname] (Hc & Hsl & Hsc & Hnm & Hsr). unfold next_estate, est_ok.
    destruct (has_source t) eqn:Hs; [|cbn; auto].
    assert (Us : is_u32 (t_src t) = true).
    { unfold has_source in Hs. destruct Wsrc as [E|E]; [rewrite E, Z.eqb_refl in Hs; discriminate|].
      apply u32_bounds. unfold NONE, u32_max, two32 in *. lia. }
    destruct (has_name nn t) eqn:Hn; cbn; auto.
    assert (Un : is_u32 (t_name t) = true).
    { unfold has_name in Hn. destruct Wname as [E|E]; [rewrite E, Z.eqb_refl in Hn; discriminate|].
      apply u32_bounds. unfold NONE, u32_max, two32 in *. lia. }
    auto.
  Qed.
  Lemma next_matches t st d flag : matches st d -> matches (next_estate nn t st) (next_dstate nn t d flag).
  Proof.
    intros (Ms & Ml & Mc & Mn). unfold next_estate, next_dstate, matches.
    destruct (has_source t); [destruct (has_name nn t)|]; cbn; auto.
  Qed.

  Theorem dec_enc_events : forall ts prev st g,
    Forall (wf_tok nsrc nn) ts -> lines_ok (e_line st) ts ->
    st_inv prev st g -> flags_ok prev ts st (ls_idx (g_ls g)) ->
    exists g', dec_evs nsrc nn (enc_events nn prev ts st) g = Ok g'
               /\ d_toks (ls_d (g_ls g')) = rev (decoded prev ts st (ls_d (g_ls g))) ++ d_toks (ls_d (g_ls g))
               /\ Forall clean_ev (enc_events nn prev ts st).
  Proof.
    induction ts as [|t ts IH]; intros prev st g Hwf Hl Hinv Hfl.
    - exists g. cbn. repeat split; constructor.
    - inversion Hwf as [|? ? Wt Wts]; subst. destruct Hl as [Hle Hl].
      cbn [enc_events decoded flags_ok] in *.
      destruct (skipped nn prev t st) eqn:Es.
      + assert (Hline : t_dl t = e_line st) by (unfold skipped in Es; lia).
        assert (Hprev : is_some prev = true) by (unfold skipped in Es; destruct prev; [reflexivity|lia]).
        apply IH; try assumption.
        * rewrite <- Hline. exact Hl.
        * destruct Hinv as (H1 & H2 & H3 & H4 & H5 & H6 & H7 & H8). unfold st_inv. cbn [is_some].
          rewrite Hprev in H6. tauto.
      + destruct Hfl as [Hflag Hfl].
        destruct Hinv as (Hest & Hmat & Hgl & Hl0 & Hcol & Hopen & Hrm & Hbits).
        set (new_line := negb (t_dl t =? e_line st)) in *.
        set (col0 := if new_line then 0 else e_col st).
        (* state in front of the segment *)
        set (g1 := if new_line then mkGs (t_dl t) (skipn (Z.to_nat (t_dl t)) rmis0) (fresh (ls_d (g_ls g))) else g).
        assert (Hnl : dec_evs nsrc nn ((if new_line then repeat ENewLine (Z.to_nat (t_dl t - e_line st)) else [])
                        ++ ESeg (seg_bytes nn t col0 st) :: enc_events nn (Some t) ts (next_estate nn t st)) g
                      = dec_evs nsrc nn (ESeg (seg_bytes nn t col0 st) :: enc_events nn (Some t) ts (next_estate nn t st)) g1).
        { unfold g1. destruct new_line eqn:En; [|reflexivity].
          unfold new_line in En. assert (Hne : t_dl t <> e_line st) by lia.
          rewrite dec_newlines; [|rewrite Hgl; lia|exact Hrm].
          destruct (Z.to_nat (t_dl t - e_line st)) as [|k] eqn:Ek; [lia|].
          rewrite Hgl. f_equal. f_equal; [lia|f_equal; lia]. }
        rewrite Hnl. cbn [dec_evs dec_ev bind].
        assert (Hcol0 : is_u32 col0 = true) by (unfold col0; destruct new_line; [reflexivity|apply Hest]).
        assert (Hg1 : g_line g1 = t_dl t /\ ls_col (g_ls g1) = col0 /\ ls_d (g_ls g1) = ls_d (g_ls g)
                      /\ g_rmis g1 = skipn (Z.to_nat (t_dl t)) rmis0
                      /\ ls_idx (g_ls g1) = (if t_dl t =? e_line st then ls_idx (g_ls g) else O)
                      /\ (ls_open (g_ls g1) = true -> forall i, nth i (ls_rmi (g_ls g1)) false = F (t_dl t) i)).
        { unfold g1, col0, new_line. destruct (t_dl t =? e_line st) eqn:El; cbn [negb g_line g_ls g_rmis fresh ls_col ls_d ls_idx ls_open].
          - assert (t_dl t = e_line st) by lia. rewrite Hrm, Hgl, <- H. repeat split; auto. rewrite H, <- Hgl. exact Hbits.
          - repeat split; auto. discriminate. }
        destruct Hg1 as (G1 & G2 & G3 & G4 & G5 & G6).
        unfold run_seg. rewrite G1, G2, G3, G4.
        assert (Hdl0 : 0 <= t_dl t) by lia.
        destruct (rmis_ok (t_dl t) Hdl0) as (bits & Hbits1 & Hbits2). fold (rmi_at (t_dl t)).
        assert (Hrmi : exists rmi, (if ls_open (g_ls g1) then Ok (ls_rmi (g_ls g1)) else decode_rmi (rmi_at (t_dl t))) = Ok rmi
                                  /\ forall i, nth i rmi false = F (t_dl t) i).
        { destruct (ls_open (g_ls g1)) eqn:Eo; [exists (ls_rmi (g_ls g1)); split; [reflexivity|apply G6; reflexivity]|].
          exists bits. split; assumption. }
        destruct Hrmi as (rmi & Hr1 & Hr2). rewrite Hr1. cbn [bind].
        destruct (decode_segment_token nsrc nn t col0 st (ls_d (g_ls g)) rmi (ls_idx (g_ls g1)) Wt Hns Hnn Hest Hmat Hcol0) as [Hdec Hclean].
        rewrite Hdec. cbn [bind fst snd].
        rewrite Hr2, G5, Hflag.
        edestruct (IH (Some t) (next_estate nn t st)) as (g' & Hg' & Htoks & Hcl); try exact Wts.
        * unfold next_estate. destruct (has_source t); [destruct (has_name nn t)|]; exact Hl.
        * instantiate (1 := mkGs (t_dl t) (skipn (Z.to_nat (t_dl t)) rmis0)
                                (mkLs rmi (t_dc t) (S (if t_dl t =? e_line st then ls_idx (g_ls g) else O))
                                      (next_dstate nn t (ls_d (g_ls g)) (t_range t)) true)).
          cbn [g_line g_ls g_rmis ls_d ls_col ls_open ls_rmi ls_idx].
          assert (El : e_line (next_estate nn t st) = t_dl t /\ e_col (next_estate nn t st) = t_dc t)
            by (unfold next_estate; destruct (has_source t); [destruct (has_name nn t)|]; split; reflexivity).
          destruct El as [El1 El2].
          pose proof (next_estate_ok t st Wt Hest) as Hest'.
          pose proof (next_matches t st (ls_d (g_ls g)) (t_range t) Hmat) as Hmat'.
          unfold st_inv. cbn [g_line g_ls g_rmis ls_d ls_col ls_open ls_rmi ls_idx is_some].
          rewrite El1, El2. repeat split; auto; try lia; try apply Hest'; try apply Hmat'.
        * cbn [g_ls ls_idx]. exact Hfl.
        * exists g'. split; [exact Hg'|]. split.
          -- rewrite Htoks. cbn [g_ls ls_d rev]. rewrite <- app_assoc. cbn [app].
             unfold next_dstate at 2. destruct (has_source t); cbn [d_toks]; reflexivity.
          -- apply Forall_app. split; [destruct new_line; [apply Forall_forall; intros e He; apply repeat_spec in He; subst; exact I|constructor]|].
             constructor; [exact Hclean|exact Hcl].
  Qed.
End Core.
