(* C03: the writer's `mappings` string is a v3 string for a reader with EXACT integer arithmetic
   (Spec.Mappings.strict_decode_mappings: no reduction mod 2^32, every running value must be a u32),
   and that reader sees the same tokens as the crate's own reader.
   Same route as the round trip of CodecCore/CodecTheorems: strings <-> events, then an induction over the tokens,
   with strict_segment in place of decode_segment. *)
From SM Require Import Model.Base Model.Gen_B64 Model.Vlq Model.Mappings Spec.Vlq Spec.Mappings
     Proofs.StringLemmas Proofs.VlqProofs Proofs.CodecEvents Proofs.CodecCore Proofs.CodecTheorems.

Lemma in_u32_is_u32 z : in_u32 z = is_u32 z.
Proof. reflexivity. Qed.

(* one segment: the strict reader reconstructs token t from the bytes the writer produced for it *)
Lemma strict_segment_token nsrc nn t col0 st d :
  wf_tok nsrc nn t -> nsrc <= NONE -> nn <= NONE -> est_ok st -> matches st d -> is_u32 col0 = true ->
  strict_segment nsrc nn (t_dl t) (seg_bytes nn t col0 st) col0 d = Ok (t_dc t, next_dstate nn t d false).
Proof.
  intros Hwf Hns Hnn (Hc & Hsl & Hsc & Hnm & Hsr) (Ms & Ml & Mc & Mn) Hcol0.
  destruct Hwf as [Wdl Wdc Wsl Wsc Wsrc Wname].
  assert (Hsrc : has_source t = true -> 0 <= t_src t < nsrc /\ is_u32 (t_src t) = true).
  { intros Hs. unfold has_source in Hs. destruct Wsrc as [E|E]; [rewrite E, Z.eqb_refl in Hs; discriminate|].
    split; [exact E|]. apply u32_bounds. unfold NONE, u32_max, two32 in *. lia. }
  assert (Hname : has_name nn t = true -> 0 <= t_name t < nn /\ is_u32 (t_name t) = true).
  { intros Hn. unfold has_name in Hn. destruct Wname as [E|E]; [rewrite E, Z.eqb_refl in Hn; discriminate|].
    split; [exact E|]. apply u32_bounds. unfold NONE, u32_max, two32 in *. lia. }
  assert (Hdiffs : Forall (fun p => is_u32 (fst p) = true /\ is_u32 (snd p) = true) (seg_diffs nn t col0 st)).
  { unfold seg_diffs. constructor; [split; assumption|].
    destruct (has_source t) eqn:Hs; [|constructor]. destruct (Hsrc eq_refl) as [_ Us].
    repeat (constructor; [cbn [fst snd]; split; assumption|]).
    destruct (has_name nn t) eqn:Hn; [|constructor]. destruct (Hname eq_refl) as [_ Un].
    constructor; [cbn [fst snd]; split; assumption|constructor]. }
  unfold strict_segment. rewrite <- C11_matches_standard, parse_seg_bytes by exact Hdiffs.
  unfold seg_diffs, next_dstate, decoded_tok. cbn [map fst snd].
  replace (col0 + (t_dc t - col0)) with (t_dc t) by lia.
  destruct (has_source t) eqn:Hs.
  - destruct (Hsrc eq_refl) as [Hsr' Us]. cbn [map fst snd].
    destruct (has_name nn t) eqn:Hn; cbn [map fst snd].
    + destruct (Hname eq_refl) as [Hnm' Un].
      rewrite Ms, Ml, Mc, Mn.
      replace (e_src st + (t_src t - e_src st)) with (t_src t) by lia.
      replace (e_sl st + (t_sl t - e_sl st)) with (t_sl t) by lia.
      replace (e_sc st + (t_sc t - e_sc st)) with (t_sc t) by lia.
      replace (e_name st + (t_name t - e_name st)) with (t_name t) by lia.
      destruct (Z.ltb_spec (t_src t) 0); [lia|]. destruct (Z.leb_spec nsrc (t_src t)); [lia|]. cbn [orb].
      destruct (Z.ltb_spec (t_name t) 0); [lia|]. destruct (Z.leb_spec nn (t_name t)); [lia|]. cbn [orb].
      change in_u32 with is_u32. rewrite Wdc, Wsl, Wsc. cbn [andb negb]. reflexivity.
    + rewrite Ms, Ml, Mc.
      replace (e_src st + (t_src t - e_src st)) with (t_src t) by lia.
      replace (e_sl st + (t_sl t - e_sl st)) with (t_sl t) by lia.
      replace (e_sc st + (t_sc t - e_sc st)) with (t_sc t) by lia.
      destruct (Z.ltb_spec (t_src t) 0); [lia|]. destruct (Z.leb_spec nsrc (t_src t)); [lia|]. cbn [orb].
      change in_u32 with is_u32. rewrite Wdc, Wsl, Wsc. cbn [andb negb]. reflexivity.
  - cbn [map]. change in_u32 with is_u32. rewrite Wdc. cbn [negb]. reflexivity.
Qed.

Section Strict.
  Variables nsrc nn : Z.
  Hypothesis Hns : nsrc <= NONE.
  Hypothesis Hnn : nn <= NONE.

  (* ---------- the strict reader over lists of segments and over events ---------- *)
  Definition srun_seg (L : Z) (s : bytes) (l : Z * dstate) : outcome (Z * dstate) :=
    strict_segment nsrc nn L s (fst l) (snd l).
  Fixpoint srun_segs (L : Z) (segs : list bytes) (l : Z * dstate) : outcome (Z * dstate) :=
    match segs with
    | [] => Ok l
    | s :: r => do l' <- srun_seg L s l; srun_segs L r l'
    end.
  Lemma srun_segs_app L a b l :
    srun_segs L (a ++ b) l = do l' <- srun_segs L a l; srun_segs L b l'.
  Proof. revert l. induction a as [|s a IH]; intros l; cbn [srun_segs app bind]; [reflexivity|].
    destruct (srun_seg L s l); cbn [bind]; auto. Qed.

  Lemma strict_segments_run L segs : Forall clean_seg segs -> forall col d,
    strict_segments nsrc nn L segs col d = do l <- srun_segs L segs (col, d); Ok (snd l).
  Proof.
    induction 1 as [|s segs Hs Hsegs IH]; intros col d; cbn [strict_segments srun_segs bind]; [reflexivity|].
    destruct Hs as (Hne & _). destruct s as [|c s']; [contradiction|]. cbn [is_nil].
    unfold srun_seg. cbn [fst snd].
    destruct (strict_segment nsrc nn L (c :: s') col d) as [[col' d']|e|p]; cbn [bind fst snd]; auto.
  Qed.

  Lemma strict_lines_cons_empty rest L d :
    strict_lines nsrc nn ([] :: rest) L d = strict_lines nsrc nn rest (L + 1) d.
  Proof. reflexivity. Qed.
  Lemma strict_lines_cons_line segs rest L d : segs <> [] -> Forall clean_seg segs ->
    strict_lines nsrc nn (join 44 segs :: rest) L d =
    do l <- srun_segs L segs (0, d); strict_lines nsrc nn rest (L + 1) (snd l).
  Proof.
    intros Hne Hsegs.
    assert (Hnil : is_nil (join 44 segs) = false).
    { destruct segs as [|s segs']; [contradiction|].
      inversion Hsegs as [|? ? (Hne' & _) _]; subst. cbn [join]. destruct s; [contradiction|reflexivity]. }
    cbn [strict_lines]. rewrite Hnil.
    rewrite split_join; [|exact Hne|eapply Forall_impl; [|exact Hsegs]; intros x (_ & Hx & _); exact Hx].
    rewrite strict_segments_run by exact Hsegs.
    destruct (srun_segs L segs (0, d)) as [l|e|p]; reflexivity.
  Qed.

  Definition sgs := (Z * (Z * dstate))%type.            (* line, column, decoder state *)
  Definition sdec_ev (e : ev) (g : sgs) : outcome sgs :=
    match e with
    | ENewLine => Ok (fst g + 1, (0, snd (snd g)))
    | ESeg s => do l <- srun_seg (fst g) s (snd g); Ok (fst g, l)
    end.
  Fixpoint sdec_evs (evs : list ev) (g : sgs) : outcome sgs :=
    match evs with [] => Ok g | e :: r => do g' <- sdec_ev e g; sdec_evs r g' end.

  Theorem strict_lines_events : forall evs segs L d,
    Forall clean_ev evs -> Forall clean_seg segs ->
    strict_lines nsrc nn (split_on 59 (join 44 segs ++ render_evs (negb (is_nil segs)) evs)) L d =
    do l <- srun_segs L segs (0, d);
    do g <- sdec_evs evs (L, l);
    Ok (snd (snd g)).
  Proof.
    induction evs as [|e evs IH]; intros segs L d Hevs Hsegs.
    - cbn [render_evs sdec_evs bind]. rewrite app_nil_r.
      rewrite split_on_nosep by (apply nosep_join_segs; exact Hsegs).
      destruct segs as [|s segs'].
      + cbn [join]. rewrite strict_lines_cons_empty. reflexivity.
      + rewrite strict_lines_cons_line by (try discriminate; exact Hsegs).
        destruct (srun_segs L (s :: segs') (0, d)) as [l|e|p]; reflexivity.
    - inversion Hevs as [|? ? He Hevs']; subst. destruct e as [|s].
      + cbn [render_evs].
        rewrite split_on_sep by (apply nosep_join_segs; exact Hsegs).
        specialize (IH [] (L + 1)). cbn [join app is_nil negb srun_segs bind] in IH.
        destruct segs as [|s segs'].
        * cbn [join]. rewrite strict_lines_cons_empty.
          cbn [srun_segs bind sdec_evs sdec_ev fst snd].
          rewrite IH by (try constructor; assumption). reflexivity.
        * rewrite strict_lines_cons_line by (try discriminate; exact Hsegs).
          destruct (srun_segs L (s :: segs') (0, d)) as [l|e|p]; cbn [bind]; auto.
          cbn [sdec_evs sdec_ev bind fst snd]. apply IH; [exact Hevs'|constructor].
      + cbn [render_evs].
        assert (Heq : join 44 segs ++ (if negb (is_nil segs) then [44] else []) ++ s ++ render_evs true evs
                      = join 44 (segs ++ [s]) ++ render_evs (negb (is_nil (segs ++ [s]))) evs).
        { destruct segs as [|x r].
          - cbn [is_nil negb app join flat_map]. rewrite app_nil_r. reflexivity.
          - rewrite join_snoc by discriminate. cbn [is_nil negb]. rewrite <- !app_assoc.
            replace (is_nil ((x :: r) ++ [s])) with false by reflexivity. reflexivity. }
        rewrite Heq, IH; [|exact Hevs'|apply Forall_app; split; [exact Hsegs|constructor; [exact He|constructor]]].
        rewrite srun_segs_app. cbn [srun_segs].
        destruct (srun_segs L segs (0, d)) as [l|e|p]; cbn [bind]; auto.
        cbn [sdec_evs sdec_ev fst snd].
        destruct (srun_seg L s l) as [l'|e|p]; cbn [bind]; reflexivity.
  Qed.

  (* ---------- the whole token list ---------- *)
  Lemma sdec_newlines k : forall L col d rest,
    sdec_evs (repeat ENewLine k ++ rest) (L, (col, d)) =
    match k with
    | O => sdec_evs rest (L, (col, d))
    | S _ => sdec_evs rest (L + Z.of_nat k, (0, d))
    end.
  Proof.
    induction k as [|k IH]; intros L col d rest; [reflexivity|].
    cbn [repeat app sdec_evs sdec_ev bind fst snd]. rewrite IH.
    destruct k as [|k']; f_equal; f_equal; lia.
  Qed.

  Theorem sdec_enc_events : forall ts prev st L col d,
    Forall (wf_tok nsrc nn) ts -> lines_ok (e_line st) ts -> Forall (fun t => t_range t = false) ts ->
    est_ok st -> matches st d -> L = e_line st -> col = e_col st ->
    exists g', sdec_evs (enc_events nn prev ts st) (L, (col, d)) = Ok g'
               /\ d_toks (snd (snd g')) = rev (decoded nn prev ts st d) ++ d_toks d
               /\ Forall clean_ev (enc_events nn prev ts st).
  Proof.
    induction ts as [|t ts IH]; intros prev st L col d Hwf Hl Hnr Hest Hmat HL Hcol.
    - eexists. cbn. repeat split; constructor.
    - inversion Hwf as [|? ? Wt Wts]; subst. destruct Hl as [Hle Hl]. inversion Hnr as [|? ? Rt Rts]; subst.
      cbn [enc_events decoded].
      destruct (skipped nn prev t st) eqn:Es.
      + assert (Hline : t_dl t = e_line st) by (unfold skipped in Es; lia).
        apply IH; try assumption; try reflexivity. rewrite <- Hline. exact Hl.
      + set (new_line := negb (t_dl t =? e_line st)) in *.
        set (col0 := if new_line then 0 else e_col st).
        assert (Hnl : sdec_evs ((if new_line then repeat ENewLine (Z.to_nat (t_dl t - e_line st)) else [])
                        ++ ESeg (seg_bytes nn t col0 st) :: enc_events nn (Some t) ts (next_estate nn t st)) (e_line st, (e_col st, d))
                      = sdec_evs (ESeg (seg_bytes nn t col0 st) :: enc_events nn (Some t) ts (next_estate nn t st)) (t_dl t, (col0, d))).
        { unfold col0. destruct new_line eqn:En.
          - unfold new_line in En. assert (Hne : t_dl t <> e_line st) by lia.
            rewrite sdec_newlines.
            destruct (Z.to_nat (t_dl t - e_line st)) as [|k] eqn:Ek; [lia|].
            f_equal. f_equal. lia.
          - unfold new_line in En. assert (t_dl t = e_line st) by lia. cbn [app]. rewrite H. reflexivity. }
        rewrite Hnl. cbn [sdec_evs sdec_ev bind fst snd]. unfold srun_seg. cbn [fst snd].
        assert (Hcol0 : is_u32 col0 = true) by (unfold col0; destruct new_line; [reflexivity|apply Hest]).
        rewrite (strict_segment_token nsrc nn t col0 st d Wt Hns Hnn Hest Hmat Hcol0). cbn [bind fst snd].
        assert (El : e_line (next_estate nn t st) = t_dl t /\ e_col (next_estate nn t st) = t_dc t)
          by (unfold next_estate; destruct (has_source t); [destruct (has_name nn t)|]; split; reflexivity).
        destruct El as [El1 El2].
        destruct (decode_segment_token nsrc nn t col0 st d [] 0%nat Wt Hns Hnn Hest Hmat Hcol0) as [_ Hclean].
        destruct (IH (Some t) (next_estate nn t st) (t_dl t) (t_dc t) (next_dstate nn t d false)) as (g' & Hg' & Htoks & Hcl); try assumption.
        * rewrite El1. exact Hl.
        * apply (next_estate_ok nsrc nn); assumption.
        * apply next_matches; assumption.
        * symmetry; exact El1.
        * symmetry; exact El2.
        * exists g'. split; [exact Hg'|]. split.
          -- rewrite Htoks, Rt. cbn [rev]. rewrite <- app_assoc. cbn [app].
             unfold next_dstate at 2. destruct (has_source t); cbn [d_toks]; reflexivity.
          -- apply Forall_app. split; [destruct new_line; [apply Forall_forall; intros e He; apply repeat_spec in He; subst; exact I|constructor]|].
             constructor; [exact Hclean|exact Hcl].
  Qed.

  (* the writer's output, read strictly: accepted, and (up to the unwritten fields) the deduplicated tokens *)
  Theorem strict_reads_serialized ts :
    Forall (wf_tok nsrc nn) ts -> lines_ok 0 ts -> Forall (fun t => t_range t = false) ts ->
    exists toks, strict_decode_mappings nsrc nn (serialize_mappings nn ts) = Ok toks
                 /\ map (norm nn) toks = map (norm nn) (dedup nn None ts).
  Proof.
    intros Hwf Hl Hnr. unfold strict_decode_mappings, serialize_mappings.
    change (mkE 0 0 0 0 0 0) with st0. change (mkD 0 0 0 0 []) with d0.
    rewrite ser_tokens_events by exact Hl. cbn [app is_some].
    destruct (sdec_enc_events ts None st0 0 0 d0 Hwf Hl Hnr) as (g' & Hg' & Htoks & Hclean).
    - unfold est_ok, st0. cbn. repeat split; reflexivity.
    - unfold matches, st0, d0. cbn. repeat split; reflexivity.
    - reflexivity.
    - reflexivity.
    - pose proof (strict_lines_events (enc_events nn None ts st0) [] 0 d0 Hclean ltac:(constructor)) as Hd.
      cbn [join app is_nil negb srun_segs bind] in Hd. rewrite Hd, Hg'. cbn [bind].
      eexists. split; [reflexivity|]. rewrite Htoks. cbn [d0 d_toks]. rewrite app_nil_r, rev_involutive.
      apply (decoded_dedup nn). intros p Hp; discriminate.
  Qed.
End Strict.
