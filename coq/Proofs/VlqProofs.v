From SM Require Import Model.Base Model.Gen_B64 Model.Vlq Spec.Vlq.

(* ---- finite sweeps ---- *)
Lemma in_seqZ n d : 0 <= d < Z.of_nat n -> In d (map Z.of_nat (seq 0 n)).
Proof. intros. apply in_map_iff. exists (Z.to_nat d). split; [lia|]. apply in_seq. lia. Qed.
Lemma sweep (n : nat) (P : Z -> bool) :
  forallb P (map Z.of_nat (seq 0 n)) = true -> forall d, 0 <= d < Z.of_nat n -> P d = true.
Proof. intros H d Hd. rewrite forallb_forall in H. apply H, in_seqZ, Hd. Qed.

(* the regenerated tables: alphabet is the standard one; the reverse table inverts it and is negative elsewhere *)
Lemma alphabet_std : B64_CHARS = std_alphabet.
Proof. vm_compute. reflexivity. Qed.
Lemma table_inverts d : 0 <= d < 64 -> b64_lookup (nth (Z.to_nat d) B64_CHARS 0) = d.
Proof. intros. apply Z.eqb_eq.
  apply (sweep 64 (fun d => b64_lookup (nth (Z.to_nat d) B64_CHARS 0) =? d)); [vm_compute; reflexivity | assumption]. Qed.
Lemma table_sound c : 0 <= c < 256 -> 0 <= b64_lookup c -> b64_lookup c < 64 /\ nth (Z.to_nat (b64_lookup c)) B64_CHARS 0 = c.
Proof. intros Hc Hp.
  assert (H : ((b64_lookup c <? 0) || ((b64_lookup c <? 64) && (nth (Z.to_nat (b64_lookup c)) B64_CHARS 0 =? c))) = true).
  { apply (sweep 256 (fun c => (b64_lookup c <? 0) || ((b64_lookup c <? 64) && (nth (Z.to_nat (b64_lookup c)) B64_CHARS 0 =? c))));
      [vm_compute; reflexivity | assumption]. }
  apply orb_true_iff in H. destruct H as [H|H]; [lia|]. apply andb_true_iff in H. destruct H as [H1 H2].
  apply Z.ltb_lt in H1. apply Z.eqb_eq in H2. split; assumption. Qed.
Lemma table_range c : b64_lookup c < 64.
Proof.
  destruct (Z.ltb_spec c 0) as [Hn|Hn].
  - unfold b64_lookup. replace (Z.to_nat c) with O by lia. vm_compute. reflexivity.
  - destruct (Z.ltb_spec c 256) as [Hlt|Hge].
    + apply Z.ltb_lt. apply (sweep 256 (fun c => b64_lookup c <? 64)); [vm_compute; reflexivity | lia].
    + unfold b64_lookup. rewrite nth_overflow; [lia|]. assert (length B64 = 256%nat) by reflexivity. lia.
Qed.
Lemma table_foreign c : digit_of c = None -> b64_lookup c < 0.
Proof.
  intros H. destruct (Z.ltb_spec c 0) as [Hn|Hn].
  - unfold b64_lookup. replace (Z.to_nat c) with O by lia. vm_compute. reflexivity.
  - destruct (Z.ltb_spec c 256) as [Hlt|Hge].
    + assert (G : (match digit_of c with Some _ => true | None => b64_lookup c <? 0 end) = true).
      { apply (sweep 256 (fun c => match digit_of c with Some _ => true | None => b64_lookup c <? 0 end));
          [vm_compute; reflexivity | lia]. }
      rewrite H in G. lia.
    + unfold b64_lookup. rewrite nth_overflow; [lia|]. assert (length B64 = 256%nat) by reflexivity. lia.
Qed.
Lemma table_digit c d : digit_of c = Some d -> b64_lookup c = d /\ 0 <= d < 64 /\ 0 <= c < 256.
Proof.
  intros H.
  assert (Hc : 0 <= c < 256).
  { unfold digit_of in H. assert (In c std_alphabet).
    { revert H. generalize 0. induction std_alphabet as [|x l IH]; intros i H; cbn in H; [discriminate|].
      destruct (Z.eqb_spec x c); [left; auto | right; eapply IH; eauto]. }
    assert (forallb (fun x => (0 <=? x) && (x <? 256)) std_alphabet = true) by (vm_compute; reflexivity).
    rewrite forallb_forall in H1. specialize (H1 _ H0). lia. }
  assert (G : (match digit_of c with Some d => (b64_lookup c =? d) && (0 <=? d) && (d <? 64) | None => true end) = true).
  { apply (sweep 256 (fun c => match digit_of c with Some d => (b64_lookup c =? d) && (0 <=? d) && (d <? 64) | None => true end));
      [vm_compute; reflexivity | lia]. }
  rewrite H in G. apply andb_true_iff in G. destruct G as [G G3]. apply andb_true_iff in G. destruct G as [G1 G2].
  apply Z.eqb_eq in G1. apply Z.leb_le in G2. apply Z.ltb_lt in G3. repeat split; lia.
Qed.

(* ---- bit facts ---- *)
Lemma land31 v : 0 <= v -> Z.land v 31 = v mod 32.
Proof. intros. change 31 with (Z.ones 5). rewrite Z.land_ones by lia. reflexivity. Qed.
Lemma shr5 v : Z.shiftr v 5 = v / 32.
Proof. rewrite Z.shiftr_div_pow2 by lia. reflexivity. Qed.
Lemma shr1 v : Z.shiftr v 1 = v / 2.
Proof. rewrite Z.shiftr_div_pow2 by lia. reflexivity. Qed.
Lemma land1 v : 0 <= v -> Z.land v 1 = v mod 2.
Proof. intros. change 1 with (Z.ones 1). rewrite Z.land_ones by lia. reflexivity. Qed.
Lemma lor32 d : 0 <= d < 32 -> Z.lor d 32 = d + 32.
Proof. intros. apply Z.eqb_eq. apply (sweep 32 (fun d => Z.lor d 32 =? d + 32)); [vm_compute; reflexivity | assumption]. Qed.
Lemma wrap_i64_id z : - two63 <= z < two63 -> wrap_i64 z = z.
Proof. unfold wrap_i64, two64, two63. intros. rewrite Z.mod_small; lia. Qed.
Lemma pow5S k : 0 <= k -> 2 ^ (5 * (k + 1)) = 32 * 2 ^ (5 * k).
Proof. intros. replace (5 * (k + 1)) with (5 * k + 5) by lia. rewrite Z.pow_add_r by lia. lia. Qed.
Lemma two63_pow : two63 = 2 ^ 63. Proof. reflexivity. Qed.

Definition unzig (v : Z) : Z := if negb (v mod 2 =? 0) then - (v / 2) else v / 2.

(* one decoder step on the character that encodes digit d' (0..63) *)
Lemma parse_step d' s cur k rv :
  0 <= d' < 64 -> 0 <= k -> 5 * k < 64 ->
  0 <= cur -> cur + (d' mod 32) * 2 ^ (5 * k) < 2 ^ 63 ->
  parse_go (nth (Z.to_nat d') B64_CHARS 0 :: s) cur (5 * k) rv =
  if d' <? 32 then parse_go s 0 0 (unzig (cur + (d' mod 32) * 2 ^ (5 * k)) :: rv)
  else parse_go s (cur + (d' mod 32) * 2 ^ (5 * k)) (5 * k + 5) rv.
Proof.
  intros Hd Hk Hk64 Hcur Hfit. cbn [parse_go]. rewrite table_inverts by lia.
  destruct (Z.ltb_spec d' 0); [lia|].
  rewrite land31, shr5 by lia.
  destruct (Z.leb_spec 64 (5 * k)); [lia|].
  assert (Hpk : 0 < 2 ^ (5 * k)) by (apply Z.pow_pos_nonneg; lia).
  assert (Hm : 0 <= d' mod 32 < 32) by (apply Z.mod_pos_bound; lia).
  rewrite Z.shiftl_mul_pow2 by lia.
  assert (Hnn : 0 <= d' mod 32 * 2 ^ (5 * k)) by nia.
  rewrite wrap_i64_id by (rewrite two63_pow; lia).
  rewrite Z.shiftr_div_pow2, Z.div_mul by lia. rewrite Z.eqb_refl. cbn [negb].
  unfold i64_add, checked, in_i64. rewrite two63_pow.
  destruct (Z.leb_spec (- 2 ^ 63) (cur + d' mod 32 * 2 ^ (5 * k))); [|lia].
  destruct (Z.ltb_spec (cur + d' mod 32 * 2 ^ (5 * k)) (2 ^ 63)); [|lia].
  cbn [andb bind].
  destruct (Z.ltb_spec d' 32).
  - assert (Hq0 : d' / 32 = 0) by (apply Z.div_small; lia). rewrite Hq0. cbn [Z.eqb].
    rewrite land1, shr1 by lia. unfold unzig. reflexivity.
  - assert (Hq1 : d' / 32 = 1) by (Z.div_mod_to_equations; lia). rewrite Hq1. cbn [Z.eqb]. reflexivity.
Qed.

Lemma parse_enc fuel : forall v k cur rv rest,
  0 <= v < 2 ^ (5 * Z.of_nat fuel) -> 0 <= k ->
  0 <= cur < 2 ^ (5 * k) -> cur + v * 2 ^ (5 * k) < 2 ^ 63 -> 5 * k < 64 ->
  (0 < v \/ (fuel > 0)%nat) ->
  exists s, encode_go fuel v = Some s /\
    parse_go (s ++ rest) cur (5 * k) rv = parse_go rest 0 0 (unzig (cur + v * 2 ^ (5 * k)) :: rv).
Proof.
  induction fuel as [|f IH]; intros v k cur rv rest Hv Hk Hcur Hfit Hk64 Hpos.
  { simpl in Hv. lia. }
  cbn [encode_go].
  assert (Hpk: 0 < 2 ^ (5 * k)) by (apply Z.pow_pos_nonneg; lia).
  rewrite land31, shr5 by lia.
  assert (Hd: 0 <= v mod 32 < 32) by (apply Z.mod_pos_bound; lia).
  assert (Hv32: v = 32 * (v / 32) + v mod 32) by (apply Z.div_mod; lia).
  assert (Hq: 0 <= v / 32) by (apply Z.div_pos; lia).
  assert (Hle: (v mod 32) * 2 ^ (5 * k) <= v * 2 ^ (5 * k)) by nia.
  destruct (Z.ltb_spec 0 (v / 32)) as [Hmore|Hlast].
  - rewrite lor32 by lia.
    destruct (Z.eqb_spec (v / 32) 0) as [Hz|_]; [lia|].
    assert (Hf : (f > 0)%nat).
    { destruct f; [|lia]. simpl in Hv. assert (v / 32 < 1) by (apply Z.div_lt_upper_bound; lia). lia. }
    assert (Hk1: 5 * (k + 1) < 64).
    { destruct (Z.ltb_spec (5 * (k+1)) 64); auto. exfalso.
      assert (2 ^ 64 <= 2 ^ (5 * (k + 1))) by (apply Z.pow_le_mono_r; lia).
      rewrite pow5S in * by lia. nia. }
    destruct (IH (v / 32) (k + 1) (cur + (v mod 32) * 2 ^ (5 * k)) rv rest) as (s & Hs & Hp); try lia.
    + split; [lia|]. replace (Z.of_nat (S f)) with (Z.of_nat f + 1) in Hv by lia.
      rewrite pow5S in Hv by lia. apply Z.div_lt_upper_bound; lia.
    + rewrite pow5S by lia. nia.
    + rewrite pow5S by lia. nia.
    + rewrite Hs. eexists. split; [reflexivity|]. cbn [app].
      rewrite parse_step; try lia.
      * replace ((v mod 32 + 32) mod 32) with (v mod 32)
          by (rewrite <- Z.add_mod_idemp_r, Z.mod_same, Z.add_0_r, Z.mod_mod by lia; reflexivity).
        destruct (Z.ltb_spec (v mod 32 + 32) 32); [lia|].
        replace (5 * k + 5) with (5 * (k + 1)) by lia. rewrite Hp. f_equal. f_equal. f_equal.
        rewrite pow5S by lia. nia.
      * replace ((v mod 32 + 32) mod 32) with (v mod 32)
          by (rewrite <- Z.add_mod_idemp_r, Z.mod_same, Z.add_0_r, Z.mod_mod by lia; reflexivity). lia.
  - assert (Hz : v / 32 = 0) by lia. rewrite Hz. cbn [Z.eqb].
    eexists. split; [reflexivity|]. cbn [app].
    assert (Hveq: v mod 32 = v) by lia.
    rewrite parse_step; try lia.
    + rewrite Z.mod_mod by lia. destruct (Z.ltb_spec (v mod 32) 32); [|lia]. rewrite Hveq. reflexivity.
    + rewrite Z.mod_mod by lia. lia.
Qed.

(* ---- the decoder agrees with the reference on every byte string ---- *)
Lemma value_of_app ds d : value_of (ds ++ [d]) = value_of ds + d * 32 ^ (Z.of_nat (length ds)).
Proof.
  induction ds as [|x ds IH]; cbn [value_of app length]; [cbn; lia|].
  rewrite IH, Nat2Z.inj_succ, Z.pow_succ_r by lia. lia.
Qed.
Lemma pow32 n : 0 <= n -> 32 ^ n = 2 ^ (5 * n).
Proof. intros. rewrite Z.pow_mul_r by lia. reflexivity. Qed.

(* the repaired overflow test, for every digit position 0..12 and every 5-bit value: 416 cases *)
Lemma shift_check n val : 0 <= n <= 12 -> 0 <= val < 32 ->
  (Z.shiftr (wrap_i64 (Z.shiftl val (5 * n))) (5 * n) =? val) = (val * 2 ^ (5 * n) <? two63)
  /\ (val * 2 ^ (5 * n) < two63 -> wrap_i64 (Z.shiftl val (5 * n)) = val * 2 ^ (5 * n)).
Proof.
  intros Hn Hv.
  assert (G : forallb (fun n => forallb (fun val =>
             Bool.eqb (Z.shiftr (wrap_i64 (Z.shiftl val (5 * n))) (5 * n) =? val) (val * 2 ^ (5 * n) <? two63)
             && ((negb (val * 2 ^ (5 * n) <? two63)) || (wrap_i64 (Z.shiftl val (5 * n)) =? val * 2 ^ (5 * n))))
             (map Z.of_nat (seq 0 32))) (map Z.of_nat (seq 0 13)) = true) by (vm_compute; reflexivity).
  rewrite forallb_forall in G. specialize (G n (in_seqZ 13 n ltac:(lia))).
  rewrite forallb_forall in G. specialize (G val (in_seqZ 32 val ltac:(lia))).
  apply andb_true_iff in G. destruct G as [G1 G2]. apply eqb_prop in G1. split; [exact G1|].
  intros Hlt. apply orb_true_iff in G2. destruct G2 as [G2|G2].
  - apply negb_true_iff in G2. apply Z.ltb_ge in G2. lia.
  - apply Z.eqb_eq in G2. exact G2.
Qed.

Definition st_rel (cur shift : Z) (ds : list Z) : Prop :=
  cur = value_of ds /\ shift = 5 * zlen ds /\ Forall (fun d => 0 <= d < 32) ds /\ value_of ds < two63.

Lemma st_rel_init : st_rel 0 0 [].
Proof. unfold st_rel. cbn. repeat split; try constructor; unfold two63; lia. Qed.

Lemma value_of_bound ds : Forall (fun d => 0 <= d < 32) ds -> 0 <= value_of ds < 32 ^ zlen ds.
Proof.
  unfold zlen. induction 1 as [|d ds Hd Hds IH]; cbn [value_of length]; [cbn; lia|].
  rewrite Nat2Z.inj_succ, Z.pow_succ_r by lia. lia.
Qed.

Lemma unzig_unzigzag v : unzig v = unzigzag v.
Proof. unfold unzig, unzigzag. rewrite Zmod_odd. destruct (Z.odd v); reflexivity. Qed.

Lemma digit_foreign c : digit_of c = None <-> b64_lookup c < 0.
Proof.
  split; [apply table_foreign|]. intros H. destruct (digit_of c) as [d|] eqn:E; [|reflexivity].
  destruct (table_digit c d E) as (Hl & Hd & _). lia.
Qed.

Theorem parse_go_spec s : forall cur shift rv ds,
  st_rel cur shift ds -> zlen ds <= 13 ->
  parse_go s cur shift rv = spec_go s ds rv.
Proof.
  induction s as [|c s IH]; intros cur shift rv ds (Hcur & Hshift & Hds & Hval) Hlen.
  - cbn [parse_go spec_go]. destruct ds as [|d ds'].
    + cbn in Hcur, Hshift. subst. cbn. reflexivity.
    + assert (shift =? 0 = false) by (unfold zlen in Hshift; cbn [length] in Hshift; lia).
      rewrite H. cbn [is_nil negb orb]. rewrite orb_true_r. reflexivity.
  - cbn [parse_go spec_go].
    destruct (digit_of c) as [d|] eqn:Ed.
    + destruct (table_digit c d Ed) as (Hl & Hd & Hc). rewrite Hl.
      destruct (Z.ltb_spec d 0); [lia|].
      rewrite land31, shr5 by lia.
      assert (Hm : 0 <= d mod 32 < 32) by (apply Z.mod_pos_bound; lia).
      destruct (Z.leb_spec 13 (zlen ds)) as [H13|H13].
      * destruct (Z.leb_spec 64 shift); [reflexivity|lia].
      * destruct (Z.leb_spec 64 shift); [lia|].
        assert (Hn : 0 <= zlen ds <= 12) by (unfold zlen in *; lia).
        destruct (shift_check (zlen ds) (d mod 32) Hn Hm) as (Hchk & Hwrap).
        rewrite Hshift, Hchk.
        pose proof (value_of_bound ds Hds) as Hvb. rewrite pow32 in Hvb by lia.
        assert (Hpk : 0 < 2 ^ (5 * zlen ds)) by (apply Z.pow_pos_nonneg; lia).
        rewrite value_of_app. fold (zlen ds). rewrite pow32 by lia.
        (* 2^63 is a multiple of 2^(5n): adding cur < 2^(5n) does not cross it *)
        assert (Hmult : two63 = 2 ^ (63 - 5 * zlen ds) * 2 ^ (5 * zlen ds)).
        { rewrite <- Z.pow_add_r by lia. replace (63 - 5 * zlen ds + 5 * zlen ds) with 63 by lia. reflexivity. }
        assert (Hequiv : (d mod 32 * 2 ^ (5 * zlen ds) <? two63) = negb (two63 <=? value_of ds + d mod 32 * 2 ^ (5 * zlen ds))).
        { destruct (Z.ltb_spec (d mod 32 * 2 ^ (5 * zlen ds)) two63) as [Hlt|Hge];
          destruct (Z.leb_spec two63 (value_of ds + d mod 32 * 2 ^ (5 * zlen ds))) as [Hle|Hgt]; try reflexivity; exfalso.
          - rewrite Hmult in Hlt, Hle.
            assert (d mod 32 < 2 ^ (63 - 5 * zlen ds)) by nia.
            assert (d mod 32 + 1 <= 2 ^ (63 - 5 * zlen ds)) by lia. nia.
          - lia. }
        rewrite Hequiv.
        destruct (Z.leb_spec two63 (value_of ds + d mod 32 * 2 ^ (5 * zlen ds))) as [Hov|Hfit]; cbn [negb]; [reflexivity|].
        rewrite Hwrap by lia.
        unfold i64_add, checked, in_i64. rewrite Hcur.
        destruct (Z.leb_spec (- two63) (value_of ds + d mod 32 * 2 ^ (5 * zlen ds))); [|unfold two63 in *; nia].
        destruct (Z.ltb_spec (value_of ds + d mod 32 * 2 ^ (5 * zlen ds)) two63); [|lia].
        cbn [andb bind].
        destruct (Z.ltb_spec d 32) as [Hlast|Hcont].
        -- assert (Hq0 : d / 32 = 0) by (apply Z.div_small; lia). rewrite Hq0. cbn [Z.eqb].
           rewrite land1, shr1 by nia. fold (unzig (value_of ds + d mod 32 * 2 ^ (5 * zlen ds))).
           rewrite unzig_unzigzag. apply IH; [apply st_rel_init|unfold zlen; cbn; lia].
        -- assert (Hq1 : d / 32 = 1) by (Z.div_mod_to_equations; lia). rewrite Hq1. cbn [Z.eqb].
           apply IH.
           ++ repeat split.
              ** rewrite value_of_app. fold (zlen ds). rewrite pow32 by lia. reflexivity.
              ** unfold zlen. rewrite app_length. cbn [length]. unfold zlen in *. lia.
              ** apply Forall_app. split; [exact Hds|]. constructor; [exact Hm|constructor].
              ** rewrite value_of_app. fold (zlen ds). rewrite pow32 by lia. exact Hfit.
           ++ unfold zlen. rewrite app_length. cbn [length]. unfold zlen in *. lia.
    + apply digit_foreign in Ed. destruct (Z.ltb_spec (b64_lookup c) 0); [reflexivity|lia].
Qed.

Theorem C11_matches_standard s : parse_vlq_segment s = spec_parse s.
Proof.
  unfold parse_vlq_segment, spec_parse. apply parse_go_spec; [apply st_rel_init | unfold zlen; cbn; lia].
Qed.
Print Assumptions C11_matches_standard.

(* ---- decode after encode ---- *)
Lemma unzig_zz n : - 2 ^ 62 < n < 2 ^ 62 ->
  let v := if n <? 0 then wrap_i64 (Z.shiftl (- n) 1) + 1 else wrap_i64 (Z.shiftl n 1) in
  unzig v = n /\ 0 <= v < 2 ^ 63.
Proof.
  intros Hn. cbv zeta. destruct (Z.ltb_spec n 0).
  - rewrite Z.shiftl_mul_pow2 by lia. change (2 ^ 1) with 2.
    rewrite wrap_i64_id by (rewrite two63_pow; lia). unfold unzig.
    assert ((- n * 2 + 1) mod 2 = 1) as -> by (Z.div_mod_to_equations; lia).
    assert ((- n * 2 + 1) / 2 = - n) as -> by (Z.div_mod_to_equations; lia).
    cbn. lia.
  - rewrite Z.shiftl_mul_pow2 by lia. change (2 ^ 1) with 2.
    rewrite wrap_i64_id by (rewrite two63_pow; lia). unfold unzig.
    rewrite Z.mod_mul, Z.div_mul by lia. cbn. lia.
Qed.

Lemma parse_encode1 n rv rest : - 2 ^ 62 < n < 2 ^ 62 ->
  exists s, encode_vlq n = Some s /\ parse_go (s ++ rest) 0 0 rv = parse_go rest 0 0 (n :: rv).
Proof.
  intros Hn. destruct (unzig_zz n Hn) as [Hu Hz]. unfold encode_vlq.
  set (v := if n <? 0 then wrap_i64 (Z.shiftl (- n) 1) + 1 else wrap_i64 (Z.shiftl n 1)) in *.
  destruct (parse_enc 14 v 0 0 rv rest) as (s & Hs & Hp); try lia.
  exists s. split; [exact Hs|]. change (5 * 0) with 0 in Hp. rewrite Hp.
  rewrite Z.pow_0_r, Z.mul_1_r, Z.add_0_l, Hu. reflexivity.
Qed.

Theorem C11_decode_encode ns : ns <> [] -> Forall (fun n => - 2 ^ 62 < n < 2 ^ 62) ns ->
  exists s, generate_vlq_segment ns = Some s /\ parse_vlq_segment s = Ok ns.
Proof.
  intros Hne Hall. unfold parse_vlq_segment.
  assert (G : forall rv, exists s, generate_vlq_segment ns = Some s /\
                                   parse_go s 0 0 rv = parse_go [] 0 0 (rev ns ++ rv)).
  { clear Hne. induction Hall as [|n ns Hn Hall IH]; intros rv.
    - exists []. split; reflexivity.
    - destruct (IH (n :: rv)) as (s2 & Hs2 & Hp2).
      destruct (parse_encode1 n rv s2 Hn) as (s1 & Hs1 & Hp1).
      exists (s1 ++ s2). cbn [generate_vlq_segment]. rewrite Hs1, Hs2. split; [reflexivity|].
      rewrite Hp1, Hp2. cbn [rev]. rewrite <- app_assoc. reflexivity. }
  destruct (G []) as (s & Hs & Hp). exists s. split; [exact Hs|]. rewrite Hp, app_nil_r.
  cbn [parse_go Z.eqb negb orb].
  destruct (rev ns) eqn:E.
  - apply (f_equal (@rev Z)) in E. rewrite rev_involutive in E. subst. contradiction.
  - cbn [is_nil]. rewrite <- E, rev_involutive. reflexivity.
Qed.
Print Assumptions C11_decode_encode.
