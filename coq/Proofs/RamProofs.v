(* C20: parsing the layout of an abstract indexed RAM bundle gives the bundle back; nothing ever panics. *)
From SM Require Import Model.Base Model.RamBundle Spec.RamBundle.

Definition byteP (b : Z) : Prop := 0 <= b < 256.

Lemma le32_length v : length (le32 v) = 4%nat. Proof. reflexivity. Qed.
Lemma le32_value v : 0 <= v < two32 ->
  (v mod 256) + 256 * ((v / 256) mod 256) + 65536 * ((v / 65536) mod 256) + 16777216 * ((v / 16777216) mod 256) = v.
Proof. unfold two32. intros. Z.div_mod_to_equations. lia. Qed.

(* reading a little-endian word that sits at offset |pre| *)
Lemma pread_u32_at pre v rest : 0 <= v < two32 -> pread_u32 (pre ++ le32 v ++ rest) (zlen pre) = Ok v.
Proof.
  intros Hv. unfold pread_u32, zlen. rewrite !app_length, le32_length.
  destruct (Z.leb_spec (Z.of_nat (length pre + (4 + length rest))) (Z.of_nat (length pre))); [lia|].
  rewrite Nat2Z.id. rewrite skipn_app, skipn_all, Nat.sub_diag. cbn [skipn app le32].
  f_equal. apply le32_value. exact Hv.
Qed.
Lemma pread_bytes_at pre mid rest : mid ++ rest <> [] ->
  pread_bytes (pre ++ mid ++ rest) (zlen pre) (zlen mid) = Ok mid.
Proof.
  intros Hne. unfold pread_bytes, zlen. rewrite !app_length.
  assert (length (mid ++ rest) > 0)%nat by (destruct (mid ++ rest); [contradiction|cbn; lia]). rewrite app_length in H.
  destruct (Z.leb_spec (Z.of_nat (length pre + (length mid + length rest))) (Z.of_nat (length pre))); [lia|].
  rewrite Nat2Z.id. rewrite skipn_app, skipn_all, Nat.sub_diag. cbn [skipn app].
  rewrite app_length. destruct (Z.ltb_spec (Z.of_nat (length mid + length rest)) (Z.of_nat (length mid))); [lia|].
  rewrite Nat2Z.id, firstn_app, firstn_all, Nat.sub_diag. cbn [firstn]. rewrite app_nil_r. reflexivity.
Qed.

(* nothing in the reader can panic: it is built from pread and comparisons only *)
Theorem C20_no_panic bs : (forall b, parse bs = Ok b -> is_panic (startup_code b) = false /\ forall id, is_panic (get_module b id) = false)
                          /\ is_panic (parse bs) = false.
Proof.
  assert (Hu : forall b o, is_panic (pread_u32 b o) = false).
  { intros b o. unfold pread_u32. destruct (zlen b <=? o); [reflexivity|]. destruct (skipn (Z.to_nat o) b) as [|? [|? [|? [|? ?]]]]; reflexivity. }
  assert (Hb : forall b o s, is_panic (pread_bytes b o s) = false).
  { intros b o s. unfold pread_bytes. destruct (zlen b <=? o); [reflexivity|]. destruct (zlen (skipn (Z.to_nat o) b) <? s); reflexivity. }
  split.
  - intros b _. split; [apply Hb|]. intros id. unfold get_module.
    destruct (b_count b <=? id); [reflexivity|].
    pose proof (Hu (b_bytes b) (12 + id * 8)). destruct (pread_u32 (b_bytes b) (12 + id * 8)); cbn [bind]; try reflexivity; [|discriminate].
    pose proof (Hu (b_bytes b) (12 + id * 8 + 4)). destruct (pread_u32 (b_bytes b) (12 + id * 8 + 4)); cbn [bind]; try reflexivity; [|discriminate].
    destruct ((a =? 0) && (a0 =? 0)); [reflexivity|]. destruct (a0 =? 0); [reflexivity|].
    pose proof (Hb (b_bytes b) (b_startup_off b + a) (a0 - 1)). destruct (pread_bytes (b_bytes b) (b_startup_off b + a) (a0 - 1)); cbn [bind]; try reflexivity. discriminate.
  - unfold parse.
    pose proof (Hu bs 0). destruct (pread_u32 bs 0); cbn [bind]; try reflexivity; [|discriminate].
    pose proof (Hu bs 4). destruct (pread_u32 bs 4); cbn [bind]; try reflexivity; [|discriminate].
    pose proof (Hu bs 8). destruct (pread_u32 bs 8); cbn [bind]; try reflexivity; [|discriminate].
    destruct (negb (a =? RAM_BUNDLE_MAGIC)); reflexivity.
Qed.
Print Assumptions C20_no_panic.

Lemma pread_u32_some bs off : 0 <= off -> off + 4 <= zlen bs -> exists v, pread_u32 bs off = Ok v.
Proof.
  intros H0 H4. unfold pread_u32. destruct (Z.leb_spec (zlen bs) off); [lia|].
  assert (Hl : (4 <= length (skipn (Z.to_nat off) bs))%nat) by (rewrite skipn_length; unfold zlen in *; lia).
  destruct (skipn (Z.to_nat off) bs) as [|? [|? [|? [|? ?]]]]; cbn [length] in Hl; try lia. eauto.
Qed.

(* recognition: exactly a complete 12-byte header with the magic *)
Theorem C20_recognise bs : Forall byteP bs ->
  is_ram_bundle bs = true <-> (12 <= zlen bs /\ exists rest, bs = le32 RAM_BUNDLE_MAGIC ++ rest).
Proof.
  intros Hb. unfold is_ram_bundle. split.
  - intros H. unfold pread_u32 in H.
    destruct (zlen bs <=? 0) eqn:E0; [discriminate|]. cbn [Z.to_nat skipn] in H.
    destruct bs as [|b0 [|b1 [|b2 [|b3 r4]]]]; try discriminate. cbn [bind] in H.
    destruct (zlen (b0 :: b1 :: b2 :: b3 :: r4) <=? 4) eqn:E4; [discriminate|].
    change (Z.to_nat 4) with 4%nat in H. cbn [skipn] in H.
    destruct r4 as [|b4 [|b5 [|b6 [|b7 r8]]]]; try discriminate. cbn [bind] in H.
    destruct (zlen (b0 :: b1 :: b2 :: b3 :: b4 :: b5 :: b6 :: b7 :: r8) <=? 8) eqn:E8; [discriminate|].
    change (Z.to_nat 8) with 8%nat in H. cbn [skipn] in H.
    destruct r8 as [|b8 [|b9 [|b10 [|b11 r12]]]]; try discriminate. cbn [bind] in H.
    split; [unfold zlen; cbn [length]; lia|].
    exists (b4 :: b5 :: b6 :: b7 :: b8 :: b9 :: b10 :: b11 :: r12).
    apply Z.eqb_eq in H.
    inversion Hb as [|? ? H0 Hb1]; subst. inversion Hb1 as [|? ? H1 Hb2]; subst. inversion Hb2 as [|? ? H2 Hb3]; subst. inversion Hb3 as [|? ? H3 _]; subst.
    unfold byteP in *. unfold RAM_BUNDLE_MAGIC in *. cbn [le32 app].
    assert (b0 = 229 /\ b1 = 209 /\ b2 = 11 /\ b3 = 251) by lia. destruct H4 as (-> & -> & -> & ->). reflexivity.
  - intros [Hlen [rest ->]].
    pose proof (pread_u32_at [] RAM_BUNDLE_MAGIC rest ltac:(unfold RAM_BUNDLE_MAGIC, two32; lia)) as H0. cbn [app] in H0.
    change (zlen []) with 0 in H0. rewrite H0. cbn [bind].
    destruct (pread_u32_some (le32 RAM_BUNDLE_MAGIC ++ rest) 4 ltac:(lia) ltac:(lia)) as [v4 ->].
    destruct (pread_u32_some (le32 RAM_BUNDLE_MAGIC ++ rest) 8 ltac:(lia) ltac:(lia)) as [v8 ->].
    cbn [bind]. apply Z.eqb_refl.
Qed.
Print Assumptions C20_recognise.

(* ---------- layout round trip ---------- *)
Fixpoint entries (ms : list (option bytes)) (off : Z) : list (Z * Z) :=
  match ms with
  | [] => []
  | None :: r => (0, 0) :: entries r off
  | Some m :: r => (off, zlen m + 1) :: entries r (off + (zlen m + 1))
  end.
Fixpoint datas (ms : list (option bytes)) : bytes :=
  match ms with [] => [] | None :: r => datas r | Some m :: r => m ++ [0] ++ datas r end.
Definition enc_entry (e : Z * Z) : bytes := le32 (fst e) ++ le32 (snd e).
Lemma layout_table_eq ms : forall off, layout_table ms off = (flat_map enc_entry (entries ms off), datas ms).
Proof.
  induction ms as [|[m|] ms IH]; intros off; cbn [layout_table entries datas flat_map]; [reflexivity| |].
  - rewrite IH. unfold enc_entry. cbn [fst snd]. rewrite <- !app_assoc. reflexivity.
  - rewrite IH. unfold enc_entry. cbn [fst snd]. rewrite <- !app_assoc. reflexivity.
Qed.
Lemma table_length es : zlen (flat_map enc_entry es) = 8 * zlen es.
Proof. unfold zlen. induction es as [|e es IH]; [reflexivity|]. cbn [flat_map length]. rewrite app_length. unfold enc_entry at 1. rewrite app_length, !le32_length. rewrite !Nat2Z.inj_add, IH. rewrite Nat2Z.inj_succ. lia. Qed.
Lemma entries_length ms off : length (entries ms off) = length ms.
Proof. revert off. induction ms as [|[m|] ms IH]; intros off; cbn; auto. Qed.


Definition fits (b : abundle) : Prop :=
  ab_startup b <> [] /\ zlen (layout b) < two32 /\ Forall byteP (ab_startup b).

Lemma layout_eq b : layout b = le32 RAM_BUNDLE_MAGIC ++ le32 (zlen (ab_modules b)) ++ le32 (zlen (ab_startup b))
                              ++ flat_map enc_entry (entries (ab_modules b) (zlen (ab_startup b))) ++ ab_startup b ++ datas (ab_modules b).
Proof. unfold layout. rewrite layout_table_eq. reflexivity. Qed.

Theorem C20_parse b : fits b ->
  exists p, parse (layout b) = Ok p /\ b_count p = zlen (ab_modules b)
            /\ startup_code p = Ok (ab_startup b)
            /\ b_bytes p = layout b /\ b_startup_off p = 12 + 8 * zlen (ab_modules b).
Proof.
  intros (Hne & Hsz & _). rewrite layout_eq in *.
  set (tbl := flat_map enc_entry (entries (ab_modules b) (zlen (ab_startup b)))) in *.
  assert (Htl : zlen tbl = 8 * zlen (ab_modules b)) by (unfold tbl; rewrite table_length; unfold zlen; rewrite entries_length; reflexivity).
  assert (Hcnt : 0 <= zlen (ab_modules b) < two32 /\ 0 <= zlen (ab_startup b) < two32).
  { unfold zlen in *. rewrite !app_length in Hsz. split; lia. }
  unfold parse.
  pose proof (pread_u32_at [] RAM_BUNDLE_MAGIC (le32 (zlen (ab_modules b)) ++ le32 (zlen (ab_startup b)) ++ tbl ++ ab_startup b ++ datas (ab_modules b))
               ltac:(unfold RAM_BUNDLE_MAGIC, two32; lia)) as H0. cbn [app] in H0. change (zlen []) with 0 in H0.
  rewrite H0. cbn [bind].
  pose proof (pread_u32_at (le32 RAM_BUNDLE_MAGIC) (zlen (ab_modules b)) (le32 (zlen (ab_startup b)) ++ tbl ++ ab_startup b ++ datas (ab_modules b)) (proj1 Hcnt)) as H4.
  change (zlen (le32 RAM_BUNDLE_MAGIC)) with 4 in H4. rewrite H4. cbn [bind].
  pose proof (pread_u32_at (le32 RAM_BUNDLE_MAGIC ++ le32 (zlen (ab_modules b))) (zlen (ab_startup b)) (tbl ++ ab_startup b ++ datas (ab_modules b)) (proj2 Hcnt)) as H8.
  replace (zlen (le32 RAM_BUNDLE_MAGIC ++ le32 (zlen (ab_modules b)))) with 8 in H8 by reflexivity.
  rewrite <- app_assoc in H8. rewrite H8. cbn [bind].
  rewrite Z.eqb_refl. cbn [negb]. eexists. split; [reflexivity|]. cbn [b_count b_bytes b_startup_off b_startup_size].
  split; [reflexivity|]. split; [|split; [reflexivity|lia]].
  unfold startup_code. cbn [b_bytes b_startup_off b_startup_size].
  pose proof (pread_bytes_at (le32 RAM_BUNDLE_MAGIC ++ le32 (zlen (ab_modules b)) ++ le32 (zlen (ab_startup b)) ++ tbl)
                             (ab_startup b) (datas (ab_modules b))) as Hs.
  assert (Hl : zlen (le32 RAM_BUNDLE_MAGIC ++ le32 (zlen (ab_modules b)) ++ le32 (zlen (ab_startup b)) ++ tbl) = 12 + zlen (ab_modules b) * 8).
  { clear -Htl. unfold zlen in *. rewrite !app_length, !le32_length. lia. }
  rewrite Hl in Hs. rewrite <- !app_assoc in Hs. apply Hs.
  destruct (ab_startup b); [contradiction|discriminate].
Qed.
Print Assumptions C20_parse.

(* ---------- per-module read-back ---------- *)
Lemma zlen_app' {A} (a b : list A) : zlen (a ++ b) = zlen a + zlen b.
Proof. unfold zlen. rewrite app_length. lia. Qed.
Lemma zlen_ge0 {A} (a : list A) : 0 <= zlen a. Proof. unfold zlen. lia. Qed.
Lemma datas_app a b : datas (a ++ b) = datas a ++ datas b.
Proof. induction a as [|[m|] a IH]; cbn [app datas]; [reflexivity| |exact IH]. rewrite IH, <- !app_assoc. reflexivity. Qed.
Lemma entries_app a b off : entries (a ++ b) off = entries a off ++ entries b (off + zlen (datas a)).
Proof.
  revert off. induction a as [|[m|] a IH]; intros off; cbn [app entries datas].
  - change (zlen (@nil Z)) with 0. rewrite Z.add_0_r. reflexivity.
  - rewrite IH. cbn [app]. f_equal. f_equal. f_equal. unfold zlen. rewrite app_length. cbn [length]. lia.
  - rewrite IH. reflexivity.
Qed.
Lemma flat_map_app' {A B} (f : A -> list B) a b : flat_map f (a ++ b) = flat_map f a ++ flat_map f b.
Proof. induction a as [|x a IH]; cbn [app flat_map]; [reflexivity|]. rewrite IH, app_assoc. reflexivity. Qed.

Theorem C20_module b pre x post : fits b -> ab_modules b = pre ++ x :: post ->
  exists p, parse (layout b) = Ok p /\ get_module p (zlen pre) = Ok x.
Proof.
  intros Hfit Hms. destruct (C20_parse b Hfit) as (p & Hp & Hcount & _ & Hbytes & Hsoff).
  exists p. split; [exact Hp|]. destruct Hfit as (Hne & Hsz & _).
  unfold get_module. rewrite Hcount, Hbytes, Hsoff, Hms.
  pose proof (zlen_ge0 pre) as Hpre0. pose proof (zlen_ge0 post) as Hpost0.
  rewrite zlen_app'. change (zlen (x :: post)) with (Z.of_nat (S (length post))). fold (zlen post) in *.
  assert (Hzc : Z.of_nat (S (length post)) = zlen post + 1) by (unfold zlen; lia). rewrite Hzc.
  destruct (Z.leb_spec (zlen pre + (zlen post + 1)) (zlen pre)); [lia|].
  rewrite layout_eq in *. rewrite Hms in *.
  set (soff := zlen (ab_startup b)) in *.
  rewrite entries_app, flat_map_app' in *. cbn [entries] in *.
  set (T1 := flat_map enc_entry (entries pre soff)) in *.
  assert (HT1 : zlen T1 = 8 * zlen pre) by (unfold T1; rewrite table_length; unfold zlen; rewrite entries_length; reflexivity).
  set (hdr := le32 RAM_BUNDLE_MAGIC ++ le32 (zlen (pre ++ x :: post)) ++ le32 soff) in *.
  assert (Hhdr : zlen hdr = 12) by reflexivity.
  set (off_i := soff + zlen (datas pre)) in *.
  assert (Hlay : forall e rest_tbl tail,
     le32 RAM_BUNDLE_MAGIC ++ le32 (zlen (pre ++ x :: post)) ++ le32 soff ++ (T1 ++ flat_map enc_entry (e :: rest_tbl)) ++ tail
     = (hdr ++ T1) ++ le32 (fst e) ++ le32 (snd e) ++ (flat_map enc_entry rest_tbl ++ tail)).
  { intros e rest_tbl tail. unfold hdr. cbn [flat_map]. unfold enc_entry at 1. rewrite <- !app_assoc. reflexivity. }
  assert (Hpos : zlen (hdr ++ T1) = 12 + zlen pre * 8) by (rewrite zlen_app', Hhdr, HT1; lia).
  assert (Hpos4 : zlen ((hdr ++ T1) ++ le32 (fst (off_i, 0))) = 12 + zlen pre * 8 + 4) by (rewrite zlen_app', Hpos; reflexivity).
  destruct x as [m|].
  - (* a present module *)
    cbn [datas] in *. rewrite datas_app in *. cbn [datas] in *.
    set (tail := ab_startup b ++ datas pre ++ m ++ [0] ++ datas post) in *.
    assert (Hsize : zlen tail < two32 /\ 0 <= soff).
    { split; [|apply zlen_ge0]. revert Hsz. unfold zlen. rewrite !app_length. lia. }
    assert (Htail : zlen tail = soff + zlen (datas pre) + zlen m + 1 + zlen (datas post)).
    { unfold tail. rewrite !zlen_app'. change (zlen [0]) with 1. fold soff. lia. }
    pose proof (zlen_ge0 (datas pre)). pose proof (zlen_ge0 (datas post)). pose proof (zlen_ge0 m).
    rewrite (Hlay (off_i, zlen m + 1)).
    cbn [fst snd].
    pose proof (pread_u32_at (hdr ++ T1) off_i (le32 (zlen m + 1) ++ flat_map enc_entry (entries post (off_i + (zlen m + 1))) ++ tail)
                 ltac:(unfold off_i; lia)) as R1. rewrite Hpos in R1. rewrite R1. cbn [bind].
    pose proof (pread_u32_at ((hdr ++ T1) ++ le32 off_i) (zlen m + 1) (flat_map enc_entry (entries post (off_i + (zlen m + 1))) ++ tail)
                 ltac:(lia)) as R2.
    assert (Hp4 : zlen ((hdr ++ T1) ++ le32 off_i) = 12 + zlen pre * 8 + 4) by (rewrite zlen_app', Hpos; reflexivity).
    rewrite Hp4, <- app_assoc in R2. rewrite R2. cbn [bind].
    destruct (Z.eqb_spec (zlen m + 1) 0); [lia|]. rewrite andb_false_r.
    replace (zlen m + 1 - 1) with (zlen m) by lia.
    (* the data sits at startup_off + off_i *)
    set (T2 := flat_map enc_entry (entries post (off_i + (zlen m + 1)))) in *.
    assert (HT2 : zlen T2 = 8 * zlen post) by (unfold T2; rewrite table_length; unfold zlen; rewrite entries_length; reflexivity).
    assert (Hre : (hdr ++ T1) ++ le32 off_i ++ le32 (zlen m + 1) ++ T2 ++ tail
                  = ((hdr ++ T1) ++ le32 off_i ++ le32 (zlen m + 1) ++ T2 ++ ab_startup b ++ datas pre) ++ m ++ ([0] ++ datas post)).
    { unfold tail. rewrite <- !app_assoc. reflexivity. }
    rewrite Hre.
    pose proof (pread_bytes_at ((hdr ++ T1) ++ le32 off_i ++ le32 (zlen m + 1) ++ T2 ++ ab_startup b ++ datas pre) m ([0] ++ datas post)) as R3.
    assert (Hp5 : zlen ((hdr ++ T1) ++ le32 off_i ++ le32 (zlen m + 1) ++ T2 ++ ab_startup b ++ datas pre)
                  = 12 + 8 * (zlen pre + (zlen post + 1)) + off_i).
    { rewrite !zlen_app', Hhdr, HT1, HT2. change (zlen (le32 off_i)) with 4. change (zlen (le32 (zlen m + 1))) with 4. unfold off_i. fold soff. lia. }
    rewrite Hp5 in R3. rewrite R3; [reflexivity|]. destruct m; discriminate.
  - (* an absent module: the entry is (0, 0) *)
    set (tail := ab_startup b ++ datas (pre ++ None :: post)) in *.
    rewrite (Hlay (0, 0)). cbn [fst snd].
    pose proof (pread_u32_at (hdr ++ T1) 0 (le32 0 ++ flat_map enc_entry (entries post off_i) ++ tail) ltac:(unfold two32; lia)) as R1.
    rewrite Hpos in R1. rewrite R1. cbn [bind].
    pose proof (pread_u32_at ((hdr ++ T1) ++ le32 0) 0 (flat_map enc_entry (entries post off_i) ++ tail) ltac:(unfold two32; lia)) as R2.
    assert (Hp4 : zlen ((hdr ++ T1) ++ le32 0) = 12 + zlen pre * 8 + 4) by (rewrite zlen_app', Hpos; reflexivity).
    rewrite Hp4, <- app_assoc in R2. rewrite R2. cbn [bind]. reflexivity.
Qed.
Print Assumptions C20_module.

(* ---------- ids past the table, and the module iterator ---------- *)
Theorem C20_past_table b id : fits b -> zlen (ab_modules b) <= id ->
  exists p, parse (layout b) = Ok p /\ get_module p id = Err ERamIndex.
Proof.
  intros Hfit Hid. destruct (C20_parse b Hfit) as (p & Hp & Hcount & _).
  exists p. split; [exact Hp|]. unfold get_module. rewrite Hcount.
  destruct (Z.leb_spec (zlen (ab_modules b)) id); [reflexivity|lia].
Qed.

Fixpoint present (ms : list (option bytes)) (id : Z) : list (outcome (Z * bytes)) :=
  match ms with
  | [] => []
  | None :: r => present r (id + 1)
  | Some d :: r => Ok (id, d) :: present r (id + 1)
  end.

Theorem C20_iter b : fits b ->
  exists p, parse (layout b) = Ok p /\ iter_modules p = present (ab_modules b) 0.
Proof.
  intros Hfit. destruct (C20_parse b Hfit) as (p & Hp & Hcount & _).
  exists p. split; [exact Hp|]. unfold iter_modules. rewrite Hcount.
  assert (Hgen : forall rest pre, ab_modules b = pre ++ rest ->
            iter_from p (length rest) (zlen pre) = present rest (zlen pre)).
  { induction rest as [|x rest IH]; intros pre Hms; [reflexivity|].
    destruct (C20_module b pre x rest Hfit Hms) as (p' & Hp' & Hget).
    assert (p' = p) by congruence. subst p'.
    cbn [length iter_from present]. rewrite Hget.
    assert (Hnext : zlen pre + 1 = zlen (pre ++ [x])) by (unfold zlen; rewrite app_length; cbn [length]; lia).
    specialize (IH (pre ++ [x])). rewrite <- app_assoc in IH. cbn [app] in IH. specialize (IH Hms).
    rewrite Hnext. destruct x as [d|]; rewrite IH; reflexivity. }
  specialize (Hgen (ab_modules b) [] eq_refl). change (zlen (@nil (option bytes))) with 0 in Hgen.
  unfold zlen. rewrite Nat2Z.id. exact Hgen.
Qed.
