(* C15: the line iterator (`lines()` = get_line 0, get_line 1, ... until the first None) yields all the lines, in order,
   from any reachable state of the view, and leaves the view in a reachable state. *)
From SM Require Import Model.Base Model.SourceView Spec.SourceView Proofs.SourceViewProofs.

Fixpoint lines_from (src : bytes) (fuel : nat) (i : Z) (st : sv) (acc : list bytes) : outcome (sv * list bytes) :=
  match fuel with
  | O => Err EIo                                  (* out of fuel: excluded by the theorem *)
  | S f =>
    do x <- get_line src i st;
    match snd x with
    | Some l => lines_from src f (i + 1) (fst x) (l :: acc)
    | None => Ok (fst x, rev acc)
    end
  end.

Lemma znth_firstn_snoc {A} (l : list A) i x : 0 <= i -> znth_opt l i = Some x ->
  firstn (Z.to_nat (i + 1)) l = firstn (Z.to_nat i) l ++ [x].
Proof.
  revert i. induction l as [|y l IH]; intros i Hi H; [destruct (Z.to_nat i); discriminate|].
  cbn [znth_opt] in H. destruct (Z.eqb_spec i 0) as [->|Hne].
  - inversion H; subst. reflexivity.
  - destruct (Z.ltb_spec i 0); [lia|].
    replace (Z.to_nat (i + 1)) with (S (Z.to_nat (i - 1 + 1))) by lia. replace (Z.to_nat i) with (S (Z.to_nat (i - 1))) by lia.
    cbn [firstn app]. f_equal. apply IH; [lia|exact H].
Qed.

Theorem lines_from_correct src : forall fuel i st acc,
  0 <= i -> Inv src st -> zlen (L src) - i < Z.of_nat fuel -> i <= zlen (L src) ->
  exists st', lines_from src fuel i st acc = Ok (st', rev acc ++ skipn (Z.to_nat i) (L src)) /\ Inv src st'.
Proof.
  induction fuel as [|f IH]; intros i st acc Hi Hinv Hfuel Hle; [lia|].
  cbn [lines_from]. destruct (get_line_correct src i st Hi Hinv) as (st1 & Hg & Hinv1 & _). rewrite Hg. cbn [bind fst snd].
  destruct (znth_opt (L src) i) as [l|] eqn:E.
  - assert (Hlt : i < zlen (L src)).
    { destruct (Z.ltb_spec i (zlen (L src))); [assumption|]. rewrite znth_opt_ge in E by lia. discriminate. }
    destruct (IH (i + 1) st1 (l :: acc)) as (st' & Hr & Hinv'); try lia; try assumption.
    exists st'. split; [|exact Hinv']. rewrite Hr. f_equal. f_equal. cbn [rev]. rewrite <- app_assoc. f_equal. cbn [app].
    (* skipn i = l :: skipn (i+1) *)
    clear -E Hi. revert i Hi E. generalize (L src). induction l0 as [|y r IHr]; intros i Hi E; [destruct (Z.to_nat i); discriminate|].
    cbn [znth_opt] in E. destruct (Z.eqb_spec i 0) as [->|Hne]; [inversion E; reflexivity|].
    destruct (Z.ltb_spec i 0); [lia|].
    replace (Z.to_nat (i + 1)) with (S (Z.to_nat (i - 1 + 1))) by lia. replace (Z.to_nat i) with (S (Z.to_nat (i - 1))) by lia.
    cbn [skipn]. apply IHr; [lia|exact E].
  - exists st1. split; [|exact Hinv1]. f_equal. f_equal.
    assert (Hge : zlen (L src) <= i) by (apply znth_opt_none_len; assumption).
    rewrite skipn_all2 by (unfold zlen in *; lia). rewrite app_nil_r. reflexivity.
Qed.

(* lines() on any reachable view: all the lines, in order *)
Theorem C15_lines_iter src st : Inv src st ->
  exists st', lines_from src (S (length (L src))) 0 st [] = Ok (st', L src) /\ Inv src st'.
Proof.
  intros Hinv. destruct (lines_from_correct src (S (length (L src))) 0 st [] ltac:(lia) Hinv) as (st' & H & Hinv').
  - unfold zlen. lia.
  - unfold zlen. lia.
  - exists st'. split; [exact H|exact Hinv'].
Qed.
