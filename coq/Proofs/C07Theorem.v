(* C07: range flags survive serialisation, for every token list. *)
From SM Require Import Model.Base Model.Gen_B64 Model.Vlq Model.Mappings
     Proofs.StringLemmas Proofs.VlqProofs Proofs.CodecEvents Proofs.CodecCore Proofs.CodecTheorems Proofs.RmiProofs.

Lemma rmi_empty_mono nn : forall ts prev s, r_empty (rmi_tokens nn prev ts s) = true -> r_empty s = true.
Proof.
  induction ts as [|t ts IH]; intros prev s H; [exact H|].
  cbn [rmi_tokens] in H. apply IH in H. unfold rmi_token in H.
  destruct (Z.to_nat (t_dl t - r_line s)); cbn [negb andb r_empty r_line r_had r_segs r_bits r_buf] in H;
    repeat match type of H with context [if ?c then _ else _] => destruct c end; cbn [r_empty] in H; congruence.
Qed.

Lemma rmi_empty_had nn : forall ts prev s, lines_ok (r_line s) ts ->
  (r_had s = true -> r_empty s = false) ->
  r_empty (rmi_tokens nn prev ts s) = true ->
  Forall (fun st => rl_had st = false) (st_lines nn prev ts (r_line s) (rl_of s)).
Proof.
  induction ts as [|t ts IH]; intros prev s Hl Hinv H.
  - cbn [st_lines]. constructor; [|constructor]. cbn in H. unfold rl_of. cbn [rl_had].
    destruct (r_had s); [rewrite Hinv in H by reflexivity; discriminate|reflexivity].
  - destruct Hl as [Hle Hl]. cbn [rmi_tokens st_lines] in *.
    pose proof (rmi_empty_mono nn ts (Some t) _ H) as Hmono.
    unfold rmi_token in H, Hmono.
    destruct (Z.to_nat (t_dl t - r_line s)) as [|k] eqn:Ek; cbn [negb andb] in H, Hmono.
    + assert (Hline : t_dl t = r_line s) by lia. unfold rl_upd, is_dup.
      destruct (match prev with Some p => is_same_segment nn p t | None => false end).
      * apply IH; auto. rewrite <- Hline. exact Hl.
      * destruct (t_range t); cbn [r_empty] in Hmono; [discriminate|].
        apply (IH (Some t) _ ) in H; cbn [r_line r_had r_empty r_segs r_bits r_buf rl_of] in *; auto.
        rewrite <- Hline. exact Hl.
    + unfold rl_upd, rl_fresh. cbn [rl_had rl_segs rl_bits].
      destruct (t_range t); cbn [r_empty r_line r_had r_segs r_bits r_buf] in Hmono; [discriminate|].
      constructor.
      * unfold rl_of. cbn [rl_had]. destruct (r_had s); [rewrite Hinv in Hmono by reflexivity; discriminate|reflexivity].
      * apply Forall_app. split; [apply Forall_forall; intros x Hx; apply repeat_spec in Hx; subst; reflexivity|].
        apply (IH (Some t) _) in H; cbn [r_line r_had r_empty r_segs r_bits r_buf rl_of] in *; auto. discriminate.
Qed.

Lemma encode_rmi_nosep bits : nosep 59 (encode_rmi bits).
Proof.
  unfold encode_rmi, nosep. apply Forall_forall. intros c Hc. apply in_map_iff in Hc. destruct Hc as (ch & Hch & _).
  subst c. intros Heq.
  assert (G : forallb (fun c => negb (c =? 59)) (0 :: B64_CHARS) = true) by (vm_compute; reflexivity).
  rewrite forallb_forall in G.
  destruct (Nat.lt_ge_cases (Z.to_nat (bits_value ch)) (length B64_CHARS)) as [Hlt|Hge].
  - specialize (G _ (or_intror (nth_In B64_CHARS 0 Hlt))). lia.
  - rewrite nth_overflow in Heq by exact Hge. discriminate.
Qed.

Section C07.
  Variables nsrc nn : Z.
  Hypothesis Hns : nsrc <= NONE.
  Hypothesis Hnn : nn <= NONE.

  Definition rm_of (ts : list rtoken) : bytes :=
    match serialize_range_mappings nn ts with Some r => r | None => [] end.

  Lemma nth_map_cur_str sl n : nth n (map cur_str sl) [] = cur_str (nth n sl rl_fresh).
  Proof. change [] with (cur_str rl_fresh) at 1. apply map_nth. Qed.
  Lemma hd_skipn (l : list bytes) n : hd_rmi (skipn n l) = nth n l [].
  Proof. revert l. induction n as [|n IH]; intros [|x l]; try reflexivity. cbn [skipn nth]. apply IH. Qed.

  Theorem C07_roundtrip ts :
    Forall (wf_tok nsrc nn) ts -> lines_ok 0 ts ->
    exists toks, decode_mappings nsrc nn (serialize_mappings nn ts) (rm_of ts) = Ok toks
                 /\ map (norm nn) toks = map (norm nn) (dedup nn None ts).
  Proof.
    intros Hwf Hl.
    set (sl := st_lines nn None ts 0 rl_fresh).
    destruct (st_lines_head nn ts None 0 rl_fresh rl_fresh_ok Hl) as (h & rest & Hsl & Hh & Hrest & _ & _).
    assert (Hall : Forall rl_ok sl) by (unfold sl; rewrite Hsl; constructor; assumption).
    assert (Hrm : exists lines, split_on 59 (rm_of ts) = lines /\
              forall L, 0 <= L -> exists bits, decode_rmi (rmi_at lines L) = Ok bits
                                      /\ forall i, nth i bits false = Fof 0 sl L i).
    { unfold rm_of, serialize_range_mappings.
      set (f := rmi_tokens nn None ts (mkR 0 false true 0 [] [])).
      pose proof (rmi_tokens_lines nn ts None (mkR 0 false true 0 [] []) Hl) as Hstr.
      cbn [r_buf r_line app] in Hstr. fold f in Hstr. unfold final_string in Hstr.
      change (rl_of (mkR 0 false true 0 [] [])) with rl_fresh in Hstr. rewrite rmi_lines_st in Hstr. fold sl in Hstr.
      destruct (r_empty f) eqn:Ee.
      - (* no range token at all: the key is omitted, every line state has no bits *)
        exists [[]]. split; [reflexivity|]. intros L HL. exists []. split.
        + unfold rmi_at. destruct (Z.to_nat L) as [|[|n]]; reflexivity.
        + intros i. unfold Fof.
          assert (Hhad : Forall (fun st => rl_had st = false) sl).
          { apply (rmi_empty_had nn ts None (mkR 0 false true 0 [] [])); auto; cbn; discriminate. }
          rewrite Z.sub_0_r.
          destruct (nth_in_or_default (Z.to_nat L) sl rl_fresh) as [Hin|Hd].
          * rewrite Forall_forall in Hhad, Hall. destruct (Hall _ Hin) as [_ Hb]. rewrite (Hb (Hhad _ Hin)).
            destruct i; reflexivity.
          * rewrite Hd. destruct i; reflexivity.
      - exists (map cur_str sl). split.
        + replace (if r_had f then r_buf f ++ encode_rmi (r_bits f) else r_buf f) with (join 59 (map cur_str sl)) by (symmetry; exact Hstr).
          apply split_join.
          * unfold sl. rewrite Hsl. discriminate.
          * apply Forall_forall. intros s Hs. apply in_map_iff in Hs. destruct Hs as (st & <- & _).
            unfold cur_str. destruct (rl_had st); [apply encode_rmi_nosep|constructor].
        + intros L HL. unfold rmi_at. rewrite hd_skipn, nth_map_cur_str. unfold Fof. rewrite Z.sub_0_r.
          set (st := nth (Z.to_nat L) sl rl_fresh).
          assert (Hst : rl_ok st).
          { unfold st. destruct (nth_in_or_default (Z.to_nat L) sl rl_fresh) as [Hin|Hd]; [rewrite Forall_forall in Hall; auto|rewrite Hd; apply rl_fresh_ok]. }
          unfold cur_str. destruct (rl_had st) eqn:Eh.
          * destruct (C07_bits (rl_bits st)) as (bits & H1 & H2). exists bits. split; assumption.
          * exists []. split; [reflexivity|]. intros i. destruct Hst as [_ Hb]. rewrite (Hb Eh). destruct i; reflexivity. }
    destruct Hrm as (lines & Hlines & Hdec).
    apply (decode_serialize_with_flags nsrc nn Hns Hnn ts (rm_of ts) (Fof 0 sl)); auto.
    - rewrite Hlines. exact Hdec.
    - change O with (rl_segs rl_fresh). unfold sl. apply flags_from_lines; try lia; try apply rl_fresh_ok; try exact Hl; try reflexivity.
      intros p Hp; discriminate.
  Qed.
End C07.
Print Assumptions C07_roundtrip.
