(* C18: a produced data URL decodes to what the serialised bytes decode to. *)
From SM Require Import Model.Base Spec.Base64 Model.DataUrl Proofs.Base64Proofs.

(* decidable sufficient condition on the constants: the first accepted preamble that is a prefix of
   the produced one is the produced one itself *)
Fixpoint accepts (ps : list bytes) (out : bytes) : bool :=
  match ps with
  | [] => false
  | p :: r => if Nat.leb (length p) (length out)
              then (if starts_with out p then Nat.eqb (length p) (length out) else accepts r out)
              else false
  end.

Lemma starts_with_app a x p : (length p <= length a)%nat -> starts_with (a ++ x) p = starts_with a p.
Proof.
  revert a. induction p as [|y p IH]; intros a H; [destruct a, x; reflexivity|].
  destruct a as [|z a]; cbn [length] in H; [lia|]. cbn [app starts_with]. rewrite IH by lia. reflexivity.
Qed.
Lemma skipn_app_exact {A} (a x : list A) : skipn (length a) (a ++ x) = x.
Proof. induction a as [|y a IH]; [reflexivity|exact IH]. Qed.
Lemma starts_with_full a p : starts_with a p = true -> length p = length a -> p = a.
Proof.
  revert a. induction p as [|y p IH]; intros a H L; destruct a as [|z a]; cbn in *; try discriminate; try reflexivity.
  apply andb_true_iff in H. destruct H as [H1 H2]. apply Z.eqb_eq in H1. subst. f_equal. apply IH; [exact H2|lia].
Qed.

Lemma accepts_strip ps out : accepts ps out = true -> forall x, strip_any ps (out ++ x) = Some x.
Proof.
  induction ps as [|p r IH]; intros H x; cbn [accepts] in H; [discriminate|]. cbn [strip_any].
  destruct (Nat.leb_spec (length p) (length out)) as [Hle|]; [|discriminate].
  rewrite starts_with_app by exact Hle.
  destruct (starts_with out p) eqn:E.
  - apply Nat.eqb_eq in H. rewrite (starts_with_full out p E H). rewrite skipn_app_exact. reflexivity.
  - apply IH. exact H.
Qed.

Section T.
  Context {A : Type} (encode : A -> bytes) (decode_slice : bytes -> outcome A).
  Theorem C18_data_url_gen out ins m : accepts ins out = true -> Forall byte (encode m) ->
    decode_data_url decode_slice ins (to_data_url encode out m) = decode_slice (encode m).
  Proof.
    intros Hacc Hb. unfold decode_data_url, to_data_url. rewrite (accepts_strip ins out Hacc), C18_b64 by exact Hb. reflexivity.
  Qed.
  (* with the constants of the (repaired) sources *)
  Lemma produced_preamble_accepted : accepts PREAMBLES_IN PREAMBLE_OUT = true.
  Proof. vm_compute. reflexivity. Qed.
  Theorem C18_data_url m : Forall byte (encode m) ->
    decode_data_url decode_slice PREAMBLES_IN (to_data_url encode PREAMBLE_OUT m) = decode_slice (encode m).
  Proof. apply C18_data_url_gen. exact produced_preamble_accepted. Qed.
End T.
Print Assumptions C18_data_url.
(* the constants of the unrepaired sources: only the short preamble is accepted *)
Example preamble_refuted_before_fix : accepts [hd [] PREAMBLES_IN] PREAMBLE_OUT = false.
Proof. vm_compute. reflexivity. Qed.
