From SM Require Import Model.Base.
From Coq Require Import Permutation Sorted.

(* ---- lexicographic order on positions ---- *)
Definition ple (a b : pos) : Prop := fst a < fst b \/ (fst a = fst b /\ snd a <= snd b).
Definition plt (a b : pos) : Prop := fst a < fst b \/ (fst a = fst b /\ snd a < snd b).

Lemma pos_leb_spec a b : pos_leb a b = true <-> ple a b.
Proof. unfold pos_leb, ple. destruct a as [a1 a2], b as [b1 b2]; cbn [fst snd]. lia. Qed.
Lemma pos_ltb_spec a b : pos_ltb a b = true <-> plt a b.
Proof. unfold pos_ltb, plt. destruct a as [a1 a2], b as [b1 b2]; cbn [fst snd]. lia. Qed.
Lemma pos_eqb_spec a b : pos_eqb a b = true <-> a = b.
Proof.
  unfold pos_eqb. destruct a as [a1 a2], b as [b1 b2]; cbn [fst snd]. split.
  - intros H. apply andb_true_iff in H. destruct H as [H1 H2]. f_equal; lia.
  - intros H. inversion H. subst. lia.
Qed.
Lemma ple_refl a : ple a a. Proof. unfold ple. lia. Qed.
Lemma ple_trans a b c : ple a b -> ple b c -> ple a c. Proof. unfold ple. lia. Qed.
Lemma ple_total a b : ple a b \/ ple b a. Proof. unfold ple. lia. Qed.
Lemma plt_ple a b : plt a b -> ple a b. Proof. unfold ple, plt. lia. Qed.
Lemma ple_antisym a b : ple a b -> ple b a -> a = b.
Proof. unfold ple. destruct a, b; cbn [fst snd]. intros. f_equal; lia. Qed.
Lemma not_ple_plt a b : ~ ple a b <-> plt b a. Proof. unfold ple, plt. lia. Qed.
Lemma ple_plt_trans a b c : ple a b -> plt b c -> plt a c. Proof. unfold ple, plt. lia. Qed.
Lemma plt_ple_trans a b c : plt a b -> ple b c -> plt a c. Proof. unfold ple, plt. lia. Qed.
Lemma plt_irrefl a : ~ plt a a. Proof. unfold plt. lia. Qed.
Lemma pos_leb_false a b : pos_leb a b = false <-> plt b a.
Proof. rewrite <- not_ple_plt, <- pos_leb_spec. destruct (pos_leb a b); split; congruence. Qed.
Lemma pos_ltb_false a b : pos_ltb a b = false <-> ple b a.
Proof. unfold pos_ltb, ple. destruct a, b; cbn [fst snd]. lia. Qed.

(* ---- sortedness as a Prop ---- *)
Section SortProofs.
  Context {A : Type} (key : A -> pos).
  Definition kle (x y : A) : Prop := ple (key x) (key y).
  Definition sorted (l : list A) : Prop := StronglySorted kle l.

  Lemma sortedb_sorted l : sortedb key l = true <-> sorted l.
  Proof.
    induction l as [|x l IH]; cbn [sortedb].
    - split; [constructor | reflexivity].
    - destruct l as [|y l'].
      + split; [repeat constructor | reflexivity].
      + rewrite andb_true_iff, pos_leb_spec, IH. split.
        * intros [Hxy Hs]. constructor; [exact Hs|].
          constructor; [exact Hxy|].
          inversion Hs as [|? ? Hs' Hall]; subst.
          eapply Forall_impl; [|exact Hall]. intros z Hz. eapply ple_trans; eassumption.
        * intros Hs. inversion Hs as [|? ? Hs' Hall]; subst. split; [|exact Hs'].
          inversion Hall; assumption.
  Qed.

  Lemma insert_perm x l : Permutation (x :: l) (insert key x l).
  Proof.
    induction l as [|y l IH]; cbn [insert]; [reflexivity|].
    destruct (pos_leb (key x) (key y)); [reflexivity|].
    rewrite perm_swap. constructor. exact IH.
  Qed.
  Lemma isort_cons x l : isort key (x :: l) = insert key x (isort key l).
  Proof. reflexivity. Qed.
  Lemma isort_perm l : Permutation l (isort key l).
  Proof.
    induction l as [|x l IH]; [reflexivity|].
    rewrite isort_cons, <- insert_perm. constructor. exact IH.
  Qed.
  Lemma insert_sorted x l : sorted l -> sorted (insert key x l).
  Proof.
    induction l as [|y l IH]; intros Hs; cbn [insert].
    - repeat constructor.
    - destruct (pos_leb (key x) (key y)) eqn:E.
      + apply pos_leb_spec in E. constructor; [exact Hs|].
        constructor; [exact E|].
        inversion Hs as [|? ? Hs' Hall]; subst.
        eapply Forall_impl; [|exact Hall]. intros z Hz. eapply ple_trans; eassumption.
      + apply pos_leb_false in E. inversion Hs as [|? ? Hs' Hall]; subst.
        constructor; [apply IH; exact Hs'|].
        eapply Permutation_Forall; [apply insert_perm|].
        constructor; [apply plt_ple; exact E | exact Hall].
  Qed.
  Lemma isort_sorted l : sorted (isort key l).
  Proof. induction l as [|x l IH]; [constructor | rewrite isort_cons; apply insert_sorted, IH]. Qed.
  Lemma isort_id l : sorted l -> isort key l = l.
  Proof.
    induction l as [|x l IH]; intros Hs; [reflexivity|].
    inversion Hs as [|? ? Hs' Hall]; subst. rewrite isort_cons, (IH Hs').
    destruct l as [|y l']; cbn [insert]; [reflexivity|].
    inversion Hall as [|? ? Hxy _]; subst.
    apply pos_leb_spec in Hxy. unfold kle in *. rewrite Hxy. reflexivity.
  Qed.
  Lemma isort_length l : length (isort key l) = length l.
  Proof. symmetry. apply Permutation_length, isort_perm. Qed.
End SortProofs.
