(* End-to-end statements about the mappings codec. *)
From SM Require Import Model.Base Model.Gen_B64 Model.Vlq Model.Mappings
     Proofs.StringLemmas Proofs.VlqProofs Proofs.CodecEvents Proofs.CodecCore.

Definition st0 : estate := mkE 0 0 0 0 0 0.
Definition d0 : dstate := mkD 0 0 0 0 [].

(* tokens that would be written as the same segment as their predecessor are dropped *)
Fixpoint dedup (nn : Z) (prev : option rtoken) (ts : list rtoken) : list rtoken :=
  match ts with
  | [] => []
  | t :: ts' =>
    match prev with
    | Some p => if is_same_segment nn p t then dedup nn (Some t) ts' else t :: dedup nn (Some t) ts'
    | None => t :: dedup nn (Some t) ts'
    end
  end.
(* what is observable of a token: nothing of the original position or name when it has no source *)
Definition norm (nn : Z) (t : rtoken) : rtoken :=
  if has_source t then mkTok (t_dl t) (t_dc t) (t_sl t) (t_sc t) (t_src t) (if has_name nn t then t_name t else NONE) (t_range t)
  else mkTok (t_dl t) (t_dc t) 0 0 NONE NONE (t_range t).

Lemma norm_decoded nn t d : norm nn (decoded_tok nn t d (t_range t)) = norm nn t.
Proof.
  unfold norm, decoded_tok. destruct (has_source t) eqn:Hs.
  - cbn [has_source t_src t_dl t_dc t_sl t_sc t_name t_range]. unfold has_source in Hs |- *. cbn [t_src]. rewrite Hs.
    destruct (has_name nn t) eqn:Hn; unfold has_name in *; cbn [t_name].
    + rewrite Hn. reflexivity.
    + unfold NONE. rewrite Z.eqb_refl. reflexivity.
  - unfold has_source. cbn [t_src]. rewrite Z.eqb_refl. reflexivity.
Qed.

Lemma decoded_dedup (nn : Z) : forall ts prev st d,
  (forall p, prev = Some p -> t_dl p = e_line st) ->
  map (norm nn) (decoded nn prev ts st d) = map (norm nn) (dedup nn prev ts).
Proof.
  induction ts as [|t ts IH]; intros prev st d Hp; [reflexivity|].
  cbn [decoded dedup]. unfold skipped. destruct prev as [p|].
  - assert (Hline : is_same_segment nn p t = true -> t_dl t = e_line st).
    { intros H. unfold is_same_segment in H. rewrite <- (Hp p eq_refl). lia. }
    destruct (is_same_segment nn p t) eqn:Es.
    + rewrite (Hline eq_refl), Z.eqb_refl. cbn [andb]. apply IH. intros q Hq. inversion Hq; subst. apply Hline; reflexivity.
    + rewrite andb_false_r. cbn [map]. rewrite norm_decoded. f_equal. apply IH.
      intros q Hq. inversion Hq; subst. unfold next_estate. destruct (has_source q); [destruct (has_name nn q)|]; reflexivity.
  - rewrite andb_false_r. cbn [map]. rewrite norm_decoded. f_equal. apply IH.
    intros q Hq. inversion Hq; subst. unfold next_estate. destruct (has_source q); [destruct (has_name nn q)|]; reflexivity.
Qed.

Section Main.
  Variables nsrc nn : Z.
  Hypothesis Hns : nsrc <= NONE.
  Hypothesis Hnn : nn <= NONE.

  (* decoding what the writer wrote, for any rangeMappings string that assigns the right flags *)
  Theorem decode_serialize_with_flags ts rm F :
    Forall (wf_tok nsrc nn) ts -> lines_ok 0 ts ->
    (forall L, 0 <= L -> exists bits, decode_rmi (rmi_at (split_on 59 rm) L) = Ok bits /\ forall i, nth i bits false = F L i) ->
    flags_ok nn F None ts st0 0 ->
    exists toks, decode_mappings nsrc nn (serialize_mappings nn ts) rm = Ok toks
                 /\ map (norm nn) toks = map (norm nn) (dedup nn None ts).
  Proof.
    intros Hwf Hl Hrm Hfl. unfold decode_mappings, serialize_mappings.
    change (mkE 0 0 0 0 0 0) with st0. change (mkD 0 0 0 0 []) with d0.
    rewrite ser_tokens_events by exact Hl. cbn [app is_some].
    destruct (dec_enc_events nsrc nn Hns Hnn (split_on 59 rm) F Hrm ts None st0
                (mkGs 0 (split_on 59 rm) (fresh d0)) Hwf Hl) as (g' & Hg' & Htoks & Hclean).
    - unfold st_inv, est_ok, matches, st0, d0, fresh. cbn. repeat split; auto; try lia; try discriminate.
    - exact Hfl.
    - pose proof (decode_lines_events nsrc nn (enc_events nn None ts st0) [] 0 (split_on 59 rm) d0 Hclean ltac:(constructor)) as Hd.
      cbn [join app is_nil negb run_segs bind] in Hd. rewrite Hd, Hg'. cbn [bind].
      eexists. split; [reflexivity|]. rewrite Htoks. cbn [fresh ls_d g_ls d0 d_toks]. rewrite app_nil_r, rev_involutive.
      apply (decoded_dedup nn). intros p Hp; discriminate.
  Qed.

  (* maps without range tokens: the rangeMappings key is absent, i.e. the empty string is decoded *)
  Theorem C03_mappings_no_ranges ts :
    Forall (wf_tok nsrc nn) ts -> lines_ok 0 ts -> Forall (fun t => t_range t = false) ts ->
    exists toks, decode_mappings nsrc nn (serialize_mappings nn ts) [] = Ok toks
                 /\ map (norm nn) toks = map (norm nn) (dedup nn None ts).
  Proof.
    intros Hwf Hl Hnr. apply (decode_serialize_with_flags ts [] (fun _ _ => false)); try assumption.
    - intros L HL. exists []. split.
      + unfold rmi_at. cbn [split_on]. destruct (Z.to_nat L) as [|[|k]]; reflexivity.
      + intros i. destruct i; reflexivity.
    - clear Hwf Hl. generalize (@None rtoken), st0, O.
      induction Hnr as [|t ts Ht Hts IH]; intros prev st idx; cbn [flags_ok]; [exact I|].
      destruct (skipped nn prev t st); [apply IH|]. split; [symmetry; exact Ht|apply IH].
  Qed.
End Main.
Print Assumptions C03_mappings_no_ranges.
