(* C09 with prefix stripping: the rewritten map's sources are the stripped images of a duplicate-free list (so two sources
   can only coincide when stripping made them equal), names have no duplicates, everything is referenced, and contents
   stay attached to the source they belonged to before stripping (first content in token order), or are all dropped. *)
From SM Require Import Model.Base Model.Mappings Model.Glb Model.SourceMap Model.Rewrite
  Proofs.BaseLemmas Proofs.BuilderProofs Proofs.IndexProofs Proofs.FlattenProofs Proofs.RewriteProofs Proofs.ContentsProofs.

Lemma strip_fields ps b :
  b_names (strip_prefixes ps b) = b_names b /\ b_tokens (strip_prefixes ps b) = b_tokens b
  /\ b_contents (strip_prefixes ps b) = b_contents b.
Proof. repeat split; reflexivity. Qed.
Lemma strip1_nil s : strip1 [] s = s.
Proof. reflexivity. Qed.

Theorem C09_general m o m' mp :
  rewrite_with_mapping m o = Ok (m', mp) -> zlen (sm_tokens m) < NONE ->
  exists pre,
    NoDup pre /\ sm_sources m' = map (strip1 (eff_prefixes m o)) pre
    /\ NoDup (sm_names m')
    /\ refd (zlen (sm_sources m')) (map t_src (sm_tokens m')) /\ refd (zlen (sm_names m')) (map t_name (sm_tokens m'))
    /\ (ro_contents o = true -> forall j s, znth_opt pre j = Some s -> get_source_contents m' j = first_content m (sm_tokens m) s)
    /\ (ro_contents o = false -> forall j, get_source_contents m' j = None).
Proof.
  intros H Hsz. unfold rewrite_with_mapping in H.
  set (b0 := b_set_debug_id (sm_debug_id m) (builder_new (sm_file m))) in *.
  assert (I0 : builder_inv b0) by (split; intros s; reflexivity).
  assert (Hint0 : interned b0).
  { unfold interned, b0. cbn. repeat split; try constructor; intros i Hi; change (zlen (@nil bytes)) with 0 in Hi; lia. }
  destruct (rewrite_tokens m o (sm_tokens m) b0) as [b1|e|p] eqn:E; cbn [bind] in H; try discriminate.
  destruct (rewrite_tokens_interned m o (sm_tokens m) b0 b1 I0 Hint0 E) as [I1 (N1 & N2 & R1 & R2)].
  fold (eff_prefixes m o) in H.
  set (b2 := if is_nil (eff_prefixes m o) then b1 else strip_prefixes (eff_prefixes m o) b1) in *.
  assert (Hb2 : b_sources b2 = map (strip1 (eff_prefixes m o)) (b_sources b1) /\ b_names b2 = b_names b1
                /\ b_tokens b2 = b_tokens b1 /\ b_contents b2 = b_contents b1).
  { unfold b2. destruct (eff_prefixes m o) as [|p ps] eqn:Ee; cbn [is_nil].
    - repeat split; try reflexivity. symmetry. rewrite <- (map_id (b_sources b1)) at 2. apply map_ext. intros s. reflexivity.
    - rewrite strip_sources. repeat split; reflexivity. }
  destruct Hb2 as (S2 & N2' & T2 & C2).
  inversion H; subst m' mp. clear H.
  exists (b_sources b1). split; [exact N1|].
  assert (Hsrc : sm_sources (into_sourcemap b2) = b_sources b2) by apply into_sourcemap_sources.
  split; [rewrite Hsrc; exact S2|].
  assert (Hfields : sm_names (into_sourcemap b2) = b_names b2 /\ sm_tokens (into_sourcemap b2) = isort tok_key (b_tokens b2)).
  { unfold into_sourcemap. match goal with |- context [fold_left ?f ?l ?m0] => destruct (fold_ignore_fields l m0) as (H1 & _ & H3 & _) end.
    cbn [set_source_root set_debug_id sm_new sm_tokens sm_names] in *. split; [exact H3|].
    rewrite H1. destruct (b_root b2) as [r|]; [destruct (is_nil r)|]; reflexivity. }
  destruct Hfields as [Hn Ht].
  assert (Hperm : forall (f : rtoken -> Z) i, In i (map f (b_tokens b1)) -> In i (map f (isort tok_key (b_tokens b1)))).
  { intros f i Hin. apply in_map_iff in Hin. destruct Hin as (t & <- & Ht'). apply in_map.
    eapply Permutation.Permutation_in; [apply isort_perm|exact Ht']. }
  split; [rewrite Hn, N2'; exact N2|].
  split; [rewrite Hsrc, S2, Ht, T2; unfold zlen; rewrite map_length; intros i Hi; apply Hperm; apply R1; exact Hi|].
  split; [rewrite Hn, N2', Ht, T2; intros i Hi; apply Hperm; apply R2; exact Hi|].
  split.
  - intros Hkeep j s Hj.
    assert (Hc0 : contents_inv m b0 []).
    { split; [intros j0 s0 Hj0; destruct j0; discriminate|]. split; [intros t s0 []|]. cbn. lia. }
    destruct (rewrite_tokens_contents m o Hkeep (sm_tokens m) b0 b1 [] I0 Hint0 Hc0 ltac:(change (zlen (b_sources b0)) with 0; lia) E) as [(HA & _) _].
    rewrite into_sourcemap_contents. unfold b_get_source_contents. rewrite C2. cbn [app] in HA. apply (HA j s Hj).
  - intros Hdrop j. rewrite into_sourcemap_contents. unfold b_get_source_contents. rewrite C2, (rewrite_tokens_no_contents m o Hdrop _ _ _ E). reflexivity.
Qed.
