(* C14, the bytecode-offset entry point: SourceMapHermes::get_original_function_name(offset) looks (0, offset) up by the
   closest-preceding-token rule and answers with the scope of the token found (C14_lookup says which scope that is). *)
From SM Require Import Model.Base Model.Mappings Model.Glb Model.SourceMap Model.Rewrite Proofs.BaseLemmas Proofs.GlbProofs Proofs.LookupProofs.

Theorem C14_bytecode_offset h off :
  sorted tok_key (sm_tokens (h_sm h)) -> Forall (fun t => is_u32 (t_dc t) = true) (sm_tokens (h_sm h)) -> is_u32 off = true ->
  match lookup_token (sm_tokens (h_sm h)) 0 off with
  | Ok (Some (i, t, o)) =>
      glb_spec tok_key (sm_tokens (h_sm h)) (0, off) (Some (i, t))
      /\ o = (if t_range t && (t_dl t =? 0) then off - t_dc t else 0)
      /\ h_get_original_function_name h off = Ok (get_scope_for_token h t o)
  | Ok None => (forall t, In t (sm_tokens (h_sm h)) -> plt (0, off) (tok_key t))
               /\ h_get_original_function_name h off = Ok None
  | _ => False
  end.
Proof.
  intros Hs Hu Hc. pose proof (C07_lookup (sm_tokens (h_sm h)) 0 off Hs Hu Hc) as H.
  unfold h_get_original_function_name.
  destruct (lookup_token (sm_tokens (h_sm h)) 0 off) as [[[[i t] o]|]|e|p]; cbn [bind]; try exact H.
  - destruct H as (H1 & H2 & _). repeat split; try assumption; apply H1.
  - split; [exact H|reflexivity].
Qed.
