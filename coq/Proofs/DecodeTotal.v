(* C05/C06: the whole `mappings` reader is total: on every byte string it answers Ok or Err, never Panic. *)
From SM Require Import Model.Base Model.Vlq Model.Mappings Spec.Vlq Spec.Mappings Proofs.BaseLemmas Proofs.VlqProofs Proofs.DecodeSpec.

Definition no_panic {A} (o : outcome A) : Prop := match o with Panic _ => False | _ => True end.

Lemma spec_go_no_panic : forall s cur acc, no_panic (spec_go s cur acc).
Proof.
  induction s as [|c s IH]; intros cur acc; cbn [spec_go].
  - destruct (negb (is_nil cur)); [exact I|]. destruct (is_nil acc); exact I.
  - destruct (digit_of c); [|exact I]. destruct (13 <=? zlen cur); [exact I|].
    destruct (two63 <=? _); [exact I|]. destruct (z <? 32); apply IH.
Qed.
Lemma spec_segment_no_panic nsrc nnames dl flag seg col st : no_panic (spec_segment nsrc nnames dl flag seg col st).
Proof.
  unfold spec_segment. pose proof (spec_go_no_panic seg [] []) as H. unfold spec_parse.
  destruct (spec_go seg [] []) as [nums|e|p]; [|exact I|exact H].
  destruct nums as [|c [|s [|l [|k [|n [|x r]]]]]]; try exact I.
  - destruct ((d_src st + s <? 0) || (nsrc <=? d_src st + s)); exact I.
  - destruct ((d_src st + s <? 0) || (nsrc <=? d_src st + s)); [exact I|].
    destruct ((d_name st + n <? 0) || (nnames <=? d_name st + n)); exact I.
Qed.
Lemma decode_rmi_no_panic s : no_panic (decode_rmi s).
Proof.
  induction s as [|b s IH]; cbn [decode_rmi]; [exact I|]. destruct (rmi_char_value b); [|exact I].
  destruct (decode_rmi s); cbn [bind]; [exact I|exact I|exact IH].
Qed.

Lemma decode_segments_total nsrc nnames dl rmi : nsrc <= NONE -> nnames <= NONE ->
  forall segs idx col st, dst_ok st -> is_u32 col = true ->
  no_panic (decode_segments nsrc nnames dl rmi segs idx col st)
  /\ forall st', decode_segments nsrc nnames dl rmi segs idx col st = Ok st' -> dst_ok st'.
Proof.
  intros Hs Hn. induction segs as [|seg segs IH]; intros idx col st Hst Hcol; cbn [decode_segments].
  - split; [exact I|]. intros st' H; inversion H; subst; exact Hst.
  - destruct (is_nil seg); [apply IH; assumption|].
    destruct (C06_segment nsrc nnames dl rmi idx seg col st Hs Hn Hst Hcol) as [Heq Hok].
    pose proof (spec_segment_no_panic nsrc nnames dl (nth idx rmi false) seg col st) as Hnp. rewrite <- Heq in Hnp.
    destruct (decode_segment nsrc nnames dl rmi idx seg col st) as [r|e|p]; cbn [bind].
    + destruct (Hok r eq_refl) as [H1 H2]. apply IH; assumption.
    + split; [exact I|discriminate].
    + contradiction.
Qed.

Lemma decode_lines_total nsrc nnames : nsrc <= NONE -> nnames <= NONE ->
  forall lines rmis dl st, dst_ok st -> no_panic (decode_lines nsrc nnames lines rmis dl st).
Proof.
  intros Hs Hn. induction lines as [|line lines IH]; intros rmis dl st Hst; cbn [decode_lines]; [exact I|].
  destruct (is_nil line); [apply IH; exact Hst|].
  pose proof (decode_rmi_no_panic (match rmis with [] => [] | r :: _ => r end)) as Hr.
  destruct (decode_rmi _) as [rmi|e|p]; cbn [bind]; [|exact I|exact Hr].
  destruct (decode_segments_total nsrc nnames dl rmi Hs Hn (split_on 44 line) 0%nat 0 st Hst eq_refl) as [Hnp Hok].
  destruct (decode_segments nsrc nnames dl rmi (split_on 44 line) 0 0 st) as [st'|e|p]; cbn [bind]; [|exact I|exact Hnp].
  apply IH. apply Hok. reflexivity.
Qed.

Theorem C05_decode_mappings_total nsrc nnames mappings range_mappings :
  nsrc <= NONE -> nnames <= NONE -> no_panic (decode_mappings nsrc nnames mappings range_mappings).
Proof.
  intros Hs Hn. unfold decode_mappings.
  assert (H0 : dst_ok (mkD 0 0 0 0 [])) by (repeat split).
  pose proof (decode_lines_total nsrc nnames Hs Hn (split_on 59 mappings) (split_on 59 range_mappings) 0 _ H0) as H.
  destruct (decode_lines _ _ _ _ _ _) as [st|e|p]; cbn [bind]; [exact I|exact I|exact H].
Qed.
Print Assumptions C05_decode_mappings_total.

(* ---- the reader is the independent reading, on every string (no rangeMappings) ---- *)
Lemma decode_segments_spec nsrc nnames dl : nsrc <= NONE -> nnames <= NONE ->
  forall segs idx col st, dst_ok st -> is_u32 col = true ->
  decode_segments nsrc nnames dl [] segs idx col st = spec_segments nsrc nnames dl (fun _ => false) segs idx col st.
Proof.
  intros Hs Hn. induction segs as [|seg segs IH]; intros idx col st Hst Hcol; cbn [decode_segments spec_segments]; [reflexivity|].
  destruct (is_nil seg); [apply IH; assumption|].
  destruct (C06_segment nsrc nnames dl [] idx seg col st Hs Hn Hst Hcol) as [Heq Hok].
  assert (Hnth : nth idx (@nil bool) false = false) by (destruct idx; reflexivity). rewrite Hnth in Heq. rewrite <- Heq.
  destruct (decode_segment nsrc nnames dl [] idx seg col st) as [r|e|p]; cbn [bind]; [|reflexivity|reflexivity].
  destruct (Hok r eq_refl) as [H1 H2]. apply IH; assumption.
Qed.
Theorem C06_whole nsrc nnames mappings : nsrc <= NONE -> nnames <= NONE ->
  decode_mappings nsrc nnames mappings [] = spec_decode_mappings nsrc nnames mappings.
Proof.
  intros Hs Hn. unfold decode_mappings, spec_decode_mappings. cbn [split_on].
  assert (H0 : dst_ok (mkD 0 0 0 0 [])) by (repeat split).
  assert (G : forall lines rmis dl st, dst_ok st -> Forall (fun r => r = []) rmis ->
             decode_lines nsrc nnames lines rmis dl st = spec_lines nsrc nnames lines dl st
             /\ forall st', spec_lines nsrc nnames lines dl st = Ok st' -> dst_ok st').
  { induction lines as [|l lines IH]; intros rmis dl st Hst Hr; cbn [decode_lines spec_lines].
    - split; [reflexivity|]. intros st' H; inversion H; subst; exact Hst.
    - assert (Hr' : Forall (fun r => r = []) (match rmis with [] => [] | _ :: r => r end)) by (destruct rmis; [constructor|inversion Hr; assumption]).
      destruct rmis as [|r0 rmis']; [|inversion Hr; subst r0].
      all: cbv zeta.
      all: destruct (is_nil l); [apply IH; assumption|].
      all: cbn [decode_rmi bind].
      all: rewrite (decode_segments_spec nsrc nnames dl Hs Hn (split_on 44 l) 0%nat 0 st Hst eq_refl).
      all: destruct (decode_segments_total nsrc nnames dl [] Hs Hn (split_on 44 l) 0%nat 0 st Hst eq_refl) as [_ Hok].
      all: rewrite (decode_segments_spec nsrc nnames dl Hs Hn (split_on 44 l) 0%nat 0 st Hst eq_refl) in Hok.
      all: destruct (spec_segments nsrc nnames dl (fun _ => false) (split_on 44 l) 0 0 st) as [st'|e|p]; cbn [bind]; [|split; [reflexivity|discriminate]..].
      all: apply IH; [apply Hok; reflexivity|exact Hr']. }
  destruct (G (split_on 59 mappings) [[]] 0 _ H0 ltac:(repeat constructor)) as [Heq _]. rewrite Heq.
  destruct (spec_lines nsrc nnames (split_on 59 mappings) 0 _); reflexivity.
Qed.
Print Assumptions C06_whole.
