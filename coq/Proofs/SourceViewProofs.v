From SM Require Import Model.Base Model.SourceView Spec.SourceView.

(* ---- split_lines, one piece at a time ---- *)
Fixpoint first_nl (s : bytes) : option nat :=
  match s with
  | [] => None
  | b :: s' => if (b =? 10) || (b =? 13) then Some O
               else match first_nl s' with Some i => Some (S i) | None => None end
  end.
Lemma position_nl_first s i :
  position_nl s i = match first_nl s with Some k => Some (i + Z.of_nat k) | None => None end.
Proof.
  revert i. induction s as [|b s IH]; intros i; cbn [position_nl first_nl]; [reflexivity|].
  destruct ((b =? 10) || (b =? 13)); [f_equal; lia|].
  rewrite IH. destruct (first_nl s); [f_equal; lia | reflexivity].
Qed.

(* width of the terminator starting at position k of s *)
Definition term_width (s : bytes) (k : nat) : nat :=
  match skipn k s with b :: c :: _ => if (b =? 13) && (c =? 10) then 2%nat else 1%nat | _ => 1%nat end.
Lemma term_width_range s k : (1 <= term_width s k <= 2)%nat.
Proof. unfold term_width. destruct (skipn k s) as [|b [|c r]]; try lia. destruct ((b =? 13) && (c =? 10)); lia. Qed.

Lemma split_go_app s cur : split_lines_go s cur =
  match split_lines_go s [] with [] => [] | p :: ps => (rev cur ++ p) :: ps end.
Proof.
  revert cur. induction s as [|b s IH]; intros cur; cbn [split_lines_go].
  - cbn. rewrite app_nil_r. reflexivity.
  - destruct (b =? 10); [cbn; rewrite app_nil_r; reflexivity|].
    destruct (b =? 13).
    + destruct s as [|c s']; [cbn; rewrite app_nil_r; reflexivity|].
      destruct (c =? 10); cbn; rewrite app_nil_r; reflexivity.
    + rewrite (IH (b :: cur)), (IH [b]). destruct (split_lines_go s []); [reflexivity|].
      cbn [rev]. rewrite <- !app_assoc. reflexivity.
Qed.

Lemma split_lines_step s :
  match first_nl s with
  | None => split_lines s = [s]
  | Some k => split_lines s = firstn k s :: split_lines (skipn (k + term_width s k) s)
  end.
Proof.
  unfold split_lines. induction s as [|b s IH]; cbn [first_nl]; [reflexivity|].
  destruct ((b =? 10) || (b =? 13)) eqn:E.
  - cbn [split_lines_go firstn]. unfold term_width. cbn [skipn Nat.add].
    destruct (b =? 10) eqn:E10.
    + assert (b =? 13 = false) by lia. rewrite H. destruct s; reflexivity.
    + assert (b =? 13 = true) by lia. rewrite H. cbn [andb].
      destruct s as [|c s']; [reflexivity|]. destruct (c =? 10); reflexivity.
  - cbn [split_lines_go]. apply orb_false_iff in E. destruct E as [E10 E13]. rewrite E10, E13.
    rewrite split_go_app. destruct (first_nl s) as [k|].
    + rewrite IH. cbn [firstn rev app]. unfold term_width. cbn [skipn Nat.add]. reflexivity.
    + rewrite IH. reflexivity.
Qed.

(* ---- znth_opt ---- *)
Lemma znth_opt_neg {A} (l : list A) i : i < 0 -> znth_opt l i = None.
Proof. revert i. induction l as [|x l IH]; intros i Hi; cbn [znth_opt]; [reflexivity|].
  destruct (Z.eqb_spec i 0); [lia|]. destruct (Z.ltb_spec i 0); [reflexivity|lia]. Qed.
Lemma znth_opt_ge {A} (l : list A) i : zlen l <= i -> znth_opt l i = None.
Proof. unfold zlen. revert i. induction l as [|x l IH]; intros i Hi; cbn [znth_opt length] in *; [reflexivity|].
  destruct (Z.eqb_spec i 0); [lia|]. destruct (Z.ltb_spec i 0); [reflexivity|]. apply IH. lia. Qed.
Lemma znth_opt_app_l {A} (l r : list A) i x : znth_opt l i = Some x -> znth_opt (l ++ r) i = Some x.
Proof. revert i. induction l as [|y l IH]; intros i H; cbn [znth_opt app] in *; [discriminate|].
  destruct (i =? 0); [exact H|]. destruct (i <? 0); [discriminate|]. apply IH, H. Qed.
Lemma znth_opt_app_r {A} (l r : list A) i : zlen l <= i -> znth_opt (l ++ r) i = znth_opt r (i - zlen l).
Proof. unfold zlen. revert i. induction l as [|y l IH]; intros i H; cbn [znth_opt app length] in *.
  - f_equal. lia.
  - destruct (Z.eqb_spec i 0); [lia|]. destruct (Z.ltb_spec i 0); [lia|]. rewrite IH by lia. f_equal. lia. Qed.
Lemma znth_opt_none_len {A} (l : list A) i : 0 <= i -> znth_opt l i = None -> zlen l <= i.
Proof. unfold zlen. revert i. induction l as [|y l IH]; intros i H0 H; cbn [znth_opt length] in *; [lia|].
  destruct (Z.eqb_spec i 0); [discriminate|]. destruct (Z.ltb_spec i 0); [lia|]. apply IH in H; lia. Qed.

(* ---- the invariant of the lazy index ---- *)
Definition Inv (src : bytes) (st : sv) : Prop :=
  (0 <= sv_pu st <= zlen src /\ split_lines src = sv_lines st ++ split_lines (zskipn (sv_pu st) src))
  \/ (sv_pu st = zlen src + 1 /\ split_lines src = sv_lines st).

Lemma Inv_new src : Inv src sv_new.
Proof. left. cbn. unfold zlen. split; [lia|]. reflexivity. Qed.

Lemma first_nl_bound s k : first_nl s = Some k -> (k < length s)%nat.
Proof. revert k. induction s as [|b s IH]; intros k H; cbn [first_nl] in H; [discriminate|].
  destruct ((b =? 10) || (b =? 13)); [inversion H; cbn; lia|].
  destruct (first_nl s) eqn:E; [|discriminate]. inversion H; subst. specialize (IH _ eq_refl). cbn; lia. Qed.
Lemma first_nl_term s k : first_nl s = Some k -> exists b r, skipn k s = b :: r /\ ((b =? 10) || (b =? 13)) = true.
Proof. revert k. induction s as [|b s IH]; intros k H; cbn [first_nl] in H; [discriminate|].
  destruct ((b =? 10) || (b =? 13)) eqn:E; [inversion H; subst; cbn; eauto|].
  destruct (first_nl s) eqn:E'; [|discriminate]. inversion H; subst. cbn [skipn]. apply IH. reflexivity. Qed.

(* the model's computation of the terminator width agrees with term_width *)
Lemma idx_adjust rest k : first_nl rest = Some k ->
  (if (nth (Z.to_nat (Z.of_nat k)) rest 0 =? 13) && (nth (Z.to_nat (Z.of_nat k + 1)) rest 0 =? 10)
      && (Z.of_nat k + 1 <? zlen rest) then Z.of_nat k + 1 else Z.of_nat k)
  = Z.of_nat (k + term_width rest k) - 1.
Proof.
  intros H. destruct (first_nl_term rest k H) as (b & r & Hsk & Hb).
  assert (Hk : (k < length rest)%nat) by (apply first_nl_bound; exact H).
  assert (Hn0 : nth k rest 0 = b).
  { rewrite <- (firstn_skipn k rest) at 1. rewrite app_nth2; rewrite firstn_length_le by lia; [|lia].
    rewrite Nat.sub_diag, Hsk. reflexivity. }
  assert (Hn1 : nth (S k) rest 0 = nth 0 r 0).
  { rewrite <- (firstn_skipn k rest) at 1. rewrite app_nth2; rewrite firstn_length_le by lia; [|lia].
    replace (S k - k)%nat with 1%nat by lia. rewrite Hsk. reflexivity. }
  assert (Hlen : length rest = (k + S (length r))%nat).
  { rewrite <- (firstn_skipn k rest) at 1. rewrite app_length, firstn_length_le, Hsk by lia. reflexivity. }
  rewrite Nat2Z.id. replace (Z.to_nat (Z.of_nat k + 1)) with (S k) by lia. rewrite Hn0, Hn1.
  unfold term_width. rewrite Hsk. unfold zlen. rewrite Hlen.
  destruct r as [|c r']; cbn [nth length].
  - destruct (b =? 13); cbn [andb]; [|lia].
    destruct (Z.ltb_spec (Z.of_nat k + 1) (Z.of_nat (k + 1))); cbn; lia.
  - destruct ((b =? 13) && (c =? 10)); cbn [andb]; [|lia].
    destruct (Z.ltb_spec (Z.of_nat k + 1) (Z.of_nat (k + S (S (length r'))))); lia.
Qed.

Lemma skipn_skipn {A} (a b : nat) (l : list A) : skipn a (skipn b l) = skipn (b + a) l.
Proof. revert l. induction b as [|b IH]; intros l; [reflexivity|]. destruct l as [|x l]; [destruct a; reflexivity|]. cbn. apply IH. Qed.
Lemma zskipn_skipn {A} (a b : Z) (l : list A) : 0 <= a -> 0 <= b -> zskipn b (zskipn a l) = zskipn (a + b) l.
Proof. intros. unfold zskipn. rewrite skipn_skipn. f_equal. lia. Qed.
Lemma zlen_zskipn {A} a (l : list A) : 0 <= a <= zlen l -> zlen (zskipn a l) = zlen l - a.
Proof. unfold zlen, zskipn. intros. rewrite skipn_length. lia. Qed.

(* one loop iteration, from a state that is not finished *)
Lemma index_step_inv src st :
  0 <= sv_pu st <= zlen src -> split_lines src = sv_lines st ++ split_lines (zskipn (sv_pu st) src) ->
  exists st' done, index_step src st = Ok (st', done)
    /\ Inv src st' /\ sv_pu st < sv_pu st'
    /\ zlen (sv_lines st') = zlen (sv_lines st) + 1
    /\ (done = true -> sv_pu st' = zlen src + 1)
    /\ (done = false -> sv_pu st' <= zlen src).
Proof.
  intros Hpu Hsplit. unfold index_step.
  destruct (Z.ltb_spec (zlen src) (sv_pu st)) as [Hlt|_]; [lia|].
  set (rest := zskipn (sv_pu st) src) in *.
  assert (Hrl : zlen rest = zlen src - sv_pu st) by (apply zlen_zskipn; lia).
  rewrite position_nl_first. pose proof (split_lines_step rest) as Hstep.
  destruct (first_nl rest) as [k|] eqn:Ek.
  - pose proof (first_nl_bound rest k Ek) as Hk. rewrite Z.add_0_l.
    rewrite (idx_adjust rest k Ek).
    pose proof (term_width_range rest k) as Htw.
    assert (Hfit : (k + term_width rest k <= length rest)%nat).
    { unfold term_width. destruct (first_nl_term rest k Ek) as (b & r & Hsk & _).
      assert (length rest = (k + S (length r))%nat).
      { rewrite <- (firstn_skipn k rest) at 1. rewrite app_length, firstn_length_le, Hsk by lia. reflexivity. }
      rewrite Hsk. destruct r as [|c r']; [lia|]. cbn [length] in *. destruct ((b =? 13) && (c =? 10)); lia. }
    unfold zlen in Hrl |- *.
    eexists; exists false. split; [reflexivity|]. cbn [sv_pu sv_lines].
    split; [|split; [lia|split; [rewrite app_length; cbn; lia|split; [discriminate|intros _; lia]]]].
    left. cbn [sv_pu sv_lines]. split; [unfold zlen; lia|].
    rewrite Hsplit, Hstep, <- app_assoc. cbn [app]. f_equal. f_equal.
    + unfold zfirstn. rewrite Nat2Z.id. reflexivity.
    + f_equal. subst rest. unfold zskipn. rewrite skipn_skipn. f_equal. lia.
  - eexists; exists true. split; [reflexivity|]. cbn [sv_pu sv_lines].
    split; [|split; [unfold zlen in *; lia|split; [unfold zlen; rewrite app_length; cbn; lia|split; [intros _; lia|discriminate]]]].
    right. cbn [sv_pu sv_lines]. split; [lia|]. rewrite Hsplit, Hstep. reflexivity.
Qed.

Definition L := split_lines.

Lemma Inv_lines_prefix src st : Inv src st -> exists r, L src = sv_lines st ++ r.
Proof. intros [[_ H]|[_ H]]; unfold L; rewrite H; [eauto | exists []; rewrite app_nil_r; reflexivity]. Qed.

Lemma index_loop_correct src idx : 0 <= idx -> forall fuel st,
  0 <= sv_pu st <= zlen src -> split_lines src = sv_lines st ++ split_lines (zskipn (sv_pu st) src) ->
  znth_opt (sv_lines st) idx = None ->
  zlen src + 1 - sv_pu st < Z.of_nat fuel ->
  exists st', index_loop fuel src idx st = Ok (st', znth_opt (L src) idx) /\ Inv src st'
              /\ (znth_opt (L src) idx = None -> sv_lines st' = L src).
Proof.
  intros Hidx. induction fuel as [|f IH]; intros st Hpu Hsplit Hmiss Hfuel; [lia|].
  cbn [index_loop]. destruct (index_step_inv src st Hpu Hsplit) as (st' & done & Hstep & Hinv & Hgrow & Hlen & Hd1 & Hd0).
  rewrite Hstep. cbn [bind].
  destruct (Inv_lines_prefix src st' Hinv) as [r Hr].
  destruct (znth_opt (sv_lines st') idx) as [line|] eqn:Eline.
  - exists st'. assert (Hans : znth_opt (L src) idx = Some line) by (rewrite Hr; apply znth_opt_app_l; exact Eline).
    rewrite Hans. split; [reflexivity|]. split; [exact Hinv|]. discriminate.
  - destruct done.
    + destruct Hinv as [[Hc _]|[Hc1 Hc2]]; [specialize (Hd1 eq_refl); lia|].
      exists st'. unfold L. rewrite Hc2, Eline. split; [reflexivity|]. split; [right; auto|]. reflexivity.
    + specialize (Hd0 eq_refl).
      destruct Hinv as [[Hc1 Hc2]|[Hc _]]; [|lia].
      apply IH; try assumption. lia.
Qed.

Theorem get_line_correct src idx st : 0 <= idx -> Inv src st ->
  exists st', get_line src idx st = Ok (st', znth_opt (L src) idx) /\ Inv src st'
              /\ (znth_opt (L src) idx = None -> sv_lines st' = L src).
Proof.
  intros Hidx Hinv. unfold get_line.
  destruct (Inv_lines_prefix src st Hinv) as [r Hr].
  destruct (znth_opt (sv_lines st) idx) as [line|] eqn:Eline.
  - exists st. assert (Hans : znth_opt (L src) idx = Some line) by (rewrite Hr; apply znth_opt_app_l; exact Eline).
    rewrite Hans. split; [reflexivity|]. split; [exact Hinv|]. discriminate.
  - destruct Hinv as [[Hc1 Hc2]|[Hc1 Hc2]].
    + destruct (Z.ltb_spec (zlen src) (sv_pu st)); [lia|].
      apply index_loop_correct; try assumption.
      unfold zlen. rewrite !Nat2Z.inj_succ. unfold zlen in Hc1. lia.
    + destruct (Z.ltb_spec (zlen src) (sv_pu st)); [|lia].
      exists st. unfold L. rewrite Hc2, Eline. split; [reflexivity|]. split; [right; auto|]. reflexivity.
Qed.

(* a text has fewer than 2^32 - 1 lines whenever it is shorter than 2^32 - 2 bytes; stated as a hypothesis *)
Lemma line_count_correct src st : zlen (L src) <= u32_max -> Inv src st ->
  exists st', line_count src st = Ok (st', zlen (L src)) /\ Inv src st'.
Proof.
  intros Hsmall Hinv. unfold line_count.
  destruct (get_line_correct src u32_max st ltac:(unfold u32_max; lia) Hinv) as (st' & Hg & Hinv' & Hnone).
  rewrite Hg. cbn [bind fst]. exists st'. split; [|exact Hinv'].
  rewrite Hnone; [reflexivity|]. apply znth_opt_ge. exact Hsmall.
Qed.

(* every history of requests on one view: each answer is the spec's, whatever came before *)
Inductive request := RLine (i : Z) | RCount.
Definition run_request (src : bytes) (r : request) (st : sv) : outcome (sv * (option bytes * Z)) :=
  match r with
  | RLine i => do x <- get_line src i st; Ok (fst x, (snd x, 0))
  | RCount => do x <- line_count src st; Ok (fst x, (None, snd x))
  end.
Definition spec_answer (src : bytes) (r : request) : option bytes * Z :=
  match r with RLine i => (znth_opt (L src) i, 0) | RCount => (None, zlen (L src)) end.
Fixpoint run_history (src : bytes) (rs : list request) (st : sv) : outcome (list (option bytes * Z)) :=
  match rs with
  | [] => Ok []
  | r :: rs' => do x <- run_request src r st; do more <- run_history src rs' (fst x); Ok (snd x :: more)
  end.
Theorem C15_histories src rs : zlen (L src) <= u32_max -> Forall (fun r => match r with RLine i => 0 <= i | RCount => True end) rs ->
  run_history src rs sv_new = Ok (map (spec_answer src) rs).
Proof.
  intros Hsmall Hrs. generalize (Inv_new src). generalize sv_new as st.
  induction Hrs as [|r rs Hr Hrs IH]; intros st Hinv; [reflexivity|].
  cbn [run_history map]. destruct r as [i|]; cbn [run_request spec_answer].
  - destruct (get_line_correct src i st Hr Hinv) as (st' & Hg & Hinv' & _). rewrite Hg. cbn [bind fst snd].
    rewrite (IH st' Hinv'). reflexivity.
  - destruct (line_count_correct src st Hsmall Hinv) as (st' & Hg & Hinv'). rewrite Hg. cbn [bind fst snd].
    rewrite (IH st' Hinv'). reflexivity.
Qed.
Print Assumptions C15_histories.
