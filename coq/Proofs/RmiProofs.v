(* rangeMappings bit codec: decode_rmi (encode_rmi bits) reads back the same flags. *)
From SM Require Import Model.Base Model.Gen_B64 Model.Vlq Model.Mappings Proofs.VlqProofs.

Lemma rmi_char_roundtrip v : 0 <= v < 64 -> rmi_char_value (nth (Z.to_nat v) B64_CHARS 0) = Some v.
Proof.
  intros H.
  assert (G : (match rmi_char_value (nth (Z.to_nat v) B64_CHARS 0) with Some w => w =? v | None => false end) = true).
  { apply (sweep 64 (fun v => match rmi_char_value (nth (Z.to_nat v) B64_CHARS 0) with Some w => w =? v | None => false end));
      [vm_compute; reflexivity | exact H]. }
  destruct (rmi_char_value (nth (Z.to_nat v) B64_CHARS 0)); [f_equal; lia|discriminate].
Qed.

(* all boolean lists of length <= n *)
Fixpoint bool_lists (n : nat) : list (list bool) :=
  match n with
  | O => [[]]
  | S k => [] :: flat_map (fun l => [true :: l; false :: l]) (bool_lists k)
  end.
Lemma in_bool_lists n l : (length l <= n)%nat -> In l (bool_lists n).
Proof.
  revert l. induction n as [|n IH]; intros l H.
  - destruct l; [left; reflexivity|cbn in H; lia].
  - destruct l as [|b l]; [left; reflexivity|]. right. apply in_flat_map. exists l. split; [apply IH; cbn in H; lia|].
    destruct b; [left|right; left]; reflexivity.
Qed.
Fixpoint bools_eqb (a b : list bool) : bool :=
  match a, b with [], [] => true | x :: a', y :: b' => Bool.eqb x y && bools_eqb a' b' | _, _ => false end.
Lemma bools_eqb_eq a b : bools_eqb a b = true -> a = b.
Proof. revert b. induction a as [|x a IH]; intros [|y b] H; cbn in H; try discriminate; [reflexivity|].
  apply andb_true_iff in H. destruct H as [H1 H2]. apply eqb_prop in H1. subst. f_equal. apply IH. exact H2. Qed.

Lemma bits6_value c : (length c <= 6)%nat ->
  bits6 (bits_value c) = c ++ repeat false (6 - length c) /\ 0 <= bits_value c < 64.
Proof.
  intros H.
  assert (G : forallb (fun c => bools_eqb (bits6 (bits_value c)) (c ++ repeat false (6 - length c))
                                && (0 <=? bits_value c) && (bits_value c <? 64)) (bool_lists 6) = true) by (vm_compute; reflexivity).
  rewrite forallb_forall in G. specialize (G c (in_bool_lists 6 c H)).
  apply andb_true_iff in G. destruct G as [G G3]. apply andb_true_iff in G. destruct G as [G1 G2].
  split; [apply bools_eqb_eq; exact G1|lia].
Qed.

(* decoding the characters produced for a list of chunks *)
Definition rmi_chars (cs : list (list bool)) : bytes := map (fun c => nth (Z.to_nat (bits_value c)) B64_CHARS 0) cs.
Definition padded (c : list bool) : list bool := c ++ repeat false (6 - length c).
Lemma decode_rmi_chars cs : Forall (fun c => (length c <= 6)%nat) cs ->
  decode_rmi (rmi_chars cs) = Ok (concat (map padded cs)).
Proof.
  induction 1 as [|c cs Hc Hcs IH]; [reflexivity|].
  cbn [rmi_chars map decode_rmi concat]. destruct (bits6_value c Hc) as [Hb Hr].
  rewrite rmi_char_roundtrip by exact Hr. fold (rmi_chars cs). rewrite IH. cbn [bind]. rewrite Hb. reflexivity.
Qed.

Lemma padded_length c : (length c <= 6)%nat -> length (padded c) = 6%nat.
Proof. intros. unfold padded. rewrite app_length, repeat_length. lia. Qed.
Lemma nth_padded c i : nth i (padded c) false = nth i c false.
Proof.
  unfold padded. destruct (Nat.lt_ge_cases i (length c)) as [H|H].
  - apply app_nth1. exact H.
  - rewrite app_nth2 by exact H. rewrite nth_repeat. symmetry. apply nth_overflow. exact H.
Qed.

(* chunks6 with enough fuel: full chunks then one short one *)
Lemma chunks6_spec : forall fuel bits, (length bits < fuel)%nat ->
  Forall (fun c => (length c <= 6)%nat) (chunks6 fuel bits)
  /\ forall i, nth i (concat (map padded (chunks6 fuel bits))) false = nth i bits false.
Proof.
  induction fuel as [|f IH]; intros bits Hf; [lia|].
  destruct bits as [|b bits']; [cbn; split; [constructor|intros i; destruct i; reflexivity]|].
  cbn [chunks6]. set (bs := b :: bits') in *.
  assert (Hbs : (1 <= length bs)%nat) by (subst bs; cbn; lia).
  assert (Hlen : (length (skipn 6 bs) < f)%nat) by (rewrite skipn_length; lia).
  destruct (IH (skipn 6 bs) Hlen) as [H1 H2].
  assert (Hc : (length (firstn 6 bs) <= 6)%nat) by apply firstn_le_length.
  split; [constructor; [exact Hc|exact H1]|].
  intros i. cbn [map concat].
  destruct (Nat.lt_ge_cases i 6) as [Hi|Hi].
  - rewrite app_nth1 by (rewrite padded_length by exact Hc; exact Hi).
    rewrite nth_padded. rewrite <- (firstn_skipn 6 bs) at 2.
    destruct (Nat.lt_ge_cases i (length (firstn 6 bs))) as [Hi2|Hi2].
    + rewrite app_nth1 by exact Hi2. reflexivity.
    + rewrite (nth_overflow (firstn 6 bs)) by exact Hi2.
      rewrite app_nth2 by exact Hi2. rewrite firstn_length in Hi2.
      symmetry. apply nth_overflow. rewrite skipn_length. lia.
  - rewrite app_nth2 by (rewrite padded_length by exact Hc; exact Hi).
    rewrite padded_length by exact Hc. rewrite H2.
    destruct (Nat.le_gt_cases 6 (length bs)) as [Hl|Hl].
    + rewrite <- (firstn_skipn 6 bs) at 2. rewrite app_nth2; rewrite firstn_length; [|lia].
      f_equal. lia.
    + rewrite skipn_all2 by lia. rewrite (nth_overflow bs) by lia. destruct (i - 6)%nat; reflexivity.
Qed.

(* the writer trims after the last set bit *)
Lemma last_true_bound bits : forall i acc k,
  nth k bits false = true -> (i + k <= last_true bits i acc)%nat.
Proof.
  induction bits as [|b bits IH]; intros i acc k Hk; [destruct k; discriminate|].
  cbn [last_true]. destruct k as [|k]; cbn [nth] in Hk.
  - subst b. clear IH. revert i acc. 
    assert (G : forall bits j acc', (acc' <= last_true bits j acc')%nat \/ True) by (intros; right; exact I).
    assert (Hmono : forall bits j acc', (acc' <= j)%nat -> (acc' <= last_true bits j acc')%nat).
    { induction bits0 as [|c bs IHb]; intros j acc' Hj; cbn [last_true]; [lia|].
      destruct c; [eapply Nat.le_trans; [|apply IHb]; lia|apply IHb; lia]. }
    intros i acc. rewrite Nat.add_0_r. apply Hmono. lia.
  - replace (i + S k)%nat with (S i + k)%nat by lia. apply IH. exact Hk.
Qed.

Lemma nth_firstn_if {A} (l : list A) n i d : nth i (firstn n l) d = if Nat.ltb i n then nth i l d else d.
Proof.
  revert n i. induction l as [|x l IH]; intros n i.
  - rewrite firstn_nil. destruct i, (Nat.ltb _ n); reflexivity.
  - destruct n as [|n]; [destruct i; reflexivity|]. destruct i as [|i]; [reflexivity|].
    cbn [firstn nth]. rewrite IH. reflexivity.
Qed.
Lemma nth_app_default (l : list bool) i : nth i (l ++ [false]) false = nth i l false.
Proof.
  destruct (Nat.lt_ge_cases i (length l)) as [H|H]; [apply app_nth1; exact H|].
  rewrite app_nth2 by exact H. rewrite (nth_overflow l) by exact H. destruct (i - length l)%nat as [|[|k]]; reflexivity.
Qed.

Theorem C07_bits bits :
  exists bits', decode_rmi (encode_rmi bits) = Ok bits' /\ forall i, nth i bits' false = nth i bits false.
Proof.
  unfold encode_rmi. set (l := last_true bits 0 0). set (b' := firstn (S l) (bits ++ [false])).
  destruct (chunks6_spec (S (length b')) b' ltac:(lia)) as [H1 H2].
  fold (rmi_chars (chunks6 (S (length b')) b')). rewrite decode_rmi_chars by exact H1.
  eexists. split; [reflexivity|]. intros i. rewrite H2. unfold b'.
  rewrite nth_firstn_if, nth_app_default.
  destruct (Nat.ltb_spec i (S l)) as [Hi|Hi]; [reflexivity|].
  destruct (nth i bits false) eqn:E; [|reflexivity].
  pose proof (last_true_bound bits 0 0 i E). fold l in H. lia.
Qed.
Print Assumptions C07_bits.

(* ---------- the writer of rangeMappings, line by line ---------- *)
From SM Require Import Proofs.StringLemmas Proofs.CodecEvents.

Record rl := mkRl { rl_had : bool; rl_segs : nat; rl_bits : list bool }.
Definition rl_fresh : rl := mkRl false 0 [].
Definition cur_str (st : rl) : bytes := if rl_had st then encode_rmi (rl_bits st) else [].
Definition rl_upd (st : rl) (t : rtoken) (dup : bool) : rl :=
  if dup then st
  else if t_range t then mkRl true (S (rl_segs st)) (set_bit (rl_bits st) (rl_segs st))
  else mkRl (rl_had st) (S (rl_segs st)) (rl_bits st).
Definition is_dup (nn : Z) (prev : option rtoken) (t : rtoken) : bool :=
  match prev with Some p => is_same_segment nn p t | None => false end.

Fixpoint rmi_lines (nn : Z) (prev : option rtoken) (ts : list rtoken) (line : Z) (st : rl) : list bytes :=
  match ts with
  | [] => [cur_str st]
  | t :: ts' =>
    match Z.to_nat (t_dl t - line) with
    | O => rmi_lines nn (Some t) ts' line (rl_upd st t (is_dup nn prev t))
    | S k => cur_str st :: repeat [] k ++ rmi_lines nn (Some t) ts' (t_dl t) (rl_upd rl_fresh t false)
    end
  end.
Lemma rmi_lines_nonnil nn prev ts line st : rmi_lines nn prev ts line st <> [].
Proof. revert prev line st. induction ts as [|t ts IH]; intros; cbn [rmi_lines]; [discriminate|].
  destruct (Z.to_nat (t_dl t - line)); [apply IH|discriminate]. Qed.

Definition final_string (f : rstate) : bytes := if r_had f then r_buf f ++ encode_rmi (r_bits f) else r_buf f.
Definition rl_of (s : rstate) : rl := mkRl (r_had s) (r_segs s) (r_bits s).

Lemma flat_map_repeat_nil k : flat_map (cons 59) (repeat (@nil Z) k) = repeat 59 k.
Proof. induction k as [|k IH]; [reflexivity|]. cbn [repeat flat_map app]. rewrite IH. reflexivity. Qed.
Lemma repeat_shift n (l : bytes) : repeat 59 n ++ 59 :: l = 59 :: repeat 59 n ++ l.
Proof. induction n as [|n IH]; [reflexivity|]. cbn [repeat app]. rewrite IH. reflexivity. Qed.
Lemma join_skip_lines cur k rest : rest <> [] ->
  join 59 (cur :: repeat [] k ++ rest) = cur ++ repeat 59 (S k) ++ join 59 rest.
Proof.
  intros Hne. cbn [join]. f_equal. rewrite flat_map_app, flat_map_repeat_nil.
  destruct rest as [|x r]; [contradiction|]. cbn [flat_map join app repeat].
  rewrite repeat_shift. reflexivity.
Qed.

Lemma rmi_tokens_lines nn : forall ts prev s, lines_ok (r_line s) ts ->
  final_string (rmi_tokens nn prev ts s) = r_buf s ++ join 59 (rmi_lines nn prev ts (r_line s) (rl_of s)).
Proof.
  induction ts as [|t ts IH]; intros prev s Hl.
  - cbn [rmi_tokens rmi_lines]. unfold final_string, cur_str, rl_of, join. cbn [rl_had rl_bits flat_map].
    rewrite app_nil_r. destruct (r_had s); rewrite ?app_nil_r; reflexivity.
  - destruct Hl as [Hle Hl]. cbn [rmi_tokens rmi_lines]. unfold rmi_token.
    destruct (Z.to_nat (t_dl t - r_line s)) as [|k] eqn:Ek.
    + assert (Hline : t_dl t = r_line s) by lia.
      cbn [negb andb]. unfold is_dup, rl_upd.
      destruct (match prev with Some p => is_same_segment nn p t | None => false end) eqn:Ed.
      * apply IH. rewrite <- Hline. exact Hl.
      * destruct (t_range t) eqn:Er.
        -- rewrite IH by (cbn; rewrite <- Hline; exact Hl). reflexivity.
        -- rewrite IH by (cbn; rewrite <- Hline; exact Hl). reflexivity.
    + cbn [negb andb]. unfold rl_upd, rl_fresh. cbn [rl_had rl_segs rl_bits].
      rewrite join_skip_lines by apply rmi_lines_nonnil.
      assert (Hbuf : (if r_had s then r_buf s ++ encode_rmi (r_bits s) else r_buf s) ++ repeat 59 (S k)
                     = r_buf s ++ cur_str (rl_of s) ++ repeat 59 (S k)).
      { unfold cur_str, rl_of. cbn [rl_had rl_bits]. destruct (r_had s); rewrite <- ?app_assoc; reflexivity. }
      destruct (t_range t) eqn:Er.
      * rewrite IH by (cbn; exact Hl). cbn [r_line r_had r_segs r_bits r_buf rl_of].
        rewrite Hbuf, <- !app_assoc. reflexivity.
      * rewrite IH by (cbn; exact Hl). cbn [r_line r_had r_segs r_bits r_buf rl_of].
        rewrite Hbuf, <- !app_assoc. reflexivity.
Qed.

(* ---------- final per-line states and the flags they assign ---------- *)
From SM Require Import Proofs.CodecCore.

Fixpoint st_lines (nn : Z) (prev : option rtoken) (ts : list rtoken) (line : Z) (st : rl) : list rl :=
  match ts with
  | [] => [st]
  | t :: ts' =>
    match Z.to_nat (t_dl t - line) with
    | O => st_lines nn (Some t) ts' line (rl_upd st t (is_dup nn prev t))
    | S k => st :: repeat rl_fresh k ++ st_lines nn (Some t) ts' (t_dl t) (rl_upd rl_fresh t false)
    end
  end.
Lemma rmi_lines_st nn : forall ts prev line st, rmi_lines nn prev ts line st = map cur_str (st_lines nn prev ts line st).
Proof.
  induction ts as [|t ts IH]; intros prev line st; cbn [rmi_lines st_lines]; [reflexivity|].
  destruct (Z.to_nat (t_dl t - line)) as [|k]; [apply IH|].
  cbn [map]. rewrite map_app, IH. f_equal. f_equal. clear. induction k as [|k IHk]; [reflexivity|]. cbn [repeat map]. rewrite <- IHk. reflexivity.
Qed.

Definition rl_ok (st : rl) : Prop := (length (rl_bits st) <= rl_segs st)%nat /\ (rl_had st = false -> rl_bits st = []).
Lemma set_bit_length bits n : (length (set_bit bits n) = Nat.max (length bits) (S n))%nat.
Proof. revert bits. induction n as [|n IH]; intros [|b bits]; cbn [set_bit length]; try lia; rewrite IH; cbn [length]; lia. Qed.
Lemma nth_set_bit bits n i : nth i (set_bit bits n) false = if Nat.eqb i n then true else nth i bits false.
Proof.
  revert bits i. induction n as [|n IH]; intros [|b bits] [|i]; cbn [set_bit nth Nat.eqb]; try reflexivity.
  - destruct i; reflexivity.
  - rewrite IH. destruct (Nat.eqb i n); [reflexivity|]. destruct i; reflexivity.
  - apply IH.
Qed.
Lemma rl_upd_ok st t dup : rl_ok st -> rl_ok (rl_upd st t dup).
Proof.
  intros [H1 H2]. unfold rl_upd. destruct dup; [split; assumption|].
  destruct (t_range t); split; cbn [rl_bits rl_segs rl_had]; try discriminate; try lia; auto.
  rewrite set_bit_length. lia.
Qed.
Lemma rl_fresh_ok : rl_ok rl_fresh. Proof. split; [cbn; lia|reflexivity]. Qed.

(* the final state of the current line keeps the bits already below rl_segs *)
Lemma st_lines_head nn : forall ts prev line st, rl_ok st -> lines_ok line ts ->
  exists h rest, st_lines nn prev ts line st = h :: rest /\ rl_ok h /\ Forall rl_ok rest
    /\ (rl_segs st <= rl_segs h)%nat
    /\ forall i, (i < rl_segs st)%nat -> nth i (rl_bits h) false = nth i (rl_bits st) false.
Proof.
  induction ts as [|t ts IH]; intros prev line st Hok Hl; cbn [st_lines].
  - exists st, []. split; [reflexivity|]. split; [exact Hok|]. split; [constructor|]. split; [lia|]. auto.
  - destruct Hl as [Hle Hl]. destruct (Z.to_nat (t_dl t - line)) as [|k] eqn:Ek.
    + assert (t_dl t = line) by lia. subst line.
      destruct (IH (Some t) (t_dl t) (rl_upd st t (is_dup nn prev t)) (rl_upd_ok _ _ _ Hok) Hl) as (h & rest & H1 & H2 & H3 & H4 & H5).
      exists h, rest. split; [exact H1|]. split; [exact H2|]. split; [exact H3|]. split.
      * unfold rl_upd in H4. destruct (is_dup nn prev t); [exact H4|]. destruct (t_range t); cbn [rl_segs] in H4; lia.
      * intros i Hi. unfold rl_upd in H4, H5. destruct (is_dup nn prev t); [apply H5; exact Hi|].
        destruct (t_range t); cbn [rl_segs rl_bits] in H4, H5.
        -- rewrite H5 by lia. rewrite nth_set_bit. destruct (Nat.eqb_spec i (rl_segs st)); [lia|reflexivity].
        -- apply H5. lia.
    + destruct (IH (Some t) (t_dl t) (rl_upd rl_fresh t false) (rl_upd_ok _ _ _ rl_fresh_ok) Hl) as (h & rest & H1 & H2 & H3 & H4 & H5).
      exists st, (repeat rl_fresh k ++ h :: rest). rewrite H1. split; [reflexivity|]. split; [exact Hok|]. split; [|split; [lia|auto]].
      apply Forall_app. split; [apply Forall_forall; intros x Hx; apply repeat_spec in Hx; subst; apply rl_fresh_ok|].
      constructor; assumption.
Qed.

Definition Fof (base : Z) (sl : list rl) (L : Z) (i : nat) : bool :=
  nth i (rl_bits (nth (Z.to_nat (L - base)) sl rl_fresh)) false.

Lemma flags_ok_ext nn F F' : forall ts prev est idx,
  lines_ok (e_line est) ts ->
  (forall L i, e_line est <= L -> F L i = F' L i) ->
  flags_ok nn F prev ts est idx -> flags_ok nn F' prev ts est idx.
Proof.
  induction ts as [|t ts IH]; intros prev est idx Hl Hext Hf; [exact I|].
  destruct Hl as [Hle Hl]. cbn [flags_ok] in *.
  destruct (skipped nn prev t est) eqn:Es.
  - apply IH; auto. assert (t_dl t = e_line est) by (unfold skipped in Es; lia). rewrite <- H. exact Hl.
  - destruct Hf as [Hf1 Hf2]. split; [rewrite <- Hext by lia; exact Hf1|].
    assert (El : e_line (next_estate nn t est) = t_dl t) by (unfold next_estate; destruct (has_source t); [destruct (has_name nn t)|]; reflexivity).
    apply IH; auto; rewrite El; auto. intros L i HL. apply Hext. lia.
Qed.

Theorem flags_from_lines nn : forall ts prev line st est,
  rl_ok st -> lines_ok line ts -> 0 <= line -> e_line est = line ->
  (forall p, prev = Some p -> t_dl p = line) ->
  flags_ok nn (Fof line (st_lines nn prev ts line st)) prev ts est (rl_segs st).
Proof.
  induction ts as [|t ts IH]; intros prev line st est Hok Hl H0 He Hp; [exact I|].
  destruct Hl as [Hle Hl]. cbn [flags_ok st_lines].
  assert (El : e_line (next_estate nn t est) = t_dl t) by (unfold next_estate; destruct (has_source t); [destruct (has_name nn t)|]; reflexivity).
  destruct (Z.to_nat (t_dl t - line)) as [|k] eqn:Ek.
  - assert (Hline : t_dl t = line) by lia.
    assert (Hsk : skipped nn prev t est = is_dup nn prev t).
    { unfold skipped, is_dup. rewrite He, Hline, Z.eqb_refl. reflexivity. }
    rewrite Hsk. destruct (is_dup nn prev t) eqn:Ed.
    + change (rl_upd st t true) with st. apply IH; auto; try (rewrite <- Hline; auto; fail).
      intros p Hpp. inversion Hpp; subst. congruence.
    + rewrite He, Hline, Z.eqb_refl.
      set (st2 := rl_upd st t false).
      assert (Hok2 : rl_ok st2) by (apply rl_upd_ok; exact Hok).
      assert (Hl' : lines_ok line ts) by (rewrite <- Hline; exact Hl).
      destruct (st_lines_head nn ts (Some t) line st2 Hok2 Hl') as (h & rest & H1 & H2 & H3 & H4 & H5).
      assert (Hseg2 : rl_segs st2 = S (rl_segs st)) by (unfold st2, rl_upd; destruct (t_range t); reflexivity).
      split.
      * unfold Fof. rewrite H1, Z.sub_diag. cbn [Z.to_nat nth].
        rewrite H5 by lia. unfold st2, rl_upd. destruct Hok as [Hlen _].
        destruct (t_range t); cbn [rl_bits].
        -- rewrite nth_set_bit, Nat.eqb_refl. reflexivity.
        -- apply nth_overflow. exact Hlen.
      * rewrite <- Hseg2.
        apply IH; auto; try (rewrite El; auto; fail).
        intros p Hpp. inversion Hpp; subst. congruence.
  - assert (Hne : t_dl t <> line) by lia.
    assert (Hsk : skipped nn prev t est = false) by (unfold skipped; rewrite He; destruct (Z.eqb_spec (t_dl t) line); [contradiction|reflexivity]).
    rewrite Hsk, He. destruct (Z.eqb_spec (t_dl t) line); [contradiction|].
    set (st2 := rl_upd rl_fresh t false).
    assert (Hok2 : rl_ok st2) by (apply rl_upd_ok, rl_fresh_ok).
    destruct (st_lines_head nn ts (Some t) (t_dl t) st2 Hok2 Hl) as (h & rest & H1 & H2 & H3 & H4 & H5).
    assert (Hseg2 : rl_segs st2 = 1%nat) by (unfold st2, rl_upd, rl_fresh; destruct (t_range t); reflexivity).
    assert (Hshift : forall L i, t_dl t <= L ->
              Fof (t_dl t) (st_lines nn (Some t) ts (t_dl t) st2) L i
              = Fof line (st :: repeat rl_fresh k ++ st_lines nn (Some t) ts (t_dl t) st2) L i).
    { intros L i HL. unfold Fof. f_equal. f_equal.
      replace (Z.to_nat (L - line)) with (S k + Z.to_nat (L - t_dl t))%nat by lia.
      cbn [nth Nat.add]. rewrite app_nth2; rewrite repeat_length; [|lia]. f_equal. lia. }
    split.
    + rewrite <- Hshift by lia. unfold Fof. rewrite H1, Z.sub_diag. cbn [Z.to_nat nth].
      rewrite H5 by lia. unfold st2, rl_upd, rl_fresh. destruct (t_range t); cbn [rl_bits]; reflexivity.
    + apply (flags_ok_ext nn (Fof (t_dl t) (st_lines nn (Some t) ts (t_dl t) st2))); [rewrite El; exact Hl|rewrite El; exact Hshift|].
      change 1%nat with (rl_segs st2) at 1 || rewrite <- Hseg2.
      apply IH; auto; try lia. intros p Hpp. inversion Hpp; subst. reflexivity.
Qed.
