(* C17: the cached reverse token walk reads the same text as a from-scratch read of every token,
   and the resolution is the first (identifier, "function") pair inside the window. *)
From SM Require Import Model.Base Model.Mappings Model.SourceView Model.NameRes Spec.NameRes Proofs.BaseLemmas.

Fixpoint sumlen (l : list Z) : Z := match l with [] => 0 | c :: r => len_utf16 c + sumlen r end.
Definition ustart (line : list Z) (k : nat) : Z := sumlen (firstn k line).

Lemma len_utf16_pos c : 1 <= len_utf16 c <= 2.
Proof. unfold len_utf16. destruct (c <? 65536); lia. Qed.
Lemma sumlen_nonneg l : 0 <= sumlen l.
Proof. induction l as [|c r IH]; cbn [sumlen]; [lia|]. pose proof (len_utf16_pos c). lia. Qed.
Lemma sumlen_app a b : sumlen (a ++ b) = sumlen a + sumlen b.
Proof. induction a as [|c r IH]; cbn [app sumlen]; [lia|]. rewrite IH. lia. Qed.
Lemma sumlen_rev a : sumlen (rev a) = sumlen a.
Proof. induction a as [|c r IH]; cbn [rev sumlen]; [reflexivity|]. rewrite sumlen_app, IH. cbn [sumlen]. lia. Qed.

(* forward walk: on a boundary it returns the boundary's index *)
Lemma fwd_boundary line : forall idx k, (k <= length line)%nat -> fwd line idx (idx + ustart line k) = k.
Proof.
  induction line as [|c r IH]; intros idx k Hk; cbn [length] in Hk.
  - assert (k = O) by lia. subst. reflexivity.
  - destruct k as [|k]; unfold ustart; cbn [firstn sumlen fwd].
    + destruct (Z.leb_spec (idx + 0) idx); [reflexivity|lia].
    + pose proof (len_utf16_pos c). pose proof (sumlen_nonneg (firstn k r)).
      destruct (Z.leb_spec (idx + (len_utf16 c + sumlen (firstn k r))) idx); [lia|].
      f_equal. replace (idx + (len_utf16 c + sumlen (firstn k r))) with ((idx + len_utf16 c) + ustart r k) by (unfold ustart; lia).
      apply IH. lia.
Qed.
Lemma fwd_le line : forall idx col K, (K <= length line)%nat -> col <= idx + ustart line K -> (fwd line idx col <= K)%nat.
Proof.
  induction line as [|c r IH]; intros idx col K HK Hc; cbn [fwd]; [lia|].
  destruct (Z.leb_spec col idx); [lia|]. destruct K as [|K]; unfold ustart in Hc; cbn [firstn sumlen] in Hc; [lia|].
  cbn [length] in HK. apply le_n_S. apply IH; [lia|]. unfold ustart. lia.
Qed.
Lemma fwd_bound line : forall idx col, (fwd line idx col <= length line)%nat.
Proof. induction line as [|c r IH]; intros idx col; cbn [fwd length]; [lia|]. destruct (col <=? idx); [lia|]. apply le_n_S, IH. Qed.
(* a column that is in bounds and not inside a pair is a boundary *)
Lemma fwd_is_boundary line : forall idx col, idx <= col -> (fwd line idx col < length line)%nat ->
  inside_pair line idx col = false -> col = idx + ustart line (fwd line idx col).
Proof.
  induction line as [|c r IH]; intros idx col Hic Hk Hp; cbn [fwd length inside_pair] in *; [lia|].
  destruct (Z.leb_spec col idx).
  - unfold ustart; cbn. lia.
  - apply orb_false_iff in Hp. destruct Hp as [Hp1 Hp2].
    assert (Hge : idx + len_utf16 c <= col).
    { unfold len_utf16 in *. destruct (c <? 65536); cbn in Hp1; [lia|]. destruct (Z.eqb_spec col (idx + 1)); [discriminate|lia]. }
    specialize (IH (idx + len_utf16 c) col Hge ltac:(lia) Hp2).
    unfold ustart in *. cbn [firstn sumlen]. lia.
Qed.

(* backward walk over the reversed prefix *)
Lemma back_spec p : forall K idx j, (j <= length p)%nat -> (length p <= K)%nat ->
  back p K idx (idx + sumlen (firstn j p)) = (K - j)%nat.
Proof.
  induction p as [|c r IH]; intros K idx j Hj HK; cbn [length] in *.
  - assert (j = O) by lia. subst. cbn. lia.
  - destruct j as [|j]; cbn [firstn sumlen back].
    + destruct (Z.leb_spec (idx + 0) idx); lia.
    + pose proof (len_utf16_pos c). pose proof (sumlen_nonneg (firstn j r)).
      destruct (Z.leb_spec (idx + (len_utf16 c + sumlen (firstn j r))) idx); [lia|].
      replace (idx + (len_utf16 c + sumlen (firstn j r))) with ((idx + len_utf16 c) + sumlen (firstn j r)) by lia.
      rewrite IH by lia. lia.
Qed.
Lemma firstn_rev_firstn {A} (line : list A) K k : (k <= K)%nat -> (K <= length line)%nat ->
  firstn (K - k) (rev (firstn K line)) = rev (skipn k (firstn K line)).
Proof.
  intros Hk HK. rewrite <- (firstn_skipn k (firstn K line)) at 1. rewrite rev_app_distr.
  assert (Hl : length (rev (skipn k (firstn K line))) = (K - k)%nat) by (rewrite rev_length, skipn_length, firstn_length; lia).
  rewrite <- Hl at 1. rewrite firstn_app, Nat.sub_diag, firstn_all. cbn [firstn]. rewrite app_nil_r. reflexivity.
Qed.
Lemma back_boundary line K k : (k <= K)%nat -> (K <= length line)%nat ->
  back (rev (firstn K line)) K 0 (ustart line K - ustart line k) = k.
Proof.
  intros Hk HK.
  assert (Hsum : ustart line K - ustart line k = 0 + sumlen (firstn (K - k) (rev (firstn K line)))).
  { rewrite firstn_rev_firstn, sumlen_rev by assumption. unfold ustart.
    rewrite <- (firstn_skipn k (firstn K line)) at 1. rewrite sumlen_app, firstn_firstn, Nat.min_l by exact Hk. lia. }
  rewrite Hsum, back_spec; [lia| |]; rewrite rev_length, firstn_length; lia.
Qed.

Section R.
  Variables (is_start is_cont is_ws : Z -> bool).
  Variable get_line : Z -> option (list Z).
  Definition line_of (dl : Z) : list Z := match get_line dl with Some l => l | None => [] end.
  Definition tok_ok (t : rtoken) : Prop := 0 <= t_dc t /\ inside_pair (line_of (t_dl t)) 0 (t_dc t) = false.
  Definition cache_ok (c : cache) (t : rtoken) : Prop :=       (* t: the token about to be visited *)
    match c with
    | None => True
    | Some (line, dl, col, k) =>
      line = line_of dl /\ k = fwd line 0 col /\ (k < length line)%nat /\ inside_pair line 0 col = false /\ 0 <= col
      /\ (dl = t_dl t -> t_dc t <= col)
    end.
  Notation rev_next := (rev_next is_start is_cont is_ws get_line).
  Notation tok_text := (tok_text is_start is_cont is_ws get_line).

  Lemma rev_next_fresh t c : cache_ok c t -> tok_ok t ->
    exists c', rev_next t c = Ok (tok_text t, c')
      /\ forall t', (t_dl t' = t_dl t -> t_dc t' <= t_dc t) -> cache_ok c' t'.
  Proof.
    intros Hc [Hnn Hpair]. unfold rev_next. fold (line_of (t_dl t)).
    assert (Hr : (match c with
            | Some (line, dl, last_col, last_k) =>
              if dl =? t_dl t then
                if last_col <? t_dc t then Panic 80
                else Ok (line, back (rev (firstn last_k line)) last_k 0 (last_col - t_dc t))
              else Ok (line_of (t_dl t), fwd (line_of (t_dl t)) 0 (t_dc t))
            | None => Ok (line_of (t_dl t), fwd (line_of (t_dl t)) 0 (t_dc t))
            end) = Ok (line_of (t_dl t), fwd (line_of (t_dl t)) 0 (t_dc t))).
    { destruct c as [[[[line dl] col] k]|]; [|reflexivity].
      destruct Hc as (Hline & Hk & Hlt & Hp & Hcol & Hord).
      destruct (Z.eqb_spec dl (t_dl t)) as [Ed|Ed]; [|reflexivity].
      specialize (Hord Ed). destruct (Z.ltb_spec col (t_dc t)); [lia|]. subst dl line.
      f_equal. f_equal.
      set (L := line_of (t_dl t)) in *.
      assert (HcolB : col = ustart L k) by (rewrite Hk; apply (fwd_is_boundary L 0 col); [lia|rewrite <- Hk; exact Hlt|exact Hp]).
      set (k' := fwd L 0 (t_dc t)).
      assert (Hk'K : (k' <= k)%nat) by (apply fwd_le; [lia|lia]).
      assert (HdcB : t_dc t = ustart L k') by (apply (fwd_is_boundary L 0 (t_dc t)); [lia|fold k'; lia|exact Hpair]).
      rewrite HcolB, HdcB. apply back_boundary; lia. }
    rewrite Hr. cbn [bind]. unfold tok_text, text_at. fold (line_of (t_dl t)).
    destruct (Nat.leb_spec (length (line_of (t_dl t))) (fwd (line_of (t_dl t)) 0 (t_dc t))) as [Hle|Hlt].
    - exists None. split; [reflexivity|]. intros t' _. exact I.
    - eexists. split; [reflexivity|]. intros t' Hord. cbn [cache_ok]. repeat split; try assumption. intros E. apply Hord. symmetry. exact E.
  Qed.

  (* consecutive tokens of the reverse walk: positions do not increase *)
  Fixpoint chain (ts : list rtoken) : Prop :=
    match ts with
    | t :: ((t' :: _) as r) => (t_dl t' = t_dl t -> t_dc t' <= t_dc t) /\ chain r
    | _ => True
    end.

  Lemma rev_items_spec n : forall ts c,
    chain ts -> Forall tok_ok ts -> match ts with t :: _ => cache_ok c t | [] => True end ->
    rev_items is_start is_cont is_ws get_line ts n c = Ok (map (fun t => (t, tok_text t)) (firstn n ts)).
  Proof.
    induction n as [|n IH]; intros ts c Hch Hok Hc; [destruct ts; reflexivity|].
    destruct ts as [|t r]; [reflexivity|]. cbn [rev_items firstn map].
    inversion Hok as [|? ? Ht Hr]; subst.
    destruct (rev_next_fresh t c Hc Ht) as (c' & -> & Hnext). cbn [bind fst snd].
    rewrite (IH r c').
    - reflexivity.
    - destruct r as [|t' r']; [exact I|]. destruct Hch as [_ Hch]. exact Hch.
    - exact Hr.
    - destruct r as [|t' r']; [exact I|]. apply Hnext. destruct Hch as [Hord _]. exact Hord.
  Qed.

  Lemma scan_spec name : forall n ts,
    scan (map (fun t => (t, tok_text t)) (firstn n ts)) name = spec_scan is_start is_cont is_ws get_line ts n name.
  Proof.
    induction n as [|n IH]; intros ts; [destruct ts; reflexivity|].
    destruct n as [|n].
    - destruct ts as [|t [|p r']]; reflexivity.
    - destruct ts as [|t [|p r']]; [reflexivity|reflexivity|].
      specialize (IH (p :: r')).
      change (firstn (S (S n)) (t :: p :: r')) with (t :: firstn (S n) (p :: r')).
      change (firstn (S n) (p :: r')) with (p :: firstn n r') in *.
      cbn [map scan spec_scan] in *.
      destruct (opt_eq (tok_text t) name && opt_eq (tok_text p) fn_kw); [reflexivity|]. exact IH.
  Qed.

  Theorem C17_resolve window tokens i name :
    chain (rev (firstn (S i) tokens)) -> Forall tok_ok tokens ->
    get_original_function_name is_start is_cont is_ws window get_line tokens i name
    = Ok (spec_resolve is_start is_cont is_ws window get_line tokens i name).
  Proof.
    intros Hch Hok. unfold get_original_function_name, spec_resolve.
    destruct (negb (is_valid_javascript_identifier is_start is_cont name)); [reflexivity|].
    rewrite rev_items_spec.
    - cbn [bind]. rewrite scan_spec. reflexivity.
    - exact Hch.
    - apply Forall_rev. rewrite Forall_forall in *. intros x Hx. apply Hok.
      rewrite <- (firstn_skipn (S i) tokens). apply in_or_app. left. exact Hx.
    - destruct (rev (firstn (S i) tokens)); exact I.
  Qed.
End R.
Print Assumptions C17_resolve.

(* the chain condition follows from the map's token order *)
From Coq Require Import Sorted.
Lemma SS_app {A} (R : A -> A -> Prop) a b : StronglySorted R a -> StronglySorted R b ->
  (forall x y, In x a -> In y b -> R x y) -> StronglySorted R (a ++ b).
Proof.
  intros Ha Hb Hab. induction Ha as [|x a Ha IH Hall]; cbn [app]; [exact Hb|]. constructor.
  - apply IH. intros u v Hu Hv. apply Hab; [right; exact Hu|exact Hv].
  - apply Forall_app. split; [exact Hall|]. apply Forall_forall. intros y Hy. apply Hab; [left; reflexivity|exact Hy].
Qed.
Lemma SS_rev {A} (R : A -> A -> Prop) l : StronglySorted R l -> StronglySorted (fun a b => R b a) (rev l).
Proof.
  induction 1 as [|x l Hs IH Hall]; cbn [rev]; [constructor|]. apply SS_app; [exact IH|repeat constructor|].
  intros u v Hu Hv. destruct Hv as [<-|[]]. apply in_rev in Hu. rewrite Forall_forall in Hall. exact (Hall u Hu).
Qed.
Lemma SS_firstn {A} (R : A -> A -> Prop) l : StronglySorted R l -> forall n, StronglySorted R (firstn n l).
Proof.
  induction 1 as [|x l Hs IH Hall]; intros [|n]; cbn [firstn]; try constructor; [apply IH|].
  rewrite Forall_forall in *. intros y Hy. apply Hall. rewrite <- (firstn_skipn n l). apply in_or_app. left. exact Hy.
Qed.
Lemma chain_of_sorted l : StronglySorted (fun a b => kle tok_key b a) l -> chain l.
Proof.
  induction 1 as [|t r Hs IH Hall]; [exact I|]. destruct r as [|t' r']; [exact I|]. split; [|exact IH].
  inversion Hall as [|? ? Hle _]; subst. unfold kle, ple, tok_key in Hle. cbn [fst snd] in Hle. lia.
Qed.

Theorem C17_resolve_sorted is_start is_cont is_ws get_line window tokens i name :
  sorted tok_key tokens -> Forall (tok_ok get_line) tokens ->
  get_original_function_name is_start is_cont is_ws window get_line tokens i name
  = Ok (spec_resolve is_start is_cont is_ws window get_line tokens i name).
Proof.
  intros Hs Hok. apply C17_resolve; [|exact Hok].
  apply chain_of_sorted. apply SS_rev. apply SS_firstn. exact Hs.
Qed.
Print Assumptions C17_resolve_sorted.
