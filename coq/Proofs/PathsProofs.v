From SM Require Import Model.Base Model.Paths Spec.Paths.

Definition nosepb (s : bytes) : Prop := Forall (fun c => is_sep c = false) s.
(* an ordinary path component: non-empty, no separator, not "." and not ".." *)
Definition ordinary (c : bytes) : Prop :=
  c <> [] /\ nosepb c /\ bytes_eqb c [46] = false /\ bytes_eqb c [46; 46] = false.

Lemma split_seps_nosep s cur : nosepb s -> split_seps s cur = [rev cur ++ s].
Proof.
  revert cur. induction s as [|b s IH]; intros cur H; cbn [split_seps].
  - rewrite app_nil_r. reflexivity.
  - inversion H as [|? ? Hb Hs]; subst. rewrite Hb, IH by exact Hs. cbn [rev]. rewrite <- app_assoc. reflexivity.
Qed.
Lemma split_seps_app a sep b cur : nosepb a -> is_sep sep = true ->
  split_seps (a ++ sep :: b) cur = (rev cur ++ a) :: split_seps b [].
Proof.
  revert cur. induction a as [|x a IH]; intros cur Ha Hs; cbn [split_seps app].
  - rewrite Hs, app_nil_r. reflexivity.
  - inversion Ha as [|? ? Hx Ha']; subst. rewrite Hx, IH by assumption. cbn [rev]. rewrite <- app_assoc. reflexivity.
Qed.

Lemma components_join xs : Forall (fun c => c <> [] /\ nosepb c) xs -> components (join_with [47] xs) = xs.
Proof.
  unfold components. induction 1 as [|x xs [Hne Hx] Hxs IH]; [reflexivity|].
  destruct xs as [|y ys].
  - cbn [join_with]. rewrite split_seps_nosep by exact Hx. cbn [rev app filter].
    destruct x; [contradiction|reflexivity].
  - cbn [join_with]. cbn [app]. rewrite split_seps_app by (try exact Hx; reflexivity).
    cbn [rev app filter]. destruct x as [|c x']; [contradiction|]. cbn [is_nil negb]. f_equal. exact IH.
Qed.

Lemma dotdot_not_ordinary : bytes_eqb [46; 46] [46; 46] = true. Proof. reflexivity. Qed.

Lemma resolve_ordinary dir rest : Forall ordinary rest -> resolve dir rest = dir ++ rest.
Proof.
  revert dir. induction rest as [|c rest IH]; intros dir H; cbn [resolve]; [rewrite app_nil_r; reflexivity|].
  inversion H as [|? ? (Hne & Hns & Hd1 & Hd2) Hr]; subst. rewrite Hd2, Hd1, IH by exact Hr.
  rewrite <- app_assoc. reflexivity.
Qed.
Fixpoint removelast_n {A} (n : nat) (l : list A) : list A :=
  match n with O => l | S k => removelast_n k (removelast l) end.
Lemma resolve_dotdots k dir rest : resolve dir (repeat [46; 46] k ++ rest) = resolve (removelast_n k dir) rest.
Proof. revert dir. induction k as [|k IH]; intros dir; [reflexivity|]. cbn [repeat app resolve]. rewrite dotdot_not_ordinary. apply IH. Qed.
Lemma removelast_firstn {A} (l : list A) : removelast l = firstn (length l - 1) l.
Proof.
  induction l as [|x l IH]; [reflexivity|]. destruct l as [|y l']; [reflexivity|].
  cbn [removelast length] in *. rewrite IH. cbn [length]. replace (S (S (length l')) - 1)%nat with (S (S (length l') - 1)) by lia. reflexivity.
Qed.
Lemma removelast_n_firstn {A} k (l : list A) : (k <= length l)%nat -> removelast_n k l = firstn (length l - k) l.
Proof.
  revert l. induction k as [|k IH]; intros l Hk; cbn [removelast_n].
  - rewrite Nat.sub_0_r, firstn_all. reflexivity.
  - rewrite IH; rewrite removelast_firstn, ?firstn_length; try lia.
    rewrite firstn_firstn. f_equal. lia.
Qed.
Lemma common_prefix_spec a b : let n := common_prefix_len a b in
  (n <= length a)%nat /\ (n <= length b)%nat /\ firstn n a = firstn n b.
Proof.
  revert b. induction a as [|x a IH]; intros b; cbn [common_prefix_len]; [cbn; repeat split; lia|].
  destruct b as [|y b]; [cbn; repeat split; lia|].
  destruct (bytes_eqb x y) eqn:E; [|cbn; repeat split; lia].
  destruct (IH b) as (H1 & H2 & H3). cbn [length firstn]. repeat split; try lia.
  f_equal; [|exact H3].
  clear -E. revert y E. induction x as [|c x IHx]; intros [|d y] E; cbn in E; try discriminate; [reflexivity|].
  apply andb_true_iff in E. destruct E as [E1 E2]. f_equal; [lia|apply IHx; exact E2].
Qed.

Theorem C19_resolves base target :
  Forall ordinary (components target) -> Forall ordinary (components base) ->
  resolve_str (pop_last (components base)) (make_relative_path base target) = components target.
Proof.
  intros Ht Hb. unfold make_relative_path, resolve_str.
  set (tp := components target) in *. set (bp := pop_last (components base)).
  destruct (common_prefix_spec tp bp) as (Hn1 & Hn2 & Hpre). set (n := common_prefix_len tp bp) in *.
  set (rel := repeat [46; 46] (length bp - n) ++ skipn n tp).
  assert (Hrel : resolve bp rel = tp).
  { unfold rel. rewrite resolve_dotdots, removelast_n_firstn by lia.
    replace (length bp - (length bp - n))%nat with n by lia.
    rewrite resolve_ordinary.
    - rewrite <- Hpre. apply firstn_skipn.
    - rewrite <- (firstn_skipn n tp) in Ht. apply Forall_app in Ht. apply Ht. }
  destruct (is_nil rel) eqn:Enil.
  - destruct rel; [|discriminate]. cbn in Hrel. unfold components. cbn. exact Hrel.
  - rewrite components_join; [exact Hrel|].
    unfold rel. apply Forall_app. split.
    + apply Forall_forall. intros c Hc. apply repeat_spec in Hc. subst. split; [discriminate|repeat constructor].
    + rewrite <- (firstn_skipn n tp) in Ht. apply Forall_app in Ht. destruct Ht as [_ Ht].
      eapply Forall_impl; [|exact Ht]. intros c (H1 & H2 & _). split; assumption.
Qed.
Print Assumptions C19_resolves.

(* "." is answered exactly when the target's components are the base's directory *)
Lemma join_not_dot rel : rel <> [] -> Forall (fun c => c <> [] /\ nosepb c /\ bytes_eqb c [46] = false) rel -> join_with [47] rel <> [46].
Proof.
  intros Hne Hall Heq. destruct rel as [|x [|y r]]; [contradiction| |].
  - cbn in Heq. subst x. inversion Hall as [|? ? (_ & _ & H) _]. cbn in H. discriminate.
  - cbn [join_with] in Heq. inversion Hall as [|? ? (Hx & _) _]; subst.
    destruct x as [|c x]; [contradiction|]. cbn [app] in Heq. inversion Heq as [[Hc Hrest]].
    destruct x; cbn in Hrest; discriminate.
Qed.
Theorem C19_dot base target :
  Forall ordinary (components target) -> Forall ordinary (components base) ->
  (make_relative_path base target = [46] <-> components target = pop_last (components base)).
Proof.
  intros Ht Hb. pose proof (C19_resolves base target Ht Hb) as Hres. split.
  - intros Heq. rewrite Heq in Hres. unfold resolve_str in Hres. change (components [46]) with [[46]] in Hres.
    cbn [resolve] in Hres. (* "." leaves the directory unchanged *)
    revert Hres. cbn. intros Hres. symmetry. exact Hres.
  - intros Heq. unfold make_relative_path. rewrite Heq.
    set (bp := pop_last (components base)).
    assert (Hn : common_prefix_len bp bp = length bp).
    { clear. induction bp as [|x l IH]; [reflexivity|]. cbn [common_prefix_len length].
      assert (bytes_eqb x x = true) as -> by (clear; induction x as [|c x IHx]; cbn; [reflexivity|rewrite Z.eqb_refl, IHx; reflexivity]).
      rewrite IH. reflexivity. }
    rewrite Hn, Nat.sub_diag, skipn_all. reflexivity.
Qed.
Print Assumptions C19_dot.

(* the answer is the shortest one: it climbs exactly out of the part of the base directory that the target does not share, and the
   shared prefix is maximal -- the first component after the climbs is not one the base directory has at that depth *)
Lemma common_prefix_maximal a b : let n := common_prefix_len a b in
  n = length a \/ n = length b \/ nth_error a n <> nth_error b n.
Proof.
  revert b. induction a as [|x a IH]; intros b; cbn [common_prefix_len]; [left; reflexivity|].
  destruct b as [|y b]; [right; left; reflexivity|].
  destruct (bytes_eqb x y) eqn:E.
  - destruct (IH b) as [H|[H|H]]; cbn [length nth_error]; [left; lia|right; left; lia|right; right; exact H].
  - right. right. cbn [nth_error]. intros Heq. inversion Heq as [Hxy]. subst y.
    assert (bytes_eqb x x = true) as Hr by (clear; induction x as [|c x IHx]; cbn; [reflexivity|rewrite Z.eqb_refl, IHx; reflexivity]).
    rewrite Hr in E. discriminate.
Qed.
Theorem C19_shortest base target :
  Forall ordinary (components target) -> Forall ordinary (components base) ->
  let tp := components target in let bp := pop_last (components base) in
  make_relative_path base target <> [46] ->
  exists n, (n <= length tp)%nat /\ (n <= length bp)%nat /\ firstn n tp = firstn n bp
    /\ (n = length tp \/ n = length bp \/ nth_error tp n <> nth_error bp n)
    /\ components (make_relative_path base target) = repeat [46; 46] (length bp - n) ++ skipn n tp.
Proof.
  intros Ht Hb tp bp Hnd. exists (common_prefix_len tp bp).
  destruct (common_prefix_spec tp bp) as (Hn1 & Hn2 & Hpre).
  repeat split; try assumption; [apply common_prefix_maximal|].
  unfold make_relative_path in *. fold tp bp in Hnd |- *.
  set (n := common_prefix_len tp bp) in *.
  destruct (is_nil (repeat [46; 46] (length bp - n) ++ skipn n tp)) eqn:Enil; [contradiction Hnd; reflexivity|].
  apply components_join. apply Forall_app. split.
  - apply Forall_forall. intros c Hc. apply repeat_spec in Hc. subst. split; [discriminate|repeat constructor].
  - unfold tp in *. rewrite <- (firstn_skipn n (components target)) in Ht. apply Forall_app in Ht. destruct Ht as [_ Ht].
    eapply Forall_impl; [|exact Ht]. intros c (H1 & H2 & _). split; assumption.
Qed.
Print Assumptions C19_shortest.
