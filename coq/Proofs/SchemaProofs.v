(* The regenerated serde schema is the one the model's `raw` record and the key-presence theorem assume. *)
From Coq Require Import String List Bool. Import ListNotations. Open Scope string_scope.
From SM Require Import Model.Gen_Schema.

Definition keys (s : bool * bool * list field_desc) : list string := map f_key (snd s).
Definition skip_of (s : bool * bool * list field_desc) (k : string) : option bool :=
  option_map f_skip_none (find (fun f => String.eqb (f_key f) k) (snd s)).

(* field order = constructor argument order of Model.Raw.mkRaw *)
Lemma schema_keys_ok : keys GEN_RawSourceMap =
  ["version"; "file"; "sources"; "sourceRoot"; "sourcesContent"; "sections"; "names"; "rangeMappings"; "mappings";
   "ignoreList"; "x_facebook_offsets"; "x_metro_module_paths"; "x_facebook_sources"; "debug_id"; "debugId"].
Proof. reflexivity. Qed.
(* C03: the five optional keys (and the internal debugId) are left out when the map has no value; version and sources are always written *)
Lemma schema_skip_ok :
  forallb (fun k => match skip_of GEN_RawSourceMap k with Some true => true | _ => false end)
          ["file"; "sourceRoot"; "sourcesContent"; "ignoreList"; "debug_id"; "debugId"; "sections"; "names"; "rangeMappings"; "mappings"; "x_facebook_sources"] = true
  /\ skip_of GEN_RawSourceMap "version" = Some false /\ skip_of GEN_RawSourceMap "sources" = Some false.
Proof. repeat split; reflexivity. Qed.
Lemma schema_derives_ok : fst GEN_RawSourceMap = (true, true) /\ fst GEN_MinimalRawSourceMap = (false, true).
Proof. split; reflexivity. Qed.
Lemma schema_section_ok : keys GEN_RawSection = ["offset"; "url"; "map"] /\ keys GEN_RawSectionOffset = ["line"; "column"]
  /\ keys GEN_FacebookScopeMapping = ["names"; "mappings"]
  /\ keys GEN_MinimalRawSourceMap = ["version"; "file"; "sources"; "sourceRoot"; "sourcesContent"; "sections"; "names"; "mappings"].
Proof. repeat split; reflexivity. Qed.
(* the Rust types the model's decoding glue relies on *)
Lemma schema_types_ok :
  map f_type (snd GEN_RawSourceMap) =
  ["Option<u32>"; "Option<Value>"; "Option<Vec<Option<String>>>"; "Option<String>"; "Option<Vec<Option<String>>>";
   "Option<Vec<RawSection>>"; "Option<Vec<Value>>"; "Option<String>"; "Option<String>"; "Option<Vec<u32>>";
   "Option<Vec<Option<u32>>>"; "Option<Vec<String>>"; "Option<Vec<Option<Vec<FacebookScopeMapping>>>>"; "Option<DebugId>"; "Option<DebugId>"].
Proof. reflexivity. Qed.
