(* C14: scope lookup returns the name of the last function-map entry at or before the position. *)
From SM Require Import Model.Base Model.Mappings Model.Glb Model.SourceMap Model.Rewrite Proofs.BaseLemmas Proofs.GlbProofs.

(* with strictly increasing entry positions "greatest entry <= q" is unique: it is the last one not after q *)
Definition strictly_sorted (ms : list scope_offset) : Prop :=
  forall i j a b, (i < j)%nat -> nth_opt ms i = Some a -> nth_opt ms j = Some b -> plt (so_key a) (so_key b).
Lemma strictly_sorted_sorted ms : strictly_sorted ms -> sorted so_key ms.
Proof.
  induction ms as [|a ms IH]; intros H; [constructor|]. constructor.
  - apply IH. intros i j x y Hij Hx Hy. apply (H (S i) (S j) x y); [lia|exact Hx|exact Hy].
  - apply Forall_forall. intros y Hy. destruct (In_nth_opt ms y Hy) as [j Hj].
    apply plt_ple. apply (H O (S j) a y); [lia|reflexivity|exact Hj].
Qed.

Theorem C14_lookup h t off : forall fm,
  znth_opt (h_fmaps h) (t_src t) = Some (Some fm) -> strictly_sorted (fm_mappings fm) -> t_sl t < u32_max ->
  let q := (t_sl t + 1, tok_src_col t off) in
  match glb so_key (fm_mappings fm) q with
  | None => get_scope_for_token h t off = None /\ forall m, In m (fm_mappings fm) -> plt q (so_key m)
  | Some (i, m) =>
      get_scope_for_token h t off = znth_opt (fm_names fm) (so_name m)
      /\ ple (so_key m) q
      /\ forall j m', nth_opt (fm_mappings fm) j = Some m' -> ple (so_key m') q -> (j <= i)%nat
  end.
Proof.
  intros fm Hfm Hss Hsl q. unfold get_scope_for_token. rewrite Hfm.
  destruct (Z.leb_spec u32_max (t_sl t)); [lia|]. fold q.
  pose proof (glb_correct so_key (fm_mappings fm) q (strictly_sorted_sorted _ Hss)) as Hg.
  destruct (glb so_key (fm_mappings fm) q) as [[i m]|].
  - destruct Hg as (Hn & Hle & Hmax & _). split; [reflexivity|]. split; [exact Hle|].
    intros j m' Hj Hq. destruct (Nat.le_gt_cases j i) as [|Hgt]; [assumption|]. exfalso.
    assert (plt (so_key m) (so_key m')) by (eapply Hss; eassumption).
    assert (ple (so_key m') (so_key m)) by (apply Hmax; [eapply nth_opt_In; exact Hj|exact Hq]).
    eapply plt_irrefl. eapply plt_ple_trans; eassumption.
  - split; [reflexivity|exact Hg].
Qed.
Print Assumptions C14_lookup.

(* a function map that does not parse only disables scope lookup for its own source *)


