(* C01 (regular maps): writing a map and reading it back gives an observationally equal map. *)
From SM Require Import Model.Base Model.Gen_B64 Model.Vlq Model.Mappings Model.Glb Model.SourceMap Model.Rewrite Model.Raw
     Proofs.BaseLemmas Proofs.StringLemmas Proofs.CodecEvents Proofs.CodecCore Proofs.CodecTheorems Proofs.RmiProofs Proofs.C07Theorem Proofs.SettersProofs.
From Coq Require Import Sorted.

Definition wf_map (m : smap) : Prop :=
  sorted tok_key (sm_tokens m)
  /\ Forall (wf_tok (zlen (sm_sources m)) (zlen (sm_names m))) (sm_tokens m)
  /\ zlen (sm_sources m) <= NONE /\ zlen (sm_names m) <= NONE
  /\ StronglySorted Z.lt (sm_ignore m)
  /\ cache_ok m.

(* sortedness only depends on the keys *)
Lemma sorted_keys {A B} (ka : A -> pos) (kb : B -> pos) la lb : map ka la = map kb lb -> sorted ka la -> sorted kb lb.
Proof.
  revert lb. induction la as [|a la IH]; intros [|b lb] Hm Hs; cbn in Hm; try discriminate; [constructor|].
  inversion Hm as [[Hk Hm']]. inversion Hs as [|? ? Hs' Hall]; subst. constructor; [apply IH; assumption|].
  clear -Hk Hm' Hall. revert lb Hm'. induction la as [|x la IHl]; intros [|y lb] Hm'; cbn in Hm'; try discriminate; [constructor|].
  inversion Hm' as [[Hx Hm'']]. inversion Hall as [|? ? Hax Hall']; subst. constructor; [unfold kle in *; rewrite <- Hk, <- Hx; exact Hax|apply IHl; assumption].
Qed.
Lemma norm_key nn t : tok_key (norm nn t) = tok_key t.
Proof. unfold norm, tok_key. destruct (has_source t); reflexivity. Qed.
Lemma dedup_sorted nn : forall ts prev, sorted tok_key ts -> sorted tok_key (dedup nn prev ts).
Proof.
  induction ts as [|t ts IH]; intros prev Hs; [constructor|]. inversion Hs as [|? ? Hs' Hall]; subst. cbn [dedup].
  assert (Hrec : forall p, Forall (kle tok_key t) (dedup nn p ts)).
  { clear -Hall. induction ts as [|x xs IHx]; intros p; [constructor|]. inversion Hall; subst. cbn [dedup].
    destruct p as [q|]; [destruct (is_same_segment nn q x)|]; try constructor; auto. }
  destruct prev as [p|]; [destruct (is_same_segment nn p t)|]; try (constructor; [apply IH; exact Hs'|apply Hrec]); apply IH; exact Hs'.
Qed.
Lemma sorted_lines_ok ts : sorted tok_key ts -> Forall (fun t => 0 <= t_dl t) ts -> forall c, (match ts with [] => True | t :: _ => c <= t_dl t end) -> lines_ok c ts.
Proof.
  induction ts as [|t ts IH]; intros Hs Hp c Hc; [exact I|]. inversion Hs as [|? ? Hs' Hall]; subst. inversion Hp; subst.
  split; [exact Hc|]. apply IH; auto. destruct ts as [|n ts']; [exact I|]. inversion Hall as [|? ? Hk _]; subst.
  unfold kle, ple, tok_key in Hk. cbn [fst snd] in Hk. lia.
Qed.

Lemma fold_ignore l : StronglySorted Z.lt l -> forall m, sm_ignore m = [] ->
  sm_ignore (fold_left (fun m i => add_to_ignore_list i m) l m) = l.
Proof.
  intros Hs. assert (G : forall pre m, sm_ignore m = pre -> Forall (fun x => Forall (fun y => x < y) l) pre -> StronglySorted Z.lt pre ->
                        sm_ignore (fold_left (fun m i => add_to_ignore_list i m) l m) = pre ++ l).
  { induction Hs as [|x l Hs IH Hx]; intros pre m Hm Hpre Hps; cbn [fold_left]; [rewrite app_nil_r; exact Hm|].
    rewrite (IH (pre ++ [x])).
    - rewrite <- app_assoc. reflexivity.
    - unfold add_to_ignore_list. cbn [sm_ignore]. rewrite Hm. clear -Hpre.
      induction pre as [|p pre IHp]; [reflexivity|]. inversion Hpre as [|? ? Hp Hpre']; subst. inversion Hp; subst. cbn [set_insert app].
      destruct (Z.ltb_spec x p); [lia|]. destruct (Z.eqb_spec x p); [lia|]. rewrite IHp by exact Hpre'. reflexivity.
    - apply Forall_app. split.
      + eapply Forall_impl; [|exact Hpre]. intros p Hp. inversion Hp; assumption.
      + constructor; [exact Hx|constructor].
    - clear -Hps Hpre. induction pre as [|p pre IHp]; [repeat constructor|]. inversion Hps; subst. inversion Hpre as [|? ? Hp Hpre']; subst.
      cbn [app]. constructor; [apply IHp; assumption|]. apply Forall_app. split; [assumption|]. constructor; [inversion Hp; assumption|constructor]. }
  intros m Hm. rewrite (G [] m Hm); [reflexivity|constructor|constructor].
Qed.

Lemma names_of_strs l : names_of (map JStr l) = l.
Proof. induction l as [|x l IH]; [reflexivity|]. cbn [map names_of]. fold (names_of (map JStr l)). rewrite IH. reflexivity. Qed.
Lemma map_odefault_some (l : list bytes) : map (odefault []) (map Some l) = l.
Proof. induction l as [|x l IH]; [reflexivity|]. cbn [map odefault]. rewrite IH. reflexivity. Qed.
Lemma zlen_map {A B} (f : A -> B) l : zlen (map f l) = zlen l.
Proof. unfold zlen. rewrite map_length. reflexivity. Qed.

Lemma znth_opt_map_seq {A} (f : nat -> A) n : forall a i, (i < n)%nat -> znth_opt (map f (seq a n)) (Z.of_nat i) = Some (f (a + i)%nat).
Proof.
  induction n as [|n IH]; intros a i Hi; [lia|]. cbn [seq map znth_opt]. destruct i as [|i].
  - cbn. rewrite Nat.add_0_r. reflexivity.
  - destruct (Z.eqb_spec (Z.of_nat (S i)) 0); [lia|]. destruct (Z.ltb_spec (Z.of_nat (S i)) 0); [lia|].
    replace (Z.of_nat (S i) - 1) with (Z.of_nat i) by lia. rewrite IH by lia. f_equal. f_equal. lia.
Qed.
Lemma existsb_false_nth {A} (p : A -> bool) (l : list A) : existsb p l = false -> forall x, In x l -> p x = false.
Proof. induction l as [|y l IH]; intros H x Hin; [contradiction|]. cbn [existsb] in H. apply orb_false_iff in H. destruct H as [H1 H2]. destruct Hin as [<-|Hin]; auto. Qed.
Theorem C01_regular m : wf_map m ->
  exists m', decode_regular (sm_as_raw m) = Ok m'
    /\ map (norm (zlen (sm_names m))) (sm_tokens m') = map (norm (zlen (sm_names m))) (dedup (zlen (sm_names m)) None (sm_tokens m))
    /\ sm_names m' = sm_names m /\ sm_sources m' = sm_sources m /\ sm_root m' = sm_root m /\ sm_prefixed m' = sm_prefixed m
    /\ sm_ignore m' = sm_ignore m /\ sm_debug_id m' = sm_debug_id m /\ sm_file m' = sm_file m
    /\ forall i, (i < length (sm_sources m))%nat -> get_source_contents m' (Z.of_nat i) = get_source_contents m (Z.of_nat i).
Proof.
  intros (Hsorted & Hwf & Hns & Hnn & Hign & Hcache).
  set (nn := zlen (sm_names m)). set (nsrc := zlen (sm_sources m)).
  assert (Hpos : Forall (fun t => 0 <= t_dl t) (sm_tokens m)).
  { eapply Forall_impl; [|exact Hwf]. intros t [Hdl _ _ _ _ _]. apply u32_bounds in Hdl. lia. }
  assert (Hl : lines_ok 0 (sm_tokens m)).
  { apply sorted_lines_ok; auto. destruct (sm_tokens m) as [|t ts]; [exact I|]. inversion Hpos; assumption. }
  destruct (C07_roundtrip nsrc nn Hns Hnn (sm_tokens m) Hwf Hl) as (toks & Hdec & Hnorm).
  unfold decode_regular, sm_as_raw.
  cbn [r_names r_sources r_mappings r_range_mappings r_file r_sources_content r_source_root r_debug_id r_debug_id_new r_ignore_list odefault].
  rewrite !zlen_map. fold nn nsrc.
  change (odefault [] (serialize_range_mappings nn (sm_tokens m))) with (rm_of nn (sm_tokens m)).
  rewrite Hdec. cbn [bind].
  eexists. split; [reflexivity|].
  assert (Hst : sorted tok_key toks).
  { apply (sorted_keys tok_key tok_key (dedup nn None (sm_tokens m)) toks); [|apply dedup_sorted; exact Hsorted].
    assert (forall l, map tok_key l = map tok_key (map (norm nn) l)) as Hk by (intros l; rewrite map_map; apply map_ext; intros; symmetry; apply norm_key).
    rewrite (Hk toks), (Hk (dedup nn None (sm_tokens m))), Hnorm. reflexivity. }
  assert (Hfold : forall (l : list Z) (m0 : smap) (P : smap -> Prop),
             (forall x y, P x -> P (add_to_ignore_list y x)) -> P m0 -> P (fold_left (fun m1 i => add_to_ignore_list i m1) l m0)).
  { induction l as [|x l IHl]; intros m0 P Hstep H0; [exact H0|]. cbn [fold_left]. apply IHl; auto. }
  set (base := set_debug_id (match sm_debug_id m with Some d => Some d | None => None end)
                 (set_source_root (sm_root m) (sm_new (option_map file_of (option_map JStr (sm_file m))) toks (names_of (map JStr (sm_names m)))
                    (map (odefault []) (map Some (sm_sources m)))
                    (if existsb (fun c => match c with Some _ => true | None => false end) (map (fun i => get_source_contents m (Z.of_nat i)) (seq 0 (length (sm_sources m))))
                     then Some (map (fun i => get_source_contents m (Z.of_nat i)) (seq 0 (length (sm_sources m)))) else None)))).
  assert (Hbase : sm_tokens base = toks /\ sm_names base = sm_names m /\ sm_sources base = sm_sources m /\ sm_root base = sm_root m
                  /\ sm_prefixed base = sm_prefixed m /\ sm_ignore base = [] /\ sm_debug_id base = sm_debug_id m /\ sm_file base = sm_file m).
  { unfold base, set_debug_id, set_source_root, sm_new. cbn.
    rewrite names_of_strs, map_odefault_some, (isort_id tok_key toks Hst).
    repeat split; auto.
    - destruct (sm_debug_id m); reflexivity.
    - destruct (sm_file m); reflexivity. }
  destruct Hbase as (B1 & B2 & B3 & B4 & B5 & B6 & B7 & B8).
  set (ign := odefault [] (if is_nil (sm_ignore m) then None else Some (sm_ignore m))).
  assert (Hign' : ign = sm_ignore m) by (unfold ign; destruct (sm_ignore m); reflexivity).
  fold base. fold ign.
  repeat split.
  - apply (Hfold ign base (fun x => map (norm nn) (sm_tokens x) = map (norm nn) (dedup nn None (sm_tokens m)))); [intros; assumption|rewrite B1; exact Hnorm].
  - apply (Hfold ign base (fun x => sm_names x = sm_names m)); [intros; assumption|exact B2].
  - apply (Hfold ign base (fun x => sm_sources x = sm_sources m)); [intros; assumption|exact B3].
  - apply (Hfold ign base (fun x => sm_root x = sm_root m)); [intros; assumption|exact B4].
  - apply (Hfold ign base (fun x => sm_prefixed x = sm_prefixed m)); [intros; assumption|exact B5].
  - rewrite Hign'. apply fold_ignore; assumption.
  - apply (Hfold ign base (fun x => sm_debug_id x = sm_debug_id m)); [intros; assumption|exact B7].
  - apply (Hfold ign base (fun x => sm_file x = sm_file m)); [intros; assumption|exact B8].
  - intros i Hi.
    apply (Hfold ign base (fun x => get_source_contents x (Z.of_nat i) = get_source_contents m (Z.of_nat i))); [intros x y Hx; exact Hx|].
    unfold base, set_debug_id, set_source_root, sm_new, get_source_contents at 1. cbn [sm_contents].
    set (cs := map (fun i0 => get_source_contents m (Z.of_nat i0)) (seq 0 (length (sm_sources m)))).
    destruct (existsb (fun c => match c with Some _ => true | None => false end) cs) eqn:Ex.
    + unfold cs. rewrite znth_opt_map_seq by exact Hi. cbn [Nat.add]. destruct (get_source_contents m (Z.of_nat i)); reflexivity.
    + cbn [znth_opt]. pose proof (existsb_false_nth _ _ Ex (get_source_contents m (Z.of_nat i))) as Hn.
      assert (Hin : In (get_source_contents m (Z.of_nat i)) cs).
      { unfold cs. apply in_map_iff. exists i. split; [reflexivity|]. apply in_seq. lia. }
      specialize (Hn Hin). destruct (get_source_contents m (Z.of_nat i)); [discriminate|reflexivity].
Qed.
Print Assumptions C01_regular.
