From SM Require Import Model.Base Model.Header.

(* what a consumer of the wrapper sees, as a function of the whole stream and the state *)
Fixpoint stream (st : hstate) (s : bytes) {struct s} : outcome bytes :=
  match st with
  | PastHeader => Ok s
  | Undecided => match s with [] => Ok [] | b :: r => if is_junk_json b then stream Junk r else Ok s end
  | Junk => match s with [] => Ok []
            | b :: r => if b =? 13 then stream AwaitingNewline r else if b =? 10 then Ok r else stream Junk r end
  | AwaitingNewline => match s with [] => Ok [] | b :: r => if b =? 10 then Ok r else Err EIo end
  end.
Lemma stream_past s : stream PastHeader s = Ok s.
Proof. destruct s; reflexivity. Qed.

Definition strip_rel (r s : outcome bytes) : Prop :=
  match r, s with
  | Err _, Err _ => True
  | Ok a, Ok b => b = a \/ b = 10 :: a
  | _, _ => False
  end.

(* ---- slice side ---- *)
Lemma strip_loop_rel s nn :
  strip_rel (stream (if nn : bool then AwaitingNewline else Junk) s) (strip_loop s nn).
Proof.
  revert nn. induction s as [|b s IH]; intros nn.
  - destruct nn; cbn; auto.
  - destruct nn; cbn [strip_loop stream andb negb].
    + destruct (b =? 10) eqn:E10; cbn [negb].
      * assert (b = 10) by lia. subst b. cbn. right. reflexivity.
      * cbn. exact I.
    + destruct (is_junk_json b) eqn:Ej.
      * assert (b =? 13 = false) by (unfold is_junk_json in Ej; lia).
        assert (b =? 10 = false) by (unfold is_junk_json in Ej; lia).
        rewrite H, H0. apply (IH false).
      * destruct (b =? 13) eqn:E13; [apply (IH true)|].
        destruct (b =? 10) eqn:E10.
        -- assert (b = 10) by lia. subst b. cbn. right. reflexivity.
        -- apply (IH false).
Qed.
Lemma slice_rel s : strip_rel (stream Undecided s) (strip_junk_header s).
Proof.
  destruct s as [|b s]; [cbn; auto|].
  unfold strip_junk_header. cbn [stream]. destruct (is_junk_json b) eqn:Ej; [|cbn; auto].
  pose proof (strip_loop_rel (b :: s) false) as H. cbn [stream] in H.
  assert (b =? 13 = false) by (unfold is_junk_json in Ej; lia).
  assert (b =? 10 = false) by (unfold is_junk_json in Ej; lia).
  rewrite H0, H1 in H. exact H.
Qed.

(* ---- reader side ---- *)
Definition not_und (st : hstate) : Prop := st <> Undecided.

Lemma scan_chunk_past whole r :
  scan_chunk whole r PastHeader = match r with [] => Ok (None, PastHeader) | _ => Ok (Some r, PastHeader) end.
Proof. destruct r; reflexivity. Qed.

(* scan_chunk in a decided state: `rest` is the part of the chunk still to be looked at *)
Definition chunk_post (st : hstate) (rest : bytes) (res : outcome (option bytes * hstate)) : Prop :=
  match res with
  | Err e => forall more, stream st (rest ++ more) = Err e
  | Ok (Some out, st') => st' = PastHeader /\ out <> [] /\ forall more, stream st (rest ++ more) = Ok (out ++ more)
  | Ok (None, st') => not_und st' /\ forall more, stream st (rest ++ more) = stream st' more
  | Panic _ => False
  end.
Lemma chunk_post_past r b st : (forall more, stream st ((b :: r) ++ more) = Ok (r ++ more)) ->
  chunk_post st (b :: r) (scan_chunk (b :: r) r PastHeader) -> True.
Proof. auto. Qed.

Lemma scan_chunk_decided whole rest st : not_und st -> chunk_post st rest (scan_chunk whole rest st).
Proof.
  revert st. induction rest as [|b r IH]; intros st Hst.
  - cbn [scan_chunk chunk_post]. split; [exact Hst|]. intros more. reflexivity.
  - assert (Hpast : forall st0, (forall more, stream st0 ((b :: r) ++ more) = Ok (r ++ more)) ->
                               chunk_post st0 (b :: r) (scan_chunk whole r PastHeader)).
    { intros st0 H. rewrite scan_chunk_past. destruct r as [|c r'].
      - cbn [chunk_post]. split; [discriminate|]. intros more. rewrite H, stream_past. reflexivity.
      - cbn [chunk_post]. split; [reflexivity|]. split; [discriminate|]. exact H. }
    destruct st; [contradiction Hst; reflexivity| | |]; cbn [scan_chunk].
    + (* Junk *)
      destruct (b =? 13) eqn:E13.
      * specialize (IH AwaitingNewline ltac:(discriminate)). unfold chunk_post in *.
        destruct (scan_chunk whole r AwaitingNewline) as [[[out|] st']|e|];
          cbn [stream app]; rewrite ?E13; exact IH.
      * destruct (b =? 10) eqn:E10.
        -- apply Hpast. intros more. cbn [stream app]. rewrite E13, E10. reflexivity.
        -- specialize (IH Junk ltac:(discriminate)). unfold chunk_post in *.
           destruct (scan_chunk whole r Junk) as [[[out|] st']|e|];
             cbn [stream app]; rewrite ?E13, ?E10; exact IH.
    + (* AwaitingNewline *)
      destruct (b =? 10) eqn:E10.
      * apply Hpast. intros more. cbn [stream app]. rewrite E10. reflexivity.
      * cbn [chunk_post]. intros more. cbn [stream app]. rewrite E10. reflexivity.
    + (* PastHeader *)
      cbn [chunk_post]. split; [reflexivity|]. split; [discriminate|]. intros more. rewrite stream_past. reflexivity.
Qed.

(* ---- one read call, then a full drain ---- *)
Definition nonempty_chunks (cs : list bytes) : Prop := Forall (fun c => c <> []) cs.

Definition read_post (st : hstate) (cs : list bytes) (res : outcome (bytes * hstate * list bytes)) : Prop :=
  match res with
  | Err e => stream st (concat cs) = Err e
  | Ok (out, st', rest) =>
      (out = [] /\ stream st (concat cs) = Ok []) \/
      (out <> [] /\ st' = PastHeader /\ nonempty_chunks rest /\ (length rest < length cs)%nat
       /\ stream st (concat cs) = Ok (out ++ concat rest))
  | Panic _ => False
  end.

Lemma read_post_weaken st st0 c cs res :
  (forall more, stream st0 (c ++ more) = stream st more) ->
  read_post st cs res -> read_post st0 (c :: cs) res.
Proof.
  intros Hm. destruct res as [[[out st'] rest]|e|]; cbn [read_post concat]; auto.
  - rewrite Hm. intros [[-> H]|(H1 & H2 & H3 & H4 & H5)]; [left; auto|].
    right. repeat split; auto. cbn [length]. lia.
  - rewrite Hm. auto.
Qed.

Lemma reader_read_decided cs : nonempty_chunks cs -> forall st, not_und st -> read_post st cs (reader_read cs st).
Proof.
  unfold nonempty_chunks. induction 1 as [|c cs Hc Hne IH]; intros st Hst.
  - destruct st; cbn; auto.
  - destruct st.
    + contradiction Hst; reflexivity.
    + cbn [reader_read bind].
      pose proof (scan_chunk_decided c c Junk ltac:(discriminate)) as Hsc.
      destruct (scan_chunk c c Junk) as [[[out|] st']|e|]; cbn [chunk_post bind] in *.
      * destruct Hsc as (-> & Hout & Hm). cbn [read_post concat]. right. rewrite Hm. repeat split; auto.
      * destruct Hsc as (Hnu & Hm). eapply read_post_weaken; [exact Hm|]. apply IH; exact Hnu.
      * cbn [read_post concat]. apply Hsc.
      * exact Hsc.
    + cbn [reader_read bind].
      pose proof (scan_chunk_decided c c AwaitingNewline ltac:(discriminate)) as Hsc.
      destruct (scan_chunk c c AwaitingNewline) as [[[out|] st']|e|]; cbn [chunk_post bind] in *.
      * destruct Hsc as (-> & Hout & Hm). cbn [read_post concat]. right. rewrite Hm. repeat split; auto.
      * destruct Hsc as (Hnu & Hm). eapply read_post_weaken; [exact Hm|]. apply IH; exact Hnu.
      * cbn [read_post concat]. apply Hsc.
      * exact Hsc.
    + cbn [reader_read read_post]. right. rewrite stream_past. cbn [concat]. repeat split; auto.
Qed.

Lemma reader_all_past fuel cs : nonempty_chunks cs -> (length cs < fuel)%nat ->
  reader_all fuel cs PastHeader = Ok (concat cs).
Proof.
  revert cs. induction fuel as [|f IH]; intros cs Hne Hf; [lia|].
  destruct cs as [|c cs]; [reflexivity|].
  inversion Hne as [|? ? Hc Hne']; subst.
  destruct c as [|b c']; [contradiction|].
  cbn [reader_all reader_read bind is_nil concat].
  rewrite IH; [reflexivity | exact Hne' | cbn [length] in Hf; lia].
Qed.

Lemma reader_all_decided fuel cs st : nonempty_chunks cs -> not_und st -> (length cs < fuel)%nat ->
  reader_all fuel cs st = stream st (concat cs).
Proof.
  intros Hne Hst Hf. destruct fuel as [|f]; [lia|]. cbn [reader_all].
  pose proof (reader_read_decided cs Hne st Hst) as H.
  destruct (reader_read cs st) as [[[out st'] rest]|e|]; cbn [read_post bind] in *.
  - destruct H as [[-> H]|(H1 & -> & H3 & H4 & H5)].
    + cbn [is_nil]. symmetry; exact H.
    + destruct out as [|o out']; [contradiction|]. cbn [is_nil].
      rewrite reader_all_past; [|exact H3|lia]. cbn [bind]. symmetry; exact H5.
  - symmetry; exact H.
  - contradiction.
Qed.

Theorem reader_run_stream cs : nonempty_chunks cs -> reader_run cs = stream Undecided (concat cs).
Proof.
  intros Hne. unfold reader_run. destruct cs as [|c cs]; [reflexivity|].
  inversion Hne as [|? ? Hc Hne']; subst. destruct c as [|b c']; [contradiction|].
  cbn [reader_all reader_read bind scan_chunk concat app stream].
  destruct (is_junk_json b) eqn:Ej.
  - (* header: continue as in state Junk over the rest of the chunk *)
    pose proof (scan_chunk_decided (b :: c') c' Junk ltac:(discriminate)) as Hsc.
    destruct (scan_chunk (b :: c') c' Junk) as [[[out|] st']|e|]; cbn [chunk_post bind] in *.
    + destruct Hsc as (-> & Hout & Hm). destruct out as [|o out']; [contradiction|]. cbn [is_nil].
      rewrite reader_all_past; [|exact Hne'|cbn [length]; lia]. cbn [bind]. rewrite Hm. reflexivity.
    + destruct Hsc as (Hnu & Hm). rewrite Hm.
      pose proof (reader_read_decided cs Hne' st' Hnu) as H.
      destruct (reader_read cs st') as [[[out st''] rest]|e|]; cbn [read_post bind] in *.
      * destruct H as [[-> H]|(H1 & -> & H3 & H4 & H5)].
        -- cbn [is_nil]. symmetry; exact H.
        -- destruct out as [|o out']; [contradiction|]. cbn [is_nil].
           rewrite reader_all_past; [|exact H3|cbn [length]; lia]. cbn [bind]. symmetry; exact H5.
      * symmetry; exact H.
      * contradiction.
    + symmetry. apply Hsc.
    + contradiction.
  - cbn [bind is_nil]. rewrite reader_all_past; [|exact Hne'|cbn [length]; lia]. reflexivity.
Qed.

Theorem C12_strip cs : nonempty_chunks cs -> strip_rel (reader_run cs) (strip_junk_header (concat cs)).
Proof. intros Hne. rewrite reader_run_stream by exact Hne. apply slice_rel. Qed.
Print Assumptions C12_strip.

(* ---- decoding through the reader and through the slice agree, for any JSON layer that skips a
        leading line feed (serde_json skips leading whitespace) and maps I/O errors to errors ---- *)
Section Decode.
  Context {A : Type} (parse : bytes -> outcome A).
  Hypothesis parse_skips_lf : forall r, parse (10 :: r) = parse r.
  Definition decode_via (stripped : outcome bytes) : outcome A :=
    match stripped with Ok r => parse r | Err e => Err e | Panic p => Panic p end.
  (* equal results, or an error on both sides (the error kinds of the two paths differ: Io vs BadJson) *)
  Definition agree (a b : outcome A) : Prop :=
    match a, b with Err _, Err _ => True | _, _ => a = b end.
  Theorem C12_decode cs : nonempty_chunks cs ->
    agree (decode_via (reader_run cs)) (decode_via (strip_junk_header (concat cs))).
  Proof.
    intros Hne. pose proof (C12_strip cs Hne) as H. unfold strip_rel in H.
    destruct (reader_run cs) as [a|e|p], (strip_junk_header (concat cs)) as [b|e'|p']; try contradiction; cbn [decode_via agree]; [|exact I].
    destruct H as [->| ->]; [|rewrite parse_skips_lf]; destruct (parse a); try reflexivity; exact I.
  Qed.
End Decode.
Print Assumptions C12_decode.
