(* C13: every token added through the builder resolves, in the finished map, to the strings it was added with. *)
From SM Require Import Model.Base Model.Mappings Model.Glb Model.SourceMap Model.Rewrite
  Proofs.BaseLemmas Proofs.BuilderProofs Proofs.IndexProofs Proofs.FlattenProofs Proofs.RewriteProofs Proofs.SettersProofs.
From Coq Require Import Permutation.

(* what a history intends: one view per `add`, in call order; source still unjoined *)
Definition intended1 (op : bop) : list view :=
  match op with BAdd dl dc sl sc so na rg => [(dl, dc, sl, sc, so, na, rg)] | _ => [] end.
Definition intended (ops : list bop) : list view := flat_map intended1 ops.
Definition no_raw (op : bop) : Prop := match op with BAddRaw _ _ _ _ _ _ _ => False | _ => True end.

Definition hist_inv (b : builder) (vs : list view) : Prop :=
  builder_inv b /\ ids_ok b /\ map (bview b) (b_tokens b) = vs.

Lemma ext_same b b' : b_sources b' = b_sources b -> b_names b' = b_names b -> ext b b'.
Proof. intros H1 H2. split; exists []; rewrite app_nil_r; assumption. Qed.

Definition sizes_ok (b : builder) : Prop := zlen (b_sources b) < NONE /\ zlen (b_names b) < NONE.
Lemma sizes_back b b' : ext b b' -> sizes_ok b' -> sizes_ok b.
Proof.
  intros [[xs Hx] [ys Hy]] [H1 H2]. rewrite Hx, Hy, !zlen_app in *. pose proof (zlen_nonneg xs). pose proof (zlen_nonneg ys). split; lia.
Qed.

Lemma bop_ext op b : builder_inv b -> ext b (apply_bop op b).
Proof.
  intros Hinv. destruct op as [s|n|dl dc sl sc so na rg|dl dc sl sc so na rg| | | |]; cbn [apply_bop]; try apply ext_refl.
  - unfold add_source. pose proof (add_source_spec s NONE b Hinv) as Hs. pose proof (add_source_shape s NONE b) as Hsh.
    destruct (add_source_with_id s NONE b) as [id b1]. cbn [snd]. destruct Hs as (_ & _ & _ & _ & Hn & _). destruct Hsh as [Hg _].
    split; [destruct (grow_cases _ _ _ Hg) as [Hx _]; exact Hx|exists []; rewrite app_nil_r; exact Hn].
  - pose proof (add_name_spec n b Hinv) as Hs. pose proof (add_name_shape n b) as Hsh.
    destruct (add_name n b) as [id b1]. cbn [snd]. destruct Hs as (_ & _ & _ & _ & Hsrc & _). destruct Hsh as [Hg _].
    split; [exists []; rewrite app_nil_r; exact Hsrc|destruct (grow_cases _ _ _ Hg) as [Hx _]; exact Hx].
  - pose proof (add_spec dl dc sl sc so na rg b Hinv) as Ha. destruct (add dl dc sl sc so na rg b) as [raw b1]. cbn [snd]. apply Ha.
  - apply ext_same; reflexivity.
  - apply ext_same; reflexivity.
  - apply ext_same; reflexivity.
  - apply ext_same; reflexivity.
  - apply ext_same; reflexivity.
Qed.

Lemma bop_hist op b vs : no_raw op -> sizes_ok (apply_bop op b) -> hist_inv b vs -> hist_inv (apply_bop op b) (vs ++ intended1 op).
Proof.
  intros Hnr Hsz (Hinv & Hids & Hv). pose proof (bop_preserves op b Hinv) as Hinv'. pose proof (bop_ext op b Hinv) as Hext.
  destruct op as [s|n|dl dc sl sc so na rg| | | | |]; cbn [apply_bop intended1 no_raw] in *; try contradiction; rewrite ?app_nil_r.
  - unfold add_source in *. pose proof (add_source_spec s NONE b Hinv) as Hs.
    destruct (add_source_with_id s NONE b) as [id b1]. cbn [snd] in *. destruct Hs as (_ & _ & _ & _ & Hn & Ht).
    split; [exact Hinv'|]. split; [apply (ids_ok_ext b); assumption|]. rewrite Ht, <- Hv. apply bview_stable; assumption.
  - pose proof (add_name_spec n b Hinv) as Hs.
    destruct (add_name n b) as [id b1]. cbn [snd] in *. destruct Hs as (_ & _ & _ & _ & Hsrc & Ht).
    split; [exact Hinv'|]. split; [apply (ids_ok_ext b); assumption|]. rewrite Ht, <- Hv. apply bview_stable; assumption.
  - pose proof (add_spec dl dc sl sc so na rg b Hinv) as Ha.
    destruct (add dl dc sl sc so na rg b) as [raw b1]. cbn [snd] in *.
    destruct Ha as (I1 & E1 & _ & T1 & _ & _ & Vdl & Vdc & Vsl & Vsc & Vrg & Vsrc & Vnm). destruct Hsz as [Hz1 Hz2].
    assert (Hraw_ok : id_ok (zlen (b_sources b1)) (t_src raw) /\ id_ok (zlen (b_names b1)) (t_name raw)).
    { split; unfold id_ok; [destruct so; [right; apply Vsrc|left; exact Vsrc]|destruct na; [right; apply Vnm|left; exact Vnm]]. }
    split; [exact I1|]. split.
    + unfold ids_ok. rewrite T1. apply Forall_app. split; [|constructor; [exact Hraw_ok|constructor]].
      assert (Hx : ids_ok (mkBld (b_file b1) (b_name_map b1) (b_names b1) (b_tokens b) (b_source_map b1) (b_root b1) (b_sources b1) (b_contents b1) (b_mapping b1) (b_ignore b1) (b_debug_id b1)))
        by (apply (ids_ok_ext b); [exact E1|reflexivity|exact Hids]).
      exact Hx.
    + rewrite T1, map_app, <- Hv. f_equal; [apply bview_stable; assumption|]. cbn [map]. f_equal.
      unfold bview, b_src_of, b_name_of. rewrite Vdl, Vdc, Vsl, Vsc, Vrg.
      assert (Hs : (if t_src raw =? NONE then None else znth_opt (b_sources b1) (t_src raw)) = so).
      { destruct so as [s|]; [destruct Vsrc as [Vb Vz]|rewrite Vsrc, Z.eqb_refl; reflexivity].
        destruct (Z.eqb_spec (t_src raw) NONE); [lia|exact Vz]. }
      assert (Hn : (if t_name raw =? NONE then None else znth_opt (b_names b1) (t_name raw)) = na).
      { destruct na as [s|]; [destruct Vnm as [Vb Vz]|rewrite Vnm, Z.eqb_refl; reflexivity].
        destruct (Z.eqb_spec (t_name raw) NONE); [lia|exact Vz]. }
      rewrite Hs, Hn. reflexivity.
  - split; [exact Hinv'|]. split; [exact Hids|exact Hv].
  - split; [exact Hinv'|]. split; [exact Hids|exact Hv].
  - split; [exact Hinv'|]. split; [exact Hids|exact Hv].
  - split; [exact Hinv'|]. split; [exact Hids|exact Hv].
Qed.

Definition run (ops : list bop) : builder := fold_left (fun b op => apply_bop op b) ops (builder_new None).
Lemma run_snoc ops op : run (ops ++ [op]) = apply_bop op (run ops).
Proof. unfold run. rewrite fold_left_app. reflexivity. Qed.

Theorem hist_all ops : Forall no_raw ops -> sizes_ok (run ops) -> hist_inv (run ops) (intended ops).
Proof.
  induction ops as [|op ops IH] using rev_ind; intros Hnr Hsz.
  - split; [apply builder_new_inv|]. split; [constructor|reflexivity].
  - apply Forall_app in Hnr. destruct Hnr as [Hnr Hop]. inversion Hop; subst.
    rewrite run_snoc in *. unfold intended. rewrite flat_map_app. cbn [flat_map]. rewrite app_nil_r.
    assert (Hinv : builder_inv (run ops)) by apply C13_builder_inv.
    apply bop_hist; [assumption|exact Hsz|]. apply IH; [exact Hnr|]. eapply sizes_back; [apply bop_ext; exact Hinv|exact Hsz].
Qed.

(* finishing: sort, and join the source with the root *)
Definition join_view (root : option bytes) (v : view) : view :=
  let '(dl, dc, sl, sc, so, na, rg) := v in (dl, dc, sl, sc, option_map (join_rule root) so, na, rg).

Lemma into_sourcemap_views_root b :
  sm_tokens (into_sourcemap b) = isort tok_key (b_tokens b)
  /\ forall t, mview (into_sourcemap b) t = join_view (b_root b) (bview b t).
Proof.
  unfold into_sourcemap.
  match goal with |- context [fold_left ?f ?l ?m] => destruct (fold_ignore_fields l m) as (H1 & H2 & H3 & H4) end.
  cbn [set_source_root set_debug_id sm_new sm_tokens sm_sources sm_names sm_prefixed] in *.
  split; [exact H1|]. intros t. unfold mview, bview, join_view, tok_source, tok_name, get_source, get_name, b_src_of, b_name_of, join_rule.
  rewrite H2, H3, H4. destruct (t_src t =? NONE); [reflexivity|].
  destruct (b_root b) as [r|]; [|destruct (znth_opt (b_sources b) (t_src t)); reflexivity].
  destruct (is_nil r); [destruct (znth_opt (b_sources b) (t_src t)); reflexivity|]. rewrite znth_opt_map. reflexivity.
Qed.

Theorem C13_tokens_resolve ops : Forall no_raw ops -> sizes_ok (run ops) ->
  Permutation (map (mview (into_sourcemap (run ops))) (sm_tokens (into_sourcemap (run ops))))
              (map (join_view (b_root (run ops))) (intended ops)).
Proof.
  intros Hnr Hsz. destruct (hist_all ops Hnr Hsz) as (_ & _ & Hv).
  destruct (into_sourcemap_views_root (run ops)) as [Ht Hm]. rewrite Ht, <- Hv.
  rewrite (map_ext _ _ Hm). rewrite map_map.
  apply Permutation_map. apply Permutation_sym. apply isort_perm.
Qed.
Print Assumptions C13_tokens_resolve.

(* ---------- what the finished map reports ---------- *)
From SM Require Import Proofs.ContentsProofs Proofs.FlattenContents.
Lemma fold_ignore_scalars l : forall m,
  let m' := fold_left (fun m id => add_to_ignore_list id m) l m in
  sm_file m' = sm_file m /\ sm_root m' = sm_root m /\ sm_debug_id m' = sm_debug_id m.
Proof. induction l as [|x l IH]; intros m; cbn [fold_left]; [auto|]. destruct (IH (add_to_ignore_list x m)) as (H1 & H2 & H3). cbn in *. auto. Qed.

Theorem C13_finished_reports b :
  let m := into_sourcemap b in
  sm_sources m = b_sources b /\ sm_names m = b_names b /\ sm_file m = b_file b /\ sm_debug_id m = b_debug_id b
  /\ sm_root m = b_root b /\ sm_tokens m = isort tok_key (b_tokens b)
  /\ (forall j, get_source_contents m j = b_get_source_contents b j)
  /\ (forall j, In j (sm_ignore m) <-> In j (b_ignore b)).
Proof.
  cbn zeta. split; [apply into_sourcemap_sources|].
  assert (Hf : sm_names (into_sourcemap b) = b_names b /\ sm_tokens (into_sourcemap b) = isort tok_key (b_tokens b)).
  { unfold into_sourcemap. match goal with |- context [fold_left ?f ?l ?m] => destruct (fold_ignore_fields l m) as (H1 & _ & H3 & _) end.
    cbn [set_source_root set_debug_id sm_new sm_tokens sm_names] in *. split; [exact H3|]. rewrite H1. destruct (b_root b) as [r|]; [destruct (is_nil r)|]; reflexivity. }
  assert (Hs : sm_file (into_sourcemap b) = b_file b /\ sm_root (into_sourcemap b) = b_root b /\ sm_debug_id (into_sourcemap b) = b_debug_id b).
  { unfold into_sourcemap. match goal with |- context [fold_left ?f ?l ?m] => destruct (fold_ignore_scalars l m) as (H1 & H2 & H3) end.
    cbn [set_source_root set_debug_id sm_new sm_file sm_root sm_debug_id] in *. auto. }
  destruct Hf as [Hn Ht]. destruct Hs as (Hfile & Hroot & Hdbg).
  repeat split; try assumption.
  - apply into_sourcemap_contents.
  - apply into_sourcemap_ignore.
  - apply into_sourcemap_ignore.
Qed.

(* the builder's setters: the last value set is the value held (so, with the theorem above, the value reported) *)
Theorem C13_setters_last b :
  (forall f, b_file (b_set_file f b) = f) /\ (forall d, b_debug_id (b_set_debug_id d b) = d) /\ (forall r, b_root (b_set_source_root r b) = r)
  /\ (forall id j, In j (b_ignore (b_add_to_ignore_list id b)) <-> j = id \/ In j (b_ignore b))
  /\ (forall id c b', b_set_source_contents id c b = Ok b' -> forall j, b_get_source_contents b' j = if j =? id then c else b_get_source_contents b j).
Proof.
  repeat split; try reflexivity.
  - cbn [b_add_to_ignore_list b_ignore]. apply In_set_insert.
  - cbn [b_add_to_ignore_list b_ignore]. apply In_set_insert.
  - intros id c b' H j. apply (set_contents_get id c b b' H).
Qed.
