(* C09: SourceMap::rewrite keeps every token's resolution (positions, resolved source up to the
   stripped prefix, name unless names are dropped, range flag). *)
From SM Require Import Model.Base Model.Mappings Model.Glb Model.SourceMap Model.Rewrite
  Proofs.BaseLemmas Proofs.GlbProofs Proofs.BuilderProofs Proofs.IndexProofs Proofs.FlattenProofs.
From Coq Require Import Sorted.

Definition rview0 (m : smap) (o : rewrite_options) (t : rtoken) : view :=
  (t_dl t, t_dc t, t_sl t, t_sc t, tok_source m t, (if ro_names o then tok_name m t else None), t_range t).

Lemma rewrite_tokens_spec m o ts : forall b,
  builder_inv b -> ids_ok b ->
  zlen (b_sources b) + zlen ts < NONE -> zlen (b_names b) + zlen ts < NONE ->
  match rewrite_tokens m o ts b with
  | Panic _ => False
  | Err _ => False
  | Ok b' => builder_inv b' /\ ids_ok b' /\ ext b b'
             /\ b_root b' = b_root b /\ b_file b' = b_file b /\ b_debug_id b' = b_debug_id b
             /\ exists ts', b_tokens b' = b_tokens b ++ ts' /\ map (bview b') ts' = map (rview0 m o) ts
  end.
Proof.
  induction ts as [|t ts IH]; intros b Hinv Hids Hsz Hnz; cbn [rewrite_tokens].
  - split; [exact Hinv|]. split; [exact Hids|]. split; [apply ext_refl|]. repeat (split; [reflexivity|]).
    exists []. rewrite app_nil_r. split; reflexivity.
  - rewrite zlen_cons in Hsz, Hnz. pose proof (zlen_nonneg ts) as Hts.
    set (nm := if ro_names o then tok_name m t else None).
    pose proof (add_with_id_spec (t_dl t) (t_dc t) (t_sl t) (t_sc t) (tok_source m t) (t_src t) nm (t_range t) b Hinv) as Ha.
    destruct (add_with_id (t_dl t) (t_dc t) (t_sl t) (t_sc t) (tok_source m t) (t_src t) nm (t_range t) b) as [raw b1].
    destruct Ha as (I1 & E1 & R1 & T1 & LS1 & LN1 & Vdl & Vdc & Vsl & Vsc & Vrg & Vsrc & Vnm).
    destruct R1 as (_ & _ & Rroot & Rfile & Rdbg).
    assert (Hc : exists b2, (if negb (t_src raw =? NONE) && ro_contents o && negb (b_has_source_contents b1 (t_src raw))
                 then b_set_source_contents (t_src raw) (get_source_contents m (t_src t)) b1 else Ok b1) = Ok b2
              /\ b_sources b2 = b_sources b1 /\ b_names b2 = b_names b1 /\ b_tokens b2 = b_tokens b1
              /\ b_source_map b2 = b_source_map b1 /\ b_name_map b2 = b_name_map b1
              /\ b_root b2 = b_root b1 /\ b_file b2 = b_file b1 /\ b_debug_id b2 = b_debug_id b1).
    { destruct (Z.eqb_spec (t_src raw) NONE) as [En|En]; cbn [negb andb]; [exists b1; auto 10|].
      destruct (ro_contents o && negb (b_has_source_contents b1 (t_src raw))); [|exists b1; auto 10].
      destruct (tok_source m t); [|contradiction]. destruct Vsrc as [Vb _]. apply set_contents_ok; [exact Vb|exact En]. }
    destruct Hc as (b2 & -> & S2 & N2 & T2 & SM2 & NM2 & Ro2 & F2 & D2). cbn [bind].
    assert (I2 : builder_inv b2) by (apply (inv_same b1); congruence).
    assert (E12 : ext b1 b2) by (split; exists []; rewrite app_nil_r; congruence).
    assert (E02 : ext b b2) by (eapply ext_trans; eassumption).
    assert (Hraw_ok : id_ok (zlen (b_sources b2)) (t_src raw) /\ id_ok (zlen (b_names b2)) (t_name raw)).
    { rewrite S2, N2. split; unfold id_ok.
      - destruct (tok_source m t); [right; apply Vsrc|left; exact Vsrc].
      - destruct nm; [right; apply Vnm|left; exact Vnm]. }
    assert (Hids2 : ids_ok b2).
    { unfold ids_ok. rewrite T2, T1. apply Forall_app. split.
      - assert (Hx : ids_ok (mkBld (b_file b2) (b_name_map b2) (b_names b2) (b_tokens b) (b_source_map b2) (b_root b2) (b_sources b2) (b_contents b2) (b_mapping b2) (b_ignore b2) (b_debug_id b2))).
        { apply (ids_ok_ext b); [exact E02|reflexivity|exact Hids]. }
        exact Hx.
      - constructor; [exact Hraw_ok|constructor]. }
    assert (LS2 : zlen (b_sources b2) <= zlen (b_sources b) + 1) by (rewrite S2; exact LS1).
    assert (LN2 : zlen (b_names b2) <= zlen (b_names b) + 1) by (rewrite N2; exact LN1).
    specialize (IH b2 I2 Hids2 ltac:(lia) ltac:(lia)).
    destruct (rewrite_tokens m o ts b2) as [b'|e|s]; [|exact IH|exact IH].
    destruct IH as (I' & Hids' & E2' & Ro' & F' & D' & ts' & Tk' & Vw').
    split; [exact I'|]. split; [exact Hids'|]. split; [eapply ext_trans; eassumption|].
    split; [congruence|]. split; [congruence|]. split; [congruence|].
    exists (raw :: ts'). split.
    + rewrite Tk', T2, T1, <- app_assoc. reflexivity.
    + cbn [map]. f_equal; [|exact Vw'].
      rewrite (bview_ext b2 b' raw E2' (proj1 Hraw_ok) (proj2 Hraw_ok)).
      unfold bview, rview0, b_src_of, b_name_of. rewrite Vdl, Vdc, Vsl, Vsc, Vrg, S2, N2. fold nm.
      assert (Hs : (if t_src raw =? NONE then None else znth_opt (b_sources b1) (t_src raw)) = tok_source m t).
      { destruct (tok_source m t) as [s|].
        - destruct Vsrc as [Vb Vz]. destruct (Z.eqb_spec (t_src raw) NONE); [unfold NONE in *; lia|exact Vz].
        - rewrite Vsrc, Z.eqb_refl. reflexivity. }
      assert (Hn : (if t_name raw =? NONE then None else znth_opt (b_names b1) (t_name raw)) = nm).
      { destruct nm as [s|].
        - destruct Vnm as [Vb Vz]. destruct (Z.eqb_spec (t_name raw) NONE); [unfold NONE in *; lia|exact Vz].
        - rewrite Vnm, Z.eqb_refl. reflexivity. }
      rewrite Hs, Hn. reflexivity.
Qed.

(* ---- prefix stripping acts on the resolved source only ---- *)
Fixpoint strip1 (prefixes : list bytes) (source : bytes) : bytes :=
  match prefixes with
  | [] => source
  | p :: ps' => let p' := match rev p with 47 :: _ => p | _ => p ++ [47] end in
                if starts_with source p' then skipn (length p') source else strip1 ps' source
  end.
Definition eff_prefixes (m : smap) (o : rewrite_options) : list bytes :=
  filter (fun p => negb (bytes_eqb p tilde)) (ro_prefixes o)
  ++ (if existsb (fun p => bytes_eqb p tilde) (ro_prefixes o)
      then match find_common_prefix (sm_sources m) with Some p => [p] | None => [] end else []).
Definition rview (m : smap) (o : rewrite_options) (t : rtoken) : view :=
  (t_dl t, t_dc t, t_sl t, t_sc t, option_map (strip1 (eff_prefixes m o)) (tok_source m t),
   (if ro_names o then tok_name m t else None), t_range t).

Lemma znth_opt_map {A B} (f : A -> B) l i : znth_opt (map f l) i = option_map f (znth_opt l i).
Proof.
  revert i; induction l as [|x l IH]; intros i; cbn [map znth_opt]; [reflexivity|].
  destruct (i =? 0); [reflexivity|]. destruct (i <? 0); [reflexivity|]. apply IH.
Qed.
Lemma strip_sources ps b : b_sources (strip_prefixes ps b) = map (strip1 ps) (b_sources b).
Proof.
  unfold strip_prefixes. cbn [b_sources]. apply map_ext. intros s.
  induction ps as [|p ps IH]; cbn [strip1]; [reflexivity|]. rewrite IH. reflexivity.
Qed.
Lemma bview_strip ps b t :
  bview (strip_prefixes ps b) t =
  (t_dl t, t_dc t, t_sl t, t_sc t, option_map (strip1 ps) (b_src_of b t), b_name_of b t, t_range t).
Proof.
  unfold bview, b_src_of, b_name_of. rewrite strip_sources, znth_opt_map.
  destruct (t_src t =? NONE); reflexivity.
Qed.

Theorem C09_tokens m o :
  sorted tok_key (sm_tokens m) -> zlen (sm_tokens m) < NONE ->
  match rewrite_with_mapping m o with
  | Panic _ => False
  | Err _ => False
  | Ok (m', _) => map (mview m') (sm_tokens m') = map (rview m o) (sm_tokens m)
                  /\ sm_file m' = sm_file m /\ sm_debug_id m' = sm_debug_id m
  end.
Proof.
  intros Hsorted Hsz. unfold rewrite_with_mapping.
  set (b0 := b_set_debug_id (sm_debug_id m) (builder_new (sm_file m))).
  assert (I0 : builder_inv b0) by (split; intros s; reflexivity).
  assert (Hids0 : ids_ok b0) by constructor.
  pose proof (rewrite_tokens_spec m o (sm_tokens m) b0 I0 Hids0) as H.
  assert (Hz0 : zlen (@nil bytes) = 0) by reflexivity.
  cbn [b0 b_set_debug_id builder_new b_sources b_names] in H. rewrite Hz0 in H. specialize (H ltac:(lia) ltac:(lia)).
  fold b0 in H. destruct (rewrite_tokens m o (sm_tokens m) b0) as [b1|e|p]; cbn [bind]; [|exact H|exact H].
  destruct H as (I1 & Hids1 & E01 & Ro1 & F1 & D1 & ts' & Tk1 & Vw1).
  fold (eff_prefixes m o). set (ps := eff_prefixes m o) in *.
  assert (Hroot1 : b_root b1 = None) by (rewrite Ro1; reflexivity).
  cbn [b0 b_set_debug_id builder_new b_tokens app] in Tk1.
  (* both branches produce a builder whose views are the stripped views of b1 *)
  set (b2 := if is_nil ps then b1 else strip_prefixes ps b1).
  assert (Hb2 : b_root b2 = None /\ b_tokens b2 = ts' /\ b_file b2 = sm_file m /\ b_debug_id b2 = sm_debug_id m
                /\ forall t, bview b2 t = (t_dl t, t_dc t, t_sl t, t_sc t, option_map (strip1 ps) (b_src_of b1 t), b_name_of b1 t, t_range t)).
  { unfold b2. destruct ps as [|p ps'] eqn:Eps; cbn [is_nil].
    - split; [exact Hroot1|]. split; [exact Tk1|]. split; [rewrite F1; reflexivity|]. split; [rewrite D1; reflexivity|].
      intros t. unfold bview. cbn [strip1]. destruct (b_src_of b1 t); reflexivity.
    - split; [exact Hroot1|]. split; [exact Tk1|]. split; [cbn; rewrite F1; reflexivity|]. split; [cbn; rewrite D1; reflexivity|].
      intros t. apply bview_strip. }
  destruct Hb2 as (Hr2 & Ht2 & Hf2 & Hd2 & Hv2).
  destruct (into_sourcemap_views b2 Hr2) as [Hst Hmv]. rewrite Hst, Ht2.
  split.
  - rewrite (map_ext _ _ Hmv).
    (* ts' has the keys of the (sorted) input, so the final sort is the identity *)
    assert (Hkeys : map tok_key ts' = map tok_key (sm_tokens m)).
    { assert (Hk : map view_key (map (bview b1) ts') = map view_key (map (rview0 m o) (sm_tokens m))) by (rewrite Vw1; reflexivity).
      rewrite !map_map in Hk. exact Hk. }
    assert (Hs' : sorted tok_key ts').
    { clear -Hkeys Hsorted. revert ts' Hkeys. induction Hsorted as [|x l Hs IH Hall]; intros ts' Hk.
      - destruct ts'; [constructor|discriminate].
      - destruct ts' as [|y ts']; [discriminate|]. cbn [map] in Hk. assert (Hy : tok_key y = tok_key x) by congruence. assert (Hr : map tok_key ts' = map tok_key l) by congruence. constructor; [apply IH; exact Hr|].
        apply Forall_forall. intros z Hz. apply (in_map tok_key) in Hz. rewrite Hr in Hz. apply in_map_iff in Hz. destruct Hz as (w & Hw & Hin).
        unfold kle. rewrite Hy, <- Hw. rewrite Forall_forall in Hall. exact (Hall w Hin). }
    rewrite (isort_id tok_key ts' Hs').
    rewrite (map_ext _ _ Hv2).
    (* transport the per-token equation of b1 through the stripping *)
    clear -Vw1. revert Vw1. generalize (sm_tokens m). induction ts' as [|t' ts' IH]; intros [|t l] H; cbn [map] in *; try discriminate; [reflexivity|].
    inversion H as [[H1 H2 H3 H4 H5 H6 H7 H8]]. f_equal; [|apply IH; exact H8].
    unfold rview. rewrite H1, H2, H3, H4, H5, H6, H7. reflexivity.
  - unfold into_sourcemap.
    assert (Hfd : forall l0 m1, sm_file (fold_left (fun m id => add_to_ignore_list id m) l0 m1) = sm_file m1
                              /\ sm_debug_id (fold_left (fun m id => add_to_ignore_list id m) l0 m1) = sm_debug_id m1).
    { intros l0; induction l0 as [|x l0 IHl]; intros m1; cbn [fold_left]; [auto|]. destruct (IHl (add_to_ignore_list x m1)) as [A1 A2]. cbn in *. auto. }
    match goal with |- context [fold_left _ ?l0 ?m0] => destruct (Hfd l0 m0) as [A1 A2]; rewrite A1, A2 end.
    cbn. auto.
Qed.
Print Assumptions C09_tokens.

(* ---- C09: nothing unreferenced, no duplicates ---- *)
Lemma index_of_none_notin s l : index_of s l = None -> ~ In s l.
Proof.
  induction l as [|x l IH]; intros H Hin; [contradiction|]. cbn [index_of] in H.
  destruct (bytes_eqb x s) eqn:E; [discriminate|]. destruct (index_of s l); [discriminate|].
  destruct Hin as [->|Hin]; [rewrite bytes_eqb_refl in E; discriminate|exact (IH eq_refl Hin)].
Qed.
Definition refd (n : Z) (ids : list Z) : Prop := forall i, 0 <= i < n -> In i ids.
Definition interned (b : builder) : Prop :=
  NoDup (b_sources b) /\ NoDup (b_names b)
  /\ refd (zlen (b_sources b)) (map t_src (b_tokens b)) /\ refd (zlen (b_names b)) (map t_name (b_tokens b)).

Lemma NoDup_snoc {A} (l : list A) x : NoDup l -> ~ In x l -> NoDup (l ++ [x]).
Proof.
  intros Hl Hx. induction Hl as [|y l Hy Hl IH]; cbn [app]; [constructor; [intros []|constructor]|].
  constructor.
  - intros Hin. apply in_app_iff in Hin. destruct Hin as [Hin|[->|[]]]; [contradiction|]. apply Hx. left. reflexivity.
  - apply IH. intros Hin. apply Hx. right. exact Hin.
Qed.

Lemma add_source_cases src old b : builder_inv b ->
  let '(id, b') := add_source_with_id src old b in
  b_names b' = b_names b /\ b_tokens b' = b_tokens b /\
  ((index_of src (b_sources b) = Some id /\ b_sources b' = b_sources b)
   \/ (index_of src (b_sources b) = None /\ id = zlen (b_sources b) /\ b_sources b' = b_sources b ++ [src])).
Proof.
  intros [Hs Hn]. unfold add_source_with_id. rewrite (Hs src).
  destruct (index_of src (b_sources b)) as [i|] eqn:Ei.
  - pose proof (index_of_bound _ _ _ Ei). destruct (Z.eqb_spec i (zlen (b_sources b))); [lia|]. auto.
  - cbn. auto 10.
Qed.
Lemma add_name_cases name b : builder_inv b ->
  let '(id, b') := add_name name b in
  b_sources b' = b_sources b /\ b_tokens b' = b_tokens b /\
  ((index_of name (b_names b) = Some id /\ b_names b' = b_names b)
   \/ (index_of name (b_names b) = None /\ id = zlen (b_names b) /\ b_names b' = b_names b ++ [name])).
Proof.
  intros [Hs Hn]. unfold add_name. rewrite (Hn name).
  destruct (index_of name (b_names b)) as [i|] eqn:Ei; cbn; auto 10.
Qed.

Lemma refd_grow n ids : refd n ids -> refd (n + 1) (ids ++ [n]).
Proof. intros H i Hi. apply in_or_app. destruct (Z.eq_dec i n) as [->|Hne]; [right; left; reflexivity|left; apply H; lia]. Qed.
Lemma refd_more n ids x : refd n ids -> refd n (ids ++ [x]).
Proof. intros H i Hi. apply in_or_app. left. apply H. exact Hi. Qed.

Lemma add_with_id_interned dl dc sl sc source sid name rg b : builder_inv b -> interned b ->
  interned (snd (add_with_id dl dc sl sc source sid name rg b)).
Proof.
  intros Hinv (N1 & N2 & R1 & R2). unfold add_with_id.
  (* source step *)
  assert (H1 : let '(src_id, b1) := match source with Some s => add_source_with_id s sid b | None => (NONE, b) end in
      builder_inv b1 /\ b_names b1 = b_names b /\ b_tokens b1 = b_tokens b /\ NoDup (b_sources b1)
      /\ refd (zlen (b_sources b1)) (map t_src (b_tokens b) ++ [src_id])).
  { destruct source as [s|].
    - pose proof (add_source_spec s sid b Hinv) as Hsp. pose proof (add_source_cases s sid b Hinv) as Hc.
      destruct (add_source_with_id s sid b) as [id b1]. destruct Hsp as (I1 & _). destruct Hc as (C1 & C2 & [[Ci Cs]|(Ci & Cid & Cs)]).
      + split; [exact I1|]. split; [exact C1|]. split; [exact C2|]. rewrite Cs. split; [exact N1|]. apply refd_more. exact R1.
      + split; [exact I1|]. split; [exact C1|]. split; [exact C2|]. rewrite Cs, Cid. split.
        * apply NoDup_snoc; [exact N1|]. apply index_of_none_notin. exact Ci.
        * rewrite zlen_app. change (zlen [s]) with 1. apply refd_grow; exact R1.
    - split; [exact Hinv|]. split; [reflexivity|]. split; [reflexivity|]. split; [exact N1|]. apply refd_more. exact R1. }
  destruct (match source with Some s => add_source_with_id s sid b | None => (NONE, b) end) as [src_id b1].
  destruct H1 as (I1 & Hn1 & Ht1 & N1' & R1').
  assert (H2 : let '(name_id, b2) := match name with Some n => add_name n b1 | None => (NONE, b1) end in
      b_sources b2 = b_sources b1 /\ b_tokens b2 = b_tokens b1 /\ NoDup (b_names b2)
      /\ refd (zlen (b_names b2)) (map t_name (b_tokens b) ++ [name_id])).
  { destruct name as [s|].
    - pose proof (add_name_cases s b1 I1) as Hc. destruct (add_name s b1) as [id b2].
      destruct Hc as (C1 & C2 & [[Ci Cs]|(Ci & Cid & Cs)]).
      + split; [exact C1|]. split; [exact C2|]. rewrite Cs, Hn1. split; [exact N2|]. apply refd_more. exact R2.
      + split; [exact C1|]. split; [exact C2|]. rewrite Cs, Cid, Hn1. split.
        * apply NoDup_snoc; [exact N2|]. apply index_of_none_notin. rewrite <- Hn1. exact Ci.
        * rewrite zlen_app. change (zlen [s]) with 1. apply refd_grow; exact R2.
    - split; [reflexivity|]. split; [reflexivity|]. rewrite Hn1. split; [exact N2|]. apply refd_more. exact R2. }
  destruct (match name with Some n => add_name n b1 | None => (NONE, b1) end) as [name_id b2].
  destruct H2 as (Hs2 & Ht2 & N2' & R2').
  unfold interned, push_token. cbn [snd b_sources b_names b_tokens]. rewrite Hs2, Ht2, Ht1, !map_app. cbn [map t_src t_name].
  repeat split; assumption.
Qed.

Lemma set_contents_fields id c b b' : b_set_source_contents id c b = Ok b' ->
  b_sources b' = b_sources b /\ b_names b' = b_names b /\ b_tokens b' = b_tokens b
  /\ b_source_map b' = b_source_map b /\ b_name_map b' = b_name_map b.
Proof.
  unfold b_set_source_contents. destruct (id =? NONE); [discriminate|].
  destruct (zset_nth _ id c); [|discriminate]. intros H; inversion H; subst. cbn. auto.
Qed.

Lemma rewrite_tokens_interned m o ts : forall b b', builder_inv b -> interned b ->
  rewrite_tokens m o ts b = Ok b' -> builder_inv b' /\ interned b'.
Proof.
  induction ts as [|t ts IH]; intros b b' Hinv Hint H; cbn [rewrite_tokens] in H; [inversion H; subst; auto|].
  set (nm := if ro_names o then tok_name m t else None) in *.
  pose proof (add_with_id_interned (t_dl t) (t_dc t) (t_sl t) (t_sc t) (tok_source m t) (t_src t) nm (t_range t) b Hinv Hint) as Hi1.
  pose proof (add_with_id_spec (t_dl t) (t_dc t) (t_sl t) (t_sc t) (tok_source m t) (t_src t) nm (t_range t) b Hinv) as Hs1.
  destruct (add_with_id (t_dl t) (t_dc t) (t_sl t) (t_sc t) (tok_source m t) (t_src t) nm (t_range t) b) as [raw b1].
  cbn [snd] in Hi1. destruct Hs1 as (I1 & _).
  destruct (negb (t_src raw =? NONE) && ro_contents o && negb (b_has_source_contents b1 (t_src raw))).
  - destruct (b_set_source_contents (t_src raw) (get_source_contents m (t_src t)) b1) as [b2|e|p] eqn:E; cbn [bind] in H; try discriminate.
    destruct (set_contents_fields _ _ _ _ E) as (F1 & F2 & F3 & F4 & F5).
    apply (IH b2 b'); [apply (inv_same b1); assumption| |exact H].
    destruct Hi1 as (A & B & C & D). unfold interned. rewrite F1, F2, F3. auto.
  - cbn [bind] in H. apply (IH b1 b'); assumption.
Qed.

Theorem C09_interned m o m' mp : rewrite_with_mapping m o = Ok (m', mp) ->
  eff_prefixes m o = [] ->
  NoDup (sm_sources m') /\ NoDup (sm_names m')
  /\ refd (zlen (sm_sources m')) (map t_src (sm_tokens m')) /\ refd (zlen (sm_names m')) (map t_name (sm_tokens m')).
Proof.
  intros H Hnp. unfold rewrite_with_mapping in H.
  set (b0 := b_set_debug_id (sm_debug_id m) (builder_new (sm_file m))) in *.
  assert (I0 : builder_inv b0) by (split; intros s; reflexivity).
  assert (Hint0 : interned b0).
  { unfold interned, b0. cbn. repeat split; try constructor; intros i Hi; change (zlen (@nil bytes)) with 0 in Hi; lia. }
  destruct (rewrite_tokens m o (sm_tokens m) b0) as [b1|e|p] eqn:E; cbn [bind] in H; try discriminate.
  destruct (rewrite_tokens_interned m o (sm_tokens m) b0 b1 I0 Hint0 E) as [I1 (N1 & N2 & R1 & R2)].
  fold (eff_prefixes m o) in H. rewrite Hnp in H. cbn [is_nil] in H. inversion H; subst m' mp. clear H.
  unfold into_sourcemap.
  match goal with |- context [fold_left ?f ?l ?m0] => destruct (fold_ignore_fields l m0) as (H1 & H2 & H3 & H4) end.
  cbn [set_source_root set_debug_id sm_new sm_tokens sm_sources sm_names sm_prefixed] in *.
  rewrite H1, H2, H3.
  assert (Hperm : forall (f : rtoken -> Z) i, In i (map f (b_tokens b1)) -> In i (map f (isort tok_key (b_tokens b1)))).
  { intros f i Hin. apply in_map_iff in Hin. destruct Hin as (t & <- & Ht). apply in_map.
    eapply Permutation.Permutation_in; [apply isort_perm|exact Ht]. }
  repeat split; try assumption.
  - intros i Hi. apply Hperm. apply R1. exact Hi.
  - intros i Hi. apply Hperm. apply R2. exact Hi.
Qed.
Print Assumptions C09_interned.

(* ---- C09, Hermes: every token keeps its enclosing function ---- *)
(* the builder's id mapping: new source id -> an old id carrying the same resolved name *)
Definition map_ok (m : smap) (b : builder) : Prop :=
  length (b_mapping b) = length (b_sources b)
  /\ forall j old, znth_opt (b_mapping b) j = Some old -> old <> NONE /\ get_source m old = znth_opt (b_sources b) j.

Lemma znth_opt_snoc {A} (l : list A) x j : znth_opt (l ++ [x]) j = if j =? zlen l then Some x else znth_opt l j.
Proof.
  revert j. induction l as [|y l IH]; intros j; cbn [app znth_opt].
  - change (zlen (@nil A)) with 0. destruct (j =? 0); [reflexivity|]. destruct (j <? 0); reflexivity.
  - rewrite zlen_cons. destruct (Z.eqb_spec j 0) as [->|Hj].
    + pose proof (zlen_nonneg l). destruct (Z.eqb_spec 0 (zlen l + 1)); [lia|reflexivity].
    + destruct (Z.ltb_spec j 0).
      * pose proof (zlen_nonneg l). destruct (Z.eqb_spec j (zlen l + 1)); [lia|reflexivity].
      * rewrite IH. destruct (Z.eqb_spec (j - 1) (zlen l)), (Z.eqb_spec j (zlen l + 1)); try lia; reflexivity.
Qed.
Lemma zlen_length_eq {A B} (a : list A) (b : list B) : length a = length b -> zlen a = zlen b.
Proof. unfold zlen. intros ->. reflexivity. Qed.

Lemma add_source_map_ok m s old b : builder_inv b -> map_ok m b -> old <> NONE -> get_source m old = Some s ->
  map_ok m (snd (add_source_with_id s old b)) /\ b_mapping (snd (add_source_with_id s old b)) = b_mapping (snd (add_source_with_id s old b)).
Proof.
  intros [Hs Hn] [Hl Hm] Hold Hg. split; [|reflexivity]. unfold add_source_with_id. rewrite (Hs s).
  destruct (index_of s (b_sources b)) as [i|] eqn:Ei.
  - pose proof (index_of_bound _ _ _ Ei). destruct (Z.eqb_spec i (zlen (b_sources b))); [lia|]. cbn [snd]. split; assumption.
  - cbn [snd]. unfold map_ok. cbn [b_mapping b_sources]. split; [rewrite !app_length, Hl; reflexivity|].
    intros j o Hj. rewrite znth_opt_snoc in Hj. rewrite znth_opt_snoc. rewrite (zlen_length_eq _ _ Hl) in Hj.
    destruct (j =? zlen (b_sources b)); [inversion Hj; subst; auto|apply Hm; exact Hj].
Qed.

Definition mapping_fields_same (b b' : builder) : Prop := b_mapping b' = b_mapping b /\ b_sources b' = b_sources b.

Lemma rewrite_tokens_map_ok m o ts : forall b b', builder_inv b -> map_ok m b ->
  Forall (fun t => t_src t = NONE \/ tok_source m t <> None) ts ->
  rewrite_tokens m o ts b = Ok b' -> map_ok m b'.
Proof.
  induction ts as [|t ts IH]; intros b b' Hinv Hmo Hts H; cbn [rewrite_tokens] in H; [inversion H; subst; exact Hmo|].
  inversion Hts as [|? ? Ht Hts']; subst.
  set (nm := if ro_names o then tok_name m t else None) in *.
  pose proof (add_with_id_spec (t_dl t) (t_dc t) (t_sl t) (t_sc t) (tok_source m t) (t_src t) nm (t_range t) b Hinv) as Hs1.
  assert (Hmo1 : map_ok m (snd (add_with_id (t_dl t) (t_dc t) (t_sl t) (t_sc t) (tok_source m t) (t_src t) nm (t_range t) b))).
  { unfold add_with_id. destruct (tok_source m t) as [s|] eqn:Es.
    - assert (Hold : t_src t <> NONE /\ get_source m (t_src t) = Some s).
      { unfold tok_source in Es. destruct (Z.eqb_spec (t_src t) NONE); [discriminate|]. auto. }
      destruct (add_source_map_ok m s (t_src t) b Hinv Hmo (proj1 Hold) (proj2 Hold)) as [Hok _].
      pose proof (add_source_spec s (t_src t) b Hinv) as Hsp.
      destruct (add_source_with_id s (t_src t) b) as [id b1]. cbn [snd] in Hok. destruct Hsp as (I1 & _).
      destruct nm as [n|].
      + pose proof (add_name_shape n b1) as Hsh. unfold add_name in *. destruct (assoc n (b_name_map b1)); cbn [snd push_token]; exact Hok.
      + cbn [snd push_token]. exact Hok.
    - destruct nm as [n|].
      + unfold add_name. destruct (assoc n (b_name_map b)); cbn [snd push_token]; exact Hmo.
      + cbn [snd push_token]. exact Hmo. }
  destruct (add_with_id (t_dl t) (t_dc t) (t_sl t) (t_sc t) (tok_source m t) (t_src t) nm (t_range t) b) as [raw b1].
  cbn [snd] in Hmo1. destruct Hs1 as (I1 & _).
  destruct (negb (t_src raw =? NONE) && ro_contents o && negb (b_has_source_contents b1 (t_src raw))).
  - destruct (b_set_source_contents (t_src raw) (get_source_contents m (t_src t)) b1) as [b2|e|p] eqn:E; cbn [bind] in H; try discriminate.
    destruct (set_contents_fields _ _ _ _ E) as (F1 & F2 & F3 & F4 & F5).
    apply (IH b2 b'); [apply (inv_same b1); assumption| |exact Hts'|exact H].
    unfold b_set_source_contents in E. destruct (t_src raw =? NONE); [discriminate|]. destruct (zset_nth _ _ _); [|discriminate].
    inversion E; subst. exact Hmo1.
  - cbn [bind] in H. apply (IH b1 b'); assumption.
Qed.

Lemma znth_opt_some {A} (l : list A) i : 0 <= i < zlen l -> exists x, znth_opt l i = Some x.
Proof.
  revert i. induction l as [|y l IH]; intros i Hi; [unfold zlen in Hi; cbn in Hi; lia|]. rewrite zlen_cons in Hi. cbn [znth_opt].
  destruct (Z.eqb_spec i 0); [eauto|]. destruct (Z.ltb_spec i 0); [lia|]. apply IH. lia.
Qed.
Lemma znth_opt_out {A} (l : list A) i : zlen l <= i -> znth_opt l i = None.
Proof.
  intros Hi. destruct (znth_opt l i) eqn:E; [|reflexivity]. apply znth_opt_bound in E. lia.
Qed.

Lemma nth_opt_map' {A B} (f : A -> B) (l : list A) i : nth_opt (map f l) i = option_map f (nth_opt l i).
Proof. revert i; induction l as [|x l IH]; intros [|i]; cbn; auto. Qed.
Lemma map_nth_opt_eq {A B C} (f : A -> C) (g : B -> C) l l' k x y :
  map f l' = map g l -> nth_opt l k = Some x -> nth_opt l' k = Some y -> f y = g x.
Proof.
  intros H Hx Hy. apply (f_equal (fun z => nth_opt z k)) in H. rewrite !nth_opt_map', Hx, Hy in H. cbn in H. congruence.
Qed.

(* function maps are attached to source *names*: old ids with the same resolved name carry the same entry *)
Definition fmaps_consistent (h : hermes) : Prop :=
  forall i j, i <> NONE -> j <> NONE -> get_source (h_sm h) i = get_source (h_sm h) j -> get_source (h_sm h) i <> None ->
              znth_opt (h_fmaps h) i = znth_opt (h_fmaps h) j.

Theorem C09_hermes h o h' m' mp :
  sorted tok_key (sm_tokens (h_sm h)) -> zlen (sm_tokens (h_sm h)) < NONE ->
  Forall (fun t => t_src t = NONE \/ tok_source (h_sm h) t <> None) (sm_tokens (h_sm h)) ->     (* source indices in range *)
  fmaps_consistent h -> eff_prefixes (h_sm h) o = [] ->
  (forall i, i <> NONE -> get_source (h_sm h) i <> None -> exists x, znth_opt (h_fmaps h) i = Some x) ->  (* an entry per source *)
  zlen (h_fmaps h) < NONE ->
  rewrite_with_mapping (h_sm h) o = Ok (m', mp) -> (length mp <= length (h_fmaps h))%nat ->
  h_rewrite h o = Ok h' ->
  h_sm h' = m' /\ length (sm_tokens m') = length (sm_tokens (h_sm h))
  /\ forall k t t' off, nth_opt (sm_tokens (h_sm h)) k = Some t -> nth_opt (sm_tokens m') k = Some t' ->
         get_scope_for_token h' t' off = get_scope_for_token h t off.
Proof.
  intros Hsorted Hsz Hrefs Hcons Hnp Htotal Hfsz Hrw Hmp H. unfold h_rewrite in H. rewrite Hrw in H. cbn [bind] in H.
  destruct (Nat.leb_spec (length mp) (length (h_fmaps h))) as [_|Hgt]; [|lia].
  inversion H; subst h'. clear H. cbn [h_sm h_fmaps]. split; [reflexivity|].
  pose proof (C09_tokens (h_sm h) o Hsorted Hsz) as Htok. rewrite Hrw in Htok. destruct Htok as (Hviews & _).
  (* unfold what rewrite_with_mapping did *)
  unfold rewrite_with_mapping in Hrw. set (m := h_sm h) in *.
  set (b0 := b_set_debug_id (sm_debug_id m) (builder_new (sm_file m))) in *.
  assert (I0 : builder_inv b0) by (split; intros s; reflexivity).
  assert (M0 : map_ok m b0) by (split; [reflexivity|]; intros j old Hj; destruct j; discriminate).
  destruct (rewrite_tokens m o (sm_tokens m) b0) as [b1|e|p] eqn:E; cbn [bind] in Hrw; try discriminate.
  pose proof (rewrite_tokens_map_ok m o (sm_tokens m) b0 b1 I0 M0 Hrefs E) as [Ml Mm].
  fold (eff_prefixes m o) in Hrw. rewrite Hnp in Hrw. cbn [is_nil app] in Hrw. inversion Hrw; subst m' mp. clear Hrw.
  assert (Hroot1 : b_root b1 = None).
  { pose proof (rewrite_tokens_spec m o (sm_tokens m) b0 I0 ltac:(constructor)) as Hs.
    change (zlen (b_sources b0)) with 0 in Hs. change (zlen (b_names b0)) with 0 in Hs. specialize (Hs ltac:(lia) ltac:(lia)).
    rewrite E in Hs. destruct Hs as (_ & _ & _ & Hr & _). rewrite Hr. reflexivity. }
  destruct (into_sourcemap_views b1 Hroot1) as [Hst Hmv].
  split; [apply (f_equal (@length view)) in Hviews; rewrite !map_length in Hviews; exact Hviews|].
  intros k t t' off Hk Hk'.
  assert (Hv : mview (into_sourcemap b1) t' = rview m o t).
  { eapply map_nth_opt_eq; eassumption. }
  rewrite Hmv in Hv. unfold rview, bview in Hv. rewrite Hnp in Hv. cbn [strip1] in Hv.
  assert (Hsl : t_sl t' = t_sl t /\ t_sc t' = t_sc t /\ b_src_of b1 t' = tok_source m t).
  { inversion Hv as [[A1 A2 A3 A4 A5 A6 A7]]. destruct (tok_source m t); auto. }
  destruct Hsl as (Esl & Esc & Esrc).
  set (fm' := map (fun idx => match znth_opt (h_fmaps h) idx with Some x => x | None => None end) (b_mapping b1)).
  assert (Hlen' : zlen fm' = zlen (b_sources b1)) by (unfold fm', zlen; rewrite map_length, Ml; reflexivity).
  assert (Hlen'' : zlen fm' <= zlen (h_fmaps h)) by (unfold fm', zlen in *; rewrite map_length; lia).
  (* both lookups use the same function-map entry *)
  assert (Hfm : match znth_opt fm' (t_src t') with Some (Some f) => Some f | _ => None end
                = match znth_opt (h_fmaps h) (t_src t) with Some (Some f) => Some f | _ => None end).
  { destruct (tok_source m t) as [s|] eqn:Es.
    - unfold b_src_of in Esrc. destruct (Z.eqb_spec (t_src t') NONE) as [|Hn']; [discriminate|].
      unfold tok_source in Es. destruct (Z.eqb_spec (t_src t) NONE) as [|Hn]; [discriminate|].
      pose proof (znth_opt_bound _ _ _ Esrc) as Hb.
      destruct (znth_opt_some (b_mapping b1) (t_src t') ltac:(rewrite (zlen_length_eq _ _ Ml); exact Hb)) as [old Eo].
      destruct (Mm _ _ Eo) as [Hold Hg]. rewrite Esrc in Hg.
      assert (Heq : znth_opt (h_fmaps h) old = znth_opt (h_fmaps h) (t_src t)).
      { apply Hcons; fold m; try assumption; [rewrite Hg, Es; reflexivity|rewrite Hg; discriminate]. }
      unfold fm'. rewrite znth_opt_map, Eo. cbn [option_map]. rewrite Heq.
      destruct (Htotal (t_src t) Hn ltac:(rewrite Es; discriminate)) as [x Ex]. rewrite Ex. reflexivity.
    - (* no source: the old id is the tombstone, the new one is the tombstone or out of range *)
      assert (Hold : t_src t = NONE).
      { pose proof (proj1 (Forall_forall _ _) Hrefs t (nth_opt_In _ _ _ Hk)) as [Ho|Ho]; [exact Ho|contradiction]. }
      rewrite Hold. rewrite (znth_opt_out (h_fmaps h) NONE) by lia.
      unfold b_src_of in Esrc. destruct (Z.eqb_spec (t_src t') NONE) as [En|Hn'].
      + rewrite En. rewrite (znth_opt_out fm' NONE) by lia. reflexivity.
      + destruct (znth_opt fm' (t_src t')) eqn:Ef; [|reflexivity]. apply znth_opt_bound in Ef. rewrite Hlen' in Ef.
        destruct (znth_opt_some (b_sources b1) (t_src t') Ef) as [x Ex]. congruence. }
  unfold get_scope_for_token. cbn [h_fmaps]. fold fm'. rewrite Esl. unfold tok_src_col. rewrite Esc.
  destruct (znth_opt fm' (t_src t')) as [[f1|]|]; destruct (znth_opt (h_fmaps h) (t_src t)) as [[f2|]|]; try discriminate; try reflexivity.
  inversion Hfm; subst. reflexivity.
Qed.
Print Assumptions C09_hermes.
