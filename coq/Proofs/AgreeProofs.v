(* C08: a lookup through the index and a lookup in the flattened map find the same original location. *)
From SM Require Import Model.Base Model.Mappings Model.Glb Model.SourceMap Model.Rewrite
  Proofs.BaseLemmas Proofs.GlbProofs Proofs.BuilderProofs Proofs.IndexProofs Proofs.FlattenProofs.
From Coq Require Import Sorted.

(* ---- glb reads elements only through their keys ---- *)
Section M.
  Context {A B : Type} (k : A -> pos) (k' : B -> pos) (f : A -> B).
  Hypothesis Hk : forall x, k' (f x) = k x.
  Lemma nth_opt_map (l : list A) i : nth_opt (map f l) i = option_map f (nth_opt l i).
  Proof. revert i; induction l as [|x l IH]; intros [|i]; cbn; auto. Qed.
  Lemma bsearch_go_map fuel l q : forall lo hi, bsearch_go k' fuel (map f l) q lo hi = bsearch_go k fuel l q lo hi.
  Proof.
    induction fuel as [|fu IH]; intros lo hi; cbn [bsearch_go]; [reflexivity|].
    destruct (Nat.leb hi lo); [reflexivity|]. rewrite nth_opt_map.
    destruct (nth_opt l (lo + (hi - lo) / 2)) as [x|]; cbn [option_map]; [|reflexivity].
    rewrite Hk. destruct (pos_eqb (k x) q); [reflexivity|]. destruct (pos_ltb (k x) q); apply IH.
  Qed.
  Lemma walk_back_map l q i : walk_back k' (map f l) q i = walk_back k l q i.
  Proof.
    induction i as [|i IH]; cbn [walk_back]; [reflexivity|]. rewrite nth_opt_map.
    destruct (nth_opt l i) as [x|]; cbn [option_map]; [|reflexivity]. rewrite Hk, IH. reflexivity.
  Qed.
  Lemma glb_map l q : glb k' (map f l) q = option_map (fun p => (fst p, f (snd p))) (glb k l q).
  Proof.
    unfold glb, bsearch. rewrite map_length, bsearch_go_map.
    destruct (bsearch_go k (S (length l)) l q 0 (length l)) as [i|[|i]]; cbn [glb_with].
    - rewrite walk_back_map, nth_opt_map. destruct (nth_opt l (walk_back k l q i)); reflexivity.
    - reflexivity.
    - rewrite nth_opt_map. destruct (nth_opt l i); reflexivity.
  Qed.
  Lemma sorted_map_key l : sorted k l -> sorted k' (map f l).
  Proof.
    induction 1 as [|x l Hs IH Hall]; cbn [map]; constructor; [exact IH|].
    apply Forall_forall. intros y Hy. apply in_map_iff in Hy. destruct Hy as (u & <- & Hu).
    unfold kle. rewrite !Hk. rewrite Forall_forall in Hall. exact (Hall u Hu).
  Qed.
End M.

(* ---- tokens tagged with the map they belong to ---- *)
Definition T := (smap * rtoken)%type.
Definition keyT (p : T) : pos := tok_key (snd p).
Definition shT (off : pos) (p : T) : T := (fst p, shift off (snd p)).
Lemma HshT off p : keyT (shT off p) = shift_key off (keyT p).
Proof. reflexivity. Qed.
Definition g (p : T) : view := mview (fst p) (snd p).
Definition tag (s : pos * smap) : @section T := (fst s, map (pair (snd s)) (sm_tokens (snd s))).
Definition untag (s : pos * smap) : @section rtoken := (fst s, sm_tokens (snd s)).

(* the index as the property sees it: per-section tokens sorted and non-negative, offsets strictly
   increasing, every shifted token of a section strictly before every later section's offset *)
Definition wf_index (secs : list (pos * smap)) : Prop := wf_secs tok_key shift (map untag secs).

Lemma Forall_map_iff {X Y} (h : X -> Y) (P : Y -> Prop) l : Forall P (map h l) <-> Forall (fun x => P (h x)) l.
Proof. rewrite !Forall_forall. split. - intros H x Hx. apply H. apply in_map. exact Hx. - intros H y Hy. apply in_map_iff in Hy. destruct Hy as (x & <- & Hx). apply H; exact Hx. Qed.

Lemma wf_tag secs : wf_index secs -> wf_secs keyT shT (map tag secs).
Proof.
  unfold wf_index. induction secs as [|s r IH]; cbn [map]; intros H; [constructor|].
  inversion H as [|? ? H1 H2 H3 H4]; subst. constructor.
  - cbn [untag tag snd] in *. apply (sorted_map_key tok_key keyT (pair (snd s))); [reflexivity|exact H1].
  - cbn [untag tag snd] in *. apply Forall_map_iff. exact H2.
  - apply Forall_map_iff. apply Forall_map_iff in H3. eapply Forall_impl; [|exact H3].
    intros s' [Ha Hb]. cbn [untag tag fst snd] in *. split; [exact Ha|]. apply Forall_map_iff. exact Hb.
  - apply IH. exact H4.
Qed.

Lemma views_flat secs : concat (map sec_views secs) = map g (flat shT (map tag secs)).
Proof.
  induction secs as [|s r IH]; [reflexivity|].
  cbn [map concat]. unfold flat in *. cbn [map concat]. rewrite map_app, <- IH. f_equal.
  unfold sec_views, sec_toks, tag. cbn [fst snd]. rewrite !map_map. reflexivity.
Qed.

Lemma u32_sub_ok site a b v : u32_sub site a b = Ok v -> v = a - b.
Proof. unfold u32_sub, checked. destruct (is_u32 (a - b)); [intros H; inversion H; reflexivity|discriminate]. Qed.

Theorem C08_agree f f' file file' secs fm q m t o :
  wf_index secs -> total_tokens secs < NONE ->
  flatten (S f) file (map mk secs) = Ok fm ->
  dm_lookup (S (S f')) (DIndex file' (map mk secs)) (fst q) (snd q) = Ok (Some (m, t, o)) ->
  exists i' t', lookup_token (sm_tokens fm) (fst q) (snd q) = Ok (Some (i', t', o))
    /\ exists off, mview fm t' = sview m off t.
Proof.
  intros Hwf Hsz Hflat Hlook.
  (* the index side *)
  cbn [dm_lookup] in Hlook.
  replace (fst q, snd q) with q in Hlook by (destruct q; reflexivity).
  rewrite (glb_map fst sec_key mk) in Hlook by reflexivity.
  destruct (glb fst secs q) as [[k s]|] eqn:Esec; cbn [option_map fst snd mk] in Hlook; [|discriminate].
  destruct (u32_sub 70 (fst q) (fst (fst s))) as [l|e|p] eqn:El; cbn [bind] in Hlook; try discriminate.
  apply u32_sub_ok in El.
  assert (Hc : exists c, (if fst q =? fst (fst s) then u32_sub 71 (snd q) (snd (fst s)) else Ok (snd q)) = Ok c
                         /\ c = snd (rel (fst s) q)).
  { unfold rel; cbn [snd]. destruct (fst q =? fst (fst s)).
    - destruct (u32_sub 71 (snd q) (snd (fst s))) as [c|e|p] eqn:Ec; cbn [bind] in Hlook; try discriminate.
      exists c. split; [reflexivity|]. apply u32_sub_ok in Ec. exact Ec.
    - exists (snd q). split; reflexivity. }
  destruct Hc as (c & Hc & Hcv). rewrite Hc in Hlook. cbn [bind] in Hlook.
  subst l c. change (fst q - fst (fst s)) with (fst (rel (fst s) q)) in Hlook.
  destruct (lookup_token (sm_tokens (snd s)) (fst (rel (fst s) q)) (snd (rel (fst s) q))) as [[[[i t0] o0]|]|e|p] eqn:Elk;
    cbn [bind] in Hlook; try discriminate.
  inversion Hlook; subst m t0 o0. clear Hlook.
  set (off := fst s) in *. set (toks := sm_tokens (snd s)) in *.
  (* the section's own glb and the offset formula *)
  unfold lookup_token in Elk.
  replace (fst (rel off q), snd (rel off q)) with (rel off q) in Elk by (destruct (rel off q); reflexivity).
  destruct (glb tok_key toks (rel off q)) as [[i0 t0]|] eqn:Eg; [|discriminate].
  assert (Hsame : t0 = t /\ i0 = i).
  { destruct (t_range t0 && (t_dl t0 =? fst (rel off q))).
    - destruct (u32_sub 20 (snd (rel off q)) (t_dc t0)); cbn [bind] in Elk; try discriminate. inversion Elk; auto.
    - inversion Elk; auto. }
  destruct Hsame; subst t0 i0.
  (* tagged glb of the section and of the selected section in the tagged index *)
  pose proof (glb_map tok_key keyT (pair (snd s)) ltac:(reflexivity) toks (rel off q)) as Egt. rewrite Eg in Egt. cbn [option_map fst snd] in Egt.
  pose proof (glb_map fst fst tag ltac:(reflexivity) secs q) as Est. rewrite Esec in Est. cbn [option_map fst snd] in Est.
  unfold tag at 2 in Est. fold off toks in Est.
  pose proof (C08_core keyT shT HshT (map tag secs) q k off (map (pair (snd s)) toks) i (snd s, t) (wf_tag secs Hwf) Est Egt) as Hcore.
  set (base := length (flat shT (firstn k (map tag secs)))) in *.
  (* the flattened side, through views *)
  pose proof (C08_flatten_views f file secs fm Hsz Hflat) as Hv. rewrite views_flat in Hv.
  assert (Hsorted : sorted view_key (map g (flat shT (map tag secs)))).
  { apply (sorted_map_key keyT view_key g); [reflexivity|]. apply (wf_sorted keyT shT HshT). apply wf_tag; exact Hwf. }
  rewrite (isort_id view_key _ Hsorted) in Hv.
  pose proof (glb_map tok_key view_key (mview fm) ltac:(reflexivity) (sm_tokens fm) q) as G1.
  pose proof (glb_map keyT view_key g ltac:(reflexivity) (flat shT (map tag secs)) q) as G2.
  rewrite Hv, G2, Hcore in G1. cbn [option_map fst snd] in G1.
  destruct (glb tok_key (sm_tokens fm) q) as [[i' t']|] eqn:Efm; cbn [option_map fst snd] in G1; [|discriminate].
  assert (Hview : g (shT off (snd s, t)) = mview fm t') by congruence.
  unfold g, shT in Hview. cbn [fst snd] in Hview.
  (* t' has the shifted position and the same flag *)
  assert (Hpos : t_dl t' = t_dl (shift off t) /\ t_dc t' = t_dc (shift off t) /\ t_range t' = t_range t).
  { unfold mview in Hview. inversion Hview. auto. }
  destruct Hpos as (Pdl & Pdc & Prg).
  exists i', t'. split; [|exists off; unfold sview; symmetry; exact Hview].
  unfold lookup_token. replace (fst q, snd q) with q by (destruct q; reflexivity). rewrite Efm.
  rewrite Prg, Pdl.
  assert (Hline : (t_dl (shift off t) =? fst q) = (t_dl t =? fst (rel off q))).
  { unfold shift, rel; cbn [t_dl fst]. destruct (Z.eqb_spec (t_dl t + fst off) (fst q)), (Z.eqb_spec (t_dl t) (fst q - fst off)); try lia; reflexivity. }
  rewrite Hline. destruct (t_range t && (t_dl t =? fst (rel off q))) eqn:E.
  - apply andb_true_iff in E. destruct E as [_ E]. apply Z.eqb_eq in E.
    assert (Hsub : snd q - t_dc t' = snd (rel off q) - t_dc t).
    { rewrite Pdc. unfold shift, rel in *; cbn [t_dc fst snd] in *. destruct (Z.eqb_spec (t_dl t) 0), (Z.eqb_spec (fst q) (fst off)); lia. }
    unfold u32_sub in *. rewrite Hsub.
    destruct (checked 20 (is_u32 (snd (rel off q) - t_dc t)) (snd (rel off q) - t_dc t)) as [v|e|p]; cbn [bind] in *; try discriminate.
    inversion Elk; subst. reflexivity.
  - inversion Elk; subst. reflexivity.
Qed.
Print Assumptions C08_agree.
