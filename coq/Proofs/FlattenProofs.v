(* C08, second layer: what SourceMapIndex::flatten builds, seen through resolved token views. *)
From SM Require Import Model.Base Model.Mappings Model.Glb Model.SourceMap Model.Rewrite
  Proofs.BaseLemmas Proofs.GlbProofs Proofs.BuilderProofs Proofs.IndexProofs.
From Coq Require Import Sorted.

Definition view := (Z * Z * Z * Z * option bytes * option bytes * bool)%type.
Definition b_src_of (b : builder) (t : rtoken) : option bytes :=
  if t_src t =? NONE then None else znth_opt (b_sources b) (t_src t).
Definition b_name_of (b : builder) (t : rtoken) : option bytes :=
  if t_name t =? NONE then None else znth_opt (b_names b) (t_name t).
Definition bview (b : builder) (t : rtoken) : view :=
  (t_dl t, t_dc t, t_sl t, t_sc t, b_src_of b t, b_name_of b t, t_range t).
Definition mview (m : smap) (t : rtoken) : view :=
  (t_dl t, t_dc t, t_sl t, t_sc t, tok_source m t, tok_name m t, t_range t).
Definition sview (m : smap) (off : pos) (t : rtoken) : view := mview m (shift off t).
Definition view_key (v : view) : pos := let '(dl, dc, _, _, _, _, _) := v in (dl, dc).

Definition id_ok (n id : Z) : Prop := id = NONE \/ 0 <= id < n.
Definition ids_ok (b : builder) : Prop :=
  Forall (fun t => id_ok (zlen (b_sources b)) (t_src t) /\ id_ok (zlen (b_names b)) (t_name t)) (b_tokens b).
Definition ext (b b' : builder) : Prop :=
  (exists xs, b_sources b' = b_sources b ++ xs) /\ (exists ys, b_names b' = b_names b ++ ys).

Lemma ext_refl b : ext b b.
Proof. split; exists []; rewrite app_nil_r; reflexivity. Qed.
Lemma ext_trans a b c : ext a b -> ext b c -> ext a c.
Proof.
  intros [[x1 H1] [y1 H2]] [[x2 H3] [y2 H4]]. split.
  - exists (x1 ++ x2). rewrite H3, H1, app_assoc. reflexivity.
  - exists (y1 ++ y2). rewrite H4, H2, app_assoc. reflexivity.
Qed.

Lemma zlen_app {A} (a b : list A) : zlen (a ++ b) = zlen a + zlen b.
Proof. unfold zlen. rewrite app_length. lia. Qed.
Lemma zlen_nonneg {A} (a : list A) : 0 <= zlen a.
Proof. unfold zlen. lia. Qed.
Lemma zlen_cons {A} (x : A) l : zlen (x :: l) = zlen l + 1.
Proof. unfold zlen. cbn [length]. lia. Qed.

Lemma znth_opt_app_l {A} (l x : list A) i : 0 <= i < zlen l -> znth_opt (l ++ x) i = znth_opt l i.
Proof.
  revert i. induction l as [|y l IH]; intros i Hi; [unfold zlen in Hi; cbn in Hi; lia|].
  rewrite zlen_cons in Hi. cbn [app znth_opt].
  destruct (Z.eqb_spec i 0); [reflexivity|]. destruct (Z.ltb_spec i 0); [lia|]. apply IH. lia.
Qed.
Lemma znth_opt_bound {A} (l : list A) i x : znth_opt l i = Some x -> 0 <= i < zlen l.
Proof.
  revert i. induction l as [|y l IH]; intros i H; cbn [znth_opt] in H; [discriminate|]. rewrite zlen_cons.
  destruct (Z.eqb_spec i 0); [pose proof (zlen_nonneg l); lia|]. destruct (Z.ltb_spec i 0); [discriminate|].
  apply IH in H. lia.
Qed.

Lemma id_ok_mono n n' id : id_ok n id -> n <= n' -> id_ok n' id.
Proof. unfold id_ok. lia. Qed.

Lemma bview_ext b b' t : ext b b' ->
  id_ok (zlen (b_sources b)) (t_src t) -> id_ok (zlen (b_names b)) (t_name t) -> bview b' t = bview b t.
Proof.
  intros [[xs Hx] [ys Hy]] Hs Hn. unfold bview, b_src_of, b_name_of. rewrite Hx, Hy.
  assert (H1 : (if t_src t =? NONE then None else znth_opt (b_sources b ++ xs) (t_src t))
               = (if t_src t =? NONE then None else znth_opt (b_sources b) (t_src t))).
  { destruct (Z.eqb_spec (t_src t) NONE); [reflexivity|]. destruct Hs as [Hs|Hs]; [contradiction|]. apply znth_opt_app_l; exact Hs. }
  assert (H2 : (if t_name t =? NONE then None else znth_opt (b_names b ++ ys) (t_name t))
               = (if t_name t =? NONE then None else znth_opt (b_names b) (t_name t))).
  { destruct (Z.eqb_spec (t_name t) NONE); [reflexivity|]. destruct Hn as [Hn|Hn]; [contradiction|]. apply znth_opt_app_l; exact Hn. }
  rewrite H1, H2. reflexivity.
Qed.

Lemma ids_ok_ext b b' : ext b b' -> b_tokens b' = b_tokens b -> ids_ok b -> ids_ok b'.
Proof.
  intros [[xs Hx] [ys Hy]] Ht H. unfold ids_ok in *. rewrite Ht, Hx, Hy, !zlen_app.
  eapply Forall_impl; [|exact H]. intros t [H1 H2].
  split; eapply id_ok_mono; try eassumption; pose proof (zlen_nonneg xs); pose proof (zlen_nonneg ys); lia.
Qed.

(* ---- one `add` ---- *)
Definition same_rest (b b' : builder) : Prop :=
  b_contents b' = b_contents b /\ b_ignore b' = b_ignore b /\ b_root b' = b_root b
  /\ b_file b' = b_file b /\ b_debug_id b' = b_debug_id b.

Lemma add_source_shape src old b :
  let '(id, b') := add_source_with_id src old b in
  (b_sources b' = b_sources b \/ b_sources b' = b_sources b ++ [src]) /\ same_rest b b'.
Proof.
  unfold add_source_with_id, same_rest. destruct (assoc src (b_source_map b)) as [id|].
  - destruct (id =? zlen (b_sources b)); cbn; auto 10.
  - cbn; auto 10.
Qed.
Lemma add_name_shape name b :
  let '(id, b') := add_name name b in
  (b_names b' = b_names b \/ b_names b' = b_names b ++ [name]) /\ same_rest b b'.
Proof. unfold add_name, same_rest. destruct (assoc name (b_name_map b)) as [id|]; cbn; auto 10. Qed.

Lemma grow_cases {A} (l l' : list A) x : (l' = l \/ l' = l ++ [x]) -> (exists xs, l' = l ++ xs) /\ zlen l' <= zlen l + 1.
Proof.
  intros [->| ->]; split; try lia.
  - exists []. rewrite app_nil_r. reflexivity.
  - exists [x]. reflexivity.
  - rewrite zlen_app. unfold zlen at 2. cbn. lia.
Qed.

Lemma add_with_id_spec dl dc sl sc source sid name rg b : builder_inv b ->
  let '(raw, b') := add_with_id dl dc sl sc source sid name rg b in
  builder_inv b' /\ ext b b' /\ same_rest b b' /\ b_tokens b' = b_tokens b ++ [raw]
  /\ zlen (b_sources b') <= zlen (b_sources b) + 1 /\ zlen (b_names b') <= zlen (b_names b) + 1
  /\ t_dl raw = dl /\ t_dc raw = dc /\ t_sl raw = sl /\ t_sc raw = sc /\ t_range raw = rg
  /\ match source with
     | Some s => 0 <= t_src raw < zlen (b_sources b') /\ znth_opt (b_sources b') (t_src raw) = Some s
     | None => t_src raw = NONE end
  /\ match name with
     | Some s => 0 <= t_name raw < zlen (b_names b') /\ znth_opt (b_names b') (t_name raw) = Some s
     | None => t_name raw = NONE end.
Proof.
  intros Hinv. unfold add_with_id.
  assert (Hsrc : let '(src_id, b1) := match source with Some s => add_source_with_id s sid b | None => (NONE, b) end in
     builder_inv b1 /\ (exists xs, b_sources b1 = b_sources b ++ xs) /\ zlen (b_sources b1) <= zlen (b_sources b) + 1
     /\ b_names b1 = b_names b /\ b_tokens b1 = b_tokens b /\ same_rest b b1
     /\ match source with Some s => 0 <= src_id < zlen (b_sources b1) /\ znth_opt (b_sources b1) src_id = Some s | None => src_id = NONE end).
  { destruct source as [s|].
    - pose proof (add_source_spec s sid b Hinv) as H1. pose proof (add_source_shape s sid b) as H2.
      destruct (add_source_with_id s sid b) as [id b1]. destruct H1 as (I & _ & Hidx & _ & Hn & Ht). destruct H2 as [Hg Hr].
      destruct (grow_cases _ _ _ Hg) as [Hx Hl]. pose proof (index_of_znth _ _ _ Hidx) as Hz.
      split; [exact I|]. split; [exact Hx|]. split; [exact Hl|]. split; [exact Hn|]. split; [exact Ht|]. split; [exact Hr|].
      split; [apply (znth_opt_bound _ _ _ Hz)|exact Hz].
    - split; [assumption|]. split; [exists []; rewrite app_nil_r; reflexivity|]. split; [lia|]. split; [reflexivity|]. split; [reflexivity|].
      split; [unfold same_rest; auto 10|reflexivity]. }
  destruct (match source with Some s => add_source_with_id s sid b | None => (NONE, b) end) as [src_id b1].
  destruct Hsrc as (I1 & Hx1 & Hl1 & Hn1 & Ht1 & Hr1 & Hs1).
  assert (Hnm : let '(name_id, b2) := match name with Some n => add_name n b1 | None => (NONE, b1) end in
     builder_inv b2 /\ (exists ys, b_names b2 = b_names b1 ++ ys) /\ zlen (b_names b2) <= zlen (b_names b1) + 1
     /\ b_sources b2 = b_sources b1 /\ b_tokens b2 = b_tokens b1 /\ same_rest b1 b2
     /\ match name with Some s => 0 <= name_id < zlen (b_names b2) /\ znth_opt (b_names b2) name_id = Some s | None => name_id = NONE end).
  { destruct name as [s|].
    - pose proof (add_name_spec s b1 I1) as H1. pose proof (add_name_shape s b1) as H2.
      destruct (add_name s b1) as [id b2]. destruct H1 as (I & _ & Hidx & _ & Hn & Ht). destruct H2 as [Hg Hr].
      destruct (grow_cases _ _ _ Hg) as [Hx Hl]. pose proof (index_of_znth _ _ _ Hidx) as Hz.
      split; [exact I|]. split; [exact Hx|]. split; [exact Hl|]. split; [exact Hn|]. split; [exact Ht|]. split; [exact Hr|].
      split; [apply (znth_opt_bound _ _ _ Hz)|exact Hz].
    - split; [assumption|]. split; [exists []; rewrite app_nil_r; reflexivity|]. split; [lia|]. split; [reflexivity|]. split; [reflexivity|].
      split; [unfold same_rest; auto 10|reflexivity]. }
  destruct (match name with Some n => add_name n b1 | None => (NONE, b1) end) as [name_id b2].
  destruct Hnm as (I2 & Hy2 & Hl2 & Hs2 & Ht2 & Hr2 & Hn2).
  unfold push_token. cbn [b_sources b_names b_tokens t_dl t_dc t_sl t_sc t_range t_src t_name].
  destruct Hr1 as (R1 & R2 & R3 & R4 & R5). destruct Hr2 as (Q1 & Q2 & Q3 & Q4 & Q5).
  split; [exact I2|]. split.
  { split; [rewrite Hs2; exact Hx1|rewrite <- Hn1; exact Hy2]. }
  split. { unfold same_rest; cbn. repeat split; congruence. }
  split; [rewrite Ht2, Ht1; reflexivity|].
  split; [rewrite Hs2; exact Hl1|]. split; [rewrite <- Hn1; exact Hl2|].
  repeat (split; [reflexivity|]). split.
  - rewrite Hs2. exact Hs1.
  - exact Hn2.
Qed.

Lemma add_spec dl dc sl sc source name rg b : builder_inv b ->
  let '(raw, b') := add dl dc sl sc source name rg b in
  builder_inv b' /\ ext b b' /\ same_rest b b' /\ b_tokens b' = b_tokens b ++ [raw]
  /\ zlen (b_sources b') <= zlen (b_sources b) + 1 /\ zlen (b_names b') <= zlen (b_names b) + 1
  /\ t_dl raw = dl /\ t_dc raw = dc /\ t_sl raw = sl /\ t_sc raw = sc /\ t_range raw = rg
  /\ match source with
     | Some s => 0 <= t_src raw < zlen (b_sources b') /\ znth_opt (b_sources b') (t_src raw) = Some s
     | None => t_src raw = NONE end
  /\ match name with
     | Some s => 0 <= t_name raw < zlen (b_names b') /\ znth_opt (b_names b') (t_name raw) = Some s
     | None => t_name raw = NONE end.
Proof. apply add_with_id_spec. Qed.

(* ---- contents / ignore steps never panic and leave names, sources and tokens alone ---- *)
Lemma resize_opt_length {A} (l : list (option A)) n : length (resize_opt l n) = n.
Proof. revert l; induction n as [|n IH]; intros l; cbn [resize_opt]; [reflexivity|]. destruct l; cbn [length]; rewrite IH; reflexivity. Qed.
Lemma zset_nth_some {A} (l : list A) i x : 0 <= i < zlen l -> exists r, zset_nth l i x = Some r.
Proof.
  revert i. induction l as [|y l IH]; intros i Hi; [unfold zlen in Hi; cbn in Hi; lia|].
  rewrite zlen_cons in Hi. cbn [zset_nth]. destruct (Z.eqb_spec i 0); [eauto|]. destruct (Z.ltb_spec i 0); [lia|].
  destruct (IH (i - 1)) as [r Hr]; [lia|]. rewrite Hr. eauto.
Qed.
Lemma set_contents_ok id c b : 0 <= id < zlen (b_sources b) -> id <> NONE ->
  exists b', b_set_source_contents id c b = Ok b' /\ b_sources b' = b_sources b /\ b_names b' = b_names b
             /\ b_tokens b' = b_tokens b /\ b_source_map b' = b_source_map b /\ b_name_map b' = b_name_map b
             /\ b_root b' = b_root b /\ b_file b' = b_file b /\ b_debug_id b' = b_debug_id b.
Proof.
  intros Hid Hne. unfold b_set_source_contents. destruct (Z.eqb_spec id NONE); [contradiction|].
  set (cs := if Nat.ltb _ _ then _ else _).
  assert (Hlen : zlen (b_sources b) <= zlen cs).
  { unfold cs, zlen. destruct (Nat.ltb_spec (length (b_contents b)) (length (b_sources b))); [rewrite resize_opt_length|]; lia. }
  destruct (zset_nth_some cs id c) as [r Hr]; [lia|]. rewrite Hr. eexists. split; [reflexivity|]. cbn. auto 10.
Qed.

Lemma inv_same b b' : b_sources b' = b_sources b -> b_names b' = b_names b ->
  b_source_map b' = b_source_map b -> b_name_map b' = b_name_map b -> builder_inv b -> builder_inv b'.
Proof. intros H1 H2 H3 H4 [I1 I2]. unfold builder_inv, table_ok. rewrite H1, H2, H3, H4. split; assumption. Qed.

(* ---- the token loop of flatten ---- *)
Lemma flatten_tokens_spec m off ts : forall b,
  builder_inv b -> ids_ok b ->
  zlen (b_sources b) + zlen ts < NONE -> zlen (b_names b) + zlen ts < NONE ->
  match flatten_tokens m off ts b with
  | Panic _ => False
  | Err e => e = ECannotFlatten
  | Ok b' => builder_inv b' /\ ids_ok b' /\ ext b b'
             /\ zlen (b_sources b') <= zlen (b_sources b) + zlen ts /\ zlen (b_names b') <= zlen (b_names b) + zlen ts
             /\ b_root b' = b_root b /\ b_file b' = b_file b /\ b_debug_id b' = b_debug_id b
             /\ exists ts', b_tokens b' = b_tokens b ++ ts' /\ map (bview b') ts' = map (sview m off) ts
  end.
Proof.
  induction ts as [|t ts IH]; intros b Hinv Hids Hsz Hnz; cbn [flatten_tokens].
  - split; [exact Hinv|]. split; [exact Hids|]. split; [apply ext_refl|].
    split; [unfold zlen; cbn; lia|]. split; [unfold zlen; cbn; lia|]. split; [reflexivity|]. split; [reflexivity|]. split; [reflexivity|].
    exists []. rewrite app_nil_r. split; reflexivity.
  - rewrite zlen_cons in Hsz, Hnz. pose proof (zlen_nonneg ts) as Hts.
    set (oc := if t_dl t =? 0 then t_dc t + snd off else t_dc t). set (ol := t_dl t + fst off).
    destruct (negb (is_u32 oc) || negb (is_u32 ol)); [reflexivity|].
    pose proof (add_spec ol oc (t_sl t) (t_sc t) (tok_source m t) (tok_name m t) (t_range t) b Hinv) as Ha.
    destruct (add ol oc (t_sl t) (t_sc t) (tok_source m t) (tok_name m t) (t_range t) b) as [raw b1].
    destruct Ha as (I1 & E1 & R1 & T1 & LS1 & LN1 & Vdl & Vdc & Vsl & Vsc & Vrg & Vsrc & Vnm).
    destruct R1 as (_ & _ & Rroot & Rfile & Rdbg).
    (* contents step *)
    assert (Hc : exists b2, (if (match tok_source m t with Some _ => true | None => false end) && negb (b_has_source_contents b1 (t_src raw))
                 then b_set_source_contents (t_src raw) (get_source_contents m (t_src t)) b1 else Ok b1) = Ok b2
              /\ b_sources b2 = b_sources b1 /\ b_names b2 = b_names b1 /\ b_tokens b2 = b_tokens b1
              /\ b_source_map b2 = b_source_map b1 /\ b_name_map b2 = b_name_map b1
              /\ b_root b2 = b_root b1 /\ b_file b2 = b_file b1 /\ b_debug_id b2 = b_debug_id b1).
    { destruct (tok_source m t) as [s|]; cbn [andb].
      - destruct (negb (b_has_source_contents b1 (t_src raw))).
        + destruct Vsrc as [Vb _]. apply set_contents_ok; [exact Vb|]. unfold NONE in *. lia.
        + exists b1. auto 10.
      - exists b1. auto 10. }
    destruct Hc as (b2 & -> & S2 & N2 & T2 & SM2 & NM2 & Ro2 & F2 & D2). cbn [bind].
    set (b3 := if existsb (Z.eqb (t_src t)) (sm_ignore m) then b_add_to_ignore_list (t_src raw) b2 else b2).
    assert (H3 : b_sources b3 = b_sources b2 /\ b_names b3 = b_names b2 /\ b_tokens b3 = b_tokens b2
                 /\ b_source_map b3 = b_source_map b2 /\ b_name_map b3 = b_name_map b2
                 /\ b_root b3 = b_root b2 /\ b_file b3 = b_file b2 /\ b_debug_id b3 = b_debug_id b2).
    { unfold b3. destruct (existsb _ _); cbn; auto 10. }
    destruct H3 as (S3 & N3 & T3 & SM3 & NM3 & Ro3 & F3 & D3).
    assert (I3 : builder_inv b3) by (apply (inv_same b1); congruence).
    assert (E13 : ext b1 b3) by (split; exists []; rewrite app_nil_r; congruence).
    assert (E03 : ext b b3) by (eapply ext_trans; eassumption).
    assert (Hraw_ok : id_ok (zlen (b_sources b3)) (t_src raw) /\ id_ok (zlen (b_names b3)) (t_name raw)).
    { rewrite S3, S2, N3, N2. split; unfold id_ok.
      - destruct (tok_source m t); [right; apply Vsrc|left; exact Vsrc].
      - destruct (tok_name m t); [right; apply Vnm|left; exact Vnm]. }
    assert (Hids3 : ids_ok b3).
    { unfold ids_ok. rewrite T3, T2, T1. apply Forall_app. split.
      - assert (Hx : ids_ok (mkBld (b_file b3) (b_name_map b3) (b_names b3) (b_tokens b) (b_source_map b3) (b_root b3) (b_sources b3) (b_contents b3) (b_mapping b3) (b_ignore b3) (b_debug_id b3))).
        { apply (ids_ok_ext b); [exact E03|reflexivity|exact Hids]. }
        exact Hx.
      - constructor; [exact Hraw_ok|constructor]. }
    assert (LS3 : zlen (b_sources b3) <= zlen (b_sources b) + 1) by (rewrite S3, S2; exact LS1).
    assert (LN3 : zlen (b_names b3) <= zlen (b_names b) + 1) by (rewrite N3, N2; exact LN1).
    specialize (IH b3 I3 Hids3 ltac:(lia) ltac:(lia)).
    destruct (flatten_tokens m off ts b3) as [b'|e|s]; [|exact IH|exact IH].
    destruct IH as (I' & Hids' & E3' & LS' & LN' & Ro' & F' & D' & ts' & Tk' & Vw').
    split; [exact I'|]. split; [exact Hids'|]. split; [eapply ext_trans; eassumption|].
    rewrite !zlen_cons. split; [lia|]. split; [lia|]. split; [congruence|]. split; [congruence|]. split; [congruence|].
    exists (raw :: ts'). split.
    + rewrite Tk', T3, T2, T1, <- app_assoc. reflexivity.
    + cbn [map]. f_equal; [|exact Vw'].
      rewrite (bview_ext b3 b' raw E3' (proj1 Hraw_ok) (proj2 Hraw_ok)).
      unfold bview, sview, mview, shift, b_src_of, b_name_of. cbn [t_dl t_dc t_sl t_sc t_src t_name t_range].
      rewrite Vdl, Vdc, Vsl, Vsc, Vrg, S3, S2, N3, N2. fold oc ol.
      assert (Hs : (if t_src raw =? NONE then None else znth_opt (b_sources b1) (t_src raw)) = tok_source m t).
      { unfold tok_source in *. cbn [t_src]. destruct (if t_src t =? NONE then None else get_source m (t_src t)) as [s|].
        - destruct Vsrc as [Vb Vz]. destruct (Z.eqb_spec (t_src raw) NONE); [unfold NONE in *; lia|exact Vz].
        - rewrite Vsrc, Z.eqb_refl. reflexivity. }
      assert (Hn : (if t_name raw =? NONE then None else znth_opt (b_names b1) (t_name raw)) = tok_name m t).
      { unfold tok_name in *. cbn [t_name]. destruct (if t_name t =? NONE then None else get_name m (t_name t)) as [s|].
        - destruct Vnm as [Vb Vz]. destruct (Z.eqb_spec (t_name raw) NONE); [unfold NONE in *; lia|exact Vz].
        - rewrite Vnm, Z.eqb_refl. reflexivity. }
      rewrite Hs, Hn. reflexivity.
Qed.

(* ---- the section loop, for sections that hold regular maps ---- *)
Definition mk (s : pos * smap) : pos * option bytes * option dmap := (fst s, None, Some (DRegular (snd s))).
Fixpoint go_reg (secs : list (pos * smap)) (b : builder) : outcome builder :=
  match secs with
  | [] => Ok b
  | s :: r => do b' <- flatten_tokens (snd s) (fst s) (sm_tokens (snd s)) b; go_reg r b'
  end.
Lemma flatten_regular f file secs :
  flatten (S f) file (map mk secs) = do b <- go_reg secs (builder_new file); Ok (into_sourcemap b).
Proof.
  cbn [flatten]. generalize (builder_new file). induction secs as [|s r IH]; intros b; cbn [map mk go_reg].
  - reflexivity.
  - cbn [bind]. destruct (flatten_tokens (snd s) (fst s) (sm_tokens (snd s)) b) as [b'|e|p]; cbn [bind]; [apply IH|reflexivity|reflexivity].
Qed.

Definition sec_views (s : pos * smap) : list view := map (sview (snd s) (fst s)) (sm_tokens (snd s)).
Definition total_tokens (secs : list (pos * smap)) : Z := zlen (concat (map (fun s => sm_tokens (snd s)) secs)).

Lemma bview_stable b b' : ids_ok b -> ext b b' -> map (bview b') (b_tokens b) = map (bview b) (b_tokens b).
Proof.
  intros Hids He. unfold ids_ok in Hids. induction (b_tokens b) as [|t ts IH]; [reflexivity|].
  inversion Hids as [|? ? [H1 H2] Hr]; subst. cbn [map]. f_equal; [apply bview_ext; assumption|apply IH; exact Hr].
Qed.

Lemma go_reg_spec secs : forall b,
  builder_inv b -> ids_ok b ->
  zlen (b_sources b) + total_tokens secs < NONE -> zlen (b_names b) + total_tokens secs < NONE ->
  match go_reg secs b with
  | Panic _ => False
  | Err e => e = ECannotFlatten
  | Ok b' => builder_inv b' /\ ids_ok b' /\ ext b b'
             /\ b_root b' = b_root b /\ b_file b' = b_file b /\ b_debug_id b' = b_debug_id b
             /\ map (bview b') (b_tokens b') = map (bview b) (b_tokens b) ++ concat (map sec_views secs)
  end.
Proof.
  induction secs as [|s r IH]; intros b Hinv Hids Hsz Hnz; cbn [go_reg].
  - split; [exact Hinv|]. split; [exact Hids|]. split; [apply ext_refl|]. repeat (split; [reflexivity|]).
    cbn [map concat]. rewrite app_nil_r. reflexivity.
  - unfold total_tokens in Hsz, Hnz. cbn [map concat] in Hsz, Hnz. rewrite zlen_app in Hsz, Hnz. fold (total_tokens r) in Hsz, Hnz.
    pose proof (zlen_nonneg (sm_tokens (snd s))) as P1.
    assert (P2 : 0 <= total_tokens r) by apply zlen_nonneg.
    pose proof (flatten_tokens_spec (snd s) (fst s) (sm_tokens (snd s)) b Hinv Hids ltac:(lia) ltac:(lia)) as H1.
    destruct (flatten_tokens (snd s) (fst s) (sm_tokens (snd s)) b) as [b1|e|p]; cbn [bind]; [|exact H1|exact H1].
    destruct H1 as (I1 & Hids1 & E1 & LS1 & LN1 & Ro1 & F1 & D1 & ts1 & Tk1 & Vw1).
    specialize (IH b1 I1 Hids1 ltac:(lia) ltac:(lia)).
    destruct (go_reg r b1) as [b'|e|p]; [|exact IH|exact IH].
    destruct IH as (I' & Hids' & E' & Ro' & F' & D' & Vw').
    split; [exact I'|]. split; [exact Hids'|]. split; [eapply ext_trans; eassumption|].
    split; [congruence|]. split; [congruence|]. split; [congruence|].
    rewrite Vw'. cbn [map concat]. rewrite app_assoc. f_equal.
    rewrite Tk1, map_app. f_equal; [|exact Vw1].
    pose proof (bview_stable b b1 Hids E1) as Hst. exact Hst.
Qed.

(* ---- into_sourcemap keeps what the views read ---- *)
Lemma fold_ignore_fields l : forall m,
  let m' := fold_left (fun m id => add_to_ignore_list id m) l m in
  sm_tokens m' = sm_tokens m /\ sm_sources m' = sm_sources m /\ sm_names m' = sm_names m /\ sm_prefixed m' = sm_prefixed m.
Proof. induction l as [|x l IH]; intros m; cbn [fold_left]; [auto|]. destruct (IH (add_to_ignore_list x m)) as (H1 & H2 & H3 & H4). cbn in *. auto. Qed.

Lemma into_sourcemap_views b : b_root b = None ->
  sm_tokens (into_sourcemap b) = isort tok_key (b_tokens b)
  /\ forall t, mview (into_sourcemap b) t = bview b t.
Proof.
  intros Hroot. unfold into_sourcemap. rewrite Hroot.
  match goal with |- context [fold_left ?f ?l ?m] => destruct (fold_ignore_fields l m) as (H1 & H2 & H3 & H4) end.
  cbn [set_source_root set_debug_id sm_new sm_tokens sm_sources sm_names sm_prefixed] in *.
  split; [exact H1|]. intros t. unfold mview, bview, tok_source, tok_name, get_source, get_name, b_src_of, b_name_of.
  rewrite H2, H3, H4. reflexivity.
Qed.

Lemma insert_map {A B} (k : A -> pos) (k' : B -> pos) (f : A -> B) : (forall x, k' (f x) = k x) ->
  forall x l, map f (insert k x l) = insert k' (f x) (map f l).
Proof. intros Hk x l. induction l as [|y l IH]; cbn [insert map]; [reflexivity|]. rewrite !Hk. destruct (pos_leb (k x) (k y)); cbn [map]; [reflexivity|]. rewrite IH. reflexivity. Qed.
Lemma isort_map {A B} (k : A -> pos) (k' : B -> pos) (f : A -> B) : (forall x, k' (f x) = k x) ->
  forall l, map f (isort k l) = isort k' (map f l).
Proof. intros Hk l. induction l as [|x l IH]; [reflexivity|]. rewrite isort_cons. cbn [map]. rewrite isort_cons, <- IH. apply insert_map; exact Hk. Qed.

Theorem C08_flatten_views f file secs fm :
  total_tokens secs < NONE ->
  flatten (S f) file (map mk secs) = Ok fm ->
  map (mview fm) (sm_tokens fm) = isort view_key (concat (map sec_views secs)).
Proof.
  intros Hsz Hf. rewrite flatten_regular in Hf.
  pose proof (go_reg_spec secs (builder_new file) (builder_new_inv file)) as Hg.
  assert (Hids0 : ids_ok (builder_new file)) by constructor.
  specialize (Hg Hids0). cbn [builder_new b_sources b_names] in Hg.
  assert (Hz0 : zlen (@nil bytes) = 0) by reflexivity. rewrite Hz0 in Hg.
  specialize (Hg ltac:(lia) ltac:(lia)).
  destruct (go_reg secs (builder_new file)) as [b'|e|p]; cbn [bind] in Hf; [|discriminate|discriminate].
  inversion Hf; subst fm. destruct Hg as (_ & _ & _ & Hroot & _ & _ & Hv).
  destruct (into_sourcemap_views b' Hroot) as [Ht Hm]. rewrite Ht.
  rewrite (map_ext _ _ Hm). rewrite (isort_map tok_key view_key (bview b')) by reflexivity.
  rewrite Hv. reflexivity.
Qed.
Print Assumptions C08_flatten_views.
