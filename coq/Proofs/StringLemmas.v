From SM Require Import Model.Base.

Definition nosep (sep : Z) (s : bytes) : Prop := Forall (fun c => c <> sep) s.

Definition join (sep : Z) (xs : list bytes) : bytes :=
  match xs with
  | [] => []
  | x :: r => x ++ flat_map (cons sep) r
  end.

Lemma split_on_nonnil sep s : split_on sep s <> [].
Proof. destruct s as [|c s]; cbn [split_on]; [discriminate|]. destruct (c =? sep); [discriminate|].
  destruct (split_on sep s); discriminate. Qed.

Lemma split_on_nosep sep a : nosep sep a -> split_on sep a = [a].
Proof.
  induction 1 as [|c a Hc Ha IH]; cbn [split_on]; [reflexivity|].
  destruct (Z.eqb_spec c sep); [contradiction|]. rewrite IH. reflexivity.
Qed.
Lemma split_on_app sep a b : nosep sep a ->
  split_on sep (a ++ b) = match split_on sep b with h :: t => (a ++ h) :: t | [] => [a] end.
Proof.
  induction 1 as [|c a Hc Ha IH]; cbn [split_on app].
  - destruct (split_on sep b) eqn:E; [exfalso; eapply split_on_nonnil; eauto | reflexivity].
  - destruct (Z.eqb_spec c sep); [contradiction|]. rewrite IH.
    destruct (split_on sep b); reflexivity.
Qed.
Lemma split_on_sep sep a b : nosep sep a -> split_on sep (a ++ sep :: b) = a :: split_on sep b.
Proof.
  intros Ha. rewrite split_on_app by exact Ha. cbn [split_on]. rewrite Z.eqb_refl. rewrite app_nil_r. reflexivity.
Qed.
Lemma split_on_cons_sep sep b : split_on sep (sep :: b) = [] :: split_on sep b.
Proof. cbn [split_on]. rewrite Z.eqb_refl. reflexivity. Qed.

Lemma join_snoc sep xs y : xs <> [] -> join sep (xs ++ [y]) = join sep xs ++ sep :: y.
Proof.
  destruct xs as [|x r]; intros Hne; [contradiction|].
  cbn [join app]. rewrite flat_map_app. cbn [flat_map]. rewrite app_nil_r, app_assoc. reflexivity.
Qed.
Lemma join_single sep x : join sep [x] = x.
Proof. cbn. apply app_nil_r. Qed.
Lemma join_cons2 sep x y r : join sep (x :: y :: r) = x ++ sep :: join sep (y :: r).
Proof. reflexivity. Qed.
Lemma nosep_join sep sep' xs : sep <> sep' -> Forall (nosep sep) xs -> nosep sep (join sep' xs).
Proof.
  intros Hne Hall. destruct xs as [|x r]; [constructor|].
  inversion Hall as [|? ? Hx Hr]; subst. clear Hall. cbn [join]. unfold nosep in *. apply Forall_app. split; [exact Hx|].
  induction Hr as [|y r Hy Hr IH]; [constructor|]. cbn [flat_map app]. constructor; [congruence|].
  apply Forall_app. split; [exact Hy | exact IH].
Qed.
Lemma split_join sep xs : xs <> [] -> Forall (nosep sep) xs -> split_on sep (join sep xs) = xs.
Proof.
  induction xs as [|x xs IH]; intros Hne Hall; [contradiction|].
  inversion Hall as [|? ? Hx Hxs]; subst.
  destruct xs as [|x' xs'].
  - rewrite join_single. apply split_on_nosep; exact Hx.
  - rewrite join_cons2, split_on_sep by exact Hx. rewrite IH; [reflexivity|discriminate|exact Hxs].
Qed.
Lemma split_on_nil_iff sep s : split_on sep s = [[]] <-> s = [].
Proof.
  split; [|intros ->; reflexivity].
  destruct s as [|c s]; [reflexivity|]. cbn [split_on].
  destruct (c =? sep).
  - intros H. inversion H. exfalso. eapply split_on_nonnil; eauto.
  - destruct (split_on sep s); discriminate.
Qed.
