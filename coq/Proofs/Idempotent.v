(* C01, last sentence: serialising a map, decoding the result and serialising again reproduces the same RawSourceMap
   value (hence the same bytes, serde_json's printer being a function of the value).
   The writers (mappings and rangeMappings) read a token only through its written fields (`norm`), and skipping the
   tokens that `dedup` removes changes nothing. *)
From SM Require Import Model.Base Model.Mappings Model.SourceMap Model.Raw
     Proofs.CodecEvents Proofs.CodecCore Proofs.CodecTheorems Proofs.RoundtripProofs.

Lemma has_source_norm nn t : has_source (norm nn t) = has_source t.
Proof.
  unfold norm. destruct (has_source t) eqn:Hs; unfold has_source in *; cbn [t_src]; [exact Hs|].
  unfold NONE. rewrite Z.eqb_refl. reflexivity.
Qed.
Lemma has_name_norm nn t : has_source t = true -> has_name nn (norm nn t) = has_name nn t.
Proof.
  intros Hs. unfold norm. rewrite Hs. destruct (has_name nn t) eqn:Hn; unfold has_name in *; cbn [t_name]; [exact Hn|].
  unfold NONE. rewrite Z.eqb_refl. reflexivity.
Qed.
Lemma norm_idem nn t : norm nn (norm nn t) = norm nn t.
Proof.
  unfold norm at 1. rewrite has_source_norm. destruct (has_source t) eqn:Hs.
  - rewrite (has_name_norm nn t Hs). unfold norm. rewrite Hs. cbn [t_dl t_dc t_sl t_sc t_src t_name t_range].
    destruct (has_name nn t); reflexivity.
  - unfold norm. rewrite Hs. reflexivity.
Qed.

(* "would be written as the same segment" is equality of the written fields *)
Lemma same_iff_norm nn a b : is_same_segment nn a b = true <-> norm nn a = norm nn b.
Proof.
  unfold is_same_segment, norm. split.
  - intros H.
    apply andb_true_iff in H; destruct H as [H Hrest].
    apply andb_true_iff in H; destruct H as [H Hhs].
    apply andb_true_iff in H; destruct H as [H Hrg].
    apply andb_true_iff in H; destruct H as [Hdl Hdc].
    apply Z.eqb_eq in Hdl. apply Z.eqb_eq in Hdc. apply Bool.eqb_prop in Hrg. apply Bool.eqb_prop in Hhs.
    rewrite <- Hhs.
    destruct (has_source a) eqn:Hs; cbn [negb orb] in Hrest.
    + apply andb_true_iff in Hrest; destruct Hrest as [Hrest Hnm].
      apply andb_true_iff in Hrest; destruct Hrest as [Hrest Hhn].
      apply andb_true_iff in Hrest; destruct Hrest as [Hrest Hsc].
      apply andb_true_iff in Hrest; destruct Hrest as [Hsrc Hsl].
      apply Z.eqb_eq in Hsrc. apply Z.eqb_eq in Hsl. apply Z.eqb_eq in Hsc. apply Bool.eqb_prop in Hhn.
      rewrite <- Hhn. destruct (has_name nn a) eqn:Hn; cbn [negb orb] in Hnm.
      * apply Z.eqb_eq in Hnm. f_equal; congruence.
      * f_equal; congruence.
    + f_equal; congruence.
  - intros H.
    assert (Hsrc : has_source a = has_source b).
    { destruct (has_source a) eqn:Ha, (has_source b) eqn:Hb; try reflexivity; exfalso; inversion H as [[H1 H2 H3 H4 H5 H6 H7]];
        unfold has_source in *; [rewrite H5 in Ha|rewrite <- H5 in Hb]; unfold NONE in *; rewrite Z.eqb_refl in *; discriminate. }
    rewrite <- Hsrc in H. destruct (has_source a) eqn:Hs.
    + inversion H as [[H1 H2 H3 H4 H5 H6 H7]]. rewrite <- Hsrc. cbn [negb orb].
      assert (Hname : has_name nn a = has_name nn b).
      { destruct (has_name nn a) eqn:Ha, (has_name nn b) eqn:Hb; try reflexivity; exfalso;
          unfold has_name in *; [rewrite H6 in Ha|rewrite <- H6 in Hb]; unfold NONE in *; rewrite Z.eqb_refl in *; discriminate. }
      rewrite H1, H2, H3, H4, H5, H7, !Z.eqb_refl, !Bool.eqb_reflx. cbn [andb]. rewrite <- Hname, Bool.eqb_reflx. cbn [andb].
      rewrite <- Hname in H6. destruct (has_name nn a); cbn [negb orb]; [rewrite H6, Z.eqb_refl|]; reflexivity.
    + inversion H as [[H1 H2 H7]]. rewrite <- Hsrc, H1, H2, H7, !Z.eqb_refl, !Bool.eqb_reflx. reflexivity.
Qed.
Lemma same_norm nn a b : is_same_segment nn (norm nn a) (norm nn b) = is_same_segment nn a b.
Proof.
  destruct (is_same_segment nn a b) eqn:E.
  - apply same_iff_norm. rewrite !norm_idem. apply same_iff_norm. exact E.
  - destruct (is_same_segment nn (norm nn a) (norm nn b)) eqn:E2; [|reflexivity].
    apply same_iff_norm in E2. rewrite !norm_idem in E2. apply same_iff_norm in E2. congruence.
Qed.
Lemma same_prev_norm nn p p' t : norm nn p = norm nn p' -> is_same_segment nn p t = is_same_segment nn p' t.
Proof.
  intros H. destruct (is_same_segment nn p t) eqn:E.
  - symmetry. apply same_iff_norm. rewrite <- H. apply same_iff_norm. exact E.
  - destruct (is_same_segment nn p' t) eqn:E2; [|reflexivity].
    apply same_iff_norm in E2. rewrite <- H in E2. apply same_iff_norm in E2. congruence.
Qed.
Lemma norm_fields nn t : t_dl (norm nn t) = t_dl t /\ t_dc (norm nn t) = t_dc t /\ t_range (norm nn t) = t_range t.
Proof. unfold norm. destruct (has_source t); repeat split; reflexivity. Qed.

Definition onorm nn (p : option rtoken) : option rtoken := option_map (norm nn) p.

(* ---------- the mappings writer reads tokens through norm ---------- *)
Lemma ser_token_norm nn prev t st out :
  ser_token nn (onorm nn prev) (norm nn t) st out = ser_token nn prev t st out.
Proof.
  unfold ser_token. destruct (norm_fields nn t) as (Hdl & Hdc & _). rewrite Hdl, Hdc, has_source_norm.
  assert (Hskip : match onorm nn prev with Some p => is_same_segment nn p (norm nn t) | None => false end
                  = match prev with Some p => is_same_segment nn p t | None => false end).
  { destruct prev as [p|]; cbn [onorm option_map]; [apply same_norm|reflexivity]. }
  rewrite Hskip.
  assert (Hsome : match onorm nn prev with Some _ => out ++ [44] | None => out end = match prev with Some _ => out ++ [44] | None => out end)
    by (destruct prev; reflexivity).
  rewrite Hsome.
  destruct (has_source t) eqn:Hs; [|reflexivity].
  rewrite (has_name_norm nn t Hs). unfold norm. rewrite Hs. cbn [t_src t_sl t_sc t_name t_dl t_dc].
  destruct (has_name nn t); reflexivity.
Qed.
Lemma ser_tokens_norm nn : forall ts prev st out,
  ser_tokens nn (onorm nn prev) (map (norm nn) ts) st out = ser_tokens nn prev ts st out.
Proof.
  induction ts as [|t ts IH]; intros prev st out; cbn [map ser_tokens]; [reflexivity|].
  rewrite ser_token_norm. destruct (ser_token nn prev t st out) as [st' out']. apply (IH (Some t)).
Qed.

(* ---------- and so does the rangeMappings writer ---------- *)
Lemma rmi_token_norm nn prev t st : rmi_token nn (onorm nn prev) (norm nn t) st = rmi_token nn prev t st.
Proof.
  unfold rmi_token. destruct (norm_fields nn t) as (Hdl & _ & Hr). rewrite Hdl, Hr.
  assert (Hskip : match onorm nn prev with Some p => is_same_segment nn p (norm nn t) | None => false end
                  = match prev with Some p => is_same_segment nn p t | None => false end).
  { destruct prev as [p|]; cbn [onorm option_map]; [apply same_norm|reflexivity]. }
  rewrite Hskip. reflexivity.
Qed.
Lemma rmi_tokens_norm nn : forall ts prev st,
  rmi_tokens nn (onorm nn prev) (map (norm nn) ts) st = rmi_tokens nn prev ts st.
Proof.
  induction ts as [|t ts IH]; intros prev st; cbn [map rmi_tokens]; [reflexivity|].
  rewrite rmi_token_norm. apply (IH (Some t)).
Qed.

(* ---------- dropping the tokens dedup removes changes neither output ---------- *)
Lemma dedup_prev_norm nn : forall ts p p', norm nn p = norm nn p' -> dedup nn (Some p) ts = dedup nn (Some p') ts.
Proof.
  intros ts p p' H. destruct ts as [|t ts]; [reflexivity|]. cbn [dedup]. rewrite (same_prev_norm nn p p' t H). reflexivity.
Qed.
Lemma ser_tokens_prev_norm nn ts p p' st out : norm nn p = norm nn p' ->
  ser_tokens nn (Some p) ts st out = ser_tokens nn (Some p') ts st out.
Proof.
  intros H. rewrite <- (ser_tokens_norm nn ts (Some p)), <- (ser_tokens_norm nn ts (Some p')). cbn [onorm option_map]. rewrite H. reflexivity.
Qed.
Lemma rmi_tokens_prev_norm nn ts p p' st : norm nn p = norm nn p' ->
  rmi_tokens nn (Some p) ts st = rmi_tokens nn (Some p') ts st.
Proof.
  intros H. rewrite <- (rmi_tokens_norm nn ts (Some p)), <- (rmi_tokens_norm nn ts (Some p')). cbn [onorm option_map]. rewrite H. reflexivity.
Qed.

Lemma ser_token_line nn prev t st out :
  (match prev with Some p => is_same_segment nn p t | None => false end) = false ->
  e_line (fst (ser_token nn prev t st out)) = t_dl t.
Proof.
  intros Hns. unfold ser_token. rewrite Hns, andb_false_r.
  destruct (has_source t); [destruct (has_name nn t)|]; reflexivity.
Qed.

Lemma ser_tokens_dedup nn : forall ts prev st out,
  (forall p, prev = Some p -> t_dl p = e_line st) ->
  ser_tokens nn prev (dedup nn prev ts) st out = ser_tokens nn prev ts st out.
Proof.
  induction ts as [|t ts IH]; intros prev st out Hp; [destruct prev; reflexivity|].
  destruct prev as [p|].
  - cbn [dedup]. destruct (is_same_segment nn p t) eqn:Es.
    + (* t is skipped by the writer and dropped by dedup *)
      assert (Hn : norm nn p = norm nn t) by (apply same_iff_norm; exact Es).
      assert (Hdl : t_dl t = e_line st).
      { rewrite <- (Hp p eq_refl). destruct (norm_fields nn p) as (<- & _). destruct (norm_fields nn t) as (<- & _). rewrite Hn. reflexivity. }
      cbn [ser_tokens]. unfold ser_token. rewrite Hdl, Z.eqb_refl, Es. cbn [negb andb].
      rewrite <- (IH (Some t) st out) by (intros q Hq; inversion Hq; subst; exact Hdl).
      apply ser_tokens_prev_norm. exact Hn.
    + cbn [ser_tokens].
      pose proof (ser_token_line nn (Some p) t st out Es) as Hl.
      destruct (ser_token nn (Some p) t st out) as [st' out']. cbn [fst] in Hl.
      apply (IH (Some t)). intros q Hq; inversion Hq; subst. symmetry; exact Hl.
  - cbn [dedup ser_tokens].
    pose proof (ser_token_line nn None t st out eq_refl) as Hl.
    destruct (ser_token nn None t st out) as [st' out']. cbn [fst] in Hl.
    apply (IH (Some t)). intros q Hq; inversion Hq; subst. symmetry; exact Hl.
Qed.

Lemma rmi_token_line nn prev t st : 0 <= t_dl t - r_line st -> r_line (rmi_token nn prev t st) = t_dl t.
Proof.
  intros Hge. unfold rmi_token.
  destruct (Z.to_nat (t_dl t - r_line st)) as [|k] eqn:Ek.
  - assert (t_dl t = r_line st) by lia.
    destruct (negb false && _); [exact (eq_sym H)|]. destruct (t_range t); cbn [r_line]; symmetry; exact H.
  - cbn [negb andb]. destruct (t_range t); reflexivity.
Qed.
Lemma rmi_tokens_dedup nn : forall ts prev st,
  lines_ok (r_line st) ts ->
  (forall p, prev = Some p -> t_dl p = r_line st) ->
  rmi_tokens nn prev (dedup nn prev ts) st = rmi_tokens nn prev ts st.
Proof.
  induction ts as [|t ts IH]; intros prev st Hl Hp; [destruct prev; reflexivity|].
  destruct Hl as [Hle Hl].
  assert (Hline : r_line (rmi_token nn prev t st) = t_dl t) by (apply rmi_token_line; lia).
  destruct prev as [p|].
  - cbn [dedup]. destruct (is_same_segment nn p t) eqn:Es.
    + assert (Hn : norm nn p = norm nn t) by (apply same_iff_norm; exact Es).
      assert (Hdl : t_dl t = r_line st).
      { rewrite <- (Hp p eq_refl). destruct (norm_fields nn p) as (<- & _). destruct (norm_fields nn t) as (<- & _). rewrite Hn. reflexivity. }
      cbn [rmi_tokens]. unfold rmi_token. rewrite Hdl, Z.sub_diag. cbn [Z.to_nat negb andb]. rewrite Es.
      rewrite <- (IH (Some t) st) by (try (rewrite <- Hdl; exact Hl); intros q Hq; inversion Hq; subst; exact Hdl).
      apply rmi_tokens_prev_norm. exact Hn.
    + cbn [rmi_tokens]. apply (IH (Some t)); [rewrite Hline; exact Hl|].
      intros q Hq; inversion Hq; subst. symmetry; exact Hline.
  - cbn [dedup rmi_tokens]. apply (IH (Some t)); [rewrite Hline; exact Hl|].
    intros q Hq; inversion Hq; subst. symmetry; exact Hline.
Qed.

(* ---------- the theorem ---------- *)
Lemma serialize_norm_dedup nn toks ts :
  map (norm nn) toks = map (norm nn) (dedup nn None ts) ->
  serialize_mappings nn toks = serialize_mappings nn ts.
Proof.
  intros H. unfold serialize_mappings.
  rewrite <- (ser_tokens_norm nn toks None), H, (ser_tokens_norm nn (dedup nn None ts) None).
  apply ser_tokens_dedup. intros p Hp; discriminate.
Qed.
Lemma serialize_range_norm_dedup nn toks ts : lines_ok 0 ts ->
  map (norm nn) toks = map (norm nn) (dedup nn None ts) ->
  serialize_range_mappings nn toks = serialize_range_mappings nn ts.
Proof.
  intros Hl H. unfold serialize_range_mappings.
  assert (E : rmi_tokens nn None toks (mkR 0 false true 0 [] []) = rmi_tokens nn None ts (mkR 0 false true 0 [] [])).
  { rewrite <- (rmi_tokens_norm nn toks None), H, (rmi_tokens_norm nn (dedup nn None ts) None).
    apply rmi_tokens_dedup; [exact Hl|intros p Hp; discriminate]. }
  rewrite E. reflexivity.
Qed.

Theorem C01_idempotent m : wf_map m ->
  exists m', decode_regular (sm_as_raw m) = Ok m' /\ sm_as_raw m' = sm_as_raw m.
Proof.
  intros Hwf. destruct (C01_regular m Hwf) as (m' & Hd & Htoks & Hnames & Hsrcs & Hroot & _ & Hign & Hdbg & Hfile & Hcont).
  exists m'. split; [exact Hd|].
  destruct Hwf as (Hsorted & Hwft & _ & _ & _ & _).
  assert (Hpos : Forall (fun t => 0 <= t_dl t) (sm_tokens m)).
  { eapply Forall_impl; [|exact Hwft]. intros t [Hdl _ _ _ _ _]. apply u32_bounds in Hdl. lia. }
  assert (Hl : lines_ok 0 (sm_tokens m)).
  { apply sorted_lines_ok; auto. destruct (sm_tokens m) as [|t ts]; [exact I|]. inversion Hpos; assumption. }
  unfold sm_as_raw. rewrite Hnames, Hsrcs, Hroot, Hign, Hdbg, Hfile.
  rewrite (serialize_norm_dedup _ _ _ Htoks), (serialize_range_norm_dedup _ _ _ Hl Htoks).
  assert (Hc : map (fun i : nat => get_source_contents m' (Z.of_nat i)) (seq 0 (length (sm_sources m)))
             = map (fun i : nat => get_source_contents m (Z.of_nat i)) (seq 0 (length (sm_sources m)))).
  { apply map_ext_in. intros i Hi. apply in_seq in Hi. apply Hcont. lia. }
  rewrite Hc. reflexivity.
Qed.
