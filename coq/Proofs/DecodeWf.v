(* A decoded regular map is a well-formed map (wf_map): tokens ordered, every field a u32, every source / name index
   in range or absent, ignore list a strictly increasing list, cache of joined names consistent.  Hence (C01_regular,
   C01_idempotent) every decoded map re-encodes to something that decodes again, and write;read;write is stable on it:
   the last clause of C05 and the last sentence of C01, literally for DECODED maps. *)
From SM Require Import Model.Base Model.Vlq Model.Mappings Model.Glb Model.SourceMap Model.Raw Spec.Vlq Spec.Mappings
     Proofs.BaseLemmas Proofs.VlqProofs Proofs.DecodeSpec Proofs.CodecCore Proofs.CodecTheorems Proofs.SettersProofs
     Proofs.RoundtripProofs Proofs.Idempotent.
From Coq Require Import Sorted Permutation.

Lemma wrap_u32_is_u32 z : is_u32 (wrap_u32 z) = true.
Proof.
  unfold is_u32, wrap_u32, two32. pose proof (Z.mod_pos_bound z 4294967296 ltac:(lia)) as H.
  destruct (Z.leb_spec 0 (z mod 4294967296)); [|lia]. destruct (Z.ltb_spec (z mod 4294967296) 4294967296); [reflexivity|lia].
Qed.

Definition toks_wf (nsrc nn : Z) (st : dstate) : Prop := Forall (wf_tok nsrc nn) (d_toks st).

Lemma spec_segment_wf nsrc nn dl flag seg col st r :
  is_u32 dl = true -> dst_ok st -> toks_wf nsrc nn st ->
  spec_segment nsrc nn dl flag seg col st = Ok r -> toks_wf nsrc nn (snd r).
Proof.
  intros Hdl (Hs & Hl & Hc & Hn) Hw H. unfold spec_segment in H.
  destruct (spec_parse seg) as [nums|e|p]; try discriminate.
  destruct nums as [|c [|s [|l [|k [|n [|x more]]]]]]; try discriminate.
  - inversion H; subst. cbn [snd]. unfold toks_wf. cbn [d_toks]. constructor; [|exact Hw].
    constructor; cbn; try assumption; try apply wrap_u32_is_u32; left; reflexivity.
  - destruct ((d_src st + s <? 0) || (nsrc <=? d_src st + s)) eqn:E; [discriminate|].
    apply orb_false_iff in E. destruct E as [E1 E2]. apply Z.ltb_ge in E1. apply Z.leb_gt in E2.
    inversion H; subst. cbn [snd]. unfold toks_wf. cbn [d_toks]. constructor; [|exact Hw].
    constructor; cbn; try assumption; try apply wrap_u32_is_u32; [right; lia|left; reflexivity].
  - destruct ((d_src st + s <? 0) || (nsrc <=? d_src st + s)) eqn:E; [discriminate|].
    apply orb_false_iff in E. destruct E as [E1 E2]. apply Z.ltb_ge in E1. apply Z.leb_gt in E2.
    destruct ((d_name st + n <? 0) || (nn <=? d_name st + n)) eqn:F; [discriminate|].
    apply orb_false_iff in F. destruct F as [F1 F2]. apply Z.ltb_ge in F1. apply Z.leb_gt in F2.
    inversion H; subst. cbn [snd]. unfold toks_wf. cbn [d_toks]. constructor; [|exact Hw].
    constructor; cbn; try assumption; try apply wrap_u32_is_u32; right; lia.
Qed.

Lemma decode_segments_wf nsrc nn dl rmi : nsrc <= NONE -> nn <= NONE -> is_u32 dl = true ->
  forall segs idx col st st', dst_ok st -> is_u32 col = true -> toks_wf nsrc nn st ->
  decode_segments nsrc nn dl rmi segs idx col st = Ok st' -> dst_ok st' /\ toks_wf nsrc nn st'.
Proof.
  intros Hs Hn Hdl. induction segs as [|seg segs IH]; intros idx col st st' Hst Hcol Hw H; cbn [decode_segments] in H.
  - inversion H; subst. split; assumption.
  - destruct (is_nil seg); [eapply IH; eassumption|].
    destruct (C06_segment nsrc nn dl rmi idx seg col st Hs Hn Hst Hcol) as [Heq Hok].
    destruct (decode_segment nsrc nn dl rmi idx seg col st) as [r|e|p] eqn:E; cbn [bind] in H; try discriminate.
    destruct (Hok r eq_refl) as [H1 H2].
    assert (Hw' : toks_wf nsrc nn (snd r)) by (apply (spec_segment_wf nsrc nn dl (nth idx rmi false) seg col st r Hdl Hst Hw); symmetry; exact Heq).
    eapply IH; eassumption.
Qed.

Lemma decode_lines_wf nsrc nn : nsrc <= NONE -> nn <= NONE ->
  forall lines rmis dl st st', 0 <= dl -> dl + zlen lines <= two32 -> dst_ok st -> toks_wf nsrc nn st ->
  decode_lines nsrc nn lines rmis dl st = Ok st' -> toks_wf nsrc nn st'.
Proof.
  intros Hs Hn. induction lines as [|line lines IH]; intros rmis dl st st' Hdl0 Hdl Hst Hw H; cbn [decode_lines] in H.
  - inversion H; subst. exact Hw.
  - assert (Hz : zlen (line :: lines) = zlen lines + 1) by (unfold zlen; cbn [length]; lia). rewrite Hz in Hdl.
    assert (Hnn : 0 <= zlen lines) by (unfold zlen; lia).
    destruct (is_nil line); [eapply (IH _ (dl + 1)); try eassumption; lia|].
    destruct (decode_rmi _) as [rmi|e|p]; cbn [bind] in H; try discriminate.
    destruct (decode_segments nsrc nn dl rmi (split_on 44 line) 0 0 st) as [st1|e|p] eqn:E; cbn [bind] in H; try discriminate.
    assert (Hu : is_u32 dl = true) by (apply u32_bounds; lia).
    destruct (decode_segments_wf nsrc nn dl rmi Hs Hn Hu (split_on 44 line) 0%nat 0 st st1 Hst (eq_refl : is_u32 0 = true) Hw E) as [Hst1 Hw1].
    eapply (IH _ (dl + 1)); try eassumption; lia.
Qed.

Theorem decode_mappings_wf nsrc nn mappings rm toks : nsrc <= NONE -> nn <= NONE ->
  zlen (split_on 59 mappings) <= two32 ->
  decode_mappings nsrc nn mappings rm = Ok toks -> Forall (wf_tok nsrc nn) toks.
Proof.
  intros Hs Hn Hlines H. unfold decode_mappings in H.
  destruct (decode_lines nsrc nn (split_on 59 mappings) (split_on 59 rm) 0 (mkD 0 0 0 0 [])) as [st|e|p] eqn:E; cbn [bind] in H; try discriminate.
  inversion H; subst. apply Forall_rev.
  eapply (decode_lines_wf nsrc nn Hs Hn _ _ 0); try exact E; try lia.
  - repeat split.
  - constructor.
Qed.

(* set_insert keeps a strictly increasing list strictly increasing *)
Lemma set_insert_sorted x l : StronglySorted Z.lt l -> StronglySorted Z.lt (set_insert x l) /\ (forall y, In y (set_insert x l) -> y = x \/ In y l).
Proof.
  induction 1 as [|y r Hr IH Hy]; cbn [set_insert].
  - split; [repeat constructor|]. intros z [<-|[]]. left; reflexivity.
  - destruct (Z.ltb_spec x y).
    + split.
      * constructor; [constructor; assumption|]. constructor; [exact H|]. eapply Forall_impl; [|exact Hy]. intros; lia.
      * intros z [<-|Hin]; [left; reflexivity|right; exact Hin].
    + destruct (Z.eqb_spec x y).
      * split; [constructor; assumption|]. intros z Hin; right; exact Hin.
      * destruct IH as [IH1 IH2]. split.
        -- constructor; [exact IH1|]. apply Forall_forall. intros z Hz. destruct (IH2 z Hz) as [->|Hin]; [lia|].
           rewrite Forall_forall in Hy. apply Hy. exact Hin.
        -- intros z [<-|Hin]; [right; left; reflexivity|]. destruct (IH2 z Hin) as [->|Hin']; [left; reflexivity|right; right; exact Hin'].
Qed.
Lemma fold_ignore_sorted l : forall m, StronglySorted Z.lt (sm_ignore m) ->
  StronglySorted Z.lt (sm_ignore (fold_left (fun m i => add_to_ignore_list i m) l m)).
Proof.
  induction l as [|x l IH]; intros m Hm; cbn [fold_left]; [exact Hm|].
  apply IH. cbn [add_to_ignore_list sm_ignore]. apply set_insert_sorted. exact Hm.
Qed.
Lemma fold_ignore_cache l : forall m, cache_ok m -> cache_ok (fold_left (fun m i => add_to_ignore_list i m) l m).
Proof.
  induction l as [|x l IH]; intros m Hm; cbn [fold_left]; [exact Hm|]. apply IH. exact Hm.
Qed.

Lemma wf_tok_eq n n' m m' t : n = n' -> m = m' -> wf_tok n m t -> wf_tok n' m' t.
Proof. intros -> ->. exact (fun H => H). Qed.

Theorem decode_regular_wf r m :
  zlen (odefault [] (r_sources r)) <= NONE -> zlen (odefault [] (r_names r)) <= NONE ->
  zlen (split_on 59 (odefault [] (r_mappings r))) <= two32 ->
  decode_regular r = Ok m -> wf_map m.
Proof.
  intros Hs Hn Hl H. unfold decode_regular in H.
  destruct (decode_mappings _ _ _ _) as [toks|e|p] eqn:E; cbn [bind] in H; try discriminate.
  pose proof (decode_mappings_wf _ _ _ _ _ Hs Hn Hl E) as Hw.
  inversion H; subst m. clear H.
  set (m0 := set_debug_id _ (set_source_root _ (sm_new _ _ _ _ _))).
  assert (Hf : forall l m1, sm_tokens (fold_left (fun m i => add_to_ignore_list i m) l m1) = sm_tokens m1
                          /\ sm_sources (fold_left (fun m i => add_to_ignore_list i m) l m1) = sm_sources m1
                          /\ sm_names (fold_left (fun m i => add_to_ignore_list i m) l m1) = sm_names m1).
  { induction l as [|x l IHl]; intros m1; cbn [fold_left]; [auto|]. destruct (IHl (add_to_ignore_list x m1)) as (A & B & C). cbn in *. auto. }
  destruct (Hf (odefault [] (r_ignore_list r)) m0) as (Ht & Hsrc & Hnm).
  unfold wf_map. rewrite Ht, Hsrc, Hnm. unfold m0. cbn [set_debug_id set_source_root sm_new sm_tokens sm_sources sm_names].
  split; [apply isort_sorted|]. split.
  { eapply Permutation_Forall; [apply isort_perm|]. eapply Forall_impl; [|exact Hw]. intros t0 Hwt.
    eapply wf_tok_eq; [| |exact Hwt]; unfold zlen, names_of; rewrite map_length; reflexivity. }
  split; [unfold zlen in *; rewrite map_length; exact Hs|]. split; [unfold zlen, names_of in *; rewrite map_length; exact Hn|]. split.
  - apply fold_ignore_sorted. cbn. constructor.
  - apply fold_ignore_cache. unfold cache_ok. cbn [set_debug_id set_source_root sm_new sm_prefixed sm_root sm_sources].
    destruct (r_source_root r) as [rt|]; [destruct (is_nil rt)|]; reflexivity.
Qed.

(* C05 (last clause) and C01 (last sentence) for decoded maps *)
Theorem C05_reencode_decodes r m :
  zlen (odefault [] (r_sources r)) <= NONE -> zlen (odefault [] (r_names r)) <= NONE ->
  zlen (split_on 59 (odefault [] (r_mappings r))) <= two32 ->
  decode_regular r = Ok m ->
  exists m', decode_regular (sm_as_raw m) = Ok m' /\ sm_as_raw m' = sm_as_raw m.
Proof.
  intros Hs Hn Hl H. apply C01_idempotent. eapply decode_regular_wf; eassumption.
Qed.
