(* The mappings codec seen as a stream of events.  Part 1: strings <-> events. *)
From SM Require Import Model.Base Model.Gen_B64 Model.Vlq Model.Mappings Proofs.StringLemmas Proofs.VlqProofs.

Inductive ev := ENewLine | ESeg (s : bytes).

(* ---------- rendering events ---------- *)
Fixpoint render_evs (started : bool) (evs : list ev) : bytes :=
  match evs with
  | [] => []
  | ENewLine :: r => 59 :: render_evs false r
  | ESeg s :: r => (if started then [44] else []) ++ s ++ render_evs true r
  end.
Lemma render_evs_app a evs1 evs2 :
  render_evs a (evs1 ++ evs2) =
  render_evs a evs1 ++ render_evs (match rev evs1 with [] => a | ENewLine :: _ => false | ESeg _ :: _ => true end) evs2.
Proof.
  revert a. induction evs1 as [|e r IH]; intros a; [reflexivity|].
  destruct e as [|s]; cbn [render_evs app rev].
  - rewrite IH. cbn [app]. f_equal. f_equal. destruct (rev r) as [|x l] eqn:E; cbn [app]; [reflexivity|]. destruct x; reflexivity.
  - rewrite IH, <- !app_assoc. f_equal. f_equal. f_equal.
    destruct (rev r) as [|x l] eqn:E; cbn [app]; [reflexivity|]. destruct x; reflexivity.
Qed.

(* ---------- the encoder as events ---------- *)
Definition seg_bytes (nn : Z) (t : rtoken) (col0 : Z) (st : estate) : bytes :=
  vlq_diff (t_dc t) col0 ++
  (if has_source t then
     vlq_diff (t_src t) (e_src st) ++ vlq_diff (t_sl t) (e_sl st) ++ vlq_diff (t_sc t) (e_sc st)
     ++ (if has_name nn t then vlq_diff (t_name t) (e_name st) else [])
   else []).
Definition next_estate (nn : Z) (t : rtoken) (st : estate) : estate :=
  if has_source t then
    if has_name nn t then mkE (t_dl t) (t_dc t) (t_sl t) (t_sc t) (t_name t) (t_src t)
    else mkE (t_dl t) (t_dc t) (t_sl t) (t_sc t) (e_name st) (t_src t)
  else mkE (t_dl t) (t_dc t) (e_sl st) (e_sc st) (e_name st) (e_src st).
Definition skipped (nn : Z) (prev : option rtoken) (t : rtoken) (st : estate) : bool :=
  (t_dl t =? e_line st) && match prev with Some p => is_same_segment nn p t | None => false end.

Fixpoint enc_events (nn : Z) (prev : option rtoken) (ts : list rtoken) (st : estate) : list ev :=
  match ts with
  | [] => []
  | t :: ts' =>
    if skipped nn prev t st then enc_events nn (Some t) ts' st
    else
      let new_line := negb (t_dl t =? e_line st) in
      (if new_line then repeat ENewLine (Z.to_nat (t_dl t - e_line st)) else [])
      ++ ESeg (seg_bytes nn t (if new_line then 0 else e_col st) st)
      :: enc_events nn (Some t) ts' (next_estate nn t st)
  end.

Lemma render_newlines k a r : render_evs a (repeat ENewLine (S k) ++ r) = repeat 59 (S k) ++ render_evs false r.
Proof. revert a. induction k as [|k IH]; intros a; [reflexivity|].
  change (repeat ENewLine (S (S k))) with (ENewLine :: repeat ENewLine (S k)). cbn [app render_evs].
  rewrite IH. reflexivity. Qed.

Definition is_some {A} (o : option A) : bool := match o with Some _ => true | None => false end.

Lemma ser_token_events nn prev t st out :
  ser_token nn prev t st out =
  if skipped nn prev t st then (st, out)
  else (next_estate nn t st,
        out ++ (if negb (t_dl t =? e_line st) then repeat 59 (Z.to_nat (t_dl t - e_line st))
                else if is_some prev then [44] else [])
            ++ seg_bytes nn t (if negb (t_dl t =? e_line st) then 0 else e_col st) st).
Proof.
  unfold ser_token, skipped, seg_bytes, next_estate.
  destruct (t_dl t =? e_line st) eqn:El; cbn [negb andb].
  - destruct prev as [p|]; cbn [is_some].
    + destruct (is_same_segment nn p t); [reflexivity|].
      destruct (has_source t); [destruct (has_name nn t)|]; repeat rewrite <- app_assoc; rewrite ?app_nil_r; reflexivity.
    + destruct (has_source t); [destruct (has_name nn t)|]; repeat rewrite <- app_assoc; rewrite ?app_nil_r; reflexivity.
  - destruct (has_source t); [destruct (has_name nn t)|]; repeat rewrite <- app_assoc; rewrite ?app_nil_r; reflexivity.
Qed.

(* generated lines never decrease along the token list *)
Fixpoint lines_ok (cur : Z) (ts : list rtoken) : Prop :=
  match ts with [] => True | t :: ts' => cur <= t_dl t /\ lines_ok (t_dl t) ts' end.

Theorem ser_tokens_events nn : forall ts prev st out,
  lines_ok (e_line st) ts ->
  ser_tokens nn prev ts st out = out ++ render_evs (is_some prev) (enc_events nn prev ts st).
Proof.
  induction ts as [|t ts IH]; intros prev st out Hl; cbn [ser_tokens enc_events render_evs].
  - rewrite app_nil_r. reflexivity.
  - destruct Hl as [Hle Hl]. rewrite ser_token_events.
    destruct (skipped nn prev t st) eqn:Es.
    + rewrite IH.
      * unfold skipped in Es. destruct prev; [reflexivity|]. rewrite andb_false_r in Es. discriminate.
      * unfold skipped in Es. apply andb_true_iff in Es. destruct Es as [Es _]. apply Z.eqb_eq in Es. rewrite <- Es. exact Hl.
    + rewrite IH by (unfold next_estate; destruct (has_source t); [destruct (has_name nn t)|]; exact Hl).
      cbn [is_some]. rewrite <- !app_assoc. f_equal.
      destruct (t_dl t =? e_line st) eqn:El; cbn [negb].
      * cbn [app render_evs]. rewrite <- ?app_assoc. reflexivity.
      * assert (Hk : exists k, Z.to_nat (t_dl t - e_line st) = S k).
        { exists (Z.to_nat (t_dl t - e_line st - 1)). apply Z.eqb_neq in El. lia. }
        destruct Hk as [k Hk]. rewrite Hk, render_newlines. cbn [render_evs app].
        rewrite <- ?app_assoc. reflexivity.
Qed.

(* ---------- the decoder over events ---------- *)
Section Dec.
  Variables nsrc nn : Z.

  Record ls := mkLs { ls_rmi : list bool; ls_col : Z; ls_idx : nat; ls_d : dstate; ls_open : bool }.
  Definition fresh (d : dstate) : ls := mkLs [] 0 0 d false.

  Definition run_seg (rmi_str : bytes) (L : Z) (s : bytes) (l : ls) : outcome ls :=
    do rmi <- (if ls_open l then Ok (ls_rmi l) else decode_rmi rmi_str);
    do r <- decode_segment nsrc nn L rmi (ls_idx l) s (ls_col l) (ls_d l);
    Ok (mkLs rmi (fst r) (S (ls_idx l)) (snd r) true).
  Fixpoint run_segs (rmi_str : bytes) (L : Z) (segs : list bytes) (l : ls) : outcome ls :=
    match segs with
    | [] => Ok l
    | s :: r => do l' <- run_seg rmi_str L s l; run_segs rmi_str L r l'
    end.
  Lemma run_segs_app rmi_str L a b l :
    run_segs rmi_str L (a ++ b) l = do l' <- run_segs rmi_str L a l; run_segs rmi_str L b l'.
  Proof. revert l. induction a as [|s a IH]; intros l; cbn [run_segs app bind]; [reflexivity|].
    destruct (run_seg rmi_str L s l); cbn [bind]; auto. Qed.

  Definition clean_seg (s : bytes) : Prop := s <> [] /\ nosep 44 s /\ nosep 59 s.

  (* decode_segments on a list of non-empty segments, started mid-line *)
  Lemma decode_segments_run L rmi rmi_str segs : Forall clean_seg segs -> forall idx col d,
    decode_segments nsrc nn L rmi segs idx col d =
    do l <- run_segs rmi_str L segs (mkLs rmi col idx d true); Ok (ls_d l).
  Proof.
    induction 1 as [|s segs Hs Hsegs IH]; intros idx col d; cbn [decode_segments run_segs bind]; [reflexivity|].
    destruct Hs as (Hne & _). destruct s as [|c s']; [contradiction|]. cbn [is_nil].
    unfold run_seg. cbn [ls_open ls_rmi ls_idx ls_col ls_d bind].
    destruct (decode_segment nsrc nn L rmi idx (c :: s') col d) as [[col' d']|e|p]; cbn [bind fst snd]; auto.
  Qed.

  (* one complete line given as its list of segments *)
  Lemma decode_line_run L rmi_str segs d : segs <> [] -> Forall clean_seg segs ->
    (do rmi <- decode_rmi rmi_str; decode_segments nsrc nn L rmi segs 0 0 d) =
    do l <- run_segs rmi_str L segs (fresh d); Ok (ls_d l).
  Proof.
    intros Hne Hall. destruct segs as [|s segs]; [contradiction|].
    inversion Hall as [|? ? Hs Hsegs]; subst.
    cbn [run_segs]. unfold run_seg at 1. cbn [fresh ls_open ls_rmi ls_idx ls_col ls_d].
    destruct (decode_rmi rmi_str) as [rmi|e|p]; cbn [bind]; auto.
    cbn [decode_segments]. destruct Hs as (Hne' & _). destruct s as [|c s']; [contradiction|]. cbn [is_nil].
    destruct (decode_segment nsrc nn L rmi 0 (c :: s') 0 d) as [[col' d']|e|p]; cbn [bind fst snd]; auto.
    apply decode_segments_run. exact Hsegs.
  Qed.

  Record gs := mkGs { g_line : Z; g_rmis : list bytes; g_ls : ls }.
  Definition hd_rmi (rmis : list bytes) : bytes := match rmis with [] => [] | r :: _ => r end.
  Definition tl_rmi (rmis : list bytes) : list bytes := match rmis with [] => [] | _ :: r => r end.
  Definition dec_ev (e : ev) (g : gs) : outcome gs :=
    match e with
    | ENewLine => Ok (mkGs (g_line g + 1) (tl_rmi (g_rmis g)) (fresh (ls_d (g_ls g))))
    | ESeg s => do l <- run_seg (hd_rmi (g_rmis g)) (g_line g) s (g_ls g); Ok (mkGs (g_line g) (g_rmis g) l)
    end.
  Fixpoint dec_evs (evs : list ev) (g : gs) : outcome gs :=
    match evs with [] => Ok g | e :: r => do g' <- dec_ev e g; dec_evs r g' end.

  Definition clean_ev (e : ev) : Prop := match e with ENewLine => True | ESeg s => clean_seg s end.

  Lemma nosep_join_segs segs : Forall clean_seg segs -> nosep 59 (join 44 segs).
  Proof. intros H. apply nosep_join; [discriminate|]. eapply Forall_impl; [|exact H]. intros s (_ & _ & Hs). exact Hs. Qed.

  Lemma bind_ok_r {A} (m : outcome A) : (do x <- m; Ok x) = m.
  Proof. destruct m; reflexivity. Qed.
  Lemma bind_assoc {A B C} (m : outcome A) (f : A -> outcome B) (g : B -> outcome C) :
    (do y <- (do x <- m; f x); g y) = (do x <- m; do y <- f x; g y).
  Proof. destruct m; reflexivity. Qed.

  Lemma decode_lines_cons_empty rest rmis L d :
    decode_lines nsrc nn ([] :: rest) rmis L d = decode_lines nsrc nn rest (tl_rmi rmis) (L + 1) d.
  Proof. destruct rmis; reflexivity. Qed.
  Lemma decode_lines_cons_line segs rest rmis L d : segs <> [] -> Forall clean_seg segs ->
    decode_lines nsrc nn (join 44 segs :: rest) rmis L d =
    do l <- run_segs (hd_rmi rmis) L segs (fresh d); decode_lines nsrc nn rest (tl_rmi rmis) (L + 1) (ls_d l).
  Proof.
    intros Hne Hsegs.
    assert (Hnn : is_nil (join 44 segs) = false).
    { destruct segs as [|s segs']; [contradiction|].
      inversion Hsegs as [|? ? (Hne' & _) _]; subst. cbn [join]. destruct s; [contradiction|reflexivity]. }
    cbn [decode_lines]. rewrite Hnn.
    rewrite split_join; [|exact Hne|eapply Forall_impl; [|exact Hsegs]; intros x (_ & Hx & _); exact Hx].
    pose proof (decode_line_run L (hd_rmi rmis) segs d Hne Hsegs) as Hl.
    replace (match rmis with [] => [] | r :: _ => r end) with (hd_rmi rmis) by reflexivity.
    replace (match rmis with [] => [] | _ :: r => r end) with (tl_rmi rmis) by reflexivity.
    rewrite <- bind_assoc, Hl, bind_assoc.
    destruct (run_segs (hd_rmi rmis) L segs (fresh d)); reflexivity.
  Qed.

  Theorem decode_lines_events : forall evs segs L rmis d,
    Forall clean_ev evs -> Forall clean_seg segs ->
    decode_lines nsrc nn (split_on 59 (join 44 segs ++ render_evs (negb (is_nil segs)) evs)) rmis L d =
    do l <- run_segs (hd_rmi rmis) L segs (fresh d);
    do g <- dec_evs evs (mkGs L rmis l);
    Ok (ls_d (g_ls g)).
  Proof.
    induction evs as [|e evs IH]; intros segs L rmis d Hevs Hsegs.
    - cbn [render_evs dec_evs bind]. rewrite app_nil_r.
      rewrite split_on_nosep by (apply nosep_join_segs; exact Hsegs).
      destruct segs as [|s segs'].
      + cbn [join]. rewrite decode_lines_cons_empty. reflexivity.
      + rewrite decode_lines_cons_line by (try discriminate; exact Hsegs).
        destruct (run_segs (hd_rmi rmis) L (s :: segs') (fresh d)); reflexivity.
    - inversion Hevs as [|? ? He Hevs']; subst. destruct e as [|s].
      + cbn [render_evs].
        rewrite split_on_sep by (apply nosep_join_segs; exact Hsegs).
        specialize (IH [] (L + 1) (tl_rmi rmis)). cbn [join app is_nil negb run_segs bind] in IH.
        destruct segs as [|s segs'].
        * cbn [join]. rewrite decode_lines_cons_empty.
          cbn [run_segs bind dec_evs dec_ev g_line g_rmis g_ls fresh ls_d].
          rewrite IH by (try constructor; assumption). reflexivity.
        * rewrite decode_lines_cons_line by (try discriminate; exact Hsegs).
          destruct (run_segs (hd_rmi rmis) L (s :: segs') (fresh d)) as [l|e|p]; cbn [bind]; auto.
          cbn [dec_evs dec_ev bind g_line g_rmis g_ls]. apply IH; [exact Hevs'|constructor].
      + cbn [render_evs].
        assert (Heq : join 44 segs ++ (if negb (is_nil segs) then [44] else []) ++ s ++ render_evs true evs
                      = join 44 (segs ++ [s]) ++ render_evs (negb (is_nil (segs ++ [s]))) evs).
        { destruct segs as [|x r].
          - cbn [is_nil negb app join flat_map]. rewrite app_nil_r. reflexivity.
          - rewrite join_snoc by discriminate. cbn [is_nil negb]. rewrite <- !app_assoc.
            replace (is_nil ((x :: r) ++ [s])) with false by reflexivity. reflexivity. }
        rewrite Heq, IH; [|exact Hevs'|apply Forall_app; split; [exact Hsegs|constructor; [exact He|constructor]]].
        rewrite run_segs_app. cbn [run_segs].
        destruct (run_segs (hd_rmi rmis) L segs (fresh d)) as [l|e|p]; cbn [bind]; auto.
        cbn [dec_evs dec_ev g_line g_rmis g_ls].
        destruct (run_seg (hd_rmi rmis) L s l) as [l'|e|p]; cbn [bind]; reflexivity.
  Qed.
End Dec.
