(* Regenerated constants used by C12: the junk-header start bytes of decoder.rs `is_junk_json`
   are the four bytes the property names and the model uses. *)
From SM Require Import Model.Base Model.Gen_Consts Model.Header.
Lemma junk_bytes_ok : GEN_JUNK_BYTES = [41; 93; 125; 39].
Proof. reflexivity. Qed.
Lemma junk_bytes_model : forall b, is_junk_json b = existsb (Z.eqb b) GEN_JUNK_BYTES.
Proof. intro b. unfold is_junk_json. cbn [existsb GEN_JUNK_BYTES]. rewrite orb_false_r, !orb_assoc. reflexivity. Qed.
