(* C01 for index and Hermes maps: writing any decoded-map tree (regular maps, Hermes maps, index maps whose sections
   hold such trees, to any depth) and reading it back gives an observationally equal tree: same section offsets and
   URLs, same file, and for every embedded map the conclusion of C01_regular; for Hermes maps the raw function-map
   payload is identical, hence the derived function maps are identical. *)
From SM Require Import Model.Base Model.Mappings Model.Glb Model.SourceMap Model.Rewrite Model.Raw
     Proofs.BaseLemmas Proofs.CodecTheorems Proofs.RoundtripProofs.

Definition sm_obs_eq (m m' : smap) : Prop :=
  map (norm (zlen (sm_names m))) (sm_tokens m') = map (norm (zlen (sm_names m))) (dedup (zlen (sm_names m)) None (sm_tokens m))
  /\ sm_names m' = sm_names m /\ sm_sources m' = sm_sources m /\ sm_root m' = sm_root m /\ sm_prefixed m' = sm_prefixed m
  /\ sm_ignore m' = sm_ignore m /\ sm_debug_id m' = sm_debug_id m /\ sm_file m' = sm_file m
  /\ forall i, (i < length (sm_sources m))%nat -> get_source_contents m' (Z.of_nat i) = get_source_contents m (Z.of_nat i).

Definition sec := (pos * option bytes * option dmap)%type.

(* observational equality of two trees, to depth `fuel` *)
Fixpoint obs_eq (fuel : nat) (d d' : dmap) : Prop :=
  match fuel with
  | O => False
  | S f =>
    match d, d' with
    | DRegular m, DRegular m' => sm_obs_eq m m'
    | DHermes h, DHermes h' => sm_obs_eq (h_sm h) (h_sm h') /\ h_raw h' = h_raw h /\ h_fmaps h' = h_fmaps h
    | DIndex file secs, DIndex file' secs' =>
      file' = file /\
      Forall2 (fun (s s' : sec) =>
                 fst s' = fst s /\
                 match snd s, snd s' with
                 | Some x, Some x' => obs_eq f x x'
                 | None, None => True
                 | _, _ => False
                 end) secs secs'
    | _, _ => False
    end
  end.

(* the trees the property quantifies over: well-formed maps at the leaves; a Hermes map carries the payload its function
   maps were decoded from; sections ordered by offset (what decode_index establishes and flatten / lookup assume) *)
Fixpoint wf_dmap (fuel : nat) (d : dmap) : Prop :=
  match fuel with
  | O => False
  | S f =>
    match d with
    | DRegular m => wf_map m
    | DHermes h => wf_map (h_sm h) /\ exists fbs, h_raw h = Some fbs /\ h_fmaps h = map decode_function_map fbs
    | DIndex _ secs =>
      sorted sec_key secs /\
      Forall (fun s : sec => match snd s with Some x => wf_dmap f x | None => True end) secs
    end
  end.

Lemma decode_regular_ignores_fb r f : decode_regular (with_fb_sources r f) = decode_regular r.
Proof. destruct r; reflexivity. Qed.
Lemma sm_as_raw_sections m : r_sections (sm_as_raw m) = None /\ r_fb_sources (sm_as_raw m) = None.
Proof. split; reflexivity. Qed.
Lemma with_fb_fields r f : r_sections (with_fb_sources r f) = r_sections r /\ r_fb_sources (with_fb_sources r f) = f.
Proof. destruct r; split; reflexivity. Qed.

(* the section loop of decode_common, named *)
Definition go_secs (f : nat) :=
  fix go (l : list (pos * option bytes * option raw)) : outcome (list sec) :=
    match l with
    | [] => Ok []
    | (off, url, m) :: l' =>
      do d <- match m with Some rm => do x <- decode_common f rm; Ok (Some x) | None => Ok None end;
      do rest <- go l'; Ok ((off, url, d) :: rest)
    end.
Lemma decode_common_index f r secs : r_sections r = Some secs ->
  decode_common (S f) r =
  do ss <- go_secs f secs;
  Ok (DIndex (option_map (fun v => match v with JStr s => s | _ => invalid_file end) (r_file r)) (isort sec_key ss)).
Proof. intros H. cbn [decode_common]. rewrite H. reflexivity. Qed.

Lemma sorted_sec_keys (a b : list sec) : map sec_key a = map sec_key b -> sorted sec_key a -> sorted sec_key b.
Proof. apply sorted_keys. Qed.

Theorem C01_dmap : forall fuel d, wf_dmap fuel d ->
  exists d', decode_common fuel (dm_as_raw fuel d) = Ok d' /\ obs_eq fuel d d'.
Proof.
  induction fuel as [|f IH]; intros d Hwf; [contradiction|].
  destruct d as [m|file secs|h]; cbn [wf_dmap] in Hwf; cbn [dm_as_raw].
  - (* regular *)
    destruct (C01_regular m Hwf) as (m' & Hd & Hobs).
    exists (DRegular m'). split; [|exact Hobs].
    cbn [decode_common]. destruct (sm_as_raw_sections m) as [-> ->]. rewrite Hd. reflexivity.
  - (* index *)
    destruct Hwf as [Hsorted Hall].
    rewrite (decode_common_index f _ (map (fun '(off, url, m) => (off, url, option_map (dm_as_raw f) m)) secs)) by reflexivity.
    cbn [r_file option_map].
    assert (Hgo : exists secs', go_secs f (map (fun '(off, url, m) => (off, url, option_map (dm_as_raw f) m)) secs) = Ok secs'
                  /\ Forall2 (fun (s s' : sec) => fst s' = fst s /\
                        match snd s, snd s' with Some x, Some x' => obs_eq f x x' | None, None => True | _, _ => False end) secs secs').
    { clear Hsorted. induction secs as [|[[off url] m] secs IHs].
      - exists []. split; [reflexivity|constructor].
      - inversion Hall as [|? ? Hm Hrest]; subst. destruct (IHs Hrest) as (rest' & Hr & Hf2).
        cbn [map go_secs]. fold (go_secs f). rewrite Hr.
        destruct m as [x|]; cbn [option_map snd] in *.
        + destruct (IH x Hm) as (x' & Hx & Hox). rewrite Hx. cbn [bind].
          exists ((off, url, Some x') :: rest'). split; [reflexivity|]. constructor; [|exact Hf2]. cbn [fst snd]. split; [reflexivity|exact Hox].
        + cbn [bind]. exists ((off, url, None) :: rest'). split; [reflexivity|]. constructor; [|exact Hf2]. cbn [fst snd]. split; [reflexivity|exact I]. }
    destruct Hgo as (secs' & Hgo & Hf2). rewrite Hgo. cbn [bind].
    assert (Hkeys : map sec_key secs = map sec_key secs').
    { clear -Hf2. induction Hf2 as [|s s' l l' (Hfst & _) _ IHl]; [reflexivity|]. cbn [map]. unfold sec_key at 1 3. rewrite Hfst, IHl. reflexivity. }
    rewrite (isort_id sec_key secs') by (apply (sorted_sec_keys secs secs' Hkeys Hsorted)).
    eexists. split; [reflexivity|]. cbn [obs_eq]. split; [|exact Hf2].
    destruct file; reflexivity.
  - (* Hermes *)
    destruct Hwf as (Hm & fbs & Hraw & Hfm).
    destruct (C01_regular (h_sm h) Hm) as (m' & Hd & Hobs).
    exists (DHermes (mkH m' (map decode_function_map fbs) (Some fbs))). split.
    + cbn [decode_common]. rewrite Hraw.
      destruct (with_fb_fields (sm_as_raw (h_sm h)) (Some fbs)) as [-> ->].
      destruct (sm_as_raw_sections (h_sm h)) as [-> _].
      unfold decode_hermes. destruct (with_fb_fields (sm_as_raw (h_sm h)) (Some fbs)) as [_ ->].
      rewrite decode_regular_ignores_fb, Hd. reflexivity.
    + cbn [obs_eq h_sm h_raw h_fmaps]. split; [exact Hobs|]. split; [symmetry; exact Hraw|symmetry; exact Hfm].
Qed.
