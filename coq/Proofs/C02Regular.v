(* C02: decoding a regular map whose `mappings` is the rendering of an abstract document. *)
From SM Require Import Model.Base Model.Mappings Model.Glb Model.SourceMap Model.Rewrite Model.Raw
  Proofs.BaseLemmas Proofs.CodecCore Proofs.CodecTheorems Proofs.C02Proofs Proofs.SettersProofs.

Lemma fold_ignore_keeps (P : smap -> Prop) : (forall x y, P x -> P (add_to_ignore_list y x)) ->
  forall l m0, P m0 -> P (fold_left (fun m1 i => add_to_ignore_list i m1) l m0).
Proof. intros Hstep l. induction l as [|x l IH]; intros m0 H0; [exact H0|]. cbn [fold_left]. apply IH. apply Hstep. exact H0. Qed.

Theorem C02_regular r doc :
  let sources := odefault [] (r_sources r) in
  let names := odefault [] (r_names r) in
  zlen sources <= NONE -> zlen names <= NONE ->
  doc <> [] -> doc_ok (zlen sources) (zlen names) 0 doc ->
  r_mappings r = Some (render_doc (zlen names) doc) -> r_range_mappings r = None ->
  exists m, decode_regular r = Ok m
    /\ sm_tokens m = isort tok_key (doc_tokens (zlen names) doc d0)             (* tokens of the document, ordered *)
    /\ sm_names m = names_of names                                              (* numbers by their text *)
    /\ sm_sources m = map (odefault []) sources                                 (* null -> "" *)
    /\ sm_root m = r_source_root r
    /\ (forall i, get_source m i = option_map (join_rule (r_source_root r)) (znth_opt (map (odefault []) sources) i))
    /\ sm_debug_id m = (match r_debug_id r with Some d => Some d | None => r_debug_id_new r end)   (* debug_id wins *)
    /\ sm_file m = option_map file_of (r_file r)
    /\ sm_contents m = odefault [] (r_sources_content r).
Proof.
  intros sources names Hs Hn Hne Hok Hm Hrm.
  unfold decode_regular. fold sources names. rewrite Hm, Hrm. cbn [odefault].
  rewrite (C02_mappings (zlen sources) (zlen names) Hs Hn doc Hne Hok). cbn [bind].
  eexists. split; [reflexivity|].
  set (base := set_debug_id _ (set_source_root (r_source_root r) (sm_new _ _ _ _ _))).
  assert (Hc : cache_ok base).
  { unfold base, cache_ok, set_debug_id, set_source_root. cbn. destruct (r_source_root r) as [x|]; [destruct (is_nil x)|]; reflexivity. }
  set (ign := odefault [] (r_ignore_list r)).
  split; [apply (fold_ignore_keeps (fun x => sm_tokens x = _)); [intros; assumption|reflexivity]|].
  split; [apply (fold_ignore_keeps (fun x => sm_names x = _)); [intros; assumption|reflexivity]|].
  split; [apply (fold_ignore_keeps (fun x => sm_sources x = _)); [intros; assumption|reflexivity]|].
  split; [apply (fold_ignore_keeps (fun x => sm_root x = _)); [intros; assumption|reflexivity]|].
  split.
  { intros i.
    assert (Hfin : cache_ok (fold_left (fun m1 i0 => add_to_ignore_list i0 m1) ign base)
                   /\ sm_root (fold_left (fun m1 i0 => add_to_ignore_list i0 m1) ign base) = r_source_root r
                   /\ sm_sources (fold_left (fun m1 i0 => add_to_ignore_list i0 m1) ign base) = map (odefault []) sources).
    { apply (fold_ignore_keeps (fun x => cache_ok x /\ sm_root x = r_source_root r /\ sm_sources x = map (odefault []) sources)).
      - intros x y H. exact H.
      - split; [exact Hc|]. split; reflexivity. }
    destruct Hfin as (F1 & F2 & F3). rewrite (get_source_rule _ i F1), F2, F3. reflexivity. }
  split; [apply (fold_ignore_keeps (fun x => sm_debug_id x = _)); [intros; assumption|reflexivity]|].
  split; [apply (fold_ignore_keeps (fun x => sm_file x = _)); [intros; assumption|reflexivity]|].
  apply (fold_ignore_keeps (fun x => sm_contents x = _)); [intros; assumption|].
  unfold base, set_debug_id, set_source_root, sm_new. cbn [sm_contents]. destruct (r_sources_content r); reflexivity.
Qed.
Print Assumptions C02_regular.
