(* C13, builder side: the interning tables behave like "index of first occurrence", after any sequence of calls. *)
From SM Require Import Model.Base Model.Mappings Model.Glb Model.SourceMap.

Lemma bytes_eqb_refl a : bytes_eqb a a = true.
Proof. induction a as [|x a IH]; cbn; [reflexivity|]. rewrite Z.eqb_refl. exact IH. Qed.
Lemma bytes_eqb_eq a b : bytes_eqb a b = true <-> a = b.
Proof.
  split; [|intros ->; apply bytes_eqb_refl].
  revert b. induction a as [|x a IH]; intros [|y b] H; cbn in H; try discriminate; [reflexivity|].
  apply andb_true_iff in H. destruct H as [H1 H2]. f_equal; [lia|apply IH; exact H2].
Qed.
Lemma bytes_eqb_sym a b : bytes_eqb a b = bytes_eqb b a.
Proof.
  destruct (bytes_eqb a b) eqn:E.
  - apply bytes_eqb_eq in E. subst. symmetry. apply bytes_eqb_refl.
  - destruct (bytes_eqb b a) eqn:E'; [|reflexivity]. apply bytes_eqb_eq in E'. subst. rewrite bytes_eqb_refl in E. discriminate.
Qed.

Lemma index_of_app s l x : index_of s (l ++ [x]) =
  match index_of s l with Some i => Some i | None => if bytes_eqb x s then Some (zlen l) else None end.
Proof.
  unfold zlen. induction l as [|y l IH]; cbn [index_of app length].
  - destruct (bytes_eqb x s); reflexivity.
  - destruct (bytes_eqb y s); [reflexivity|]. rewrite IH. destruct (index_of s l); [reflexivity|].
    destruct (bytes_eqb x s); [f_equal; lia|reflexivity].
Qed.
Lemma index_of_bound s l i : index_of s l = Some i -> 0 <= i < zlen l.
Proof.
  unfold zlen. revert i. induction l as [|y l IH]; intros i H; cbn [index_of length] in *; [discriminate|].
  destruct (bytes_eqb y s); [inversion H; lia|]. destruct (index_of s l) eqn:E; [|discriminate]. inversion H; subst.
  specialize (IH _ eq_refl). lia.
Qed.

(* the interning invariant: the table is the "first index" function of the vector *)
Definition table_ok (vec : list bytes) (tbl : list (bytes * Z)) : Prop := forall s, assoc s tbl = index_of s vec.
Definition builder_inv (b : builder) : Prop :=
  table_ok (b_sources b) (b_source_map b) /\ table_ok (b_names b) (b_name_map b).

Lemma add_source_spec src old b : builder_inv b ->
  let '(id, b') := add_source_with_id src old b in
  builder_inv b'
  /\ id = match index_of src (b_sources b) with Some i => i | None => zlen (b_sources b) end
  /\ index_of src (b_sources b') = Some id
  /\ (forall s i, index_of s (b_sources b) = Some i -> index_of s (b_sources b') = Some i)
  /\ b_names b' = b_names b /\ b_tokens b' = b_tokens b.
Proof.
  intros [Hs Hn]. unfold add_source_with_id. rewrite (Hs src).
  destruct (index_of src (b_sources b)) as [i|] eqn:Ei.
  - pose proof (index_of_bound _ _ _ Ei) as Hb. destruct (Z.eqb_spec i (zlen (b_sources b))); [lia|].
    repeat split; auto.
  - repeat split; cbn [b_sources b_source_map b_names b_name_map b_tokens]; auto.
    + intros s. cbn [assoc]. rewrite index_of_app, <- (Hs s), bytes_eqb_sym.
      destruct (bytes_eqb src s) eqn:E.
      * apply bytes_eqb_eq in E. subst s. rewrite (Hs src), Ei. reflexivity.
      * destruct (assoc s (b_source_map b)); reflexivity.
    + rewrite index_of_app, Ei, bytes_eqb_refl. reflexivity.
    + intros s i Hi. rewrite index_of_app, Hi. reflexivity.
Qed.
Lemma add_name_spec name b : builder_inv b ->
  let '(id, b') := add_name name b in
  builder_inv b'
  /\ id = match index_of name (b_names b) with Some i => i | None => zlen (b_names b) end
  /\ index_of name (b_names b') = Some id
  /\ (forall s i, index_of s (b_names b) = Some i -> index_of s (b_names b') = Some i)
  /\ b_sources b' = b_sources b /\ b_tokens b' = b_tokens b.
Proof.
  intros [Hs Hn]. unfold add_name. rewrite (Hn name).
  destruct (index_of name (b_names b)) as [i|] eqn:Ei.
  - repeat split; auto.
  - repeat split; cbn [b_sources b_source_map b_names b_name_map b_tokens]; auto.
    + intros s. cbn [assoc]. rewrite index_of_app, <- (Hn s), bytes_eqb_sym.
      destruct (bytes_eqb name s) eqn:E.
      * apply bytes_eqb_eq in E. subst s. rewrite (Hn name), Ei. reflexivity.
      * destruct (assoc s (b_name_map b)); reflexivity.
    + rewrite index_of_app, Ei, bytes_eqb_refl. reflexivity.
    + intros s i Hi. rewrite index_of_app, Hi. reflexivity.
Qed.
Lemma builder_new_inv f : builder_inv (builder_new f).
Proof. split; intros s; reflexivity. Qed.

(* index_of resolves: the id returned points at the string *)
Lemma index_of_znth s l i : index_of s l = Some i -> znth_opt l i = Some s.
Proof.
  revert i. induction l as [|y l IH]; intros i H; cbn [index_of znth_opt] in *; [discriminate|].
  destruct (bytes_eqb y s) eqn:E.
  - inversion H; subst. apply bytes_eqb_eq in E. subst. reflexivity.
  - destruct (index_of s l) as [j|] eqn:Ej; [|discriminate]. inversion H; subst.
    pose proof (index_of_bound _ _ _ Ej). destruct (Z.eqb_spec (j + 1) 0); [lia|]. destruct (Z.ltb_spec (j + 1) 0); [lia|].
    replace (j + 1 - 1) with j by lia. apply IH. reflexivity.
Qed.

(* the calls of the property, as operations; ids returned are observable *)
Inductive bop :=
| BAddSource (s : bytes) | BAddName (n : bytes)
| BAdd (dl dc sl sc : Z) (source name : option bytes) (rg : bool)
| BAddRaw (dl dc sl sc : Z) (source name : option Z) (rg : bool)
| BIgnore (id : Z) | BRoot (r : option bytes) | BFile (f : option bytes) | BDebugId (d : option Z).
Definition apply_bop (op : bop) (b : builder) : builder :=
  match op with
  | BAddSource s => snd (add_source s b)
  | BAddName n => snd (add_name n b)
  | BAdd dl dc sl sc so na rg => snd (add dl dc sl sc so na rg b)
  | BAddRaw dl dc sl sc so na rg => snd (add_raw dl dc sl sc so na rg b)
  | BIgnore id => b_add_to_ignore_list id b
  | BRoot r => b_set_source_root r b
  | BFile f => b_set_file f b
  | BDebugId d => b_set_debug_id d b
  end.

Lemma bop_preserves op b : builder_inv b -> builder_inv (apply_bop op b).
Proof.
  intros Hinv. destruct op; cbn [apply_bop]; try exact Hinv.
  - unfold add_source. pose proof (add_source_spec s NONE b Hinv) as H. destruct (add_source_with_id s NONE b). apply H.
  - pose proof (add_name_spec n b Hinv) as H. destruct (add_name n b). apply H.
  - unfold add, add_with_id.
    destruct source as [s|].
    + pose proof (add_source_spec s NONE b Hinv) as H. destruct (add_source_with_id s NONE b) as [sid b1]. destruct H as (H1 & _).
      destruct name as [n|].
      * pose proof (add_name_spec n b1 H1) as H. destruct (add_name n b1) as [nid b2]. destruct H as (H2 & _). exact H2.
      * exact H1.
    + destruct name as [n|].
      * pose proof (add_name_spec n b Hinv) as H. destruct (add_name n b) as [nid b2]. destruct H as (H2 & _). exact H2.
      * exact Hinv.
Qed.
Theorem C13_builder_inv ops : builder_inv (fold_left (fun b op => apply_bop op b) ops (builder_new None)).
Proof.
  assert (G : forall b, builder_inv b -> builder_inv (fold_left (fun b op => apply_bop op b) ops b)).
  { induction ops as [|op ops IH]; intros b Hb; [exact Hb|]. cbn [fold_left]. apply IH, bop_preserves, Hb. }
  apply G, builder_new_inv.
Qed.
(* after any history: adding a string returns the id of its first occurrence, or the next unused id, and that id resolves to it *)
Theorem C13_add_returns ops s :
  let b := fold_left (fun b op => apply_bop op b) ops (builder_new None) in
  let '(id, b') := add_source s b in
  id = match index_of s (b_sources b) with Some i => i | None => zlen (b_sources b) end
  /\ znth_opt (b_sources b') id = Some s.
Proof.
  cbv zeta. pose proof (C13_builder_inv ops) as Hinv.
  unfold add_source. pose proof (add_source_spec s NONE _ Hinv) as H.
  destruct (add_source_with_id s NONE _) as [id b']. destruct H as (_ & H2 & H3 & _).
  split; [exact H2|apply index_of_znth; exact H3].
Qed.
Print Assumptions C13_add_returns.
