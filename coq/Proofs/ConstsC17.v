(* Regenerated constant used by C17: the token window of get_original_function_name. *)
From SM Require Import Model.Base Model.Gen_Consts.
Lemma window_ok : GEN_NAME_WINDOW = 128%nat. Proof. reflexivity. Qed.
