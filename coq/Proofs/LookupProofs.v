(* C07 (lookup part) and C04: lookup_token never panics; the range offset is the distance on the token's own line. *)
From SM Require Import Model.Base Model.Mappings Model.Glb Proofs.BaseLemmas Proofs.GlbProofs.

Theorem C07_lookup toks line col :
  sorted tok_key toks -> Forall (fun t => is_u32 (t_dc t) = true) toks -> is_u32 col = true ->
  match lookup_token toks line col with
  | Panic _ => False
  | Err _ => False
  | Ok None => forall t, In t toks -> plt (line, col) (tok_key t)
  | Ok (Some (i, t, off)) =>
      glb_spec tok_key toks (line, col) (Some (i, t))
      /\ off = (if t_range t && (t_dl t =? line) then col - t_dc t else 0)
      /\ 0 <= off
  end.
Proof.
  intros Hs Hu Hc. unfold lookup_token. pose proof (glb_correct tok_key toks (line, col) Hs) as Hg.
  destruct (glb tok_key toks (line, col)) as [[i t]|]; [|exact Hg].
  destruct Hg as (Hn & Hle & Hrest).
  destruct (t_range t && (t_dl t =? line)) eqn:E.
  - pose proof E as E'. apply andb_true_iff in E'. destruct E' as [_ El]. apply Z.eqb_eq in El.
    assert (Hdc : t_dc t <= col).
    { unfold ple, tok_key in Hle. cbn [fst snd] in Hle. lia. }
    assert (Hut : is_u32 (t_dc t) = true) by (rewrite Forall_forall in Hu; apply Hu; eapply nth_opt_In; exact Hn).
    unfold u32_sub, checked. unfold is_u32 in *.
    assert (((0 <=? col - t_dc t) && (col - t_dc t <? two32)) = true) as -> by (unfold two32 in *; lia).
    cbn [bind]. split; [exact (conj Hn (conj Hle Hrest))|]. split; [rewrite E; reflexivity|lia].
  - split; [exact (conj Hn (conj Hle Hrest))|]. split; [rewrite E; reflexivity|lia].
Qed.
Print Assumptions C07_lookup.
