From SM Require Import Model.Base Model.Mappings Model.Adjust Proofs.BaseLemmas.

Definition nonempty (r : range) : Prop := plt (r_start r) (r_end r).
Inductive chain : list range -> Prop :=
| chain_nil : chain []
| chain_one r : nonempty r -> chain [r]
| chain_cons r1 r2 l : nonempty r1 -> ple (r_end r1) (r_start r2) -> chain (r2 :: l) -> chain (r1 :: r2 :: l).

Lemma chain_tail r l : chain (r :: l) -> chain l.
Proof. inversion 1; subst; [constructor|assumption]. Qed.
Lemma chain_head r l : chain (r :: l) -> nonempty r.
Proof. inversion 1; subst; assumption. Qed.
Lemma chain_after r l : chain (r :: l) -> forall x, In x l -> ple (r_end r) (r_start x) /\ nonempty x.
Proof.
  revert r. induction l as [|y l IH]; intros r Hc x Hx; [contradiction|].
  inversion Hc as [| |? ? ? Hne Hle Hc']; subst. destruct Hx as [->|Hx].
  - split; [exact Hle|eapply chain_head; exact Hc'].
  - destruct (IH y Hc' x Hx) as [H1 H2]. split; [|exact H2].
    eapply ple_trans; [exact Hle|]. eapply ple_trans; [|exact H1]. apply plt_ple. eapply chain_head; exact Hc'.
Qed.

Definition overlapsb (a o : range) : bool := pos_ltb (r_start o) (r_end a) && pos_ltb (r_start a) (r_end o).

Fixpoint mapM_place (ps : list (range * range)) : outcome (list rtoken) :=
  match ps with
  | [] => Ok []
  | (a, o) :: r => do t <- place a o; do ts <- mapM_place r; Ok (t :: ts)
  end.
Lemma mapM_place_app p q : mapM_place (p ++ q) = do x <- mapM_place p; do y <- mapM_place q; Ok (x ++ y).
Proof.
  induction p as [|[a o] p IH]; cbn [mapM_place app bind].
  - destruct (mapM_place q); reflexivity.
  - destruct (place a o); cbn [bind]; auto. rewrite IH.
    destruct (mapM_place p); cbn [bind]; auto. destruct (mapM_place q); reflexivity.
Qed.
Definition pairs_for (a : range) (os : list range) : list (range * range) := map (pair a) (filter (overlapsb a) os).

(* skipping: the dropped ranges do not overlap a, nor anything that starts at or after a's start *)
Lemma skip_before_spec a os : chain os ->
  exists dropped, os = dropped ++ skip_before a os
    /\ Forall (fun o => ple (r_end o) (r_start a)) dropped
    /\ match skip_before a os with [] => True | o :: _ => plt (r_start a) (r_end o) end.
Proof.
  induction os as [|o os IH]; intros Hc; cbn [skip_before].
  - exists []. repeat split; constructor.
  - destruct (pos_leb (r_end o) (r_start a)) eqn:E.
    + destruct (IH (chain_tail _ _ Hc)) as (d & H1 & H2 & H3). exists (o :: d). cbn [app]. rewrite <- H1.
      repeat split; auto. constructor; [apply pos_leb_spec; exact E|exact H2].
    + exists []. cbn [app]. repeat split; [constructor|]. apply pos_leb_false. exact E.
Qed.
Lemma no_overlap_before a' o : ple (r_end o) (r_start a') -> overlapsb a' o = false.
Proof.
  intros H. unfold overlapsb. apply andb_false_iff. right. apply pos_ltb_false. exact H.
Qed.
Lemma filter_dropped a' dropped rest : Forall (fun o => ple (r_end o) (r_start a')) dropped ->
  filter (overlapsb a') (dropped ++ rest) = filter (overlapsb a') rest.
Proof.
  induction 1 as [|o d Ho Hd IH]; [reflexivity|]. cbn [app filter]. rewrite no_overlap_before by exact Ho. exact IH.
Qed.

(* the emitting loop *)
Lemma no_overlap_after a os : chain os ->
  match os with [] => True | o :: _ => ple (r_end a) (r_start o) end -> filter (overlapsb a) os = [].
Proof.
  induction os as [|o os IH]; intros Hc Hh; [reflexivity|]. cbn [filter].
  assert (overlapsb a o = false) as -> by (unfold overlapsb; apply andb_false_iff; left; apply pos_ltb_false; exact Hh).
  apply IH; [eapply chain_tail; exact Hc|]. destruct os as [|o' os']; [exact I|].
  destruct (chain_after o (o' :: os') Hc o' (or_introl eq_refl)) as [H1 _].
  eapply ple_trans; [exact Hh|]. eapply ple_trans; [|exact H1]. apply plt_ple. eapply chain_head; exact Hc.
Qed.

Lemma emit_for_spec a : forall os, chain os ->
  match os with [] => True | o :: _ => plt (r_start a) (r_end o) end ->
  exists passed rest,
    os = passed ++ rest
    /\ Forall (fun o => plt (r_end o) (r_end a)) passed
    /\ emit_for a os = (do ts <- mapM_place (pairs_for a os); Ok (ts, rest)).
Proof.
  induction os as [|o os IH]; intros Hc Hh.
  - exists [], []. repeat split; constructor.
  - cbn [emit_for]. destruct (pos_ltb (r_start o) (r_end a)) eqn:Es.
    + assert (Hov : overlapsb a o = true).
      { unfold overlapsb. rewrite Es. apply pos_ltb_spec. exact Hh. }
      unfold pairs_for. cbn [filter]. rewrite Hov. cbn [map mapM_place].
      destruct (pos_leb (r_end a) (r_end o)) eqn:Ee.
      * (* a ends inside o: stop, keep o *)
        exists [], (o :: os). split; [reflexivity|]. split; [constructor|].
        assert (Hnone : filter (overlapsb a) os = []).
        { apply no_overlap_after; [eapply chain_tail; exact Hc|]. destruct os as [|o' os']; [exact I|].
          destruct (chain_after o (o' :: os') Hc o' (or_introl eq_refl)) as [H1 _].
          eapply ple_trans; [apply pos_leb_spec; exact Ee|exact H1]. }
        rewrite Hnone. cbn [map mapM_place]. destruct (place a o); reflexivity.
      * (* o ends before a does: advance *)
        assert (Hh' : match os with [] => True | o' :: _ => plt (r_start a) (r_end o') end).
        { destruct os as [|o' os']; [exact I|].
          destruct (chain_after o (o' :: os') Hc o' (or_introl eq_refl)) as [H1 H2].
          eapply plt_ple_trans; [exact Hh|]. eapply ple_trans; [exact H1|]. apply plt_ple. exact H2. }
        destruct (IH (chain_tail _ _ Hc) Hh') as (passed & rest & H1 & H2 & H3).
        exists (o :: passed), rest. split; [cbn [app]; rewrite <- H1; reflexivity|].
        split; [constructor; [apply pos_leb_false; exact Ee|exact H2]|].
        rewrite H3. unfold pairs_for. destruct (place a o); cbn [bind]; auto.
        destruct (mapM_place (map (pair a) (filter (overlapsb a) os))); reflexivity.
    + exists [], (o :: os). split; [reflexivity|]. split; [constructor|].
      assert (Hnone : filter (overlapsb a) (o :: os) = []).
      { apply no_overlap_after; [exact Hc|]. apply pos_ltb_false. exact Es. }
      unfold pairs_for. rewrite Hnone. reflexivity.
Qed.

Lemma flat_map_ext_in {A B} (f g : A -> list B) l : (forall x, In x l -> f x = g x) -> flat_map f l = flat_map g l.
Proof. induction l as [|x l IH]; intros H; [reflexivity|]. cbn. rewrite H by (left; reflexivity). rewrite IH; [reflexivity|]. intros y Hy. apply H. right. exact Hy. Qed.

Definition all_pairs (adjs os : list range) : list (range * range) := flat_map (fun a => pairs_for a os) adjs.

Theorem sweep_spec : forall adjs os, chain adjs -> chain os ->
  sweep adjs os = mapM_place (all_pairs adjs os).
Proof.
  induction adjs as [|a adjs IH]; intros os Ha Ho; [reflexivity|].
  cbn [sweep all_pairs flat_map]. destruct os as [|o0 os0] eqn:Eos.
  - (* break 'outer: nothing overlaps the empty list *)
    assert (forall l, flat_map (fun a0 => pairs_for a0 []) l = []) as -> by (induction l; auto).
    reflexivity.
  - rewrite <- Eos in *. clear Eos.
    destruct (skip_before_spec a os Ho) as (dropped & Hd1 & Hd2 & Hd3).
    assert (Hc1 : chain (skip_before a os)).
    { clear -Ho. induction os as [|o os IH]; cbn [skip_before]; [constructor|].
      destruct (pos_leb (r_end o) (r_start a)); [apply IH; eapply chain_tail; exact Ho|exact Ho]. }
    destruct (emit_for_spec a (skip_before a os) Hc1 Hd3) as (passed & rest & He1 & He2 & He3).
    rewrite He3.
    assert (Hpa : pairs_for a os = pairs_for a (skip_before a os)).
    { unfold pairs_for. rewrite Hd1 at 1. rewrite filter_dropped by exact Hd2. reflexivity. }
    rewrite mapM_place_app, Hpa.
    destruct (mapM_place (pairs_for a (skip_before a os))) as [ts|e|pn]; cbn [bind fst snd]; auto.
    assert (Hc2 : chain rest).
    { clear -Hc1 He1. rewrite He1 in Hc1. clear He1. induction passed as [|x p IHp]; [exact Hc1|]. apply IHp. eapply chain_tail; exact Hc1. }
    rewrite (IH rest (chain_tail _ _ Ha) Hc2).
    (* later adjustment ranges start at or after a's end: what was dropped or passed cannot overlap them *)
    assert (Hsame : all_pairs adjs os = all_pairs adjs rest).
    { unfold all_pairs. apply flat_map_ext_in. intros a' Ha'.
      destruct (chain_after a adjs Ha a' Ha') as [Hle _].
      unfold pairs_for. f_equal. rewrite Hd1, He1, app_assoc. apply filter_dropped.
      apply Forall_app. split.
      - eapply Forall_impl; [|exact Hd2]. intros x Hx. eapply ple_trans; [exact Hx|].
        eapply ple_trans; [apply plt_ple; eapply chain_head; exact Ha|exact Hle].
      - eapply Forall_impl; [|exact He2]. intros x Hx. eapply ple_trans; [apply plt_ple; exact Hx|exact Hle]. }
    fold (all_pairs adjs os). rewrite Hsame. destruct (mapM_place (all_pairs adjs rest)); reflexivity.
Qed.
Print Assumptions sweep_spec.

(* ---------- from tokens to chains ---------- *)
Fixpoint strict_keys (key : rtoken -> pos) (ts : list rtoken) : Prop :=
  match ts with
  | [] => True
  | t :: r => (snd (key t) < u32_max /\ fst (key t) <= u32_max) /\ match r with [] => True | n :: _ => plt (key t) (key n) end /\ strict_keys key r
  end.

Lemma pos_min_spec a b : pos_min a b = a /\ ple a b \/ pos_min a b = b /\ plt b a.
Proof. unfold pos_min. destruct (pos_leb a b) eqn:E; [left; split; [reflexivity|apply pos_leb_spec; exact E]|right; split; [reflexivity|apply pos_leb_false; exact E]]. Qed.
Lemma pos_max_spec a b : pos_max a b = b /\ ple a b \/ pos_max a b = a /\ plt b a.
Proof. unfold pos_max. destruct (pos_leb a b) eqn:E; [left; split; [reflexivity|apply pos_leb_spec; exact E]|right; split; [reflexivity|apply pos_leb_false; exact E]]. Qed.

Lemma ranges_of_chain key ts : strict_keys key ts -> chain (ranges_of key ts).
Proof.
  induction ts as [|t ts IH]; intros H; [constructor|].
  destruct H as ((Hc & Hcl) & Hn & Hr). cbn [ranges_of].
  assert (Hne : nonempty (mkRange (key t) (pos_min (match ts with [] => (u32_max, u32_max) | n :: _ => key n end) (fst (key t), u32_max)) t)).
  { unfold nonempty. cbn [r_start r_end].
    assert (Heol : plt (key t) (fst (key t), u32_max)) by (unfold plt; cbn [fst snd]; lia).
    destruct ts as [|n ts'].
    - destruct (pos_min_spec (u32_max, u32_max) (fst (key t), u32_max)) as [[-> Hle]|[-> Hlt]]; [|exact Heol].
      unfold ple in Hle. unfold plt. cbn [fst snd] in *. destruct (key t) as [l c]; cbn [fst snd] in *. lia.
    - destruct (pos_min_spec (key n) (fst (key t), u32_max)) as [[-> _]|[-> _]]; [exact Hn|exact Heol]. }
  destruct ts as [|n ts']; [constructor; exact Hne|].
  specialize (IH Hr). cbn [ranges_of] in IH |- *. constructor; [exact Hne| |exact IH].
  cbn [r_start r_end]. destruct (pos_min_spec (key n) (fst (key t), u32_max)) as [[-> _]|[-> Hlt]]; [apply ple_refl|apply plt_ple; exact Hlt].
Qed.

(* for non-empty ranges the two ways of saying "they overlap" agree *)
Lemma plt_max_min x y u v : plt (pos_max x y) (pos_min u v) <-> plt x u /\ plt x v /\ plt y u /\ plt y v.
Proof.
  destruct (pos_max_spec x y) as [[-> Hxy]|[-> Hxy]]; destruct (pos_min_spec u v) as [[-> Huv]|[-> Huv]]; split.
  - intros H. repeat split; auto.
    + eapply ple_plt_trans; eassumption.
    + eapply ple_plt_trans; [exact Hxy|]. eapply plt_ple_trans; eassumption.
    + eapply plt_ple_trans; eassumption.
  - intros (_ & _ & H & _). exact H.
  - intros H. repeat split; auto.
    + eapply ple_plt_trans; [exact Hxy|]. eapply plt_ple_trans; [exact H|apply plt_ple; exact Huv].
    + eapply ple_plt_trans; eassumption.
    + eapply plt_ple_trans; [exact H|apply plt_ple; exact Huv].
  - intros (_ & _ & _ & H). exact H.
  - intros H. repeat split; auto.
    + eapply plt_ple_trans; eassumption.
    + eapply plt_ple_trans; [apply Hxy|]. apply plt_ple. exact H.
    + eapply plt_ple_trans; [exact Hxy|]. apply plt_ple. eapply plt_ple_trans; eassumption.
  - intros (H & _). exact H.
  - intros H. repeat split; auto.
    + eapply plt_ple_trans; [exact H|apply plt_ple; exact Huv].
    + eapply plt_ple_trans; [exact Hxy|]. apply plt_ple. eapply plt_ple_trans; [exact H|apply plt_ple; exact Huv].
    + eapply plt_ple_trans; [exact Hxy|apply plt_ple; exact H].
  - intros (_ & H & _). exact H.
Qed.
Lemma overlapsb_spec a o : nonempty a -> nonempty o ->
  overlapsb a o = pos_ltb (pos_max (r_start o) (r_start a)) (pos_min (r_end o) (r_end a)).
Proof.
  unfold nonempty, overlapsb. intros Ha Ho. apply eq_true_iff_eq.
  rewrite andb_true_iff, !pos_ltb_spec, plt_max_min. tauto.
Qed.
Print Assumptions overlapsb_spec.

(* ---------- placing a token: no overflow below 2^30, and the value the specification names ---------- *)
From SM Require Import Spec.Adjust.
Definition two30 := 1073741824.
Definition small_tok (t : rtoken) : Prop :=
  0 <= t_dl t < two30 /\ 0 <= t_dc t < two30 /\ 0 <= t_sl t < two30 /\ 0 <= t_sc t < two30.
Definition adj_range_ok (a : range) : Prop :=
  small_tok (r_val a) /\ r_start a = src_key (r_val a) /\ ple (r_end a) (fst (r_start a), u32_max) /\ nonempty a.
Definition orig_range_ok (o : range) : Prop :=
  small_tok (r_val o) /\ r_start o = dst_key (r_val o).

Lemma wrap_i32_small z : 0 <= z < two30 -> wrap_i32 z = z.
Proof. unfold wrap_i32, two31, two32, two30. intros. rewrite Z.mod_small; lia. Qed.
Lemma wrap_u32_small z : 0 <= z < two32 -> wrap_u32 z = z.
Proof. unfold wrap_u32. intros. apply Z.mod_small. exact H. Qed.

Lemma ple_neq_plt' a b : ple a b -> a <> b -> plt a b.
Proof. unfold ple, plt. destruct a as [a1 a2], b as [b1 b2]; cbn [fst snd]. intros H Hn. assert (~ (a1 = b1 /\ a2 = b2)) by (intros [? ?]; subst; auto). lia. Qed.

Lemma place_spec a o : adj_range_ok a -> orig_range_ok o -> overlapsb a o = true ->
  place a o = Ok (mkTok (fst (pos_max (r_start o) (r_start a)) + (t_dl (r_val a) - t_sl (r_val a)))
                        (snd (pos_max (r_start o) (r_start a)) + (t_dc (r_val a) - t_sc (r_val a)))
                        (t_sl (r_val o)) (t_sc (r_val o)) (t_src (r_val o)) (t_name (r_val o)) (t_range (r_val o))).
Proof.
  intros ((Ha1 & Ha2 & Ha3 & Ha4) & Has & Hae & Hane) ((Ho1 & Ho2 & Ho3 & Ho4) & Hos) Hov.
  unfold overlapsb in Hov. apply andb_true_iff in Hov. destruct Hov as [H1 H2].
  apply pos_ltb_spec in H1, H2.
  set (p := pos_max (r_start o) (r_start a)).
  assert (Hp : ple (r_start a) p /\ plt p (r_end a) /\ (p = r_start o \/ p = r_start a)).
  { unfold p. destruct (pos_max_spec (r_start o) (r_start a)) as [[-> Hle]|[-> Hlt]].
    - split; [apply ple_refl|]. split; [exact Hane|auto].
    - split; [apply plt_ple; exact Hlt|]. split; [exact H1|auto]. }
  destruct Hp as (Hp1 & Hp2 & Hp3).
  rewrite Has in Hp1, Hae. unfold src_key in Hp1, Hae. cbn [fst snd] in Hae.
  assert (Hpl : fst p = t_sl (r_val a) /\ t_sc (r_val a) <= snd p).
  { assert (Hpe : plt p (t_sl (r_val a), u32_max)) by (eapply plt_ple_trans; [exact Hp2|exact Hae]).
    unfold ple in Hp1. unfold plt in Hpe. cbn [fst snd] in *. lia. }
  assert (Hps : 0 <= snd p < two30).
  { destruct Hp3 as [-> | ->]; [rewrite Hos; unfold dst_key; cbn [snd]; lia|rewrite Has; unfold src_key; cbn [snd]; lia]. }
  unfold place. fold p. destruct Hpl as [Hpl1 Hpl2].
  rewrite !wrap_i32_small by lia. rewrite Hpl1.
  unfold i32_sub, i32_add, checked, in_i32, two31 in *. unfold two30 in *.
  repeat match goal with |- context [(?x <=? ?y) && (?u <? ?v)] =>
    let H := fresh in assert (H : ((x <=? y) && (u <? v)) = true) by lia; rewrite H; clear H end.
  cbn [bind].
  rewrite ?wrap_i32_small by (unfold two30; lia).
  repeat match goal with |- context [(?x <=? ?y) && (?u <? ?v)] =>
    let H := fresh in assert (H : ((x <=? y) && (u <? v)) = true) by lia; rewrite H; clear H end.
  cbn [bind].
  rewrite !wrap_u32_small by (unfold two32; lia). reflexivity.
Qed.

(* ---------- the whole operation ---------- *)
Lemma ranges_of_props key ts : Forall small_tok ts ->
  Forall (fun r => small_tok (r_val r) /\ r_start r = key (r_val r) /\ ple (r_end r) (fst (r_start r), u32_max)) (ranges_of key ts).
Proof.
  induction 1 as [|t ts Ht Hts IH]; [constructor|]. cbn [ranges_of]. constructor; [|exact IH].
  cbn [r_val r_start r_end]. split; [exact Ht|]. split; [reflexivity|].
  match goal with |- ple (pos_min ?x ?y) _ => destruct (pos_min_spec x y) as [[-> H]|[-> H]] end;
    [exact H|apply ple_refl].
Qed.
Lemma chain_nonempty l : chain l -> Forall nonempty l.
Proof.
  induction 1 as [|r Hr|r1 r2 l Hn Hle Hc IH]; [constructor|constructor; [exact Hr|constructor]|].
  constructor; [exact Hn|exact IH].
Qed.

Lemma mapM_place_pairs adjs os :
  Forall adj_range_ok adjs -> Forall orig_range_ok os -> Forall nonempty os ->
  mapM_place (all_pairs adjs os) = Ok (flat_map (fun a => flat_map (fun o => overlap_token a o) os) adjs).
Proof.
  intros Ha Ho Hne. induction Ha as [|a adjs Haa Ha IH]; [reflexivity|].
  unfold all_pairs in *. cbn [flat_map]. rewrite mapM_place_app, IH.
  assert (G : mapM_place (pairs_for a os) = Ok (flat_map (fun o => overlap_token a o) os)).
  { unfold pairs_for. clear IH. induction Ho as [|o os Hoo Ho IHo]; [reflexivity|].
    inversion Hne as [|? ? Hno Hne']; subst. cbn [filter flat_map].
    assert (Hane : nonempty a) by apply Haa.
    unfold overlap_token at 1. rewrite <- (overlapsb_spec a o Hane Hno).
    destruct (overlapsb a o) eqn:Eo.
    - cbn [map mapM_place]. rewrite (place_spec a o Haa Hoo Eo). cbn [bind]. rewrite (IHo Hne'). cbn [bind app]. reflexivity.
    - cbn [app]. apply IHo. exact Hne'. }
  rewrite G. reflexivity.
Qed.

Theorem C10_strict orig adj :
  Forall small_tok orig -> Forall small_tok adj ->
  strict_keys dst_key (isort dst_key orig) -> strict_keys src_key (isort src_key adj) ->
  adjust_mappings orig adj = Ok (spec_adjust orig adj).
Proof.
  intros Hso Hsa Hko Hka. unfold adjust_mappings, spec_adjust, stretches, create_ranges.
  set (O := ranges_of dst_key (isort dst_key orig)). set (A := ranges_of src_key (isort src_key adj)).
  assert (HcO : chain O) by (apply ranges_of_chain; exact Hko).
  assert (HcA : chain A) by (apply ranges_of_chain; exact Hka).
  assert (Hsmall : forall key l, Forall small_tok l -> Forall small_tok (isort key l)).
  { intros key l H. eapply Permutation.Permutation_Forall; [apply isort_perm|exact H]. }
  assert (HO : Forall orig_range_ok O).
  { pose proof (ranges_of_props dst_key _ (Hsmall dst_key _ Hso)) as H. eapply Forall_impl; [|exact H].
    intros r (H1 & H2 & _). split; assumption. }
  assert (HA : Forall adj_range_ok A).
  { pose proof (ranges_of_props src_key _ (Hsmall src_key _ Hsa)) as H. pose proof (chain_nonempty _ HcA) as Hn.
    rewrite Forall_forall in *. intros r Hr. destruct (H r Hr) as (H1 & H2 & H3).
    split; [exact H1|]. split; [exact H2|]. split; [exact H3|apply Hn; exact Hr]. }
  rewrite sweep_spec by assumption. rewrite mapM_place_pairs by (try assumption; apply chain_nonempty; exact HcO).
  destruct O as [|o O'] eqn:EO.
  - f_equal. assert (forall l : list range, flat_map (fun a => flat_map (fun o => overlap_token a o) []) l = []) as -> by (induction l; auto). reflexivity.
  - reflexivity.
Qed.
Print Assumptions C10_strict.
