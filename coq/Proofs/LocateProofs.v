(* C18 (reference discovery): the result is the first line that begins with one of the two prefixes. *)
From SM Require Import Model.Base Model.Detector.

Section L.
  Variable is_ws : Z -> bool.
  Variables p_new p_legacy : bytes.
  Variable plen : nat.
  Notation locate := (locate_lines is_ws p_new p_legacy plen).
  Definition has_prefix (l : bytes) : bool := starts_with l p_new || starts_with l p_legacy.

  Theorem C18_locate_lines ls :
    match locate ls with
    | None => Forall (fun l => has_prefix l = false) ls
    | Some r => exists pre l post, ls = pre ++ l :: post /\ Forall (fun x => has_prefix x = false) pre /\ has_prefix l = true
                /\ r = (if starts_with l [47;47;64] then LegacyRef (trim is_ws (skipn plen l)) else Ref (trim is_ws (skipn plen l)))
    end.
  Proof.
    induction ls as [|l ls IH]; cbn [locate_lines]; [constructor|].
    fold (has_prefix l). destruct (has_prefix l) eqn:E.
    - destruct (starts_with l [47;47;64]) eqn:E3; exists [], l, ls; rewrite E3; repeat split; auto.
    - destruct (locate ls) as [r|].
      + destruct IH as (pre & x & post & H1 & H2 & H3 & H4). exists (l :: pre), x, post. rewrite H1. repeat split; auto.
      + constructor; assumption.
  Qed.
End L.
Print Assumptions C18_locate_lines.
