(* C15 (slices): get_line_slice returns the characters covering code units [c, c+n), unless the start
   column lies strictly inside a surrogate pair and n > 0 (known finding c15_start_inside_pair). *)
From SM Require Import Model.Base Model.SourceView Spec.SourceView.

Lemma len16_pos ch : 1 <= len_utf16 ch <= 2.
Proof. unfold len_utf16. destruct (ch <? 65536); lia. Qed.
Lemma units_nonneg line : 0 <= units line.
Proof. unfold units. induction line as [|ch r IH]; cbn [fold_right]; [lia|]. pose proof (len16_pos ch). lia. Qed.
Lemma units_cons ch r : units (ch :: r) = len_utf16 ch + units r.
Proof. reflexivity. Qed.

(* nothing at or after position u >= c + n is covered *)
Lemma covering_after line : forall u c n, c + n <= u -> covering_go line u c n = [].
Proof.
  induction line as [|ch r IH]; intros u c n H; cbn [covering_go]; [reflexivity|].
  pose proof (len16_pos ch). destruct (Z.ltb_spec (Z.max u c) (Z.min (u + len_utf16 ch) (c + n))); [lia|].
  cbn [app]. apply IH. lia.
Qed.

(* the second loop, started at a position u with c <= u *)
Lemma take_to_spec line : forall u c n, c <= u -> 0 <= n ->
  let '(taken, idx') := take_to line u (c + n) in
  taken = covering_go line u c n
  /\ (idx' <? c + n) = (u + units line <? c + n)
  /\ u <= idx'.
Proof.
  induction line as [|ch r IH]; intros u c n Hu Hn; cbn [take_to covering_go].
  - cbn [units fold_right]. rewrite Z.add_0_r. repeat split; lia.
  - pose proof (len16_pos ch) as Hl. pose proof (units_nonneg r) as Hr. rewrite units_cons.
    destruct (Z.leb_spec (c + n) u) as [Hstop|Hgo].
    + destruct (Z.ltb_spec (Z.max u c) (Z.min (u + len_utf16 ch) (c + n))); [lia|].
      cbn [app]. rewrite covering_after by lia. repeat split; [|lia].
      destruct (Z.ltb_spec u (c + n)); [lia|]. destruct (Z.ltb_spec (u + (len_utf16 ch + units r)) (c + n)); [lia|reflexivity].
    + specialize (IH (u + len_utf16 ch) c n ltac:(lia) Hn).
      destruct (take_to r (u + len_utf16 ch) (c + n)) as [t i]. destruct IH as (H1 & H2 & H3).
      destruct (Z.ltb_spec (Z.max u c) (Z.min (u + len_utf16 ch) (c + n))); [|lia].
      cbn [app]. repeat split; [rewrite H1; reflexivity| |lia].
      rewrite H2. f_equal. lia.
Qed.

(* the first loop: nothing that ends at or before c is covered *)
Lemma skip_to_spec line : forall u c n, u <= c -> 0 <= n ->
  (0 < n -> start_inside_pair_go line u c = false) ->
  let '(rest, idx) := skip_to line u c in
  covering_go line u c n = covering_go rest idx c n
  /\ u + units line = idx + units rest
  /\ (rest <> [] -> c <= idx)
  /\ (rest = [] -> idx = u + units line)
  /\ (0 < n -> rest <> [] -> idx = c).
Proof.
  induction line as [|ch r IH]; intros u c n Hu Hn Hsp; cbn [skip_to].
  - cbn [units fold_right]. split; [reflexivity|]. split; [reflexivity|]. split; [intros H; exfalso; apply H; reflexivity|]. split; [intros _; lia|]. intros _ H; exfalso; apply H; reflexivity.
  - pose proof (len16_pos ch) as Hl. destruct (Z.leb_spec c u) as [Hstop|Hgo].
    + assert (u = c) by lia. subst u. repeat split; try lia; try reflexivity; intros; discriminate.
    + cbn [start_inside_pair_go] in Hsp.
      assert (Hns : 0 < n -> u + len_utf16 ch <= c).
      { intros Hn0. specialize (Hsp Hn0). apply orb_false_iff in Hsp. destruct Hsp as [Hs _].
        destruct (Z.eqb_spec (len_utf16 ch) 2); destruct (Z.eqb_spec c (u + 1)); cbn in Hs; try discriminate; lia. }
      destruct (Z.leb_spec (u + len_utf16 ch) c) as [Hfit|Hstraddle].
      * specialize (IH (u + len_utf16 ch) c n Hfit Hn).
        assert (Hsp' : 0 < n -> start_inside_pair_go r (u + len_utf16 ch) c = false).
        { intros Hn0. specialize (Hsp Hn0). apply orb_false_iff in Hsp. apply Hsp. }
        specialize (IH Hsp'). destruct (skip_to r (u + len_utf16 ch) c) as [rest idx].
        destruct IH as (H1 & H2 & H3 & H4 & H5). cbn [covering_go].
        destruct (Z.ltb_spec (Z.max u c) (Z.min (u + len_utf16 ch) (c + n))); [lia|]. cbn [app].
        rewrite units_cons. repeat split; auto; try lia. intros Hre. rewrite (H4 Hre). lia.
      * (* the character straddles c: only possible when n = 0 *)
        assert (n = 0) by (destruct (Z.ltb_spec 0 n); [specialize (Hns H); lia|lia]). subst n.
        specialize (IH (u + len_utf16 ch) c 0).
        (* past c already: the loop stops immediately on the rest *)
        assert (Hskip : skip_to r (u + len_utf16 ch) c = (r, u + len_utf16 ch) \/ r = []).
        { destruct r as [|x r']; [right; reflexivity|left]. cbn [skip_to]. destruct (Z.leb_spec c (u + len_utf16 ch)); [reflexivity|lia]. }
        destruct Hskip as [Hs|Hs].
        -- rewrite Hs. cbn [covering_go]. destruct (Z.ltb_spec (Z.max u c) (Z.min (u + len_utf16 ch) (c + 0))); [lia|]. cbn [app].
           rewrite units_cons. repeat split; auto; try lia. intros ->. cbn [units fold_right]. lia.
        -- subst r. cbn [skip_to covering_go]. destruct (Z.ltb_spec (Z.max u c) (Z.min (u + len_utf16 ch) (c + 0))); [lia|]. cbn [app].
           rewrite units_cons. repeat split; auto; try lia; intros; try contradiction. cbn [units fold_right]. lia.
Qed.

Theorem C15_slice line c n : 0 <= c -> 0 <= n -> start_inside_pair line c n = false ->
  get_line_slice line c n = covering line c n.
Proof.
  intros Hc Hn Hsp. unfold get_line_slice, covering.
  assert (Hsp' : 0 < n -> start_inside_pair_go line 0 c = false).
  { intros Hn0. unfold start_inside_pair in Hsp. destruct (Z.ltb_spec 0 n); [exact Hsp|lia]. }
  pose proof (skip_to_spec line 0 c n Hc Hn Hsp') as Hs.
  destruct (skip_to line 0 c) as [rest idx]. destruct Hs as (S1 & S2 & S3 & S4 & S5).
  destruct rest as [|x rest'].
  - cbn [take_to]. rewrite (S4 eq_refl). rewrite Z.add_0_l in *. rewrite S1. cbn [covering_go]. reflexivity.
  - assert (Hci : c <= idx) by (apply S3; discriminate).
    pose proof (take_to_spec (x :: rest') idx c n Hci Hn) as Ht.
    destruct (take_to (x :: rest') idx (c + n)) as [taken idx']. destruct Ht as (T1 & T2 & T3).
    rewrite T2. rewrite Z.add_0_l in S2. rewrite <- S2. rewrite S1, T1. reflexivity.
Qed.
Print Assumptions C15_slice.
