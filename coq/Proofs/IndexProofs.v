(* C08, mathematical core: looking a position up in the section chosen by the index gives the
   same token as looking it up in the concatenation of the shifted sections. *)
From SM Require Import Model.Base Model.Mappings Model.Glb Proofs.BaseLemmas Proofs.GlbProofs.
From Coq Require Import Sorted.

(* ---------- glb determines its result ---------- *)
Section U.
  Context {A : Type} (key : A -> pos).
  Notation sorted := (sorted key).

  Lemma glb_tail l q i x : sorted l -> glb key l q = Some (i, x) -> key x <> q ->
    forall j y, (i < j)%nat -> nth_opt l j = Some y -> plt q (key y).
  Proof.
    intros Hs Hg Hne. unfold glb in Hg. pose proof (bsearch_ok key l q Hs) as Hbs.
    destruct (bsearch key l q) as [k|k]; cbn [glb_with bs_ok] in *.
    - destruct Hbs as (x0 & Hx0 & Hk0).
      destruct (walk_back_spec key l q k x0 Hs Hx0 Hk0) as (_ & (y & Hy & Hky) & _).
      rewrite Hy in Hg. inversion Hg; subst. contradiction.
    - destruct Hbs as (Hlen & Hlo & Hhi). destruct k as [|k]; [discriminate|].
      destruct (nth_opt l k) as [x0|] eqn:E; [|discriminate]. inversion Hg; subst.
      intros j y Hj Hy. eapply Hhi; [|exact Hy]. lia.
  Qed.

  Lemma nth_opt_inj (l : list A) i x y : nth_opt l i = Some x -> nth_opt l i = Some y -> x = y.
  Proof. congruence. Qed.

  Theorem glb_unique l q i x : sorted l -> nth_opt l i = Some x -> ple (key x) q ->
    (key x = q -> forall j y, (j < i)%nat -> nth_opt l j = Some y -> plt (key y) q) ->
    (key x <> q -> forall j y, (i < j)%nat -> nth_opt l j = Some y -> plt q (key y)) ->
    glb key l q = Some (i, x).
  Proof.
    intros Hs Hx Hle Hfirst Hlast.
    pose proof (glb_correct key l q Hs) as Hg. pose proof (glb_tail l q) as Ht.
    destruct (glb key l q) as [[i' x']|] eqn:E.
    - destruct Hg as (Hx' & Hle' & Hmax & Hfirst'). specialize (Ht i' x' Hs eq_refl).
      assert (Hii : i' = i).
      { destruct (Nat.lt_trichotomy i' i) as [Hlt|[Heq|Hgt]]; [|exact Heq|]; exfalso.
        - (* i' < i *)
          assert (Hxx : ple (key x') (key x)) by (eapply sorted_nth; try eassumption; lia).
          assert (Hxx' : ple (key x) (key x')) by (apply Hmax; [eapply nth_opt_In; eassumption|exact Hle]).
          assert (Hk : key x = key x') by (apply ple_antisym; assumption).
          destruct (pos_eqb (key x) q) eqn:Eq.
          + apply pos_eqb_spec in Eq. specialize (Hfirst Eq i' x' Hlt Hx'). rewrite <- Hk, Eq in Hfirst.
            eapply plt_irrefl; exact Hfirst.
          + assert (Hne : key x' <> q) by (intros Hc; rewrite <- Hk in Hc; apply pos_eqb_spec in Hc; congruence).
            specialize (Ht Hne i x Hlt Hx). eapply plt_irrefl. eapply plt_ple_trans; eassumption.
        - (* i < i' *)
          assert (Hxx : ple (key x) (key x')) by (eapply sorted_nth; try eassumption; lia).
          destruct (pos_eqb (key x) q) eqn:Eq.
          + apply pos_eqb_spec in Eq. rewrite Eq in Hxx.
            assert (Hk' : key x' = q) by (apply ple_antisym; assumption).
            specialize (Hfirst' Hk' i x Hgt Hx). rewrite Eq in Hfirst'. eapply plt_irrefl; exact Hfirst'.
          + assert (Hne : key x <> q) by (intros Hc; apply pos_eqb_spec in Hc; congruence).
            specialize (Hlast Hne i' x' Hgt Hx'). eapply plt_irrefl. eapply plt_ple_trans; eassumption. }
      subst i'. f_equal. f_equal. congruence.
    - exfalso. eapply plt_irrefl. eapply plt_ple_trans; [apply Hg; eapply nth_opt_In; exact Hx|exact Hle].
  Qed.

  Lemma glb_first l q i x : sorted l -> glb key l q = Some (i, x) ->
    nth_opt l i = Some x /\ ple (key x) q
    /\ (key x = q -> forall j y, (j < i)%nat -> nth_opt l j = Some y -> plt (key y) q)
    /\ (key x <> q -> forall j y, (i < j)%nat -> nth_opt l j = Some y -> plt q (key y)).
  Proof.
    intros Hs Hg. pose proof (glb_correct key l q Hs) as Hc. rewrite Hg in Hc.
    destruct Hc as (H1 & H2 & _ & H4). repeat split; try assumption. intros Hne. eapply glb_tail; eassumption.
  Qed.

  Lemma sorted_app (a b : list A) : sorted a -> sorted b ->
    (forall x y, In x a -> In y b -> ple (key x) (key y)) -> sorted (a ++ b).
  Proof.
    intros Ha Hb Hab. induction Ha as [|x a Ha IH Hall]; cbn [app]; [exact Hb|].
    constructor.
    - apply IH. intros u v Hu Hv. apply Hab; [right; exact Hu|exact Hv].
    - apply Forall_app. split; [exact Hall|]. apply Forall_forall. intros y Hy. apply Hab; [left; reflexivity|exact Hy].
  Qed.

  Lemma nth_opt_app_r (a b : list A) i : nth_opt (a ++ b) (length a + i) = nth_opt b i.
  Proof. induction a as [|x a IH]; cbn; [reflexivity|exact IH]. Qed.
  Lemma nth_opt_app_l (a b : list A) i : (i < length a)%nat -> nth_opt (a ++ b) i = nth_opt a i.
  Proof. revert i; induction a as [|x a IH]; intros [|i] H; cbn in *; try lia; [reflexivity|]. apply IH. lia. Qed.
  Lemma nth_opt_split (l : list A) i x : nth_opt l i = Some x ->
    l = firstn i l ++ x :: skipn (S i) l /\ length (firstn i l) = i.
  Proof.
    revert i; induction l as [|y l IH]; intros [|i] H; cbn in *; try discriminate.
    - inversion H; subst. split; reflexivity.
    - destruct (IH i H) as [H1 H2]. split; [f_equal; exact H1|f_equal; exact H2].
  Qed.
End U.

(* ---------- the shift applied by an index section ---------- *)
Definition shift_key (off k : pos) : pos :=
  (fst k + fst off, if fst k =? 0 then snd k + snd off else snd k).
Definition shift (off : pos) (t : rtoken) : rtoken :=
  mkTok (t_dl t + fst off) (if t_dl t =? 0 then t_dc t + snd off else t_dc t)
        (t_sl t) (t_sc t) (t_src t) (t_name t) (t_range t).
Definition rel (off q : pos) : pos :=
  (fst q - fst off, if fst q =? fst off then snd q - snd off else snd q).

Lemma tok_key_shift off t : tok_key (shift off t) = shift_key off (tok_key t).
Proof. reflexivity. Qed.

Ltac pos_crush :=
  unfold ple, plt, shift_key, rel in *; cbn [fst snd] in *;
  repeat match goal with
         | |- context [?a =? ?b] => destruct (Z.eqb_spec a b)
         | H : context [?a =? ?b] |- _ => destruct (Z.eqb_spec a b)
         end; cbn [fst snd] in *; try lia.

Lemma shift_ple off k q : ple (shift_key off k) q <-> ple k (rel off q).
Proof. destruct off, k, q. pos_crush. Qed.
Lemma shift_plt off k q : plt (shift_key off k) q <-> plt k (rel off q).
Proof. destruct off, k, q. pos_crush. Qed.
Lemma shift_pgt off k q : plt q (shift_key off k) <-> plt (rel off q) k.
Proof. destruct off, k, q. pos_crush. Qed.
Lemma shift_eq off k q : shift_key off k = q <-> k = rel off q.
Proof.
  destruct off as [a b], k as [c d], q as [e f]. unfold shift_key, rel; cbn [fst snd].
  split; intros H; inversion H; subst; clear H.
  - destruct (Z.eqb_spec c 0); destruct (Z.eqb_spec (c + a) a); try lia; f_equal; lia.
  - destruct (Z.eqb_spec e a); destruct (Z.eqb_spec (e - a) 0); try lia; f_equal; lia.
Qed.
Lemma shift_mono off k1 k2 : ple k1 k2 -> 0 <= fst k1 -> ple (shift_key off k1) (shift_key off k2).
Proof. destruct off, k1, k2. pos_crush. Qed.
Lemma shift_ge off k : 0 <= fst k -> 0 <= snd k -> ple off (shift_key off k).
Proof. destruct off, k. pos_crush. Qed.


Section Gen.
  Context {A : Type} (key : A -> pos) (sh : pos -> A -> A).
  Hypothesis Hsh : forall off a, key (sh off a) = shift_key off (key a).
  Definition nonneg (a : A) : Prop := 0 <= fst (key a) /\ 0 <= snd (key a).
Lemma sorted_shift off ts : sorted key ts -> Forall nonneg ts -> sorted key (map (sh off) ts).
Proof.
  intros Hs Hn. induction Hs as [|t ts Hs IH Hall]; cbn [map]; [constructor|].
  inversion Hn as [|? ? Ht Hn']; subst. constructor; [apply IH; exact Hn'|].
  apply Forall_forall. intros y Hy. apply in_map_iff in Hy. destruct Hy as (u & <- & Hu).
  unfold kle. rewrite !Hsh. apply shift_mono; [|apply Ht].
  rewrite Forall_forall in Hall. exact (Hall u Hu).
Qed.

(* ---------- one selected section inside a sorted concatenation ---------- *)
Theorem glb_in_section pre post off toks q i t :
  sorted key (pre ++ map (sh off) toks ++ post) -> sorted key toks ->
  (forall y, In y pre -> plt (key y) off) -> (forall y, In y post -> plt q (key y)) ->
  Forall nonneg toks -> ple off q ->
  glb key toks (rel off q) = Some (i, t) ->
  glb key (pre ++ map (sh off) toks ++ post) q = Some ((length pre + i)%nat, sh off t).
Proof.
  intros Hall Hs Hpre Hpost Hnn Hoq Hg.
  destruct (glb_first key toks (rel off q) i t Hs Hg) as (Hn & Hle & Hfirst & Hlast).
  assert (Hi : (i < length toks)%nat) by (eapply nth_opt_lt; exact Hn).
  assert (Hnth : forall j, (j < length toks)%nat ->
            nth_opt (pre ++ map (sh off) toks ++ post) (length pre + j) = option_map (sh off) (nth_opt toks j)).
  { intros j Hj. rewrite nth_opt_app_r, nth_opt_app_l by (rewrite map_length; exact Hj).
    clear -Hj. revert j Hj. induction toks as [|u us IH]; intros [|j] Hj; cbn in *; try lia; [reflexivity|]. apply IH. lia. }
  apply glb_unique; [exact Hall| | | |].
  - rewrite Hnth by exact Hi. rewrite Hn. reflexivity.
  - rewrite Hsh. apply shift_ple. exact Hle.
  - rewrite Hsh. intros Heq. apply shift_eq in Heq. intros j y Hj Hy.
    destruct (Nat.lt_ge_cases j (length pre)) as [Hjp|Hjp].
    + rewrite nth_opt_app_l in Hy by exact Hjp. eapply plt_ple_trans; [apply Hpre; eapply nth_opt_In; exact Hy|exact Hoq].
    + replace j with (length pre + (j - length pre))%nat in Hy by lia.
      rewrite Hnth in Hy by lia. destruct (nth_opt toks (j - length pre)) as [u|] eqn:Eu; [|discriminate].
      inversion Hy; subst y. rewrite Hsh. apply shift_plt. eapply Hfirst; [exact Heq| |exact Eu]. lia.
  - rewrite Hsh. intros Hne. assert (Hne' : key t <> rel off q) by (intros Hc; apply Hne; apply shift_eq; exact Hc).
    intros j y Hj Hy.
    destruct (Nat.lt_ge_cases j (length pre + length toks)) as [Hjt|Hjt].
    + replace j with (length pre + (j - length pre))%nat in Hy by lia.
      rewrite Hnth in Hy by lia. destruct (nth_opt toks (j - length pre)) as [u|] eqn:Eu; [|discriminate].
      inversion Hy; subst y. rewrite Hsh. apply shift_pgt. eapply Hlast; [exact Hne'| |exact Eu]. lia.
    + apply Hpost. replace j with (length pre + (length (map (sh off) toks) + (j - length pre - length toks)))%nat in Hy
        by (rewrite map_length; lia).
      rewrite nth_opt_app_r, nth_opt_app_r in Hy. eapply nth_opt_In; exact Hy.
Qed.

(* ---------- a whole index: sections in increasing, non-interleaving order ---------- *)
Definition section := (pos * list A)%type.
Definition sec_toks (s : section) : list A := map (sh (fst s)) (snd s).
Definition flat (secs : list section) : list A := concat (map sec_toks secs).

Inductive wf_secs : list section -> Prop :=
| wf_nil : wf_secs []
| wf_cons s rest : sorted key (snd s) -> Forall nonneg (snd s) ->
    Forall (fun s' => plt (fst s) (fst s') /\ Forall (fun t => plt (key (sh (fst s) t)) (fst s')) (snd s)) rest ->
    wf_secs rest -> wf_secs (s :: rest).

Lemma sec_toks_ge s t : Forall nonneg (snd s) -> In t (sec_toks s) -> ple (fst s) (key t).
Proof.
  intros Hn Hin. unfold sec_toks in Hin. apply in_map_iff in Hin. destruct Hin as (u & <- & Hu).
  rewrite Forall_forall in Hn. destruct (Hn u Hu) as [H1 H2]. rewrite Hsh. apply shift_ge; assumption.
Qed.
Lemma in_flat secs t : In t (flat secs) <-> exists s, In s secs /\ In t (sec_toks s).
Proof.
  unfold flat. rewrite in_concat. split.
  - intros (l & Hl & Ht). apply in_map_iff in Hl. destruct Hl as (s & <- & Hs). eauto.
  - intros (s & Hs & Ht). exists (sec_toks s). split; [apply in_map; exact Hs|exact Ht].
Qed.
Lemma wf_nonneg secs s : wf_secs secs -> In s secs -> Forall nonneg (snd s) /\ sorted key (snd s).
Proof. induction 1 as [|s0 rest H1 H2 H3 H4 IH]; intros Hin; [contradiction|]. destruct Hin as [->|Hin]; auto. Qed.

Lemma wf_sorted secs : wf_secs secs -> sorted key (flat secs).
Proof.
  induction 1 as [|s rest Hs Hn Hlater Hwf IH]; [constructor|].
  unfold flat; cbn [map concat]; fold (flat rest). apply sorted_app; [apply sorted_shift; assumption|exact IH|].
  intros x y Hx Hy. apply in_flat in Hy. destruct Hy as (s' & Hs' & Hy).
  rewrite Forall_forall in Hlater. destruct (Hlater s' Hs') as [_ Hbefore].
  unfold sec_toks in Hx. apply in_map_iff in Hx. destruct Hx as (u & <- & Hu).
  rewrite Forall_forall in Hbefore. apply plt_ple. eapply plt_ple_trans; [apply Hbefore; exact Hu|].
  apply sec_toks_ge; [|exact Hy]. apply (wf_nonneg rest s' Hwf Hs').
Qed.

Lemma wf_app a s b : wf_secs (a ++ s :: b) ->
  wf_secs b /\ sorted key (snd s) /\ Forall nonneg (snd s)
  /\ (forall y, In y (flat a) -> plt (key y) (fst s))
  /\ (forall s', In s' b -> plt (fst s) (fst s')).
Proof.
  induction a as [|x a IH]; cbn [app]; intros H; inversion H as [|? ? H1 H2 H3 H4]; subst.
  - repeat split; try assumption. + intros y []. + intros s' Hs'. rewrite Forall_forall in H3. apply (H3 s' Hs').
  - destruct (IH H4) as (Hb & Hss & Hsn & Hpre & Hpost). repeat split; try assumption.
    intros y Hy. unfold flat in Hy; cbn [map concat] in Hy; fold (flat a) in Hy. apply in_app_iff in Hy. destruct Hy as [Hy|Hy].
    + rewrite Forall_forall in H3. destruct (H3 s) as [_ Hbef]; [apply in_or_app; right; left; reflexivity|].
      unfold sec_toks in Hy. apply in_map_iff in Hy. destruct Hy as (u & <- & Hu). rewrite Forall_forall in Hbef. apply Hbef; exact Hu.
    + apply Hpre; exact Hy.
Qed.

Lemma flat_app a b : flat (a ++ b) = flat a ++ flat b.
Proof. unfold flat. rewrite map_app, concat_app. reflexivity. Qed.

Theorem C08_core secs q k off toks i t :
  wf_secs secs ->
  glb fst secs q = Some (k, (off, toks)) ->                 (* the section the index selects *)
  glb key toks (rel off q) = Some (i, t) ->             (* its answer at the relative position *)
  glb key (flat secs) q = Some ((length (flat (firstn k secs)) + i)%nat, sh off t).
Proof.
  intros Hwf Hsec Htok.
  assert (Hso : sorted fst secs).
  { clear -Hwf. induction Hwf as [|s rest _ _ Hl _ IH]; constructor; [exact IH|].
    eapply Forall_impl; [|exact Hl]. intros s' [H _]. apply plt_ple. exact H. }
  pose proof (glb_correct fst secs q Hso) as Hc. rewrite Hsec in Hc. destruct Hc as (Hk & Hoq & Hmax & _).
  destruct (nth_opt_split secs k (off, toks) Hk) as [Hsplit Hlen].
  set (a := firstn k secs) in *. set (b := skipn (S k) secs) in *.
  pose proof (wf_sorted secs Hwf) as Hsorted.
  rewrite Hsplit in Hwf, Hsorted |- *. destruct (wf_app a (off, toks) b Hwf) as (Hb & Hss & Hsn & Hpre & Hpost).
  cbn [fst snd] in *. rewrite flat_app in *. unfold flat at 2; unfold flat at 2 in Hsorted.
  cbn [map concat] in *. fold (flat b) in *. unfold sec_toks at 1; unfold sec_toks at 1 in Hsorted. cbn [fst snd] in *.
  apply glb_in_section; try assumption.
  intros y Hy. apply in_flat in Hy. destruct Hy as (s' & Hs' & Hy).
  assert (Hlt : plt off (fst s')) by (apply Hpost; exact Hs').
  assert (Hqs : plt q (fst s')).
  { apply not_ple_plt. intros Hle. assert (Hin : In s' secs) by (rewrite Hsplit; apply in_or_app; right; right; exact Hs').
    specialize (Hmax s' Hin Hle). cbn [fst] in Hmax. eapply plt_irrefl. eapply plt_ple_trans; eassumption. }
  eapply plt_ple_trans; [exact Hqs|]. apply sec_toks_ge; [|exact Hy]. apply (wf_nonneg b s' Hb Hs').
Qed.

End Gen.
Print Assumptions C08_core.

(* instance: raw tokens *)
Definition tnonneg := nonneg tok_key.

(* the range shift is preserved as well: same offset into the range on the token's own line *)
Theorem C08_lookup secs q k off toks i t o :
  wf_secs tok_key shift secs -> glb fst secs q = Some (k, (off, toks)) ->
  lookup_token toks (fst (rel off q)) (snd (rel off q)) = Ok (Some (i, t, o)) ->
  lookup_token (flat shift secs) (fst q) (snd q) = Ok (Some ((length (flat shift (firstn k secs)) + i)%nat, shift off t, o)).
Proof.
  intros Hwf Hsec Hl. unfold lookup_token in *.
  destruct (glb tok_key toks (fst (rel off q), snd (rel off q))) as [[i' t']|] eqn:Eg; [|discriminate].
  replace (fst (rel off q), snd (rel off q)) with (rel off q) in Eg by (destruct (rel off q); reflexivity).
  replace (fst q, snd q) with q by (destruct q; reflexivity).
  rewrite (C08_core tok_key shift tok_key_shift secs q k off toks i' t' Hwf Hsec Eg).
  assert (Hrange : t_range (shift off t') = t_range t') by reflexivity. rewrite Hrange.
  assert (Hline : (t_dl (shift off t') =? fst q) = (t_dl t' =? fst (rel off q))).
  { unfold shift, rel; cbn [t_dl fst]. destruct (Z.eqb_spec (t_dl t' + fst off) (fst q)), (Z.eqb_spec (t_dl t') (fst q - fst off)); try lia; reflexivity. }
  rewrite Hline. destruct (t_range t' && (t_dl t' =? fst (rel off q))) eqn:E.
  - apply andb_true_iff in E. destruct E as [_ E]. apply Z.eqb_eq in E.
    assert (Hsub : snd q - t_dc (shift off t') = snd (rel off q) - t_dc t').
    { unfold shift, rel in *; cbn [t_dc fst snd] in *. destruct (Z.eqb_spec (t_dl t') 0), (Z.eqb_spec (fst q) (fst off)); lia. }
    unfold u32_sub in *. rewrite Hsub. destruct (checked 20 (is_u32 (snd (rel off q) - t_dc t')) (snd (rel off q) - t_dc t')) as [v|e|s]; cbn [bind] in *; try discriminate.
    inversion Hl; subst. reflexivity.
  - inversion Hl; subst. reflexivity.
Qed.
Print Assumptions C08_lookup.
