(* C11, second direction: on canonical texts, encoding the decoded values gives the text back. *)
From SM Require Import Model.Base Model.Gen_B64 Model.Vlq Spec.Vlq Proofs.BaseLemmas Proofs.VlqProofs.

(* canonical: every value is written with the fewest digits (last digit non-zero unless it is the
   only one) and "-0" (code 1) does not occur *)
Fixpoint canon_go (s : bytes) (cur : list Z) : bool :=
  match s with
  | [] => true
  | c :: s' =>
    match digit_of c with
    | None => true
    | Some d => if d <? 32 then (is_nil cur || negb (d =? 0)) && negb (value_of (cur ++ [d]) =? 1) && canon_go s' []
                else canon_go s' (cur ++ [d mod 32])
    end
  end.
Definition canonical (s : bytes) : Prop := canon_go s [] = true.

(* digit groups of a text *)
Fixpoint groups_go (s : bytes) (cur : list Z) : option (list (list Z)) :=
  match s with
  | [] => if is_nil cur then Some [] else None
  | c :: s' =>
    match digit_of c with
    | None => None
    | Some d => if d <? 32 then option_map (cons (cur ++ [d])) (groups_go s' []) else groups_go s' (cur ++ [d mod 32])
    end
  end.
Definition chr (d : Z) : Z := nth (Z.to_nat d) B64_CHARS 0.
Definition render_cont (ds : list Z) : bytes := map (fun d => chr (d + 32)) ds.
Fixpoint render_group (g : list Z) : bytes :=
  match g with [] => [] | [d] => [chr d] | d :: r => chr (d + 32) :: render_group r end.
Definition group_ok (g : list Z) : Prop :=
  Forall (fun d => 0 <= d < 32) g /\ (length g <= 13)%nat /\ value_of g < two63.
Definition group_canon (g : list Z) : Prop := (length g = 1%nat \/ last g 0 <> 0) /\ value_of g <> 1.

Lemma chr_digit c d : digit_of c = Some d -> chr d = c /\ 0 <= d < 64.
Proof.
  intros H. destruct (table_digit c d H) as (Hl & Hd & Hc). split; [|exact Hd].
  destruct (table_sound c Hc ltac:(lia)) as [_ Hn]. rewrite Hl in Hn. exact Hn.
Qed.
Lemma render_group_cons x l : l <> [] -> render_group (x :: l) = chr (x + 32) :: render_group l.
Proof. destruct l; [contradiction|reflexivity]. Qed.
Lemma render_group_snoc cur d : render_group (cur ++ [d]) = render_cont cur ++ [chr d].
Proof.
  induction cur as [|x cur IH]; [reflexivity|]. cbn [app render_cont map].
  rewrite render_group_cons by (destruct cur; discriminate). rewrite IH. reflexivity.
Qed.

(* G1: what the reference decoder returns, in terms of groups *)
Lemma spec_go_groups : forall s cur acc out, Forall (fun d => 0 <= d < 32) cur ->
  spec_go s cur acc = Ok out ->
  exists gs, groups_go s cur = Some gs /\ out = rev acc ++ map (fun g => unzigzag (value_of g)) gs /\ Forall group_ok gs.
Proof.
  induction s as [|c s IH]; intros cur acc out Hcur H; cbn [spec_go groups_go] in *.
  - destruct (is_nil cur) eqn:En; cbn [negb] in H; [|discriminate]. destruct (is_nil acc); [discriminate|].
    inversion H; subst. exists []. cbn. rewrite app_nil_r. auto.
  - destruct (digit_of c) as [d|] eqn:Ed; [|discriminate].
    destruct (chr_digit c d Ed) as [_ Hd].
    destruct (Z.leb_spec 13 (zlen cur)) as [|Hlen]; [discriminate|].
    destruct (Z.leb_spec two63 (value_of (cur ++ [d mod 32]))) as [|Hval]; [discriminate|].
    assert (Hcur' : Forall (fun d => 0 <= d < 32) (cur ++ [d mod 32])).
    { apply Forall_app. split; [exact Hcur|]. constructor; [|constructor]. apply Z.mod_pos_bound. lia. }
    destruct (Z.ltb_spec d 32) as [Hlt|Hge].
    + rewrite Z.mod_small in * by lia.
      destruct (IH [] _ out ltac:(constructor) H) as (gs & Hg & Hout & Hok).
      exists ((cur ++ [d]) :: gs). rewrite Hg. cbn [option_map]. split; [reflexivity|]. split.
      * rewrite Hout. cbn [rev map]. rewrite <- app_assoc. reflexivity.
      * constructor; [|exact Hok]. split; [exact Hcur'|]. split; [|exact Hval].
        rewrite app_length. cbn [length]. unfold zlen in Hlen. lia.
    + apply (IH _ _ _ Hcur' H).
Qed.

(* G2: the text is the rendering of its groups *)
Lemma groups_render : forall s cur gs, groups_go s cur = Some gs -> render_cont cur ++ s = concat (map render_group gs).
Proof.
  induction s as [|c s IH]; intros cur gs H; cbn [groups_go] in H.
  - destruct cur; [|discriminate]. inversion H; subst. reflexivity.
  - destruct (digit_of c) as [d|] eqn:Ed; [|discriminate]. destruct (chr_digit c d Ed) as [Hc Hd].
    destruct (Z.ltb_spec d 32) as [Hlt|Hge].
    + destruct (groups_go s []) as [gs'|] eqn:Eg; [|discriminate]. cbn [option_map] in H. inversion H as [Hgs]. cbn [map concat].
      rewrite <- (IH [] gs' Eg). cbn [render_cont map app]. rewrite render_group_snoc, Hc, <- app_assoc. reflexivity.
    + rewrite <- (IH _ _ H). unfold render_cont. rewrite map_app. cbn [map].
      replace (d mod 32 + 32) with d by (Z.div_mod_to_equations; lia). rewrite Hc, <- app_assoc. reflexivity.
Qed.

(* G3: canonical texts have canonical groups *)
Lemma last_snoc {A} (l : list A) x d : last (l ++ [x]) d = x.
Proof. apply last_last. Qed.
Lemma canon_groups : forall s cur gs, canon_go s cur = true -> groups_go s cur = Some gs -> Forall group_canon gs.
Proof.
  induction s as [|c s IH]; intros cur gs Hc Hg; cbn [canon_go groups_go] in *.
  - destruct cur; [|discriminate]. inversion Hg; subst. constructor.
  - destruct (digit_of c) as [d|]; [|discriminate]. destruct (Z.ltb_spec d 32).
    + destruct (groups_go s []) as [gs'|] eqn:Eg; [|discriminate]. inversion Hg; subst.
      apply andb_true_iff in Hc. destruct Hc as [Hc Hrest]. apply andb_true_iff in Hc. destruct Hc as [H1 H2].
      constructor; [|apply (IH [] gs' Hrest Eg)]. split.
      * apply orb_true_iff in H1. destruct H1 as [H1|H1].
        -- left. destruct cur; [reflexivity|discriminate].
        -- right. rewrite last_snoc. destruct (Z.eqb_spec d 0); [discriminate|assumption].
      * destruct (Z.eqb_spec (value_of (cur ++ [d])) 1); [discriminate|assumption].
    + apply (IH _ _ Hc Hg).
Qed.

(* G4: the encoder writes a canonical group exactly *)
Lemma value_of_nonneg g : Forall (fun d => 0 <= d < 32) g -> 0 <= value_of g.
Proof. induction 1 as [|d r Hd _ IH]; cbn [value_of]; lia. Qed.
Lemma value_of_pos g : Forall (fun d => 0 <= d < 32) g -> g <> [] -> last g 0 <> 0 -> 0 < value_of g.
Proof.
  induction 1 as [|d r Hd Hr IH]; intros Hne Hl; [contradiction|]. cbn [value_of].
  destruct r as [|x r']; [cbn in *; lia|]. assert (0 < value_of (x :: r')) by (apply IH; [discriminate|exact Hl]). lia.
Qed.
Lemma encode_go_group : forall g fuel, Forall (fun d => 0 <= d < 32) g -> g <> [] ->
  (length g = 1%nat \/ last g 0 <> 0) -> (length g <= fuel)%nat ->
  encode_go fuel (value_of g) = Some (render_group g).
Proof.
  induction g as [|d r IH]; intros fuel Hg Hne Hc Hf; [contradiction|].
  destruct fuel as [|fuel]; [cbn in Hf; lia|]. inversion Hg as [|? ? Hd Hr]; subst.
  pose proof (value_of_nonneg r Hr) as Hv0. cbn [value_of encode_go].
  rewrite land31, shr5 by lia.
  assert (Hm : (d + 32 * value_of r) mod 32 = d) by (Z.div_mod_to_equations; lia).
  assert (Hq : (d + 32 * value_of r) / 32 = value_of r) by (Z.div_mod_to_equations; lia).
  rewrite Hm, Hq.
  destruct r as [|x r'].
  - cbn [value_of]. cbn. reflexivity.
  - assert (Hlast : last (x :: r') 0 <> 0) by (destruct Hc as [Hc|Hc]; [cbn in Hc; lia|exact Hc]).
    assert (Hpos : 0 < value_of (x :: r')) by (apply value_of_pos; [exact Hr|discriminate|exact Hlast]).
    destruct (Z.ltb_spec 0 (value_of (x :: r'))); [|lia]. destruct (Z.eqb_spec (value_of (x :: r')) 0); [lia|].
    rewrite lor32 by lia. rewrite (IH fuel Hr ltac:(discriminate) (or_intror Hlast)) by (cbn [length] in *; lia).
    reflexivity.
Qed.
Lemma encode_vlq_group g : group_ok g -> group_canon g -> g <> [] ->
  encode_vlq (unzigzag (value_of g)) = Some (render_group g).
Proof.
  intros (Hd & Hlen & Hv) (Hc & Hn1) Hne. pose proof (value_of_nonneg g Hd) as H0.
  unfold encode_vlq. set (v := value_of g) in *.
  assert (Hz : (if unzigzag v <? 0 then wrap_i64 (Z.shiftl (- unzigzag v) 1) + 1 else wrap_i64 (Z.shiftl (unzigzag v) 1)) = v).
  { assert (Hcase : (Z.odd v = true /\ v mod 2 = 1) \/ (Z.odd v = false /\ v mod 2 = 0)).
    { rewrite Zodd_mod. destruct (Zeq_bool (v mod 2) 1) eqn:E.
      - left. split; [reflexivity|]. apply Zeq_bool_eq. exact E.
      - right. split; [reflexivity|]. apply Zeq_bool_neq in E. Z.div_mod_to_equations. lia. }
    unfold unzigzag. rewrite !Z.shiftl_mul_pow2 by lia. change (2 ^ 1) with 2.
    destruct Hcase as [[Eo Ho]|[Eo He]]; rewrite Eo.
    - assert (Hv3 : 3 <= v) by (Z.div_mod_to_equations; lia).
      destruct (Z.ltb_spec (- (v / 2)) 0); [|Z.div_mod_to_equations; lia].
      rewrite Z.opp_involutive. rewrite wrap_i64_id by (unfold two63 in *; Z.div_mod_to_equations; lia).
      Z.div_mod_to_equations; lia.
    - destruct (Z.ltb_spec (v / 2) 0); [Z.div_mod_to_equations; lia|].
      rewrite wrap_i64_id by (unfold two63 in *; Z.div_mod_to_equations; lia). Z.div_mod_to_equations; lia. }
  rewrite Hz. apply encode_go_group; try assumption. lia.
Qed.

Lemma groups_nonempty : forall s cur gs, groups_go s cur = Some gs -> Forall (fun g => g <> []) gs.
Proof.
  induction s as [|c s IH]; intros cur gs H; cbn [groups_go] in H.
  - destruct cur; [|discriminate]. inversion H; constructor.
  - destruct (digit_of c) as [d|]; [|discriminate]. destruct (d <? 32).
    + destruct (groups_go s []) as [gs'|] eqn:E; [|discriminate]. inversion H; subst. constructor; [destruct cur; discriminate|apply (IH [] gs' E)].
    + apply (IH _ _ H).
Qed.

Theorem C11_encode_decode s ns : canonical s -> parse_vlq_segment s = Ok ns -> generate_vlq_segment ns = Some s.
Proof.
  intros Hc Hp. rewrite C11_matches_standard in Hp. unfold spec_parse in Hp.
  destruct (spec_go_groups s [] [] ns ltac:(constructor) Hp) as (gs & Hg & Hout & Hok).
  cbn [rev app] in Hout. subst ns.
  pose proof (groups_render s [] gs Hg) as Hr. cbn [render_cont map app] in Hr. rewrite Hr.
  pose proof (canon_groups s [] gs Hc Hg) as Hcan. pose proof (groups_nonempty s [] gs Hg) as Hne.
  clear Hg Hr Hp Hc. induction gs as [|g gs IH]; [reflexivity|].
  inversion Hok; inversion Hcan; inversion Hne; subst. cbn [map generate_vlq_segment concat].
  rewrite encode_vlq_group by assumption. rewrite IH by assumption. reflexivity.
Qed.
Print Assumptions C11_encode_decode.
(* non-vacuity and necessity: "AAgBC" is canonical; "gA" (0 with a superfluous digit) and "B" (-0) are not and do not round trip *)
Example canon_ex : canonical [65;65;103;66;67] /\ canon_go [103;65] [] = false /\ canon_go [66] [] = false
  /\ parse_vlq_segment [103;65] = Ok [0] /\ generate_vlq_segment [0] = Some [65].
Proof. split; [vm_compute; reflexivity|]. split; [vm_compute; reflexivity|]. split; [vm_compute; reflexivity|]. split; vm_compute; reflexivity. Qed.
