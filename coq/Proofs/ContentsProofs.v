(* C09, contents: with contents kept, every rewritten source carries the first non-empty content
   among the tokens (in order) that resolve to its name; with contents dropped, none. *)
From SM Require Import Model.Base Model.Mappings Model.Glb Model.SourceMap Model.Rewrite
  Proofs.BaseLemmas Proofs.BuilderProofs Proofs.IndexProofs Proofs.FlattenProofs Proofs.RewriteProofs.

Fixpoint first_content (m : smap) (ts : list rtoken) (s : bytes) : option bytes :=
  match ts with
  | [] => None
  | t :: r =>
    match tok_source m t with
    | Some s' => if bytes_eqb s' s
                 then match get_source_contents m (t_src t) with Some c => Some c | None => first_content m r s end
                 else first_content m r s
    | None => first_content m r s
    end
  end.
Lemma fc_snoc m done t s : first_content m (done ++ [t]) s =
  match first_content m done s with
  | Some c => Some c
  | None => match tok_source m t with Some s' => if bytes_eqb s' s then get_source_contents m (t_src t) else None | None => None end
  end.
Proof.
  induction done as [|x done IH]; cbn [app first_content].
  - destruct (tok_source m t) as [s'|]; [|reflexivity]. destruct (bytes_eqb s' s); [|reflexivity]. destruct (get_source_contents m (t_src t)); reflexivity.
  - destruct (tok_source m x) as [s'|]; [|exact IH]. destruct (bytes_eqb s' s); [|exact IH].
    destruct (get_source_contents m (t_src x)); [reflexivity|exact IH].
Qed.

(* reading contents through resize and set *)
Lemma znth_resize {A} (l : list (option A)) n j : (length l <= n)%nat ->
  match znth_opt (resize_opt l n) j with Some (Some c) => Some c | _ => None end = match znth_opt l j with Some (Some c) => Some c | _ => None end.
Proof.
  revert l j. induction n as [|n IH]; intros l j Hl.
  - destruct l; [reflexivity|cbn in Hl; lia].
  - destruct l as [|x l]; cbn [resize_opt znth_opt].
    + destruct (j =? 0); [reflexivity|]. destruct (j <? 0); [reflexivity|]. rewrite (IH [] (j - 1)) by (cbn; lia). reflexivity.
    + destruct (j =? 0); [reflexivity|]. destruct (j <? 0); [reflexivity|]. apply IH. cbn in Hl. lia.
Qed.
Lemma znth_zset {A} (l l' : list A) i x j : zset_nth l i x = Some l' -> znth_opt l' j = if j =? i then Some x else znth_opt l j.
Proof.
  revert l' i j. induction l as [|y l IH]; intros l' i j H; cbn [zset_nth] in H; [discriminate|].
  destruct (Z.eqb_spec i 0) as [->|Hi].
  - inversion H; subst. cbn [znth_opt]. destruct (j =? 0); reflexivity.
  - destruct (Z.ltb_spec i 0); [discriminate|]. destruct (zset_nth l (i - 1) x) as [r|] eqn:E; [|discriminate]. inversion H; subst.
    cbn [znth_opt]. destruct (Z.eqb_spec j 0) as [->|Hj].
    + destruct (Z.eqb_spec 0 i); [lia|reflexivity].
    + destruct (j <? 0) eqn:Ej; [destruct (Z.eqb_spec j i); [lia|reflexivity]|].
      rewrite (IH r (i - 1) (j - 1) E). destruct (Z.eqb_spec (j - 1) (i - 1)), (Z.eqb_spec j i); try lia; reflexivity.
Qed.
Lemma set_contents_get id c b b' : b_set_source_contents id c b = Ok b' ->
  forall j, b_get_source_contents b' j = if j =? id then c else b_get_source_contents b j.
Proof.
  unfold b_set_source_contents. destruct (id =? NONE); [discriminate|].
  set (cs := if Nat.ltb _ _ then _ else _). destruct (zset_nth cs id c) as [cs'|] eqn:E; [|discriminate].
  intros H j. inversion H; subst. unfold b_get_source_contents. cbn [b_contents]. rewrite (znth_zset _ _ _ _ j E).
  destruct (j =? id); [destruct c; reflexivity|].
  unfold cs. destruct (Nat.ltb_spec (length (b_contents b)) (length (b_sources b))); [|reflexivity]. apply znth_resize. lia.
Qed.

Definition contents_inv (m : smap) (b : builder) (done : list rtoken) : Prop :=
  (forall j s, znth_opt (b_sources b) j = Some s -> b_get_source_contents b j = first_content m done s)
  /\ (forall t s, In t done -> tok_source m t = Some s -> In s (b_sources b))
  /\ (length (b_contents b) <= length (b_sources b))%nat.

Lemma In_znth {A} (l : list A) x : In x l -> exists j, znth_opt l j = Some x.
Proof.
  induction l as [|y l IH]; intros H; [contradiction|]. destruct H as [->|H]; [exists 0; reflexivity|]. destruct (IH H) as [j Hj]. pose proof (znth_opt_bound _ _ _ Hj).
  exists (j + 1). cbn [znth_opt]. destruct (Z.eqb_spec (j + 1) 0); [lia|]. destruct (Z.ltb_spec (j + 1) 0); [lia|]. replace (j + 1 - 1) with j by lia. exact Hj.
Qed.
Lemma znth_In {A} (l : list A) j x : znth_opt l j = Some x -> In x l.
Proof.
  revert j. induction l as [|y l IH]; intros j H; [discriminate|]. cbn [znth_opt] in H.
  destruct (j =? 0); [inversion H; left; reflexivity|]. destruct (j <? 0); [discriminate|]. right. eapply IH; exact H.
Qed.
Lemma NoDup_znth_inj (l : list bytes) i j s : NoDup l -> znth_opt l i = Some s -> znth_opt l j = Some s -> i = j.
Proof.
  intros Hnd. revert i j. induction Hnd as [|x l Hx Hnd IH]; intros i j Hi Hj; [discriminate|]. cbn [znth_opt] in *.
  destruct (Z.eqb_spec i 0), (Z.eqb_spec j 0); try lia.
  - inversion Hi; subst. destruct (j <? 0); [discriminate|]. exfalso. apply Hx. eapply znth_In; exact Hj.
  - inversion Hj; subst. destruct (i <? 0); [discriminate|]. exfalso. apply Hx. eapply znth_In; exact Hi.
  - destruct (i <? 0); [discriminate|]. destruct (j <? 0); [discriminate|]. assert (i - 1 = j - 1) by (apply IH; assumption). lia.
Qed.
Lemma bytes_eqb_neq a b : a <> b -> bytes_eqb a b = false.
Proof. intros H. destruct (bytes_eqb a b) eqn:E; [|reflexivity]. apply bytes_eqb_eq in E. contradiction. Qed.
Lemma zset_nth_length {A} (l l' : list A) i x : zset_nth l i x = Some l' -> length l' = length l.
Proof.
  revert l' i. induction l as [|y l IH]; intros l' i H; cbn [zset_nth] in H; [discriminate|].
  destruct (i =? 0); [inversion H; reflexivity|]. destruct (i <? 0); [discriminate|].
  destruct (zset_nth l (i - 1) x) as [r|] eqn:E; [|discriminate]. inversion H; subst. cbn [length]. rewrite (IH r (i - 1) E). reflexivity.
Qed.
Lemma set_contents_length id c b b' : b_set_source_contents id c b = Ok b' ->
  (length (b_contents b) <= length (b_sources b))%nat -> (length (b_contents b') <= length (b_sources b'))%nat /\ b_sources b' = b_sources b.
Proof.
  unfold b_set_source_contents. destruct (id =? NONE); [discriminate|].
  set (cs := if Nat.ltb _ _ then _ else _). destruct (zset_nth cs id c) as [cs'|] eqn:E; [|discriminate].
  intros H Hl. inversion H; subst. cbn [b_contents b_sources]. split; [|reflexivity]. rewrite (zset_nth_length _ _ _ _ E).
  unfold cs. destruct (Nat.ltb_spec (length (b_contents b)) (length (b_sources b))); [rewrite resize_opt_length|]; lia.
Qed.
Lemma get_out b j : (length (b_contents b) <= length (b_sources b))%nat -> znth_opt (b_sources b) j = None -> b_get_source_contents b j = None.
Proof.
  intros Hl Hn. unfold b_get_source_contents. destruct (znth_opt (b_contents b) j) as [x|] eqn:E; [|reflexivity].
  apply znth_opt_bound in E. destruct (znth_opt_some (b_sources b) j) as [y Hy]; [unfold zlen in *; lia|congruence].
Qed.

Lemma rewrite_tokens_contents m o : ro_contents o = true -> forall ts b b' done,
  builder_inv b -> interned b -> contents_inv m b done -> zlen (b_sources b) + zlen ts < NONE ->
  rewrite_tokens m o ts b = Ok b' -> contents_inv m b' (done ++ ts) /\ NoDup (b_sources b').
Proof.
  intros Hkeep. induction ts as [|t ts IH]; intros b b' done Hinv Hint Hc Hsz H; cbn [rewrite_tokens] in H.
  - inversion H; subst. rewrite app_nil_r. split; [exact Hc|apply Hint].
  - rewrite zlen_cons in Hsz. pose proof (zlen_nonneg ts) as Hts.
    set (nm := if ro_names o then tok_name m t else None) in *.
    pose proof (add_with_id_interned (t_dl t) (t_dc t) (t_sl t) (t_sc t) (tok_source m t) (t_src t) nm (t_range t) b Hinv Hint) as Hi1.
    pose proof (add_with_id_spec (t_dl t) (t_dc t) (t_sl t) (t_sc t) (tok_source m t) (t_src t) nm (t_range t) b Hinv) as Hs1.
    destruct (add_with_id (t_dl t) (t_dc t) (t_sl t) (t_sc t) (tok_source m t) (t_src t) nm (t_range t) b) as [raw b1].
    cbn [snd] in *. destruct Hs1 as (I1 & E1 & R1 & _ & LS1 & _ & _ & _ & _ & _ & _ & Vsrc & _).
    destruct R1 as (Hcont1 & _). destruct Hc as (Hc1 & Hc2 & Hc3). destruct E1 as [[xs Hxs] _]. pose proof Hi1 as (Nd1 & _).
    assert (Hget1 : forall j, b_get_source_contents b1 j = b_get_source_contents b j) by (intros j; unfold b_get_source_contents; rewrite Hcont1; reflexivity).
    assert (Hl1 : (length (b_contents b1) <= length (b_sources b1))%nat) by (rewrite Hcont1, Hxs, app_length; lia).
    (* the invariant for (b1, done) *)
    assert (HA1 : forall j s, znth_opt (b_sources b1) j = Some s -> b_get_source_contents b1 j = first_content m done s).
    { intros j s Hj. rewrite Hget1. destruct (znth_opt (b_sources b) j) as [s'|] eqn:Eb.
      - assert (s' = s) by (rewrite Hxs, znth_opt_app_l in Hj by (apply (znth_opt_bound _ _ _ Eb)); congruence). subst s'. apply Hc1. exact Eb.
      - rewrite (get_out b j Hc3 Eb). symmetry.
        assert (Hnotin : ~ In s (b_sources b)).
        { intros Hin. destruct (In_znth _ _ Hin) as [j' Hj'].
          assert (Hj1 : znth_opt (b_sources b1) j' = Some s) by (rewrite Hxs, znth_opt_app_l; [exact Hj'|apply (znth_opt_bound _ _ _ Hj')]).
          pose proof (NoDup_znth_inj _ _ _ _ Nd1 Hj Hj1). subst j'. congruence. }
        clear -Hnotin Hc2. induction done as [|x done IHd]; [reflexivity|]. cbn [first_content].
        destruct (tok_source m x) as [s'|] eqn:Ex; [|apply IHd; intros; eapply Hc2; [right|]; eassumption].
        destruct (bytes_eqb s' s) eqn:Eb; [apply bytes_eqb_eq in Eb; subst s'; exfalso; apply Hnotin; eapply Hc2; [left; reflexivity|exact Ex]|].
        apply IHd. intros; eapply Hc2; [right|]; eassumption. }
    assert (HB1 : forall t0 s, In t0 (done ++ [t]) -> tok_source m t0 = Some s -> In s (b_sources b1)).
    { intros t0 s Hin Hs. apply in_app_iff in Hin. destruct Hin as [Hin|[<-|[]]].
      - rewrite Hxs. apply in_or_app. left. eapply Hc2; eassumption.
      - rewrite Hs in Vsrc. destruct Vsrc as [_ Vz]. eapply znth_In; exact Vz. }
    (* the contents step *)
    assert (Hstep : exists b2, (if negb (t_src raw =? NONE) && ro_contents o && negb (b_has_source_contents b1 (t_src raw))
                 then b_set_source_contents (t_src raw) (get_source_contents m (t_src t)) b1 else Ok b1) = Ok b2
              /\ builder_inv b2 /\ interned b2 /\ contents_inv m b2 (done ++ [t]) /\ b_sources b2 = b_sources b1).
    { rewrite Hkeep. cbn [andb].
      destruct (tok_source m t) as [s0|] eqn:Es0.
      - destruct Vsrc as [Vb Vz]. destruct (Z.eqb_spec (t_src raw) NONE) as [|Hnn]; [lia|]. cbn [negb andb].
        assert (Hother : forall j s, znth_opt (b_sources b1) j = Some s -> j <> t_src raw -> bytes_eqb s0 s = false).
        { intros j s Hj Hne. apply bytes_eqb_neq. intros ->. apply Hne. eapply NoDup_znth_inj; eassumption. }
        unfold b_has_source_contents. destruct (b_get_source_contents b1 (t_src raw)) as [c|] eqn:Eget; cbn [negb].
        + exists b1. split; [reflexivity|]. split; [exact I1|]. split; [exact Hi1|]. split; [|reflexivity].
          split; [|split; [exact HB1|exact Hl1]]. intros j s Hj. rewrite fc_snoc, Es0, <- (HA1 j s Hj).
          destruct (Z.eq_dec j (t_src raw)) as [->|Hne]; [rewrite Eget; reflexivity|].
          rewrite (Hother j s Hj Hne). destruct (b_get_source_contents b1 j); reflexivity.
        + destruct (set_contents_ok (t_src raw) (get_source_contents m (t_src t)) b1 Vb Hnn) as (b2 & Eset & S2 & N2 & T2 & SM2 & NM2 & _).
          exists b2. split; [exact Eset|]. split; [apply (inv_same b1); assumption|].
          split; [destruct Hi1 as (A & B & C & D); unfold interned; rewrite S2, N2, T2; auto|]. split; [|exact S2].
          destruct (set_contents_length _ _ _ _ Eset Hl1) as [Hl2 _].
          split; [|split; [intros t0 s Hin Hs; rewrite S2; eapply HB1; eassumption|exact Hl2]].
          intros j s Hj. rewrite S2 in Hj. rewrite (set_contents_get _ _ _ _ Eset j), fc_snoc, Es0, <- (HA1 j s Hj).
          destruct (Z.eqb_spec j (t_src raw)) as [->|Hne].
          * rewrite Eget. assert (s = s0) by congruence. subst s. rewrite bytes_eqb_refl. reflexivity.
          * rewrite (Hother j s Hj Hne). destruct (b_get_source_contents b1 j); reflexivity.
      - rewrite Vsrc, Z.eqb_refl. cbn [negb andb]. exists b1. split; [reflexivity|]. split; [exact I1|]. split; [exact Hi1|]. split; [|reflexivity].
        split; [|split; [exact HB1|exact Hl1]]. intros j s Hj. rewrite fc_snoc, Es0, <- (HA1 j s Hj). destruct (b_get_source_contents b1 j); reflexivity. }
    destruct Hstep as (b2 & Eb2 & I2 & Hint2 & Hc2' & S2). rewrite Eb2 in H. cbn [bind] in H.
    replace (done ++ t :: ts) with ((done ++ [t]) ++ ts) by (rewrite <- app_assoc; reflexivity).
    apply (IH b2 b' (done ++ [t]) I2 Hint2 Hc2'); [rewrite S2; lia|exact H].
Qed.

Lemma fold_ignore_contents l : forall m, sm_contents (fold_left (fun m id => add_to_ignore_list id m) l m) = sm_contents m
  /\ sm_sources (fold_left (fun m id => add_to_ignore_list id m) l m) = sm_sources m.
Proof. induction l as [|x l IH]; intros m; cbn [fold_left]; [auto|]. destruct (IH (add_to_ignore_list x m)) as [H1 H2]. cbn in *. auto. Qed.
Lemma into_sourcemap_contents b : forall j, get_source_contents (into_sourcemap b) j = b_get_source_contents b j.
Proof.
  intros j. unfold into_sourcemap, get_source_contents, b_get_source_contents.
  match goal with |- context [fold_left ?f ?l ?m0] => destruct (fold_ignore_contents l m0) as [H1 _]; rewrite H1 end.
  cbn [set_source_root set_debug_id sm_new sm_contents]. destruct (b_contents b); reflexivity.
Qed.
Lemma into_sourcemap_sources b : sm_sources (into_sourcemap b) = b_sources b.
Proof.
  unfold into_sourcemap. match goal with |- context [fold_left ?f ?l ?m0] => destruct (fold_ignore_contents l m0) as [_ H2]; rewrite H2 end. reflexivity.
Qed.

Theorem C09_contents m o m' mp : ro_contents o = true -> eff_prefixes m o = [] -> zlen (sm_tokens m) < NONE ->
  rewrite_with_mapping m o = Ok (m', mp) ->
  forall j s, znth_opt (sm_sources m') j = Some s -> get_source_contents m' j = first_content m (sm_tokens m) s.
Proof.
  intros Hkeep Hnp Hsz H j s Hj. unfold rewrite_with_mapping in H.
  set (b0 := b_set_debug_id (sm_debug_id m) (builder_new (sm_file m))) in *.
  assert (I0 : builder_inv b0) by (split; intros x; reflexivity).
  assert (Hint0 : interned b0).
  { unfold interned, b0. cbn. repeat split; try constructor; intros i Hi; change (zlen (@nil bytes)) with 0 in Hi; lia. }
  assert (Hc0 : contents_inv m b0 []).
  { split; [intros j0 s0 Hj0; destruct j0; discriminate|]. split; [intros t s0 []|]. cbn. lia. }
  destruct (rewrite_tokens m o (sm_tokens m) b0) as [b1|e|p] eqn:E; cbn [bind] in H; try discriminate.
  destruct (rewrite_tokens_contents m o Hkeep (sm_tokens m) b0 b1 [] I0 Hint0 Hc0 ltac:(change (zlen (b_sources b0)) with 0; lia) E) as [(HA & _) _].
  fold (eff_prefixes m o) in H. rewrite Hnp in H. cbn [is_nil] in H. inversion H; subst m' mp.
  rewrite into_sourcemap_sources in Hj. rewrite into_sourcemap_contents. cbn [app] in HA. apply HA. exact Hj.
Qed.
Print Assumptions C09_contents.

(* contents dropped: nothing is attached *)
Lemma rewrite_tokens_no_contents m o : ro_contents o = false -> forall ts b b', rewrite_tokens m o ts b = Ok b' -> b_contents b' = b_contents b.
Proof.
  intros Hdrop. induction ts as [|t ts IH]; intros b b' H; cbn [rewrite_tokens] in H; [inversion H; reflexivity|].
  set (nm := if ro_names o then tok_name m t else None) in *.
  assert (Hcont1 : b_contents (snd (add_with_id (t_dl t) (t_dc t) (t_sl t) (t_sc t) (tok_source m t) (t_src t) nm (t_range t) b)) = b_contents b).
  { unfold add_with_id. destruct (tok_source m t) as [s|].
    - pose proof (add_source_shape s (t_src t) b) as Hsh. destruct (add_source_with_id s (t_src t) b) as [id b1]. destruct Hsh as [_ (Hcs & _)].
      destruct nm as [n|]; [pose proof (add_name_shape n b1) as Hsh2; destruct (add_name n b1) as [id2 b2]; destruct Hsh2 as [_ (Hcs2 & _)]; cbn; congruence|cbn; exact Hcs].
    - destruct nm as [n|]; [pose proof (add_name_shape n b) as Hsh2; destruct (add_name n b) as [id2 b2]; destruct Hsh2 as [_ (Hcs2 & _)]; cbn; exact Hcs2|reflexivity]. }
  destruct (add_with_id (t_dl t) (t_dc t) (t_sl t) (t_sc t) (tok_source m t) (t_src t) nm (t_range t) b) as [raw b1]. cbn [snd] in Hcont1.
  rewrite Hdrop in H. rewrite andb_false_r in H. cbn [andb bind] in H. rewrite (IH b1 b' H). exact Hcont1.
Qed.
Theorem C09_no_contents m o m' mp : ro_contents o = false -> eff_prefixes m o = [] ->
  rewrite_with_mapping m o = Ok (m', mp) -> forall j, get_source_contents m' j = None.
Proof.
  intros Hdrop Hnp H j. unfold rewrite_with_mapping in H.
  destruct (rewrite_tokens m o (sm_tokens m) _) as [b1|e|p] eqn:E; cbn [bind] in H; try discriminate.
  fold (eff_prefixes m o) in H. rewrite Hnp in H. cbn [is_nil] in H. inversion H; subst m' mp.
  rewrite into_sourcemap_contents. unfold b_get_source_contents. rewrite (rewrite_tokens_no_contents m o Hdrop _ _ _ E). reflexivity.
Qed.
Print Assumptions C09_no_contents.
