(* C18: a data URL placed in a sourceMappingURL comment is discovered as written and decodes to the map.
   Line level (BufRead::lines is modelled by buf_lines; see Model/Detector.v). *)
From SM Require Import Model.Base Spec.Base64 Model.Detector Model.DataUrl Proofs.Base64Proofs Proofs.LocateProofs Proofs.DataUrlProofs.

Section E.
  Variable is_ws : Z -> bool.
  Variables p_new p_legacy : bytes.

  Lemma starts_with_self_app (p x : bytes) : starts_with (p ++ x) p = true.
  Proof. induction p as [|c p IH]; [destruct x; reflexivity|]. cbn [app starts_with]. rewrite Z.eqb_refl, IH. reflexivity. Qed.
  Lemma skipn_app_len {A} (p x : list A) : skipn (length p) (p ++ x) = x.
  Proof. induction p as [|c p IH]; [reflexivity|exact IH]. Qed.

  (* the comment line holds the new-style prefix followed by the URL; no earlier line begins with either prefix *)
  Theorem locate_embedded_new pre post url :
    Forall (fun l => has_prefix p_new p_legacy l = false) pre ->
    trim is_ws url = url -> starts_with (p_new ++ url) [47; 47; 64] = false ->
    locate_lines is_ws p_new p_legacy (length p_new) (pre ++ (p_new ++ url) :: post) = Some (Ref url).
  Proof.
    intros Hpre Htrim Hnl. induction Hpre as [|l pre Hl Hpre IH]; cbn [app locate_lines].
    - rewrite starts_with_self_app. cbn [orb]. rewrite Hnl, skipn_app_len, Htrim. reflexivity.
    - unfold has_prefix in Hl. rewrite Hl. exact IH.
  Qed.
  Theorem locate_embedded_legacy pre post url :
    Forall (fun l => has_prefix p_new p_legacy l = false) pre ->
    trim is_ws url = url -> starts_with (p_legacy ++ url) [47; 47; 64] = true ->
    locate_lines is_ws p_new p_legacy (length p_legacy) (pre ++ (p_legacy ++ url) :: post) = Some (LegacyRef url).
  Proof.
    intros Hpre Htrim Hnl. induction Hpre as [|l pre Hl Hpre IH]; cbn [app locate_lines].
    - rewrite starts_with_self_app, orb_true_r. rewrite Hnl, skipn_app_len, Htrim. reflexivity.
    - unfold has_prefix in Hl. rewrite Hl. exact IH.
  Qed.

  (* ... and what is discovered decodes to what the serialised bytes decode to *)
  Context {A : Type} (encode : A -> bytes) (decode_slice : bytes -> outcome A).
  Definition get_embedded (r : smref) : outcome A :=
    match r with Ref u | LegacyRef u => decode_data_url decode_slice PREAMBLES_IN u end.
  Theorem C18_embedded pre post m :
    let url := to_data_url encode PREAMBLE_OUT m in
    Forall (fun l => has_prefix p_new p_legacy l = false) pre ->
    trim is_ws url = url -> Forall byte (encode m) ->
    (starts_with (p_new ++ url) [47; 47; 64] = false ->
     exists r, locate_lines is_ws p_new p_legacy (length p_new) (pre ++ (p_new ++ url) :: post) = Some r
               /\ get_embedded r = decode_slice (encode m))
    /\ (starts_with (p_legacy ++ url) [47; 47; 64] = true ->
     exists r, locate_lines is_ws p_new p_legacy (length p_legacy) (pre ++ (p_legacy ++ url) :: post) = Some r
               /\ get_embedded r = decode_slice (encode m)).
  Proof.
    intros url Hpre Htrim Hb. split; intros Hs.
    - exists (Ref url). split; [apply locate_embedded_new; assumption|]. cbn [get_embedded]. apply C18_data_url. exact Hb.
    - exists (LegacyRef url). split; [apply locate_embedded_legacy; assumption|]. cbn [get_embedded]. apply C18_data_url. exact Hb.
  Qed.
End E.
