(* Regenerated constant used by C20: the RAM bundle magic number. *)
From SM Require Import Model.Base Model.Gen_Consts Model.RamBundle.
Lemma magic_ok : GEN_RAM_BUNDLE_MAGIC = RAM_BUNDLE_MAGIC. Proof. reflexivity. Qed.
