(* C04 over histories: whatever sequence of map-producing and map-editing operations led to a map, its tokens are ordered
   by generated position, and therefore (C04_glb / C07_lookup) every lookup on it is the closest-preceding-token rule. *)
From SM Require Import Model.Base Model.Mappings Model.Glb Model.SourceMap Model.Rewrite Model.Raw Model.Adjust
     Proofs.BaseLemmas Proofs.GlbProofs Proofs.LookupProofs Proofs.FlattenProofs.

Definition with_tokens (m : smap) (ts : list rtoken) : smap :=
  mkSM (sm_file m) ts (sm_names m) (sm_root m) (sm_sources m) (sm_prefixed m) (sm_contents m) (sm_ignore m) (sm_debug_id m).

(* every way the API hands out or changes a map; `adj`, the builder, the raw document and the sections are arbitrary *)
Inductive obtained : smap -> Prop :=
| O_new f t n s c : obtained (sm_new f t n s c)
| O_builder b : obtained (into_sourcemap b)
| O_decode r m : decode_regular r = Ok m -> obtained m
| O_rewrite m o m' mp : obtained m -> rewrite_with_mapping m o = Ok (m', mp) -> obtained m'
| O_flatten f file secs fm : flatten f file secs = Ok fm -> obtained fm
| O_adjust m adj out : obtained m -> adjust_mappings (sm_tokens m) (sm_tokens adj) = Ok out -> obtained (with_tokens m out)
| O_set_root v m : obtained m -> obtained (set_source_root v m)
| O_set_source i v m m' : obtained m -> set_source i v m = Ok m' -> obtained m'
| O_set_contents i v m m' : obtained m -> set_source_contents i v m = Ok m' -> obtained m'
| O_ignore x m : obtained m -> obtained (add_to_ignore_list x m)
| O_debug d m : obtained m -> obtained (set_debug_id d m).

Lemma fold_ignore_tokens' l : forall m, sm_tokens (fold_left (fun m id => add_to_ignore_list id m) l m) = sm_tokens m.
Proof. induction l as [|x l IH]; intros m; cbn [fold_left]; [reflexivity|]. rewrite IH. reflexivity. Qed.
Lemma into_sourcemap_sorted b : sorted tok_key (sm_tokens (into_sourcemap b)).
Proof. unfold into_sourcemap. rewrite fold_ignore_tokens'. apply isort_sorted. Qed.
Lemma set_source_tokens i v m m' : set_source i v m = Ok m' -> sm_tokens m' = sm_tokens m.
Proof.
  unfold set_source. destruct (zset_nth (sm_sources m) i v); [|discriminate].
  destruct (sm_prefixed m) as [p|].
  - destruct (sm_root m) as [r|]; [|discriminate]. destruct (zset_nth p i v); [|discriminate].
    destruct (zset_nth p i (prefix_source r v)); [|discriminate]. intros H; inversion H; reflexivity.
  - intros H; inversion H; reflexivity.
Qed.
Lemma set_contents_tokens i v m m' : set_source_contents i v m = Ok m' -> sm_tokens m' = sm_tokens m.
Proof. unfold set_source_contents. destruct (zset_nth _ i v); [|discriminate]. intros H; inversion H; reflexivity. Qed.

Theorem obtained_sorted m : obtained m -> sorted tok_key (sm_tokens m).
Proof.
  induction 1 as [f t n s c|b|r m H|m o m' mp _ _ H|f file secs fm H|m adj out _ _ H|v m _ IH|i v m m' _ IH H|i v m m' _ IH H|x m _ IH|d m _ IH].
  - apply isort_sorted.
  - apply into_sourcemap_sorted.
  - unfold decode_regular in H. destruct (decode_mappings _ _ _ _) as [toks|e|p]; cbn [bind] in H; try discriminate.
    inversion H; subst. rewrite fold_ignore_tokens'. apply isort_sorted.
  - unfold rewrite_with_mapping in H. destruct (rewrite_tokens m o (sm_tokens m) _) as [b|e|p]; cbn [bind] in H; try discriminate.
    inversion H; subst. apply into_sourcemap_sorted.
  - destruct f as [|f]; [discriminate|]. cbn [flatten] in H.
    match type of H with (do b <- ?g; _) = _ => destruct g as [b|e|p] end; cbn [bind] in H; try discriminate.
    inversion H; subst. apply into_sourcemap_sorted.
  - cbn [with_tokens sm_tokens]. unfold adjust_mappings in H. destruct (create_ranges dst_key (sm_tokens m)); [inversion H; constructor|].
    destruct (sweep _ _) as [o|e|p]; cbn [bind] in H; try discriminate. inversion H; subst. apply (isort_sorted dst_key).
  - exact IH.
  - rewrite (set_source_tokens _ _ _ _ H). exact IH.
  - rewrite (set_contents_tokens _ _ _ _ H). exact IH.
  - exact IH.
  - exact IH.
Qed.

(* the property, for every map however obtained and every query position *)
Theorem C04_histories m line col : obtained m ->
  Forall (fun t => is_u32 (t_dc t) = true) (sm_tokens m) -> is_u32 col = true ->
  sorted tok_key (sm_tokens m) /\
  match lookup_token (sm_tokens m) line col with
  | Ok None => forall t, In t (sm_tokens m) -> plt (line, col) (tok_key t)
  | Ok (Some (i, t, _)) => glb_spec tok_key (sm_tokens m) (line, col) (Some (i, t))
  | _ => False
  end.
Proof.
  intros Ho Hu Hc. pose proof (obtained_sorted m Ho) as Hs. split; [exact Hs|].
  pose proof (C07_lookup (sm_tokens m) line col Hs Hu Hc) as H.
  destruct (lookup_token (sm_tokens m) line col) as [[[[i t] off]|]|e|p]; try exact H. exact (proj1 H).
Qed.

(* non-vacuity: a three-step history (raw constructor with tokens out of order, rewrite, set_source_root) *)
Definition hist_m0 := sm_new None [mkTok 1 0 0 0 0 NONE false; mkTok 0 4 0 0 0 NONE false] [] [[97]] None.
Example history_ex : exists m1 mp,
  rewrite_with_mapping hist_m0 (mkRO true true []) = Ok (m1, mp)
  /\ obtained (set_source_root (Some [114]) m1)
  /\ map tok_key (sm_tokens m1) = [(0, 4); (1, 0)].
Proof.
  eexists. eexists. split; [vm_compute; reflexivity|]. split.
  - apply O_set_root. eapply (O_rewrite hist_m0 (mkRO true true [])); [apply O_new|]. vm_compute. reflexivity.
  - vm_compute. reflexivity.
Qed.
