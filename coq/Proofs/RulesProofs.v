(* The declarative string rules of Spec/Rules.v (used as oracles on the crate's observations) are what the model
   computes: join_rule / prefix_source = spec_join, strip1 = spec_strip. *)
From SM Require Import Model.Base Model.Mappings Model.Glb Model.SourceMap Model.Rewrite Spec.Rules Proofs.SettersProofs Proofs.RewriteProofs.

Lemma drop_slash_eq r : strip_one_trailing_slash r = drop_one_trailing_slash r.
Proof. reflexivity. Qed.

Lemma is_absolute_spec s :
  is_absolute s = negb (is_nil s) && (starts_with s [47] || starts_with s http_ || starts_with s https_).
Proof. destruct s; reflexivity. Qed.

Lemma prefix_source_join r s : r <> [] -> prefix_source r s = spec_join (Some r) s.
Proof.
  intros Hr. unfold prefix_source, spec_join. destruct r as [|x r']; [contradiction|].
  rewrite is_absolute_spec. unfold http_, https_.
  destruct (negb (is_nil s) && (starts_with s [47] || starts_with s [104; 116; 116; 112; 58] || starts_with s [104; 116; 116; 112; 115; 58])); reflexivity.
Qed.

Theorem join_rule_spec root s : join_rule root s = spec_join root s.
Proof.
  unfold join_rule. destruct root as [r|]; [|reflexivity].
  destruct r as [|x r']; [reflexivity|]. cbn [is_nil]. apply prefix_source_join. discriminate.
Qed.

Theorem strip1_spec ps s : strip1 ps s = spec_strip ps s.
Proof.
  induction ps as [|p ps IH]; cbn [strip1 spec_strip]; [reflexivity|].
  unfold with_slash. rewrite IH. reflexivity.
Qed.

(* what a rewritten token's source reads as, in terms of the declarative rule: non-"~" prefixes in the order given, then the
   common prefix of the raw source names when "~" was listed *)
Theorem eff_prefixes_spec m o :
  eff_prefixes m o = filter (fun p => negb (bytes_eqb p tilde)) (ro_prefixes o)
                     ++ (if existsb (fun p => bytes_eqb p tilde) (ro_prefixes o)
                         then match find_common_prefix (sm_sources m) with Some c => [c] | None => [] end else []).
Proof. reflexivity. Qed.
