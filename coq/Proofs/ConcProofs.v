(* C16 for the repaired get_line (one critical section per call): safety under every interleaving. *)
From SM Require Import Model.Base Model.SourceView Spec.SourceView Model.Conc Proofs.SourceViewProofs.

Section C16.
  Variable src : bytes.
  Hypothesis Hsmall : zlen (L src) <= u32_max.

  Definition expected (c : call) : answer :=
    match c with CGetLine i => ALine (znth_opt (L src) i) | CLineCount => ACount (zlen (L src)) end.
  Definition call_ok (c : call) : Prop := match c with CGetLine i => 0 <= i | CLineCount => True end.
  Definition finished (s : shared) : Prop := sv_pu (s_sv s) = zlen src + 1 /\ sv_lines (s_sv s) = L src.

  (* per-thread invariant, given whether this thread owns the lock *)
  Definition thread_inv (owns : bool) (s : shared) (t : thread) : Prop :=
    Forall call_ok (th_calls t) /\
    match th_pc t with
    | PEntry => owns = false /\ th_calls t <> []
    | PMissed => owns = true /\ th_calls t <> [] /\ znth_opt (sv_lines (s_sv s)) (cur_idx t) = None
    | PWantLock
    | PLoop => owns = true /\ th_calls t <> [] /\ znth_opt (sv_lines (s_sv s)) (cur_idx t) = None
               /\ 0 <= sv_pu (s_sv s) <= zlen src
               /\ split_lines src = sv_lines (s_sv s) ++ split_lines (zskipn (sv_pu (s_sv s)) src)
    | PCount => owns = false /\ (exists rest, th_calls t = CLineCount :: rest) /\ finished s
    | PDone => owns = false /\ th_calls t = []
    end.
  Definition owns_of (s : shared) (i : nat) : bool :=
    match s_owner s with Some o => Nat.eqb o i | None => false end.
  Definition global_inv (ts : list thread) (s : shared) : Prop :=
    Inv src (s_sv s) /\ s_poisoned s = false
    /\ (forall i t, nth_error ts i = Some t -> thread_inv (owns_of s i) s t)
    /\ (forall o, s_owner s = Some o -> (o < length ts)%nat).

  (* the answers a step may add *)
  Definition step_answers_ok (t t' : thread) : Prop :=
    (th_answers t' = th_answers t /\ th_calls t' = th_calls t) \/
    exists c rest, th_calls t = c :: rest /\ th_answers t' = expected c :: th_answers t /\ th_calls t' = rest.

  Lemma cur_idx_nonneg t : Forall call_ok (th_calls t) -> 0 <= cur_idx t.
  Proof. unfold cur_idx. destruct (th_calls t) as [|[i|] r]; intros H; try (unfold u32_max; lia). inversion H; assumption. Qed.

  Lemma finished_stable s : finished s -> Inv src (s_sv s).
  Proof. intros [H1 H2]. right. split; [exact H1|]. unfold L in H2. symmetry. exact H2. Qed.

  (* finishing a call: the thread's recorded answer is the expected one *)
  Lemma finish_ok t a seen : th_calls t <> [] ->
    (forall i rest, th_calls t = CGetLine i :: rest -> a = znth_opt (L src) i) ->
    step_answers_ok t (finish t a seen).
  Proof.
    intros Hne Ha. unfold finish. destruct (th_calls t) as [|[i|] rest] eqn:E; [contradiction| |].
    - right. exists (CGetLine i), rest. cbn. rewrite (Ha i rest eq_refl). auto.
    - left. split; [reflexivity|]. cbn [th_calls]. symmetry. exact E.
  Qed.

  Fixpoint set_thread (ts : list thread) (i : nat) (t : thread) : list thread :=
    match ts, i with [], _ => [] | _ :: r, O => t :: r | x :: r, S i' => x :: set_thread r i' t end.
  Lemma set_thread_length ts i t : length (set_thread ts i t) = length ts.
  Proof. revert i; induction ts as [|x r IH]; intros [|i]; cbn; auto. Qed.
  Lemma nth_set_thread ts i t j : (i < length ts)%nat ->
    nth_error (set_thread ts i t) j = if Nat.eqb j i then Some t else nth_error ts j.
  Proof.
    revert i j. induction ts as [|x r IH]; intros [|i] [|j] H; cbn in *; try lia; auto.
    apply IH. lia.
  Qed.

  Lemma prefix_answer s idx l : Inv src (s_sv s) -> znth_opt (sv_lines (s_sv s)) idx = Some l -> znth_opt (L src) idx = Some l.
  Proof. intros Hinv H. destruct (Inv_lines_prefix src _ Hinv) as [r Hr]. rewrite Hr. apply znth_opt_app_l. exact H. Qed.
  Lemma no_hit_for_count s : Inv src (s_sv s) -> znth_opt (sv_lines (s_sv s)) u32_max = None.
  Proof.
    intros Hinv. destruct (znth_opt (sv_lines (s_sv s)) u32_max) eqn:E; [|reflexivity].
    apply (prefix_answer s u32_max b Hinv) in E. rewrite znth_opt_ge in E by exact Hsmall. discriminate.
  Qed.

  (* the thread state reached by `finish`, with the lock released and the shared view s' *)
  Lemma finish_inv t a seen s' : Forall call_ok (th_calls t) -> th_calls t <> [] ->
    ((exists rest, th_calls t = CLineCount :: rest) -> finished s') ->
    thread_inv false s' (finish t a seen).
  Proof.
    intros Hok Hne Hfin. unfold finish, thread_inv. destruct (th_calls t) as [|[i|] rest] eqn:E; [contradiction| |].
    - inversion Hok; subst. destruct rest; cbn; repeat split; auto; discriminate.
    - assert (Hf : finished s') by (apply Hfin; eauto). cbn. repeat split; eauto; apply Hf.
  Qed.

  Theorem step_preserves ts s i ch t t' s' :
    global_inv ts s -> nth_error ts i = Some t -> step true src i ch t s = Some (t', s') ->
    global_inv (set_thread ts i t') s' /\ step_answers_ok t t'.
  Proof.
    intros (Hinv & Hpois & Hthreads & Hown) Hi Hstep.
    assert (Hlt : (i < length ts)%nat) by (apply nth_error_Some; congruence).
    pose proof (Hthreads i t Hi) as Ht. destruct Ht as [Hcalls Hpc].
    (* how the other threads fare when only thread i and the shared state change *)
    assert (Hothers : forall s'', s_poisoned s'' = false -> Inv src (s_sv s'') ->
              (forall o, s_owner s'' = Some o -> o = i) ->
              thread_inv (owns_of s'' i) s'' t' ->
              (forall j u, j <> i -> nth_error ts j = Some u -> owns_of s j = false -> thread_inv false s'' u) ->
              (forall j, j <> i -> owns_of s j = false) ->
              global_inv (set_thread ts i t') s'').
    { intros s'' Hp'' Hinv'' Ho'' Ht'' Hrest Hnot. unfold global_inv. split; [exact Hinv''|]. split; [exact Hp''|]. split.
      - intros j u Hj. rewrite nth_set_thread in Hj by exact Hlt.
        destruct (Nat.eqb_spec j i) as [->|Hne]; [inversion Hj; subst; exact Ht''|].
        assert (owns_of s'' j = false).
        { unfold owns_of. destruct (s_owner s'') as [o|] eqn:Eo; [|reflexivity]. rewrite (Ho'' o eq_refl). apply Nat.eqb_neq. auto. }
        rewrite H. apply (Hrest j u); auto.
      - intros o Ho. rewrite set_thread_length, (Ho'' o Ho). exact Hlt. }
    unfold step in Hstep. destruct (th_pc t) eqn:Epc; try discriminate.
    - (* PEntry: lock, cached-line check; a hit answers and releases, a miss keeps the guard *)
      destruct Hpc as [Hnot Hne].
      destruct (s_owner s) as [o|] eqn:Eo; cbn in Hstep; [discriminate|].
      rewrite Hpois in Hstep.
      assert (Hrest0 : forall s'', s_sv s'' = s_sv s -> forall j u, j <> i -> nth_error ts j = Some u -> owns_of s j = false -> thread_inv false s'' u).
      { intros s'' Hsv j u Hne' Hj Hoj. pose proof (Hthreads j u Hj) as Hu. rewrite Hoj in Hu.
        destruct Hu as [Hc Hp]. split; [exact Hc|]. destruct (th_pc u); auto;
          try (destruct Hp as [Hf _]; discriminate).
        destruct Hp as (a & b & (c1 & c2)). repeat split; auto; unfold finished; rewrite Hsv; assumption. }
      assert (Hfree : forall j, j <> i -> owns_of s j = false) by (intros j _; unfold owns_of; rewrite Eo; reflexivity).
      destruct (znth_opt (sv_lines (s_sv s)) (cur_idx t)) as [l|] eqn:Ehit.
      + inversion Hstep; subst; clear Hstep.
        pose proof (prefix_answer s' _ l Hinv Ehit) as Hans.
        split.
        * apply Hothers; auto.
          -- intros o Ho. rewrite Eo in Ho. discriminate.
          -- unfold owns_of. rewrite Eo. apply finish_inv; auto.
             intros [rest Hr]. exfalso. unfold cur_idx in Ehit. rewrite Hr in Ehit.
             rewrite (no_hit_for_count s' Hinv) in Ehit. discriminate.
          -- apply Hrest0. reflexivity.
        * apply finish_ok; auto. intros idx rest Hc. unfold cur_idx in Hans. rewrite Hc in Hans. symmetry. exact Hans.
      + inversion Hstep; subst; clear Hstep. split; [|left; split; reflexivity].
        apply Hothers; cbn [s_poisoned s_sv s_owner]; auto.
        * intros o Ho. inversion Ho. reflexivity.
        * unfold owns_of. cbn [s_owner]. rewrite Nat.eqb_refl. unfold thread_inv. cbn [th_pc th_calls s_sv]. auto.
        * apply Hrest0. reflexivity.
    - (* PMissed: the "fetched everything" test under the lock *)
      destruct Hpc as (Hmine & Hne & Hmiss).
      assert (Eown : s_owner s = Some i).
      { unfold owns_of in Hmine. destruct (s_owner s) as [o|]; [|discriminate]. apply Nat.eqb_eq in Hmine. subst. reflexivity. }
      rewrite Eown in Hstep. cbn in Hstep. rewrite Nat.eqb_refl in Hstep. cbn in Hstep.
      assert (Hrest : forall s'', s_sv s'' = s_sv s -> forall j u, j <> i -> nth_error ts j = Some u -> owns_of s j = false -> thread_inv false s'' u).
      { intros s'' Hsv j u Hne' Hj Hoj. pose proof (Hthreads j u Hj) as Hu. rewrite Hoj in Hu.
        destruct Hu as [Hc Hp]. split; [exact Hc|]. destruct (th_pc u); auto;
          try (destruct Hp as [Hf _]; discriminate).
        destruct Hp as (a & b & (c1 & c2)). repeat split; auto; unfold finished; rewrite Hsv; assumption. }
      assert (Hnoown : forall j, j <> i -> owns_of s j = false).
      { intros j Hj. unfold owns_of. rewrite Eown. apply Nat.eqb_neq. auto. }
      destruct (Z.ltb_spec (zlen src) (sv_pu (s_sv s))) as [Hfin|Hnot].
      + inversion Hstep; subst; clear Hstep.
        assert (Hf : finished s).
        { destruct Hinv as [[Hc _]|[Hc1 Hc2]]; [lia|]. split; [exact Hc1|]. unfold L. symmetry. exact Hc2. }
        split.
        * apply Hothers; cbn [s_poisoned s_sv s_owner]; auto; try discriminate.
          -- unfold owns_of. cbn [s_owner]. apply finish_inv; auto.
          -- apply Hrest. reflexivity.
        * apply finish_ok; auto. intros idx rest Hc. unfold cur_idx in Hmiss. rewrite Hc in Hmiss.
          destruct Hf as [_ Hf]. rewrite <- Hf. symmetry. exact Hmiss.
      + inversion Hstep; subst; clear Hstep. split; [|left; split; reflexivity].
        apply Hothers; auto.
        * intros o Ho. rewrite Eown in Ho. inversion Ho. reflexivity.
        * rewrite Hmine. unfold thread_inv. cbn [th_pc th_calls]. split; [exact Hcalls|].
          destruct Hinv as [[Hc1 Hc2]|[Hc _]]; [|lia]. repeat split; auto; lia.
        * apply Hrest. reflexivity.
    - (* PWantLock: nothing happens between yield points 2 and 3 of the repaired code *)
      destruct Hpc as (Hmine & Hne & Hmiss & Hpu & Hsplit).
      assert (Eown : s_owner s = Some i).
      { unfold owns_of in Hmine. destruct (s_owner s) as [o|]; [|discriminate]. apply Nat.eqb_eq in Hmine. subst. reflexivity. }
      rewrite Eown in Hstep. cbn in Hstep. rewrite Nat.eqb_refl in Hstep. cbn in Hstep.
      inversion Hstep; subst; clear Hstep. split; [|left; split; reflexivity].
      apply Hothers; auto.
      + intros o Ho. rewrite Eown in Ho. inversion Ho. reflexivity.
      + rewrite Hmine. unfold thread_inv. cbn [th_pc th_calls]. split; [exact Hcalls|]. repeat split; auto; lia.
      + intros j u Hne' Hj Hoj. pose proof (Hthreads j u Hj) as Hu. rewrite Hoj in Hu. exact Hu.
      + intros j Hj. unfold owns_of. rewrite Eown. apply Nat.eqb_neq. auto.
    - (* PLoop *)
      destruct Hpc as (Hmine & Hne & Hmiss & Hpu & Hsplit).
      assert (Eown : s_owner s = Some i).
      { unfold owns_of in Hmine. destruct (s_owner s) as [o|]; [|discriminate]. apply Nat.eqb_eq in Hmine. subst. reflexivity. }
      rewrite Eown in Hstep. cbn in Hstep. rewrite Nat.eqb_refl in Hstep. cbn in Hstep.
      destruct (index_step_inv src (s_sv s) Hpu Hsplit) as (st' & done & Hst & Hinv' & Hgrow & Hlen & Hd1 & Hd0).
      rewrite Hst in Hstep.
      assert (Hrest : forall s'', forall j u, j <> i -> nth_error ts j = Some u -> owns_of s j = false -> thread_inv false s'' u).
      { intros s'' j u Hne' Hj Hoj. pose proof (Hthreads j u Hj) as Hu. rewrite Hoj in Hu.
        destruct Hu as [Hc Hp]. split; [exact Hc|]. destruct (th_pc u); auto;
          try (destruct Hp as [Hf _]; discriminate).
        destruct Hp as (a & b & (c1 & c2)). exfalso. lia. }
      assert (Hnoown : forall j, j <> i -> owns_of s j = false).
      { intros j Hj. unfold owns_of. rewrite Eown. apply Nat.eqb_neq. auto. }
      destruct (znth_opt (sv_lines st') (cur_idx t)) as [l|] eqn:Ehit.
      + inversion Hstep; subst; clear Hstep.
        assert (Hans : znth_opt (L src) (cur_idx t) = Some l).
        { destruct (Inv_lines_prefix src st' Hinv') as [r Hr]. rewrite Hr. apply znth_opt_app_l. exact Ehit. }
        split.
        * apply Hothers; cbn [s_poisoned s_sv s_owner]; auto; try discriminate; try apply Hrest.
          unfold owns_of. cbn [s_owner]. apply finish_inv; auto.
          intros [rest Hr]. exfalso. unfold cur_idx in Hans. rewrite Hr in Hans.
          rewrite znth_opt_ge in Hans by exact Hsmall. discriminate.
        * apply finish_ok; auto. intros idx rest Hc. unfold cur_idx in Hans. rewrite Hc in Hans. symmetry. exact Hans.
      + destruct done.
        * inversion Hstep; subst; clear Hstep.
          assert (Hf : sv_pu st' = zlen src + 1 /\ sv_lines st' = L src).
          { destruct Hinv' as [[Hc _]|[Hc1 Hc2]]; [specialize (Hd1 eq_refl); lia|]. split; [exact Hc1|]. unfold L. symmetry. exact Hc2. }
          split.
          -- apply Hothers; cbn [s_poisoned s_sv s_owner]; auto; try discriminate; try apply Hrest.
             unfold owns_of. cbn [s_owner]. apply finish_inv; auto.
          -- apply finish_ok; auto. intros idx rest Hc. unfold cur_idx in Ehit. rewrite Hc in Ehit.
             destruct Hf as [_ Hf]. rewrite <- Hf. symmetry. exact Ehit.
        * inversion Hstep; subst; clear Hstep. split; [|left; split; reflexivity].
          apply Hothers; cbn [s_poisoned s_sv s_owner]; auto; try apply Hrest.
          -- intros o Ho. inversion Ho. reflexivity.
          -- unfold owns_of. cbn [s_owner]. rewrite Nat.eqb_refl. unfold thread_inv. cbn [th_pc th_calls s_sv].
             split; [exact Hcalls|]. specialize (Hd0 eq_refl).
             destruct Hinv' as [[Hc1 Hc2]|[Hc _]]; [|lia]. repeat split; auto; lia.
    - (* PCount *)
      destruct Hpc as (Hnot & (rest & Hcalls') & Hfin).
      destruct (s_owner s) as [o|] eqn:Eo; cbn in Hstep; [discriminate|].
      rewrite Hpois, Hcalls' in Hstep. inversion Hstep; subst; clear Hstep.
      split.
      + apply Hothers; auto.
        * intros o Ho. rewrite Eo in Ho. discriminate.
        * unfold owns_of. rewrite Eo. unfold thread_inv. cbn [th_pc th_calls].
          rewrite Hcalls' in Hcalls. inversion Hcalls; subst.
          split; [assumption|]. destruct rest; cbn; repeat split; auto; discriminate.
        * intros j u Hne' Hj Hoj. pose proof (Hthreads j u Hj) as Hu. rewrite Hoj in Hu. exact Hu.
        * intros j _. unfold owns_of. rewrite Eo. reflexivity.
      + right. exists CLineCount, rest. cbn [th_answers th_calls expected]. destruct Hfin as [_ Hf]. rewrite Hf. auto.
  Qed.

  (* ---- all executions ---- *)
  Inductive reach (calls0 : list (list call)) : list thread -> shared -> Prop :=
  | reach_init : reach calls0 (map init_thread calls0) init_shared
  | reach_step ts s i ch t t' s' :
      reach calls0 ts s -> nth_error ts i = Some t -> step true src i ch t s = Some (t', s') ->
      reach calls0 (set_thread ts i t') s'.

  Definition thread_answers_ok (cs : list call) (t : thread) : Prop :=
    exists done, cs = done ++ th_calls t /\ rev (th_answers t) = map expected done.

  Lemma init_inv calls0 : Forall (Forall call_ok) calls0 -> global_inv (map init_thread calls0) init_shared.
  Proof.
    intros Hok. unfold global_inv. split; [apply Inv_new|]. split; [reflexivity|]. split; [|discriminate].
    intros i t Hi. rewrite nth_error_map in Hi. destruct (nth_error calls0 i) as [cs|] eqn:E; [|discriminate].
    inversion Hi; subst. unfold thread_inv, init_thread, owns_of. cbn.
    rewrite Forall_forall in Hok. specialize (Hok cs (nth_error_In _ _ E)).
    destruct cs; cbn; repeat split; auto; discriminate.
  Qed.

  Theorem C16_safe calls0 ts s : Forall (Forall call_ok) calls0 -> reach calls0 ts s ->
    global_inv ts s
    /\ length ts = length calls0
    /\ (forall i cs t, nth_error calls0 i = Some cs -> nth_error ts i = Some t -> thread_answers_ok cs t).
  Proof.
    intros Hok. induction 1 as [|ts s i ch t t' s' Hr IH Hi Hstep].
    - split; [apply init_inv; exact Hok|]. split; [apply map_length|].
      intros i cs t Hc Ht. rewrite nth_error_map, Hc in Ht. inversion Ht; subst.
      exists []. unfold init_thread. destruct cs; cbn; split; reflexivity.
    - destruct IH as (Hinv & Hlen & Hans).
      destruct (step_preserves ts s i ch t t' s' Hinv Hi Hstep) as [Hinv' Hsa].
      assert (Hlt : (i < length ts)%nat) by (apply nth_error_Some; congruence).
      split; [exact Hinv'|]. split; [rewrite set_thread_length; exact Hlen|].
      intros j cs u Hc Hu. rewrite nth_set_thread in Hu by exact Hlt.
      destruct (Nat.eqb_spec j i) as [->|Hne]; [|eapply Hans; eassumption].
      inversion Hu; subst. destruct (Hans i cs t Hc Hi) as (done & Hd1 & Hd2).
      destruct Hsa as [[Ha Hcs]|(c & rest & Hcalls & Ha & Hcs)].
      + exists done. rewrite Ha, Hcs. split; assumption.
      + exists (done ++ [c]). rewrite Hcs, Ha. split.
        * rewrite Hd1, Hcalls, <- app_assoc. reflexivity.
        * cbn [rev]. rewrite Hd2, map_app. reflexivity.
  Qed.
  (* ---- progress: no reachable state with unfinished work is stuck (no deadlock) ---- *)
  Theorem step_enabled ts s : global_inv ts s ->
    (exists i t, nth_error ts i = Some t /\ th_pc t <> PDone) ->
    exists i t ch t' s', nth_error ts i = Some t /\ step true src i ch t s = Some (t', s').
  Proof.
    intros (Hinv & Hpois & Hthreads & Hown) (i0 & t0 & Hi0 & Hnd).
    destruct (s_owner s) as [o|] eqn:Eo.
    - (* the lock is held: its owner can move *)
      pose proof (Hown o eq_refl) as Hlt. destruct (nth_error ts o) as [t|] eqn:Et; [|apply nth_error_None in Et; lia].
      pose proof (Hthreads o t Et) as [Hcalls Hpc]. unfold owns_of in Hpc. rewrite Eo, Nat.eqb_refl in Hpc.
      exists o, t, O. unfold step. rewrite Eo. cbn [negb]. rewrite Nat.eqb_refl. cbn [negb].
      destruct (th_pc t) eqn:Epc; try (destruct Hpc as [Hf _]; discriminate).
      + destruct (zlen src <? sv_pu (s_sv s)); eauto.
      + eauto.
      + destruct Hpc as (_ & _ & _ & Hpu & Hsplit).
        destruct (index_step_inv src (s_sv s) Hpu Hsplit) as (st' & done & Hst & _). rewrite Hst.
        destruct (znth_opt (sv_lines st') (cur_idx t)); [eauto|]. destruct done; eauto.
    - (* the lock is free: any unfinished thread is at an entry point *)
      pose proof (Hthreads i0 t0 Hi0) as [Hcalls Hpc]. unfold owns_of in Hpc. rewrite Eo in Hpc.
      exists i0, t0, O. unfold step. rewrite Eo. cbn [negb]. rewrite Hpois.
      destruct (th_pc t0) eqn:Epc; try contradiction; try (destruct Hpc as [Hf _]; discriminate).
      + destruct (znth_opt (sv_lines (s_sv s)) (cur_idx t0)); eauto.
      + destruct Hpc as (_ & (rest & Hc) & _). rewrite Hc. eauto.
  Qed.

  (* ---- termination: a measure that every step decreases ---- *)
  Definition rank (p : pc) : Z := match p with PEntry => 5 | PMissed => 4 | PWantLock => 3 | PLoop => 2 | PCount => 1 | PDone => 0 end.
  Definition weight (t : thread) : Z := 6 * zlen (th_calls t) + rank (th_pc t).
  Fixpoint total_weight (ts : list thread) : Z := match ts with [] => 0 | t :: r => weight t + total_weight r end.
  Definition measure (ts : list thread) (s : shared) : Z := total_weight ts + (zlen src + 1 - sv_pu (s_sv s)).

  Lemma weight_nonneg t : 0 <= weight t.
  Proof. unfold weight, zlen. destruct (th_pc t); cbn [rank]; lia. Qed.
  Lemma total_weight_nonneg ts : 0 <= total_weight ts.
  Proof. induction ts as [|t r IH]; cbn [total_weight]; [lia|]. pose proof (weight_nonneg t). lia. Qed.
  Lemma total_weight_set ts i t t' : nth_error ts i = Some t -> total_weight (set_thread ts i t') = total_weight ts - weight t + weight t'.
  Proof.
    revert i. induction ts as [|x r IH]; intros [|i] H; cbn in H; try discriminate.
    - inversion H; subst. cbn [set_thread total_weight]. lia.
    - cbn [set_thread total_weight]. rewrite (IH i H). lia.
  Qed.
  Lemma weight_finish t a seen : th_calls t <> [] -> 2 <= rank (th_pc t) -> weight (finish t a seen) < weight t.
  Proof.
    intros Hne Hr. unfold finish, weight. destruct (th_calls t) as [|[i|] rest] eqn:E; [contradiction| |].
    - cbn [th_calls th_pc]. unfold zlen. cbn [length]. destruct rest; cbn [rank length]; lia.
    - cbn [th_calls th_pc rank]. lia.
  Qed.

  Theorem step_decreases ts s i ch t t' s' :
    global_inv ts s -> nth_error ts i = Some t -> step true src i ch t s = Some (t', s') ->
    0 <= measure (set_thread ts i t') s' < measure ts s.
  Proof.
    intros Hg Hi Hstep. destruct (step_preserves ts s i ch t t' s' Hg Hi Hstep) as [(Hinv' & _) _].
    destruct Hg as (Hinv & Hpois & Hthreads & Hown). pose proof (Hthreads i t Hi) as [Hcalls Hpc].
    assert (Hpu' : sv_pu (s_sv s') <= zlen src + 1) by (destruct Hinv' as [[H _]|[H _]]; lia).
    unfold measure. rewrite (total_weight_set ts i t t' Hi).
    pose proof (total_weight_nonneg (set_thread ts i t')) as Hn. rewrite (total_weight_set ts i t t' Hi) in Hn.
    split; [lia|].
    assert (Hgoal : weight t' + (sv_pu (s_sv s) - sv_pu (s_sv s')) < weight t); [|lia].
    unfold step in Hstep. destruct (th_pc t) eqn:Epc; try discriminate.
    - destruct Hpc as [_ Hne]. destruct (s_owner s); cbn in Hstep; [discriminate|]. rewrite Hpois in Hstep.
      destruct (znth_opt (sv_lines (s_sv s)) (cur_idx t)); inversion Hstep; subst; clear Hstep.
      + pose proof (weight_finish t (Some b) (length (s_hist s')) Hne ltac:(rewrite Epc; cbn; lia)). lia.
      + unfold weight. cbn [th_calls th_pc s_sv rank]. rewrite Epc. cbn [rank]. lia.
    - destruct Hpc as (Hmine & Hne & _).
      assert (Eown : s_owner s = Some i) by (unfold owns_of in Hmine; destruct (s_owner s) as [o|]; [|discriminate]; apply Nat.eqb_eq in Hmine; subst; reflexivity).
      rewrite Eown in Hstep. cbn in Hstep. rewrite Nat.eqb_refl in Hstep. cbn in Hstep.
      destruct (zlen src <? sv_pu (s_sv s)); inversion Hstep; subst; clear Hstep; cbn [s_sv].
      + pose proof (weight_finish t None (length (s_hist s)) Hne ltac:(rewrite Epc; cbn; lia)). lia.
      + unfold weight. cbn [th_calls th_pc rank]. rewrite Epc. cbn [rank]. lia.
    - destruct Hpc as (Hmine & _).
      assert (Eown : s_owner s = Some i) by (unfold owns_of in Hmine; destruct (s_owner s) as [o|]; [|discriminate]; apply Nat.eqb_eq in Hmine; subst; reflexivity).
      rewrite Eown in Hstep. cbn in Hstep. rewrite Nat.eqb_refl in Hstep. cbn in Hstep. inversion Hstep; subst; clear Hstep.
      unfold weight. cbn [th_calls th_pc rank]. rewrite Epc. cbn [rank]. lia.
    - destruct Hpc as (Hmine & Hne & _ & Hpu & Hsplit).
      assert (Eown : s_owner s = Some i) by (unfold owns_of in Hmine; destruct (s_owner s) as [o|]; [|discriminate]; apply Nat.eqb_eq in Hmine; subst; reflexivity).
      rewrite Eown in Hstep. cbn in Hstep. rewrite Nat.eqb_refl in Hstep. cbn in Hstep.
      destruct (index_step_inv src (s_sv s) Hpu Hsplit) as (st' & done & Hst & _ & Hgrow & _). rewrite Hst in Hstep.
      destruct (znth_opt (sv_lines st') (cur_idx t)); [|destruct done]; inversion Hstep; subst; clear Hstep; cbn [s_sv].
      + pose proof (weight_finish t (Some b) (length (push_hist s st')) Hne ltac:(rewrite Epc; cbn; lia)). lia.
      + pose proof (weight_finish t None (length (push_hist s st')) Hne ltac:(rewrite Epc; cbn; lia)). lia.
      + unfold weight. cbn [th_calls th_pc rank]. rewrite Epc. cbn [rank]. lia.
    - destruct Hpc as (_ & (rest & Hc) & _). destruct (s_owner s); cbn in Hstep; [discriminate|]. rewrite Hpois, Hc in Hstep.
      inversion Hstep; subst; clear Hstep. unfold weight. rewrite Hc, Epc. cbn [th_calls th_pc s_sv rank]. unfold zlen. cbn [length].
      destruct rest; cbn [rank length]; lia.
  Qed.

  (* executions counted by their length *)
  Inductive reach_n (calls0 : list (list call)) : nat -> list thread -> shared -> Prop :=
  | reach_n_init : reach_n calls0 O (map init_thread calls0) init_shared
  | reach_n_step n ts s i ch t t' s' :
      reach_n calls0 n ts s -> nth_error ts i = Some t -> step true src i ch t s = Some (t', s') ->
      reach_n calls0 (S n) (set_thread ts i t') s'.
  Lemma reach_n_reach calls0 n ts s : reach_n calls0 n ts s -> reach calls0 ts s.
  Proof. induction 1; [constructor|econstructor; eassumption]. Qed.

  Theorem C16_terminates calls0 n ts s : Forall (Forall call_ok) calls0 -> reach_n calls0 n ts s ->
    Z.of_nat n <= measure (map init_thread calls0) init_shared.
  Proof.
    intros Hok Hr.
    assert (G : Z.of_nat n + measure ts s <= measure (map init_thread calls0) init_shared /\ 0 <= measure ts s).
    { induction Hr as [|n ts s i ch t t' s' Hr IH Hi Hstep].
      - split; [lia|]. unfold measure. pose proof (total_weight_nonneg (map init_thread calls0)). cbn. unfold zlen. lia.
      - destruct IH as [IH1 IH2]. destruct (C16_safe calls0 ts s Hok (reach_n_reach _ _ _ _ Hr)) as (Hinv & _).
        pose proof (step_decreases ts s i ch t t' s' Hinv Hi Hstep). lia. }
    lia.
  Qed.

End C16.
Print Assumptions C16_safe.
