(* C06, clause by clause: what the independent reading — hence, by C06_whole, the crate's reader — rejects. *)
From SM Require Import Model.Base Model.Vlq Model.Mappings Spec.Vlq Spec.Mappings Proofs.BaseLemmas Proofs.VlqProofs Proofs.StringLemmas Proofs.DecodeSpec Proofs.DecodeTotal.

(* every byte of a string sits in one of its pieces or is the separator *)
Lemma in_split_on sep s b : In b s -> b = sep \/ exists p, In p (split_on sep s) /\ In b p.
Proof.
  intros Hin. destruct (Z.eq_dec b sep) as [->|Hne]; [left; reflexivity|right].
  revert Hin. induction s as [|c s IH]; intros Hin; [contradiction|].
  cbn [split_on]. destruct (split_on sep s) as [|p ps] eqn:E; [exfalso; eapply split_on_nonnil; exact E|].
  destruct (Z.eqb_spec c sep) as [Ec|Ec].
  - destruct Hin as [->|Hin]; [contradiction|]. destruct (IH Hin) as (q & Hq & Hb). exists q. split; [right; exact Hq|exact Hb].
  - destruct Hin as [->|Hin].
    + exists (b :: p). split; [left; reflexivity|left; reflexivity].
    + destruct (IH Hin) as (q & Hq & Hb). destruct Hq as [->|Hq].
      * exists (c :: q). split; [left; reflexivity|right; exact Hb].
      * exists q. split; [right; exact Hq|exact Hb].
Qed.

(* a text the reference VLQ decoder accepts consists of alphabet bytes only *)
Lemma spec_go_alphabet : forall s cur acc out, spec_go s cur acc = Ok out -> Forall (fun b => digit_of b <> None) s.
Proof.
  induction s as [|c s IH]; intros cur acc out H; [constructor|]. cbn [spec_go] in H.
  destruct (digit_of c) as [d|] eqn:Ed; [|discriminate]. constructor; [rewrite Ed; discriminate|].
  destruct (13 <=? zlen cur); [discriminate|]. destruct (two63 <=? _); [discriminate|]. destruct (d <? 32); eapply IH; exact H.
Qed.
Lemma spec_segment_alphabet nsrc nn dl fl seg col st r : spec_segment nsrc nn dl fl seg col st = Ok r -> Forall (fun b => digit_of b <> None) seg.
Proof.
  unfold spec_segment, spec_parse. destruct (spec_go seg [] []) as [nums|e|p] eqn:E; try discriminate. intros _. eapply spec_go_alphabet; exact E.
Qed.
Lemma spec_segments_alphabet nsrc nn dl fl : forall segs idx col st st', spec_segments nsrc nn dl fl segs idx col st = Ok st' ->
  Forall (Forall (fun b => digit_of b <> None)) segs.
Proof.
  induction segs as [|seg segs IH]; intros idx col st st' H; [constructor|]. cbn [spec_segments] in H.
  destruct seg as [|b seg]; cbn [is_nil] in H; [constructor; [constructor|eapply IH; exact H]|].
  destruct (spec_segment nsrc nn dl (fl idx) (b :: seg) col st) as [x|e|p] eqn:E; try discriminate.
  constructor; [eapply spec_segment_alphabet; exact E|eapply IH; exact H].
Qed.
Lemma spec_lines_alphabet nsrc nn : forall lines dl st st', spec_lines nsrc nn lines dl st = Ok st' ->
  Forall (fun l => Forall (Forall (fun b => digit_of b <> None)) (split_on 44 l)) lines.
Proof.
  induction lines as [|l lines IH]; intros dl st st' H; [constructor|]. cbn [spec_lines] in H.
  destruct l as [|b l]; cbn [is_nil] in H.
  - constructor; [cbn; repeat constructor|eapply IH; exact H].
  - destruct (spec_segments nsrc nn dl (fun _ => false) (split_on 44 (b :: l)) 0 0 st) as [x|e|p] eqn:E; try discriminate.
    constructor; [eapply spec_segments_alphabet; exact E|eapply IH; exact H].
Qed.

(* C06: a byte that is neither a separator nor in the base64 alphabet makes the whole string unreadable *)
Theorem C06_foreign_byte nsrc nn mappings b : nsrc <= NONE -> nn <= NONE ->
  In b mappings -> b <> 59 -> b <> 44 -> digit_of b = None ->
  exists e, decode_mappings nsrc nn mappings [] = Err e.
Proof.
  intros Hs Hn Hin H59 H44 Hd. rewrite (C06_whole nsrc nn mappings Hs Hn).
  pose proof (C05_decode_mappings_total nsrc nn mappings [] Hs Hn) as Hnp. rewrite (C06_whole nsrc nn mappings Hs Hn) in Hnp.
  unfold spec_decode_mappings in *.
  destruct (spec_lines nsrc nn (split_on 59 mappings) 0 _) as [st|e|p] eqn:E; [|eauto|contradiction].
  exfalso. pose proof (spec_lines_alphabet _ _ _ _ _ _ E) as Hall.
  destruct (in_split_on 59 mappings b Hin) as [|(l & Hl & Hbl)]; [contradiction|].
  rewrite Forall_forall in Hall. specialize (Hall l Hl).
  destruct (in_split_on 44 l b Hbl) as [|(seg & Hseg & Hbs)]; [contradiction|].
  rewrite Forall_forall in Hall. specialize (Hall seg Hseg). rewrite Forall_forall in Hall. exact (Hall b Hbs Hd).
Qed.
Print Assumptions C06_foreign_byte.

(* segment arity and index range, on the independent reading *)
Theorem C06_arity nsrc nn dl fl seg col st nums : spec_parse seg = Ok nums ->
  (length nums = 2 \/ length nums = 3 \/ 6 <= length nums)%nat ->
  spec_segment nsrc nn dl fl seg col st = Err EBadSegmentSize.
Proof.
  intros Hp Hl. unfold spec_segment. rewrite Hp.
  destruct nums as [|a [|b [|c [|d [|e [|f r]]]]]]; cbn [length] in Hl; try lia; reflexivity.
Qed.
Theorem C06_source_range nsrc nn dl fl seg col st c s l k rest : spec_parse seg = Ok (c :: s :: l :: k :: rest) -> (length rest <= 1)%nat ->
  (d_src st + s < 0 \/ nsrc <= d_src st + s) -> spec_segment nsrc nn dl fl seg col st = Err EBadSourceRef.
Proof.
  intros Hp Hr Hb. unfold spec_segment. rewrite Hp.
  assert (Ht : ((d_src st + s <? 0) || (nsrc <=? d_src st + s)) = true) by (apply orb_true_iff; destruct Hb; [left; lia|right; lia]).
  destruct rest as [|n [|x r]]; cbn [length] in Hr; try lia; rewrite Ht; reflexivity.
Qed.
Theorem C06_name_range nsrc nn dl fl seg col st c s l k n : spec_parse seg = Ok [c; s; l; k; n] ->
  0 <= d_src st + s < nsrc -> (d_name st + n < 0 \/ nn <= d_name st + n) -> spec_segment nsrc nn dl fl seg col st = Err EBadNameRef.
Proof.
  intros Hp Hs Hb. unfold spec_segment. rewrite Hp.
  assert (Hf : ((d_src st + s <? 0) || (nsrc <=? d_src st + s)) = false) by (apply orb_false_iff; split; lia).
  assert (Ht : ((d_name st + n <? 0) || (nn <=? d_name st + n)) = true) by (apply orb_true_iff; destruct Hb; [left; lia|right; lia]).
  rewrite Hf, Ht. reflexivity.
Qed.
Print Assumptions C06_name_range.

(* VLQ level: an unterminated value, and a value of more than 13 digits *)
Definition is_cont (c : Z) : Prop := exists d, digit_of c = Some d /\ 32 <= d.
Lemma spec_go_unterminated : forall s c cur acc out, is_cont c -> spec_go (s ++ [c]) cur acc <> Ok out.
Proof.
  induction s as [|x s IH]; intros c cur acc out (d & Hd & Hge) H.
  - cbn [app spec_go] in H. rewrite Hd in H. destruct (13 <=? zlen cur); [discriminate|]. destruct (two63 <=? _); [discriminate|].
    destruct (Z.ltb_spec d 32); [lia|]. cbn [spec_go] in H. destruct (cur ++ [d mod 32]) eqn:E; [destruct cur; discriminate|]. cbn in H. discriminate.
  - cbn [app spec_go] in H. destruct (digit_of x) as [dx|]; [|discriminate]. destruct (13 <=? zlen cur); [discriminate|].
    destruct (two63 <=? _); [discriminate|]. destruct (dx <? 32); eapply IH; try exact H; exists d; auto.
Qed.
Theorem C06_unterminated s c : is_cont c -> exists e, spec_parse (s ++ [c]) = Err e.
Proof.
  intros Hc. unfold spec_parse. pose proof (spec_go_no_panic (s ++ [c]) [] []) as Hnp.
  destruct (spec_go (s ++ [c]) [] []) as [out|e|p] eqn:E; [exfalso; eapply spec_go_unterminated; eauto|eauto|contradiction].
Qed.
Lemma spec_go_too_long : forall cs rest cur acc out, Forall is_cont cs -> (13 <= length cs + length cur)%nat ->
  spec_go (cs ++ rest) cur acc <> Ok out.
Proof.
  induction cs as [|c cs IH]; intros rest cur acc out Hall Hlen H.
  - cbn [length] in Hlen. destruct rest as [|x rest]; cbn [app spec_go] in H.
    + destruct cur; [cbn in Hlen; lia|]. cbn in H. discriminate.
    + destruct (digit_of x); [|discriminate]. destruct (Z.leb_spec 13 (zlen cur)); [discriminate|]. unfold zlen in *. lia.
  - inversion Hall as [|? ? (d & Hd & Hge) Hall']; subst. cbn [app spec_go] in H. rewrite Hd in H.
    destruct (Z.leb_spec 13 (zlen cur)); [discriminate|]. destruct (two63 <=? _); [discriminate|].
    destruct (Z.ltb_spec d 32); [lia|]. eapply (IH rest (cur ++ [d mod 32])); [exact Hall'| |exact H].
    rewrite app_length. cbn [length] in *. lia.
Qed.
(* thirteen continuation digits, whatever follows: the value would need a 14th digit *)
Theorem C06_14_digits cs rest : Forall is_cont cs -> (13 <= length cs)%nat -> exists e, spec_parse (cs ++ rest) = Err e.
Proof.
  intros Hall Hlen. unfold spec_parse. pose proof (spec_go_no_panic (cs ++ rest) [] []) as Hnp.
  destruct (spec_go (cs ++ rest) [] []) as [out|e|p] eqn:E; [exfalso; eapply (spec_go_too_long cs rest [] []); eauto; cbn; lia|eauto|contradiction].
Qed.
Print Assumptions C06_14_digits.
