(* C02: decoding a document produced from an abstract mapping model by an independent renderer
   gives back the model's tokens, for any number of lines and segments, empty lines and segments,
   positive and negative deltas, and 1/4/5-field segments. *)
From SM Require Import Model.Base Model.Gen_B64 Model.Vlq Model.Mappings
     Proofs.StringLemmas Proofs.VlqProofs Proofs.CodecEvents Proofs.CodecCore Proofs.CodecTheorems.

(* abstract document: lines of items; an item is an empty segment or a token with absolute fields *)
Inductive item := IEmpty | ITok (t : rtoken).
Definition adoc := list (list item).

(* the independent renderer: deltas against the previous occurrence of each field, column reset per line *)
Fixpoint render_items (nn : Z) (items : list item) (col0 : Z) (st : estate) : list bytes * estate :=
  match items with
  | [] => ([], st)
  | IEmpty :: r => let '(segs, st') := render_items nn r col0 st in ([] :: segs, st')
  | ITok t :: r =>
    let '(segs, st') := render_items nn r (t_dc t) (next_estate nn t st) in
    (seg_bytes nn t col0 st :: segs, st')
  end.
Definition line_segs (segs : list bytes) : list bytes := match segs with [] => [[]] | _ => segs end.
Fixpoint render_lines (nn : Z) (d : adoc) (st : estate) : list (list bytes) :=
  match d with
  | [] => []
  | items :: r => let '(segs, st') := render_items nn items 0 st in line_segs segs :: render_lines nn r st'
  end.
Definition render_doc (nn : Z) (d : adoc) : bytes := join 59 (map (join 44) (render_lines nn d st0)).

(* the tokens of the document, in document order, as the reader reconstructs them *)
Fixpoint items_tokens (nn : Z) (items : list item) (d : dstate) : list rtoken * dstate :=
  match items with
  | [] => ([], d)
  | IEmpty :: r => items_tokens nn r d
  | ITok t :: r => let '(ts, d') := items_tokens nn r (next_dstate nn t d false) in (decoded_tok nn t d false :: ts, d')
  end.
Fixpoint doc_tokens (nn : Z) (doc : adoc) (d : dstate) : list rtoken :=
  match doc with
  | [] => []
  | items :: r => let '(ts, d') := items_tokens nn items d in ts ++ doc_tokens nn r d'
  end.

Section C02.
  Variables nsrc nn : Z.
  Hypothesis Hns : nsrc <= NONE.
  Hypothesis Hnn : nn <= NONE.

  Definition item_ok (L : Z) (it : item) : Prop :=
    match it with IEmpty => True | ITok t => wf_tok nsrc nn t /\ t_dl t = L /\ t_range t = false end.
  Fixpoint doc_ok (L : Z) (doc : adoc) : Prop :=
    match doc with [] => True | items :: r => Forall (item_ok L) items /\ doc_ok (L + 1) r end.

  (* with an absent rangeMappings key every line is simply its list of segments *)
  Fixpoint dec_lines (lines : list bytes) (L : Z) (d : dstate) : outcome dstate :=
    match lines with
    | [] => Ok d
    | line :: r => do d' <- decode_segments nsrc nn L [] (split_on 44 line) 0 0 d; dec_lines r (L + 1) d'
    end.
  Lemma decode_lines_no_rmi lines : forall rmis L d, Forall (fun r => r = []) rmis ->
    decode_lines nsrc nn lines rmis L d = dec_lines lines L d.
  Proof.
    induction lines as [|line lines IH]; intros rmis L d Hr; cbn [decode_lines dec_lines]; [reflexivity|].
    destruct rmis as [|r rmis'].
    - destruct line as [|c line'].
      + cbn [is_nil split_on decode_segments bind]. apply IH. constructor.
      + cbn [is_nil decode_rmi bind]. destruct (decode_segments nsrc nn L [] (split_on 44 (c :: line')) 0 0 d); cbn [bind]; auto.
    - inversion Hr as [|? ? Hr0 Hr']; subst. destruct line as [|c line'].
      + cbn [is_nil split_on decode_segments bind]. apply IH. exact Hr'.
      + cbn [is_nil decode_rmi bind]. destruct (decode_segments nsrc nn L [] (split_on 44 (c :: line')) 0 0 d); cbn [bind]; auto.
  Qed.

  Lemma render_items_spec items : forall L col0 st d idx,
    Forall (item_ok L) items -> est_ok st -> matches st d -> is_u32 col0 = true ->
    let '(segs, st') := render_items nn items col0 st in
    let '(ts, d') := items_tokens nn items d in
    decode_segments nsrc nn L [] segs idx col0 d = Ok (mkD (d_src d') (d_sl d') (d_sc d') (d_name d') (rev ts ++ d_toks d))
    /\ d_toks d' = rev ts ++ d_toks d
    /\ est_ok st' /\ matches st' d' /\ Forall (nosep 44) segs /\ Forall (nosep 59) segs.
  Proof.
    induction items as [|it items IH]; intros L col0 st d idx Hok Hest Hmat Hcol.
    - destruct d as [a b c e f]. cbn. split; [reflexivity|]. split; [reflexivity|]. split; [exact Hest|]. split; [exact Hmat|]. split; constructor.
    - inversion Hok as [|? ? Hit Hok']; subst. destruct it as [|t].
      + cbn [render_items items_tokens]. specialize (IH L col0 st d (S idx) Hok' Hest Hmat Hcol).
        destruct (render_items nn items col0 st) as [segs st']. destruct (items_tokens nn items d) as [ts d'].
        destruct IH as (H1 & H2 & H3 & H4 & H5 & H6). cbn [decode_segments is_nil].
        split; [exact H1|]. split; [exact H2|]. split; [exact H3|]. split; [exact H4|]. split; constructor; auto; constructor.
      + destruct Hit as (Hwf & Hdl & Hrg). cbn [render_items items_tokens].
        assert (Hcol' : is_u32 (t_dc t) = true) by (destruct Hwf; assumption).
        specialize (IH L (t_dc t) (next_estate nn t st) (next_dstate nn t d false) (S idx) Hok'
                       (next_estate_ok nsrc nn Hns Hnn t st Hwf Hest) (next_matches nn t st d false Hmat) Hcol').
        destruct (render_items nn items (t_dc t) (next_estate nn t st)) as [segs st'].
        destruct (items_tokens nn items (next_dstate nn t d false)) as [ts d'].
        destruct IH as (H1 & H2 & H3 & H4 & H5 & H6).
        destruct (decode_segment_token nsrc nn t col0 st d [] idx Hwf Hns Hnn Hest Hmat Hcol) as [Hdec (Hne & Hc44 & Hc59)].
        cbn [decode_segments]. destruct (seg_bytes nn t col0 st) as [|c0 sb] eqn:Esb; [contradiction|]. cbn [is_nil].
        rewrite <- Hdl, Hdec. cbn [bind fst snd].
        replace (nth idx [] false) with false by (destruct idx; reflexivity).
        rewrite Hdl, H1.
        assert (Htoks : d_toks (next_dstate nn t d false) = decoded_tok nn t d false :: d_toks d)
          by (unfold next_dstate; destruct (has_source t); reflexivity).
        rewrite Htoks. cbn [rev]. rewrite <- !app_assoc. cbn [app].
        split; [reflexivity|]. split; [rewrite H2, Htoks; reflexivity|].
        split; [exact H3|]. split; [exact H4|]. split; constructor; assumption.
  Qed.

  Lemma render_lines_spec doc : forall L st d,
    doc_ok L doc -> est_ok st -> matches st d ->
    exists d', dec_lines (map (join 44) (render_lines nn doc st)) L d = Ok d'
               /\ d_toks d' = rev (doc_tokens nn doc d) ++ d_toks d
               /\ Forall (nosep 59) (map (join 44) (render_lines nn doc st)).
  Proof.
    induction doc as [|items doc IH]; intros L st d Hok Hest Hmat.
    - exists d. cbn. repeat split; auto; constructor.
    - destruct Hok as [Hitems Hok]. cbn [render_lines doc_tokens].
      pose proof (render_items_spec items L 0 st d O Hitems Hest Hmat eq_refl) as Hr.
      destruct (render_items nn items 0 st) as [segs st']. destruct (items_tokens nn items d) as [ts d1].
      destruct Hr as (H1 & H2 & H3 & H4 & H5 & H6).
      set (d1' := mkD (d_src d1) (d_sl d1) (d_sc d1) (d_name d1) (rev ts ++ d_toks d)) in *.
      assert (Hd1 : d1' = d1) by (unfold d1'; destruct d1 as [a b c e f]; cbn in *; rewrite H2; reflexivity).
      destruct (IH (L + 1) st' d1 Hok H3 H4) as (d' & Hd' & Htoks & Hsep).
      exists d'. cbn [map dec_lines].
      assert (Hls : Forall (nosep 44) (line_segs segs) /\ Forall (nosep 59) (line_segs segs) /\ line_segs segs <> []).
      { unfold line_segs. destruct segs; [repeat split; try (repeat constructor); discriminate|repeat split; auto; discriminate]. }
      destruct Hls as (L44 & L59 & Lne).
      rewrite split_join by assumption.
      assert (Hsegs : decode_segments nsrc nn L [] (line_segs segs) 0 0 d = decode_segments nsrc nn L [] segs 0 0 d)
        by (unfold line_segs; destruct segs; reflexivity).
      rewrite Hsegs, H1. cbn [bind]. rewrite Hd1, Hd'. split; [reflexivity|]. split.
      + rewrite Htoks, H2, rev_app_distr, <- app_assoc. reflexivity.
      + constructor; [apply nosep_join; [discriminate|exact L59]|exact Hsep].
  Qed.

  Theorem C02_mappings doc : doc <> [] -> doc_ok 0 doc ->
    decode_mappings nsrc nn (render_doc nn doc) [] = Ok (doc_tokens nn doc d0).
  Proof.
    intros Hne Hok. unfold decode_mappings, render_doc. change (mkD 0 0 0 0 []) with d0.
    destruct (render_lines_spec doc 0 st0 d0 Hok) as (d' & Hd' & Htoks & Hsep).
    - unfold est_ok, st0. cbn. auto.
    - unfold matches, st0, d0. cbn. auto.
    - rewrite split_join; [|destruct doc; [contradiction|cbn [render_lines]; destruct (render_items nn l 0 st0); discriminate]|exact Hsep].
      rewrite decode_lines_no_rmi by (repeat constructor). rewrite Hd'. cbn [bind]. rewrite Htoks. cbn [d0 d_toks]. rewrite app_nil_r, rev_involutive. reflexivity.
  Qed.
End C02.
Print Assumptions C02_mappings.
