(* C08 for nested indexes: by induction on the nesting depth, every inner index is replaced by its
   own flattened map — which is what flatten does — and the one-level theorem applies. *)
From SM Require Import Model.Base Model.Mappings Model.Glb Model.SourceMap Model.Rewrite
  Proofs.BaseLemmas Proofs.GlbProofs Proofs.IndexProofs Proofs.FlattenProofs Proofs.AgreeProofs.

Definition sect := (pos * option bytes * option dmap)%type.
Definition flat_of (f : nat) (d : dmap) : outcome smap :=
  match d with DRegular m => Ok m | DHermes h => Ok (h_sm h) | DIndex file secs => flatten f file secs end.
Definition empty_map : smap := sm_new None [] [] [] None.
Definition reg (f : nat) (s : sect) : pos * smap :=
  (fst (fst s), match snd s with Some d => match flat_of f d with Ok m => m | _ => empty_map end | None => empty_map end).
Definition resolved (f : nat) (s : sect) : Prop := exists d m, snd s = Some d /\ flat_of f d = Ok m.

(* the original location a token view points at (everything but the generated position) *)
Definition orig (v : view) := let '(_, _, sl, sc, src, name, rg) := v in (sl, sc, src, name, rg).
Lemma orig_sview m off t : orig (sview m off t) = orig (mview m t).
Proof. reflexivity. Qed.

Fixpoint go_gen (f : nat) (secs : list sect) (b : builder) : outcome builder :=
  match secs with
  | [] => Ok b
  | (off, _, None) :: _ => Err ECannotFlatten
  | (off, _, Some d) :: r => do m <- flat_of f d; do b' <- flatten_tokens m off (sm_tokens m) b; go_gen f r b'
  end.
Lemma flatten_unfold f file secs :
  flatten (S f) file secs = do b <- go_gen f secs (builder_new file); Ok (into_sourcemap b).
Proof.
  cbn [flatten]. generalize (builder_new file). induction secs as [|[[off url] [d|]] r IH]; intros b; cbn [go_gen]; try reflexivity.
  assert (E : match d with DRegular m => Ok m | DIndex file' secs'' => flatten f file' secs'' | DHermes h => Ok (h_sm h) end = flat_of f d)
    by (destruct d; reflexivity).
  rewrite E. destruct (flat_of f d) as [m|e|p]; cbn [bind]; [|reflexivity|reflexivity].
  destruct (flatten_tokens m off (sm_tokens m) b) as [b'|e|p]; cbn [bind]; [apply IH|reflexivity|reflexivity].
Qed.
Lemma go_gen_reg f secs : Forall (resolved f) secs -> forall b, go_gen f secs b = go_reg (map (reg f) secs) b.
Proof.
  induction 1 as [|s r (d & m & Hd & Hm) Hr IH]; intros b; [reflexivity|].
  destruct s as [[off url] od]. cbn [snd] in Hd. subst od. cbn [go_gen map go_reg].
  assert (Hreg : reg f (off, url, Some d) = (off, m)) by (unfold reg; cbn [fst snd]; rewrite Hm; reflexivity).
  rewrite Hreg, Hm. cbn [fst snd bind]. destruct (flatten_tokens m off (sm_tokens m) b) as [b'|e|p]; cbn [bind]; [apply IH|reflexivity|reflexivity].
Qed.
Lemma flatten_as_regular f f' file secs : Forall (resolved f) secs ->
  flatten (S f) file secs = flatten (S f') file (map mk (map (reg f) secs)).
Proof. intros H. rewrite flatten_unfold, flatten_regular. rewrite (go_gen_reg f secs H). reflexivity. Qed.

Fixpoint wf_dmap (f : nat) (d : dmap) : Prop :=
  match d with
  | DIndex _ secs =>
    match f with
    | O => False
    | S f' => Forall (resolved f') secs
              /\ Forall (fun s : sect => match snd s with Some d' => wf_dmap f' d' | None => False end) secs
              /\ wf_index (map (reg f') secs) /\ total_tokens (map (reg f') secs) < NONE
    end
  | _ => True
  end.

Lemma nth_opt_Forall {A} (P : A -> Prop) l i x : Forall P l -> nth_opt l i = Some x -> P x.
Proof. intros H Hn. rewrite Forall_forall in H. apply H. eapply nth_opt_In; exact Hn. Qed.

Theorem C08_agree_nested : forall f d q m t o fm,
  wf_dmap f d -> flat_of f d = Ok fm ->
  dm_lookup f d (fst q) (snd q) = Ok (Some (m, t, o)) ->
  exists i' t', lookup_token (sm_tokens fm) (fst q) (snd q) = Ok (Some (i', t', o))
    /\ orig (mview fm t') = orig (mview m t).
Proof.
  induction f as [|f IH]; intros d q m t o fm Hwf Hflat Hlook; [discriminate|].
  destruct d as [m0|file secs|h].
  - (* a regular map is its own flattening *)
    cbn [flat_of] in Hflat. inversion Hflat; subst fm. cbn [dm_lookup] in Hlook.
    destruct (lookup_token (sm_tokens m0) (fst q) (snd q)) as [[[[i t0] o0]|]|e|p]; cbn [bind] in Hlook; try discriminate.
    inversion Hlook; subst. eauto.
  - cbn [wf_dmap] in Hwf. destruct Hwf as (Hres & Hin & Hwfi & Hsz).
    cbn [flat_of] in Hflat. rewrite (flatten_as_regular f 0 file secs Hres) in Hflat.
    (* the index side: which section, which relative position *)
    cbn [dm_lookup] in Hlook. replace (fst q, snd q) with q in Hlook by (destruct q; reflexivity).
    destruct (glb sec_key secs q) as [[k [[off url] [inner|]]]|] eqn:Esec; try discriminate.
    destruct (u32_sub 70 (fst q) (fst off)) as [l|e|p] eqn:El; cbn [bind] in Hlook; try discriminate.
    destruct (if fst q =? fst off then u32_sub 71 (snd q) (snd off) else Ok (snd q)) as [c|e|p] eqn:Ec; cbn [bind] in Hlook; try discriminate.
    (* the selected section is resolved and well formed: induction hypothesis on the inner map *)
    assert (Hsorted : sorted sec_key secs).
    { clear -Hwfi. unfold wf_index in Hwfi. rewrite map_map in Hwfi.
      assert (G : forall l, wf_secs tok_key shift (map (fun x => untag (reg f x)) l) -> sorted sec_key l).
      { induction l as [|s l IHl]; intros H; [constructor|]. cbn [map] in H. inversion H as [|? ? _ _ Hl Hr]; subst. constructor; [apply IHl; exact Hr|].
        apply Forall_forall. intros y Hy. apply (in_map (fun x => untag (reg f x))) in Hy. rewrite Forall_forall in Hl. destruct (Hl _ Hy) as [Hlt _].
        unfold kle. apply plt_ple. exact Hlt. }
      apply G. exact Hwfi. }
    destruct (glb_first sec_key secs q k _ Hsorted Esec) as (Hk & _).
    pose proof (nth_opt_Forall _ _ _ _ Hres Hk) as (d0 & mk0 & Hd0 & Hmk0). cbn [snd] in Hd0. inversion Hd0; subst d0.
    pose proof (nth_opt_Forall _ _ _ _ Hin Hk) as Hwfk. cbn [snd] in Hwfk.
    destruct (IH inner (l, c) m t o mk0 Hwfk Hmk0 Hlook) as (i2 & t2 & Hl2 & Ho2). cbn [fst snd] in Hl2.
    (* the same query through the regularised index *)
    assert (Hlook' : dm_lookup 2 (DIndex file (map mk (map (reg f) secs))) (fst q) (snd q) = Ok (Some (mk0, t2, o))).
    { cbn [dm_lookup]. replace (fst q, snd q) with q by (destruct q; reflexivity).
      rewrite map_map. rewrite (glb_map sec_key sec_key (fun x => mk (reg f x))) by reflexivity.
      rewrite Esec. cbn [option_map fst snd]. unfold reg at 1, mk at 1. cbn [fst snd]. rewrite Hmk0. cbn [fst snd].
      rewrite El. cbn [bind]. rewrite Ec. cbn [bind]. rewrite Hl2. cbn [bind]. reflexivity. }
    destruct (C08_agree 0 0 file file (map (reg f) secs) fm q mk0 t2 o Hwfi Hsz Hflat Hlook') as (i' & t' & Hfin & off' & Hview).
    exists i', t'. split; [exact Hfin|]. rewrite Hview, orig_sview. exact Ho2.
  - cbn [flat_of] in Hflat. inversion Hflat; subst fm. cbn [dm_lookup] in Hlook.
    destruct (lookup_token (sm_tokens (h_sm h)) (fst q) (snd q)) as [[[[i t0] o0]|]|e|p]; cbn [bind] in Hlook; try discriminate.
    inversion Hlook; subst. eauto.
Qed.
Print Assumptions C08_agree_nested.

(* an unresolved section makes flatten fail *)
Lemma go_gen_unresolved f secs : (exists off url, In (off, url, None) secs) -> forall b b', go_gen f secs b <> Ok b'.
Proof.
  intros (off & url & Hin). induction secs as [|[[off' url'] [d|]] r IH]; intros b b'; [contradiction| |cbn [go_gen]; discriminate].
  destruct Hin as [Hin|Hin]; [discriminate|]. cbn [go_gen].
  destruct (flat_of f d) as [m|e|p]; cbn [bind]; try discriminate.
  destruct (flatten_tokens m off' (sm_tokens m) b) as [b1|e|p]; cbn [bind]; try discriminate. apply IH. exact Hin.
Qed.
Theorem C08_unresolved f file secs : (exists off url, In (off, url, None) secs) -> forall fm, flatten (S f) file secs <> Ok fm.
Proof.
  intros H fm. rewrite flatten_unfold. destruct (go_gen f secs (builder_new file)) as [b|e|p] eqn:E; cbn [bind]; try discriminate.
  exfalso. exact (go_gen_unresolved f secs H _ _ E).
Qed.
(* nested sections are flattened recursively: the result is the flattening of the regularised index *)
Theorem C08_flatten_nested f file secs fm : Forall (resolved f) secs -> total_tokens (map (reg f) secs) < NONE ->
  flatten (S f) file secs = Ok fm ->
  map (mview fm) (sm_tokens fm) = isort view_key (concat (map sec_views (map (reg f) secs))).
Proof. intros Hres Hsz H. rewrite (flatten_as_regular f 0 file secs Hres) in H. exact (C08_flatten_views 0 file _ fm Hsz H). Qed.
Print Assumptions C08_flatten_nested.
