(* C08, first sentence, the two clauses that are not about tokens: in the flattened map the content of a source is the
   first content seen, in section and token order, for that source NAME, and a source is in the ignore list exactly when
   some token of some section resolves to that name through an ignored source of its section. *)
From SM Require Import Model.Base Model.Mappings Model.Glb Model.SourceMap Model.Rewrite
  Proofs.BaseLemmas Proofs.BuilderProofs Proofs.IndexProofs Proofs.FlattenProofs Proofs.RewriteProofs Proofs.ContentsProofs.

Definition gdone := list (smap * rtoken).
Fixpoint gfirst (done : gdone) (s : bytes) : option bytes :=
  match done with
  | [] => None
  | (m, t) :: r =>
    match tok_source m t with
    | Some s' => if bytes_eqb s' s
                 then match get_source_contents m (t_src t) with Some c => Some c | None => gfirst r s end
                 else gfirst r s
    | None => gfirst r s
    end
  end.
Definition tok_ignored (m : smap) (t : rtoken) : bool := existsb (Z.eqb (t_src t)) (sm_ignore m).
Definition gignored (done : gdone) (s : bytes) : Prop :=
  exists m t, In (m, t) done /\ tok_source m t = Some s /\ tok_ignored m t = true.

Lemma gfirst_snoc done m t s : gfirst (done ++ [(m, t)]) s =
  match gfirst done s with
  | Some c => Some c
  | None => match tok_source m t with Some s' => if bytes_eqb s' s then get_source_contents m (t_src t) else None | None => None end
  end.
Proof.
  induction done as [|[m0 x] done IH]; cbn [app gfirst].
  - destruct (tok_source m t) as [s'|]; [|reflexivity]. destruct (bytes_eqb s' s); [|reflexivity]. destruct (get_source_contents m (t_src t)); reflexivity.
  - destruct (tok_source m0 x) as [s'|]; [|exact IH]. destruct (bytes_eqb s' s); [|exact IH].
    destruct (get_source_contents m0 (t_src x)); [reflexivity|exact IH].
Qed.
Lemma gignored_snoc done m t s :
  gignored (done ++ [(m, t)]) s <-> gignored done s \/ (tok_source m t = Some s /\ tok_ignored m t = true).
Proof.
  unfold gignored. split.
  - intros (m0 & t0 & Hin & Hs & Hi). apply in_app_iff in Hin. destruct Hin as [Hin|[E|[]]].
    + left. exists m0, t0. auto.
    + inversion E; subst. right. auto.
  - intros [(m0 & t0 & Hin & Hs & Hi)|[Hs Hi]].
    + exists m0, t0. split; [apply in_or_app; left; exact Hin|auto].
    + exists m, t. split; [apply in_or_app; right; left; reflexivity|auto].
Qed.

Lemma In_set_insert x l j : In j (set_insert x l) <-> j = x \/ In j l.
Proof.
  induction l as [|y r IH]; cbn [set_insert].
  - cbn. intuition.
  - destruct (x <? y); [cbn; intuition|]. destruct (Z.eqb_spec x y) as [->|Hne].
    + cbn. intuition.
    + cbn [In]. rewrite IH. intuition.
Qed.

Definition cinv (b : builder) (done : gdone) : Prop :=
  (forall j s, znth_opt (b_sources b) j = Some s -> b_get_source_contents b j = gfirst done s)
  /\ (forall m t s, In (m, t) done -> tok_source m t = Some s -> In s (b_sources b))
  /\ (length (b_contents b) <= length (b_sources b))%nat
  /\ (forall j s, znth_opt (b_sources b) j = Some s -> (In j (b_ignore b) <-> gignored done s))
  /\ (forall j, In j (b_ignore b) -> exists s, znth_opt (b_sources b) j = Some s).

Lemma set_contents_ignore id c b b' : b_set_source_contents id c b = Ok b' -> b_ignore b' = b_ignore b.
Proof.
  unfold b_set_source_contents. destruct (id =? NONE); [discriminate|].
  match goal with |- context [zset_nth ?cs id c] => destruct (zset_nth cs id c) end; [|discriminate].
  intros H. inversion H. reflexivity.
Qed.

(* hypothesis on a section: its ignore list only names sources that exist (what decoding a well-formed document gives);
   otherwise a sourceless token whose id happens to be listed would put the tombstone id into the flattened list *)
Definition ign_ok (m : smap) (ts : list rtoken) : Prop :=
  forall t, In t ts -> tok_ignored m t = true -> tok_source m t <> None.

Lemma flatten_tokens_cinv m off : forall ts b b' done,
  builder_inv b -> interned b -> cinv b done -> zlen (b_sources b) + zlen ts < NONE -> ign_ok m ts ->
  flatten_tokens m off ts b = Ok b' ->
  builder_inv b' /\ interned b' /\ cinv b' (done ++ map (pair m) ts) /\ zlen (b_sources b') <= zlen (b_sources b) + zlen ts.
Proof.
  induction ts as [|t ts IH]; intros b b' done Hinv Hint Hc Hsz Hio H; cbn [flatten_tokens] in H.
  - inversion H; subst. cbn [map]. rewrite app_nil_r. split; [exact Hinv|]. split; [exact Hint|]. split; [exact Hc|]. unfold zlen. cbn [length]. lia.
  - rewrite zlen_cons in Hsz. pose proof (zlen_nonneg ts) as Hts.
    set (oc := if t_dl t =? 0 then t_dc t + snd off else t_dc t) in *. set (ol := t_dl t + fst off) in *.
    destruct (negb (is_u32 oc) || negb (is_u32 ol)); [discriminate|].
    pose proof (add_with_id_interned ol oc (t_sl t) (t_sc t) (tok_source m t) NONE (tok_name m t) (t_range t) b Hinv Hint) as Hi1.
    pose proof (add_spec ol oc (t_sl t) (t_sc t) (tok_source m t) (tok_name m t) (t_range t) b Hinv) as Hs1.
    change (add_with_id ol oc (t_sl t) (t_sc t) (tok_source m t) NONE (tok_name m t) (t_range t) b)
      with (add ol oc (t_sl t) (t_sc t) (tok_source m t) (tok_name m t) (t_range t) b) in Hi1.
    destruct (add ol oc (t_sl t) (t_sc t) (tok_source m t) (tok_name m t) (t_range t) b) as [raw b1].
    cbn [snd] in *. destruct Hs1 as (I1 & E1 & R1 & _ & LS1 & _ & _ & _ & _ & _ & _ & Vsrc & _).
    destruct R1 as (Hcont1 & Hign1 & _). destruct Hc as (Hc1 & Hc2 & Hc3 & Hc4 & Hc5). destruct E1 as [[xs Hxs] _]. pose proof Hi1 as (Nd1 & _).
    assert (Hget1 : forall j, b_get_source_contents b1 j = b_get_source_contents b j) by (intros j; unfold b_get_source_contents; rewrite Hcont1; reflexivity).
    assert (Hl1 : (length (b_contents b1) <= length (b_sources b1))%nat) by (rewrite Hcont1, Hxs, app_length; lia).
    (* a name that is new in b1 was not seen among the done tokens *)
    assert (Hnew : forall j s, znth_opt (b_sources b1) j = Some s -> znth_opt (b_sources b) j = None ->
                   gfirst done s = None /\ ~ gignored done s).
    { intros j s Hj Eb.
      assert (Hnotin : ~ In s (b_sources b)).
      { intros Hin. destruct (In_znth _ _ Hin) as [j' Hj'].
        assert (Hj1 : znth_opt (b_sources b1) j' = Some s) by (rewrite Hxs, znth_opt_app_l; [exact Hj'|apply (znth_opt_bound _ _ _ Hj')]).
        pose proof (NoDup_znth_inj _ _ _ _ Nd1 Hj Hj1). subst j'. congruence. }
      split.
      - clear -Hnotin Hc2. induction done as [|[m0 x] done IHd]; [reflexivity|]. cbn [gfirst].
        destruct (tok_source m0 x) as [s'|] eqn:Ex; [|apply IHd; intros; eapply Hc2; [right|]; eassumption].
        destruct (bytes_eqb s' s) eqn:Eb; [apply bytes_eqb_eq in Eb; subst s'; exfalso; apply Hnotin; eapply Hc2; [left; reflexivity|exact Ex]|].
        apply IHd. intros; eapply Hc2; [right|]; eassumption.
      - intros (m0 & t0 & Hin & Hs & _). apply Hnotin. eapply Hc2; eassumption. }
    assert (HA1 : forall j s, znth_opt (b_sources b1) j = Some s -> b_get_source_contents b1 j = gfirst done s).
    { intros j s Hj. rewrite Hget1. destruct (znth_opt (b_sources b) j) as [s'|] eqn:Eb.
      - assert (s' = s) by (rewrite Hxs, znth_opt_app_l in Hj by (apply (znth_opt_bound _ _ _ Eb)); congruence). subst s'. apply Hc1. exact Eb.
      - rewrite (get_out b j Hc3 Eb). symmetry. apply (Hnew j s Hj Eb). }
    assert (HB1 : forall m0 t0 s, In (m0, t0) (done ++ [(m, t)]) -> tok_source m0 t0 = Some s -> In s (b_sources b1)).
    { intros m0 t0 s Hin Hs. apply in_app_iff in Hin. destruct Hin as [Hin|[E|[]]].
      - rewrite Hxs. apply in_or_app. left. eapply Hc2; eassumption.
      - inversion E; subst. rewrite Hs in Vsrc. destruct Vsrc as [_ Vz]. eapply znth_In; exact Vz. }
    assert (HI1 : forall j s, znth_opt (b_sources b1) j = Some s -> (In j (b_ignore b1) <-> gignored done s)).
    { intros j s Hj. rewrite Hign1. destruct (znth_opt (b_sources b) j) as [s'|] eqn:Eb.
      - assert (s' = s) by (rewrite Hxs, znth_opt_app_l in Hj by (apply (znth_opt_bound _ _ _ Eb)); congruence). subst s'. apply Hc4. exact Eb.
      - split.
        + intros Hin. destruct (Hc5 j Hin) as [s0 Hs0]. congruence.
        + intros Hg. exfalso. apply (proj2 (Hnew j s Hj Eb)). exact Hg. }
    assert (HV1 : forall j, In j (b_ignore b1) -> exists s, znth_opt (b_sources b1) j = Some s).
    { intros j Hin. rewrite Hign1 in Hin. destruct (Hc5 j Hin) as [s Hs]. exists s. rewrite Hxs, znth_opt_app_l; [exact Hs|apply (znth_opt_bound _ _ _ Hs)]. }
    (* the contents step *)
    assert (Hstep : exists b2, (if (match tok_source m t with Some _ => true | None => false end) && negb (b_has_source_contents b1 (t_src raw))
                 then b_set_source_contents (t_src raw) (get_source_contents m (t_src t)) b1 else Ok b1) = Ok b2
              /\ builder_inv b2 /\ interned b2 /\ b_sources b2 = b_sources b1 /\ b_ignore b2 = b_ignore b1
              /\ (length (b_contents b2) <= length (b_sources b2))%nat
              /\ (forall j s, znth_opt (b_sources b2) j = Some s -> b_get_source_contents b2 j = gfirst (done ++ [(m, t)]) s)).
    { destruct (tok_source m t) as [s0|] eqn:Es0; cbn [andb].
      - destruct Vsrc as [Vb Vz]. assert (Hnn : t_src raw <> NONE) by (unfold NONE in *; lia).
        assert (Hother : forall j s, znth_opt (b_sources b1) j = Some s -> j <> t_src raw -> bytes_eqb s0 s = false).
        { intros j s Hj Hne. apply bytes_eqb_neq. intros ->. apply Hne. eapply NoDup_znth_inj; eassumption. }
        unfold b_has_source_contents. destruct (b_get_source_contents b1 (t_src raw)) as [c|] eqn:Eget; cbn [negb].
        + exists b1. split; [reflexivity|]. split; [exact I1|]. split; [exact Hi1|]. split; [reflexivity|]. split; [reflexivity|]. split; [exact Hl1|].
          intros j s Hj. rewrite gfirst_snoc, Es0, <- (HA1 j s Hj).
          destruct (Z.eq_dec j (t_src raw)) as [->|Hne]; [rewrite Eget; reflexivity|].
          rewrite (Hother j s Hj Hne). destruct (b_get_source_contents b1 j); reflexivity.
        + destruct (set_contents_ok (t_src raw) (get_source_contents m (t_src t)) b1 Vb Hnn) as (b2 & Eset & S2 & N2 & T2 & SM2 & NM2 & _).
          exists b2. split; [exact Eset|]. split; [apply (inv_same b1); assumption|].
          split; [destruct Hi1 as (A & B & C & D); unfold interned; rewrite S2, N2, T2; auto|]. split; [exact S2|].
          split; [exact (set_contents_ignore _ _ _ _ Eset)|].
          destruct (set_contents_length _ _ _ _ Eset Hl1) as [Hl2 _]. split; [exact Hl2|].
          intros j s Hj. rewrite S2 in Hj. rewrite (set_contents_get _ _ _ _ Eset j), gfirst_snoc, Es0, <- (HA1 j s Hj).
          destruct (Z.eqb_spec j (t_src raw)) as [->|Hne].
          * rewrite Eget. assert (s = s0) by congruence. subst s. rewrite bytes_eqb_refl. reflexivity.
          * rewrite (Hother j s Hj Hne). destruct (b_get_source_contents b1 j); reflexivity.
      - exists b1. split; [reflexivity|]. split; [exact I1|]. split; [exact Hi1|]. split; [reflexivity|]. split; [reflexivity|]. split; [exact Hl1|].
        intros j s Hj. rewrite gfirst_snoc, Es0, <- (HA1 j s Hj). destruct (b_get_source_contents b1 j); reflexivity. }
    destruct Hstep as (b2 & Eb2 & I2 & Hint2 & S2 & Ig2 & Hl2 & HA2). rewrite Eb2 in H. cbn [bind] in H.
    (* the ignore-list step *)
    set (b3 := if existsb (Z.eqb (t_src t)) (sm_ignore m) then b_add_to_ignore_list (t_src raw) b2 else b2) in *.
    assert (H3 : b_sources b3 = b_sources b2 /\ b_names b3 = b_names b2 /\ b_tokens b3 = b_tokens b2
                 /\ b_source_map b3 = b_source_map b2 /\ b_name_map b3 = b_name_map b2 /\ b_contents b3 = b_contents b2).
    { unfold b3. destruct (existsb _ _); cbn; auto 10. }
    destruct H3 as (S3 & N3 & T3 & SM3 & NM3 & C3).
    assert (I3 : builder_inv b3) by (apply (inv_same b2); congruence).
    assert (Hint3 : interned b3) by (destruct Hint2 as (A & B & C & D); unfold interned; rewrite S3, N3, T3; auto).
    assert (Hc3' : cinv b3 (done ++ [(m, t)])).
    { split; [|split; [|split; [|split]]].
      - intros j s Hj. unfold b_get_source_contents. rewrite C3. rewrite S3 in Hj. apply HA2. exact Hj.
      - intros m0 t0 s Hin Hs. rewrite S3, S2. eapply HB1; eassumption.
      - rewrite C3, S3. exact Hl2.
      - intros j s Hj. rewrite S3, S2 in Hj. rewrite gignored_snoc. fold (tok_ignored m t) in b3. unfold b3.
        destruct (tok_ignored m t) eqn:Eig.
        + cbn [b_add_to_ignore_list b_ignore]. rewrite In_set_insert, Ig2, (HI1 j s Hj).
          split.
          * intros [->|Hg]; [|left; exact Hg]. right. split; [|reflexivity].
            destruct (tok_source m t) as [s0|] eqn:Es0.
            -- destruct Vsrc as [_ Vz]. congruence.
            -- exfalso. apply (Hio t (or_introl eq_refl) Eig). exact Es0.
          * intros [Hg|[Hs _]]; [right; exact Hg|]. left.
            rewrite Hs in Vsrc. destruct Vsrc as [_ Vz]. eapply NoDup_znth_inj; eassumption.
        + rewrite Ig2, (HI1 j s Hj). split; [intros Hg; left; exact Hg|intros [Hg|[_ Hf]]; [exact Hg|discriminate]].
      - intros j Hin. rewrite S3, S2. fold (tok_ignored m t) in b3. unfold b3 in Hin. destruct (tok_ignored m t) eqn:Eig.
        + cbn [b_add_to_ignore_list b_ignore] in Hin. apply In_set_insert in Hin. rewrite Ig2 in Hin. destruct Hin as [->|Hin]; [|apply HV1; exact Hin].
          destruct (tok_source m t) as [s0|] eqn:Es0; [destruct Vsrc as [_ Vz]; exists s0; exact Vz|].
          exfalso. apply (Hio t (or_introl eq_refl) Eig). exact Es0.
        + rewrite Ig2 in Hin. apply HV1. exact Hin. }
    replace (done ++ map (pair m) (t :: ts)) with ((done ++ [(m, t)]) ++ map (pair m) ts) by (cbn [map]; rewrite <- app_assoc; reflexivity).
    destruct (IH b3 b' (done ++ [(m, t)]) I3 Hint3 Hc3' ltac:(rewrite S3, S2; lia) ltac:(intros x Hx; apply Hio; right; exact Hx) H) as (I' & Hint' & Hc' & Hsz').
    split; [exact I'|]. split; [exact Hint'|]. split; [exact Hc'|]. rewrite zlen_cons. rewrite S3, S2 in Hsz'. lia.
Qed.

(* ---------- all sections ---------- *)
Definition sec_pairs (s : pos * smap) : gdone := map (pair (snd s)) (sm_tokens (snd s)).
Definition all_pairs (secs : list (pos * smap)) : gdone := concat (map sec_pairs secs).

Lemma go_reg_cinv : forall secs b b' done,
  builder_inv b -> interned b -> cinv b done -> zlen (b_sources b) + total_tokens secs < NONE ->
  Forall (fun s => ign_ok (snd s) (sm_tokens (snd s))) secs ->
  go_reg secs b = Ok b' -> cinv b' (done ++ all_pairs secs).
Proof.
  induction secs as [|s secs IH]; intros b b' done Hinv Hint Hc Hsz Hio H; cbn [go_reg] in H.
  - inversion H; subst. unfold all_pairs. cbn [map concat]. rewrite app_nil_r. exact Hc.
  - inversion Hio as [|? ? Hs Hrest]; subst.
    destruct (flatten_tokens (snd s) (fst s) (sm_tokens (snd s)) b) as [b1|e|p] eqn:E; cbn [bind] in H; try discriminate.
    unfold total_tokens in Hsz. cbn [map concat] in Hsz. rewrite zlen_app in Hsz.
    pose proof (zlen_nonneg (concat (map (fun s0 : pos * smap => sm_tokens (snd s0)) secs))) as Hnn.
    destruct (flatten_tokens_cinv (snd s) (fst s) (sm_tokens (snd s)) b b1 done Hinv Hint Hc ltac:(lia) Hs E) as (I1 & Hint1 & Hc1 & Hsz1).
    unfold all_pairs. cbn [map concat]. rewrite app_assoc.
    apply (IH b1 b' (done ++ sec_pairs s) I1 Hint1 Hc1); [unfold total_tokens; lia|exact Hrest|exact H].
Qed.

Lemma In_fold_ignore l : forall m j,
  In j (sm_ignore (fold_left (fun m id => add_to_ignore_list id m) l m)) <-> In j l \/ In j (sm_ignore m).
Proof.
  induction l as [|x l IH]; intros m j; cbn [fold_left]; [cbn; intuition|].
  rewrite IH. cbn [add_to_ignore_list sm_ignore]. rewrite In_set_insert. cbn [In]. intuition.
Qed.
Lemma into_sourcemap_ignore b j : In j (sm_ignore (into_sourcemap b)) <-> In j (b_ignore b).
Proof.
  unfold into_sourcemap. rewrite In_fold_ignore. cbn [set_debug_id set_source_root sm_new sm_ignore]. cbn. intuition.
Qed.

(* the flattened map of an index whose sections hold regular maps *)
Theorem C08_contents_ignore f file secs fm :
  total_tokens secs < NONE ->
  Forall (fun s => ign_ok (snd s) (sm_tokens (snd s))) secs ->
  flatten (S f) file (map mk secs) = Ok fm ->
  forall j s, znth_opt (sm_sources fm) j = Some s ->
    get_source_contents fm j = gfirst (all_pairs secs) s
    /\ (In j (sm_ignore fm) <-> gignored (all_pairs secs) s).
Proof.
  intros Hsz Hio H j s Hj. rewrite flatten_regular in H.
  destruct (go_reg secs (builder_new file)) as [b|e|p] eqn:E; cbn [bind] in H; try discriminate. inversion H; subst fm.
  assert (I0 : builder_inv (builder_new file)) by (split; intros x; reflexivity).
  assert (Hint0 : interned (builder_new file)).
  { unfold interned. cbn. repeat split; try constructor; intros i Hi; change (zlen (@nil bytes)) with 0 in Hi; lia. }
  assert (Hc0 : cinv (builder_new file) []).
  { split; [intros j0 s0 Hj0; destruct j0; discriminate|]. split; [intros m t s0 []|]. split; [cbn; lia|].
    split; [intros j0 s0 Hj0; destruct j0; discriminate|intros j0 []]. }
  pose proof (go_reg_cinv secs (builder_new file) b [] I0 Hint0 Hc0 ltac:(change (zlen (b_sources (builder_new file))) with 0; lia) Hio E) as (HA & _ & _ & HI & _).
  cbn [app] in HA, HI. rewrite into_sourcemap_sources in Hj. split.
  - rewrite into_sourcemap_contents. apply HA. exact Hj.
  - rewrite into_sourcemap_ignore. apply HI. exact Hj.
Qed.
