(* C20 for ANY physical layout: a declarative description of a well-formed indexed RAM bundle (what sits where in the
   buffer; module bodies in any order, with gaps or shared bytes) instead of a layout function.  Whatever buffer meets
   the description is parsed back exactly. *)
From SM Require Import Model.Base Model.RamBundle Spec.RamBundle Proofs.RamProofs.

(* the buffer holds the little-endian u32 `v` / the bytes `d` at offset `a` *)
Definition at_u32 (bs : bytes) (a v : Z) : Prop := exists pre rest, bs = pre ++ le32 v ++ rest /\ zlen pre = a /\ 0 <= v < two32.
Definition at_bytes (bs : bytes) (a : Z) (d : bytes) : Prop := exists pre rest, bs = pre ++ d ++ rest /\ zlen pre = a.

Definition wf_indexed (bs : bytes) (startup : bytes) (mods : list (option bytes)) : Prop :=
  let count := zlen mods in
  let soff := 12 + count * 8 in
  at_u32 bs 0 RAM_BUNDLE_MAGIC /\ at_u32 bs 4 count /\ at_u32 bs 8 (zlen startup)
  /\ startup <> [] /\ at_bytes bs soff startup
  /\ forall pre x post, mods = pre ++ x :: post ->
       let e := 12 + zlen pre * 8 in
       match x with
       | None => at_u32 bs e 0 /\ at_u32 bs (e + 4) 0
       | Some d => exists off, at_u32 bs e off /\ at_u32 bs (e + 4) (zlen d + 1)
                               /\ at_bytes bs (soff + off) (d ++ [0])      (* the module with its trailing NUL *)
       end.

Lemma pread_u32_of bs a v : at_u32 bs a v -> pread_u32 bs a = Ok v.
Proof. intros (pre & rest & -> & <- & Hv). apply pread_u32_at. exact Hv. Qed.
Lemma pread_bytes_of bs a d tail : at_bytes bs a (d ++ tail) -> d ++ tail <> [] -> pread_bytes bs a (zlen d) = Ok d.
Proof.
  intros (pre & rest & -> & <-) Hne. rewrite <- app_assoc. apply pread_bytes_at.
  destruct d; [destruct tail; [contradiction|discriminate]|discriminate].
Qed.

Theorem C20_any_layout bs startup mods : wf_indexed bs startup mods ->
  exists p, parse bs = Ok p /\ b_count p = zlen mods /\ startup_code p = Ok startup
            /\ (forall pre x post, mods = pre ++ x :: post -> get_module p (zlen pre) = Ok x)
            /\ (forall id, zlen mods <= id -> get_module p id = Err ERamIndex).
Proof.
  intros (Hm & Hc & Hs & Hne & Hst & Hmods).
  exists (mkB bs (zlen mods) (zlen startup) (12 + zlen mods * 8)).
  assert (Hparse : parse bs = Ok (mkB bs (zlen mods) (zlen startup) (12 + zlen mods * 8))).
  { unfold parse. rewrite (pread_u32_of _ _ _ Hm), (pread_u32_of _ _ _ Hc), (pread_u32_of _ _ _ Hs). cbn [bind]. rewrite Z.eqb_refl. reflexivity. }
  split; [exact Hparse|]. split; [reflexivity|]. split.
  - unfold startup_code. cbn [b_bytes b_startup_off b_startup_size].
    rewrite <- (app_nil_r startup) in Hst. apply (pread_bytes_of bs _ startup [] Hst). rewrite app_nil_r. exact Hne.
  - split.
    + intros pre x post Hsplit. specialize (Hmods pre x post Hsplit). cbn zeta in Hmods.
      unfold get_module. cbn [b_bytes b_count b_startup_off].
      assert (Hlt : zlen pre < zlen mods).
      { rewrite Hsplit. unfold zlen. rewrite app_length. cbn [length]. lia. }
      destruct (Z.leb_spec (zlen mods) (zlen pre)); [lia|].
      destruct x as [d|].
      * destruct Hmods as (off & He & Hl & Hd).
        rewrite (pread_u32_of _ _ _ He), (pread_u32_of _ _ _ Hl). cbn [bind].
        assert (Hlen : (zlen d + 1 =? 0) = false) by (apply Z.eqb_neq; unfold zlen; lia).
        rewrite Hlen, andb_false_r. replace (zlen d + 1 - 1) with (zlen d) by lia.
        rewrite (pread_bytes_of bs _ d [0] Hd) by (destruct d; discriminate). reflexivity.
      * destruct Hmods as (He & Hl). rewrite (pread_u32_of _ _ _ He), (pread_u32_of _ _ _ Hl). cbn [bind]. reflexivity.
    + intros id Hid. unfold get_module. cbn [b_count]. destruct (Z.leb_spec (zlen mods) id); [reflexivity|lia].
Qed.

(* the layout function of Spec/RamBundle.v produces buffers that meet the description (so the description is satisfiable,
   and C20_module is an instance) -- shown here for one concrete bundle with an empty slot and a body of length 0 *)
Definition ex_bs := layout (mkAB [83; 83] [Some [97; 0; 98]; None; Some []]).
Ltac at32 a := exists (firstn a ex_bs), (skipn (a + 4) ex_bs); split; [vm_compute; reflexivity|split; [vm_compute; reflexivity|vm_compute; split; [discriminate|reflexivity]]].
Ltac atb a n := exists (firstn a ex_bs), (skipn (a + n) ex_bs); split; vm_compute; reflexivity.
Example wf_indexed_example : wf_indexed ex_bs [83; 83] [Some [97; 0; 98]; None; Some []].
Proof.
  unfold wf_indexed. cbn zeta.
  split; [at32 0%nat|]. split; [at32 4%nat|]. split; [at32 8%nat|]. split; [discriminate|]. split; [atb 36%nat 2%nat|].
  intros pre x post Hsplit.
  destruct pre as [|p0 [|p1 [|p2 pre]]]; cbn [app] in Hsplit; inversion Hsplit; subst; clear Hsplit.
  - exists 2. split; [at32 12%nat|]. split; [at32 16%nat|]. atb 38%nat 4%nat.
  - split; [at32 20%nat|at32 24%nat].
  - exists 6. split; [at32 28%nat|]. split; [at32 32%nat|]. atb 42%nat 1%nat.
  - destruct pre; discriminate.
Qed.
