(* C18: whatever the writer produces is recognised as a source map. *)
From SM Require Import Model.Base Model.Mappings Model.Glb Model.SourceMap Model.Rewrite Model.Raw Model.Detector.

Definition some {A} (o : option A) : bool := match o with Some _ => true | None => false end.
(* keys the writer emits (None fields are skipped by `skip_serializing_if`) as the detector's probe sees them *)
Definition minimal_of (r : raw) : minimal :=
  mkMin (some (r_version r)) (some (r_file r)) (some (r_sources r)) (some (r_source_root r))
        (some (r_sources_content r)) (some (r_sections r)) (some (r_names r)) (some (r_mappings r)).

Theorem C18_detected f d : is_sourcemap_common (minimal_of (dm_as_raw (S f) d)) = true.
Proof.
  destruct d as [m|file secs|h]; cbn [dm_as_raw].
  - unfold sm_as_raw, minimal_of, is_sourcemap_common. cbn. reflexivity.
  - unfold minimal_of, is_sourcemap_common. cbn. destruct file; reflexivity.
  - unfold sm_as_raw, with_fb_sources, minimal_of, is_sourcemap_common. cbn. reflexivity.
Qed.
Print Assumptions C18_detected.
