From SM Require Import Model.Base Model.Glb Proofs.BaseLemmas.
From Coq Require Import Sorted.

Section P.
  Context {A : Type} (key : A -> pos).
  Notation sorted := (sorted key).

  Lemma nth_opt_lt (l : list A) i x : nth_opt l i = Some x -> (i < length l)%nat.
  Proof. revert i; induction l as [|y l IH]; intros [|i] H; cbn in *; try discriminate; try lia. apply IH in H. lia. Qed.
  Lemma nth_opt_some (l : list A) i : (i < length l)%nat -> exists x, nth_opt l i = Some x.
  Proof. revert i; induction l as [|y l IH]; intros [|i] H; cbn in *; try lia; eauto. apply IH. lia. Qed.
  Lemma nth_opt_In (l : list A) i x : nth_opt l i = Some x -> In x l.
  Proof. revert i; induction l as [|y l IH]; intros [|i] H; cbn in *; try discriminate. - inversion H; auto. - right; eauto. Qed.
  Lemma In_nth_opt (l : list A) x : In x l -> exists i, nth_opt l i = Some x.
  Proof. induction l as [|y l IH]; intros H; [contradiction|]. destruct H as [->|H]. - exists O; reflexivity. - destruct (IH H) as [i Hi]. exists (S i); exact Hi. Qed.

  Lemma sorted_nth l i j x y :
    sorted l -> nth_opt l i = Some x -> nth_opt l j = Some y -> (i <= j)%nat -> ple (key x) (key y).
  Proof.
    intros Hs. revert i j. induction Hs as [|a l Hs IH Hall]; intros i j Hi Hj Hij.
    - destruct i; discriminate.
    - destruct i as [|i], j as [|j]; cbn in *; try lia.
      + inversion Hi; inversion Hj; subst. apply ple_refl.
      + inversion Hi; subst. rewrite Forall_forall in Hall. apply Hall. eapply nth_opt_In; eassumption.
      + eapply IH; try eassumption. lia.
  Qed.

  (* contract of slice::binary_search_by_key on a sorted slice *)
  Definition bs_ok (l : list A) (q : pos) (bs : bsearch_result) : Prop :=
    match bs with
    | Found i => exists x, nth_opt l i = Some x /\ key x = q
    | Insert i => (i <= length l)%nat
                  /\ (forall j y, (j < i)%nat -> nth_opt l j = Some y -> plt (key y) q)
                  /\ (forall j y, (i <= j)%nat -> nth_opt l j = Some y -> plt q (key y))
    end.

  (* the specification the property states *)
  Definition glb_spec (l : list A) (q : pos) (r : option (nat * A)) : Prop :=
    match r with
    | None => forall x, In x l -> plt q (key x)
    | Some (i, x) =>
      nth_opt l i = Some x /\ ple (key x) q
      /\ (forall y, In y l -> ple (key y) q -> ple (key y) (key x))
      /\ (key x = q -> forall j y, (j < i)%nat -> nth_opt l j = Some y -> plt (key y) q)
    end.

  Lemma ple_neq_plt a b : ple a b -> a <> b -> plt a b.
  Proof. unfold ple, plt. destruct a, b; cbn [fst snd]. intros H Hn. assert (~ (z = z1 /\ z0 = z2)) by (intros [? ?]; subst; auto). lia. Qed.

  Lemma walk_back_spec l q i x :
    sorted l -> nth_opt l i = Some x -> key x = q ->
    (walk_back key l q i <= i)%nat
    /\ (exists y, nth_opt l (walk_back key l q i) = Some y /\ key y = q)
    /\ (forall k z, (k < walk_back key l q i)%nat -> nth_opt l k = Some z -> plt (key z) q).
  Proof.
    intros Hs. revert x. induction i as [|i IH]; intros x Hi Hk; cbn [walk_back].
    - split; [lia|]. split; [eauto|]. intros k z Hk0; lia.
    - destruct (nth_opt_some l i) as [w Ew]; [apply nth_opt_lt in Hi; lia|].
      rewrite Ew.
      destruct (pos_eqb (key w) q) eqn:Eq.
      + apply pos_eqb_spec in Eq. destruct (IH w Ew Eq) as (H1 & H2 & H3).
        split; [lia|]. split; assumption.
      + split; [lia|]. split; [eauto|].
        intros k z Hlt Hz.
        assert (Hle : ple (key z) (key w)) by (eapply sorted_nth; try eassumption; lia).
        assert (Hwx : ple (key w) (key x)) by (eapply sorted_nth; try eassumption; lia).
        rewrite Hk in Hwx.
        assert (Hne : key w <> q).
        { intros Hc. apply pos_eqb_spec in Hc. congruence. }
        eapply ple_plt_trans; [exact Hle|]. apply ple_neq_plt; assumption.
  Qed.

  Theorem glb_with_spec l q bs : sorted l -> bs_ok l q bs -> glb_spec l q (glb_with key bs l q).
  Proof.
    intros Hs Hbs. destruct bs as [i|i]; cbn [glb_with bs_ok] in *.
    - destruct Hbs as (x & Hx & Hkx).
      destruct (walk_back_spec l q i x Hs Hx Hkx) as (Hle & (y & Hy & Hky) & Hbefore).
      rewrite Hy. cbn [glb_spec]. split; [exact Hy|]. split; [rewrite Hky; apply ple_refl|]. split.
      + intros z _ Hz. rewrite Hky. exact Hz.
      + intros _ j z Hj Hz. eapply Hbefore; eassumption.
    - destruct Hbs as (Hlen & Hlo & Hhi). destruct i as [|i].
      + cbn [glb_spec]. intros x Hin. destruct (In_nth_opt l x Hin) as [j Hj]. eapply Hhi; [|exact Hj]. lia.
      + destruct (nth_opt_some l i) as [x Hx]; [lia|]. rewrite Hx. cbn [glb_spec].
        assert (Hxq : plt (key x) q) by (eapply Hlo; [|exact Hx]; lia).
        split; [exact Hx|]. split; [apply plt_ple; exact Hxq|]. split.
        * intros y Hin Hyq. destruct (In_nth_opt l y Hin) as [j Hj].
          destruct (Nat.le_gt_cases j i) as [Hji|Hji].
          -- eapply sorted_nth; eassumption.
          -- exfalso. assert (plt q (key y)) by (eapply Hhi; [|exact Hj]; lia).
             eapply plt_irrefl. eapply plt_ple_trans; eassumption.
        * intros Heq. exfalso. rewrite Heq in Hxq. eapply plt_irrefl; exact Hxq.
  Qed.

  (* the concrete halving search meets the contract *)
  Lemma bsearch_go_ok l q : sorted l -> forall fuel lo hi,
    (hi - lo < fuel)%nat -> (lo <= hi)%nat -> (hi <= length l)%nat ->
    (forall j y, (j < lo)%nat -> nth_opt l j = Some y -> plt (key y) q) ->
    (forall j y, (hi <= j)%nat -> nth_opt l j = Some y -> plt q (key y)) ->
    bs_ok l q (bsearch_go key fuel l q lo hi).
  Proof.
    intros Hs. induction fuel as [|f IH]; intros lo hi Hf Hlh Hhl Hlo Hhi; [lia|].
    cbn [bsearch_go]. destruct (Nat.leb_spec hi lo) as [Hle|Hlt].
    - assert (lo = hi) by lia. subst. cbn [bs_ok]. repeat split; [lia| exact Hlo | exact Hhi].
    - set (mid := (lo + (hi - lo) / 2)%nat).
      assert (Hmid : (lo <= mid < hi)%nat).
      { unfold mid. split; [lia|]. assert ((hi - lo) / 2 < hi - lo)%nat by (apply Nat.div_lt; lia). lia. }
      destruct (nth_opt_some l mid) as [x Hx]; [lia|]. rewrite Hx.
      destruct (pos_eqb (key x) q) eqn:Eq.
      + apply pos_eqb_spec in Eq. cbn [bs_ok]. eauto.
      + destruct (pos_ltb (key x) q) eqn:Elt.
        * apply pos_ltb_spec in Elt. apply IH; try lia; [|exact Hhi].
          intros j y Hj Hy. destruct (Nat.lt_ge_cases j lo) as [Hjl|Hjl]; [eapply Hlo; eassumption|].
          eapply ple_plt_trans; [|exact Elt]. eapply sorted_nth; try eassumption. lia.
        * apply pos_ltb_false in Elt.
          assert (Hne : key x <> q) by (intros Hc; apply pos_eqb_spec in Hc; congruence).
          assert (Hqx : plt q (key x)) by (apply ple_neq_plt; [exact Elt | congruence]).
          apply IH; try lia; [exact Hlo|].
          intros j y Hj Hy. destruct (Nat.lt_ge_cases j hi) as [Hjh|Hjh]; [|eapply Hhi; eassumption].
          eapply plt_ple_trans; [exact Hqx|]. eapply sorted_nth; try eassumption.
  Qed.
  Lemma bsearch_ok l q : sorted l -> bs_ok l q (bsearch key l q).
  Proof.
    intros Hs. unfold bsearch. apply bsearch_go_ok; try lia; try exact Hs.
    all: intros j y Hj Hy; try lia; apply nth_opt_lt in Hy; lia.
  Qed.
  Theorem glb_correct l q : sorted l -> glb_spec l q (glb key l q).
  Proof. intros Hs. apply glb_with_spec; [exact Hs | apply bsearch_ok; exact Hs]. Qed.
End P.
