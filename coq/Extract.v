From SM Require Import Model.Base Model.Gen_B64 Model.Vlq Spec.Vlq Model.Mappings Model.Header Model.Glb
     Model.SourceView Spec.SourceView Model.Paths Spec.Paths Model.Adjust Spec.Adjust Model.RamBundle Spec.Glb
     Model.SourceMap Model.Rewrite Model.NameRes Spec.NameRes Model.Detector Spec.Base64 Model.Conc Model.Raw Spec.Mappings Spec.Hermes Spec.Rules.
Require Extraction.
Require Import ExtrOcamlBasic.
Extraction Language OCaml.
(* helpers used only by the driver *)
Definition sort_tokens (ts : list rtoken) : list rtoken := isort tok_key ts.
Definition spec_lookup (ts : list rtoken) (l c : Z) := spec_glb tok_key ts (l, c).
(* character classes of the test alphabet (re-checked against the crate by the harness) *)
Definition cls_start (c : Z) : bool :=
  ((65 <=? c) && (c <=? 90)) || ((97 <=? c) && (c <=? 122)) || (c =? 36) || (c =? 95) || (c =? 233) || (c =? 15247) || (c =? 119964).
(* ID_Continue but not ID_Start in the alphabet: digits, ZWNJ / ZWJ, a combining mark (U+0301), a non-ASCII digit (U+0661),
   connector punctuation (U+203F), the middle dot (U+00B7) *)
Definition cls_cont (c : Z) : bool := cls_start c || ((48 <=? c) && (c <=? 57)) || (c =? 8204) || (c =? 8205)
  || (c =? 769) || (c =? 1633) || (c =? 8255) || (c =? 183).
Definition cls_ws (c : Z) : bool := (c =? 32) || ((9 <=? c) && (c <=? 13)) || (c =? 160) || (c =? 8232) || (c =? 8233).
Definition name_res := get_original_function_name cls_start cls_cont cls_ws 128.
Definition name_res_spec := spec_resolve cls_start cls_cont cls_ws 128.
Definition locate := locate_sourcemap_reference cls_ws
  [47;47;35;32;115;111;117;114;99;101;77;97;112;112;105;110;103;85;82;76;61]
  [47;47;64;32;115;111;117;114;99;101;77;97;112;112;105;110;103;85;82;76;61] 21.
Extraction "model.ml"
  parse_vlq_segment generate_vlq_segment spec_parse spec_encode
  decode_mappings serialize_mappings serialize_range_mappings is_same_segment has_source has_name
  strip_junk_header reader_run
  sort_tokens lookup_token spec_lookup tok_src_col
  sv_new get_line line_count get_line_slice split_lines covering start_inside_pair
  make_relative_path resolve_str components
  adjust_mappings spec_adjust has_empty_stretch dst_key src_key
  sm_new set_source_root set_source set_source_contents get_source get_name get_source_contents tok_source tok_name
  builder_new add_source add_name add add_raw b_set_source_contents b_add_to_ignore_list b_set_source_root b_set_file b_set_debug_id into_sourcemap
  rewrite h_rewrite decode_function_map get_scope_for_token h_get_original_function_name flatten dm_lookup
  name_res name_res_spec locate b64_encode b64_decode
  parse is_ram_bundle startup_code get_module
  step init_shared init_thread
  decode_regular decode_common sm_as_raw dm_as_raw spec_decode_mappings strict_decode_mappings spec_join spec_strip find_common_prefix spec_scope decode_hermes
  Z.add Z.mul Z.div Z.modulo Z.opp Z.ltb Z.eqb Z.of_nat Z.to_nat.
