(* Declarative reading of Base64 VLQ as used by Source Map v3.  Arithmetic on unbounded Z. *)
From SM Require Import Model.Base.

Definition std_alphabet : list Z :=
  map Z.of_nat (seq 65 26 ++ seq 97 26 ++ seq 48 10) ++ [43; 47].
Fixpoint find_index (c : Z) (l : list Z) (i : Z) : option Z :=
  match l with [] => None | x :: l' => if x =? c then Some i else find_index c l' (i + 1) end.
Definition digit_of (c : Z) : option Z := find_index c std_alphabet 0.

Definition zigzag (n : Z) : Z := if n <? 0 then 2 * (- n) + 1 else 2 * n.
Definition unzigzag (v : Z) : Z := if Z.odd v then - (v / 2) else v / 2.

(* little-endian base-32 digits of v >= 0, at least one *)
Fixpoint digits32 (fuel : nat) (v : Z) : list Z :=
  match fuel with
  | O => []
  | S f => if v <? 32 then [v] else (v mod 32) :: digits32 f (v / 32)
  end.
Definition spec_encode1 (n : Z) : bytes :=
  let ds := digits32 64 (zigzag n) in
  let k := length ds in
  map (fun '(i, d) => nth (Z.to_nat (if Nat.eqb (S i) k then d else d + 32)) std_alphabet 0)
      (combine (seq 0 k) ds).
Definition spec_encode (ns : list Z) : bytes := flat_map spec_encode1 ns.

(* value of a group of 5-bit digits, least significant first *)
Fixpoint value_of (ds : list Z) : Z := match ds with [] => 0 | d :: r => d + 32 * value_of r end.

(* Reference decoder: scan left to right, collecting the digits of the current value.
   Errors: foreign byte; more than 13 digits in one value; code >= 2^63; unterminated; empty. *)
Fixpoint spec_go (s : bytes) (cur : list Z) (acc : list Z) : outcome (list Z) :=
  match s with
  | [] => if negb (is_nil cur) then Err EVlqLeftover
          else if is_nil acc then Err EVlqNoValues else Ok (rev acc)
  | c :: s' =>
    match digit_of c with
    | None => Err EInvalidBase64
    | Some d =>
      if 13 <=? zlen cur then Err EVlqOverflow else
      let cur' := cur ++ [d mod 32] in
      if two63 <=? value_of cur' then Err EVlqOverflow else
      if d <? 32 then spec_go s' [] (unzigzag (value_of cur') :: acc)
      else spec_go s' cur' acc
    end
  end.
Definition spec_parse (s : bytes) : outcome (list Z) := spec_go s [] [].
