(* "greatest element not after q; the first one when q is hit exactly" *)
From SM Require Import Model.Base.
Section S.
  Context {A : Type} (key : A -> pos).
  (* scan left to right remembering the best candidate so far *)
  Fixpoint spec_go (l : list A) (q : pos) (i : nat) (best : option (nat * A)) : option (nat * A) :=
    match l with
    | [] => best
    | x :: l' =>
      if pos_leb (key x) q then
        let better :=
          match best with
          | None => true
          | Some (_, b) => if pos_eqb (key b) q then false      (* keep the first exact hit *)
                           else true                           (* later element, key >= best's *)
          end in
        spec_go l' q (S i) (if better then Some (i, x) else best)
      else best                                                 (* sorted: nothing further can qualify *)
    end.
  Definition spec_glb (l : list A) (q : pos) := spec_go l q 0 None.
End S.
