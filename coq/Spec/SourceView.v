From SM Require Import Model.Base Model.SourceView.
(* split at \r\n, \n, or lone \r; a trailing terminator yields a final empty piece *)
Fixpoint split_lines_go (s : bytes) (cur : bytes) : list bytes :=
  match s with
  | [] => [rev cur]
  | b :: s' =>
    if b =? 10 then rev cur :: split_lines_go s' []
    else if b =? 13 then
      match s' with
      | c :: s'' => if c =? 10 then rev cur :: split_lines_go s'' [] else rev cur :: split_lines_go s' []
      | [] => rev cur :: split_lines_go s' []
      end
    else split_lines_go s' (b :: cur)
  end.
Definition split_lines (s : bytes) := split_lines_go s [].

(* characters whose utf-16 unit interval meets [c, c+n) *)
Fixpoint covering_go (line : list Z) (u c n : Z) : list Z :=
  match line with
  | [] => []
  | ch :: r =>
    let u' := u + len_utf16 ch in
    (if Z.max u c <? Z.min u' (c + n) then [ch] else []) ++ covering_go r u' c n
  end.
Definition units (line : list Z) : Z := fold_right (fun ch a => len_utf16 ch + a) 0 line.
Definition covering (line : list Z) (c n : Z) : option (list Z) :=
  if units line <? c + n then None else Some (covering_go line 0 c n).
Fixpoint start_inside_pair_go (line : list Z) (u c : Z) : bool :=
  match line with
  | [] => false
  | ch :: r => ((len_utf16 ch =? 2) && (c =? u + 1)) || start_inside_pair_go r (u + len_utf16 ch) c
  end.
Definition start_inside_pair (line : list Z) (c n : Z) : bool := (0 <? n) && start_inside_pair_go line 0 c.
