(* RFC 4648 base64 with padding, as a reference for data_encoding::BASE64.decode and base64-simd encode *)
From SM Require Import Model.Base Spec.Vlq.
Definition b64c (v : Z) : Z := nth (Z.to_nat v) std_alphabet 0.
Fixpoint b64_encode (bs : bytes) : bytes :=
  match bs with
  | [] => []
  | [a] => [b64c (a / 4); b64c ((a mod 4) * 16); 61; 61]
  | [a; b] => [b64c (a / 4); b64c ((a mod 4) * 16 + b / 16); b64c ((b mod 16) * 4); 61]
  | a :: b :: c :: r =>
    b64c (a / 4) :: b64c ((a mod 4) * 16 + b / 16) :: b64c ((b mod 16) * 4 + c / 64) :: b64c (c mod 64) :: b64_encode r
  end.
Fixpoint b64_decode_go (fuel : nat) (s : bytes) : option bytes :=
  match fuel with O => None | S f =>
  match s with
  | [] => Some []
  | c0 :: c1 :: c2 :: c3 :: r =>
    if is_nil r && (c2 =? 61) && (c3 =? 61) then
      match digit_of c0, digit_of c1 with
      | Some a, Some b => if b mod 16 =? 0 then Some [a * 4 + b / 16] else None
      | _, _ => None end
    else if is_nil r && (c3 =? 61) then
      match digit_of c0, digit_of c1, digit_of c2 with
      | Some a, Some b, Some c => if c mod 4 =? 0 then Some [a * 4 + b / 16; (b mod 16) * 16 + c / 4] else None
      | _, _, _ => None end
    else
      match digit_of c0, digit_of c1, digit_of c2, digit_of c3, b64_decode_go f r with
      | Some a, Some b, Some c, Some d, Some rest =>
        Some (a * 4 + b / 16 :: (b mod 16) * 16 + c / 4 :: (c mod 4) * 64 + d :: rest)
      | _, _, _, _, _ => None end
  | _ => None
  end end.
Definition b64_decode (s : bytes) : option bytes := b64_decode_go (S (length s)) s.
