From SM Require Import Model.Base Model.RamBundle.
(* abstract bundle: startup code (non-empty) and a table of optional modules; modules laid out in table order *)
Definition le32 (v : Z) : bytes := [v mod 256; (v / 256) mod 256; (v / 65536) mod 256; (v / 16777216) mod 256].
Record abundle := mkAB { ab_startup : bytes; ab_modules : list (option bytes) }.
Fixpoint layout_table (ms : list (option bytes)) (off : Z) : bytes * bytes :=
  match ms with
  | [] => ([], [])
  | None :: r => let '(t, d) := layout_table r off in (le32 0 ++ le32 0 ++ t, d)
  | Some m :: r => let len := zlen m + 1 in
                   let '(t, d) := layout_table r (off + len) in
                   (le32 off ++ le32 len ++ t, m ++ [0] ++ d)
  end.
Definition layout (b : abundle) : bytes :=
  let '(table, data) := layout_table (ab_modules b) (zlen (ab_startup b)) in
  le32 RAM_BUNDLE_MAGIC ++ le32 (zlen (ab_modules b)) ++ le32 (zlen (ab_startup b)) ++ table ++ ab_startup b ++ data.
