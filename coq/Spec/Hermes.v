(* Independent reading of Metro function maps: entries (line, column, name index), absolute, in
   document order; the scope of a position is the name of the last entry at or before it. *)
From SM Require Import Model.Base.
Fixpoint spec_scope_go (es : list (Z * Z * Z)) (q : pos) (best : option Z) : option Z :=
  match es with
  | [] => best
  | (l, c, n) :: r => if pos_leb (l, c) q then spec_scope_go r q (Some n) else spec_scope_go r q best
  end.
Definition spec_scope (es : list (Z * Z * Z)) (names : list bytes) (src_line src_col : Z) : option bytes :=
  match spec_scope_go es (src_line + 1, src_col) None with Some n => znth_opt names n | None => None end.
