(* Independent reading of the Source Map v3 `mappings` string (with the rangeMappings proposal):
   lines at ';', segments at ',', each non-empty segment a VLQ sequence of 1, 4 or 5 numbers;
   generated column restarts per line; source index, original line/column and name index accumulate
   over the whole string; the running source and name indices (as mathematical integers) must stay
   inside the declared arrays.  Columns and original positions are reduced mod 2^32 like the crate's
   `as u32`; indices are not. *)
From SM Require Import Model.Base Model.Mappings Spec.Vlq.

Definition spec_segment (nsrc nnames : Z) (dst_line : Z) (flag : bool) (seg : bytes) (dst_col : Z) (st : dstate)
  : outcome (Z * dstate) :=
  match spec_parse seg with
  | Err e => Err e
  | Panic p => Panic p
  | Ok nums =>
    match nums with
    | [c] =>
      let col := wrap_u32 (dst_col + c) in
      Ok (col, mkD (d_src st) (d_sl st) (d_sc st) (d_name st)
                   (mkTok dst_line col (d_sl st) (d_sc st) NONE NONE flag :: d_toks st))
    | [c; s; l; k] =>
      let col := wrap_u32 (dst_col + c) in
      let src := d_src st + s in
      if (src <? 0) || (nsrc <=? src) then Err EBadSourceRef else
      let sl := wrap_u32 (d_sl st + l) in let sc := wrap_u32 (d_sc st + k) in
      Ok (col, mkD src sl sc (d_name st) (mkTok dst_line col sl sc src NONE flag :: d_toks st))
    | [c; s; l; k; n] =>
      let col := wrap_u32 (dst_col + c) in
      let src := d_src st + s in
      if (src <? 0) || (nsrc <=? src) then Err EBadSourceRef else
      let sl := wrap_u32 (d_sl st + l) in let sc := wrap_u32 (d_sc st + k) in
      let name := d_name st + n in
      if (name <? 0) || (nnames <=? name) then Err EBadNameRef else
      Ok (col, mkD src sl sc name (mkTok dst_line col sl sc src name flag :: d_toks st))
    | _ => Err EBadSegmentSize                      (* 2, 3 or more than 5 numbers *)
    end
  end.

(* the whole string: lines at ';', segments at ',', empty pieces skipped; column restarts per line *)
Fixpoint spec_segments (nsrc nnames dst_line : Z) (flags : nat -> bool) (segs : list bytes) (idx : nat) (col : Z) (st : dstate)
  : outcome dstate :=
  match segs with
  | [] => Ok st
  | seg :: r =>
    if is_nil seg then spec_segments nsrc nnames dst_line flags r (S idx) col st
    else match spec_segment nsrc nnames dst_line (flags idx) seg col st with
         | Ok x => spec_segments nsrc nnames dst_line flags r (S idx) (fst x) (snd x)
         | Err e => Err e | Panic p => Panic p end
  end.
Fixpoint spec_lines (nsrc nnames : Z) (lines : list bytes) (dst_line : Z) (st : dstate) : outcome dstate :=
  match lines with
  | [] => Ok st
  | l :: r =>
    if is_nil l then spec_lines nsrc nnames r (dst_line + 1) st
    else match spec_segments nsrc nnames dst_line (fun _ => false) (split_on 44 l) 0 0 st with
         | Ok st' => spec_lines nsrc nnames r (dst_line + 1) st'
         | Err e => Err e | Panic p => Panic p end
  end.
Definition spec_decode_mappings (nsrc nnames : Z) (mappings : bytes) : outcome (list rtoken) :=
  match spec_lines nsrc nnames (split_on 59 mappings) 0 (mkD 0 0 0 0 []) with
  | Ok st => Ok (rev (d_toks st)) | Err e => Err e | Panic p => Panic p end.

(* ---- strict reading: what a reader with exact integer arithmetic sees (no reduction mod 2^32).
   Every running value must stay a u32; otherwise the string is not a v3 mappings string for such a reader. ---- *)
Definition in_u32 (x : Z) : bool := (0 <=? x) && (x <? 4294967296).
Definition strict_segment (nsrc nnames : Z) (dst_line : Z) (seg : bytes) (dst_col : Z) (st : dstate)
  : outcome (Z * dstate) :=
  match spec_parse seg with
  | Err e => Err e
  | Panic p => Panic p
  | Ok nums =>
    match nums with
    | [c] =>
      let col := dst_col + c in
      if negb (in_u32 col) then Err EVlqOverflow else
      Ok (col, mkD (d_src st) (d_sl st) (d_sc st) (d_name st)
                   (mkTok dst_line col (d_sl st) (d_sc st) NONE NONE false :: d_toks st))
    | [c; s; l; k] =>
      let col := dst_col + c in
      let src := d_src st + s in
      if (src <? 0) || (nsrc <=? src) then Err EBadSourceRef else
      let sl := d_sl st + l in let sc := d_sc st + k in
      if negb (in_u32 col && in_u32 sl && in_u32 sc) then Err EVlqOverflow else
      Ok (col, mkD src sl sc (d_name st) (mkTok dst_line col sl sc src NONE false :: d_toks st))
    | [c; s; l; k; n] =>
      let col := dst_col + c in
      let src := d_src st + s in
      if (src <? 0) || (nsrc <=? src) then Err EBadSourceRef else
      let sl := d_sl st + l in let sc := d_sc st + k in
      let name := d_name st + n in
      if (name <? 0) || (nnames <=? name) then Err EBadNameRef else
      if negb (in_u32 col && in_u32 sl && in_u32 sc) then Err EVlqOverflow else
      Ok (col, mkD src sl sc name (mkTok dst_line col sl sc src name false :: d_toks st))
    | _ => Err EBadSegmentSize
    end
  end.
Fixpoint strict_segments (nsrc nnames dst_line : Z) (segs : list bytes) (col : Z) (st : dstate) : outcome dstate :=
  match segs with
  | [] => Ok st
  | seg :: r =>
    if is_nil seg then strict_segments nsrc nnames dst_line r col st
    else match strict_segment nsrc nnames dst_line seg col st with
         | Ok x => strict_segments nsrc nnames dst_line r (fst x) (snd x)
         | Err e => Err e | Panic p => Panic p end
  end.
Fixpoint strict_lines (nsrc nnames : Z) (lines : list bytes) (dst_line : Z) (st : dstate) : outcome dstate :=
  match lines with
  | [] => Ok st
  | l :: r =>
    if is_nil l then strict_lines nsrc nnames r (dst_line + 1) st
    else match strict_segments nsrc nnames dst_line (split_on 44 l) 0 st with
         | Ok st' => strict_lines nsrc nnames r (dst_line + 1) st'
         | Err e => Err e | Panic p => Panic p end
  end.
Definition strict_decode_mappings (nsrc nnames : Z) (mappings : bytes) : outcome (list rtoken) :=
  match strict_lines nsrc nnames (split_on 59 mappings) 0 (mkD 0 0 0 0 []) with
  | Ok st => Ok (rev (d_toks st)) | Err e => Err e | Panic p => Panic p end.
