From SM Require Import Model.Base Model.Paths.
(* resolve a '/'-separated relative path against a directory given as a component list *)
Fixpoint resolve (dir : list bytes) (rel : list bytes) : list bytes :=
  match rel with
  | [] => dir
  | c :: r =>
    if bytes_eqb c [46; 46] then resolve (removelast dir) r
    else if bytes_eqb c [46] then resolve dir r
    else resolve (dir ++ [c]) r
  end.
Definition resolve_str (dir : list bytes) (rel : bytes) : list bytes := resolve dir (components rel).
