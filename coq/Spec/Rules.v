(* Declarative readings of two documented string rules, used as oracles on the crate's observations
   and related to the model by theorems (Proofs/RulesProofs.v).
   - join: "a non-empty sourceRoot is joined to every source that is not absolute ('/', 'http:', 'https:')";
   - strip: "the first listed prefix (taken with a trailing '/') that the source starts with is removed". *)
From SM Require Import Model.Base.

Definition is_absolute (name : bytes) : bool :=
  match name with
  | [] => false
  | _ => starts_with name [47] || starts_with name [104;116;116;112;58] || starts_with name [104;116;116;112;115;58]
  end.
Definition drop_one_trailing_slash (r : bytes) : bytes :=
  match rev r with 47 :: t => rev t | _ => r end.
Definition spec_join (root : option bytes) (name : bytes) : bytes :=
  match root with
  | None => name
  | Some [] => name
  | Some r => if is_absolute name then name else drop_one_trailing_slash r ++ 47 :: name
  end.

Definition with_slash (p : bytes) : bytes := match rev p with 47 :: _ => p | _ => p ++ [47] end.
Fixpoint spec_strip (prefixes : list bytes) (name : bytes) : bytes :=
  match prefixes with
  | [] => name
  | p :: ps => if starts_with name (with_slash p) then skipn (length (with_slash p)) name else spec_strip ps name
  end.
