From SM Require Import Model.Base Model.Mappings Model.SourceView Model.NameRes.
Section S.
  Variables (is_start is_cont is_ws : Z -> bool).
  (* text of a token, from scratch *)
  Definition text_at (line : list Z) (col : Z) : option (list Z) :=
    let k := fwd line 0 col in
    if Nat.leb (length line) k then None
    else get_javascript_token is_start is_cont is_ws (skipn k line).
  Definition tok_text (get_line : Z -> option (list Z)) (t : rtoken) :=
    text_at (match get_line (t_dl t) with Some l => l | None => [] end) (t_dc t).
  (* first k < window such that text(t_{i-k}) = name and text(t_{i-k-1}) = "function", k+1 < window *)
  Fixpoint spec_scan (get_line : Z -> option (list Z)) (toks_rev : list rtoken) (n : nat) (name : list Z) : option rtoken :=
    match n, toks_rev with
    | S (S n' as m), t :: ((p :: _) as rest) =>
      if opt_eq (tok_text get_line t) name && opt_eq (tok_text get_line p) fn_kw then Some t
      else spec_scan get_line rest m name
    | _, _ => None
    end.
  Definition spec_resolve (window : nat) (get_line : Z -> option (list Z)) (tokens : list rtoken) (i : nat) (name : list Z) :=
    if negb (is_valid_javascript_identifier is_start is_cont name) then None
    else spec_scan get_line (rev (firstn (S i) tokens)) window name.
  Fixpoint inside_pair (line : list Z) (u c : Z) : bool :=
    match line with [] => false | ch :: r => ((len_utf16 ch =? 2) && (c =? u + 1)) || inside_pair r (u + len_utf16 ch) c end.
End S.
