From SM Require Import Model.Base Model.Mappings Model.Adjust.
(* one token per non-empty overlap of an original stretch with an adjustment stretch *)
Definition stretches (key : rtoken -> pos) (toks : list rtoken) : list range := create_ranges key toks.
Definition overlap_token (a o : range) : list rtoken :=
  let s := pos_max (r_start o) (r_start a) in
  let e := pos_min (r_end o) (r_end a) in
  if pos_ltb s e then
    let av := r_val a in let ov := r_val o in
    [mkTok (fst s + (t_dl av - t_sl av)) (snd s + (t_dc av - t_sc av))
           (t_sl ov) (t_sc ov) (t_src ov) (t_name ov) (t_range ov)]
  else [].
Definition spec_adjust (orig adj : list rtoken) : list rtoken :=
  isort dst_key
    (flat_map (fun a => flat_map (fun o => overlap_token a o) (stretches dst_key orig))
              (stretches src_key adj)).
Definition has_empty_stretch (key : rtoken -> pos) (toks : list rtoken) : bool :=
  existsb (fun r => negb (pos_ltb (r_start r) (r_end r))) (stretches key toks).
