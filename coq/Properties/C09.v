From SM Require Import Model.Base Model.Mappings Model.SourceMap Model.Rewrite Proofs.BaseLemmas Proofs.FlattenProofs Proofs.RewriteProofs.
Theorem C09_tokens : forall m o,
  sorted tok_key (sm_tokens m) -> zlen (sm_tokens m) < NONE ->
  match rewrite_with_mapping m o with
  | Panic _ => False
  | Err _ => False
  | Ok (m', _) => map (mview m') (sm_tokens m') = map (rview m o) (sm_tokens m)
                  /\ sm_file m' = sm_file m /\ sm_debug_id m' = sm_debug_id m
  end.
Proof. exact RewriteProofs.C09_tokens. Qed.
Print Assumptions C09_tokens.

Theorem C09_interned : forall m o m' mp, rewrite_with_mapping m o = Ok (m', mp) -> eff_prefixes m o = [] ->
  NoDup (sm_sources m') /\ NoDup (sm_names m')
  /\ refd (zlen (sm_sources m')) (map t_src (sm_tokens m')) /\ refd (zlen (sm_names m')) (map t_name (sm_tokens m')).
Proof. exact RewriteProofs.C09_interned. Qed.
Print Assumptions C09_interned.

From SM Require Import Model.Glb.
Theorem C09_hermes : forall h o h' m' mp,
  sorted tok_key (sm_tokens (h_sm h)) -> zlen (sm_tokens (h_sm h)) < NONE ->
  Forall (fun t => t_src t = NONE \/ tok_source (h_sm h) t <> None) (sm_tokens (h_sm h)) ->
  fmaps_consistent h -> eff_prefixes (h_sm h) o = [] ->
  (forall i, i <> NONE -> get_source (h_sm h) i <> None -> exists x, znth_opt (h_fmaps h) i = Some x) ->
  zlen (h_fmaps h) < NONE ->
  rewrite_with_mapping (h_sm h) o = Ok (m', mp) -> (length mp <= length (h_fmaps h))%nat ->
  h_rewrite h o = Ok h' ->
  h_sm h' = m' /\ length (sm_tokens m') = length (sm_tokens (h_sm h))
  /\ forall k t t' off, nth_opt (sm_tokens (h_sm h)) k = Some t -> nth_opt (sm_tokens m') k = Some t' ->
         get_scope_for_token h' t' off = get_scope_for_token h t off.
Proof. exact RewriteProofs.C09_hermes. Qed.
Print Assumptions C09_hermes.

From SM Require Import Proofs.ContentsProofs.
Theorem C09_contents : forall m o m' mp, ro_contents o = true -> eff_prefixes m o = [] -> zlen (sm_tokens m) < NONE ->
  rewrite_with_mapping m o = Ok (m', mp) ->
  forall j s, znth_opt (sm_sources m') j = Some s -> get_source_contents m' j = first_content m (sm_tokens m) s.
Proof. exact ContentsProofs.C09_contents. Qed.
Print Assumptions C09_contents.
Theorem C09_no_contents : forall m o m' mp, ro_contents o = false -> eff_prefixes m o = [] ->
  rewrite_with_mapping m o = Ok (m', mp) -> forall j, get_source_contents m' j = None.
Proof. exact ContentsProofs.C09_no_contents. Qed.
Print Assumptions C09_no_contents.

(* the source of a rewritten token in declarative form: the first listed prefix (taken with a trailing '/') that the resolved
   source starts with is removed; "~" stands for the common prefix of the raw source names and is tried last *)
From SM Require Import Spec.Rules Proofs.RulesProofs.
Theorem C09_stripped_source : forall m o t,
  (let '(_, _, _, _, src, _, _) := rview m o t in src)
  = option_map (spec_strip (filter (fun p => negb (bytes_eqb p tilde)) (ro_prefixes o)
                            ++ (if existsb (fun p => bytes_eqb p tilde) (ro_prefixes o)
                                then match find_common_prefix (sm_sources m) with Some c => [c] | None => [] end else [])))
               (tok_source m t).
Proof.
  intros m o t. unfold rview. rewrite <- eff_prefixes_spec.
  destruct (tok_source m t); [cbn [option_map]; rewrite strip1_spec|]; reflexivity.
Qed.
Print Assumptions C09_stripped_source.

(* with ANY prefix list: sources are the stripped images of a duplicate-free list (two rewritten sources coincide only when
   stripping made them equal), names are duplicate-free, every entry is referenced, and contents stay attached to the source
   they belonged to before stripping -- the first content in token order -- exactly when contents are kept *)
From SM Require Import Proofs.RewriteStripped.
Theorem C09_general : forall m o m' mp,
  rewrite_with_mapping m o = Ok (m', mp) -> zlen (sm_tokens m) < NONE ->
  exists pre,
    NoDup pre /\ sm_sources m' = map (strip1 (eff_prefixes m o)) pre
    /\ NoDup (sm_names m')
    /\ refd (zlen (sm_sources m')) (map t_src (sm_tokens m')) /\ refd (zlen (sm_names m')) (map t_name (sm_tokens m'))
    /\ (ro_contents o = true -> forall j s, znth_opt pre j = Some s -> get_source_contents m' j = first_content m (sm_tokens m) s)
    /\ (ro_contents o = false -> forall j, get_source_contents m' j = None).
Proof. exact RewriteStripped.C09_general. Qed.
Print Assumptions C09_general.
