From SM Require Import Model.Base Model.Mappings Model.SourceMap Model.Raw Proofs.CodecTheorems Proofs.RoundtripProofs.
Theorem C01_regular : forall m, wf_map m ->
  exists m', decode_regular (sm_as_raw m) = Ok m'
    /\ map (norm (zlen (sm_names m))) (sm_tokens m') = map (norm (zlen (sm_names m))) (dedup (zlen (sm_names m)) None (sm_tokens m))
    /\ sm_names m' = sm_names m /\ sm_sources m' = sm_sources m /\ sm_root m' = sm_root m /\ sm_prefixed m' = sm_prefixed m
    /\ sm_ignore m' = sm_ignore m /\ sm_debug_id m' = sm_debug_id m /\ sm_file m' = sm_file m
    /\ forall i, (i < length (sm_sources m))%nat -> get_source_contents m' (Z.of_nat i) = get_source_contents m (Z.of_nat i).
Proof. exact RoundtripProofs.C01_regular. Qed.
Print Assumptions C01_regular.

(* index and Hermes maps: any tree of decoded maps (regular / Hermes leaves, index sections to any depth) survives
   write + read observationally: offsets, URLs and file of every index level, the conclusion of C01_regular for every
   embedded map, and the identical Hermes function-map payload (hence identical function maps) *)
From SM Require Import Model.Glb Model.Rewrite Proofs.DmapRoundtrip.
Theorem C01_index_hermes : forall fuel d, wf_dmap fuel d ->
  exists d', decode_common fuel (dm_as_raw fuel d) = Ok d' /\ obs_eq fuel d d'.
Proof. exact DmapRoundtrip.C01_dmap. Qed.
Print Assumptions C01_index_hermes.
(* the hypotheses are satisfiable: a two-section index holding a regular map and a nested index with a Hermes map *)
From SM Require Import Proofs.CodecCore Proofs.SettersProofs.
Definition m_ex := mkSM (Some [111]) [mkTok 0 0 1 2 0 NONE false; mkTok 2 5 0 0 NONE NONE false] [[110]] None [[97]] None [Some [99]] [] None.
Lemma m_ex_wf : wf_map m_ex.
Proof.
  unfold wf_map, m_ex. cbn [sm_tokens sm_sources sm_names sm_ignore].
  split; [|split; [|split; [|split; [|split]]]].
  - repeat constructor; cbn; lia.
  - constructor; [|constructor; [|constructor]].
    + constructor; cbn; try reflexivity; [right; lia|left; reflexivity].
    + constructor; cbn; try reflexivity; left; reflexivity.
  - cbn; unfold NONE, u32_max; lia.
  - cbn; unfold NONE, u32_max; lia.
  - constructor.
  - reflexivity.
Qed.
Example C01_index_example :
  wf_dmap 3 (DIndex (Some [102]) [((0, 0), None, Some (DRegular m_ex));
                                  ((10, 4), Some [117], Some (DIndex None [((0, 2), None, Some (DHermes (mkH m_ex [None] (Some [None]))))]))]).
Proof.
  cbn [wf_dmap snd]. split.
  - repeat constructor; cbn; lia.
  - constructor; [exact m_ex_wf|]. constructor; [|constructor]. split.
    + repeat constructor.
    + constructor; [|constructor]. cbn [h_sm h_raw h_fmaps]. split; [exact m_ex_wf|]. exists [None]. split; reflexivity.
Qed.

(* last sentence of the property: serialising a map, decoding the result and serialising again reproduces the same
   RawSourceMap value field by field -- mappings and rangeMappings strings included -- hence the same bytes *)
From SM Require Import Proofs.Idempotent.
Theorem C01_idempotent : forall m, wf_map m ->
  exists m', decode_regular (sm_as_raw m) = Ok m' /\ sm_as_raw m' = sm_as_raw m.
Proof. exact Idempotent.C01_idempotent. Qed.
Print Assumptions C01_idempotent.
