From SM Require Import Model.Base Model.Mappings Model.SourceMap Model.Raw Proofs.CodecTheorems Proofs.RoundtripProofs.
Theorem C01_regular : forall m, wf_map m ->
  exists m', decode_regular (sm_as_raw m) = Ok m'
    /\ map (norm (zlen (sm_names m))) (sm_tokens m') = map (norm (zlen (sm_names m))) (dedup (zlen (sm_names m)) None (sm_tokens m))
    /\ sm_names m' = sm_names m /\ sm_sources m' = sm_sources m /\ sm_root m' = sm_root m /\ sm_prefixed m' = sm_prefixed m
    /\ sm_ignore m' = sm_ignore m /\ sm_debug_id m' = sm_debug_id m /\ sm_file m' = sm_file m
    /\ forall i, (i < length (sm_sources m))%nat -> get_source_contents m' (Z.of_nat i) = get_source_contents m (Z.of_nat i).
Proof. exact RoundtripProofs.C01_regular. Qed.
Print Assumptions C01_regular.
