From SM Require Import Model.Base Model.SourceMap Proofs.SettersProofs.
Theorem C13_map_inv : forall ops m m', cache_ok m -> apply_setters ops m = Ok m' ->
  cache_ok m' /\ forall i, get_source m' i = option_map (join_rule (sm_root m')) (znth_opt (sm_sources m') i).
Proof. exact SettersProofs.C13_map_inv. Qed.
Print Assumptions C13_map_inv.

From SM Require Import Proofs.BuilderProofs.
Theorem C13_builder_inv : forall ops, builder_inv (fold_left (fun b op => apply_bop op b) ops (builder_new None)).
Proof. exact BuilderProofs.C13_builder_inv. Qed.
Print Assumptions C13_builder_inv.
Theorem C13_add_returns : forall ops s,
  let b := fold_left (fun b op => apply_bop op b) ops (builder_new None) in
  let '(id, b') := add_source s b in
  id = match index_of s (b_sources b) with Some i => i | None => zlen (b_sources b) end /\ znth_opt (b_sources b') id = Some s.
Proof. exact BuilderProofs.C13_add_returns. Qed.
Print Assumptions C13_add_returns.

From SM Require Import Model.Mappings Model.Glb Model.Rewrite Proofs.FlattenProofs Proofs.BuilderTokens.
From Coq Require Import Permutation.
(* any history of builder calls (without raw-id adds): the finished map's tokens resolve to the
   strings they were added with, source joined with the final root *)
Theorem C13_tokens_resolve : forall ops, Forall no_raw ops -> sizes_ok (run ops) ->
  Permutation (map (mview (into_sourcemap (run ops))) (sm_tokens (into_sourcemap (run ops))))
              (map (join_view (b_root (run ops))) (intended ops)).
Proof. exact BuilderTokens.C13_tokens_resolve. Qed.
Print Assumptions C13_tokens_resolve.

(* the rule by which a source is read, in its declarative form (Spec/Rules.v, the oracle applied to the crate's answers):
   unchanged when the root is absent or empty or the name is absolute, else root (minus one trailing '/') + "/" + name *)
From SM Require Import Spec.Rules Proofs.RulesProofs.
Theorem C13_join_rule : forall ops m m', cache_ok m -> apply_setters ops m = Ok m' ->
  forall i, get_source m' i = option_map (spec_join (sm_root m')) (znth_opt (sm_sources m') i).
Proof.
  intros ops m m' Hc H i. destruct (SettersProofs.C13_map_inv ops m m' Hc H) as [_ G]. rewrite G.
  destruct (znth_opt (sm_sources m') i); [cbn [option_map]; rewrite join_rule_spec|]; reflexivity.
Qed.
Print Assumptions C13_join_rule.

(* the finished map reports the sources, names, contents, ignore list, file, debug id and source root that were set *)
Theorem C13_finished_reports : forall b,
  let m := into_sourcemap b in
  sm_sources m = b_sources b /\ sm_names m = b_names b /\ sm_file m = b_file b /\ sm_debug_id m = b_debug_id b
  /\ sm_root m = b_root b /\ sm_tokens m = isort tok_key (b_tokens b)
  /\ (forall j, get_source_contents m j = b_get_source_contents b j)
  /\ (forall j, In j (sm_ignore m) <-> In j (b_ignore b)).
Proof. exact BuilderTokens.C13_finished_reports. Qed.
Print Assumptions C13_finished_reports.
Theorem C13_setters_last : forall b,
  (forall f, b_file (b_set_file f b) = f) /\ (forall d, b_debug_id (b_set_debug_id d b) = d) /\ (forall r, b_root (b_set_source_root r b) = r)
  /\ (forall id j, In j (b_ignore (b_add_to_ignore_list id b)) <-> j = id \/ In j (b_ignore b))
  /\ (forall id c b', b_set_source_contents id c b = Ok b' -> forall j, b_get_source_contents b' j = if j =? id then c else b_get_source_contents b j).
Proof. exact BuilderTokens.C13_setters_last. Qed.
Print Assumptions C13_setters_last.
