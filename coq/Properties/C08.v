From SM Require Import Model.Base Model.Mappings Model.Glb Model.SourceMap Model.Rewrite
  Proofs.IndexProofs Proofs.FlattenProofs Proofs.AgreeProofs.
(* what flatten builds: the resolved views of all sections, shifted, in (line, column) order *)
Theorem C08_flatten_views : forall f file secs fm,
  total_tokens secs < NONE ->
  flatten (S f) file (map mk secs) = Ok fm ->
  map (mview fm) (sm_tokens fm) = isort view_key (concat (map sec_views secs)).
Proof. exact FlattenProofs.C08_flatten_views. Qed.
Print Assumptions C08_flatten_views.
(* index lookup and flattened lookup agree on the original location, range shift included *)
Theorem C08_agree : forall f f' file file' secs fm q m t o,
  wf_index secs -> total_tokens secs < NONE ->
  flatten (S f) file (map mk secs) = Ok fm ->
  dm_lookup (S (S f')) (DIndex file' (map mk secs)) (fst q) (snd q) = Ok (Some (m, t, o)) ->
  exists i' t', lookup_token (sm_tokens fm) (fst q) (snd q) = Ok (Some (i', t', o))
    /\ exists off, mview fm t' = sview m off t.
Proof. exact AgreeProofs.C08_agree. Qed.
Print Assumptions C08_agree.

From SM Require Import Proofs.NestedProofs.
(* any nesting depth, Hermes sections included *)
Theorem C08_agree_nested : forall f d q m t o fm,
  wf_dmap f d -> flat_of f d = Ok fm ->
  dm_lookup f d (fst q) (snd q) = Ok (Some (m, t, o)) ->
  exists i' t', lookup_token (sm_tokens fm) (fst q) (snd q) = Ok (Some (i', t', o))
    /\ orig (mview fm t') = orig (mview m t).
Proof. exact NestedProofs.C08_agree_nested. Qed.
Print Assumptions C08_agree_nested.
Theorem C08_unresolved : forall f file secs, (exists off url, In (off, url, None) secs) -> forall fm, flatten (S f) file secs <> Ok fm.
Proof. exact NestedProofs.C08_unresolved. Qed.
Print Assumptions C08_unresolved.
Theorem C08_flatten_nested : forall f file secs fm, Forall (resolved f) secs -> total_tokens (map (reg f) secs) < NONE ->
  flatten (S f) file secs = Ok fm ->
  map (mview fm) (sm_tokens fm) = isort view_key (concat (map sec_views (map (reg f) secs))).
Proof. exact NestedProofs.C08_flatten_nested. Qed.
Print Assumptions C08_flatten_nested.

(* first sentence, the clauses about contents and the ignore list: in the flattened map the content of a source is the
   FIRST content seen for that source name, in section and token order, and a source is ignored exactly when some token of
   some section resolves to its name through a source that its own section ignores *)
From SM Require Import Proofs.FlattenContents.
Theorem C08_contents_ignore : forall f file secs fm,
  total_tokens secs < NONE ->
  Forall (fun s => ign_ok (snd s) (sm_tokens (snd s))) secs ->
  flatten (S f) file (map mk secs) = Ok fm ->
  forall j s, znth_opt (sm_sources fm) j = Some s ->
    get_source_contents fm j = gfirst (all_pairs secs) s
    /\ (In j (sm_ignore fm) <-> gignored (all_pairs secs) s).
Proof. exact FlattenContents.C08_contents_ignore. Qed.
Print Assumptions C08_contents_ignore.
