(* C07 (and the mappings part of C01/C03) — what the writer writes, the reader reads back, range flags included. *)
From SM Require Import Model.Base Model.Mappings Proofs.CodecEvents Proofs.CodecCore Proofs.CodecTheorems Proofs.RmiProofs Proofs.C07Theorem.

Theorem C07_roundtrip : forall nsrc nn, nsrc <= NONE -> nn <= NONE -> forall ts,
  Forall (wf_tok nsrc nn) ts -> lines_ok 0 ts ->
  exists toks, decode_mappings nsrc nn (serialize_mappings nn ts) (rm_of nn ts) = Ok toks
               /\ map (norm nn) toks = map (norm nn) (dedup nn None ts).
Proof. exact C07Theorem.C07_roundtrip. Qed.
Print Assumptions C07_roundtrip.

Theorem C07_bits : forall bits, exists bits', decode_rmi (encode_rmi bits) = Ok bits' /\ forall i, nth i bits' false = nth i bits false.
Proof. exact RmiProofs.C07_bits. Qed.
Print Assumptions C07_bits.

From SM Require Import Model.Glb Proofs.BaseLemmas Proofs.GlbProofs Proofs.LookupProofs.
Theorem C07_lookup : forall toks line col,
  sorted tok_key toks -> Forall (fun t => is_u32 (t_dc t) = true) toks -> is_u32 col = true ->
  match lookup_token toks line col with
  | Panic _ => False | Err _ => False
  | Ok None => forall t, In t toks -> plt (line, col) (tok_key t)
  | Ok (Some (i, t, off)) => glb_spec tok_key toks (line, col) (Some (i, t))
      /\ off = (if t_range t && (t_dl t =? line) then col - t_dc t else 0) /\ 0 <= off
  end.
Proof. exact LookupProofs.C07_lookup. Qed.
Print Assumptions C07_lookup.
