From SM Require Import Model.Base Model.Paths Spec.Paths Proofs.PathsProofs.
Theorem C19_resolves : forall base target, Forall ordinary (components target) -> Forall ordinary (components base) ->
  resolve_str (pop_last (components base)) (make_relative_path base target) = components target.
Proof. exact PathsProofs.C19_resolves. Qed.
Print Assumptions C19_resolves.

Theorem C19_dot : forall base target, Forall ordinary (components target) -> Forall ordinary (components base) ->
  (make_relative_path base target = [46] <-> components target = pop_last (components base)).
Proof. exact PathsProofs.C19_dot. Qed.
Print Assumptions C19_dot.
