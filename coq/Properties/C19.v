From SM Require Import Model.Base Model.Paths Spec.Paths Proofs.PathsProofs.
Theorem C19_resolves : forall base target, Forall ordinary (components target) -> Forall ordinary (components base) ->
  resolve_str (pop_last (components base)) (make_relative_path base target) = components target.
Proof. exact PathsProofs.C19_resolves. Qed.
Print Assumptions C19_resolves.

Theorem C19_dot : forall base target, Forall ordinary (components target) -> Forall ordinary (components base) ->
  (make_relative_path base target = [46] <-> components target = pop_last (components base)).
Proof. exact PathsProofs.C19_dot. Qed.
Print Assumptions C19_dot.

(* "however many leading components they share": the answer is the shortest relative path. It climbs exactly out of the part of the base
   directory the target does not share (n = the longest common prefix: one of the two lists ends there or they differ there) and then
   descends along the rest of the target; it never climbs above a shared component to come back down through it. *)
Theorem C19_shortest : forall base target, Forall ordinary (components target) -> Forall ordinary (components base) ->
  let tp := components target in let bp := pop_last (components base) in
  make_relative_path base target <> [46] ->
  exists n, (n <= length tp)%nat /\ (n <= length bp)%nat /\ firstn n tp = firstn n bp
    /\ (n = length tp \/ n = length bp \/ nth_error tp n <> nth_error bp n)
    /\ components (make_relative_path base target) = repeat [46; 46] (length bp - n) ++ skipn n tp.
Proof. exact PathsProofs.C19_shortest. Qed.
Print Assumptions C19_shortest.
(* non-vacuity: /a/b/c/base.js -> /a/x/y is "../../x/y" (two climbs, shared prefix "a") *)
Example C19_shortest_example :
  make_relative_path [47;97;47;98;47;99;47;122] [47;97;47;120;47;121] = [46;46;47;46;46;47;120;47;121]
  /\ Forall ordinary (components [47;97;47;120;47;121]) /\ Forall ordinary (components [47;97;47;98;47;99;47;122]).
Proof. split; [vm_compute; reflexivity|]. split; repeat constructor; discriminate. Qed.
