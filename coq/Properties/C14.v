From SM Require Import Model.Base Model.Mappings Model.Glb Model.Rewrite Proofs.BaseLemmas Proofs.HermesProofs.
Theorem C14_lookup : forall h t off fm,
  znth_opt (h_fmaps h) (t_src t) = Some (Some fm) -> strictly_sorted (fm_mappings fm) -> t_sl t < u32_max ->
  let q := (t_sl t + 1, tok_src_col t off) in
  match glb so_key (fm_mappings fm) q with
  | None => get_scope_for_token h t off = None /\ forall m, In m (fm_mappings fm) -> plt q (so_key m)
  | Some (i, m) => get_scope_for_token h t off = znth_opt (fm_names fm) (so_name m) /\ ple (so_key m) q
      /\ forall j m', nth_opt (fm_mappings fm) j = Some m' -> ple (so_key m') q -> (j <= i)%nat
  end.
Proof. exact HermesProofs.C14_lookup. Qed.
Print Assumptions C14_lookup.

(* a broken function map never makes the whole map fail: decode_hermes fails only where decode_regular does *)
From SM Require Import Model.SourceMap Model.Raw.
Theorem C14_isolated : forall r fbs, r_fb_sources r = Some fbs ->
  match decode_regular r with
  | Ok m => exists h, decode_hermes r = Ok h /\ h_sm h = m /\ h_fmaps h = map decode_function_map fbs
  | Err e => decode_hermes r = Err e
  | Panic p => decode_hermes r = Panic p
  end.
Proof.
  intros r fbs H. unfold decode_hermes. rewrite H. destruct (decode_regular r); cbn [bind]; eauto.
Qed.
Print Assumptions C14_isolated.

(* the decoder reads back every document written by the independent renderer *)
From SM Require Import Proofs.FmapDecode.
Theorem C14_decode : forall d names, d <> [] -> fdoc_ok d 0 1 ->
  decode_function_map (Some [mkRS names (render_fdoc d)]) = Some (mkFM names (fdoc_entries d)).
Proof. exact FmapDecode.C14_decode. Qed.
Print Assumptions C14_decode.
Example C14_decode_ex : let d := [[FSeg 0 0 1 1; FSeg 5 1 1 2]; [FEmpty]; [FSeg 2 1 3 3; FEmpty; FSeg 9 0 3 2]] in
  fdoc_ok d 0 1 /\ render_fdoc d = [65; 44; 75; 67; 59; 59; 69; 65; 69; 44; 44; 79; 68]
  /\ fdoc_entries d = [mkSO 1 0 0; mkSO 1 5 1; mkSO 3 2 1; mkSO 3 9 0].
Proof. cbv zeta. split; [cbn; repeat split; try lia; intros; lia|]. split; vm_compute; reflexivity. Qed.

(* the answers are unchanged by serialising and decoding the map again: after the round trip (C01_index_hermes) the Hermes
   map carries identical function maps, and scope resolution reads nothing else of the map; the tokens themselves come back
   with the same source index and original position (C01_regular), so every token resolves to the same function *)
From SM Require Import Proofs.RoundtripProofs Proofs.DmapRoundtrip.
Theorem C14_stable : forall h, wf_dmap 1 (DHermes h) ->
  exists h', decode_common 1 (dm_as_raw 1 (DHermes h)) = Ok (DHermes h')
    /\ sm_obs_eq (h_sm h) (h_sm h')
    /\ forall t off, get_scope_for_token h' t off = get_scope_for_token h t off.
Proof.
  intros h Hwf. destruct (C01_dmap 1 (DHermes h) Hwf) as (d' & Hd & Hobs).
  destruct d' as [m'|f' s'|h']; cbn [obs_eq] in Hobs; try contradiction.
  exists h'. split; [exact Hd|]. destruct Hobs as (Hsm & _ & Hfm). split; [exact Hsm|].
  intros t off. unfold get_scope_for_token. rewrite Hfm. reflexivity.
Qed.
Print Assumptions C14_stable.

(* the bytecode-offset entry point: (0, offset) is looked up by C04's rule and the answer is the scope of the token found *)
From SM Require Import Proofs.GlbProofs Proofs.HermesEntry.
Theorem C14_bytecode_offset : forall h off,
  sorted tok_key (sm_tokens (h_sm h)) -> Forall (fun t => is_u32 (t_dc t) = true) (sm_tokens (h_sm h)) -> is_u32 off = true ->
  match lookup_token (sm_tokens (h_sm h)) 0 off with
  | Ok (Some (i, t, o)) =>
      glb_spec tok_key (sm_tokens (h_sm h)) (0, off) (Some (i, t))
      /\ o = (if t_range t && (t_dl t =? 0) then off - t_dc t else 0)
      /\ h_get_original_function_name h off = Ok (get_scope_for_token h t o)
  | Ok None => (forall t, In t (sm_tokens (h_sm h)) -> plt (0, off) (tok_key t))
               /\ h_get_original_function_name h off = Ok None
  | _ => False
  end.
Proof. exact HermesEntry.C14_bytecode_offset. Qed.
Print Assumptions C14_bytecode_offset.
