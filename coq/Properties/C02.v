From SM Require Import Model.Base Model.Mappings Proofs.CodecCore Proofs.CodecTheorems Proofs.C02Proofs.
Theorem C02_mappings : forall nsrc nn, nsrc <= NONE -> nn <= NONE -> forall doc, doc <> [] -> doc_ok nsrc nn 0 doc ->
  decode_mappings nsrc nn (render_doc nn doc) [] = Ok (doc_tokens nn doc d0).
Proof. exact C02Proofs.C02_mappings. Qed.
Print Assumptions C02_mappings.

From SM Require Import Model.Glb Model.SourceMap Model.Rewrite Model.Raw Proofs.SettersProofs Proofs.C02Regular.
Theorem C02_regular : forall r doc,
  let sources := odefault [] (r_sources r) in
  let names := odefault [] (r_names r) in
  zlen sources <= NONE -> zlen names <= NONE ->
  doc <> [] -> doc_ok (zlen sources) (zlen names) 0 doc ->
  r_mappings r = Some (render_doc (zlen names) doc) -> r_range_mappings r = None ->
  exists m, decode_regular r = Ok m
    /\ sm_tokens m = isort tok_key (doc_tokens (zlen names) doc d0)
    /\ sm_names m = names_of names
    /\ sm_sources m = map (odefault []) sources
    /\ sm_root m = r_source_root r
    /\ (forall i, get_source m i = option_map (join_rule (r_source_root r)) (znth_opt (map (odefault []) sources) i))
    /\ sm_debug_id m = (match r_debug_id r with Some d => Some d | None => r_debug_id_new r end)
    /\ sm_file m = option_map file_of (r_file r)
    /\ sm_contents m = odefault [] (r_sources_content r).
Proof. exact C02Regular.C02_regular. Qed.
Print Assumptions C02_regular.

(* kind dispatch: a document with `sections` decodes as an index map (or not at all), else one with `x_facebook_sources`
   as a Hermes map, everything else as a regular map -- whatever other keys the document holds *)
Theorem C02_dispatch : forall f r,
  match decode_common (S f) r with
  | Ok (DIndex _ _) => r_sections r <> None
  | Ok (DHermes _) => r_sections r = None /\ r_fb_sources r <> None
  | Ok (DRegular _) => r_sections r = None /\ r_fb_sources r = None
  | Err _ | Panic _ => True
  end.
Proof.
  intros f r. cbn [decode_common]. destruct (r_sections r) as [secs|].
  - match goal with |- context [bind ?x _] => destruct x end; cbn [bind]; try exact I. discriminate.
  - destruct (r_fb_sources r) as [fb|].
    + destruct (decode_hermes r); cbn [bind]; try exact I. split; [reflexivity|discriminate].
    + destruct (decode_regular r); cbn [bind]; try exact I. split; reflexivity.
Qed.
Print Assumptions C02_dispatch.
