From SM Require Import Model.Base Model.Mappings Spec.Mappings Proofs.DecodeSpec.
Theorem C06_segment : forall nsrc nnames dst_line rmi idx seg col st,
  nsrc <= NONE -> nnames <= NONE -> dst_ok st -> is_u32 col = true ->
  decode_segment nsrc nnames dst_line rmi idx seg col st = spec_segment nsrc nnames dst_line (nth idx rmi false) seg col st
  /\ (forall r, decode_segment nsrc nnames dst_line rmi idx seg col st = Ok r -> is_u32 (fst r) = true /\ dst_ok (snd r)).
Proof. exact DecodeSpec.C06_segment. Qed.
Print Assumptions C06_segment.

From SM Require Import Spec.Vlq Proofs.DecodeTotal Proofs.RejectProofs.
Check C06_whole : forall nsrc nnames mappings, nsrc <= NONE -> nnames <= NONE ->
  decode_mappings nsrc nnames mappings [] = spec_decode_mappings nsrc nnames mappings.
Check C06_foreign_byte : forall nsrc nn mappings b, nsrc <= NONE -> nn <= NONE ->
  In b mappings -> b <> 59 -> b <> 44 -> digit_of b = None -> exists e, decode_mappings nsrc nn mappings [] = Err e.
Check C06_arity. Check C06_source_range. Check C06_name_range. Check C06_unterminated. Check C06_14_digits.
