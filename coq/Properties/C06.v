From SM Require Import Model.Base Model.Mappings Spec.Mappings Proofs.DecodeSpec.
Theorem C06_segment : forall nsrc nnames dst_line rmi idx seg col st,
  nsrc <= NONE -> nnames <= NONE -> dst_ok st -> is_u32 col = true ->
  decode_segment nsrc nnames dst_line rmi idx seg col st = spec_segment nsrc nnames dst_line (nth idx rmi false) seg col st
  /\ (forall r, decode_segment nsrc nnames dst_line rmi idx seg col st = Ok r -> is_u32 (fst r) = true /\ dst_ok (snd r)).
Proof. exact DecodeSpec.C06_segment. Qed.
Print Assumptions C06_segment.

From SM Require Import Spec.Vlq Proofs.DecodeTotal Proofs.RejectProofs.
(* the whole string: the reader IS the independent reading, for every byte string *)
Theorem C06_whole : forall (nsrc nnames : Z) (mappings : bytes),
  nsrc <= NONE -> nnames <= NONE ->
  decode_mappings nsrc nnames mappings [] = spec_decode_mappings nsrc nnames mappings.
Proof. exact DecodeTotal.C06_whole. Qed.
Print Assumptions C06_whole.

(* the clauses of the statement, one by one *)
Theorem C06_foreign_byte : forall (nsrc nn : Z) (mappings : list Z) (b : Z),
  nsrc <= NONE -> nn <= NONE -> In b mappings -> b <> 59 -> b <> 44 -> digit_of b = None ->
  exists e : error, decode_mappings nsrc nn mappings [] = Err e.
Proof. exact RejectProofs.C06_foreign_byte. Qed.
Print Assumptions C06_foreign_byte.

Theorem C06_arity : forall (nsrc nn dl : Z) (fl : bool) (seg : bytes) (col : Z) (st : dstate) (nums : list Z),
  spec_parse seg = Ok nums ->
  length nums = 2%nat \/ length nums = 3%nat \/ (6 <= length nums)%nat ->
  spec_segment nsrc nn dl fl seg col st = Err EBadSegmentSize.
Proof. exact RejectProofs.C06_arity. Qed.
Print Assumptions C06_arity.

Theorem C06_source_range : forall (nsrc nn dl : Z) (fl : bool) (seg : bytes) (col : Z) (st : dstate) (c s l k : Z) (rest : list Z),
  spec_parse seg = Ok (c :: s :: l :: k :: rest) -> (length rest <= 1)%nat ->
  d_src st + s < 0 \/ nsrc <= d_src st + s -> spec_segment nsrc nn dl fl seg col st = Err EBadSourceRef.
Proof. exact RejectProofs.C06_source_range. Qed.
Print Assumptions C06_source_range.

Theorem C06_name_range : forall (nsrc nn dl : Z) (fl : bool) (seg : bytes) (col : Z) (st : dstate) (c s l k n : Z),
  spec_parse seg = Ok [c; s; l; k; n] -> 0 <= d_src st + s < nsrc ->
  d_name st + n < 0 \/ nn <= d_name st + n -> spec_segment nsrc nn dl fl seg col st = Err EBadNameRef.
Proof. exact RejectProofs.C06_name_range. Qed.
Print Assumptions C06_name_range.

Theorem C06_unterminated : forall (s : list Z) (c : Z), is_cont c -> exists e : error, spec_parse (s ++ [c]) = Err e.
Proof. exact RejectProofs.C06_unterminated. Qed.
Print Assumptions C06_unterminated.

Theorem C06_14_digits : forall cs rest : list Z,
  Forall is_cont cs -> (13 <= length cs)%nat -> exists e : error, spec_parse (cs ++ rest) = Err e.
Proof. exact RejectProofs.C06_14_digits. Qed.
Print Assumptions C06_14_digits.
