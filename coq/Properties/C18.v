From SM Require Import Model.Base Spec.Base64 Proofs.Base64Proofs.
Theorem C18_b64 : forall bs, Forall byte bs -> b64_decode (b64_encode bs) = Some bs.
Proof. exact Base64Proofs.C18_b64. Qed.
Print Assumptions C18_b64.

From SM Require Import Model.Detector Proofs.LocateProofs.
(* reference discovery: the FIRST line that begins with either prefix; legacy iff it begins "//@"; the URL is the rest of
   the line, trimmed; nothing iff no line begins that way (for any white-space class and any two prefixes) *)
Theorem C18_locate_lines : forall (is_ws : Z -> bool) (p_new p_legacy : bytes) (plen : nat) (ls : list bytes),
  match Detector.locate_lines is_ws p_new p_legacy plen ls with
  | Some r =>
      exists (pre : list bytes) (l : bytes) (post : list bytes),
        ls = pre ++ l :: post /\
        Forall (fun x : bytes => has_prefix p_new p_legacy x = false) pre /\
        has_prefix p_new p_legacy l = true /\
        r = (if starts_with l [47; 47; 64]
             then Detector.LegacyRef (Detector.trim is_ws (skipn plen l))
             else Detector.Ref (Detector.trim is_ws (skipn plen l)))
  | None => Forall (fun l : bytes => has_prefix p_new p_legacy l = false) ls
  end.
Proof. exact LocateProofs.C18_locate_lines. Qed.
Print Assumptions C18_locate_lines.
From SM Require Import Model.DataUrl Proofs.DataUrlProofs.
Theorem C18_data_url : forall (A : Type) (encode : A -> bytes) (decode_slice : bytes -> outcome A) m,
  Forall byte (encode m) ->
  decode_data_url decode_slice PREAMBLES_IN (to_data_url encode PREAMBLE_OUT m) = decode_slice (encode m).
Proof. exact @DataUrlProofs.C18_data_url. Qed.
Print Assumptions C18_data_url.
From SM Require Import Model.Mappings Model.Glb Model.SourceMap Model.Rewrite Model.Raw Proofs.DetectProofs.
Theorem C18_detected : forall f d, is_sourcemap_common (minimal_of (dm_as_raw (S f) d)) = true.
Proof. exact DetectProofs.C18_detected. Qed.
Print Assumptions C18_detected.

(* the produced data URL placed in a sourceMappingURL comment (either form) after lines that do not begin with a prefix is
   discovered as written and decodes to what the serialised bytes decode to *)
From SM Require Import Proofs.EmbeddedProofs.
Theorem C18_embedded : forall (is_ws : Z -> bool) (p_new p_legacy : bytes) (A : Type) (encode : A -> bytes) (decode_slice : bytes -> outcome A) pre post m,
  let url := to_data_url encode PREAMBLE_OUT m in
  Forall (fun l => has_prefix p_new p_legacy l = false) pre ->
  Detector.trim is_ws url = url -> Forall byte (encode m) ->
  (starts_with (p_new ++ url) [47; 47; 64] = false ->
   exists r, Detector.locate_lines is_ws p_new p_legacy (length p_new) (pre ++ (p_new ++ url) :: post) = Some r
             /\ get_embedded decode_slice r = decode_slice (encode m))
  /\ (starts_with (p_legacy ++ url) [47; 47; 64] = true ->
   exists r, Detector.locate_lines is_ws p_new p_legacy (length p_legacy) (pre ++ (p_legacy ++ url) :: post) = Some r
             /\ get_embedded decode_slice r = decode_slice (encode m)).
Proof. exact @EmbeddedProofs.C18_embedded. Qed.
Print Assumptions C18_embedded.
