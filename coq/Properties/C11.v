(* C11 — VLQ encoding and decoding are exact inverses and match the standard. Statements only. *)
From SM Require Import Model.Base Model.Gen_B64 Model.Vlq Spec.Vlq Proofs.VlqProofs.

Theorem C11_decode_encode : forall ns, ns <> [] -> Forall (fun n => - 2 ^ 62 < n < 2 ^ 62) ns ->
  exists s, generate_vlq_segment ns = Some s /\ parse_vlq_segment s = Ok ns.
Proof. exact VlqProofs.C11_decode_encode. Qed.
Print Assumptions C11_decode_encode.

Theorem C11_matches_standard : forall s, parse_vlq_segment s = spec_parse s.
Proof. exact VlqProofs.C11_matches_standard. Qed.
Print Assumptions C11_matches_standard.

Theorem C11_table_inverts : forall d, 0 <= d < 64 -> b64_lookup (nth (Z.to_nat d) B64_CHARS 0) = d.
Proof. exact table_inverts. Qed.
Print Assumptions C11_table_inverts.

Theorem C11_table_foreign : forall c, digit_of c = None -> b64_lookup c < 0.
Proof. exact table_foreign. Qed.
Print Assumptions C11_table_foreign.

Theorem C11_alphabet : B64_CHARS = std_alphabet.
Proof. exact alphabet_std. Qed.
Print Assumptions C11_alphabet.

(* non-vacuity *)
Example C11_example : parse_vlq_segment [71;65;65;73;65] = Ok [3;0;0;4;0] /\ generate_vlq_segment [-1; 4294967295] <> None.
Proof. split; [vm_compute; reflexivity | vm_compute; discriminate]. Qed.

From SM Require Import Proofs.VlqCanon.
Theorem C11_encode_decode : forall s ns, canonical s -> parse_vlq_segment s = Ok ns -> generate_vlq_segment ns = Some s.
Proof. exact VlqCanon.C11_encode_decode. Qed.
Print Assumptions C11_encode_decode.
