(* non-vacuity of C08_agree: a two-section index (second section starts mid-line) meets every hypothesis *)
From SM Require Import Model.Base Model.Mappings Model.Glb Model.SourceMap Model.Rewrite
  Proofs.BaseLemmas Proofs.IndexProofs Proofs.FlattenProofs Proofs.AgreeProofs.
From Coq Require Import Sorted.

Definition ex_m1 : smap := sm_new None [mkTok 0 0 5 1 0 NONE false; mkTok 0 4 6 2 0 0 true; mkTok 1 2 7 3 0 NONE false] [[110]] [[97]] None.
Definition ex_m2 : smap := sm_new None [mkTok 0 0 1 1 0 NONE false; mkTok 2 1 2 2 0 NONE false] [] [[98]] None.
Definition ex_secs : list (pos * smap) := [((0, 0), ex_m1); ((1, 10), ex_m2)].

Ltac sorted_by_compute := apply sortedb_sorted; vm_compute; reflexivity.
Ltac forall_by_compute := repeat (constructor; [unfold nonneg, plt, ple, tok_key; cbn; lia|]); try constructor.

Example C08_agree_hyps : wf_index ex_secs /\ total_tokens ex_secs < NONE.
Proof.
  split; [|vm_compute; reflexivity].
  unfold wf_index, ex_secs. cbn [map untag fst snd].
  constructor; [sorted_by_compute| forall_by_compute | |].
  - constructor; [|constructor]. cbn [fst snd]. split; [unfold plt; cbn; lia|]. forall_by_compute.
  - constructor; [sorted_by_compute | forall_by_compute | constructor | constructor].
Qed.
Example C08_agree_fires :
  exists fm, flatten 2 None (map mk ex_secs) = Ok fm
    /\ exists m t o, dm_lookup 3 (DIndex None (map mk ex_secs)) 1 12 = Ok (Some (m, t, o)) /\ t_sl t = 1
    /\ exists i' t', lookup_token (sm_tokens fm) 1 12 = Ok (Some (i', t', o)) /\ t_sl t' = 1 /\ t_dc t' = 10.
Proof.
  eexists. split; [vm_compute; reflexivity|]. eexists _, _, _. split; [vm_compute; reflexivity|]. split; [reflexivity|].
  eexists _, _. split; [vm_compute; reflexivity|]. split; reflexivity.
Qed.
