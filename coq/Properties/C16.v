From SM Require Import Model.Base Model.SourceView Spec.SourceView Model.Conc Proofs.SourceViewProofs Proofs.ConcProofs.
Theorem C16_safe : forall src, zlen (L src) <= u32_max -> forall calls0 ts s,
  Forall (Forall call_ok) calls0 -> reach src calls0 ts s ->
  global_inv src ts s /\ length ts = length calls0
  /\ (forall i cs t, nth_error calls0 i = Some cs -> nth_error ts i = Some t -> thread_answers_ok src cs t).
Proof. exact ConcProofs.C16_safe. Qed.
Print Assumptions C16_safe.

(* no deadlock: in every reachable state with an unfinished call some thread has an enabled step *)
Theorem C16_no_deadlock : forall src, zlen (L src) <= u32_max -> forall calls0 ts s,
  Forall (Forall call_ok) calls0 -> reach src calls0 ts s ->
  (exists i t, nth_error ts i = Some t /\ th_pc t <> PDone) ->
  exists i t ch t' s', nth_error ts i = Some t /\ step true src i ch t s = Some (t', s').
Proof.
  intros src Hsmall calls0 ts s Hok Hr Hun.
  destruct (C16_safe src Hsmall calls0 ts s Hok Hr) as (Hinv & _). exact (step_enabled src ts s Hinv Hun).
Qed.
Print Assumptions C16_no_deadlock.

(* termination: under any schedule the number of steps is at most 6·calls + 5·threads + |text| + 1 *)
Theorem C16_terminates : forall src, zlen (L src) <= u32_max -> forall calls0 n ts s,
  Forall (Forall call_ok) calls0 -> reach_n src calls0 n ts s ->
  Z.of_nat n <= measure src (map init_thread calls0) init_shared.
Proof. exact ConcProofs.C16_terminates. Qed.
Print Assumptions C16_terminates.
