(* C05 (partial: the crate's own code; serde_json, bitvec, data_encoding, debugid, url are outside the model) —
   none of the modelled operations panics, whatever the input. *)
From SM Require Import Model.Base Model.Mappings Model.Glb Model.SourceMap Model.Rewrite Model.Raw Model.RamBundle
  Model.SourceView Spec.SourceView Model.NameRes Spec.NameRes
  Proofs.BaseLemmas Proofs.BuilderProofs Proofs.DecodeTotal Proofs.LookupProofs Proofs.FlattenProofs Proofs.RewriteProofs Proofs.NameResProofs
  Proofs.SourceViewProofs Proofs.RamProofs Proofs.NestedProofs.

(* every `mappings` / `rangeMappings` pair: an answer or an error *)
Theorem C05_decode_mappings : forall nsrc nnames mappings range_mappings,
  nsrc <= NONE -> nnames <= NONE -> no_panic (decode_mappings nsrc nnames mappings range_mappings).
Proof. exact C05_decode_mappings_total. Qed.
Print Assumptions C05_decode_mappings.

(* the glue of decode_regular adds no panic site *)
Theorem C05_decode_regular : forall r,
  zlen (odefault [] (r_sources r)) <= NONE -> zlen (odefault [] (r_names r)) <= NONE -> no_panic (decode_regular r).
Proof.
  intros r Hs Hn. unfold decode_regular.
  pose proof (C05_decode_mappings_total _ _ (odefault [] (r_mappings r)) (odefault [] (r_range_mappings r)) Hs Hn) as H.
  destruct (decode_mappings _ _ _ _); cbn [bind]; [exact I|exact I|exact H].
Qed.
Print Assumptions C05_decode_regular.

(* lookups at any position of any ordered map *)
Theorem C05_lookup : forall toks line col,
  sorted tok_key toks -> Forall (fun t => is_u32 (t_dc t) = true) toks -> is_u32 col = true ->
  no_panic (lookup_token toks line col).
Proof.
  intros toks line col H1 H2 H3. pose proof (C07_lookup toks line col H1 H2 H3) as H.
  destruct (lookup_token toks line col) as [[[[i t] o]|]|e|p]; try exact I. contradiction.
Qed.
Print Assumptions C05_lookup.

(* flatten: CannotFlatten or a map *)
Theorem C05_flatten : forall f file secs, total_tokens secs < NONE ->
  match flatten (S f) file (map mk secs) with Panic _ => False | Err e => e = ECannotFlatten | Ok _ => True end.
Proof.
  intros f file secs Hsz. rewrite flatten_regular.
  pose proof (go_reg_spec secs (builder_new file) (builder_new_inv file) ltac:(constructor)) as H.
  change (zlen (b_sources (builder_new file))) with 0 in H. change (zlen (b_names (builder_new file))) with 0 in H.
  specialize (H ltac:(lia) ltac:(lia)). destruct (go_reg secs (builder_new file)); cbn [bind]; [exact I|exact H|exact H].
Qed.
Print Assumptions C05_flatten.

(* rewrite with any options *)
Theorem C05_rewrite : forall m o, sorted tok_key (sm_tokens m) -> zlen (sm_tokens m) < NONE ->
  match rewrite_with_mapping m o with Panic _ => False | Err _ => False | Ok _ => True end.
Proof.
  intros m o H1 H2. pose proof (C09_tokens m o H1 H2) as H. destruct (rewrite_with_mapping m o) as [[m' mp]|e|p]; [exact I|exact H|exact H].
Qed.
Print Assumptions C05_rewrite.

(* function-name resolution over any text *)
Theorem C05_name_resolution : forall is_start is_cont is_ws get_line window tokens i name,
  sorted tok_key tokens -> Forall (tok_ok get_line) tokens ->
  no_panic (get_original_function_name is_start is_cont is_ws window get_line tokens i name).
Proof. intros. rewrite C17_resolve_sorted by assumption. exact I. Qed.
Print Assumptions C05_name_resolution.

(* line index: any request history on any text *)
Theorem C05_source_view : forall src rs, zlen (L src) <= u32_max ->
  Forall (fun r => match r with RLine i => 0 <= i | RCount => True end) rs ->
  no_panic (run_history src rs sv_new).
Proof. intros src rs H1 H2. rewrite (C15_histories src rs H1 H2). exact I. Qed.
Print Assumptions C05_source_view.

(* RAM bundles: parsing and every accessor *)
Theorem C05_ram_bundle : forall bs, (forall b, parse bs = Ok b -> is_panic (startup_code b) = false /\ forall id, is_panic (get_module b id) = false)
  /\ is_panic (parse bs) = false.
Proof. exact C20_no_panic. Qed.
Print Assumptions C05_ram_bundle.

(* "... and the serialised form decodes again": every decoded regular map is a well-formed map, so its serialised form
   decodes, and serialising that result again gives the same value (C01's last sentence, literally for decoded maps).
   Hypotheses: fewer than 2^32-1 sources and names, fewer than 2^32 lines in `mappings` (a 4 GiB string). *)
From SM Require Import Proofs.RoundtripProofs Proofs.DecodeWf.
Theorem C05_decoded_is_wf : forall r m,
  zlen (odefault [] (r_sources r)) <= NONE -> zlen (odefault [] (r_names r)) <= NONE ->
  zlen (split_on 59 (odefault [] (r_mappings r))) <= two32 ->
  decode_regular r = Ok m -> wf_map m.
Proof. exact DecodeWf.decode_regular_wf. Qed.
Print Assumptions C05_decoded_is_wf.
Theorem C05_reencode_decodes : forall r m,
  zlen (odefault [] (r_sources r)) <= NONE -> zlen (odefault [] (r_names r)) <= NONE ->
  zlen (split_on 59 (odefault [] (r_mappings r))) <= two32 ->
  decode_regular r = Ok m ->
  exists m', decode_regular (sm_as_raw m) = Ok m' /\ sm_as_raw m' = sm_as_raw m.
Proof. exact DecodeWf.C05_reencode_decodes. Qed.
Print Assumptions C05_reencode_decodes.
