From SM Require Import Model.Base Model.Mappings Model.Adjust Proofs.AdjustProofs.
Theorem C10_sweep_partial : forall adjs os, chain adjs -> chain os -> sweep adjs os = mapM_place (all_pairs adjs os).
Proof. exact sweep_spec. Qed.
Print Assumptions C10_sweep_partial.

From SM Require Import Spec.Adjust.
Theorem C10_strict : forall orig adj,
  Forall small_tok orig -> Forall small_tok adj ->
  strict_keys dst_key (isort dst_key orig) -> strict_keys src_key (isort src_key adj) ->
  adjust_mappings orig adj = Ok (spec_adjust orig adj).
Proof. exact AdjustProofs.C10_strict. Qed.
Print Assumptions C10_strict.
(* the known-finding class is inhabited and the property fails on it (witness of DESIGN.md, finding 18) *)
Example C10_dup_refuted :
  let o := [mkTok 0 5 1 1 0 NONE false; mkTok 0 5 2 2 0 NONE false; mkTok 0 10 3 3 0 NONE false] in
  let a := [mkTok 0 0 0 0 0 NONE false] in
  has_empty_stretch dst_key o = true /\ adjust_mappings o a <> Ok (spec_adjust o a).
Proof. split; [vm_compute; reflexivity|vm_compute; discriminate]. Qed.
