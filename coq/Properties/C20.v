From SM Require Import Model.Base Model.RamBundle Spec.RamBundle Proofs.RamProofs.
Theorem C20_no_panic : forall bs, (forall b, parse bs = Ok b -> is_panic (startup_code b) = false /\ forall id, is_panic (get_module b id) = false) /\ is_panic (parse bs) = false.
Proof. exact RamProofs.C20_no_panic. Qed.
Print Assumptions C20_no_panic.
Theorem C20_recognise : forall bs, Forall byteP bs -> is_ram_bundle bs = true <-> (12 <= zlen bs /\ exists rest, bs = le32 RAM_BUNDLE_MAGIC ++ rest).
Proof. exact RamProofs.C20_recognise. Qed.
Print Assumptions C20_recognise.
Theorem C20_parse_partial : forall b, fits b -> exists p, parse (layout b) = Ok p /\ b_count p = zlen (ab_modules b) /\ startup_code p = Ok (ab_startup b)
  /\ b_bytes p = layout b /\ b_startup_off p = 12 + 8 * zlen (ab_modules b).
Proof. exact RamProofs.C20_parse. Qed.
Print Assumptions C20_parse_partial.

Theorem C20_module : forall b pre x post, fits b -> ab_modules b = pre ++ x :: post ->
  exists p, parse (layout b) = Ok p /\ get_module p (zlen pre) = Ok x.
Proof. exact RamProofs.C20_module. Qed.
Print Assumptions C20_module.

(* an id past the table is an error; the module iterator yields exactly the present modules, in id order *)
Theorem C20_past_table : forall b id, fits b -> zlen (ab_modules b) <= id ->
  exists p, parse (layout b) = Ok p /\ get_module p id = Err ERamIndex.
Proof. exact RamProofs.C20_past_table. Qed.
Print Assumptions C20_past_table.
Theorem C20_iter : forall b, fits b ->
  exists p, parse (layout b) = Ok p /\ iter_modules p = present (ab_modules b) 0.
Proof. exact RamProofs.C20_iter. Qed.
Print Assumptions C20_iter.

(* ANY physical layout: whatever buffer holds the header fields, the startup code, the table entries and each module body
   (with its NUL) where the entries say -- bodies in any order, with gaps or shared bytes -- is parsed back exactly *)
From SM Require Import Proofs.RamAnyLayout.
Theorem C20_any_layout : forall bs startup mods, wf_indexed bs startup mods ->
  exists p, parse bs = Ok p /\ b_count p = zlen mods /\ startup_code p = Ok startup
            /\ (forall pre x post, mods = pre ++ x :: post -> get_module p (zlen pre) = Ok x)
            /\ (forall id, zlen mods <= id -> get_module p id = Err ERamIndex).
Proof. exact RamAnyLayout.C20_any_layout. Qed.
Print Assumptions C20_any_layout.
