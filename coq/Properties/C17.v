From SM Require Import Model.Base Model.Mappings Model.SourceView Model.NameRes Spec.NameRes Proofs.BaseLemmas Proofs.NameResProofs.
(* for every text, every sorted token list whose columns are not inside a surrogate pair, every
   index, name, window and character classes: the cached reverse walk never panics and resolves
   exactly as the from-scratch specification says *)
Theorem C17_resolve : forall is_start is_cont is_ws get_line window tokens i name,
  sorted tok_key tokens -> Forall (tok_ok get_line) tokens ->
  get_original_function_name is_start is_cont is_ws window get_line tokens i name
  = Ok (spec_resolve is_start is_cont is_ws window get_line tokens i name).
Proof. exact NameResProofs.C17_resolve_sorted. Qed.
Print Assumptions C17_resolve.

(* the excluded class is inhabited and the conclusion fails on it: "𝒜function x" with a token at
   column 1 (inside the pair) and one at column 11; the cache walks back to the start of the pair *)
Example C17_inside_pair_refuted :
  let is_start c := ((97 <=? c) && (c <=? 122)) || (c =? 119964) in
  let is_ws c := c =? 32 in
  let line := [119964; 102;117;110;99;116;105;111;110; 32; 120] in
  let get_line l := if l =? 0 then Some line else None in
  let toks := [mkTok 0 1 0 0 0 0 false; mkTok 0 11 0 0 0 1 false] in
  inside_pair line 0 1 = true
  /\ get_original_function_name is_start is_start is_ws 128 get_line toks 1 [120]
     <> Ok (spec_resolve is_start is_start is_ws 128 get_line toks 1 [120]).
Proof. split; [vm_compute; reflexivity|vm_compute; discriminate]. Qed.

(* the position-based entry points (SourceMap / SourceMapIndex / DecodedMap::get_original_function_name): the position is looked
   up (closest preceding token, first among equals on an exact hit: C04) and the name is resolved from the token found *)
From SM Require Import Model.Glb Spec.Glb Proofs.GlbProofs Proofs.NameResEntry.
Theorem C17_by_position : forall is_start is_cont is_ws window get_line tokens line col name,
  sorted tok_key tokens -> Forall (tok_ok get_line) tokens -> Forall (fun t => is_u32 (t_dc t) = true) tokens -> is_u32 col = true ->
  match lookup_token tokens line col with
  | Ok (Some (i, t, _)) =>
      glb_spec tok_key tokens (line, col) (Some (i, t)) /\
      sm_get_original_function_name is_start is_cont is_ws window get_line tokens line col name
      = Ok (spec_resolve is_start is_cont is_ws window get_line tokens i name)
  | Ok None => (forall t, In t tokens -> plt (line, col) (tok_key t))
               /\ sm_get_original_function_name is_start is_cont is_ws window get_line tokens line col name = Ok None
  | _ => False
  end.
Proof. exact NameResEntry.C17_by_position. Qed.
Print Assumptions C17_by_position.
