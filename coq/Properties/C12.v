From SM Require Import Model.Base Model.Header Proofs.HeaderProofs.
Theorem C12_strip : forall cs, nonempty_chunks cs -> strip_rel (reader_run cs) (strip_junk_header (concat cs)).
Proof. exact HeaderProofs.C12_strip. Qed.
Print Assumptions C12_strip.

(* whatever the JSON layer (a section variable that skips a leading line feed): same map or an error on both paths *)
Theorem C12_decode : forall (A : Type) (parse : bytes -> outcome A), (forall r, parse (10 :: r) = parse r) ->
  forall cs, nonempty_chunks cs -> agree (decode_via parse (reader_run cs)) (decode_via parse (strip_junk_header (concat cs))).
Proof. exact @HeaderProofs.C12_decode. Qed.
Print Assumptions C12_decode.

(* a base64 data URL decodes to the same map as its payload: for every payload and every accepted preamble,
   whatever the slice decoder does with the payload (section variable) *)
From SM Require Import Spec.Base64 Model.DataUrl Proofs.Base64Proofs Proofs.DataUrlProofs.
Theorem C12_data_url : forall (A : Type) (decode_slice : bytes -> outcome A) pre payload,
  In pre PREAMBLES_IN -> Forall byte payload ->
  decode_data_url decode_slice PREAMBLES_IN (pre ++ b64_encode payload) = decode_slice payload.
Proof.
  intros A decode_slice pre payload Hin Hb.
  assert (Hacc : accepts PREAMBLES_IN pre = true).
  { unfold PREAMBLES_IN in Hin. cbn [In] in Hin. destruct Hin as [<-|[<-|[]]]; vm_compute; reflexivity. }
  unfold decode_data_url. rewrite (accepts_strip PREAMBLES_IN pre Hacc), C18_b64 by exact Hb. reflexivity.
Qed.
Print Assumptions C12_data_url.
