From SM Require Import Model.Base Model.Header Proofs.HeaderProofs.
Theorem C12_strip : forall cs, nonempty_chunks cs -> strip_rel (reader_run cs) (strip_junk_header (concat cs)).
Proof. exact HeaderProofs.C12_strip. Qed.
Print Assumptions C12_strip.

(* whatever the JSON layer (a section variable that skips a leading line feed): same map or an error on both paths *)
Theorem C12_decode : forall (A : Type) (parse : bytes -> outcome A), (forall r, parse (10 :: r) = parse r) ->
  forall cs, nonempty_chunks cs -> agree (decode_via parse (reader_run cs)) (decode_via parse (strip_junk_header (concat cs))).
Proof. exact @HeaderProofs.C12_decode. Qed.
Print Assumptions C12_decode.
