From SM Require Import Model.Base Model.SourceView Spec.SourceView Proofs.SourceViewProofs.
Theorem C15_histories : forall src rs, zlen (L src) <= u32_max ->
  Forall (fun r => match r with RLine i => 0 <= i | RCount => True end) rs ->
  run_history src rs sv_new = Ok (map (spec_answer src) rs).
Proof. exact SourceViewProofs.C15_histories. Qed.
Print Assumptions C15_histories.

From SM Require Import Proofs.SliceProofs.
Theorem C15_slice : forall line c n, 0 <= c -> 0 <= n -> start_inside_pair line c n = false ->
  get_line_slice line c n = covering line c n.
Proof. exact SliceProofs.C15_slice. Qed.
Print Assumptions C15_slice.
(* the known-finding class is inhabited and the statement fails on it: "abc👌def", (4, 2) *)
Example C15_inside_pair_refuted :
  let line := [97; 98; 99; 128076; 100; 101; 102] in
  start_inside_pair line 4 2 = true /\ get_line_slice line 4 2 <> covering line 4 2.
Proof. split; [vm_compute; reflexivity|vm_compute; discriminate]. Qed.

(* the line iterator: get_line 0, get_line 1, ... until the first None -- from any reachable state of the view it yields all
   the lines in order and leaves the view in a reachable state (so it composes with any request history) *)
From SM Require Import Proofs.LinesIter.
Theorem C15_lines_iter : forall src st, Inv src st ->
  exists st', lines_from src (S (length (L src))) 0 st [] = Ok (st', L src) /\ Inv src st'.
Proof. exact LinesIter.C15_lines_iter. Qed.
Print Assumptions C15_lines_iter.
