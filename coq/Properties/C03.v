(* C03 — the serialised form is valid v3 for an independent reader. *)
From SM Require Import Model.Base Model.Mappings Model.Glb Model.SourceMap Model.Rewrite Model.Raw Spec.Mappings
  Proofs.CodecEvents Proofs.CodecCore Proofs.CodecTheorems Proofs.DecodeTotal.

(* the independent reading of the written `mappings` is the map's tokens (up to the repeated tokens the writer skips) *)
Theorem C03_independent : forall nsrc nn, nsrc <= NONE -> nn <= NONE -> forall ts,
  Forall (wf_tok nsrc nn) ts -> lines_ok 0 ts -> Forall (fun t => t_range t = false) ts ->
  exists toks, spec_decode_mappings nsrc nn (serialize_mappings nn ts) = Ok toks
               /\ map (norm nn) toks = map (norm nn) (dedup nn None ts).
Proof.
  intros nsrc nn Hs Hn ts Hwf Hl Hnr.
  destruct (C03_mappings_no_ranges nsrc nn Hs Hn ts Hwf Hl Hnr) as (toks & Hd & He).
  exists toks. split; [|exact He]. rewrite <- (C06_whole nsrc nn _ Hs Hn). exact Hd.
Qed.
Print Assumptions C03_independent.

(* which keys are written: a key is absent exactly when the map has no value for it *)
Theorem C03_keys : forall m,
  let r := sm_as_raw m in
  r_version r = Some 3
  /\ r_sources r = Some (map Some (sm_sources m)) /\ r_names r = Some (map JStr (sm_names m))
  /\ r_file r = option_map JStr (sm_file m) /\ r_source_root r = sm_root m /\ r_debug_id r = sm_debug_id m /\ r_debug_id_new r = None
  /\ (r_ignore_list r = None <-> sm_ignore m = []) /\ (forall l, r_ignore_list r = Some l -> l = sm_ignore m)
  /\ (r_sources_content r = None <-> forall i, (i < length (sm_sources m))%nat -> get_source_contents m (Z.of_nat i) = None)
  /\ r_sections r = None /\ r_fb_sources r = None.
Proof.
  intros m. unfold sm_as_raw. cbn.
  repeat (split; [reflexivity|]). split; [|split; [|split; [|split; reflexivity]]].
  - destruct (sm_ignore m); cbn; split; intros H; try reflexivity; discriminate.
  - intros l. destruct (sm_ignore m); cbn; intros H; inversion H; reflexivity.
  - set (cs := map (fun i => get_source_contents m (Z.of_nat i)) (seq 0 (length (sm_sources m)))).
    destruct (existsb (fun c => match c with Some _ => true | None => false end) cs) eqn:Ex; split; intros H; try reflexivity; try discriminate.
    + exfalso. apply existsb_exists in Ex. destruct Ex as (c & Hin & Hc). unfold cs in Hin. apply in_map_iff in Hin.
      destruct Hin as (i & <- & Hi). apply in_seq in Hi. rewrite H in Hc by lia. discriminate.
    + intros i Hi. destruct (get_source_contents m (Z.of_nat i)) eqn:E; [|reflexivity]. exfalso.
      assert (Hex : existsb (fun c => match c with Some _ => true | None => false end) cs = true).
      { apply existsb_exists. exists (Some b). split; [|reflexivity]. unfold cs. apply in_map_iff. exists i. split; [exact E|apply in_seq; lia]. }
      congruence.
Qed.
Print Assumptions C03_keys.

(* a reader with EXACT integer arithmetic (no reduction mod 2^32: a running value outside [0, 2^32) is an error for it)
   accepts the written `mappings` and reads the map's tokens too: every delta the writer emits is the exact difference *)
From SM Require Import Proofs.StrictProofs.
Theorem C03_strict : forall nsrc nn, nsrc <= NONE -> nn <= NONE -> forall ts,
  Forall (wf_tok nsrc nn) ts -> lines_ok 0 ts -> Forall (fun t => t_range t = false) ts ->
  exists toks, strict_decode_mappings nsrc nn (serialize_mappings nn ts) = Ok toks
               /\ map (norm nn) toks = map (norm nn) (dedup nn None ts).
Proof. exact StrictProofs.strict_reads_serialized. Qed.
Print Assumptions C03_strict.
